/-
  Byte level of the JavaScript stream reader (C20): the fatal streaming UTF-8 decoder in front of
  the line splitter.  (a) decoding does not depend on the chunking (invariant: the pending bytes are
  a proper prefix of a valid sequence); (b) round trip with core Lean's `String.utf8EncodeChar`, and
  the converse (only the canonical encoding is accepted); (c) truncated / invalid input is rejected;
  (d) the decoded pieces satisfy `GoodPieces`; (e) stream reading of byte chunks = bulk reading of
  the decoded whole.
-/
import Rbql.Model.Utf8
import Rbql.Proofs.ReaderJsLines
import Rbql.Theorems.C20
namespace Rbql

/-! ### `decodeCont` / `decodeOne`: extension of the input -/

theorem decodeCont_ok_append (k acc lo hi : Nat) (r more : Bytes) (c : Char) (rest : Bytes)
    (h : decodeCont k acc lo hi r = .ok c rest) :
    decodeCont k acc lo hi (r ++ more) = .ok c (rest ++ more) := by
  induction k generalizing acc lo hi r with
  | zero => simp only [decodeCont, DecStep.ok.injEq] at h ⊢; exact ⟨h.1, by rw [h.2]⟩
  | succ k ih =>
    cases r with
    | nil => simp [decodeCont] at h
    | cons b r =>
      simp only [decodeCont, List.cons_append] at h ⊢
      split at h
      · rename_i hb; rw [if_pos hb]; exact ih _ _ _ _ h
      · cases h

theorem decodeCont_invalid_append (k acc lo hi : Nat) (r more : Bytes)
    (h : decodeCont k acc lo hi r = .invalid) :
    decodeCont k acc lo hi (r ++ more) = .invalid := by
  induction k generalizing acc lo hi r with
  | zero => simp [decodeCont] at h
  | succ k ih =>
    cases r with
    | nil => simp [decodeCont] at h
    | cons b r =>
      simp only [decodeCont, List.cons_append] at h ⊢
      split at h
      · rename_i hb; rw [if_pos hb]; exact ih _ _ _ _ h
      · rename_i hb; rw [if_neg hb]

theorem decodeCont_ok_length (k acc lo hi : Nat) (r : Bytes) (c : Char) (rest : Bytes)
    (h : decodeCont k acc lo hi r = .ok c rest) : rest.length + k = r.length := by
  induction k generalizing acc lo hi r with
  | zero => simp only [decodeCont, DecStep.ok.injEq] at h; simp [h.2]
  | succ k ih =>
    cases r with
    | nil => simp [decodeCont] at h
    | cons b r =>
      simp only [decodeCont] at h
      split at h
      · have := ih _ _ _ _ h; simp only [List.length_cons]; omega
      · cases h

theorem decodeOne_ok_append (bs more : Bytes) (c : Char) (rest : Bytes)
    (h : decodeOne bs = .ok c rest) : decodeOne (bs ++ more) = .ok c (rest ++ more) := by
  cases bs with
  | nil => simp [decodeOne] at h
  | cons b r =>
    simp only [decodeOne, List.cons_append] at h ⊢
    split
    · rename_i h1; rw [if_pos h1] at h; simp only [DecStep.ok.injEq] at h ⊢; exact ⟨h.1, by rw [h.2]⟩
    · rename_i h1; rw [if_neg h1] at h
      split
      · rename_i h2; rw [if_pos h2] at h; exact decodeCont_ok_append _ _ _ _ _ _ _ _ h
      · rename_i h2; rw [if_neg h2] at h
        split
        · rename_i h3; rw [if_pos h3] at h; exact decodeCont_ok_append _ _ _ _ _ _ _ _ h
        · rename_i h3; rw [if_neg h3] at h
          split
          · rename_i h4; rw [if_pos h4] at h; exact decodeCont_ok_append _ _ _ _ _ _ _ _ h
          · rename_i h4; rw [if_neg h4] at h; cases h

theorem decodeOne_invalid_append (bs more : Bytes)
    (h : decodeOne bs = .invalid) : decodeOne (bs ++ more) = .invalid := by
  cases bs with
  | nil => simp [decodeOne] at h
  | cons b r =>
    simp only [decodeOne, List.cons_append] at h ⊢
    split
    · rename_i h1; rw [if_pos h1] at h; cases h
    · rename_i h1; rw [if_neg h1] at h
      split
      · rename_i h2; rw [if_pos h2] at h; exact decodeCont_invalid_append _ _ _ _ _ _ h
      · rename_i h2; rw [if_neg h2] at h
        split
        · rename_i h3; rw [if_pos h3] at h; exact decodeCont_invalid_append _ _ _ _ _ _ h
        · rename_i h3; rw [if_neg h3] at h
          split
          · rename_i h4; rw [if_pos h4] at h; exact decodeCont_invalid_append _ _ _ _ _ _ h
          · rfl

/-- a decoded sequence consumes between 1 and 4 bytes -/
theorem decodeOne_ok_length (bs : Bytes) (c : Char) (rest : Bytes) (h : decodeOne bs = .ok c rest) :
    rest.length < bs.length ∧ bs.length ≤ rest.length + 4 := by
  cases bs with
  | nil => simp [decodeOne] at h
  | cons b r =>
    simp only [decodeOne] at h
    split at h
    · simp only [DecStep.ok.injEq] at h; simp [h.2]
    · split at h
      · have := decodeCont_ok_length _ _ _ _ _ _ _ h; simp only [List.length_cons]; omega
      · split at h
        · have := decodeCont_ok_length _ _ _ _ _ _ _ h; simp only [List.length_cons]; omega
        · split at h
          · have := decodeCont_ok_length _ _ _ _ _ _ _ h; simp only [List.length_cons]; omega
          · cases h


/-! ### Fuel does not matter -/

theorem decodeGreedyFuel_fuel (n m : Nat) (bs : Bytes) (hn : bs.length ≤ n) (hm : bs.length ≤ m) :
    decodeGreedyFuel n bs = decodeGreedyFuel m bs := by
  induction n generalizing m bs with
  | zero =>
    cases bs with
    | nil => cases m <;> simp [decodeGreedyFuel]
    | cons b r => simp at hn
  | succ n ih =>
    cases bs with
    | nil => cases m <;> simp [decodeGreedyFuel]
    | cons b r =>
      cases m with
      | zero => simp at hm
      | succ m =>
        simp only [decodeGreedyFuel]
        cases hd : decodeOne (b :: r) with
        | ok c rest =>
          have := (decodeOne_ok_length _ _ _ hd).1
          simp only [List.length_cons] at this hn hm
          simp only
          rw [ih m rest (by omega) (by omega)]
        | incomplete => rfl
        | invalid => rfl

theorem decodeAllFuel_fuel (n m : Nat) (bs : Bytes) (hn : bs.length ≤ n) (hm : bs.length ≤ m) :
    decodeAllFuel n bs = decodeAllFuel m bs := by
  induction n generalizing m bs with
  | zero =>
    cases bs with
    | nil => cases m <;> simp [decodeAllFuel]
    | cons b r => simp at hn
  | succ n ih =>
    cases bs with
    | nil => cases m <;> simp [decodeAllFuel]
    | cons b r =>
      cases m with
      | zero => simp at hm
      | succ m =>
        simp only [decodeAllFuel]
        cases hd : decodeOne (b :: r) with
        | ok c rest =>
          have := (decodeOne_ok_length _ _ _ hd).1
          simp only [List.length_cons] at this hn hm
          simp only
          rw [ih m rest (by omega) (by omega)]
        | incomplete => rfl
        | invalid => rfl

/-- greedy decoding of a byte list (what one `decode(…, {stream: true})` call does to
`pending ++ chunk`) -/
def greedy (bs : Bytes) : Except Unit (Str × Bytes) := decodeGreedyFuel bs.length bs

theorem decodeChunk_eq (p ch : Bytes) : decodeChunk p ch = greedy (p ++ ch) := rfl

theorem greedy_nil : greedy [] = .ok ([], []) := rfl

/-- the recursion equation of `greedy`, without fuel -/
theorem greedy_cons (b : UInt8) (r : Bytes) :
    greedy (b :: r) =
      match decodeOne (b :: r) with
      | .ok c rest =>
        (match greedy rest with
         | .ok (s, p) => .ok (c :: s, p)
         | .error _ => .error ())
      | .incomplete => .ok ([], b :: r)
      | .invalid => .error () := by
  simp only [greedy, List.length_cons, decodeGreedyFuel]
  cases hd : decodeOne (b :: r) with
  | ok c rest =>
    have := (decodeOne_ok_length _ _ _ hd).1
    simp only [List.length_cons] at this
    simp only
    rw [decodeGreedyFuel_fuel r.length rest.length rest (by omega) (Nat.le_refl _)]
    rfl
  | incomplete => rfl
  | invalid => rfl

theorem decodeAll_nil : decodeAll [] = .ok [] := rfl

/-- the recursion equation of `decodeAll`, without fuel -/
theorem decodeAll_cons (b : UInt8) (r : Bytes) :
    decodeAll (b :: r) =
      match decodeOne (b :: r) with
      | .ok c rest =>
        (match decodeAll rest with
         | .ok s => .ok (c :: s)
         | .error _ => .error ())
      | .incomplete => .error ()
      | .invalid => .error () := by
  simp only [decodeAll, List.length_cons, decodeAllFuel]
  cases hd : decodeOne (b :: r) with
  | ok c rest =>
    have := (decodeOne_ok_length _ _ _ hd).1
    simp only [List.length_cons] at this
    simp only
    rw [decodeAllFuel_fuel r.length rest.length rest (by omega) (Nat.le_refl _)]
    rfl
  | incomplete => rfl
  | invalid => rfl

/-- the flush: pending bytes at the end of the input are an error -/
def finish : Except Unit (Str × Bytes) → Except Unit Str
  | .ok (s, []) => .ok s
  | .ok (_, _ :: _) => .error ()
  | .error _ => .error ()

/-- whole-input decoding = greedy decoding, then flush -/
theorem decodeAll_eq_finish (bs : Bytes) : decodeAll bs = finish (greedy bs) := by
  induction hn : bs.length using Nat.strongRecOn generalizing bs with
  | ind n ih =>
    cases bs with
    | nil => rfl
    | cons b r =>
      rw [decodeAll_cons, greedy_cons]
      cases hd : decodeOne (b :: r) with
      | ok c rest =>
        have := (decodeOne_ok_length _ _ _ hd).1
        simp only
        rw [ih rest.length (by omega) rest rfl]
        cases hg : greedy rest with
        | error e => rfl
        | ok sp =>
          obtain ⟨s, p⟩ := sp
          cases p <;> rfl
      | incomplete => rfl
      | invalid => rfl

/-- the pending bytes of a streaming decoder are always a proper prefix of a valid sequence -/
def Pending (p : Bytes) : Prop := decodeOne p = .incomplete

theorem Pending_nil : Pending [] := rfl

theorem greedy_of_pending (p : Bytes) (h : Pending p) : greedy p = .ok ([], p) := by
  cases p with
  | nil => rfl
  | cons b r => rw [greedy_cons, h]

/-- invariant: what `greedy` leaves undecoded is pending -/
theorem greedy_pending (bs : Bytes) (s : Str) (p : Bytes) (h : greedy bs = .ok (s, p)) : Pending p := by
  induction hn : bs.length using Nat.strongRecOn generalizing bs s with
  | ind n ih =>
    cases bs with
    | nil => simp only [greedy_nil, Except.ok.injEq, Prod.mk.injEq] at h; rw [← h.2]; rfl
    | cons b r =>
      rw [greedy_cons] at h
      cases hd : decodeOne (b :: r) with
      | ok c rest =>
        have hl := (decodeOne_ok_length _ _ _ hd).1
        rw [hd] at h
        simp only at h
        cases hg : greedy rest with
        | error e => rw [hg] at h; cases h
        | ok sp =>
          obtain ⟨s', p'⟩ := sp
          rw [hg] at h
          simp only [Except.ok.injEq, Prod.mk.injEq] at h
          obtain ⟨_, rfl⟩ := h
          exact ih rest.length (by omega) rest s' hg rfl
      | incomplete =>
        rw [hd] at h
        simp only [Except.ok.injEq, Prod.mk.injEq] at h
        rw [← h.2]; exact hd
      | invalid => rw [hd] at h; cases h

/-- continue a greedy result with more decoded text in front -/
def prepend (s : Str) : Except Unit (Str × Bytes) → Except Unit (Str × Bytes)
  | .ok (s', p) => .ok (s ++ s', p)
  | .error _ => .error ()

/-- the key lemma: greedy decoding of `bs ++ more` = greedy decoding of `bs`, then greedy decoding
of (what was left pending) ++ `more` -/
theorem greedy_append (bs more : Bytes) :
    greedy (bs ++ more) =
      match greedy bs with
      | .ok (s, p) => prepend s (greedy (p ++ more))
      | .error _ => .error () := by
  induction hn : bs.length using Nat.strongRecOn generalizing bs with
  | ind n ih =>
    cases bs with
    | nil =>
      simp only [List.nil_append, greedy_nil]
      cases greedy more with
      | error e => rfl
      | ok sp => rfl
    | cons b r =>
      rw [List.cons_append, greedy_cons, greedy_cons, ← List.cons_append]
      cases hd : decodeOne (b :: r) with
      | ok c rest =>
        have hl := (decodeOne_ok_length _ _ _ hd).1
        rw [decodeOne_ok_append _ more _ _ hd]
        simp only
        rw [ih rest.length (by omega) rest rfl]
        cases hg : greedy rest with
        | error e => rfl
        | ok sp =>
          obtain ⟨s, p⟩ := sp
          simp only
          cases greedy (p ++ more) with
          | error e => rfl
          | ok sp' => rfl
      | incomplete =>
        simp only
        rw [List.cons_append, greedy_cons, ← List.cons_append]
        cases hd2 : decodeOne (b :: r ++ more) with
        | ok c rest =>
          simp only
          cases greedy rest with
          | error e => rfl
          | ok sp => rfl
        | incomplete => rfl
        | invalid => rfl
      | invalid =>
        rw [decodeOne_invalid_append _ more hd]


theorem decodeCont_zero (acc lo hi : Nat) (r : Bytes) : decodeCont 0 acc lo hi r = .ok (Char.ofNat acc) r := by
  simp only [decodeCont]
theorem decodeCont_succ_cons (k acc lo hi : Nat) (b : UInt8) (r : Bytes) :
    decodeCont (k + 1) acc lo hi (b :: r) =
      if lo ≤ b.toNat ∧ b.toNat ≤ hi then decodeCont k (acc * 64 + (b.toNat - 0x80)) 0x80 0xBF r else .invalid := by
  simp only [decodeCont]
theorem decodeCont_succ_nil (k acc lo hi : Nat) :
    decodeCont (k + 1) acc lo hi [] = .incomplete := by
  simp only [decodeCont]
theorem decodeCont_one (acc lo hi : Nat) (b : UInt8) (r : Bytes) :
    decodeCont 1 acc lo hi (b :: r) =
      if lo ≤ b.toNat ∧ b.toNat ≤ hi then .ok (Char.ofNat (acc * 64 + (b.toNat - 0x80))) r else .invalid := by
  rw [show (1 : Nat) = 0 + 1 from rfl, decodeCont_succ_cons]; simp only [decodeCont_zero]
theorem decodeCont_two (acc lo hi : Nat) (b : UInt8) (r : Bytes) :
    decodeCont 2 acc lo hi (b :: r) =
      if lo ≤ b.toNat ∧ b.toNat ≤ hi then decodeCont 1 (acc * 64 + (b.toNat - 0x80)) 0x80 0xBF r else .invalid :=
  decodeCont_succ_cons 1 acc lo hi b r
theorem decodeCont_three (acc lo hi : Nat) (b : UInt8) (r : Bytes) :
    decodeCont 3 acc lo hi (b :: r) =
      if lo ≤ b.toNat ∧ b.toNat ≤ hi then decodeCont 2 (acc * 64 + (b.toNat - 0x80)) 0x80 0xBF r else .invalid :=
  decodeCont_succ_cons 2 acc lo hi b r
theorem decodeOne_cons (b : UInt8) (r : Bytes) : decodeOne (b :: r) =
    if b.toNat ≤ 0x7F then .ok (Char.ofNat b.toNat) r
    else if 0xC2 ≤ b.toNat ∧ b.toNat ≤ 0xDF then decodeCont 1 (b.toNat - 0xC0) 0x80 0xBF r
    else if 0xE0 ≤ b.toNat ∧ b.toNat ≤ 0xEF then
      decodeCont 2 (b.toNat - 0xE0) (if b.toNat = 0xE0 then 0xA0 else 0x80) (if b.toNat = 0xED then 0x9F else 0xBF) r
    else if 0xF0 ≤ b.toNat ∧ b.toNat ≤ 0xF4 then
      decodeCont 3 (b.toNat - 0xF0) (if b.toNat = 0xF0 then 0x90 else 0x80) (if b.toNat = 0xF4 then 0x8F else 0xBF) r
    else .invalid := rfl

/-! ### Round trip with core Lean's encoder `String.utf8EncodeChar` -/

/-- `String.utf8EncodeChar` on the code point as a natural number -/
def encNat (v : Nat) : Bytes :=
  if v ≤ 127 then [UInt8.ofNat v]
  else if v ≤ 2047 then [UInt8.ofNat (v / 64 % 32 + 192), UInt8.ofNat (v % 64 + 128)]
  else if v ≤ 65535 then
    [UInt8.ofNat (v / 4096 % 16 + 224), UInt8.ofNat (v / 64 % 64 + 128), UInt8.ofNat (v % 64 + 128)]
  else
    [UInt8.ofNat (v / 262144 % 8 + 240), UInt8.ofNat (v / 4096 % 64 + 128),
      UInt8.ofNat (v / 64 % 64 + 128), UInt8.ofNat (v % 64 + 128)]

theorem utf8EncodeChar_eq_encNat (c : Char) : String.utf8EncodeChar c = encNat c.val.toNat := rfl

theorem toNat_ofNat_valid (v : Nat) (h : v.isValidChar) : (Char.ofNat v).val.toNat = v := by
  simp only [Char.ofNat, dif_pos h, Char.ofNatAux]
  have : v < 2^32 := by cases h <;> omega
  simp [UInt32.toNat, BitVec.toNat_ofNatLT]

theorem toNat_ofNat8 (n : Nat) (h : n < 256) : (UInt8.ofNat n).toNat = n :=
  UInt8.toNat_ofNat_of_lt' h

theorem ofNat8_eq (b : UInt8) (n : Nat) (h : n = b.toNat) : UInt8.ofNat n = b := by
  subst h; exact UInt8.ofNat_toNat

/-- (b), on numbers: the decoder accepts the encoding of every scalar value and returns it -/
theorem decodeOne_encNat (v : Nat) (hv : v.isValidChar) (rest : Bytes) :
    decodeOne (encNat v ++ rest) = .ok (Char.ofNat v) rest := by
  unfold encNat
  by_cases h1 : v ≤ 127
  · rw [if_pos h1, List.cons_append, List.nil_append, decodeOne_cons, toNat_ofNat8 v (by omega), if_pos h1]
  · rw [if_neg h1]
    by_cases h2 : v ≤ 2047
    · rw [if_pos h2]
      have e0 := toNat_ofNat8 (v / 64 % 32 + 192) (by omega)
      have e1 := toNat_ofNat8 (v % 64 + 128) (by omega)
      rw [List.cons_append, List.cons_append, List.nil_append, decodeOne_cons, e0,
        if_neg (by omega), if_pos (by omega), decodeCont_one, e1, if_pos (by omega)]
      exact congrArg (fun x => DecStep.ok (Char.ofNat x) rest) (by omega)
    · rw [if_neg h2]
      by_cases h3 : v ≤ 65535
      · rw [if_pos h3]
        have e0 := toNat_ofNat8 (v / 4096 % 16 + 224) (by omega)
        have e1 := toNat_ofNat8 (v / 64 % 64 + 128) (by omega)
        have e2 := toNat_ofNat8 (v % 64 + 128) (by omega)
        have hv' : v < 55296 ∨ 57343 < v := by cases hv <;> omega
        rw [List.cons_append, List.cons_append, List.cons_append, List.nil_append, decodeOne_cons, e0,
          if_neg (by omega), if_neg (by omega), if_pos (by omega), decodeCont_two, e1,
          if_pos (by split <;> split <;> omega), decodeCont_one, e2, if_pos (by omega)]
        exact congrArg (fun x => DecStep.ok (Char.ofNat x) rest) (by omega)
      · rw [if_neg h3]
        have hv' : v < 1114112 := by cases hv <;> omega
        have e0 := toNat_ofNat8 (v / 262144 % 8 + 240) (by omega)
        have e1 := toNat_ofNat8 (v / 4096 % 64 + 128) (by omega)
        have e2 := toNat_ofNat8 (v / 64 % 64 + 128) (by omega)
        have e3 := toNat_ofNat8 (v % 64 + 128) (by omega)
        rw [List.cons_append, List.cons_append, List.cons_append, List.cons_append, List.nil_append,
          decodeOne_cons, e0,
          if_neg (by omega), if_neg (by omega), if_neg (by omega), if_pos (by omega), decodeCont_three, e1,
          if_pos (by split <;> split <;> omega), decodeCont_two, e2, if_pos (by omega),
          decodeCont_one, e3, if_pos (by omega)]
        exact congrArg (fun x => DecStep.ok (Char.ofNat x) rest) (by omega)

/-- (b): every character's UTF-8 encoding is decoded to that character -/
theorem decodeOne_utf8EncodeChar (c : Char) (rest : Bytes) :
    decodeOne (String.utf8EncodeChar c ++ rest) = .ok c rest := by
  rw [utf8EncodeChar_eq_encNat, decodeOne_encNat _ c.valid, Char.toNat_val, Char.ofNat_toNat]


/-- the decoder accepts nothing but the canonical encoding (on numbers) -/
theorem decodeOne_ok_encNat (bs : Bytes) (c : Char) (rest : Bytes) (h : decodeOne bs = .ok c rest) :
    ∃ v : Nat, v.isValidChar ∧ c = Char.ofNat v ∧ bs = encNat v ++ rest := by
  cases bs with
  | nil => cases h
  | cons b0 r =>
    rw [decodeOne_cons] at h
    have hb0 := UInt8.toNat_lt b0
    by_cases h1 : b0.toNat ≤ 0x7F
    · rw [if_pos h1] at h
      simp only [DecStep.ok.injEq] at h
      obtain ⟨rfl, rfl⟩ := h
      refine ⟨b0.toNat, Or.inl (by omega), rfl, ?_⟩
      unfold encNat
      rw [if_pos h1, UInt8.ofNat_toNat]; rfl
    · rw [if_neg h1] at h
      by_cases h2 : 0xC2 ≤ b0.toNat ∧ b0.toNat ≤ 0xDF
      · rw [if_pos h2] at h
        cases r with
        | nil => cases h
        | cons b1 r1 =>
          rw [decodeCont_one] at h
          by_cases c1 : 0x80 ≤ b1.toNat ∧ b1.toNat ≤ 0xBF
          · rw [if_pos c1] at h
            simp only [DecStep.ok.injEq] at h
            obtain ⟨rfl, rfl⟩ := h
            refine ⟨_, Or.inl (by omega), rfl, ?_⟩
            unfold encNat
            rw [if_neg (by omega), if_pos (by omega),
              ofNat8_eq b0 _ (by omega), ofNat8_eq b1 _ (by omega)]; rfl
          · rw [if_neg c1] at h; cases h
      · rw [if_neg h2] at h
        by_cases h3 : 0xE0 ≤ b0.toNat ∧ b0.toNat ≤ 0xEF
        · rw [if_pos h3] at h
          cases r with
          | nil => cases h
          | cons b1 r1 =>
            rw [decodeCont_two] at h
            by_cases c1 : (if b0.toNat = 0xE0 then 0xA0 else 0x80) ≤ b1.toNat ∧
                b1.toNat ≤ (if b0.toNat = 0xED then 0x9F else 0xBF)
            · rw [if_pos c1] at h
              have k1 : 0x80 ≤ b1.toNat ∧ b1.toNat ≤ 0xBF ∧ (b0.toNat = 0xE0 → 0xA0 ≤ b1.toNat) ∧
                  (b0.toNat = 0xED → b1.toNat ≤ 0x9F) := by
                split at c1 <;> split at c1 <;> omega
              cases r1 with
              | nil => cases h
              | cons b2 r2 =>
                rw [decodeCont_one] at h
                by_cases c2 : 0x80 ≤ b2.toNat ∧ b2.toNat ≤ 0xBF
                · rw [if_pos c2] at h
                  simp only [DecStep.ok.injEq] at h
                  obtain ⟨rfl, rfl⟩ := h
                  refine ⟨_, ?_, rfl, ?_⟩
                  · by_cases hs : b0.toNat ≤ 0xEC ∨ (b0.toNat = 0xED)
                    · exact Or.inl (by omega)
                    · exact Or.inr (by omega)
                  · unfold encNat
                    rw [if_neg (by omega), if_neg (by omega), if_pos (by omega),
                      ofNat8_eq b0 _ (by omega), ofNat8_eq b1 _ (by omega), ofNat8_eq b2 _ (by omega)]; rfl
                · rw [if_neg c2] at h; cases h
            · rw [if_neg c1] at h; cases h
        · rw [if_neg h3] at h
          by_cases h4 : 0xF0 ≤ b0.toNat ∧ b0.toNat ≤ 0xF4
          · rw [if_pos h4] at h
            cases r with
            | nil => cases h
            | cons b1 r1 =>
              rw [decodeCont_three] at h
              by_cases c1 : (if b0.toNat = 0xF0 then 0x90 else 0x80) ≤ b1.toNat ∧
                  b1.toNat ≤ (if b0.toNat = 0xF4 then 0x8F else 0xBF)
              · rw [if_pos c1] at h
                have k1 : 0x80 ≤ b1.toNat ∧ b1.toNat ≤ 0xBF ∧ (b0.toNat = 0xF0 → 0x90 ≤ b1.toNat) ∧
                    (b0.toNat = 0xF4 → b1.toNat ≤ 0x8F) := by
                  split at c1 <;> split at c1 <;> omega
                cases r1 with
                | nil => cases h
                | cons b2 r2 =>
                  rw [decodeCont_two] at h
                  by_cases c2 : 0x80 ≤ b2.toNat ∧ b2.toNat ≤ 0xBF
                  · rw [if_pos c2] at h
                    cases r2 with
                    | nil => cases h
                    | cons b3 r3 =>
                      rw [decodeCont_one] at h
                      by_cases c3 : 0x80 ≤ b3.toNat ∧ b3.toNat ≤ 0xBF
                      · rw [if_pos c3] at h
                        simp only [DecStep.ok.injEq] at h
                        obtain ⟨rfl, rfl⟩ := h
                        refine ⟨_, Or.inr (by omega), rfl, ?_⟩
                        unfold encNat
                        rw [if_neg (by omega), if_neg (by omega), if_neg (by omega),
                          ofNat8_eq b0 _ (by omega), ofNat8_eq b1 _ (by omega),
                          ofNat8_eq b2 _ (by omega), ofNat8_eq b3 _ (by omega)]; rfl
                      · rw [if_neg c3] at h; cases h
                  · rw [if_neg c2] at h; cases h
              · rw [if_neg c1] at h; cases h
          · rw [if_neg h4] at h; cases h

/-- the decoder accepts nothing but the canonical (shortest, surrogate-free) encoding -/
theorem decodeOne_ok_eq_encode (bs : Bytes) (c : Char) (rest : Bytes) (h : decodeOne bs = .ok c rest) :
    bs = String.utf8EncodeChar c ++ rest := by
  obtain ⟨v, hv, rfl, rfl⟩ := decodeOne_ok_encNat bs c rest h
  rw [utf8EncodeChar_eq_encNat, toNat_ofNat_valid v hv]

theorem decodeOne_ok_iff (bs : Bytes) (c : Char) (rest : Bytes) :
    decodeOne bs = .ok c rest ↔ bs = String.utf8EncodeChar c ++ rest :=
  ⟨decodeOne_ok_eq_encode bs c rest, fun h => h ▸ decodeOne_utf8EncodeChar c rest⟩


/-! ### (a) Decoding does not depend on the chunking -/

theorem decodeOne_ok_ne_nil (bs : Bytes) (c : Char) (rest : Bytes) (h : decodeOne bs = .ok c rest) :
    ∃ b r, bs = b :: r := by
  cases bs with
  | nil => cases h
  | cons b r => exact ⟨b, r, rfl⟩

theorem greedy_of_ok (bs : Bytes) (c : Char) (rest : Bytes) (h : decodeOne bs = .ok c rest) :
    greedy bs = match greedy rest with
      | .ok (s, p) => .ok (c :: s, p)
      | .error _ => .error () := by
  obtain ⟨b, r, rfl⟩ := decodeOne_ok_ne_nil bs c rest h
  rw [greedy_cons, h]

theorem decodeAll_of_ok (bs : Bytes) (c : Char) (rest : Bytes) (h : decodeOne bs = .ok c rest) :
    decodeAll bs = match decodeAll rest with
      | .ok s => .ok (c :: s)
      | .error _ => .error () := by
  obtain ⟨b, r, rfl⟩ := decodeOne_ok_ne_nil bs c rest h
  rw [decodeAll_cons, h]

theorem greedy_of_invalid (bs : Bytes) (h : decodeOne bs = .invalid) : greedy bs = .error () := by
  cases bs with
  | nil => cases h
  | cons b r => rw [greedy_cons, h]

/-- the text of all pieces -/
def flat : Except Unit (List Str) → Except Unit Str
  | .ok ps => .ok ps.flatten
  | .error _ => .error ()

theorem finish_prepend (s : Str) (r : Except Unit (Str × Bytes)) :
    finish (prepend s r) = match finish r with
      | .ok t => .ok (s ++ t)
      | .error _ => .error () := by
  cases r with
  | error e => rfl
  | ok sp =>
    obtain ⟨t, p⟩ := sp
    cases p <;> rfl

/-- the streaming decoder started with pending bytes `p` = greedy decoding of `p ++ all chunks`,
then flush -/
theorem decodeStreamAux_spec (chunks : List Bytes) : ∀ p : Bytes, Pending p →
    flat (decodeStreamAux p chunks) = finish (greedy (p ++ chunks.flatten)) := by
  induction chunks with
  | nil =>
    intro p hp
    simp only [decodeStreamAux, List.flatten_nil, List.append_nil, greedy_of_pending p hp]
    cases p with
    | nil => rfl
    | cons b r => simp [flat, finish]
  | cons ch chs ih =>
    intro p hp
    simp only [decodeStreamAux, decodeChunk_eq, List.flatten_cons]
    rw [← List.append_assoc, greedy_append (p ++ ch) chs.flatten]
    cases hg : greedy (p ++ ch) with
    | error e => rfl
    | ok sp =>
      obtain ⟨s, p'⟩ := sp
      have hp' := greedy_pending _ _ _ hg
      simp only
      rw [finish_prepend, ← ih p' hp']
      cases decodeStreamAux p' chs <;> rfl

theorem flat_decodeStream (chunks : List Bytes) :
    flat (decodeStream chunks) = decodeAll chunks.flatten := by
  rw [decodeAll_eq_finish, decodeStream, decodeStreamAux_spec chunks [] Pending_nil, List.nil_append]

/-- (a1) the text decoded from the chunks is the text decoded from the whole input -/
theorem decodeStream_ok (chunks : List Bytes) (pieces : List Str)
    (h : decodeStream chunks = .ok pieces) : decodeAll chunks.flatten = .ok pieces.flatten := by
  rw [← flat_decodeStream, h]; rfl

/-- (a2) the chunked input is rejected iff the whole input is -/
theorem decodeStream_error_iff (chunks : List Bytes) :
    decodeStream chunks = .error () ↔ decodeAll chunks.flatten = .error () := by
  rw [← flat_decodeStream]
  cases decodeStream chunks with
  | error e => cases e; simp [flat]
  | ok ps => simp [flat]

/-- (a3) two chunkings of the same bytes: both rejected, or the same text -/
theorem decodeStream_chunk_independent (ch1 ch2 : List Bytes) (h : ch1.flatten = ch2.flatten) :
    flat (decodeStream ch1) = flat (decodeStream ch2) := by
  rw [flat_decodeStream, flat_decodeStream, h]

/-! ### (b) Valid UTF-8 is never rejected -/

/-- (b) the encoding of any text is decoded to that text -/
theorem decodeAll_encode (s : Str) : decodeAll (s.flatMap String.utf8EncodeChar) = .ok s := by
  induction s with
  | nil => rfl
  | cons c t ih =>
    rw [List.flatMap_cons, decodeAll_of_ok _ c _ (decodeOne_utf8EncodeChar c _), ih]

/-- conversely, only encodings of texts are accepted -/
theorem decodeAll_ok_eq_encode (bs : Bytes) (s : Str) (h : decodeAll bs = .ok s) :
    bs = s.flatMap String.utf8EncodeChar := by
  induction hn : bs.length using Nat.strongRecOn generalizing bs s with
  | ind n ih =>
    cases bs with
    | nil => rw [decodeAll_nil] at h; cases h; rfl
    | cons b r =>
      rw [decodeAll_cons] at h
      cases hd : decodeOne (b :: r) with
      | ok c rest =>
        have hl := (decodeOne_ok_length _ _ _ hd).1
        rw [hd] at h
        simp only at h
        cases ha : decodeAll rest with
        | error e => rw [ha] at h; cases h
        | ok t =>
          rw [ha] at h
          simp only [Except.ok.injEq] at h
          subst h
          rw [List.flatMap_cons, ← ih rest.length (by omega) rest t ha rfl]
          exact decodeOne_ok_eq_encode _ _ _ hd
      | incomplete => rw [hd] at h; cases h
      | invalid => rw [hd] at h; cases h

theorem decodeAll_ok_iff (bs : Bytes) (s : Str) :
    decodeAll bs = .ok s ↔ bs = s.flatMap String.utf8EncodeChar :=
  ⟨decodeAll_ok_eq_encode bs s, fun h => h ▸ decodeAll_encode s⟩

/-! ### (c) Truncated and invalid input is rejected -/

theorem finish_ok (r : Except Unit (Str × Bytes)) (s : Str) (h : finish r = .ok s) : r = .ok (s, []) := by
  cases r with
  | error e => cases h
  | ok sp =>
    obtain ⟨t, p⟩ := sp
    cases p with
    | nil => simp only [finish, Except.ok.injEq] at h; rw [h]
    | cons b q => cases h

/-- decoding continues independently after a complete valid prefix -/
theorem decodeAll_append (bs more : Bytes) (s : Str) (h : decodeAll bs = .ok s) :
    decodeAll (bs ++ more) = match decodeAll more with
      | .ok t => .ok (s ++ t)
      | .error _ => .error () := by
  rw [decodeAll_eq_finish] at h
  have hg := finish_ok _ _ h
  rw [decodeAll_eq_finish, decodeAll_eq_finish, greedy_append, hg]
  simp only [List.nil_append]
  exact finish_prepend s (greedy more)

theorem decodeAll_pending (t : Bytes) (ht : t ≠ []) (hp : Pending t) : decodeAll t = .error () := by
  rw [decodeAll_eq_finish, greedy_of_pending t hp]
  cases t with
  | nil => exact absurd rfl ht
  | cons b r => rfl

/-- (c1) input that ends inside a sequence is rejected: `t` = the bytes of the unfinished sequence -/
theorem decodeAll_truncated (bs : Bytes) (s : Str) (t : Bytes) (h : decodeAll bs = .ok s)
    (ht : t ≠ []) (hp : Pending t) : decodeAll (bs ++ t) = .error () := by
  rw [decodeAll_append bs t s h, decodeAll_pending t ht hp]

/-- a proper prefix of the encoding of a character is pending -/
theorem pending_of_encode_prefix (c : Char) (t more : Bytes) (hm : more ≠ [])
    (h : String.utf8EncodeChar c = t ++ more) : Pending t := by
  have hd := decodeOne_utf8EncodeChar c []
  rw [List.append_nil, h] at hd
  cases ht : decodeOne t with
  | ok c' rest =>
    have := decodeOne_ok_append t more c' rest ht
    rw [hd] at this
    simp only [DecStep.ok.injEq] at this
    exact absurd (List.append_eq_nil_iff.mp this.2.symm).2 hm
  | incomplete => exact ht
  | invalid =>
    have := decodeOne_invalid_append t more ht
    rw [hd] at this; cases this

/-- (c1') a text followed by a non-empty proper prefix of a character's encoding is rejected -/
theorem decodeAll_truncated_char (s : Str) (c : Char) (t more : Bytes) (ht : t ≠ []) (hm : more ≠ [])
    (h : String.utf8EncodeChar c = t ++ more) :
    decodeAll (s.flatMap String.utf8EncodeChar ++ t) = .error () :=
  decodeAll_truncated _ s t (decodeAll_encode s) ht (pending_of_encode_prefix c t more hm h)

theorem decodeCont_filler (k acc : Nat) :
    decodeCont k acc 0x80 0xBF (List.replicate k (0x80 : UInt8)) ≠ .incomplete ∧
    decodeCont k acc 0x80 0xBF (List.replicate k (0x80 : UInt8)) ≠ .invalid := by
  induction k generalizing acc with
  | zero => simp [decodeCont_zero]
  | succ k ih =>
    rw [List.replicate_succ, decodeCont_succ_cons, if_pos (by decide)]
    exact ih _

/-- an incomplete sequence can be completed -/
theorem decodeCont_complete (k acc lo hi : Nat) (r : Bytes) (hlo : lo ≤ hi) (hhi : hi < 256)
    (h : decodeCont k acc lo hi r = .incomplete) :
    ∃ more c, more ≠ [] ∧ decodeCont k acc lo hi (r ++ more) = .ok c [] := by
  induction k generalizing acc lo hi r with
  | zero => rw [decodeCont_zero] at h; cases h
  | succ k ih =>
    cases r with
    | nil =>
      refine ⟨UInt8.ofNat lo :: List.replicate k 0x80, ?_⟩
      rw [List.nil_append, decodeCont_succ_cons, toNat_ofNat8 lo (by omega), if_pos ⟨Nat.le_refl _, hlo⟩]
      have hf := decodeCont_filler k (acc * 64 + (lo - 0x80))
      cases hc : decodeCont k (acc * 64 + (lo - 0x80)) 0x80 0xBF (List.replicate k 0x80) with
      | ok c rest =>
        have := decodeCont_ok_length _ _ _ _ _ _ _ hc
        rw [List.length_replicate] at this
        have : rest = [] := List.eq_nil_of_length_eq_zero (by omega)
        subst this
        exact ⟨c, by simp, rfl⟩
      | incomplete => exact absurd hc hf.1
      | invalid => exact absurd hc hf.2
    | cons b r =>
      rw [decodeCont_succ_cons] at h
      by_cases hb : lo ≤ b.toNat ∧ b.toNat ≤ hi
      · rw [if_pos hb] at h
        obtain ⟨more, c, hm, hc⟩ := ih _ 0x80 0xBF r (by decide) (by decide) h
        exact ⟨more, c, hm, by rw [List.cons_append, decodeCont_succ_cons, if_pos hb]; exact hc⟩
      · rw [if_neg hb] at h; cases h

/-- `Pending` = "a proper prefix of the encoding of some character" (the specification of
`DecStep.incomplete`) -/
theorem Pending_iff (t : Bytes) :
    Pending t ↔ ∃ c more, more ≠ [] ∧ String.utf8EncodeChar c = t ++ more := by
  constructor
  · intro h
    suffices hs : ∃ more c, more ≠ [] ∧ decodeOne (t ++ more) = .ok c [] by
      obtain ⟨more, c, hm, hc⟩ := hs
      exact ⟨c, more, hm, by rw [decodeOne_ok_eq_encode _ _ _ hc, List.append_nil]⟩
    cases t with
    | nil => exact ⟨[0x41], 'A', by simp, by decide⟩
    | cons b r =>
      unfold Pending at h
      rw [decodeOne_cons] at h
      by_cases h1 : b.toNat ≤ 0x7F
      · rw [if_pos h1] at h; cases h
      · rw [if_neg h1] at h
        by_cases h2 : 0xC2 ≤ b.toNat ∧ b.toNat ≤ 0xDF
        · rw [if_pos h2] at h
          obtain ⟨more, c, hm, hc⟩ := decodeCont_complete _ _ _ _ _ (by decide) (by decide) h
          exact ⟨more, c, hm, by rw [List.cons_append, decodeOne_cons, if_neg h1, if_pos h2]; exact hc⟩
        · rw [if_neg h2] at h
          by_cases h3 : 0xE0 ≤ b.toNat ∧ b.toNat ≤ 0xEF
          · rw [if_pos h3] at h
            obtain ⟨more, c, hm, hc⟩ :=
              decodeCont_complete _ _ _ _ _ (by split <;> split <;> omega) (by split <;> omega) h
            exact ⟨more, c, hm, by
              rw [List.cons_append, decodeOne_cons, if_neg h1, if_neg h2, if_pos h3]; exact hc⟩
          · rw [if_neg h3] at h
            by_cases h4 : 0xF0 ≤ b.toNat ∧ b.toNat ≤ 0xF4
            · rw [if_pos h4] at h
              obtain ⟨more, c, hm, hc⟩ :=
                decodeCont_complete _ _ _ _ _ (by split <;> split <;> omega) (by split <;> omega) h
              exact ⟨more, c, hm, by
                rw [List.cons_append, decodeOne_cons, if_neg h1, if_neg h2, if_neg h3, if_pos h4]; exact hc⟩
            · rw [if_neg h4] at h; cases h
  · rintro ⟨c, more, hm, h⟩
    exact pending_of_encode_prefix c t more hm h

/-- bytes that cannot start a sequence: a continuation byte 80..BF, the over-long leads C0 C1,
and F5..FF -/
theorem decodeOne_bad_lead (b : UInt8) (r : Bytes)
    (hb : (0x80 ≤ b.toNat ∧ b.toNat ≤ 0xC1) ∨ 0xF5 ≤ b.toNat) : decodeOne (b :: r) = .invalid := by
  rw [decodeOne_cons, if_neg (by omega), if_neg (by omega), if_neg (by omega), if_neg (by omega)]

theorem decodeAll_invalid (bs : Bytes) (h : decodeOne bs = .invalid) : decodeAll bs = .error () := by
  rw [decodeAll_eq_finish, greedy_of_invalid bs h]; rfl

/-- (c2) an invalid sequence after a complete valid prefix (= at a character boundary) makes the
whole input rejected, whatever follows -/
theorem decodeAll_invalid_at_boundary (bs : Bytes) (s : Str) (bad : Bytes) (h : decodeAll bs = .ok s)
    (hb : decodeOne bad = .invalid) (after : Bytes) : decodeAll (bs ++ (bad ++ after)) = .error () := by
  rw [decodeAll_append bs _ s h, decodeAll_invalid _ (decodeOne_invalid_append bad after hb)]

/-- (c2') a lone 0xFF, or a stray continuation byte, inserted between two characters -/
theorem decodeAll_bad_byte_inserted (s : Str) (b : UInt8) (after : Bytes)
    (hb : (0x80 ≤ b.toNat ∧ b.toNat ≤ 0xC1) ∨ 0xF5 ≤ b.toNat) :
    decodeAll (s.flatMap String.utf8EncodeChar ++ b :: after) = .error () :=
  decodeAll_invalid_at_boundary _ s [b] (decodeAll_encode s) (decodeOne_bad_lead b [] hb) after

example (s : Str) (after : Bytes) :
    decodeAll (s.flatMap String.utf8EncodeChar ++ 0xFF :: after) = .error () :=
  decodeAll_bad_byte_inserted s 0xFF after (by decide)

/-! ### (d) The decoded pieces are `GoodPieces` -/

theorem greedy_nil_text (bs p : Bytes) (h : greedy bs = .ok ([], p)) : p = bs := by
  cases bs with
  | nil => rw [greedy_nil] at h; simp only [Except.ok.injEq, Prod.mk.injEq] at h; exact h.2.symm
  | cons b r =>
    rw [greedy_cons] at h
    cases hd : decodeOne (b :: r) with
    | ok c rest =>
      rw [hd] at h
      simp only at h
      cases hg : greedy rest with
      | error e => rw [hg] at h; cases h
      | ok sp =>
        obtain ⟨s, q⟩ := sp
        rw [hg] at h
        simp only [Except.ok.injEq, Prod.mk.injEq] at h
        exact absurd h.1 (List.cons_ne_nil _ _)
    | incomplete =>
      rw [hd] at h
      simp only [Except.ok.injEq, Prod.mk.injEq] at h
      exact h.2.symm
    | invalid => rw [hd] at h; cases h

/-- a character whose first bytes were pending is not ASCII (in particular not LF) -/
theorem pending_char_nonascii (p more : Bytes) (c : Char) (rest : Bytes) (hp : Pending p) (hne : p ≠ [])
    (h : decodeOne (p ++ more) = .ok c rest) : 128 ≤ c.toNat := by
  cases p with
  | nil => exact absurd rfl hne
  | cons b r =>
    have hb : ¬ b.toNat ≤ 0x7F := by
      intro hb
      unfold Pending at hp
      rw [decodeOne_cons, if_pos hb] at hp
      cases hp
    obtain ⟨v, hv, rfl, he⟩ := decodeOne_ok_encNat _ _ _ h
    show 128 ≤ (Char.ofNat v).val.toNat
    rw [toNat_ofNat_valid v hv]
    by_cases h1 : v ≤ 127
    · exfalso
      unfold encNat at he
      rw [if_pos h1] at he
      simp only [List.cons_append, List.cons.injEq] at he
      have := congrArg UInt8.toNat he.1
      rw [toNat_ofNat8 v (by omega)] at this
      omega
    · omega

theorem greedy_head_nonascii (p ch : Bytes) (s : Str) (p' : Bytes) (hp : Pending p) (hne : p ≠ [])
    (h : greedy (p ++ ch) = .ok (s, p')) : ∀ c, s.head? = some c → 128 ≤ c.toNat := by
  intro c hc
  cases hpc : p ++ ch with
  | nil => rw [hpc, greedy_nil] at h; simp only [Except.ok.injEq, Prod.mk.injEq] at h; rw [← h.1] at hc; cases hc
  | cons b r =>
    rw [hpc, greedy_cons] at h
    cases hd : decodeOne (b :: r) with
    | ok c' rest =>
      rw [hd] at h
      simp only at h
      cases hg : greedy rest with
      | error e => rw [hg] at h; cases h
      | ok sp =>
        obtain ⟨s', q⟩ := sp
        rw [hg] at h
        simp only [Except.ok.injEq, Prod.mk.injEq] at h
        rw [← h.1] at hc
        simp only [List.head?_cons, Option.some.injEq] at hc
        subst hc
        rw [← hpc] at hd
        exact pending_char_nonascii p ch c' rest hp hne hd
    | incomplete =>
      rw [hd] at h
      simp only [Except.ok.injEq, Prod.mk.injEq] at h
      rw [← h.1] at hc; cases hc
    | invalid => rw [hd] at h; cases h

/-- what a streaming decoder really delivers (stronger than `GoodPieces`): the piece after an empty
piece is empty or starts with a non-ASCII character -/
def NonAsciiAfterEmpty : List Str → Prop
  | [] => True
  | [_] => True
  | p :: q :: rest => (p = [] → ∀ c, q.head? = some c → 128 ≤ c.toNat) ∧ NonAsciiAfterEmpty (q :: rest)

theorem NonAsciiAfterEmpty.good : ∀ (pieces : List Str), NonAsciiAfterEmpty pieces → GoodPieces pieces
  | [], _ => trivial
  | [_], _ => trivial
  | p :: q :: rest, h => by
    refine ⟨fun hp hq => ?_, NonAsciiAfterEmpty.good (q :: rest) h.2⟩
    have := h.1 hp LF hq
    revert this
    decide

theorem decodeStreamAux_pieces (chunks : List Bytes) (hne : ∀ ch ∈ chunks, ch ≠ []) :
    ∀ (p : Bytes) (pieces : List Str), Pending p → decodeStreamAux p chunks = .ok pieces →
      NonAsciiAfterEmpty pieces ∧
      (p ≠ [] → ∀ q c, pieces.head? = some q → q.head? = some c → 128 ≤ c.toNat) := by
  induction chunks with
  | nil =>
    intro p pieces _ h
    simp only [decodeStreamAux] at h
    split at h
    · simp only [Except.ok.injEq] at h; subst h
      exact ⟨trivial, fun _ q c hq => by cases hq⟩
    · cases h
  | cons ch chs ih =>
    intro p pieces hp h
    have hch : ch ≠ [] := hne ch (List.mem_cons_self)
    have hne' : ∀ ch' ∈ chs, ch' ≠ [] := fun ch' hm => hne ch' (List.mem_cons_of_mem _ hm)
    simp only [decodeStreamAux, decodeChunk_eq] at h
    cases hg : greedy (p ++ ch) with
    | error e => rw [hg] at h; cases h
    | ok sp =>
      obtain ⟨s, p'⟩ := sp
      rw [hg] at h
      simp only at h
      cases hr : decodeStreamAux p' chs with
      | error e => rw [hr] at h; cases h
      | ok pieces' =>
        rw [hr] at h
        simp only [Except.ok.injEq] at h
        subst h
        obtain ⟨hG, hH⟩ := ih hne' p' pieces' (greedy_pending _ _ _ hg) hr
        refine ⟨?_, ?_⟩
        · cases pieces' with
          | nil => trivial
          | cons q rest =>
            refine ⟨fun hs c hc => ?_, hG⟩
            subst hs
            have hp' : p' = p ++ ch := greedy_nil_text _ _ hg
            have : p' ≠ [] := by
              rw [hp']; intro h0; exact hch (List.append_eq_nil_iff.mp h0).2
            exact hH this q c rfl hc
        · intro hpne q c hq hc
          simp only [List.head?_cons, Option.some.injEq] at hq
          subst hq
          exact greedy_head_nonascii p ch _ p' hp hpne hg c hc

/-- (d, strong form) -/
theorem decodeStream_nonAsciiAfterEmpty (chunks : List Bytes) (hne : ∀ ch ∈ chunks, ch ≠ [])
    (pieces : List Str) (h : decodeStream chunks = .ok pieces) : NonAsciiAfterEmpty pieces :=
  (decodeStreamAux_pieces chunks hne [] pieces Pending_nil h).1

/-- (d) the hypothesis of the reader theorem `C20_stream_eq_bulk` holds for what the decoder delivers
from non-empty byte chunks -/
theorem decodeStream_goodPieces (chunks : List Bytes) (hne : ∀ ch ∈ chunks, ch ≠ [])
    (pieces : List Str) (h : decodeStream chunks = .ok pieces) : GoodPieces pieces :=
  (decodeStream_nonAsciiAfterEmpty chunks hne pieces h).good

/-- why "no empty chunk" is needed: an empty byte chunk between CR and LF gives an empty piece
followed by a piece starting with LF -/
theorem decodeStream_empty_chunk_counterexample :
    decodeStream [[0x0D], [], [0x0A]] = .ok [[CR], [], [LF]] ∧ ¬ GoodPieces [[CR], [], [LF]] :=
  ⟨rfl, fun h => h.2.1 rfl rfl⟩

/-- several consecutive empty pieces: a 4-byte character split over four chunks -/
example : decodeStream [[0xF0], [0x9F], [0x98], [0x80, 0x0A]] = .ok [[], [], [], ['😀', LF]] := rfl

/-! ### (e) The reader on byte chunks -/

/-- stream reading of byte chunks = bulk reading of the decoded whole; the chunked input is rejected
by the decoder iff the whole input is -/
theorem js_stream_eq_bulk_bytes (c : RCfg) (chunks : List Bytes) (hne : ∀ ch ∈ chunks, ch ≠ []) :
    (match decodeStream chunks, decodeAll chunks.flatten with
     | .ok pieces, .ok text => jsStream c pieces = jsBulk c text
     | .error _, .error _ => True
     | _, _ => False) := by
  cases hs : decodeStream chunks with
  | error e =>
    cases e
    rw [(decodeStream_error_iff chunks).mp hs]
    trivial
  | ok pieces =>
    rw [decodeStream_ok chunks pieces hs]
    exact C20_stream_eq_bulk c pieces (decodeStream_goodPieces chunks hne pieces hs)

/-- two chunkings of the same bytes: both are rejected by the decoder, or the reader ends in the same
state (records, counters, warnings, stored error) -/
theorem js_stream_bytes_chunk_independent (c : RCfg) (ch1 ch2 : List Bytes)
    (h1 : ∀ ch ∈ ch1, ch ≠ []) (h2 : ∀ ch ∈ ch2, ch ≠ []) (hflat : ch1.flatten = ch2.flatten) :
    (match decodeStream ch1, decodeStream ch2 with
     | .ok pieces1, .ok pieces2 => jsStream c pieces1 = jsStream c pieces2
     | .error _, .error _ => True
     | _, _ => False) := by
  have e1 := js_stream_eq_bulk_bytes c ch1 h1
  have e2 := js_stream_eq_bulk_bytes c ch2 h2
  rw [hflat] at e1
  cases hs1 : decodeStream ch1 with
  | error a =>
    rw [hs1] at e1
    cases hs2 : decodeStream ch2 with
    | error b => trivial
    | ok p2 =>
      rw [hs2] at e2
      cases ha : decodeAll ch2.flatten with
      | error x => rw [ha] at e2; exact e2
      | ok t => rw [ha] at e1; exact e1
  | ok p1 =>
    rw [hs1] at e1
    cases hs2 : decodeStream ch2 with
    | error b =>
      rw [hs2] at e2
      cases ha : decodeAll ch2.flatten with
      | error x => rw [ha] at e1; exact e1
      | ok t => rw [ha] at e2; exact e2
    | ok p2 =>
      rw [hs2] at e2
      cases ha : decodeAll ch2.flatten with
      | error x => rw [ha] at e1; exact False.elim e1
      | ok t =>
        rw [ha] at e1 e2
        exact (show jsStream c p1 = jsBulk c t from e1).trans (show jsStream c p2 = jsBulk c t from e2).symm

/-- the same at the level of what the engine receives (header, records, warnings or the error) -/
theorem js_result_bytes_chunk_independent (c : RCfg) (hasHeader : Bool) (modifier : Option Bool)
    (ch1 ch2 : List Bytes) (h1 : ∀ ch ∈ ch1, ch ≠ []) (h2 : ∀ ch ∈ ch2, ch ≠ [])
    (hflat : ch1.flatten = ch2.flatten) (p1 p2 : List Str)
    (hd1 : decodeStream ch1 = .ok p1) (hd2 : decodeStream ch2 = .ok p2) :
    jsResult (jsStream c p1) hasHeader modifier = jsResult (jsStream c p2) hasHeader modifier := by
  have := js_stream_bytes_chunk_independent c ch1 ch2 h1 h2 hflat
  rw [hd1, hd2] at this
  rw [show jsStream c p1 = jsStream c p2 from this]

/-- valid UTF-8 is never rejected, however it is chunked: every chunking (no empty chunk) of the
encoding of a text `s` is decoded, to pieces whose concatenation is `s`, and the stream reader ends
in the state of the bulk reader on `s` -/
theorem js_stream_bytes_of_text (c : RCfg) (s : Str) (chunks : List Bytes)
    (hne : ∀ ch ∈ chunks, ch ≠ []) (hflat : chunks.flatten = s.flatMap String.utf8EncodeChar) :
    ∃ pieces, decodeStream chunks = .ok pieces ∧ pieces.flatten = s ∧ jsStream c pieces = jsBulk c s := by
  have ha : decodeAll chunks.flatten = .ok s := by rw [hflat]; exact decodeAll_encode s
  cases hs : decodeStream chunks with
  | error e =>
    cases e
    rw [(decodeStream_error_iff chunks).mp hs] at ha
    cases ha
  | ok pieces =>
    have := decodeStream_ok chunks pieces hs
    rw [ha] at this
    simp only [Except.ok.injEq] at this
    refine ⟨pieces, rfl, this.symm, ?_⟩
    rw [this]
    exact C20_stream_eq_bulk c pieces (decodeStream_goodPieces chunks hne pieces hs)

/-- invalid or truncated UTF-8 is always rejected, however it is chunked -/
theorem decodeStream_rejects (chunks : List Bytes)
    (h : ¬ ∃ s : Str, chunks.flatten = s.flatMap String.utf8EncodeChar) :
    decodeStream chunks = .error () := by
  rw [decodeStream_error_iff]
  cases ha : decodeAll chunks.flatten with
  | error e => rfl
  | ok s => exact absurd ⟨s, decodeAll_ok_eq_encode _ s ha⟩ h

end Rbql
