/-
  C19 — the rbql-js engine model (`runJs`, Model/EngineJs.lean) refines the reference engine model (`run`, Model/Engine.lean):
  a simulation between the two main loops.  The three facts about JSON texts and comparison functions that are proved in
  `Proofs/EngineJsSort.lean` enter as explicit hypotheses (`hInj`, `hSort`, `hGroup`) of `runJs_eq_run_of`.
-/
import Rbql.Model.EngineJs
namespace Rbql

/-! ### the user's writer and the TOP layer -/

theorem Sink.write_of_nref (s : Sink) (h : s.refuseFrom = none) (r : Row) :
    s.write r = ({ s with writes := s.writes + 1, rows := r :: s.rows }, true) := by
  simp only [Sink.write, h]

theorem Sink.write_nref (s : Sink) (h : s.refuseFrom = none) (r : Row) : (s.write r).1.refuseFrom = none := by
  rw [Sink.write_of_nref s h]; exact h

theorem TopLayer.writeJs_eq (t : TopLayer) (h : t.sink.refuseFrom = none) (r : Row) : t.writeJs r = t.write r := by
  obtain ⟨top, sink⟩ := t
  cases top with
  | none => rfl
  | some p =>
    obtain ⟨cap, nw⟩ := p
    simp only [TopLayer.writeJs, TopLayer.write, Sink.write_of_nref sink h, if_true]

theorem TopLayer.write_nref (t : TopLayer) (h : t.sink.refuseFrom = none) (r : Row) :
    (t.write r).1.sink.refuseFrom = none := by
  obtain ⟨top, sink⟩ := t
  cases top with
  | none => simp only [TopLayer.write, Sink.write_of_nref sink h]; exact h
  | some p =>
    obtain ⟨cap, nw⟩ := p
    simp only [TopLayer.write, Sink.write_of_nref sink h]
    split
    · exact h
    · exact h

theorem TopLayer.feedJs_eq (t : TopLayer) (h : t.sink.refuseFrom = none) (rs : List Row) : t.feedJs rs = t.feed rs := by
  induction rs generalizing t with
  | nil => rfl
  | cons r rs ih =>
    simp only [TopLayer.feedJs, TopLayer.feed, TopLayer.writeJs_eq t h]
    split
    · exact ih _ (TopLayer.write_nref t h r)
    · rfl

theorem TopLayer.feed_nref (t : TopLayer) (h : t.sink.refuseFrom = none) (rs : List Row) :
    (t.feed rs).sink.refuseFrom = none := by
  induction rs generalizing t with
  | nil => exact h
  | cons r rs ih =>
    simp only [TopLayer.feed]
    split
    · exact ih _ (TopLayer.write_nref t h r)
    · exact TopLayer.write_nref t h r

/-! ### DISTINCT / DISTINCT COUNT: the JS layer is a function of the reference layer -/

def toJsDist : DistState → JsDistState
  | .none => .none
  | .uniq seen => .uniq (seen.map jsonRow)
  | .uniqCount recs => .uniqCount (recs.map (fun e => (jsonRow e.1, e.1, e.2)))

def toJsLayer (d : DistLayer) : JsDistLayer := { dist := toJsDist d.dist, sub := d.sub }

section Inj
variable (hInj : ∀ r1 r2 : List Val, jsonRow r1 = jsonRow r2 → r1 = r2)
include hInj

theorem jsonRow_mem_map (r : Row) (seen : List Row) : jsonRow r ∈ seen.map jsonRow ↔ r ∈ seen := by
  constructor
  · intro h
    rcases List.mem_map.1 h with ⟨x, hx, he⟩
    rw [← hInj _ _ he]; exact hx
  · exact fun h => List.mem_map.2 ⟨r, h, rfl⟩

theorem jsBump_map (recs : List (Row × Nat)) (r : Row) :
    jsBump (recs.map (fun e => (jsonRow e.1, e.1, e.2))) (jsonRow r) r =
      (bumpCount recs r).map (fun e => (jsonRow e.1, e.1, e.2)) := by
  induction recs with
  | nil => rfl
  | cons e rest ih =>
    obtain ⟨r', n⟩ := e
    simp only [List.map_cons, jsBump, bumpCount]
    by_cases h : r' = r
    · subst h; simp
    · have h' : ¬ jsonRow r' = jsonRow r := fun he => h (hInj _ _ he)
      simp only [h, h', if_false, List.map_cons, ih]

theorem toJsLayer_write (d : DistLayer) (h : d.sub.sink.refuseFrom = none) (r : Row) :
    (toJsLayer d).write r = (toJsLayer (d.write r).1, (d.write r).2) := by
  obtain ⟨dist, sub⟩ := d
  cases dist with
  | none =>
    simp only [toJsLayer, toJsDist, JsDistLayer.write, DistLayer.write, TopLayer.writeJs_eq sub h]
  | uniq seen =>
    simp only [toJsLayer, toJsDist, JsDistLayer.write, DistLayer.write, TopLayer.writeJs_eq sub h,
      jsonRow_mem_map hInj]
    split
    · rfl
    · rfl
  | uniqCount recs =>
    simp only [toJsLayer, toJsDist, JsDistLayer.write, DistLayer.write, jsBump_map hInj]

end Inj

theorem DistLayer.write_nref (d : DistLayer) (h : d.sub.sink.refuseFrom = none) (r : Row) :
    (d.write r).1.sub.sink.refuseFrom = none := by
  obtain ⟨dist, sub⟩ := d
  cases dist with
  | none => exact TopLayer.write_nref sub h r
  | uniq seen =>
    simp only [DistLayer.write]
    split
    · exact h
    · exact TopLayer.write_nref sub h r
  | uniqCount recs => exact h

theorem DistLayer.feed_nref (d : DistLayer) (h : d.sub.sink.refuseFrom = none) (rs : List Row) :
    (d.feed rs).sub.sink.refuseFrom = none := by
  induction rs generalizing d with
  | nil => exact h
  | cons r rs ih =>
    simp only [DistLayer.feed]
    split
    · exact ih _ (DistLayer.write_nref d h r)
    · exact DistLayer.write_nref d h r

theorem toJsLayer_feed (hInj : ∀ r1 r2 : List Val, jsonRow r1 = jsonRow r2 → r1 = r2)
    (d : DistLayer) (h : d.sub.sink.refuseFrom = none) (rs : List Row) :
    (toJsLayer d).feed rs = toJsLayer (d.feed rs) := by
  induction rs generalizing d with
  | nil => rfl
  | cons r rs ih =>
    simp only [JsDistLayer.feed, DistLayer.feed, toJsLayer_write hInj d h]
    split
    · exact ih _ (DistLayer.write_nref d h r)
    · rfl

theorem toJsLayer_finish (d : DistLayer) (h : d.sub.sink.refuseFrom = none) :
    (toJsLayer d).finish = toJsLayer d.finish := by
  obtain ⟨dist, sub⟩ := d
  cases dist with
  | none => rfl
  | uniq seen => rfl
  | uniqCount recs =>
    simp only [toJsLayer, toJsDist, JsDistLayer.finish, DistLayer.finish, List.map_map, Function.comp_def,
      TopLayer.feedJs_eq sub h]

/-! ### ORDER BY: the JS entries carry NR as a last key component -/

abbrev annJ (e : List Val × Nat × Row) : List Val × Row := (e.1 ++ [Val.nat e.2.1], e.2.2)
abbrev annR (e : List Val × Nat × Row) : List Val × Row := (e.1, e.2.2)

/-- the two SortedWriter buffers hold the same entries (JS: with NR appended to the key); NR does not decrease and is at most `m` -/
def SortedSim (m : Nat) : Option (Bool × List (List Val × Row)) → Option (Bool × List (List Val × Row)) → Prop
  | none, none => True
  | some (rj, ej), some (r, e) =>
    rj = r ∧ ∃ es : List (List Val × Nat × Row), ej = es.map annJ ∧ e = es.map annR ∧
      es.Pairwise (fun a b => a.2.1 ≤ b.2.1) ∧ ∀ x ∈ es, x.2.1 ≤ m
  | _, _ => False

structure ChainSim (m : Nat) (cj : JsChain) (c : Chain) : Prop where
  sub : cj.sub = toJsLayer c.sub
  nref : c.sub.sub.sink.refuseFrom = none
  sorted : SortedSim m cj.sorted c.sorted

theorem SortedSim.mono {m n : Nat} (hmn : m ≤ n) {sj s} (h : SortedSim m sj s) : SortedSim n sj s := by
  cases sj with
  | none => cases s with
    | none => trivial
    | some p => exact h
  | some pj => cases s with
    | none => exact h
    | some p =>
      obtain ⟨rj, ej⟩ := pj
      obtain ⟨r, e⟩ := p
      obtain ⟨h1, es, h2, h3, h4, h5⟩ := h
      exact ⟨h1, es, h2, h3, h4, fun x hx => Nat.le_trans (h5 x hx) hmn⟩

theorem ChainSim.mono {m n : Nat} (hmn : m ≤ n) {cj c} (h : ChainSim m cj c) : ChainSim n cj c :=
  ⟨h.sub, h.nref, h.sorted.mono hmn⟩

theorem ChainSim.getSink {m : Nat} {cj c} (h : ChainSim m cj c) : cj.getSink = c.getSink := by
  simp only [JsChain.getSink, Chain.getSink, h.sub, toJsLayer]

theorem ChainSim.forbids {m : Nat} {cj c} (h : ChainSim m cj c) : cj.forbidsAggregation = c.forbidsAggregation := by
  obtain ⟨sj, subj⟩ := cj
  obtain ⟨s, sub⟩ := c
  have h1 := h.sub
  have h2 := h.sorted
  simp only at h1 h2
  subst h1
  simp only [JsChain.forbidsAggregation, Chain.forbidsAggregation, toJsLayer]
  have e1 : sj.isSome = s.isSome := by
    cases sj <;> cases s <;> simp_all [SortedSim]
  rw [e1]
  cases sub.dist <;> rfl

section Inj
variable (hInj : ∀ r1 r2 : List Val, jsonRow r1 = jsonRow r2 → r1 = r2)
include hInj

theorem ChainSim.write {m : Nat} {cj : JsChain} {c : Chain} (h : ChainSim m cj c) (k : List Val) (nr : Nat) (hm : m ≤ nr) (r : Row) :
    ChainSim nr (cj.write k nr r).1 (c.write k r).1 ∧ (cj.write k nr r).2 = (c.write k r).2 := by
  obtain ⟨sj, subj⟩ := cj
  obtain ⟨s, sub⟩ := c
  have h1 := h.sub
  have h2 := h.sorted
  have h3 := h.nref
  simp only at h1 h2 h3
  subst h1
  cases sj with
  | none => cases s with
    | none =>
      simp only [JsChain.write, Chain.write, toJsLayer_write hInj sub h3]
      exact ⟨⟨rfl, DistLayer.write_nref sub h3 r, trivial⟩, trivial⟩
    | some p => exact h2.elim
  | some pj => cases s with
    | none => exact h2.elim
    | some p =>
      obtain ⟨rj, ej⟩ := pj
      obtain ⟨rv, e⟩ := p
      obtain ⟨e1, es, e2, e3, e4, e5⟩ := h2
      subst e1 e2 e3
      simp only [JsChain.write, Chain.write]
      refine ⟨⟨rfl, h3, rfl, es ++ [(k, nr, r)], ?_, ?_, ?_, ?_⟩, trivial⟩
      · simp only [List.map_append, List.map_cons, List.map_nil]
      · simp only [List.map_append, List.map_cons, List.map_nil]
      · rw [List.pairwise_append]
        refine ⟨e4, List.pairwise_singleton _ _, ?_⟩
        intro a ha b hb
        simp only [List.mem_singleton] at hb
        subst hb
        exact Nat.le_trans (e5 a ha) hm
      · intro x hx
        rcases List.mem_append.1 hx with hx | hx
        · exact Nat.le_trans (e5 x hx) hm
        · simp only [List.mem_singleton] at hx
          subst hx
          exact Nat.le_refl _

theorem emitGo_sim (key : List Val) (nr : Nat) (row : Row) (pos : Nat) (l : List Atom) :
    ∀ {m : Nat} {cj : JsChain} {c : Chain}, ChainSim m cj c → m ≤ nr →
    ChainSim nr (emitRowsJs.go key nr row pos cj l).1 (emitRows.go key row pos c l).1 ∧
      (emitRowsJs.go key nr row pos cj l).2 = (emitRows.go key row pos c l).2 := by
  induction l with
  | nil => intro m cj c h hm; exact ⟨h.mono hm, rfl⟩
  | cons v vs ih =>
    intro m cj c h hm
    have hw := h.write hInj key nr hm (row.set pos (.at v))
    simp only [emitRowsJs.go, emitRows.go, hw.2]
    split
    · exact ih hw.1 (Nat.le_refl _)
    · exact ⟨hw.1, rfl⟩

end Inj

/-! ### aggregation: accumulators filed under the JSON text of the group key -/

/-- the key under which rbql.js files the accumulators of the group `k` -/
def gkey (g : Bool) (k : List Val) : List Val := [Val.str (jsGroupKeyText g k)]

/-- the group keys that can occur: anything with GROUP BY, the single `[None]` without -/
def KeyOK (g : Bool) (k : List Val) : Prop := g = true ∨ k = [Val.none]

def jsStats (g : Bool) (stats : List (List Val × Acc)) : List (List Val × Acc) := stats.map (fun e => (gkey g e.1, e.2))

def StatsOK (g : Bool) (stats : List (List Val × Acc)) : Prop := ∀ e ∈ stats, KeyOK g e.1

def jsCol (g : Bool) (c : AggCol) : AggCol := { c with stats := jsStats g c.stats }

theorem gkey_inj (hInj : ∀ r1 r2 : List Val, jsonRow r1 = jsonRow r2 → r1 = r2) (g : Bool) (k1 k2 : List Val)
    (h1 : KeyOK g k1) (h2 : KeyOK g k2) (h : gkey g k1 = gkey g k2) : k1 = k2 := by
  cases g with
  | true =>
    simp only [gkey, jsGroupKeyText, if_true, Val.str, List.cons.injEq, Val.at.injEq, Atom.str.injEq, and_true] at h
    exact hInj _ _ h
  | false =>
    rcases h1 with h1 | h1
    · cases h1
    · rcases h2 with h2 | h2
      · cases h2
      · rw [h1, h2]

theorem gkey_eq_iff (hInj : ∀ r1 r2 : List Val, jsonRow r1 = jsonRow r2 → r1 = r2) (g : Bool) (k1 k2 : List Val)
    (h1 : KeyOK g k1) (h2 : KeyOK g k2) : gkey g k1 = gkey g k2 ↔ k1 = k2 :=
  ⟨gkey_inj hInj g k1 k2 h1 h2, fun h => by rw [h]⟩

section Inj
variable (hInj : ∀ r1 r2 : List Val, jsonRow r1 = jsonRow r2 → r1 = r2)
include hInj

theorem lookupAcc_js (g : Bool) (stats : List (List Val × Acc)) (key : List Val) (hs : StatsOK g stats) (hk : KeyOK g key) :
    lookupAcc (jsStats g stats) (gkey g key) = lookupAcc stats key := by
  induction stats with
  | nil => rfl
  | cons e rest ih =>
    have he : KeyOK g e.1 := hs e (List.mem_cons_self)
    have hr : StatsOK g rest := fun x hx => hs x (List.mem_cons_of_mem _ hx)
    have ih' := ih hr
    simp only [lookupAcc, jsStats, List.map_cons, List.find?_cons] at ih' ⊢
    by_cases h : e.1 = key
    · simp [h]
    · have h' : ¬ gkey g e.1 = gkey g key := fun hh => h (gkey_inj hInj g _ _ he hk hh)
      simp only [h, h', decide_false]
      exact ih'

theorem setAcc_js (g : Bool) (stats : List (List Val × Acc)) (key : List Val) (a : Acc) (hs : StatsOK g stats) (hk : KeyOK g key) :
    setAcc (jsStats g stats) (gkey g key) a = jsStats g (setAcc stats key a) := by
  induction stats with
  | nil => rfl
  | cons e rest ih =>
    obtain ⟨k', a'⟩ := e
    have he : KeyOK g k' := hs (k', a') (List.mem_cons_self)
    have hr : StatsOK g rest := fun x hx => hs x (List.mem_cons_of_mem _ hx)
    have ih' := ih hr
    simp only [jsStats, List.map_cons, setAcc] at ih' ⊢
    by_cases h : k' = key
    · simp [h]
    · have h' : ¬ gkey g k' = gkey g key := fun hh => h (gkey_inj hInj g _ _ he hk hh)
      simp only [h, h', if_false, List.map_cons, ih']

end Inj

theorem setAcc_ok (g : Bool) (stats : List (List Val × Acc)) (key : List Val) (a : Acc) (hs : StatsOK g stats) (hk : KeyOK g key) :
    StatsOK g (setAcc stats key a) := by
  induction stats with
  | nil =>
    intro e he
    simp only [setAcc, List.mem_singleton] at he
    subst he; exact hk
  | cons e rest ih =>
    obtain ⟨k', a'⟩ := e
    have he : KeyOK g k' := hs (k', a') (List.mem_cons_self)
    have hr : StatsOK g rest := fun x hx => hs x (List.mem_cons_of_mem _ hx)
    simp only [setAcc]
    split
    · intro x hx
      rcases List.mem_cons.1 hx with hx | hx
      · subst hx; exact he
      · exact hr x hx
    · intro x hx
      rcases List.mem_cons.1 hx with hx | hx
      · subst hx; exact he
      · exact ih hr x hx


theorem increment_js (hInj : ∀ r1 r2 : List Val, jsonRow r1 = jsonRow r2 → r1 = r2)
    (g : Bool) (c : AggCol) (key : List Val) (v : Val) (hc : StatsOK g c.stats) (hk : KeyOK g key) :
    (jsCol g c).increment (gkey g key) v = (c.increment key v).map (jsCol g) := by
  obtain ⟨kind, isStr, stats⟩ := c
  simp only at hc
  simp only [AggCol.increment, jsCol, lookupAcc_js hInj g stats key hc hk]
  cases kind with
  | none =>
    cases lookupAcc stats key with
    | none => (simp only [setAcc_js hInj g stats key _ hc hk, Except.map]; rfl)
    | some a => cases a <;> simp only [Except.map] <;> split <;> rfl
  | some k =>
    cases k with
    | anyValue =>
      cases lookupAcc stats key with
      | none => (simp only [setAcc_js hInj g stats key _ hc hk, Except.map]; rfl)
      | some a => rfl
    | count =>
      cases lookupAcc stats key with
      | none => (simp only [setAcc_js hInj g stats key _ hc hk, Except.map]; rfl)
      | some a => cases a <;> (simp only [setAcc_js hInj g stats key _ hc hk, Except.map]; rfl)
    | arrayAgg =>
      cases v with
      | list xs => rfl
      | «at» a =>
        cases lookupAcc stats key with
        | none => (simp only [setAcc_js hInj g stats key _ hc hk, Except.map]; rfl)
        | some a => cases a <;> (simp only [setAcc_js hInj g stats key _ hc hk, Except.map]; rfl)
    | _ =>
      cases numParse isStr v with
      | error e => rfl
      | ok p =>
        (simp only [bind, Except.bind, setAcc_js hInj g stats key _ hc hk, Except.map]; try rfl)


theorem increment_ok (g : Bool) (c c' : AggCol) (key : List Val) (v : Val) (hc : StatsOK g c.stats) (hk : KeyOK g key)
    (h : c.increment key v = .ok c') : StatsOK g c'.stats := by
  obtain ⟨kind, isStr, stats⟩ := c
  simp only at hc
  have hs := fun a => setAcc_ok g stats key a hc hk
  simp only [AggCol.increment] at h
  cases kind with
  | none =>
    cases hl : lookupAcc stats key with
    | none => simp only [hl, Except.ok.injEq] at h; subst h; exact hs _
    | some a =>
      cases a <;> simp only [hl, reduceCtorEq] at h
      split at h
      · simp only [Except.ok.injEq] at h; subst h; exact hc
      · cases h
  | some k =>
    cases k with
    | anyValue =>
      cases hl : lookupAcc stats key with
      | none => simp only [hl, Except.ok.injEq] at h; subst h; exact hs _
      | some a => simp only [hl, Except.ok.injEq] at h; subst h; exact hc
    | count =>
      cases hl : lookupAcc stats key with
      | none => simp only [hl, Except.ok.injEq] at h; subst h; exact hs _
      | some a => cases a <;> simp only [hl, Except.ok.injEq] at h <;> subst h <;> exact hs _
    | arrayAgg =>
      cases v with
      | list xs => simp only [reduceCtorEq] at h
      | «at» a =>
        cases hl : lookupAcc stats key with
        | none => simp only [hl, Except.ok.injEq] at h; subst h; exact hs _
        | some a => cases a <;> simp only [hl, Except.ok.injEq] at h <;> subst h <;> exact hs _
    | _ =>
      cases hn : numParse isStr v with
      | error e => simp only [hn, bind, Except.bind, reduceCtorEq] at h
      | ok p =>
        simp only [hn, bind, Except.bind, Except.ok.injEq] at h
        subst h; exact hs _

theorem incrementAll_js (hInj : ∀ r1 r2 : List Val, jsonRow r1 = jsonRow r2 → r1 = r2)
    (g : Bool) (key : List Val) (hk : KeyOK g key) (cs : List AggCol) (row : Row) (hc : ∀ c ∈ cs, StatsOK g c.stats) :
    incrementAll (cs.map (jsCol g)) (gkey g key) row = (incrementAll cs key row).map (List.map (jsCol g)) := by
  induction cs generalizing row with
  | nil => simp only [List.map_nil, incrementAll, Except.map]
  | cons c cs ih =>
    cases row with
    | nil => simp only [List.map_cons, incrementAll, Except.map]
    | cons v vs =>
      have h1 := increment_js hInj g c key v (hc c List.mem_cons_self) hk
      have h2 := ih vs (fun x hx => hc x (List.mem_cons_of_mem _ hx))
      simp only [List.map_cons, incrementAll, h1, h2]
      cases c.increment key v with
      | error e => rfl
      | ok c' =>
        cases incrementAll cs key vs with
        | error e => rfl
        | ok cs' => rfl

theorem incrementAll_ok (g : Bool) (key : List Val) (hk : KeyOK g key) (cs cs' : List AggCol) (row : Row)
    (hc : ∀ c ∈ cs, StatsOK g c.stats) (h : incrementAll cs key row = .ok cs') : ∀ c ∈ cs', StatsOK g c.stats := by
  induction cs generalizing row cs' with
  | nil => simp only [incrementAll, Except.ok.injEq] at h; subst h; exact hc
  | cons c cs ih =>
    cases row with
    | nil => simp only [incrementAll, Except.ok.injEq] at h; subst h; exact hc
    | cons v vs =>
      simp only [incrementAll] at h
      cases h1 : c.increment key v with
      | error e => simp only [h1, bind, Except.bind, reduceCtorEq] at h
      | ok c' =>
        cases h2 : incrementAll cs key vs with
        | error e => simp only [h1, h2, bind, Except.bind, reduceCtorEq] at h
        | ok cs'' =>
          simp only [h1, h2, bind, Except.bind, pure, Except.pure, Except.ok.injEq] at h
          subst h
          intro x hx
          rcases List.mem_cons.1 hx with hx | hx
          · subst hx; exact increment_ok g c _ key v (hc c List.mem_cons_self) hk h1
          · exact ih _ vs (fun x hx => hc x (List.mem_cons_of_mem _ hx)) h2 x hx


/-! ### the main loop -/

structure AggSim (g : Bool) (aj : JsAggState) (a : AggState) : Prop where
  cols : aj.cols = a.cols.map (jsCol g)
  colsOK : ∀ c ∈ a.cols, StatsOK g c.stats
  keys : aj.keys = a.keys.map (fun k => (jsGroupKeyText g k, k))
  keysOK : ∀ k ∈ a.keys, KeyOK g k

def AggOptSim (g : Bool) : Option JsAggState → Option AggState → Prop
  | none, none => True
  | some aj, some a => AggSim g aj a
  | _, _ => False

structure LoopSim (g : Bool) (m : Nat) (sj : JsLoopState) (s : LoopState) : Prop where
  chain : ChainSim m sj.chain s.chain
  nu : sj.nu = s.nu
  stop : sj.stop = s.stop
  agg : AggOptSim g sj.agg s.agg
  aggSorted : s.agg.isSome = true → s.chain.sorted = none

theorem LoopSim.mono {g : Bool} {m n : Nat} (hmn : m ≤ n) {sj s} (h : LoopSim g m sj s) : LoopSim g n sj s :=
  ⟨h.chain.mono hmn, h.nu, h.stop, h.agg, h.aggSorted⟩

/-- two computations end alike: related results, or the same error -/
def ExSim {ε α β : Type} (R : α → β → Prop) : Except ε α → Except ε β → Prop
  | .ok a, .ok b => R a b
  | .error x, .error y => x = y
  | _, _ => False

theorem ExSim.bind_same {ε α β γ : Type} {S : β → γ → Prop} (x : Except ε α) (f : α → Except ε β) (f' : α → Except ε γ)
    (h : ∀ a, x = .ok a → ExSim S (f a) (f' a)) : ExSim S (x >>= f) (x >>= f') := by
  cases x with
  | error e => rfl
  | ok a => exact h a rfl

theorem ExSim.bind {ε α α' β γ : Type} {R : α → α' → Prop} {S : β → γ → Prop} {x : Except ε α} {y : Except ε α'}
    (hxy : ExSim R x y) (f : α → Except ε β) (f' : α' → Except ε γ)
    (h : ∀ a b, R a b → ExSim S (f a) (f' b)) : ExSim S (x >>= f) (y >>= f') := by
  cases x with
  | error e => cases y with
    | error e' => exact hxy
    | ok b => exact hxy.elim
  | ok a => cases y with
    | error e' => exact hxy.elim
    | ok b => exact h a b hxy

theorem chain_sorted_write (c : Chain) (k : List Val) (r : Row) (h : c.sorted = none) : (c.write k r).1.sorted = none := by
  obtain ⟨s, sub⟩ := c
  simp only at h
  subst h
  rfl

theorem emitGo_sorted (key : List Val) (row : Row) (pos : Nat) (l : List Atom) (c : Chain) (h : c.sorted = none) :
    (emitRows.go key row pos c l).1.sorted = none := by
  induction l generalizing c with
  | nil => exact h
  | cons v vs ih =>
    simp only [emitRows.go]
    split
    · exact ih _ (chain_sorted_write c key _ h)
    · exact chain_sorted_write c key _ h

theorem keyOK_of_groupBy (q : SemQuery) (e : Env) (key : List Val)
    (h : liftErr e.nr (match q.groupBy with | some g => g e | none => .ok [Val.none]) = .ok key) : KeyOK q.groupBy.isSome key := by
  cases hg : q.groupBy with
  | some g => exact Or.inl rfl
  | none =>
    simp only [hg, liftErr, Except.ok.injEq] at h
    exact Or.inr h.symm

theorem map_jsCol_init (g : Bool) (kinds : List (Option AggKind)) :
    (kinds.map (fun k => ({ kind := k } : AggCol))).map (jsCol g) = kinds.map (fun k => ({ kind := k } : AggCol)) := by
  simp only [List.map_map]
  rfl

section Inj
variable (hInj : ∀ r1 r2 : List Val, jsonRow r1 = jsonRow r2 → r1 = r2)
include hInj

theorem keyText_inj (g : Bool) (k1 k2 : List Val) (h1 : KeyOK g k1) (h2 : KeyOK g k2)
    (h : jsGroupKeyText g k1 = jsGroupKeyText g k2) : k1 = k2 :=
  gkey_inj hInj g k1 k2 h1 h2 (by simp only [gkey, h])

theorem keys_any (g : Bool) (ks : List (List Val)) (key : List Val) (hks : ∀ k ∈ ks, KeyOK g k) (hk : KeyOK g key) :
    (ks.map (fun k => (jsGroupKeyText g k, k))).any (fun p => p.1 == jsGroupKeyText g key) = ks.contains key := by
  induction ks with
  | nil => rfl
  | cons k ks ih =>
    have ih' := ih (fun x hx => hks x (List.mem_cons_of_mem _ hx))
    simp only [List.map_cons, List.any_cons, List.contains_cons, ih']
    congr 1
    by_cases hkk : k = key
    · subst hkk; simp
    · have : ¬ jsGroupKeyText g k = jsGroupKeyText g key := fun hh => hkk (keyText_inj hInj g _ _ (hks k List.mem_cons_self) hk hh)
      have hkk' : ¬ key = k := fun hh => hkk hh.symm
      rw [beq_eq_false_iff_ne.2 this, beq_eq_false_iff_ne.2 hkk']

theorem aggStep_sim (g : Bool) (key : List Val) (hk : KeyOK g key) (cs : List AggCol) (hc : ∀ c ∈ cs, StatsOK g c.stats)
    (row : Row) (nr : Nat) :
    ExSim (fun cj c => cj = c.map (jsCol g) ∧ ∀ x ∈ c, StatsOK g x.stats)
      (liftErr nr (incrementAll (cs.map (jsCol g)) (gkey g key) row)) (liftErr nr (incrementAll cs key row)) := by
  rw [incrementAll_js hInj g key hk cs row hc]
  cases hi : incrementAll cs key row with
  | error e => cases e <;> rfl
  | ok cs' => exact ⟨rfl, incrementAll_ok g key hk cs cs' row hc hi⟩

theorem emitRows_sim {g : Bool} {m : Nat} {sj : JsLoopState} {s : LoopState} (h : LoopSim g m sj s)
    (key : List Val) (nr : Nat) (hm : m ≤ nr) (row : Row) (un : Option (Nat × List Atom)) :
    LoopSim g nr (emitRowsJs sj key nr row un) (emitRows s key row un) := by
  cases un with
  | none =>
    have hw := h.chain.write hInj key nr hm row
    simp only [emitRowsJs, emitRows]
    exact ⟨hw.1, h.nu, by simp only [h.stop, hw.2], h.agg, fun ha => chain_sorted_write _ _ _ (h.aggSorted ha)⟩
  | some p =>
    obtain ⟨pos, l⟩ := p
    have hw := emitGo_sim hInj key nr row pos l h.chain hm
    simp only [emitRowsJs, emitRows]
    exact ⟨hw.1, h.nu, by simp only [h.stop, hw.2], h.agg, fun ha => emitGo_sorted _ _ _ _ _ (h.aggSorted ha)⟩

theorem processSelect_sim (q : SemQuery) {m : Nat} {sj : JsLoopState} {s : LoopState}
    (h : LoopSim q.groupBy.isSome m sj s) (e : Env) (hm : m ≤ e.nr) :
    ExSim (LoopSim q.groupBy.isSome e.nr) (processSelectJs q sj e) (processSelect q s e) := by
  simp only [processSelectJs, processSelect]
  apply ExSim.bind_same
  intro pass hpass
  cases pass with
  | false => exact h.mono hm
  | true =>
    simp only [Bool.not_true, Bool.false_eq_true, if_false]
    apply ExSim.bind_same
    intro p hp
    obtain ⟨row, un⟩ := p
    simp only
    by_cases hagg : q.isAgg = true
    · simp only [hagg, if_true]
      apply ExSim.bind_same
      intro key hkey
      have hk := keyOK_of_groupBy q e key hkey
      have ha := h.agg
      have hso := h.aggSorted
      have hf := h.chain.forbids
      generalize sj.agg = aj at ha ⊢
      generalize s.agg = a at ha hso ⊢
      cases aj with
      | none => cases a with
        | some a => exact ha.elim
        | none =>
          simp only [hf]
          by_cases hfb : s.chain.forbidsAggregation = true
          · simp only [hfb, if_true]; rfl
          · simp only [hfb]
            have hst := aggStep_sim hInj q.groupBy.isSome key hk
              ((aggColKinds q.items e).map (fun k => ({ kind := k } : AggCol)))
              (fun c hc x hx => by
                rcases List.mem_map.1 hc with ⟨k, _, rfl⟩
                cases hx) row e.nr
            rw [map_jsCol_init] at hst
            refine ExSim.bind hst _ _ ?_
            rintro cj c ⟨rfl, hcs⟩
            refine ⟨h.chain.mono hm, h.nu, h.stop, ⟨rfl, hcs, rfl, ?_⟩, ?_⟩
            · intro k hk'
              simp only [List.mem_singleton] at hk'
              subst hk'; exact hk
            · intro _
              simp only [Chain.forbidsAggregation, Bool.or_eq_true, not_or] at hfb
              cases hs : s.chain.sorted with
              | none => rfl
              | some p => simp [hs] at hfb
      | some aj => cases a with
        | none => exact ha.elim
        | some a =>
          simp only
          have hst := aggStep_sim hInj q.groupBy.isSome key hk a.cols ha.colsOK row e.nr
          rw [← ha.cols] at hst
          refine ExSim.bind hst _ _ ?_
          rintro cj c ⟨rfl, hcs⟩
          refine ⟨h.chain.mono hm, h.nu, h.stop, ⟨rfl, hcs, ?_, ?_⟩, fun _ => hso rfl⟩
          · simp only [ha.keys, keys_any hInj _ a.keys key ha.keysOK hk]
            split
            · rfl
            · simp only [List.map_append, List.map_cons, List.map_nil]
          · intro k hk'
            simp only at hk'
            split at hk'
            · exact ha.keysOK k hk'
            · rcases List.mem_append.1 hk' with hk' | hk'
              · exact ha.keysOK k hk'
              · simp only [List.mem_singleton] at hk'
                subst hk'; exact hk
    · simp only [hagg, Bool.false_eq_true, if_false]
      apply ExSim.bind_same
      intro key hkey
      exact emitRows_sim hInj h key e.nr hm row un
end Inj


/-! ### JOIN: keys filed under their JSON text -/

def jsEntries (n : Nat) (es : List (List Val × List (Nat × Nat × Row))) : List (List Val × List (Nat × Nat × Row)) :=
  es.map (fun e => (jsJoinKey n e.1, e.2))

def toJsJoinMap (n : Nat) (jm : JoinMap) : JoinMap := { entries := jsEntries n jm.entries, maxLen := jm.maxLen }

section Inj
variable (hInj : ∀ r1 r2 : List Val, jsonRow r1 = jsonRow r2 → r1 = r2)
include hInj

theorem jsJoinKey_inj (n : Nat) (k1 k2 : List Val) (h : jsJoinKey n k1 = jsJoinKey n k2) : k1 = k2 := by
  simp only [jsJoinKey] at h
  split at h
  · exact h
  · simp only [Val.str, List.cons.injEq, Val.at.injEq, Atom.str.injEq, and_true] at h
    exact hInj _ _ h

theorem addJoinEntry_js (n : Nat) (es : List (List Val × List (Nat × Nat × Row))) (k : List Val) (x : Nat × Nat × Row) :
    addJoinEntry (jsEntries n es) (jsJoinKey n k) x = jsEntries n (addJoinEntry es k x) := by
  induction es with
  | nil => rfl
  | cons e rest ih =>
    obtain ⟨k', xs⟩ := e
    simp only [jsEntries, List.map_cons, addJoinEntry] at ih ⊢
    by_cases h : k' = k
    · simp [h]
    · have h' : ¬ jsJoinKey n k' = jsJoinKey n k := fun hh => h (jsJoinKey_inj hInj n _ _ hh)
      simp only [h, h', if_false, List.map_cons, ih]

theorem buildJs_eq (rhs : List (Option Nat)) (B : Table) (nr : Nat) (jm : JoinMap) :
    JoinMap.buildJs rhs B nr (toJsJoinMap rhs.length jm) = (JoinMap.build rhs B nr jm).map (toJsJoinMap rhs.length) := by
  induction B generalizing nr jm with
  | nil => rfl
  | cons fields rest ih =>
    simp only [JoinMap.buildJs, JoinMap.build]
    cases hk : rhsKey rhs (nr + 1) fields with
    | error e => rfl
    | ok key =>
      simp only [bind, Except.bind]
      have := ih (nr + 1) { entries := addJoinEntry jm.entries key (nr + 1, fields.length, fields), maxLen := max jm.maxLen fields.length }
      simp only [toJsJoinMap, ← addJoinEntry_js hInj] at this ⊢
      exact this

theorem get_js (n : Nat) (jm : JoinMap) (key : List Val) : (toJsJoinMap n jm).get (jsJoinKey n key) = jm.get key := by
  obtain ⟨es, ml⟩ := jm
  simp only [JoinMap.get, toJsJoinMap, jsEntries]
  induction es with
  | nil => rfl
  | cons e rest ih =>
    simp only [List.map_cons, List.find?_cons]
    by_cases h : e.1 = key
    · simp [h]
    · have h' : ¬ jsJoinKey n e.1 = jsJoinKey n key := fun hh => h (jsJoinKey_inj hInj n _ _ hh)
      simp only [h, h', decide_false]
      exact ih

theorem getRhs_js (kind : JoinKind) (n : Nat) (jm : JoinMap) (key : List Val) :
    getRhs kind (toJsJoinMap n jm) (jsJoinKey n key) = getRhs kind jm key := by
  simp only [getRhs, get_js hInj]
  rfl

end Inj


theorem jsJoinKey_congr (n m : Nat) (h : n = 1 ↔ m = 1) (key : List Val) : jsJoinKey n key = jsJoinKey m key := by
  simp only [jsJoinKey]
  by_cases hn : n = 1
  · simp only [hn, h.1 hn]
  · have hm : ¬ m = 1 := fun hh => hn (h.2 hh)
    simp only [hn, hm]

theorem ExSim.eq_refl {ε α : Type} (x : Except ε α) : ExSim Eq x x := by
  cases x <;> rfl

section Inj
variable (hInj : ∀ r1 r2 : List Val, jsonRow r1 = jsonRow r2 → r1 = r2)
include hInj

theorem processMatches_sim (q : SemQuery) (nr : Nat) (recA : Row) (ms : List (Option Nat × Row)) :
    ∀ {m : Nat} {sj : JsLoopState} {s : LoopState}, LoopSim q.groupBy.isSome m sj s → m ≤ nr →
    ExSim (LoopSim q.groupBy.isSome nr) (processMatchesJs q nr recA sj ms) (processMatches q nr recA s ms) := by
  induction ms with
  | nil => intro m sj s h hm; exact h.mono hm
  | cons p rest ih =>
    intro m sj s h hm
    obtain ⟨bnr, recB⟩ := p
    simp only [processMatchesJs, processMatches, h.nu]
    refine ExSim.bind (processSelect_sim hInj q h { nr := nr, a := recA, bnr := bnr, b := some recB, nu := s.nu } hm) _ _ ?_
    intro sj' s' h'
    simp only [h'.stop]
    split
    · exact h'
    · exact ih h' (Nat.le_refl _)

theorem processUpdate_sim (q : SemQuery) (jm jmj : JoinMap)
    (hjs : ∀ js, q.join = some js → (js.lhs.length = 1 ↔ js.rhs.length = 1) ∧ jmj = toJsJoinMap js.rhs.length jm)
    {m : Nat} {sj : JsLoopState} {s : LoopState} (h : LoopSim q.groupBy.isSome m sj s) (nr : Nat) (hm : m ≤ nr) (recA : Row) :
    ExSim (LoopSim q.groupBy.isSome nr) (processUpdateJs q jmj sj nr recA) (processUpdate q jm s nr recA) := by
  simp only [processUpdateJs, processUpdate, h.nu]
  refine ExSim.bind (R := Eq) ?_ _ _ ?_
  · cases hq : q.join with
    | none => exact ExSim.eq_refl _
    | some js =>
      obtain ⟨h1, h2⟩ := hjs js hq
      simp only [h2, jsJoinKey_congr js.lhs.length js.rhs.length h1, getRhs_js hInj]
      exact ExSim.eq_refl _
  · rintro p _ rfl
    obtain ⟨matched, bnr, recB⟩ := p
    have fin : ∀ up nu, LoopSim q.groupBy.isSome nr
        { chain := (sj.chain.write [] nr up).1, nu := nu, stop := sj.stop || !(sj.chain.write [] nr up).2, agg := sj.agg }
        { chain := (s.chain.write [] up).1, nu := nu, stop := s.stop || !(s.chain.write [] up).2, agg := s.agg } := by
      intro up nu
      have hw := h.chain.write hInj [] nr hm up
      exact ⟨hw.1, rfl, by simp only [h.stop, hw.2], h.agg, fun ha => chain_sorted_write _ _ _ (h.aggSorted ha)⟩
    cases matched with
    | false =>
      simp only [Bool.false_eq_true, if_false, pure, Except.pure, bind, Except.bind]
      exact fin _ _
    | true =>
      simp only [if_true]
      apply ExSim.bind_same
      intro pass hpass
      cases pass with
      | false =>
        simp only [Bool.false_eq_true, if_false, pure, Except.pure, bind, Except.bind]
        exact fin _ _
      | true =>
        simp only [if_true]
        apply ExSim.bind_same
        intro up hup
        simp only [pure, Except.pure, bind, Except.bind]
        exact fin _ _

theorem stepRecord_sim (q : SemQuery) (jm jmj : JoinMap)
    (hjs : ∀ js, q.join = some js → (js.lhs.length = 1 ↔ js.rhs.length = 1) ∧ jmj = toJsJoinMap js.rhs.length jm)
    {m : Nat} {sj : JsLoopState} {s : LoopState} (h : LoopSim q.groupBy.isSome m sj s) (nr : Nat) (hm : m ≤ nr) (recA : Row) :
    ExSim (LoopSim q.groupBy.isSome nr) (stepRecordJs q jmj sj nr recA) (stepRecord q jm s nr recA) := by
  simp only [stepRecordJs, stepRecord]
  by_cases hu : q.isUpdate = true
  · simp only [hu, if_true]
    exact processUpdate_sim hInj q jm jmj hjs h nr hm recA
  · simp only [hu, Bool.false_eq_true, if_false]
    cases hq : q.join with
    | none =>
      simp only [h.nu]
      exact processSelect_sim hInj q h { nr := nr, a := recA, nu := s.nu } hm
    | some js =>
      obtain ⟨h1, h2⟩ := hjs js hq
      simp only
      apply ExSim.bind_same
      intro key hkey
      rw [h2, jsJoinKey_congr _ _ h1, getRhs_js hInj]
      apply ExSim.bind_same
      intro ms hms
      exact processMatches_sim hInj q nr recA ms h hm

end Inj


/-- the two main loops end alike: same number of records pulled, same error, related states -/
def MainSim (g : Bool) : Except (EngErr × JsLoopState × Nat) (JsLoopState × Nat) → Except (EngErr × LoopState × Nat) (LoopState × Nat) → Prop
  | .ok (sj, n), .ok (s, n') => n = n' ∧ ∃ m, LoopSim g m sj s
  | .error (e, sj, n), .error (e', s, n') => e = e' ∧ n = n' ∧ ∃ m, LoopSim g m sj s
  | _, _ => False

theorem mainLoop_sim (hInj : ∀ r1 r2 : List Val, jsonRow r1 = jsonRow r2 → r1 = r2) (q : SemQuery) (jm jmj : JoinMap)
    (hjs : ∀ js, q.join = some js → (js.lhs.length = 1 ↔ js.rhs.length = 1) ∧ jmj = toJsJoinMap js.rhs.length jm)
    (A : Table) : ∀ (nr : Nat) {sj : JsLoopState} {s : LoopState}, LoopSim q.groupBy.isSome nr sj s →
    MainSim q.groupBy.isSome (mainLoopJs q jmj A nr sj) (mainLoop q jm A nr s) := by
  induction A with
  | nil => intro nr sj s h; exact ⟨rfl, nr, h⟩
  | cons recA rest ih =>
    intro nr sj s h
    simp only [mainLoopJs, mainLoop, h.stop]
    split
    · exact ⟨rfl, nr, h⟩
    · have hs := stepRecord_sim hInj q jm jmj hjs h (nr + 1) (Nat.le_succ _) recA
      cases hj : stepRecordJs q jmj sj (nr + 1) recA with
      | error e =>
        cases hr : stepRecord q jm s (nr + 1) recA with
        | error e' =>
          rw [hj, hr] at hs
          exact ⟨hs, rfl, nr, h⟩
        | ok s' => rw [hj, hr] at hs; exact hs.elim
      | ok sj' =>
        cases hr : stepRecord q jm s (nr + 1) recA with
        | error e' => rw [hj, hr] at hs; exact hs.elim
        | ok s' =>
          rw [hj, hr] at hs
          exact ih (nr + 1) hs

theorem chain_feed_sorted (c : Chain) (rs : List Row) (h : c.sorted = none) : (c.feed rs).sorted = none := by
  induction rs generalizing c with
  | nil => exact h
  | cons r rs ih =>
    simp only [Chain.feed]
    split
    · exact ih _ (chain_sorted_write c [] r h)
    · exact chain_sorted_write c [] r h

theorem ChainSim.zero {m : Nat} {cj c} (h : ChainSim m cj c) (hs : c.sorted = none) : ChainSim 0 cj c := by
  refine ⟨h.sub, h.nref, ?_⟩
  have := h.sorted
  rw [hs] at this ⊢
  cases hj : cj.sorted with
  | none => trivial
  | some p => rw [hj] at this; exact this.elim

theorem ChainSim.feed (hInj : ∀ r1 r2 : List Val, jsonRow r1 = jsonRow r2 → r1 = r2) (rs : List Row) :
    ∀ {cj : JsChain} {c : Chain}, ChainSim 0 cj c → ChainSim 0 (cj.feed rs) (c.feed rs) := by
  induction rs with
  | nil => intro cj c h; exact h
  | cons r rs ih =>
    intro cj c h
    have hw := h.write hInj [] 0 (Nat.le_refl _) r
    simp only [JsChain.feed, Chain.feed, hw.2]
    split
    · exact ih hw.1
    · exact hw.1

section Fin
variable (hInj : ∀ r1 r2 : List Val, jsonRow r1 = jsonRow r2 → r1 = r2)
  (hSort : ∀ (rev : Bool) (es : List (List Val × Nat × Row)) (n : Nat), (∀ e ∈ es, e.1.length = n) →
    es.Pairwise (fun a b => a.2.1 ≤ b.2.1) →
    (∀ a ∈ es, ∀ b ∈ es, (jsStableCompare a.1 b.1 != .gt) = keyLe a.1 b.1) →
    jsSortEntries rev (es.map (fun e => (e.1 ++ [Val.nat e.2.1], e.2.2))) = sortEntries rev (es.map (fun e => (e.1, e.2.2))))
  (hGroup : ∀ ks : List (Str × List Val),
    (∀ a ∈ ks, ∀ b ∈ ks, (jsCompareKeyArrays a.2 b.2 != .gt) = keyLe a.2 b.2) →
    (ks.mergeSort (fun x y => jsCompareKeyArrays x.2 y.2 != .gt)).map (·.2) = (ks.map (·.2)).mergeSort keyLe)

/-- what the ORDER BY hypothesis says about the entries in the reference SortedWriter -/
def SortKeysAgree (ks : List (List Val)) : Prop :=
  (∀ a ∈ ks, ∀ b ∈ ks, a.length = b.length) ∧ (∀ a ∈ ks, ∀ b ∈ ks, (jsStableCompare a b != .gt) = keyLe a b)

def Chain.sortKeys (c : Chain) : List (List Val) :=
  match c.sorted with
  | some (_, es) => es.map (·.1)
  | none => []

include hInj hSort in
theorem ChainSim.finish {m : Nat} {cj : JsChain} {c : Chain} (h : ChainSim m cj c) (hk : SortKeysAgree c.sortKeys) :
    cj.finish.getSink = c.finish.getSink := by
  obtain ⟨sj, subj⟩ := cj
  obtain ⟨s, sub⟩ := c
  have h1 := h.sub
  have h2 := h.sorted
  have h3 := h.nref
  simp only at h1 h2 h3
  subst h1
  cases sj with
  | none => cases s with
    | some p => exact h2.elim
    | none =>
      simp only [JsChain.finish, Chain.finish, JsChain.getSink, Chain.getSink, toJsLayer_finish sub h3]
      rfl
  | some pj => cases s with
    | none => exact h2.elim
    | some p =>
      obtain ⟨rj, ej⟩ := pj
      obtain ⟨rv, e⟩ := p
      obtain ⟨e1, es, e2, e3, e4, e5⟩ := h2
      subst e1 e2 e3
      simp only [Chain.sortKeys, List.map_map] at hk
      obtain ⟨hk1, hk2⟩ := hk
      have hmem : ∀ x ∈ es, x.1 ∈ es.map ((fun e => e.1) ∘ annR) := fun x hx => List.mem_map.2 ⟨x, hx, rfl⟩
      have hsort := hSort rj es ((es.head?.map (·.1.length)).getD 0)
        (by
          intro x hx
          cases es with
          | nil => cases hx
          | cons y ys => exact hk1 _ (hmem x hx) _ (hmem y List.mem_cons_self))
        e4 (fun a ha b hb => hk2 _ (hmem a ha) _ (hmem b hb))
      simp only [JsChain.finish, Chain.finish, JsChain.getSink, Chain.getSink]
      show ((toJsLayer sub).feed (jsSortEntries rj (es.map annJ))).finish.sub.sink = _
      rw [show es.map annJ = es.map (fun e => (e.1 ++ [Val.nat e.2.1], e.2.2)) from rfl, hsort,
        toJsLayer_feed hInj sub h3, toJsLayer_finish _ (DistLayer.feed_nref sub h3 _)]
      rfl


end Fin


def LoopState.groupKeys (s : LoopState) : List (List Val) :=
  match s.agg with
  | some ag => ag.keys
  | none => []

/-- what the GROUP BY hypothesis says about the group keys of the reference AggregateWriter -/
def GroupKeysAgree (ks : List (List Val)) : Prop :=
  ∀ a ∈ ks, ∀ b ∈ ks, (jsCompareKeyArrays a b != .gt) = keyLe a b

theorem SortKeysAgree_nil : SortKeysAgree [] := by
  unfold SortKeysAgree
  exact ⟨fun a ha => (nomatch ha), fun a ha => (nomatch ha)⟩

section Fin
variable (hInj : ∀ r1 r2 : List Val, jsonRow r1 = jsonRow r2 → r1 = r2)
  (hSort : ∀ (rev : Bool) (es : List (List Val × Nat × Row)) (n : Nat), (∀ e ∈ es, e.1.length = n) →
    es.Pairwise (fun a b => a.2.1 ≤ b.2.1) →
    (∀ a ∈ es, ∀ b ∈ es, (jsStableCompare a.1 b.1 != .gt) = keyLe a.1 b.1) →
    jsSortEntries rev (es.map (fun e => (e.1 ++ [Val.nat e.2.1], e.2.2))) = sortEntries rev (es.map (fun e => (e.1, e.2.2))))
  (hGroup : ∀ ks : List (Str × List Val),
    (∀ a ∈ ks, ∀ b ∈ ks, (jsCompareKeyArrays a.2 b.2 != .gt) = keyLe a.2 b.2) →
    (ks.mergeSort (fun x y => jsCompareKeyArrays x.2 y.2 != .gt)).map (·.2) = (ks.map (·.2)).mergeSort keyLe)

include hInj hGroup in
theorem aggRows_eq (g : Bool) (aj : JsAggState) (a : AggState) (h : AggSim g aj a) (hg : GroupKeysAgree a.keys) :
    (aj.keys.mergeSort (fun x y => jsCompareKeyArrays x.2 y.2 != .gt)).map
        (fun k => aj.cols.map (fun c => ((lookupAcc c.stats [Val.str k.1]).map Acc.final).getD Val.none)) =
      (a.keys.mergeSort keyLe).map (fun k => a.cols.map (fun c => ((lookupAcc c.stats k).map Acc.final).getD Val.none)) := by
  have hk2 : aj.keys.map (·.2) = a.keys := by
    rw [h.keys, List.map_map]
    exact List.map_id _
  have hgr := hGroup aj.keys (by
    intro x hx y hy
    refine hg _ ?_ _ ?_
    · rw [← hk2]; exact List.mem_map.2 ⟨x, hx, rfl⟩
    · rw [← hk2]; exact List.mem_map.2 ⟨y, hy, rfl⟩)
  rw [hk2] at hgr
  rw [← hgr, List.map_map]
  apply List.map_congr_left
  intro p hp
  rw [List.mem_mergeSort, h.keys] at hp
  rcases List.mem_map.1 hp with ⟨k, hk, rfl⟩
  simp only [Function.comp, h.cols, List.map_map]
  apply List.map_congr_left
  intro c hc
  show (Option.map Acc.final (lookupAcc (jsStats g c.stats) (gkey g k))).getD Val.none = _
  rw [lookupAcc_js hInj g c.stats k (h.colsOK c hc) (h.keysOK k hk)]

include hInj hSort hGroup in
theorem finishAll_sim {g : Bool} {m : Nat} {sj : JsLoopState} {s : LoopState} (h : LoopSim g m sj s)
    (hk : SortKeysAgree s.chain.sortKeys) (hg : GroupKeysAgree s.groupKeys) :
    (finishAllJs sj).getSink = (finishAll s).getSink := by
  have ha := h.agg
  have hso := h.aggSorted
  simp only [finishAllJs, finishAll]
  simp only [LoopState.groupKeys] at hg
  generalize sj.agg = aj at ha ⊢
  generalize s.agg = a at ha hso hg ⊢
  cases aj with
  | none => cases a with
    | some a => exact ha.elim
    | none => exact h.chain.finish hInj hSort hk
  | some aj => cases a with
    | none => exact ha.elim
    | some a =>
      simp only [aggRows_eq hInj hGroup g aj a ha hg]
      have hs := hso rfl
      refine ((h.chain.zero hs).feed hInj _).finish hInj hSort ?_
      simp only [Chain.sortKeys, chain_feed_sorted _ _ hs]
      exact SortKeysAgree_nil

end Fin

/-! ### the whole run -/

def refJoinMap (q : SemQuery) (B : Table) : Except EngErr JoinMap :=
  match q.join with
  | some js => (JoinMap.build js.rhs B 0 {}).map (JoinMap.widen js.nullWidth)
  | none => .ok {}

/-- the state in which the reference engine leaves its main loop (`none`: it stopped with an error) -/
def refFinalState (q : SemQuery) (A B : Table) (sink : Sink := {}) : Option LoopState :=
  match refJoinMap q B with
  | .error _ => none
  | .ok jm =>
    match mainLoop q jm A 0 { chain := buildChain q sink } with
    | .ok (st, _) => some st
    | .error _ => none

/-- the ORDER BY keys of the entries that reach the SortedWriter -/
def refSortKeys (q : SemQuery) (A B : Table) (sink : Sink := {}) : List (List Val) :=
  match refFinalState q A B sink with
  | some st => st.chain.sortKeys
  | none => []

/-- the GROUP BY keys that occur -/
def refGroupKeys (q : SemQuery) (A B : Table) (sink : Sink := {}) : List (List Val) :=
  match refFinalState q A B sink with
  | some st => st.groupKeys
  | none => []

theorem buildChain_sim (q : SemQuery) (sink : Sink) (hsink : sink.refuseFrom = none) (g : Bool) :
    LoopSim g 0 { chain := buildChainJs q sink } { chain := buildChain q sink } := by
  refine ⟨⟨?_, ?_, ?_⟩, rfl, rfl, trivial, fun h => by cases h⟩
  · simp only [buildChainJs, buildChain]
    split
    · rfl
    · simp only [toJsLayer]
      cases q.distinct <;> rfl
  · simp only [buildChain]
    split <;> exact hsink
  · simp only [buildChainJs, buildChain]
    split
    · trivial
    · cases q.orderBy with
      | none => trivial
      | some o => exact ⟨rfl, [], rfl, rfl, List.Pairwise.nil, fun x hx => by cases hx⟩

def jsJoinMap (q : SemQuery) (B : Table) : Except EngErr JoinMap :=
  match q.join with
  | some js => (JoinMap.buildJs js.rhs B 0 {}).map (JoinMap.widen js.nullWidth)
  | none => .ok {}

def runTail (q : SemQuery) (A B : Table) (sink : Sink) (jm : JoinMap) : RunResult :=
  match mainLoop q jm A 0 { chain := buildChain q sink } with
  | .error (e, st, n) => { sink := st.chain.getSink, error := some e, pulled := n }
  | .ok (st, n) =>
    { sink := (finishAll st).getSink, error := none, pulled := n,
      warnA := fieldsWarning (A.take n), warnB := if q.join.isSome then fieldsWarning B else none }

def runTailJs (q : SemQuery) (A B : Table) (sink : Sink) (jm : JoinMap) : RunResult :=
  match mainLoopJs q jm A 0 { chain := buildChainJs q sink } with
  | .error (e, st, n) => { sink := st.chain.getSink, error := some e, pulled := n }
  | .ok (st, n) =>
    { sink := (finishAllJs st).getSink, error := none, pulled := n,
      warnA := fieldsWarning (A.take n), warnB := if q.join.isSome then fieldsWarning B else none }

theorem run_unfold_tail (q : SemQuery) (A B : Table) (sink : Sink) :
    run q A B sink =
      if q.groupBy.isSome && (q.orderBy.isSome || q.isUpdate) then
        { sink := sink, error := some (.parsing .aggWithOrderDistinct), pulled := 0 }
      else match refJoinMap q B with
        | .error e => { sink := sink, error := some e, pulled := 0 }
        | .ok jm => runTail q A B sink jm := rfl

theorem runJs_unfold_tail (q : SemQuery) (A B : Table) (sink : Sink) :
    runJs q A B sink =
      if q.groupBy.isSome && (q.orderBy.isSome || q.isUpdate) then
        { sink := sink, error := some (.parsing .aggWithOrderDistinct), pulled := 0 }
      else match jsJoinMap q B with
        | .error e => { sink := sink, error := some e, pulled := 0 }
        | .ok jm => runTailJs q A B sink jm := rfl

theorem jsJoinMap_sim (hInj : ∀ r1 r2 : List Val, jsonRow r1 = jsonRow r2 → r1 = r2) (q : SemQuery) (B : Table) :
    ExSim (fun jmj jm => ∀ js, q.join = some js → jmj = toJsJoinMap js.rhs.length jm) (jsJoinMap q B) (refJoinMap q B) := by
  simp only [refJoinMap, jsJoinMap]
  cases hq : q.join with
  | none => intro js h; cases h
  | some js =>
    have this : JoinMap.buildJs js.rhs B 0 {} = (JoinMap.build js.rhs B 0 {}).map (toJsJoinMap js.rhs.length) :=
      buildJs_eq hInj js.rhs B 0 {}
    simp only
    rw [this]
    cases JoinMap.build js.rhs B 0 {} with
    | error e => rfl
    | ok jm =>
      intro js' h
      cases h
      rfl

theorem runJs_eq_run_of
    (hInj : ∀ r1 r2 : List Val, jsonRow r1 = jsonRow r2 → r1 = r2)
    (hSort : ∀ (rev : Bool) (es : List (List Val × Nat × Row)) (n : Nat), (∀ e ∈ es, e.1.length = n) →
      es.Pairwise (fun a b => a.2.1 ≤ b.2.1) →
      (∀ a ∈ es, ∀ b ∈ es, (jsStableCompare a.1 b.1 != .gt) = keyLe a.1 b.1) →
      jsSortEntries rev (es.map (fun e => (e.1 ++ [Val.nat e.2.1], e.2.2))) = sortEntries rev (es.map (fun e => (e.1, e.2.2))))
    (hGroup : ∀ ks : List (Str × List Val),
      (∀ a ∈ ks, ∀ b ∈ ks, (jsCompareKeyArrays a.2 b.2 != .gt) = keyLe a.2 b.2) →
      (ks.mergeSort (fun x y => jsCompareKeyArrays x.2 y.2 != .gt)).map (·.2) = (ks.map (·.2)).mergeSort keyLe)
    (q : SemQuery) (A B : Table) (sink : Sink) (hsink : sink.refuseFrom = none)
    (hjs : ∀ js, q.join = some js → (js.lhs.length = 1 ↔ js.rhs.length = 1))
    (hk : SortKeysAgree (refSortKeys q A B sink)) (hg : GroupKeysAgree (refGroupKeys q A B sink)) :
    runJs q A B sink = run q A B sink := by
  rw [run_unfold_tail, runJs_unfold_tail]
  split
  · rfl
  · have hjm := jsJoinMap_sim hInj q B
    simp only [refSortKeys, refGroupKeys, refFinalState] at hk hg
    generalize refJoinMap q B = jr at hjm hk hg ⊢
    generalize jsJoinMap q B = jrj at hjm ⊢
    cases jrj with
    | error e => cases jr with
      | error e' => cases hjm; rfl
      | ok jm => exact hjm.elim
    | ok jmj => cases jr with
      | error e' => exact hjm.elim
      | ok jm =>
        simp only [runTail, runTailJs] at hk hg ⊢
        have hml := mainLoop_sim hInj q jm jmj (fun js h => ⟨hjs js h, hjm js h⟩) A 0
          (buildChain_sim q sink hsink q.groupBy.isSome)
        generalize mainLoopJs q jmj A 0 { chain := buildChainJs q sink } = rj at hml ⊢
        generalize mainLoop q jm A 0 { chain := buildChain q sink } = r at hml hk hg ⊢
        cases rj with
        | error x => cases r with
          | ok y => exact hml.elim
          | error y =>
            obtain ⟨e, sj, n⟩ := x
            obtain ⟨e', s, n'⟩ := y
            obtain ⟨h1, h2, m, h3⟩ := hml
            subst h1 h2
            simp only [h3.chain.getSink]
        | ok x => cases r with
          | error y => exact hml.elim
          | ok y =>
            obtain ⟨sj, n⟩ := x
            obtain ⟨s, n'⟩ := y
            obtain ⟨h1, m, h3⟩ := hml
            subst h1
            simp only at hk hg
            simp only [finishAll_sim hInj hSort hGroup h3 hk hg]


/-! ### where the keys of `refSortKeys` / `refGroupKeys` come from (reference engine only) -/

/-- the environments on which the engine evaluates the query: a record of `A`, and as partner a record of `B` or the
LEFT JOIN null record -/
def EnvOf (A B : Table) (e : Env) : Prop :=
  e.a ∈ A ∧ ∀ r, e.b = some r → r ∈ B ∨ ∀ v ∈ r, v = Val.none

def SortKeyOf (q : SemQuery) (A B : Table) (k : List Val) : Prop :=
  ∃ o e, q.orderBy = some o ∧ EnvOf A B e ∧ o e = .ok k

def GroupKeyOf (q : SemQuery) (A B : Table) (k : List Val) : Prop :=
  (∃ g e, q.groupBy = some g ∧ EnvOf A B e ∧ g e = .ok k) ∨ (q.groupBy = none ∧ k = [Val.none])

def SortedInv (q : SemQuery) (A B : Table) (c : Chain) : Prop :=
  ∀ rev es, c.sorted = some (rev, es) → (q.isUpdate = false ∧ q.orderBy.isSome = true) ∧ ∀ e ∈ es, SortKeyOf q A B e.1

structure KeyInv (q : SemQuery) (A B : Table) (s : LoopState) : Prop where
  sorted : SortedInv q A B s.chain
  agg : ∀ ag, s.agg = some ag → ∀ k ∈ ag.keys, GroupKeyOf q A B k

theorem SortedInv.write {q : SemQuery} {A B : Table} {c : Chain} (h : SortedInv q A B c) (k : List Val) (r : Row)
    (hk : q.isUpdate = false ∧ q.orderBy.isSome = true → SortKeyOf q A B k) : SortedInv q A B (c.write k r).1 := by
  obtain ⟨s, sub⟩ := c
  cases s with
  | none => intro rev es he; cases he
  | some p =>
    obtain ⟨rv, es0⟩ := p
    intro rev es he
    simp only [Chain.write, Option.some.injEq, Prod.mk.injEq] at he
    obtain ⟨h1, h2⟩ := he
    subst h1 h2
    obtain ⟨hx, hes⟩ := h rv es0 rfl
    refine ⟨hx, ?_⟩
    intro e he
    rcases List.mem_append.1 he with he | he
    · exact hes e he
    · simp only [List.mem_singleton] at he
      subst he
      exact hk hx

theorem SortedInv.go {q : SemQuery} {A B : Table} (key : List Val) (row : Row) (pos : Nat) (l : List Atom)
    (hk : q.isUpdate = false ∧ q.orderBy.isSome = true → SortKeyOf q A B key) :
    ∀ {c : Chain}, SortedInv q A B c → SortedInv q A B (emitRows.go key row pos c l).1 := by
  induction l with
  | nil => intro c h; exact h
  | cons v vs ih =>
    intro c h
    simp only [emitRows.go]
    split
    · exact ih (h.write key _ hk)
    · exact h.write key _ hk

theorem liftErr_ok {α : Type} (nr : Nat) (x : Except ErrKind α) (a : α) (h : liftErr nr x = .ok a) : x = .ok a := by
  cases x with
  | ok b => simp only [liftErr, Except.ok.injEq] at h; rw [h]
  | error e => cases e <;> simp only [liftErr, reduceCtorEq] at h

/-- a computation that, if it succeeds, ends in a state with the property -/
def ExInv {ε α : Type} (P : α → Prop) : Except ε α → Prop
  | .ok a => P a
  | .error _ => True

theorem ExInv.bind {ε α β : Type} {P : β → Prop} (x : Except ε α) (f : α → Except ε β)
    (h : ∀ a, x = .ok a → ExInv P (f a)) : ExInv P (x >>= f) := by
  cases x with
  | error e => trivial
  | ok a => exact h a rfl

theorem ExInv.ok {ε α : Type} {P : α → Prop} {x : Except ε α} {a : α} (h : ExInv P x) (hx : x = .ok a) : P a := by
  subst hx; exact h

theorem processSelect_keyInv (q : SemQuery) (A B : Table) (s : LoopState) (e : Env) (he : EnvOf A B e)
    (h : KeyInv q A B s) : ExInv (KeyInv q A B) (processSelect q s e) := by
  simp only [processSelect]
  apply ExInv.bind
  intro pass hpass
  cases pass with
  | false => exact h
  | true =>
    simp only [Bool.not_true, Bool.false_eq_true, if_false]
    apply ExInv.bind
    intro p hp
    obtain ⟨row, un⟩ := p
    simp only
    by_cases hagg : q.isAgg = true
    · simp only [hagg, if_true]
      apply ExInv.bind
      intro key hkey
      have hG : GroupKeyOf q A B key := by
        have := liftErr_ok _ _ _ hkey
        cases hg : q.groupBy with
        | none =>
          simp only [hg, Except.ok.injEq] at this
          exact Or.inr ⟨hg, this.symm⟩
        | some g =>
          simp only [hg] at this
          exact Or.inl ⟨g, e, hg, he, this⟩
      have hag := h.agg
      generalize s.agg = a at hag ⊢
      cases a with
      | none =>
        simp only
        split
        · trivial
        · apply ExInv.bind
          intro cols hcols
          refine ⟨h.sorted, ?_⟩
          intro ag hag' k hk
          simp only [Option.some.injEq] at hag'
          subst hag'
          simp only [List.mem_singleton] at hk
          subst hk; exact hG
      | some ag0 =>
        simp only
        apply ExInv.bind
        intro cols hcols
        refine ⟨h.sorted, ?_⟩
        intro ag hag' k hk
        simp only [Option.some.injEq] at hag'
        subst hag'
        simp only at hk
        split at hk
        · exact hag ag0 rfl k hk
        · rcases List.mem_append.1 hk with hk | hk
          · exact hag ag0 rfl k hk
          · simp only [List.mem_singleton] at hk
            subst hk; exact hG
    · simp only [hagg, Bool.false_eq_true, if_false]
      apply ExInv.bind
      intro key hkey
      have hk : q.isUpdate = false ∧ q.orderBy.isSome = true → SortKeyOf q A B key := by
        intro hx
        have := liftErr_ok _ _ _ hkey
        cases ho : q.orderBy with
        | none => simp [ho] at hx
        | some o =>
          simp only [ho] at this
          exact ⟨o, e, ho, he, this⟩
      cases un with
      | none => exact ⟨h.sorted.write key row hk, h.agg⟩
      | some p => exact ⟨h.sorted.go key row p.1 p.2 hk, h.agg⟩

theorem processMatches_keyInv (q : SemQuery) (A B : Table) (nr : Nat) (recA : Row) (hA : recA ∈ A)
    (ms : List (Option Nat × Row)) (hms : ∀ m ∈ ms, m.2 ∈ B ∨ ∀ v ∈ m.2, v = Val.none) :
    ∀ (s : LoopState), KeyInv q A B s → ExInv (KeyInv q A B) (processMatches q nr recA s ms) := by
  induction ms with
  | nil => intro s h; exact h
  | cons p rest ih =>
    intro s h
    obtain ⟨bnr, recB⟩ := p
    simp only [processMatches]
    apply ExInv.bind
    intro s' hs'
    have h' := (processSelect_keyInv q A B s { nr := nr, a := recA, bnr := bnr, b := some recB, nu := s.nu }
      ⟨hA, fun r hr => by
        simp only [Option.some.injEq] at hr
        subst hr
        exact hms (bnr, recB) List.mem_cons_self⟩ h).ok hs'
    split
    · exact h'
    · exact ih (fun m hm => hms m (List.mem_cons_of_mem _ hm)) s' h'

theorem processUpdate_keyInv (q : SemQuery) (A B : Table) (hu : q.isUpdate = true) (jm : JoinMap) (s : LoopState)
    (nr : Nat) (recA : Row) (h : KeyInv q A B s) : ExInv (KeyInv q A B) (processUpdate q jm s nr recA) := by
  have hk : q.isUpdate = false ∧ q.orderBy.isSome = true → SortKeyOf q A B [] := by
    intro hx
    rw [hu] at hx
    cases hx.1
  simp only [processUpdate]
  apply ExInv.bind
  intro p hp
  obtain ⟨matched, bnr, recB⟩ := p
  have fin : ∀ up nu, KeyInv q A B
      { chain := (s.chain.write [] up).1, nu := nu, stop := s.stop || !(s.chain.write [] up).2, agg := s.agg } :=
    fun up nu => ⟨h.sorted.write [] _ hk, h.agg⟩
  cases matched with
  | false =>
    simp only [Bool.false_eq_true, if_false, pure, Except.pure, bind, Except.bind]
    exact fin _ _
  | true =>
    simp only [if_true]
    apply ExInv.bind
    intro pass hpass
    cases pass with
    | false =>
      simp only [Bool.false_eq_true, if_false, pure, Except.pure, bind, Except.bind]
      exact fin _ _
    | true =>
      simp only [if_true]
      apply ExInv.bind
      intro up hup
      simp only [pure, Except.pure, bind, Except.bind]
      exact fin _ _

/-! the join map only holds records of `B` -/

def JmInv (B : Table) (jm : JoinMap) : Prop := ∀ p ∈ jm.entries, ∀ x ∈ p.2, x.2.2 ∈ B

theorem addJoinEntry_mem (es : List (List Val × List (Nat × Nat × Row))) (k : List Val) (x : Nat × Nat × Row)
    (P : Nat × Nat × Row → Prop) (hes : ∀ p ∈ es, ∀ y ∈ p.2, P y) (hx : P x) :
    ∀ p ∈ addJoinEntry es k x, ∀ y ∈ p.2, P y := by
  induction es with
  | nil =>
    intro p hp y hy
    simp only [addJoinEntry, List.mem_singleton] at hp
    subst hp
    simp only [List.mem_singleton] at hy
    subst hy; exact hx
  | cons e rest ih =>
    obtain ⟨k', xs⟩ := e
    have h1 := hes (k', xs) List.mem_cons_self
    have h2 : ∀ p ∈ rest, ∀ y ∈ p.2, P y := fun p hp => hes p (List.mem_cons_of_mem _ hp)
    simp only [addJoinEntry]
    split
    · intro p hp y hy
      rcases List.mem_cons.1 hp with hp | hp
      · subst hp
        rcases List.mem_append.1 hy with hy | hy
        · exact h1 y hy
        · simp only [List.mem_singleton] at hy
          subst hy; exact hx
      · exact h2 p hp y hy
    · intro p hp y hy
      rcases List.mem_cons.1 hp with hp | hp
      · subst hp; exact h1 y hy
      · exact ih h2 p hp y hy

theorem build_jmInv (rhs : List (Option Nat)) (B : Table) (B' : Table) (hB : ∀ r ∈ B', r ∈ B) :
    ∀ (n : Nat) (jm0 jm : JoinMap), JmInv B jm0 → JoinMap.build rhs B' n jm0 = .ok jm → JmInv B jm := by
  induction B' with
  | nil =>
    intro n jm0 jm h0 hb
    simp only [JoinMap.build, Except.ok.injEq] at hb
    subst hb; exact h0
  | cons fields rest ih =>
    intro n jm0 jm h0 hb
    simp only [JoinMap.build] at hb
    cases hk : rhsKey rhs (n + 1) fields with
    | error e => simp only [hk, bind, Except.bind, reduceCtorEq] at hb
    | ok key =>
      simp only [hk, bind, Except.bind] at hb
      refine ih (fun r hr => hB r (List.mem_cons_of_mem _ hr)) (n + 1) _ jm ?_ hb
      exact addJoinEntry_mem jm0.entries key _ (fun x => x.2.2 ∈ B) h0 (hB fields List.mem_cons_self)

theorem getRhs_rows (B : Table) (kind : JoinKind) (jm : JoinMap) (hjm : JmInv B jm) (key : List Val)
    (ms : List (Option Nat × Row)) (h : getRhs kind jm key = .ok ms) : ∀ m ∈ ms, m.2 ∈ B ∨ ∀ v ∈ m.2, v = Val.none := by
  have hget : ∀ x ∈ jm.get key, x.2.2 ∈ B := by
    intro x hx
    simp only [JoinMap.get] at hx
    cases hf : jm.entries.find? (fun e => e.1 = key) with
    | none => simp [hf] at hx
    | some p =>
      simp only [hf, Option.map_some, Option.getD_some] at hx
      exact hjm p (List.mem_of_find?_eq_some hf) x hx
  have hms : ∀ m ∈ (jm.get key).map (fun e => (some e.1, e.2.2)), m.2 ∈ B := by
    intro m hm
    rcases List.mem_map.1 hm with ⟨x, hx, rfl⟩
    exact hget x hx
  simp only [getRhs] at h
  cases kind with
  | inner =>
    simp only [Except.ok.injEq] at h
    subst h
    exact fun m hm => Or.inl (hms m hm)
  | left =>
    simp only [Except.ok.injEq] at h
    subst h
    split
    · intro m hm
      simp only [List.mem_singleton] at hm
      subst hm
      exact Or.inr (fun v hv => (List.mem_replicate.1 hv).2)
    · exact fun m hm => Or.inl (hms m hm)
  | strictLeft =>
    simp only at h
    split at h
    · simp only [Except.ok.injEq] at h
      subst h
      exact fun m hm => Or.inl (hms m hm)
    · cases h

theorem stepRecord_keyInv (q : SemQuery) (A B : Table) (jm : JoinMap) (hjm : JmInv B jm) (s : LoopState)
    (nr : Nat) (recA : Row) (hA : recA ∈ A) (h : KeyInv q A B s) : ExInv (KeyInv q A B) (stepRecord q jm s nr recA) := by
  simp only [stepRecord]
  by_cases hu : q.isUpdate = true
  · simp only [hu, if_true]
    exact processUpdate_keyInv q A B hu jm s nr recA h
  · simp only [hu, Bool.false_eq_true, if_false]
    cases hq : q.join with
    | none =>
      exact processSelect_keyInv q A B s { nr := nr, a := recA, nu := s.nu } ⟨hA, fun r hr => by cases hr⟩ h
    | some js =>
      simp only
      apply ExInv.bind
      intro key hkey
      apply ExInv.bind
      intro ms hms
      exact processMatches_keyInv q A B nr recA hA ms (getRhs_rows B js.kind jm hjm key ms (liftErr_ok _ _ _ hms)) s h

theorem mainLoop_keyInv (q : SemQuery) (A B : Table) (jm : JoinMap) (hjm : JmInv B jm) (A' : Table) (hA : ∀ r ∈ A', r ∈ A) :
    ∀ (nr : Nat) (s s' : LoopState) (n : Nat), KeyInv q A B s → mainLoop q jm A' nr s = .ok (s', n) → KeyInv q A B s' := by
  induction A' with
  | nil =>
    intro nr s s' n h hm
    simp only [mainLoop, Except.ok.injEq, Prod.mk.injEq] at hm
    rw [← hm.1]; exact h
  | cons recA rest ih =>
    intro nr s s' n h hm
    simp only [mainLoop] at hm
    split at hm
    · simp only [Except.ok.injEq, Prod.mk.injEq] at hm
      rw [← hm.1]; exact h
    · have hs := stepRecord_keyInv q A B jm hjm s (nr + 1) recA (hA recA List.mem_cons_self) h
      cases hst : stepRecord q jm s (nr + 1) recA with
      | error e => simp only [hst, reduceCtorEq] at hm
      | ok s1 =>
        simp only [hst] at hm
        exact ih (fun r hr => hA r (List.mem_cons_of_mem _ hr)) (nr + 1) s1 s' n (hs.ok hst) hm

theorem buildChain_keyInv (q : SemQuery) (A B : Table) (sink : Sink) : KeyInv q A B { chain := buildChain q sink } := by
  refine ⟨?_, fun ag h => by cases h⟩
  intro rev es he
  simp only [buildChain] at he
  split at he
  · cases he
  · rename_i hu
    cases ho : q.orderBy with
    | none => simp only [ho, reduceCtorEq] at he
    | some o =>
      simp only [ho, Option.some.injEq, Prod.mk.injEq] at he
      refine ⟨⟨by simpa using hu, rfl⟩, ?_⟩
      intro e hes
      rw [← he.2] at hes
      cases hes

theorem refFinalState_keyInv (q : SemQuery) (A B : Table) (sink : Sink) (st : LoopState)
    (h : refFinalState q A B sink = some st) : KeyInv q A B st := by
  simp only [refFinalState] at h
  cases hj : refJoinMap q B with
  | error e => simp only [hj, reduceCtorEq] at h
  | ok jm =>
    simp only [hj] at h
    have hjm : JmInv B jm := by
      simp only [refJoinMap] at hj
      cases hq : q.join with
      | none =>
        simp only [hq, Except.ok.injEq] at hj
        subst hj
        intro p hp
        cases hp
      | some js =>
        simp only [hq] at hj
        cases hb : JoinMap.build js.rhs B 0 {} with
        | error e => simp only [hb, Except.map, reduceCtorEq] at hj
        | ok jm0 =>
          simp only [hb, Except.map, Except.ok.injEq] at hj
          subst hj
          exact build_jmInv js.rhs B B (fun r hr => hr) 0 {} jm0 (fun p hp => by cases hp) hb
    cases hm : mainLoop q jm A 0 { chain := buildChain q sink } with
    | error e => simp only [hm, reduceCtorEq] at h
    | ok p =>
      obtain ⟨s', n⟩ := p
      simp only [hm, Option.some.injEq] at h
      subst h
      exact mainLoop_keyInv q A B jm hjm A (fun r hr => hr) 0 _ s' n (buildChain_keyInv q A B sink) hm

/-- every ORDER BY key the hypotheses of C19 speak about is a value of the ORDER BY expression on a record of `A`
(joined with a record of `B` or the null record) -/
theorem refSortKeys_from_query (q : SemQuery) (A B : Table) (sink : Sink) :
    ∀ k ∈ refSortKeys q A B sink, SortKeyOf q A B k := by
  intro k hk
  simp only [refSortKeys] at hk
  cases hf : refFinalState q A B sink with
  | none => simp only [hf] at hk; cases hk
  | some st =>
    simp only [hf, Chain.sortKeys] at hk
    have hinv := (refFinalState_keyInv q A B sink st hf).sorted
    cases hs : st.chain.sorted with
    | none => simp only [hs] at hk; cases hk
    | some p =>
      obtain ⟨rev, es⟩ := p
      simp only [hs] at hk
      rcases List.mem_map.1 hk with ⟨e, he, rfl⟩
      exact (hinv rev es hs).2 e he

theorem refGroupKeys_from_query (q : SemQuery) (A B : Table) (sink : Sink) :
    ∀ k ∈ refGroupKeys q A B sink, GroupKeyOf q A B k := by
  intro k hk
  simp only [refGroupKeys] at hk
  cases hf : refFinalState q A B sink with
  | none => simp only [hf] at hk; cases hk
  | some st =>
    simp only [hf, LoopState.groupKeys] at hk
    have hinv := (refFinalState_keyInv q A B sink st hf).agg
    cases hs : st.agg with
    | none => simp only [hs] at hk; cases hk
    | some ag =>
      simp only [hs] at hk
      exact hinv ag hs k hk


/-! ### the hypotheses of C19, collected -/

/-- Under these hypotheses the rbql-js engine answers like the reference.  The ORDER BY / GROUP BY clauses speak about the keys
that actually reach the reference SortedWriter / AggregateWriter in this run (`refSortKeys`, `refGroupKeys`: computable). -/
structure JsHyps (q : SemQuery) (A B : Table) (sink : Sink := {}) : Prop where
  /-- JSON number texts identify numbers -/
  hnum : ∀ q1 q2 : Rat, jsNumRepr q1 = jsNumRepr q2 → q1 = q2
  /-- ORDER BY: the sort keys have one length … -/
  hsortLen : ∀ k1 ∈ refSortKeys q A B sink, ∀ k2 ∈ refSortKeys q A B sink, k1.length = k2.length
  /-- … and `stable_compare` orders them like Python orders the tuples -/
  hsort : ∀ k1 ∈ refSortKeys q A B sink, ∀ k2 ∈ refSortKeys q A B sink, (jsStableCompare k1 k2 != .gt) = keyLe k1 k2
  /-- GROUP BY: `compare_key_arrays` orders the group keys like Python orders the tuples -/
  hgroup : ∀ k1 ∈ refGroupKeys q A B sink, ∀ k2 ∈ refGroupKeys q A B sink, (jsCompareKeyArrays k1 k2 != .gt) = keyLe k1 k2
  /-- JOIN: the ON clause is a list of pairs (well-formedness: the parser only produces such) -/
  hjoin : ∀ js, q.join = some js → js.lhs.length = js.rhs.length

/-- a query-level form of the hypotheses: it is enough that the comparison functions agree on every pair of values the
ORDER BY / GROUP BY expression takes on records of `A` (joined with records of `B` or the null record) -/
theorem JsHyps.of_query (q : SemQuery) (A B : Table) (sink : Sink)
    (hnum : ∀ q1 q2 : Rat, jsNumRepr q1 = jsNumRepr q2 → q1 = q2)
    (hsortLen : ∀ k1 k2, SortKeyOf q A B k1 → SortKeyOf q A B k2 → k1.length = k2.length)
    (hsort : ∀ k1 k2, SortKeyOf q A B k1 → SortKeyOf q A B k2 → (jsStableCompare k1 k2 != .gt) = keyLe k1 k2)
    (hgroup : ∀ k1 k2, GroupKeyOf q A B k1 → GroupKeyOf q A B k2 → (jsCompareKeyArrays k1 k2 != .gt) = keyLe k1 k2)
    (hjoin : ∀ js, q.join = some js → js.lhs.length = js.rhs.length) : JsHyps q A B sink :=
  ⟨hnum,
   fun k1 h1 k2 h2 => hsortLen k1 k2 (refSortKeys_from_query q A B sink k1 h1) (refSortKeys_from_query q A B sink k2 h2),
   fun k1 h1 k2 h2 => hsort k1 k2 (refSortKeys_from_query q A B sink k1 h1) (refSortKeys_from_query q A B sink k2 h2),
   fun k1 h1 k2 h2 => hgroup k1 k2 (refGroupKeys_from_query q A B sink k1 h1) (refGroupKeys_from_query q A B sink k2 h2),
   hjoin⟩

/-- without ORDER BY and GROUP BY nothing has to be assumed about the comparison functions -/
theorem JsHyps.of_plain (q : SemQuery) (A B : Table) (sink : Sink)
    (hnum : ∀ q1 q2 : Rat, jsNumRepr q1 = jsNumRepr q2 → q1 = q2)
    (ho : q.orderBy = none) (hg : q.groupBy = none)
    (hjoin : ∀ js, q.join = some js → js.lhs.length = js.rhs.length) : JsHyps q A B sink := by
  have hs : ∀ k, ¬ SortKeyOf q A B k := by
    rintro k ⟨o, e, h, _⟩
    rw [ho] at h; cases h
  have hgk : ∀ k, GroupKeyOf q A B k → k = [Val.none] := by
    rintro k (⟨g, e, h, _⟩ | ⟨_, h⟩)
    · rw [hg] at h; cases h
    · exact h
  refine JsHyps.of_query q A B sink hnum (fun k1 _ h1 => (hs k1 h1).elim) (fun k1 _ h1 => (hs k1 h1).elim) ?_ hjoin
  intro k1 k2 h1 h2
  rw [hgk k1 h1, hgk k2 h2]
  decide

end Rbql
