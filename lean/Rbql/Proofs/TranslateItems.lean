/-
  Shared vocabulary for the select-list translation proofs (C01): space padding, comma-joined item lists,
  and basic facts about `dropSpaces`.
-/
import Rbql.Model.Translate
namespace Rbql

/-- a run of `n` spaces -/
def spaces (n : Nat) : Str := List.replicate n ' '

@[simp] theorem spaces_zero : spaces 0 = [] := rfl
theorem spaces_succ (n : Nat) : spaces (n + 1) = ' ' :: spaces n := rfl
@[simp] theorem spaces_length (n : Nat) : (spaces n).length = n := by simp [spaces]

theorem spaces_succ' (n : Nat) : spaces (n + 1) = spaces n ++ [' '] := by
  simp [spaces, List.replicate_succ']

/-- `,x₁,x₂,…` -/
def commaTail : List Str → Str
  | [] => []
  | x :: xs => ',' :: x ++ commaTail xs

/-- `x₀,x₁,x₂,…` (`",".join`) -/
def commaJoin : List Str → Str
  | [] => []
  | x :: xs => x ++ commaTail xs

theorem commaJoin_eq_joinD (xs : List Str) : commaJoin xs = joinD [','] xs := by
  cases xs with
  | nil => rfl
  | cons x xs =>
    induction xs generalizing x with
    | nil => simp [commaJoin, commaTail, joinD]
    | cons y ys ih =>
      have := ih y
      simp only [commaJoin] at this
      simp [commaJoin, commaTail, joinD, this]

/-- the text after an item: the end, or a comma and more -/
def EndOrCommaCtx (X : Str) : Prop := X = [] ∨ ∃ Y, X = ',' :: Y

theorem commaTail_ctx (xs : List Str) : EndOrCommaCtx (commaTail xs) := by
  cases xs with
  | nil => exact Or.inl rfl
  | cons x xs => exact Or.inr ⟨_, rfl⟩

@[simp] theorem dropSpaces_nil : dropSpaces [] = [] := rfl
@[simp] theorem dropSpaces_space (s : Str) : dropSpaces (' ' :: s) = dropSpaces s := by
  simp [dropSpaces, List.dropWhile]
theorem dropSpaces_cons_ne (c : Char) (s : Str) (h : c ≠ ' ') : dropSpaces (c :: s) = c :: s := by
  have : (c == ' ') = false := by simpa using h
  simp [dropSpaces, this]
@[simp] theorem dropSpaces_spaces_append (n : Nat) (s : Str) : dropSpaces (spaces n ++ s) = dropSpaces s := by
  induction n with
  | zero => rfl
  | succ n ih => simp [spaces_succ, ih]
@[simp] theorem dropSpaces_comma (s : Str) : dropSpaces (',' :: s) = ',' :: s :=
  dropSpaces_cons_ne _ _ (by decide)

theorem dropSpaces_ctx (X : Str) (h : EndOrCommaCtx X) : dropSpaces X = X := by
  rcases h with rfl | ⟨Y, rfl⟩ <;> simp

theorem dropSpaces_length_le (s : Str) : (dropSpaces s).length ≤ s.length := by
  induction s with
  | nil => simp
  | cons c cs ih =>
    by_cases h : c = ' '
    · subst h; simp; omega
    · rw [dropSpaces_cons_ne _ _ h]; simp

end Rbql
