/-
  C05 (UPDATE): facts about the assignment list, refinement of the main loop to `updateSpec`,
  and the property-level corollaries.
-/
import Rbql.Spec.EngineSpec
namespace Rbql

/-! ### (A) the assignment list -/

theorem safeSet_ok {r : Row} {i : Nat} {v : Val} {r' : Row} (h : safeSet r i v = .ok r') :
    i < r.length ∧ r' = r.set i v := by
  unfold safeSet at h
  split at h
  · cases h
  · injection h with h
    exact ⟨by omega, h.symm⟩

theorem safeSet_error {r : Row} {i : Nat} {v : Val} {k : ErrKind} (h : safeSet r i v = .error k) :
    r.length ≤ i ∧ k = .badField i := by
  unfold safeSet at h
  split at h
  · injection h with h
    exact ⟨by assumption, h.symm⟩
  · cases h

/-- unfolding of one step of `applyAssigns` in the success case -/
theorem applyAssigns_cons_ok {i : Nat} {rhs : Ex Val} {rest : List (Nat × Ex Val)} {e : Env} {r r' : Row}
    (h : applyAssigns ((i, rhs) :: rest) e r = .ok r') :
    ∃ v, rhs e = .ok v ∧ i < r.length ∧ applyAssigns rest e (r.set i v) = .ok r' := by
  rw [applyAssigns] at h
  cases hv : rhs e with
  | error k => simp [hv, bind, Except.bind] at h
  | ok v =>
    cases hs : safeSet r i v with
    | error k => simp [hv, hs, bind, Except.bind] at h
    | ok up =>
      simp only [hv, hs, bind, Except.bind] at h
      obtain ⟨hlt, rfl⟩ := safeSet_ok hs
      exact ⟨v, rfl, hlt, h⟩

/-- UPDATE never changes the number of fields of a record -/
theorem applyAssigns_length (as : List (Nat × Ex Val)) (e : Env) (r r' : Row)
    (h : applyAssigns as e r = .ok r') : r'.length = r.length := by
  induction as generalizing r with
  | nil => rw [applyAssigns] at h; injection h with h; rw [h]
  | cons p rest ih =>
    obtain ⟨i, rhs⟩ := p
    obtain ⟨v, _, _, h'⟩ := applyAssigns_cons_ok h
    rw [ih _ h', List.length_set]

/-- a field that is not the target of any assignment keeps its value -/
theorem applyAssigns_untouched (as : List (Nat × Ex Val)) (e : Env) (r r' : Row)
    (h : applyAssigns as e r = .ok r') (j : Nat) (hj : ∀ p ∈ as, p.1 ≠ j) :
    r'[j]? = r[j]? := by
  induction as generalizing r with
  | nil => rw [applyAssigns] at h; injection h with h; rw [h]
  | cons p rest ih =>
    obtain ⟨i, rhs⟩ := p
    obtain ⟨v, _, _, h'⟩ := applyAssigns_cons_ok h
    have hij : i ≠ j := hj (i, rhs) (List.mem_cons_self)
    rw [ih _ h' (fun p hp => hj p (List.mem_cons_of_mem _ hp)), List.getElem?_set_ne hij]

theorem applyAssigns_untouched_getD (as : List (Nat × Ex Val)) (e : Env) (r r' : Row)
    (h : applyAssigns as e r = .ok r') (j : Nat) (hj : ∀ p ∈ as, p.1 ≠ j) :
    r'.getD j Val.none = r.getD j Val.none := by
  rw [List.getD_eq_getElem?_getD, List.getD_eq_getElem?_getD, applyAssigns_untouched as e r r' h j hj]

/-- the sequential loop of the engine is a simultaneous assignment: every right-hand side is evaluated
against the ORIGINAL record (the environment `e` is fixed), only the copy is modified -/
theorem applyAssigns_eq_simultaneous (as : List (Nat × Ex Val)) (e : Env) (r r' : Row)
    (h : applyAssigns as e r = .ok r') : simultaneousAssign as e r = .ok r' := by
  unfold simultaneousAssign
  suffices hx : ∃ vals, as.mapM (fun p => do let v ← p.2 e; pure (p.1, v)) = Except.ok vals ∧
      vals.foldlM (fun up p => safeSet up p.1 p.2) r = Except.ok r' by
    obtain ⟨vals, h1, h2⟩ := hx
    rw [h1]; exact h2
  induction as generalizing r with
  | nil =>
    rw [applyAssigns] at h
    exact ⟨[], rfl, h⟩
  | cons p rest ih =>
    obtain ⟨i, rhs⟩ := p
    obtain ⟨v, hv, hlt, h'⟩ := applyAssigns_cons_ok h
    obtain ⟨vals, h1, h2⟩ := ih _ h'
    refine ⟨(i, v) :: vals, ?_, ?_⟩
    · rw [List.mapM_cons, h1]
      simp only [hv]
      rfl
    · rw [List.foldlM_cons]
      have : safeSet r i v = .ok (r.set i v) := by
        unfold safeSet; rw [if_neg (by omega)]
      simp only [this]
      exact h2

/-- the value of an assigned field (targets pairwise distinct, as in every generated query, or more
generally: the LAST assignment to the field wins) is its right-hand side on the original record -/
theorem applyAssigns_assigned (as : List (Nat × Ex Val)) (e : Env) (r r' : Row)
    (h : applyAssigns as e r = .ok r') (pre post : List (Nat × Ex Val)) (i : Nat) (rhs : Ex Val)
    (has : as = pre ++ (i, rhs) :: post) (hpost : ∀ p ∈ post, p.1 ≠ i) :
    ∃ v, rhs e = .ok v ∧ r'[i]? = some v := by
  subst has
  induction pre generalizing r with
  | nil =>
    obtain ⟨v, hv, hlt, h'⟩ := applyAssigns_cons_ok h
    refine ⟨v, hv, ?_⟩
    rw [applyAssigns_untouched post e _ r' h' i hpost]
    simp [hlt]
  | cons p pre ih =>
    obtain ⟨j, rhs'⟩ := p
    obtain ⟨v, _, _, h'⟩ := applyAssigns_cons_ok h
    exact ih _ h'

/-- assigning to a field the record does not have: the first such assignment (all earlier ones being
fine) raises `badField` with that field's index -/
theorem applyAssigns_bad_field (pre post : List (Nat × Ex Val)) (i : Nat) (rhs : Ex Val) (e : Env) (r : Row)
    (hpre : ∀ p ∈ pre, p.1 < r.length ∧ ∃ v, p.2 e = .ok v) (hv : ∃ v, rhs e = .ok v)
    (hi : r.length ≤ i) :
    applyAssigns (pre ++ (i, rhs) :: post) e r = .error (.badField i) := by
  induction pre generalizing r with
  | nil =>
    obtain ⟨v, hv⟩ := hv
    rw [List.nil_append, applyAssigns, hv]
    simp only [bind, Except.bind, safeSet, if_pos hi]
  | cons p pre ih =>
    obtain ⟨j, rhs'⟩ := p
    obtain ⟨hj, w, hw⟩ := hpre (j, rhs') List.mem_cons_self
    have hw : rhs' e = .ok w := hw
    have hj : j < r.length := hj
    rw [List.cons_append, applyAssigns]
    simp only [hw, bind, Except.bind, safeSet, if_neg (Nat.not_le.mpr hj)]
    apply ih
    · intro p hp
      rw [List.length_set]
      exact hpre p (List.mem_cons_of_mem _ hp)
    · rw [List.length_set]; exact hi

/-- conversely a `badField i` comes from an assignment to a missing field `i` (or was raised by a
right-hand side itself) -/
theorem applyAssigns_bad_field_inv (as : List (Nat × Ex Val)) (e : Env) (r : Row) (i : Nat)
    (h : applyAssigns as e r = .error (.badField i)) :
    (∃ p ∈ as, p.1 = i ∧ r.length ≤ i) ∨ (∃ p ∈ as, p.2 e = .error (.badField i)) := by
  induction as generalizing r with
  | nil => rw [applyAssigns] at h; cases h
  | cons p rest ih =>
    obtain ⟨j, rhs⟩ := p
    rw [applyAssigns] at h
    cases hv : rhs e with
    | error k =>
      simp only [hv, bind, Except.bind] at h
      injection h with h
      subst h
      exact .inr ⟨(j, rhs), List.mem_cons_self, hv⟩
    | ok v =>
      cases hs : safeSet r j v with
      | error k =>
        simp only [hv, hs, bind, Except.bind] at h
        obtain ⟨hle, hk⟩ := safeSet_error hs
        injection h with h
        rw [hk] at h
        injection h with h
        subst h
        exact .inl ⟨(j, rhs), List.mem_cons_self, rfl, hle⟩
      | ok up =>
        simp only [hv, hs, bind, Except.bind] at h
        obtain ⟨_, rfl⟩ := safeSet_ok hs
        rcases ih _ h with ⟨p, hp, rfl, hle⟩ | ⟨p, hp, hpe⟩
        · rw [List.length_set] at hle
          exact .inl ⟨p, List.mem_cons_of_mem _ hp, rfl, hle⟩
        · exact .inr ⟨p, List.mem_cons_of_mem _ hp, hpe⟩

/-- … and the main loop reports it as an error naming the record and the (1-based) field -/
theorem liftErr_badField (nr i : Nat) {α : Type} :
    liftErr nr (.error (.badField i) : Except ErrKind α) = .error (.runtime nr (some (i + 1))) := rfl

/-- `UPDATE SET a1 = a2, a2 = a1` swaps -/
example :
    applyAssigns [(0, fun e => .ok (safeGet e.a 1)), (1, fun e => .ok (safeGet e.a 0))]
      { nr := 1, a := [Val.str ['x'], Val.str ['y']] } [Val.str ['x'], Val.str ['y']]
      = .ok [Val.str ['y'], Val.str ['x']] := by
  rfl

/-! ### (B) the main loop refines `updateSpec` -/

/-- the writer chain of an UPDATE query: nothing but the user's writer -/
def plainChain (s : Sink) : Chain := { sub := { sub := { sink := s } } }

/-- a user writer that accepted one more record -/
def Sink.push (s : Sink) (r : Row) : Sink := { s with writes := s.writes + 1, rows := r :: s.rows }

theorem buildChain_update (q : SemQuery) (sink : Sink) (h : q.isUpdate = true) :
    buildChain q sink = plainChain sink := by
  simp [buildChain, h, plainChain]

theorem plainChain_write (s : Sink) (hs : s.refuseFrom = none) (k : List Val) (r : Row) :
    (plainChain s).write k r = (plainChain (s.push r), true) := by
  simp [plainChain, Chain.write, DistLayer.write, TopLayer.write, Sink.write, hs, Sink.push]

/-- what UPDATE does with one record once its (at most one) partner is known -/
def updateWith (q : SemQuery) (nr nu : Nat) (recA : Row) (e : Env) : Except EngErr (Row × Nat) := do
  let pass ← liftErr nr (match q.where_ with | some w => w e | none => .ok true)
  if pass then do
    let up ← liftErr nr (applyAssigns q.assigns { e with nu := nu + 1 } recA)
    pure (up, nu + 1)
  else pure (recA, nu)

theorem updateOneSpec_eq (q : SemQuery) (B : Table) (nr nu : Nat) (recA : Row) :
    updateOneSpec q B nr nu recA =
      (do
        let envs ← (match q.join with
          | none => pure [({ nr := nr, a := recA } : Env)]
          | some _ => expandRecord q B nr recA)
        match envs with
        | [] => pure (recA, nu)
        | [e] => updateWith q nr nu recA { e with nu := nu }
        | _ => .error (.runtime nr none)) := rfl

/-- the part of `processUpdate` after the partner lookup -/
def processUpdateTail (q : SemQuery) (st : LoopState) (nr : Nat) (recA : Row)
    (m : Bool × Option Nat × Option Row) : Except EngErr LoopState :=
  match m with
  | (matched, bnr, recB) => do
  let e : Env := { nr := nr, a := recA, bnr := bnr, b := recB, nu := st.nu }
  let pass ← if matched then liftErr nr (match q.where_ with | some w => w e | none => .ok true) else pure false
  let (up, nu) ← if pass then do
      let up ← liftErr nr (applyAssigns q.assigns { e with nu := st.nu + 1 } recA)
      pure (up, st.nu + 1)
    else pure (recA, st.nu)
  let (c, ok) := st.chain.write [] up
  return { st with chain := c, nu := nu, stop := st.stop || !ok }

theorem processUpdate_eq (q : SemQuery) (jm : JoinMap) (st : LoopState) (nr : Nat) (recA : Row) :
    processUpdate q jm st nr recA =
      (do
        let m ← (match q.join with
          | none => pure (true, none, none)
          | some js => do
            let key ← liftErr nr (lhsKey js.lhs nr recA)
            let ms ← liftErr nr (getRhs js.kind jm key)
            if ms.length > 1 then .error (.runtime nr none)
            else match ms with
              | [(b, r)] => pure (true, b, some r)
              | _ => pure (false, none, none) : Except EngErr (Bool × Option Nat × Option Row))
        processUpdateTail q st nr recA m) := rfl

/-- the state after the user writer accepted `row` and NU became `nu` -/
def LoopState.emit (st : LoopState) (s : Sink) (row : Row) (nu : Nat) : LoopState :=
  { st with chain := plainChain (s.push row), nu := nu, stop := false }

theorem processUpdateTail_matched (q : SemQuery) (st : LoopState) (nr : Nat) (recA : Row)
    (bnr : Option Nat) (recB : Option Row) (s : Sink) (hc : st.chain = plainChain s)
    (hs : s.refuseFrom = none) (hstop : st.stop = false) :
    processUpdateTail q st nr recA (true, bnr, recB) =
      (updateWith q nr st.nu recA { nr := nr, a := recA, bnr := bnr, b := recB, nu := st.nu }).map
        (fun p => st.emit s p.1 p.2) := by
  simp only [processUpdateTail, updateWith, hc, hstop]
  cases hw : liftErr nr (match q.where_ with
      | some w => w { nr := nr, a := recA, bnr := bnr, b := recB, nu := st.nu }
      | none => Except.ok true) with
  | error k => simp [bind, Except.bind, Except.map]
  | ok pass =>
    cases pass with
    | false =>
      simp [plainChain_write s hs, LoopState.emit, pure, Except.pure, bind, Except.bind, Except.map]
    | true =>
      cases ha : liftErr nr (applyAssigns q.assigns
          { nr := nr, a := recA, bnr := bnr, b := recB, nu := st.nu + 1 } recA) with
      | error k => simp [bind, Except.bind, Except.map]
      | ok up =>
        simp [plainChain_write s hs, LoopState.emit, pure, Except.pure, bind, Except.bind, Except.map]

theorem processUpdateTail_unmatched (q : SemQuery) (st : LoopState) (nr : Nat) (recA : Row)
    (s : Sink) (hc : st.chain = plainChain s)
    (hs : s.refuseFrom = none) (hstop : st.stop = false) :
    processUpdateTail q st nr recA (false, none, none) = .ok (st.emit s recA st.nu) := by
  simp [processUpdateTail, hc, hstop, plainChain_write s hs, LoopState.emit, pure, Except.pure, bind, Except.bind]

/-- the join map agrees with the specification of the partners (proved for `JoinMap.build` below) -/
def JoinMapOK (q : SemQuery) (B : Table) (jm : JoinMap) : Prop :=
  ∀ js, q.join = some js → (jm.maxLen = nullWidth js B ∧
    ∀ key, jm.get key = (partnersSpec js.rhs B key).map (fun p => (p.1, p.2.length, p.2)))

/-- one record: the engine step is the specification step followed by one accepted write -/
theorem processUpdate_spec (q : SemQuery) (B : Table) (jm : JoinMap) (hjm : JoinMapOK q B jm)
    (st : LoopState) (nr : Nat) (recA : Row) (s : Sink) (hc : st.chain = plainChain s)
    (hs : s.refuseFrom = none) (hstop : st.stop = false) :
    processUpdate q jm st nr recA =
      (updateOneSpec q B nr st.nu recA).map (fun p => st.emit s p.1 p.2) := by
  rw [processUpdate_eq, updateOneSpec_eq]
  cases hj : q.join with
  | none =>
    simp only [pure, Except.pure, bind, Except.bind]
    rw [processUpdateTail_matched q st nr recA none none s hc hs hstop]
  | some js =>
    obtain ⟨hmax, hget⟩ := hjm js hj
    simp only [expandRecord, hj]
    cases hk : liftErr nr (lhsKey js.lhs nr recA) with
    | error k => simp [bind, Except.bind, Except.map]
    | ok key =>
      simp only [bind, Except.bind, getRhs, hget key, hmax]
      generalize partnersSpec js.rhs B key = ps
      have hm := processUpdateTail_matched q st nr recA
      have hu := processUpdateTail_unmatched q st nr recA s hc hs hstop
      cases js.kind <;> rcases ps with _ | ⟨p1, _ | ⟨p2, ps⟩⟩ <;>
        simp [liftErr, pure, Except.pure, Except.map, hu, hm _ _ s hc hs hstop]

/-- a user writer that accepted the records `rows`, in that order -/
def Sink.pushAll (s : Sink) : List Row → Sink
  | [] => s
  | r :: rs => (s.push r).pushAll rs

theorem Sink.pushAll_rows (s : Sink) (rows : List Row) : (s.pushAll rows).rows = rows.reverse ++ s.rows := by
  induction rows generalizing s with
  | nil => rfl
  | cons r rs ih => simp [Sink.pushAll, ih, Sink.push]

theorem Sink.pushAll_writes (s : Sink) (rows : List Row) : (s.pushAll rows).writes = s.writes + rows.length := by
  induction rows generalizing s with
  | nil => rfl
  | cons r rs ih => simp [Sink.pushAll, ih, Sink.push]; omega

theorem Sink.pushAll_refuseFrom (s : Sink) (rows : List Row) : (s.pushAll rows).refuseFrom = s.refuseFrom := by
  induction rows generalizing s with
  | nil => rfl
  | cons r rs ih => simp [Sink.pushAll, ih, Sink.push]

theorem Sink.pushAll_finished (s : Sink) (rows : List Row) : (s.pushAll rows).finished = s.finished := by
  induction rows generalizing s with
  | nil => rfl
  | cons r rs ih => simp [Sink.pushAll, ih, Sink.push]

theorem Sink.pushAll_afterRefusal (s : Sink) (rows : List Row) : (s.pushAll rows).afterRefusal = s.afterRefusal := by
  induction rows generalizing s with
  | nil => rfl
  | cons r rs ih => simp [Sink.pushAll, ih, Sink.push]

/-- the main loop of an UPDATE query against `updateSpec`, from any record number, NU and sink contents.
On success every record was pulled and the writer received exactly the specified records, in order;
on an error the error is the specified one, it is reported at the first failing record (number
`nr + k + 1`), and the writer received exactly the updates of the `k` records before it. -/
theorem mainLoop_update_gen (q : SemQuery) (B : Table) (jm : JoinMap) (hupd : q.isUpdate = true)
    (hjm : JoinMapOK q B jm) (A : Table) (nr : Nat) (st : LoopState) (s : Sink)
    (hc : st.chain = plainChain s) (hs : s.refuseFrom = none) (hstop : st.stop = false) :
    match updateSpec q B A nr st.nu with
    | .ok rows => ∃ nu', mainLoop q jm A nr st =
        .ok ({ st with chain := plainChain (s.pushAll rows), nu := nu', stop := false }, nr + A.length)
    | .error e => ∃ st' k pre, mainLoop q jm A nr st = .error (e, st', nr + k + 1) ∧ k < A.length ∧
        updateSpec q B (A.take k) nr st.nu = .ok pre ∧ st'.chain = plainChain (s.pushAll pre) := by
  induction A generalizing nr st s with
  | nil =>
    simp only [updateSpec, mainLoop, Sink.pushAll]
    refine ⟨st.nu, ?_⟩
    cases st
    simp_all
  | cons recA rest ih =>
    rw [updateSpec, mainLoop]
    simp only [hstop, stepRecord, hupd, if_true, Bool.false_eq_true, if_false]
    rw [processUpdate_spec q B jm hjm st (nr + 1) recA s hc hs hstop]
    cases h1 : updateOneSpec q B (nr + 1) st.nu recA with
    | error e => exact ⟨st, 0, [], rfl, by simp, rfl, hc⟩
    | ok p =>
      obtain ⟨row, nu'⟩ := p
      have ih' := ih (nr + 1) (st.emit s row nu') (s.push row) rfl (by simpa [Sink.push] using hs) rfl
      simp only [Except.map, bind, Except.bind]
      have hnu : (st.emit s row nu').nu = nu' := rfl
      rw [hnu] at ih'
      cases h2 : updateSpec q B rest (nr + 1) nu' with
      | error e =>
        rw [h2] at ih'
        obtain ⟨st', k, pre, hm, hk, hpre, hch⟩ := ih'
        refine ⟨st', k + 1, row :: pre, ?_, by simp [hk], ?_, ?_⟩
        · rw [hm]; congr 3; omega
        · rw [List.take_succ_cons, updateSpec, h1]
          simp only [bind, Except.bind, hpre]
          rfl
        · rw [hch]; rfl
      | ok rows =>
        rw [h2] at ih'
        obtain ⟨nu'', ih'⟩ := ih'
        refine ⟨nu'', ?_⟩
        rw [ih']
        simp [LoopState.emit, Sink.pushAll]
        omega

/-- **main loop of UPDATE = `updateSpec`** (join-map characterisation as a hypothesis) -/
theorem mainLoop_update (q : SemQuery) (A B : Table) (jm : JoinMap) (hupd : q.isUpdate = true)
    (hjm : ∀ js, q.join = some js → (jm.maxLen = nullWidth js B ∧
        ∀ key, jm.get key = (partnersSpec js.rhs B key).map (fun p => (p.1, p.2.length, p.2))))
    (sink : Sink) (hs : sink.refuseFrom = none) :
    match updateSpec q B A 0 0 with
    | .ok rows => ∃ st, mainLoop q jm A 0 { chain := buildChain q sink } = .ok (st, A.length) ∧
        st.agg = none ∧ st.stop = false ∧ st.chain = plainChain (sink.pushAll rows) ∧
        st.chain.getSink.rows = rows.reverse ++ sink.rows
    | .error e => ∃ st k pre, mainLoop q jm A 0 { chain := buildChain q sink } = .error (e, st, k + 1) ∧
        k < A.length ∧ updateSpec q B (A.take k) 0 0 = .ok pre ∧
        st.chain.getSink.rows = pre.reverse ++ sink.rows := by
  have h := mainLoop_update_gen q B jm hupd hjm A 0 { chain := buildChain q sink } sink
    (buildChain_update q sink hupd) hs rfl
  simp only [Nat.zero_add] at h
  cases hu : updateSpec q B A 0 0 with
  | ok rows =>
    rw [hu] at h
    obtain ⟨nu', h⟩ := h
    exact ⟨_, h, rfl, rfl, rfl, by simp [Chain.getSink, plainChain, Sink.pushAll_rows]⟩
  | error e =>
    rw [hu] at h
    obtain ⟨st', k, pre, hm, hk, hpre, hch⟩ := h
    exact ⟨st', k, pre, hm, hk, hpre, by simp [hch, Chain.getSink, plainChain, Sink.pushAll_rows]⟩

/-! ### (C) the property, at the level of the specification -/

/-- without a join `expandRecord` is the single unjoined environment, so `updateOneSpec` is uniformly
"expand, then at most one environment" -/
theorem updateOneSpec_eq' (q : SemQuery) (B : Table) (nr nu : Nat) (recA : Row) :
    updateOneSpec q B nr nu recA =
      (do
        let envs ← expandRecord q B nr recA
        match envs with
        | [] => pure (recA, nu)
        | [e] => updateWith q nr nu recA { e with nu := nu }
        | _ => .error (.runtime nr none)) := by
  rw [updateOneSpec_eq]
  cases hj : q.join with
  | none => simp only [expandRecord, hj]; rfl
  | some js => rfl

/-- every environment of a record carries that record, its number, and NU not yet set -/
theorem expandRecord_env (q : SemQuery) (B : Table) (nr : Nat) (recA : Row) (envs : List Env)
    (h : expandRecord q B nr recA = .ok envs) : ∀ e ∈ envs, e.nr = nr ∧ e.a = recA ∧ e.nu = 0 := by
  unfold expandRecord at h
  cases hj : q.join with
  | none =>
    simp only [hj] at h
    injection h with h
    subst h
    simp
  | some js =>
    simp only [hj] at h
    have hmap : ∀ ps : List (Nat × Row), ∀ e ∈ ps.map
        (fun p => ({ nr := nr, a := recA, bnr := some p.1, b := some p.2 } : Env)),
        e.nr = nr ∧ e.a = recA ∧ e.nu = 0 := by
      intro ps e he
      simp only [List.mem_map] at he
      obtain ⟨p, _, rfl⟩ := he
      exact ⟨rfl, rfl, rfl⟩
    cases hk : liftErr nr (lhsKey js.lhs nr recA) with
    | error k => simp [hk, bind, Except.bind] at h
    | ok key =>
      simp only [hk, bind, Except.bind] at h
      split at h
      · injection h with h; subst h; exact hmap _
      · split at h
        · injection h with h; subst h; simp
        · injection h with h; subst h; exact hmap _
      · split at h
        · injection h with h; subst h; exact hmap _
        · cases h

/-- the record is updated: it has exactly one (joined) environment and WHERE is truthy there
(NR, the record, its partner and the current NU are visible to WHERE) -/
def IsUpdated (q : SemQuery) (B : Table) (nr nu : Nat) (recA : Row) (e : Env) : Prop :=
  expandRecord q B nr recA = .ok [e] ∧
    (match q.where_ with | some w => w { e with nu := nu } | none => .ok true) = .ok true

/-- a record without partner (INNER JOIN) is emitted unchanged and does not count -/
theorem updateOneSpec_no_partner (q : SemQuery) (B : Table) (nr nu : Nat) (recA : Row)
    (h : expandRecord q B nr recA = .ok []) : updateOneSpec q B nr nu recA = .ok (recA, nu) := by
  rw [updateOneSpec_eq', h]; rfl

/-- a record for which WHERE is falsy is emitted unchanged and does not count -/
theorem updateOneSpec_where_false (q : SemQuery) (B : Table) (nr nu : Nat) (recA : Row) (e : Env) (w : Ex Bool)
    (h : expandRecord q B nr recA = .ok [e]) (hq : q.where_ = some w) (hw : w { e with nu := nu } = .ok false) :
    updateOneSpec q B nr nu recA = .ok (recA, nu) := by
  rw [updateOneSpec_eq', h]
  simp [updateWith, hq, hw, liftErr, bind, Except.bind, pure, Except.pure]

/-- an updated record: the assignments are applied to a copy, the right-hand sides seeing the original
record, its partner, and NU already counting this record -/
theorem updateOneSpec_updated (q : SemQuery) (B : Table) (nr nu : Nat) (recA : Row) (e : Env)
    (h : IsUpdated q B nr nu recA e) :
    updateOneSpec q B nr nu recA =
      (liftErr nr (applyAssigns q.assigns { e with nu := nu + 1 } recA)).map (fun up => (up, nu + 1)) := by
  obtain ⟨h, hw⟩ := h
  rw [updateOneSpec_eq', h]
  simp only [updateWith, bind, Except.bind, hw, liftErr]
  cases applyAssigns q.assigns { e with nu := nu + 1 } recA with
  | error k => cases k <;> rfl
  | ok up => rfl

/-- inversion: a successful `updateOneSpec` either left the record alone (NU unchanged) or updated it
(NU incremented, and seen already incremented by the right-hand sides) -/
theorem updateOneSpec_ok (q : SemQuery) (B : Table) (nr nu : Nat) (recA row : Row) (nu' : Nat)
    (h : updateOneSpec q B nr nu recA = .ok (row, nu')) :
    (row = recA ∧ nu' = nu ∧ ¬ ∃ e, IsUpdated q B nr nu recA e) ∨
    (∃ e, IsUpdated q B nr nu recA e ∧ nu' = nu + 1 ∧
      applyAssigns q.assigns { e with nu := nu + 1 } recA = .ok row) := by
  rw [updateOneSpec_eq'] at h
  cases he : expandRecord q B nr recA with
  | error k => simp [he, bind, Except.bind] at h
  | ok envs =>
    simp only [he, bind, Except.bind] at h
    rcases envs with _ | ⟨e, _ | ⟨e2, envs⟩⟩
    · injection h with h
      injection h with h1 h2
      refine .inl ⟨h1.symm, h2.symm, ?_⟩
      rintro ⟨e, h', _⟩
      rw [he] at h'
      cases h'
    · simp only [updateWith, bind, Except.bind] at h
      cases hw : (match q.where_ with | some w => w { e with nu := nu } | none => Except.ok true) with
      | error k => rw [hw] at h; cases k <;> cases h
      | ok pass =>
        rw [hw] at h
        cases pass with
        | false =>
          injection h with h
          injection h with h1 h2
          refine .inl ⟨h1.symm, h2.symm, ?_⟩
          rintro ⟨e', h', hw'⟩
          rw [he] at h'
          injection h' with h'
          injection h' with h'
          subst h'
          rw [hw] at hw'
          cases hw'
        | true =>
          refine .inr ⟨e, ⟨he, hw⟩, ?_⟩
          simp only [liftErr, if_true] at h
          cases ha : applyAssigns q.assigns { e with nu := nu + 1 } recA with
          | error k => rw [ha] at h; cases k <;> cases h
          | ok up =>
            rw [ha] at h
            injection h with h
            injection h with h1 h2
            exact ⟨h2.symm, by rw [h1]⟩
    · cases h

/-- NU: the new NU is `nu + 1` exactly when the record was updated, else `nu` -/
theorem updateOneSpec_nu (q : SemQuery) (B : Table) (nr nu : Nat) (recA row : Row) (nu' : Nat)
    (h : updateOneSpec q B nr nu recA = .ok (row, nu')) :
    (nu' = nu + 1 ↔ ∃ e, IsUpdated q B nr nu recA e) ∧ (nu' = nu ↔ ¬ ∃ e, IsUpdated q B nr nu recA e) := by
  rcases updateOneSpec_ok q B nr nu recA row nu' h with ⟨_, h2, h3⟩ | ⟨e, h1, h2, _⟩
  · exact ⟨⟨fun h => by omega, fun h => absurd h h3⟩, ⟨fun _ => h3, fun _ => h2⟩⟩
  · exact ⟨⟨fun _ => ⟨e, h1⟩, fun _ => h2⟩, ⟨fun h => by omega, fun h => absurd ⟨e, h1⟩ h⟩⟩

/-- one output record has as many fields as its input record -/
theorem updateOneSpec_length (q : SemQuery) (B : Table) (nr nu : Nat) (recA row : Row) (nu' : Nat)
    (h : updateOneSpec q B nr nu recA = .ok (row, nu')) : row.length = recA.length := by
  rcases updateOneSpec_ok q B nr nu recA row nu' h with ⟨h1, _, _⟩ | ⟨e, _, _, h3⟩
  · rw [h1]
  · exact applyAssigns_length _ _ _ _ h3

/-- the whole per-record property: an updated record keeps its number of fields, every field that is not
assigned keeps its value, and the result is the simultaneous assignment whose right-hand sides are
evaluated in an environment holding the ORIGINAL record, its number, and NU counting this record -/
theorem updateOneSpec_fields (q : SemQuery) (B : Table) (nr nu : Nat) (recA row : Row) (nu' : Nat)
    (h : updateOneSpec q B nr nu recA = .ok (row, nu')) (e : Env) (hu : IsUpdated q B nr nu recA e) :
    e.nr = nr ∧ e.a = recA ∧ nu' = nu + 1 ∧ row.length = recA.length ∧
    (∀ j, (∀ p ∈ q.assigns, p.1 ≠ j) → row[j]? = recA[j]?) ∧
    simultaneousAssign q.assigns { e with nu := nu + 1 } recA = .ok row := by
  obtain ⟨hnr, ha, _⟩ := expandRecord_env q B nr recA [e] hu.1 e (List.mem_singleton.mpr rfl)
  have h' := updateOneSpec_updated q B nr nu recA e hu
  rw [h] at h'
  cases hap : applyAssigns q.assigns { e with nu := nu + 1 } recA with
  | error k => rw [hap] at h'; cases k <;> cases h'
  | ok up =>
    rw [hap] at h'
    injection h' with h'
    injection h' with h1 h2
    subst h1
    exact ⟨hnr, ha, h2, applyAssigns_length _ _ _ _ hap, fun j hj => applyAssigns_untouched _ _ _ _ hap j hj,
      applyAssigns_eq_simultaneous _ _ _ _ hap⟩

/-- assigning to a field the record does not have: the error names that record (and the 1-based field) -/
theorem updateOneSpec_bad_field (q : SemQuery) (B : Table) (nr nu : Nat) (recA : Row) (e : Env)
    (hu : IsUpdated q B nr nu recA e) (i : Nat)
    (h : applyAssigns q.assigns { e with nu := nu + 1 } recA = .error (.badField i)) :
    updateOneSpec q B nr nu recA = .error (.runtime nr (some (i + 1))) := by
  rw [updateOneSpec_updated q B nr nu recA e hu, h]
  rfl

/-- unfolding of one step of `updateSpec` in the success case -/
theorem updateSpec_cons_ok {q : SemQuery} {B : Table} {recA : Row} {rest : Table} {nr nu : Nat} {rows : List Row}
    (h : updateSpec q B (recA :: rest) nr nu = .ok rows) :
    ∃ row nu' tl, updateOneSpec q B (nr + 1) nu recA = .ok (row, nu') ∧
      updateSpec q B rest (nr + 1) nu' = .ok tl ∧ rows = row :: tl := by
  rw [updateSpec] at h
  cases h1 : updateOneSpec q B (nr + 1) nu recA with
  | error k => simp [h1, bind, Except.bind] at h
  | ok p =>
    obtain ⟨row, nu'⟩ := p
    cases h2 : updateSpec q B rest (nr + 1) nu' with
    | error k => simp [h1, h2, bind, Except.bind] at h
    | ok tl =>
      simp only [h1, h2, bind, Except.bind, pure, Except.pure] at h
      injection h with h
      exact ⟨row, nu', tl, rfl, h2, h.symm⟩

/-- exactly one output record per input record, in order, each with the same number of fields -/
theorem updateSpec_shape (q : SemQuery) (B : Table) (A : Table) (nr nu : Nat) (rows : List Row)
    (h : updateSpec q B A nr nu = .ok rows) : rows.map List.length = A.map List.length := by
  induction A generalizing nr nu rows with
  | nil => rw [updateSpec] at h; injection h with h; subst h; rfl
  | cons recA rest ih =>
    obtain ⟨row, nu', tl, h1, h2, rfl⟩ := updateSpec_cons_ok h
    rw [List.map_cons, List.map_cons, updateOneSpec_length q B _ _ _ _ _ h1, ih _ _ _ h2]

theorem updateSpec_length (q : SemQuery) (B : Table) (A : Table) (nr nu : Nat) (rows : List Row)
    (h : updateSpec q B A nr nu = .ok rows) : rows.length = A.length := by
  have := congrArg List.length (updateSpec_shape q B A nr nu rows h)
  simpa using this

theorem updateSpec_field_count (q : SemQuery) (B : Table) (A : Table) (nr nu : Nat) (rows : List Row)
    (h : updateSpec q B A nr nu = .ok rows) (i : Nat) :
    (rows.getD i []).length = (A.getD i []).length := by
  have hf := updateSpec_shape q B A nr nu rows h
  have := congrArg (fun l => l[i]?) hf
  simp only [List.getElem?_map] at this
  rw [List.getD_eq_getElem?_getD, List.getD_eq_getElem?_getD]
  cases h1 : rows[i]? <;> cases h2 : A[i]? <;> simp_all

/-- NU after the records of a table prefix have been processed (numbered from `nr + 1`, starting at `nu`) -/
def nuAfter (q : SemQuery) (B : Table) : Table → Nat → Nat → Nat
  | [], _, nu => nu
  | recA :: rest, nr, nu =>
    match updateOneSpec q B (nr + 1) nu recA with
    | .ok (_, nu') => nuAfter q B rest (nr + 1) nu'
    | .error _ => nu

/-- the `i`-th output record is `updateOneSpec` of the `i`-th input record, with its 1-based number as
NR and with NU = the number of records updated before it -/
theorem updateSpec_record (q : SemQuery) (B : Table) (A : Table) (nr nu : Nat) (rows : List Row)
    (h : updateSpec q B A nr nu = .ok rows) (i : Nat) (hi : i < A.length) :
    ∃ row nu', rows[i]? = some row ∧
      updateOneSpec q B (nr + i + 1) (nuAfter q B (A.take i) nr nu) A[i] = .ok (row, nu') ∧
      nuAfter q B (A.take (i + 1)) nr nu = nu' := by
  induction A generalizing nr nu rows i with
  | nil => cases hi
  | cons recA rest ih =>
    obtain ⟨row, nu', tl, h1, h2, rfl⟩ := updateSpec_cons_ok h
    cases i with
    | zero =>
      refine ⟨row, nu', rfl, ?_, ?_⟩
      · simpa [nuAfter] using h1
      · simp [nuAfter, h1]
    | succ j =>
      obtain ⟨row', nu'', hr, ho, hn⟩ := ih (nr + 1) nu' tl h2 j (by simpa using hi)
      refine ⟨row', nu'', by simpa using hr, ?_, ?_⟩
      · have : nr + (j + 1) + 1 = nr + 1 + j + 1 := by omega
        rw [this]
        simpa [nuAfter, h1] using ho
      · simpa [nuAfter, h1] using hn

/-- NU counts the records updated so far: it grows by one exactly at the updated records -/
theorem nuAfter_step (q : SemQuery) (B : Table) (A : Table) (nr nu : Nat) (rows : List Row)
    (h : updateSpec q B A nr nu = .ok rows) (i : Nat) (hi : i < A.length) :
    let nu_i := nuAfter q B (A.take i) nr nu
    let nu_i' := nuAfter q B (A.take (i + 1)) nr nu
    (nu_i' = nu_i + 1 ↔ ∃ e, IsUpdated q B (nr + i + 1) nu_i A[i] e) ∧
    (nu_i' = nu_i ↔ ¬ ∃ e, IsUpdated q B (nr + i + 1) nu_i A[i] e) := by
  obtain ⟨row, nu', _, ho, hn⟩ := updateSpec_record q B A nr nu rows h i hi
  intro nu_i nu_i'
  have : nu_i' = nu' := hn
  rw [this]
  exact updateOneSpec_nu q B _ _ _ _ _ ho

/-! ### the hash join map built by `JoinMap.build` (hypothesis `JoinMapOK` of the refinement) -/

/-- a B record with all its key fields has a key, the same for the engine and the specification -/
theorem rhsKey_ok (rhs : List (Option Nat)) (nr : Nat) (fields : Row)
    (h : rhs.findSome? (fun ki => match ki with
      | some i => if fields.length ≤ i then some (EngErr.joinB nr (i + 1)) else none
      | none => none) = none) :
    ∃ k, rhsKey rhs nr fields = .ok k ∧ rhsKeyOf rhs nr fields = some k := by
  induction rhs with
  | nil => exact ⟨[], rfl, rfl⟩
  | cons ki rest ih =>
    rw [List.findSome?_cons] at h
    split at h
    · cases h
    · rename_i hki
      obtain ⟨k, h1, h2⟩ := ih h
      unfold rhsKey at h1
      unfold rhsKeyOf at h2
      unfold rhsKey rhsKeyOf
      cases ki with
      | none =>
        refine ⟨Val.nat nr :: k, ?_, ?_⟩
        · rw [List.mapM_cons, h1]; rfl
        · rw [List.mapM_cons, h2]; rfl
      | some i =>
        have hi : ¬ fields.length ≤ i := by
          intro hi; simp [hi] at hki
        refine ⟨fields.getD i Val.none :: k, ?_, ?_⟩
        · rw [List.mapM_cons, h1]; simp only [if_neg hi]; rfl
        · rw [List.mapM_cons, h2]; simp only [if_neg hi]; rfl

theorem JoinMap.get_addJoinEntry (es : List (List Val × List (Nat × Nat × Row))) (k : List Val)
    (e : Nat × Nat × Row) (m m' : Nat) (key : List Val) :
    JoinMap.get { entries := addJoinEntry es k e, maxLen := m } key =
      if k = key then JoinMap.get { entries := es, maxLen := m' } key ++ [e]
      else JoinMap.get { entries := es, maxLen := m' } key := by
  unfold JoinMap.get
  simp only
  induction es with
  | nil => by_cases hk : k = key <;> simp [addJoinEntry, hk]
  | cons p rest ih =>
    obtain ⟨k', es'⟩ := p
    by_cases h1 : k' = k <;> by_cases h2 : k' = key <;> by_cases h3 : k = key <;>
      simp_all [addJoinEntry]

/-- `HashJoinMap.build`: it succeeds when no B record lacks a key field, the null-record width is the
longest B record, and each key maps to exactly the B records with that key, in B order, with their
1-based numbers and lengths -/
theorem JoinMap.build_spec (rhs : List (Option Nat)) (B : Table) (n : Nat) (jm : JoinMap)
    (hB : (B.zipIdx n).findSome? (fun p =>
      (rhs.findSome? (fun ki => match ki with
        | some i => if p.1.length ≤ i then some (EngErr.joinB (p.2 + 1) (i + 1)) else none
        | none => none))) = none) :
    ∃ jm', JoinMap.build rhs B n jm = .ok jm' ∧
      jm'.maxLen = B.foldl (fun m r => max m r.length) jm.maxLen ∧
      ∀ key, jm'.get key = jm.get key ++
        ((B.zipIdx n).filter (fun p => rhsKeyOf rhs (p.2 + 1) p.1 == some key)).map
          (fun p => (p.2 + 1, p.1.length, p.1)) := by
  induction B generalizing n jm with
  | nil => exact ⟨jm, rfl, rfl, by simp⟩
  | cons fields rest ih =>
    rw [List.zipIdx_cons, List.findSome?_cons] at hB
    split at hB
    · cases hB
    · rename_i hf
      obtain ⟨k, hk1, hk2⟩ := rhsKey_ok rhs (n + 1) fields hf
      obtain ⟨jm', hb, hmax, hget⟩ := ih (n + 1)
        { entries := addJoinEntry jm.entries k (n + 1, fields.length, fields),
          maxLen := max jm.maxLen fields.length } hB
      refine ⟨jm', ?_, ?_, ?_⟩
      · rw [JoinMap.build]
        simp only [hk1, bind, Except.bind]
        exact hb
      · rw [hmax]; rfl
      · intro key
        rw [hget key, JoinMap.get_addJoinEntry _ _ _ _ jm.maxLen, List.zipIdx_cons, List.filter_cons]
        simp only [hk2]
        by_cases hkk : k = key
        · simp [hkk]
        · simp [hkk]

theorem JoinMap.build_ok (q : SemQuery) (B : Table) (js : JoinSpec) (hj : q.join = some js)
    (hjb : joinBError js.rhs B = none) :
    ∃ jm, JoinMap.build js.rhs B 0 {} = .ok jm ∧ JoinMapOK q B (jm.widen js.nullWidth) := by
  obtain ⟨jm, hb, hmax, hget⟩ := JoinMap.build_spec js.rhs B 0 {} hjb
  refine ⟨jm, hb, ?_⟩
  intro js' hj'
  rw [hj] at hj'
  injection hj' with hj'
  subst hj'
  refine ⟨by simp only [JoinMap.widen, nullWidth, maxWidth, hmax], ?_⟩
  intro key
  show jm.get key = _
  rw [hget key]
  simp [partnersSpec, JoinMap.get, List.map_map, Function.comp_def]

/-! ### `run` on UPDATE queries -/

theorem plainChain_finish_rows (s : Sink) : (plainChain s).finish.getSink.rows = s.rows := rfl

/-- `run` on an UPDATE query, for any user writer that never refuses -/
theorem run_update_eq_spec_sink (q : SemQuery) (A B : Table) (sink : Sink) (hs : sink.refuseFrom = none)
    (hupd : q.isUpdate = true) (hg : q.groupBy = none)
    (hjb : ∀ js, q.join = some js → joinBError js.rhs B = none) :
    match updateSpec q B A 0 0 with
    | .ok rows => (run q A B sink).error = none ∧ (run q A B sink).rows = sink.rows.reverse ++ rows ∧
        (run q A B sink).pulled = A.length
    | .error e => (run q A B sink).error = some e := by
  have core : ∀ (jm : JoinMap) (wb : Option (Nat × Nat × Nat × Nat)), JoinMapOK q B jm →
      ∀ r : RunResult, r = (match mainLoop q jm A 0 { chain := buildChain q sink } with
        | .error (e, st, n) => { sink := st.chain.getSink, error := some e, pulled := n }
        | .ok (st, n) => { sink := (finishAll st).getSink, error := none, pulled := n,
                           warnA := fieldsWarning (A.take n), warnB := wb }) →
      (match updateSpec q B A 0 0 with
       | .ok rows => r.error = none ∧ r.rows = sink.rows.reverse ++ rows ∧ r.pulled = A.length
       | .error e => r.error = some e) := by
    intro jm wb hjm r hr
    subst hr
    have hm := mainLoop_update q A B jm hupd hjm sink hs
    cases hu : updateSpec q B A 0 0 with
    | ok rows =>
      rw [hu] at hm
      obtain ⟨st, hml, hagg, _, hch, _⟩ := hm
      simp only [hml, finishAll, hagg, hch, RunResult.rows, plainChain_finish_rows, Sink.pushAll_rows]
      simp
    | error e =>
      rw [hu] at hm
      obtain ⟨st, k, pre, hml, _⟩ := hm
      simp only [hml]
  unfold run
  simp only [hg, Option.isSome_none, Bool.false_and, Bool.false_eq_true, if_false]
  cases hj : q.join with
  | none =>
    have hjm : JoinMapOK q B {} := fun js h => by rw [hj] at h; cases h
    exact core {} _ hjm _ rfl
  | some js =>
    obtain ⟨jm, hb, hjm⟩ := JoinMap.build_ok q B js hj (hjb js hj)
    simp only [hb, Except.map]
    exact core (jm.widen js.nullWidth) _ hjm _ rfl

/-- **UPDATE: `run` = `updateSpec`** -/
theorem run_update_eq_spec (q : SemQuery) (A B : Table) (hupd : q.isUpdate = true) (hg : q.groupBy = none)
    (hjb : ∀ js, q.join = some js → joinBError js.rhs B = none) :
    match updateSpec q B A 0 0 with
    | .ok rows => (run q A B).error = none ∧ (run q A B).rows = rows ∧ (run q A B).pulled = A.length
    | .error e => (run q A B).error = some e := by
  have h := run_update_eq_spec_sink q A B {} rfl hupd hg hjb
  cases hu : updateSpec q B A 0 0 with
  | ok rows => rw [hu] at h; simpa using h
  | error e => rw [hu] at h; exact h

/-- **the UPDATE property for `run`**: when the query succeeds, every input record was pulled, the output
has one record per input record, in order and with the same number of fields, and the `i`-th output
record is `updateOneSpec` of the `i`-th input record (see `updateOneSpec_ok`, `updateOneSpec_fields`,
`updateOneSpec_nu` for what that means) with NU = the number of records updated before it -/
theorem run_update_property (q : SemQuery) (A B : Table) (hupd : q.isUpdate = true) (hg : q.groupBy = none)
    (hjb : ∀ js, q.join = some js → joinBError js.rhs B = none) (hok : (run q A B).error = none) :
    (run q A B).pulled = A.length ∧
    (run q A B).rows.map List.length = A.map List.length ∧
    ∀ i (hi : i < A.length), ∃ row nu', (run q A B).rows[i]? = some row ∧
      updateOneSpec q B (i + 1) (nuAfter q B (A.take i) 0 0) A[i] = .ok (row, nu') ∧
      nuAfter q B (A.take (i + 1)) 0 0 = nu' := by
  have h := run_update_eq_spec q A B hupd hg hjb
  cases hu : updateSpec q B A 0 0 with
  | error e => rw [hu] at h; rw [hok] at h; cases h
  | ok rows =>
    rw [hu] at h
    obtain ⟨_, hrows, hp⟩ := h
    rw [hrows]
    refine ⟨hp, updateSpec_shape q B A 0 0 rows hu, fun i hi => ?_⟩
    have := updateSpec_record q B A 0 0 rows hu i hi
    simpa using this

end Rbql
