/- Lemmas about `findD` / `splitOn` / `joinD` (delimiter search). -/
import Rbql.Model.Basic
namespace Rbql

/-- `d` occurs in `s` at offset `|b|`. -/
def OccAt (d s b r : Str) : Prop := s = b ++ d ++ r

/-- left-most occurrence -/
def FirstOcc (d s b r : Str) : Prop :=
  s = b ++ d ++ r ∧ ∀ b' r', s = b' ++ d ++ r' → b.length ≤ b'.length

def NoOcc (d s : Str) : Prop := ∀ b' r', s ≠ b' ++ d ++ r'

theorem isPrefixOf_iff_append (d s : Str) : d.isPrefixOf s = true ↔ ∃ r, s = d ++ r := by
  rw [List.isPrefixOf_iff_prefix]; constructor
  · rintro ⟨t, rfl⟩; exact ⟨t, rfl⟩
  · rintro ⟨t, rfl⟩; exact ⟨t, rfl⟩

theorem findD_some (d : Str) (hd : d ≠ []) (s b r : Str) :
    findD d s = (b, some r) ↔ FirstOcc d s b r := by
  induction s generalizing b r with
  | nil =>
    simp only [findD, Prod.mk.injEq, reduceCtorEq, and_false, false_iff]
    rintro ⟨h, _⟩
    have := congrArg List.length h
    simp at this
    exact hd (List.eq_nil_of_length_eq_zero (by omega))
  | cons c cs ih =>
    unfold findD
    split
    · rename_i hp
      obtain ⟨t, ht⟩ := (isPrefixOf_iff_append d (c :: cs)).mp hp
      constructor
      · intro h
        simp only [Prod.mk.injEq, Option.some.injEq] at h
        obtain ⟨rfl, rfl⟩ := h
        refine ⟨?_, fun _ _ _ => Nat.zero_le _⟩
        rw [ht]; simp
      · rintro ⟨h1, h2⟩
        have h0 := h2 [] t (by simpa using ht)
        have hb : b = [] := List.eq_nil_of_length_eq_zero (by simpa using h0)
        subst hb
        simp only [List.nil_append] at h1
        simp only [Prod.mk.injEq, Option.some.injEq, true_and]
        rw [h1]; simp
    · rename_i hp
      have hnp : ∀ t, c :: cs ≠ d ++ t := by
        intro t ht; exact hp ((isPrefixOf_iff_append d (c :: cs)).mpr ⟨t, ht⟩)
      rcases hfd : findD d cs with ⟨b0, o0⟩
      constructor
      · intro h
        simp only [hfd, Prod.mk.injEq] at h
        obtain ⟨hb, hr⟩ := h
        subst hr
        obtain ⟨e1, e2⟩ := (ih b0 r).mp hfd
        subst hb
        refine ⟨by rw [e1]; simp, ?_⟩
        intro b' r' hb'
        cases b' with
        | nil => exact absurd (by simpa using hb') (hnp r')
        | cons x b'' =>
          simp only [List.cons_append, List.cons.injEq] at hb'
          have := e2 b'' r' (by simpa using hb'.2)
          simp only [List.length_cons]; omega
      · rintro ⟨h1, h2⟩
        cases b with
        | nil => exact absurd (by simpa using h1) (hnp r)
        | cons x b'' =>
          simp only [List.cons_append, List.cons.injEq] at h1
          obtain ⟨rfl, h1⟩ := h1
          have : findD d cs = (b'', some r) := by
            apply (ih b'' r).mpr
            refine ⟨by simpa using h1, ?_⟩
            intro b' r' hb'
            have := h2 (c :: b') r' (by rw [hb']; simp)
            simp only [List.length_cons] at this; omega
          rw [this] at hfd
          simp only [Prod.mk.injEq] at hfd
          simp [hfd.1, hfd.2]

theorem findD_none (d : Str) (hd : d ≠ []) (s b : Str) :
    findD d s = (b, none) ↔ b = s ∧ NoOcc d s := by
  induction s generalizing b with
  | nil =>
    simp only [findD, Prod.mk.injEq, and_true]
    constructor
    · rintro rfl; refine ⟨rfl, ?_⟩
      intro b' r' h
      have := congrArg List.length h
      simp at this
      exact hd (List.eq_nil_of_length_eq_zero (by omega))
    · rintro ⟨rfl, _⟩; rfl
  | cons c cs ih =>
    unfold findD
    split
    · rename_i hp
      obtain ⟨t, ht⟩ := (isPrefixOf_iff_append d (c :: cs)).mp hp
      simp only [Prod.mk.injEq, reduceCtorEq, and_false, false_iff]
      rintro ⟨_, h⟩; exact h [] t (by simpa using ht)
    · rename_i hp
      have hnp : ∀ t, c :: cs ≠ d ++ t := by
        intro t ht; exact hp ((isPrefixOf_iff_append d (c :: cs)).mpr ⟨t, ht⟩)
      rcases hfd : findD d cs with ⟨b0, o0⟩
      constructor
      · intro h
        simp only [hfd, Prod.mk.injEq] at h
        obtain ⟨hb, hr⟩ := h
        subst hr
        obtain ⟨e1, e2⟩ := (ih b0).mp hfd
        refine ⟨by rw [← hb, e1], ?_⟩
        intro b' r' hb'
        cases b' with
        | nil => exact hnp r' (by simpa using hb')
        | cons x b'' =>
          simp only [List.cons_append, List.cons.injEq] at hb'
          exact e2 b'' r' (by simpa using hb'.2)
      · rintro ⟨rfl, h⟩
        have : findD d cs = (cs, none) := by
          apply (ih cs).mpr
          refine ⟨rfl, ?_⟩
          intro b' r' hb'
          exact h (c :: b') r' (by rw [hb']; simp)
        rw [this] at hfd
        simp only [Prod.mk.injEq] at hfd
        simp [hfd.1, hfd.2]

end Rbql
