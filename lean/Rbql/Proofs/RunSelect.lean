/- Composition of the bridge (main loop ↔ emissions) with the chain algebra: `run = selectSpec`. -/
import Rbql.Proofs.EngineBridge
import Rbql.Proofs.ChainAlgebra
namespace Rbql

theorem isAgg_false_groupBy {q : SemQuery} (h : q.isAgg = false) : q.groupBy = none := by
  unfold SemQuery.isAgg at h
  simp only [Bool.or_eq_false_iff] at h
  cases hg : q.groupBy with
  | none => rfl
  | some g => simp [hg] at h

/-- what `run` returns once the join map is known -/
def runWith (q : SemQuery) (A B : Table) (jm : JoinMap) : RunResult :=
  match mainLoop q jm A 0 { chain := buildChain q {} } with
  | .error (e, st, n) => { sink := st.chain.getSink, error := some e, pulled := n }
  | .ok (st, n) =>
    { sink := (finishAll st).getSink, error := none, pulled := n,
      warnA := fieldsWarning (A.take n), warnB := if q.join.isSome then fieldsWarning B else none }

/-- `run` unfolded: the join map is built (characterised by `joinMap_build_ok`) and the loop runs -/
theorem run_unfold (q : SemQuery) (A B : Table) (hg : q.groupBy = none)
    (hjb : ∀ js, q.join = some js → joinBError js.rhs B = none) :
    ∃ jm, run q A B = runWith q A B jm ∧
      ∀ js, q.join = some js → (jm.maxLen = nullWidth js B ∧
        ∀ key, jm.get key = (partnersSpec js.rhs B key).map (fun p => (p.1, p.2.length, p.2))) := by
  cases hj : q.join with
  | none =>
    refine ⟨{}, ?_, fun js h => by cases h⟩
    unfold run runWith
    simp only [hg, hj, Option.isSome_none, Bool.false_and, Bool.false_eq_true, if_false]
    cases h : mainLoop q {} A 0 { chain := buildChain q {} } with
    | error p => obtain ⟨e, st, n⟩ := p; rfl
    | ok p => obtain ⟨st, n⟩ := p; simp
  | some js =>
    obtain ⟨jm, h1, h2, h3⟩ := joinMap_build_ok js.rhs B (hjb js hj)
    refine ⟨jm.widen js.nullWidth, ?_, fun js' h => by
      cases h; exact ⟨by simp only [JoinMap.widen, nullWidth, h2], h3⟩⟩
    unfold run runWith
    simp only [hg, hj, Option.isSome_none, Bool.false_and, Bool.false_eq_true, if_false, h1, Except.map]
    cases h : mainLoop q (jm.widen js.nullWidth) A 0 { chain := buildChain q {} } with
    | error p => obtain ⟨e, st, n⟩ := p; rfl
    | ok p => obtain ⟨st, n⟩ := p; simp

/-- Master theorem for non-aggregate SELECT: when no evaluation fails, the engine's output is the
specification `truncate ∘ dedup ∘ order` of the emissions (filter / project / UNNEST over the joined
expansion, in input order), and there is no error. -/
theorem run_select_eq_spec (q : SemQuery) (A B : Table) (hsel : q.isUpdate = false) (hagg : q.isAgg = false)
    (hjb : ∀ js, q.join = some js → joinBError js.rhs B = none)
    (es : List (List Val × Row)) (hes : emissions q B A 0 = .ok es) :
    (run q A B).error = none ∧ (run q A B).rows = selectSpec q es ∧ (run q A B).pulled ≤ A.length := by
  obtain ⟨jm, hrun, hchar⟩ := run_unfold q A B (isAgg_false_groupBy hagg) hjb
  obtain ⟨st, n, hml, hagg', _, hchain, hn⟩ := mainLoop_bridge q A B jm hsel hagg hchar es hes (buildChain q {})
  rw [hrun]
  unfold runWith
  rw [hml]
  refine ⟨rfl, ?_, hn⟩
  show ((finishAll st).getSink.rows.reverse = selectSpec q es)
  simp only [finishAll, hagg', hchain]
  exact chain_select_spec q hsel es {} rfl

/-- … and when the evaluation of some record fails, the error reported is the one of the FIRST such
record (no TOP/LIMIT bound, so every record is evaluated). -/
theorem run_select_first_error (q : SemQuery) (A B : Table) (hsel : q.isUpdate = false) (hagg : q.isAgg = false)
    (htop : q.top = none) (hjb : ∀ js, q.join = some js → joinBError js.rhs B = none)
    (e : EngErr) (hes : emissions q B A 0 = .error e) :
    (run q A B).error = some e := by
  obtain ⟨jm, hrun, hchar⟩ := run_unfold q A B (isAgg_false_groupBy hagg) hjb
  obtain ⟨st, n, hml⟩ := mainLoop_first_error q A B jm hsel hagg htop hchar e hes {} rfl
  rw [hrun]
  unfold runWith
  rw [hml]

/-- a B record lacking a key field: the join build fails naming that record and field -/
theorem run_join_build_error (q : SemQuery) (A B : Table) (js : JoinSpec) (hj : q.join = some js)
    (hg : q.groupBy = none) (e : EngErr) (he : joinBError js.rhs B = some e) :
    (run q A B).error = some e := by
  unfold run
  simp only [hg, Option.isSome_none, Bool.false_and, Bool.false_eq_true, if_false, hj]
  rw [joinMap_build_err js.rhs B e he]
  rfl

end Rbql
