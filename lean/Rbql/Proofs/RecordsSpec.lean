/-
  C12 / C13: WHAT the Python CSV reader machine returns.

  `C12_records_chunk_independent` says that `readAll` does not depend on the chunking; this file says what
  the result IS, as a function of the text alone:

  * `textRows c text` — the data rows of a text, each with the number of its last physical line: physical
    lines (`linesSpec`), BOM removed from the first one, one row per line (or quote-parity assembly with the
    comment rule of `get_row_rfc` under quoted_rfc: `assembleN`), comment rows dropped;
  * `readAll_rows_ok` / `readAll_rows_err` — every chunking of the text gives header / records / warnings
    (resp. the quoted_rfc error with record and line number) computed from `textRows`;
  * (2a) `readAll_eq_recordsSpec` — the non-rfc policies in the plainest terms (`recordsSpec`,
    `firstDefectiveSpec`, `bomSeen_iff`, `fieldsWarnSpec`);
  * (2b) `readAll_eq_rfcRecordsSpec`, `readAll_rfc_first_defective` — quoted_rfc without comment prefix is
    `assemble` (RfcAndWarnings.lean) lifted to records; with a comment prefix the exact rule is `assembleN`:
    a line starting with the prefix is skipped only when NO record is open (inside an open quoted field it is
    part of the field), and an assembled row is skipped if it starts with the prefix as a whole;
  * (2c) `csv_quoted_reader_roundtrip`, `csv_simple_reader_roundtrip` — C13: a written table comes back as the
    identical table through the reader machine in any chunking.

  Method: `getRowSimple_spec` (ReaderPyRecords.lean) gives one `get_row_simple` call as a function of the
  pending text; on top of it every layer (`get_row_rfc`, the comment loop, `get_record`, `get_all_records`,
  the constructor and the query modifier) is characterised by what it does to the list of rows ahead.
  Core Lean only.
-/
import Rbql.Proofs.RfcAndWarnings
namespace Rbql

/-! ## the specification -/

/-- the BOM is removed from the first physical line only -/
def stripBomFirst (e : Enc) : List Str → List Str
  | [] => []
  | l :: ls => removeBom e l :: ls

/-- lines with their 1-based physical line numbers, the first one being line `n0 + 1` -/
def numberFrom (n0 : Nat) : List Str → List (Nat × Str)
  | [] => []
  | l :: ls => (n0 + 1, l) :: numberFrom (n0 + 1) ls

/-- quote-parity assembly with line numbers and comment lines: the rows `get_row_rfc` delivers, each with
the number of its LAST physical line; `n` = number of physical lines consumed so far.  A line starting with
the comment prefix is a row of its own when no record is open (and only then); a line with an odd number
of quotes opens a record which extends to the next line with an odd number of quotes (or the end). -/
def assembleN (isC : Str → Bool) : List Str → Nat → Option Str → List (Nat × Str)
  | [], _, none => []
  | [], n, some acc => [(n, acc)]
  | l :: ls, n, none =>
    if isC l then (n + 1, l) :: assembleN isC ls (n + 1) none
    else if countQuotes l % 2 = 0 then (n + 1, l) :: assembleN isC ls (n + 1) none
    else assembleN isC ls (n + 1) (some l)
  | l :: ls, n, some acc =>
    if countQuotes l % 2 = 1 then (n + 1, acc ++ LF :: l) :: assembleN isC ls (n + 1) none
    else assembleN isC ls (n + 1) (some (acc ++ LF :: l))

/-- the rows (`get_row` results) made of a list of physical lines, with the line number reached -/
def rowsOfLines (c : RCfg) (n0 : Nat) (lines : List Str) : List (Nat × Str) :=
  if c.policy = .quotedRfc then assembleN (isComment c) lines n0 none else numberFrom n0 lines

/-- rows still to come from a reader state -/
def rowsAhead (c : RCfg) (s : RState) : List (Nat × Str) := rowsOfLines c s.nl (linesAhead c s)

/-- the BOM flag after the next `get_row_simple` call -/
def bomAfter (c : RCfg) (s : RState) : Bool :=
  if s.nl = 0 then
    (match linesSpec (pending s) with
     | [] => s.bom
     | l :: _ => s.bom || decide (removeBom c.enc l ≠ l))
  else s.bom

theorem bomFix_zero (e : Enc) (ls : List Str) : bomFix e 0 ls = stripBomFirst e ls := by
  cases ls <;> simp [bomFix, stripBomFirst]

theorem bomAfter_pos (c : RCfg) (s : RState) (h : 0 < s.nl) : bomAfter c s = s.bom := by
  have : s.nl ≠ 0 := by omega
  simp [bomAfter, this]

theorem bomAfter_nil (c : RCfg) (s : RState) (h : pending s = []) : bomAfter c s = s.bom := by
  simp [bomAfter, h, linesSpec_nil]

/-- one `get_row_simple` call in terms of the lines ahead -/
theorem getRowSimple_lines (c : RCfg) (s : RState) (h : RInv c s) :
    ∃ x s1, getRowSimple c s = (x, s1) ∧ RInv c s1 ∧ Frame s s1 ∧ s1.bom = bomAfter c s ∧
      ((x = none ∧ linesAhead c s = [] ∧ pending s1 = [] ∧ s1.nl = s.nl) ∨
       (∃ row, x = some row ∧ linesAhead c s = row :: linesSpec (pending s1) ∧ s1.nl = s.nl + 1 ∧
          (pending s1).length < (pending s).length)) := by
  obtain ⟨i, f, o⟩ := getRowSimple_spec c s h
  rcases hg : getRowSimple c s with ⟨x, s1⟩
  rw [hg] at i f o
  refine ⟨x, s1, rfl, i, f, ?_⟩
  simp only [stepObs, specStep] at o
  rcases hn : nextLine (pending s) with _ | ⟨line, rest⟩
  · rw [hn] at o
    simp only [Prod.mk.injEq] at o
    obtain ⟨o1, o2, o3, o4⟩ := o
    have hp := nextLine_none_iff _ hn
    refine ⟨by rw [o4, bomAfter_nil c s hp], Or.inl ⟨o1, ?_, o2, o3⟩⟩
    simp only [linesAhead, hp, linesSpec_nil, bomFix]
    split <;> rfl
  · rw [hn] at o
    obtain ⟨hl, hlen⟩ := nextLine_some _ _ _ hn
    by_cases h0 : s.nl = 0
    · simp only [h0, if_true, Prod.mk.injEq] at o
      obtain ⟨o1, o2, o3, o4⟩ := o
      refine ⟨?_, Or.inr ⟨_, o1, ?_, by omega, by rw [o2]; exact hlen⟩⟩
      · simp [bomAfter, h0, hl, o4]
      · simp [linesAhead, bomFix, h0, hl, o2]
    · simp only [h0, if_false, Prod.mk.injEq] at o
      obtain ⟨o1, o2, o3, o4⟩ := o
      refine ⟨?_, Or.inr ⟨_, o1, ?_, o3, by rw [o2]; exact hlen⟩⟩
      · simp [bomAfter, h0, o4]
      · simp [linesAhead, bomFix, h0, hl, o2]

/-- a state in which at least one `get_row_simple` call has been made -/
def Settled (s : RState) : Prop := 0 < s.nl ∨ pending s = []

theorem Settled.linesAhead {s : RState} (h : Settled s) (c : RCfg) : linesAhead c s = linesSpec (pending s) := by
  rcases h with h | h
  · exact linesAhead_pos c s h
  · simp only [Rbql.linesAhead, h, linesSpec_nil, bomFix]; split <;> rfl

theorem Settled.bomAfter {s : RState} (h : Settled s) (c : RCfg) : bomAfter c s = s.bom := by
  rcases h with h | h
  · exact bomAfter_pos c s h
  · exact bomAfter_nil c s h

/-- the `while True` loop of `get_row_rfc`, with line numbers -/
theorem rfcLoop_assembleN (c : RCfg) (isC : Str → Bool) (fuel : Nat) (s : RState) (rows : List Str) (h : RInv c s)
    (hnl : 0 < s.nl) (hrows : rows ≠ []) (hf : (pending s).length < fuel) :
    assembleN isC (linesSpec (pending s)) s.nl (some (joinLF rows.reverse)) =
        ((rfcLoop c fuel s rows).2.nl, (rfcLoop c fuel s rows).1) ::
          assembleN isC (linesSpec (pending (rfcLoop c fuel s rows).2)) (rfcLoop c fuel s rows).2.nl none ∧
      RInv c (rfcLoop c fuel s rows).2 ∧ 0 < (rfcLoop c fuel s rows).2.nl ∧
      (pending (rfcLoop c fuel s rows).2).length ≤ (pending s).length ∧
      Frame s (rfcLoop c fuel s rows).2 ∧ (rfcLoop c fuel s rows).2.bom = s.bom := by
  induction fuel generalizing s rows with
  | zero => omega
  | succ fuel ih =>
    rw [rfcLoop]
    obtain ⟨x, s1, hg, i, f, hb, hcase⟩ := getRowSimple_lines c s h
    rw [bomAfter_pos c s hnl] at hb
    rw [linesAhead_pos c s hnl] at hcase
    rw [hg]
    rcases hcase with ⟨rfl, hl, hp, hn⟩ | ⟨row, rfl, hl, hn, hlen⟩
    · simp only
      refine ⟨?_, i, by omega, by simp [hp], f, hb⟩
      rw [hl, hp, linesSpec_nil, hn]
      rfl
    · simp only
      have hj : joinLF (row :: rows).reverse = joinLF rows.reverse ++ LF :: row := by
        rw [List.reverse_cons, joinLF_append_singleton _ _ (by simpa using hrows)]
      by_cases hq : countQuotes row % 2 = 1
      · rw [if_pos hq]
        simp only
        refine ⟨?_, i, by omega, by omega, f, hb⟩
        rw [hl, assembleN, if_pos hq, hj, hn]
      · rw [if_neg hq]
        obtain ⟨a1, a2, a3, a4, a5, a6⟩ := ih s1 (row :: rows) i (by omega) (by simp) (by omega)
        refine ⟨?_, a2, a3, by omega, f.trans a5, by rw [a6, hb]⟩
        rw [hl, assembleN, if_neg hq, ← hj, ← hn]
        exact a1

/-- One `get_row` call (either policy family), in terms of the rows ahead: nothing when no row is ahead,
otherwise the first row, the physical line counter standing at the row's last line. -/
theorem getRow_rows (c : RCfg) (s : RState) (h : RInv c s) :
    ∃ x s1, getRow c s = (x, s1) ∧ RInv c s1 ∧ Frame s s1 ∧ s1.bom = bomAfter c s ∧ Settled s1 ∧
      ((x = none ∧ rowsAhead c s = [] ∧ rowsAhead c s1 = []) ∨
       (∃ row, x = some row ∧ rowsAhead c s = (s1.nl, row) :: rowsAhead c s1 ∧
          (pending s1).length < (pending s).length)) := by
  obtain ⟨x, s1, hg, i, f, hb, hcase⟩ := getRowSimple_lines c s h
  by_cases hp : c.policy = .quotedRfc
  · -- quoted_rfc
    rw [getRow, if_pos hp, getRowRfc_eq, hg]
    simp only [rowsAhead, rowsOfLines, if_pos hp]
    rcases hcase with ⟨rfl, hl, hpend, hn⟩ | ⟨first, rfl, hl, hn, hlen⟩
    · have hset : Settled s1 := Or.inr hpend
      refine ⟨none, s1, rfl, i, f, hb, hset, Or.inl ⟨rfl, ?_, ?_⟩⟩
      · rw [hl]; rfl
      · rw [hset.linesAhead, hpend, linesSpec_nil]; rfl
    · have hset : Settled s1 := Or.inl (by omega)
      simp only
      by_cases hc : isComment c first = true
      · rw [if_pos hc]
        refine ⟨_, s1, rfl, i, f, hb, hset, Or.inr ⟨first, rfl, ?_, hlen⟩⟩
        rw [hl, assembleN, if_pos hc, hset.linesAhead, hn]
      · rw [if_neg hc]
        by_cases hq : countQuotes first % 2 = 0
        · rw [if_pos hq]
          refine ⟨_, s1, rfl, i, f, hb, hset, Or.inr ⟨first, rfl, ?_, hlen⟩⟩
          rw [hl, assembleN, if_neg hc, if_pos hq, hset.linesAhead, hn]
        · rw [if_neg hq]
          obtain ⟨a1, a2, a3, a4, a5, a6⟩ := rfcLoop_assembleN c (isComment c) (remaining s1 + 1) s1 [first] i
            (by omega) (by simp) (by rw [remaining_eq]; omega)
          have hset2 : Settled (rfcLoop c (remaining s1 + 1) s1 [first]).2 := Or.inl a3
          refine ⟨_, _, rfl, a2, f.trans a5, by rw [a6, hb], hset2, Or.inr ⟨_, rfl, ?_, by omega⟩⟩
          rw [hl, assembleN, if_neg hc, if_neg hq, hset2.linesAhead, ← hn]
          exact a1
  · rw [getRow, if_neg hp, hg]
    simp only [rowsAhead, rowsOfLines, if_neg hp]
    rcases hcase with ⟨rfl, hl, hpend, hn⟩ | ⟨row, rfl, hl, hn, hlen⟩
    · have hset : Settled s1 := Or.inr hpend
      refine ⟨none, s1, rfl, i, f, hb, hset, Or.inl ⟨rfl, ?_, ?_⟩⟩
      · rw [hl]; rfl
      · rw [hset.linesAhead, hpend, linesSpec_nil]; rfl
    · have hset : Settled s1 := Or.inl (by omega)
      refine ⟨_, s1, rfl, i, f, hb, hset, Or.inr ⟨row, rfl, ?_, hlen⟩⟩
      rw [hl, numberFrom, hset.linesAhead, hn]

/-- rows that are not comment lines -/
def dataRows (c : RCfg) (rows : List (Nat × Str)) : List (Nat × Str) :=
  rows.filter (fun p => !isComment c p.2)

/-- the comment-skipping loop of `get_record` -/
theorem nextDataLine_rows (c : RCfg) (fuel : Nat) (s : RState) (h : RInv c s) (hf : (pending s).length < fuel) :
    ∃ x s1, nextDataLine c fuel s = (x, s1) ∧ RInv c s1 ∧ Frame s s1 ∧ s1.bom = bomAfter c s ∧ Settled s1 ∧
      ((x = none ∧ dataRows c (rowsAhead c s) = [] ∧ rowsAhead c s1 = []) ∨
       (∃ line, x = some line ∧ dataRows c (rowsAhead c s) = (s1.nl, line) :: dataRows c (rowsAhead c s1) ∧
          (pending s1).length < (pending s).length)) := by
  induction fuel generalizing s with
  | zero => omega
  | succ fuel ih =>
    obtain ⟨x, s1, hg, i, f, hb, hset, hcase⟩ := getRow_rows c s h
    rw [nextDataLine, hg]
    rcases hcase with ⟨rfl, h1, h2⟩ | ⟨row, rfl, h1, hlen⟩
    · exact ⟨none, s1, rfl, i, f, hb, hset, Or.inl ⟨rfl, by rw [h1]; rfl, h2⟩⟩
    · simp only
      by_cases hc : isComment c row = true
      · rw [if_pos hc]
        obtain ⟨y, s2, e2, i2, f2, hb2, hset2, hcase2⟩ := ih s1 i (by omega)
        refine ⟨y, s2, e2, i2, f.trans f2, by rw [hb2, hset.bomAfter, hb], hset2, ?_⟩
        have hd : dataRows c (rowsAhead c s) = dataRows c (rowsAhead c s1) := by
          rw [h1]; simp [dataRows, hc]
        rcases hcase2 with ⟨rfl, g1, g2⟩ | ⟨line, rfl, g1, glen⟩
        · exact Or.inl ⟨rfl, by rw [hd, g1], g2⟩
        · exact Or.inr ⟨line, rfl, by rw [hd, g1], by omega⟩
      · rw [if_neg hc]
        refine ⟨_, s1, rfl, i, f, hb, hset, Or.inr ⟨row, rfl, ?_, hlen⟩⟩
        rw [h1]; simp [dataRows, hc]

/-- `get_record` when no data row is left -/
theorem readRecord_rows_none (c : RCfg) (s : RState) (h : RInv c s) (hd : dataRows c (rowsAhead c s) = []) :
    ∃ s1, readRecord c s = .ok (none, s1) ∧ RInv c s1 ∧ Frame s s1 ∧ s1.bom = bomAfter c s ∧ Settled s1 ∧
      rowsAhead c s1 = [] := by
  obtain ⟨x, s1, hg, i, f, hb, hset, hcase⟩ := nextDataLine_rows c (remaining s + 1) s h (by rw [remaining_eq]; omega)
  rcases hcase with ⟨rfl, _, h2⟩ | ⟨line, rfl, h1, _⟩
  · exact ⟨s1, readRecord_none c s s1 hg, i, f, hb, hset, h2⟩
  · rw [hd] at h1; cases h1

/-- `get_record` when the next data row is `line`, ending at physical line `n` -/
theorem readRecord_rows_some (c : RCfg) (s : RState) (h : RInv c s) (n : Nat) (line : Str) (D : List (Nat × Str))
    (hd : dataRows c (rowsAhead c s) = (n, line) :: D) :
    if (smartSplit c.delim c.policy false line).2 = true ∧ s.firstDefective = none ∧ c.policy = .quotedRfc then
      readRecord c s = .error (.rfcQuote (s.nr + 1) n)
    else
      ∃ s2, readRecord c s = .ok (some (smartSplit c.delim c.policy false line).1, s2) ∧
        RInv c s2 ∧ Settled s2 ∧ s2.bom = bomAfter c s ∧ dataRows c (rowsAhead c s2) = D ∧
        (pending s2).length < (pending s).length ∧ s2.nr = s.nr + 1 ∧
        s2.firstDefective =
          (if (smartSplit c.delim c.policy false line).2 = true ∧ s.firstDefective = none then some n
           else s.firstDefective) ∧
        s2.fieldsInfo = addFieldsInfo s.fieldsInfo (smartSplit c.delim c.policy false line).1.length (s.nr + 1) ∧
        s2.hasHeader = s.hasHeader ∧ s2.firstRecord = s.firstRecord ∧ s2.emitFirst = s.emitFirst := by
  obtain ⟨x, s1, hg, i, f, hb, hset, hcase⟩ := nextDataLine_rows c (remaining s + 1) s h (by rw [remaining_eq]; omega)
  rcases hcase with ⟨rfl, h1, _⟩ | ⟨line', rfl, h1, hlen⟩
  · rw [hd] at h1; cases h1
  · rw [hd] at h1
    simp only [List.cons.injEq, Prod.mk.injEq] at h1
    obtain ⟨⟨rfl, rfl⟩, rfl⟩ := h1
    obtain ⟨fnr, ffd, ffi, fhh, ffr, fef⟩ := f
    rw [readRecord_some c s line s1 hg]
    by_cases hw : (smartSplit c.delim c.policy false line).2 = true ∧ s.firstDefective = none
    · have hw1 : (smartSplit c.delim c.policy false line).2 = true ∧ s1.firstDefective = none := ⟨hw.1, by rw [ffd]; exact hw.2⟩
      rw [if_pos hw1]
      by_cases hp : c.policy = .quotedRfc
      · rw [if_pos hp, if_pos ⟨hw.1, hw.2, hp⟩, fnr]
      · rw [if_neg hp, if_neg (fun hh => hp hh.2.2)]
        refine ⟨_, rfl, ⟨i.chunk_pos, i.pieces_ne, i.exhausted_empty⟩, hset, hb, rfl, hlen, by simp [fnr], ?_,
          by simp [fnr, ffi], fhh, ffr, fef⟩
        rw [if_pos hw]
    · have hw1 : ¬ ((smartSplit c.delim c.policy false line).2 = true ∧ s1.firstDefective = none) := by
        rw [ffd]; exact hw
      rw [if_neg hw1, if_neg (fun hh => hw ⟨hh.1, hh.2.1⟩)]
      refine ⟨_, rfl, ⟨i.chunk_pos, i.pieces_ne, i.exhausted_empty⟩, hset, hb, rfl, hlen, by simp [fnr], ?_,
        by simp [fnr, ffi], fhh, ffr, fef⟩
      rw [if_neg hw]; exact ffd

/-- the split of a data row -/
abbrev splitRow (c : RCfg) (p : Nat × Str) : List Str × Bool := smartSplit c.delim c.policy false p.2

/-- `first_defective_line` after the data rows `D` -/
def fdAfter (c : RCfg) (fd : Option Nat) (D : List (Nat × Str)) : Option Nat :=
  match fd with
  | some l => some l
  | none => (D.find? (fun p => (splitRow c p).2)).map (·.1)

/-- `fields_info` after the data rows `D`, the first of which is record number `nr + 1` -/
def infoAfter (c : RCfg) : List (Nat × Nat) → Nat → List (Nat × Str) → List (Nat × Nat)
  | info, _, [] => info
  | info, nr, p :: D => infoAfter c (addFieldsInfo info (splitRow c p).1.length (nr + 1)) (nr + 1) D

theorem fdAfter_cons (c : RCfg) (fd : Option Nat) (p : Nat × Str) (D : List (Nat × Str)) :
    fdAfter c fd (p :: D) =
      fdAfter c (if (splitRow c p).2 = true ∧ fd = none then some p.1 else fd) D := by
  cases fd with
  | some l => simp [fdAfter]
  | none =>
    by_cases hw : (splitRow c p).2 = true
    · simp [fdAfter, hw]
    · simp [fdAfter, hw]

/-- `get_all_records` from a state that has no pending first record, when no record raises -/
theorem allRecords_rows_ok (c : RCfg) (fuel : Nat) (s : RState) (acc : List (List Str)) (h : RInv c s)
    (hef : s.emitFirst = false) (hf : (pending s).length < fuel)
    (hok : c.policy = .quotedRfc → ∀ p ∈ dataRows c (rowsAhead c s), (splitRow c p).2 = false) :
    ∃ s', allRecords c fuel s acc =
        .ok (acc.reverse ++ (dataRows c (rowsAhead c s)).map (fun p => (splitRow c p).1), s') ∧
      s'.bom = bomAfter c s ∧ s'.nr = s.nr + (dataRows c (rowsAhead c s)).length ∧
      s'.firstDefective = fdAfter c s.firstDefective (dataRows c (rowsAhead c s)) ∧
      s'.fieldsInfo = infoAfter c s.fieldsInfo s.nr (dataRows c (rowsAhead c s)) := by
  induction fuel generalizing s acc with
  | zero => omega
  | succ fuel ih =>
    rw [allRecords, getRecord, hef]
    simp only [Bool.false_eq_true, if_false]
    rcases hd : dataRows c (rowsAhead c s) with _ | ⟨⟨n, line⟩, D⟩
    · obtain ⟨s1, e1, _, f, hb, _, _⟩ := readRecord_rows_none c s h hd
      rw [e1]
      exact ⟨s1, by simp, hb, by simp [f.1], by simp [fdAfter, f.2.1]; cases s.firstDefective <;> rfl,
        by simp [infoAfter, f.2.2.1]⟩
    · have hs := readRecord_rows_some c s h n line D hd
      have hnw : ¬ ((smartSplit c.delim c.policy false line).2 = true ∧ s.firstDefective = none ∧
          c.policy = .quotedRfc) := by
        intro hh
        have := hok hh.2.2 (n, line) (by rw [hd]; simp)
        simp only [splitRow] at this
        rw [this] at hh; cases hh.1
      rw [if_neg hnw] at hs
      obtain ⟨s2, e2, i2, hset2, hb2, hd2, hlen2, hnr2, hfd2, hfi2, _, _, hef2⟩ := hs
      rw [e2]
      simp only
      obtain ⟨s', e', b', n', d', i'⟩ := ih s2 ((smartSplit c.delim c.policy false line).1 :: acc) i2
        (by rw [hef2, hef]) (by omega) (by
          intro hp p hpm
          exact hok hp p (by rw [hd, ← hd2]; exact List.mem_cons_of_mem _ hpm))
      rw [hd2] at e' n' d' i'
      refine ⟨s', by rw [e']; simp [splitRow], by rw [b', hset2.bomAfter, hb2], by rw [n', hnr2]; simp; omega, ?_, ?_⟩
      · rw [d', hfd2, fdAfter_cons]
      · rw [i', hfi2, hnr2]; rfl

/-- quoted_rfc: `get_all_records` raises at the first data row whose split is defective, with that record's
number and the number of its last physical line -/
theorem allRecords_rows_err (c : RCfg) (hp : c.policy = .quotedRfc) (D1 : List (Nat × Str)) (n : Nat) (line : Str)
    (D2 : List (Nat × Str)) (hD1 : ∀ p ∈ D1, (splitRow c p).2 = false) (hbad : (splitRow c (n, line)).2 = true)
    (fuel : Nat) (s : RState) (acc : List (List Str)) (h : RInv c s)
    (hef : s.emitFirst = false) (hfd : s.firstDefective = none) (hf : (pending s).length < fuel)
    (hd : dataRows c (rowsAhead c s) = D1 ++ (n, line) :: D2) :
    allRecords c fuel s acc = .error (.rfcQuote (s.nr + D1.length + 1) n) := by
  induction D1 generalizing fuel s acc with
  | nil =>
    cases fuel with
    | zero => omega
    | succ fuel =>
      rw [allRecords, getRecord, hef]
      simp only [Bool.false_eq_true, if_false]
      have hs := readRecord_rows_some c s h n line D2 hd
      rw [if_pos ⟨hbad, hfd, hp⟩] at hs
      rw [hs]; rfl
  | cons p D1 ih =>
    cases fuel with
    | zero => omega
    | succ fuel =>
      obtain ⟨m, l⟩ := p
      rw [allRecords, getRecord, hef]
      simp only [Bool.false_eq_true, if_false]
      have hs := readRecord_rows_some c s h m l (D1 ++ (n, line) :: D2) hd
      have hu : (smartSplit c.delim c.policy false l).2 = false := hD1 (m, l) (by simp)
      rw [if_neg (by rw [hu]; simp)] at hs
      obtain ⟨s2, e2, i2, _, _, hd2, hlen2, hnr2, hfd2, _, _, _, hef2⟩ := hs
      rw [e2]
      simp only
      rw [ih (fun p hp' => hD1 p (List.mem_cons_of_mem _ hp')) fuel s2 _ i2 (by rw [hef2, hef])
        (by rw [hfd2, hu]; simpa using hfd) (by omega) hd2, hnr2]
      simp only [List.length_cons]
      congr 2; omega

/-- the header switch in force: the query modifier `WITH (header)` / `WITH (noheader)` wins -/
def effHeader (hasHeader : Bool) (m : Option Bool) : Bool :=
  match m with | some b => b | none => hasHeader

theorem handleModifier_eq (m : Option Bool) (s : RState) (he : s.emitFirst = !s.hasHeader) :
    handleModifier m s =
      { s with hasHeader := effHeader s.hasHeader m, emitFirst := !effHeader s.hasHeader m } := by
  cases m with
  | none => cases s; simp_all [handleModifier, effHeader]
  | some b => cases b <;> simp [handleModifier, effHeader]

theorem allRecords_step_none (c : RCfg) (fuel : Nat) (s : RState) (acc : List (List Str))
    (s1 : RState) (hg : getRecord c s = .ok (none, s1)) :
    allRecords c (fuel + 1) s acc = .ok (acc.reverse, s1) := by
  rw [allRecords, hg]

theorem allRecords_step_some (c : RCfg) (fuel : Nat) (s : RState) (acc : List (List Str)) (r : List Str)
    (s1 : RState) (hg : getRecord c s = .ok (some r, s1)) :
    allRecords c (fuel + 1) s acc = allRecords c fuel s1 (r :: acc) := by
  rw [allRecords, hg]

/-- `get_all_records` from the state left by the constructor: the stored first record is emitted first
when `emitFirst` is set -/
theorem allRecords_emit (c : RCfg) (fuel : Nat) (s : RState) (h : RInv c s) (hset : Settled s)
    (hf : (pending s).length + 1 < fuel)
    (hnone : s.firstRecord = none → dataRows c (rowsAhead c s) = [])
    (hok : c.policy = .quotedRfc → ∀ p ∈ dataRows c (rowsAhead c s), (splitRow c p).2 = false) :
    ∃ s', allRecords c fuel s [] =
        .ok ((if s.emitFirst then s.firstRecord.toList else []) ++
              (dataRows c (rowsAhead c s)).map (fun p => (splitRow c p).1), s') ∧
      s'.bom = s.bom ∧
      s'.firstDefective = fdAfter c s.firstDefective (dataRows c (rowsAhead c s)) ∧
      s'.fieldsInfo = infoAfter c s.fieldsInfo s.nr (dataRows c (rowsAhead c s)) := by
  cases hef : s.emitFirst with
  | false =>
    obtain ⟨s', e, b, _, d, i⟩ := allRecords_rows_ok c fuel s [] h hef (by omega) hok
    exact ⟨s', by simpa using e, by rw [b, hset.bomAfter], d, i⟩
  | true =>
    cases fuel with
    | zero => omega
    | succ fuel =>
      have hg : getRecord c s = .ok (s.firstRecord, { s with emitFirst := false }) := by
        rw [getRecord, hef]; rfl
      generalize hs1 : ({ s with emitFirst := false } : RState) = s1 at hg
      have e1 : RInv c s1 := by subst hs1; exact ⟨h.chunk_pos, h.pieces_ne, h.exhausted_empty⟩
      have e2 : s1.emitFirst = false := by subst hs1; rfl
      have e3 : pending s1 = pending s := by subst hs1; rfl
      have e4 : rowsAhead c s1 = rowsAhead c s := by subst hs1; rfl
      have e5 : bomAfter c s1 = bomAfter c s := by subst hs1; rfl
      have e6 : s1.firstDefective = s.firstDefective := by subst hs1; rfl
      have e7 : s1.fieldsInfo = s.fieldsInfo := by subst hs1; rfl
      have e8 : s1.nr = s.nr := by subst hs1; rfl
      have e9 : s1.bom = s.bom := by subst hs1; rfl
      rcases Option.eq_none_or_eq_some s.firstRecord with hfr | ⟨r, hfr⟩
      · rw [hfr] at hg ⊢
        rw [allRecords_step_none c fuel s [] s1 hg]
        refine ⟨s1, by simp [hnone hfr], e9, ?_, by simp [hnone hfr, infoAfter, e7]⟩
        rw [hnone hfr, e6]; cases s.firstDefective <;> rfl
      · rw [hfr] at hg ⊢
        rw [allRecords_step_some c fuel s [] r s1 hg]
        obtain ⟨s', e, b, _, d, i⟩ := allRecords_rows_ok c fuel s1 [r] e1 e2 (by rw [e3]; omega) (by rw [e4]; exact hok)
        rw [e4] at e d i
        refine ⟨s', by rw [e]; rfl, by rw [b, e5, hset.bomAfter], by rw [d, e6], by rw [i, e7, e8]⟩

/-- the 'Number of fields … is not consistent' warning from `fields_info` -/
def fieldsWarn : List (Nat × Nat) → List ReadWarn
  | (nf1, nr1) :: (nf2, nr2) :: _ => [.fields nf1 nr1 nf2 nr2]
  | _ => []

/-- `get_warnings` as a function of the three things it looks at -/
def warningsOf (bom : Bool) (fd : Option Nat) (info : List (Nat × Nat)) : List ReadWarn :=
  (if bom then [.bom] else []) ++ (match fd with | some l => [.defective l] | none => []) ++ fieldsWarn info

theorem readerWarnings_eq (s : RState) : readerWarnings s = warningsOf s.bom s.firstDefective s.fieldsInfo := by
  unfold readerWarnings warningsOf fieldsWarn
  rcases s.fieldsInfo with _ | ⟨⟨a, b⟩, _ | ⟨⟨c, d⟩, _⟩⟩ <;> rfl

/-- the whole run, given what the constructor's `get_record` call did -/
theorem readAll_after_first (c : RCfg) (hasHeader : Bool) (modifier : Option Bool) (pieces : List Str)
    (fr : Option (List Str)) (s1 : RState)
    (hg : getRecord c { stream := pieces, hasHeader := hasHeader } = .ok (fr, s1))
    (h1 : RInv c s1) (hset : Settled s1) (hh : s1.hasHeader = hasHeader)
    (hnone : fr = none → dataRows c (rowsAhead c s1) = [])
    (hok : c.policy = .quotedRfc → ∀ p ∈ dataRows c (rowsAhead c s1), (splitRow c p).2 = false) :
    readAll c hasHeader modifier pieces = .ok
      { header := if effHeader hasHeader modifier then fr else none,
        records := (if effHeader hasHeader modifier then [] else fr.toList) ++
          (dataRows c (rowsAhead c s1)).map (fun p => (splitRow c p).1),
        warnings := warningsOf s1.bom (fdAfter c s1.firstDefective (dataRows c (rowsAhead c s1)))
          (infoAfter c s1.fieldsInfo s1.nr (dataRows c (rowsAhead c s1))) } := by
  rw [readAll, initReader, hg]
  simp only [bind, Except.bind, pure, Except.pure]
  rw [handleModifier_eq _ _ (by simp [hh])]
  simp only [hh]
  generalize hs3 : ({ s1 with firstRecord := fr, hasHeader := effHeader hasHeader modifier, emitFirst := !effHeader hasHeader modifier } : RState) = s3
  have e1 : RInv c s3 := by subst hs3; exact ⟨h1.chunk_pos, h1.pieces_ne, h1.exhausted_empty⟩
  have e2 : Settled s3 := by subst hs3; exact hset
  have e3 : pending s3 = pending s1 := by subst hs3; rfl
  have e4 : rowsAhead c s3 = rowsAhead c s1 := by subst hs3; rfl
  have e5 : s3.firstRecord = fr := by subst hs3; rfl
  have e6 : s3.firstDefective = s1.firstDefective := by subst hs3; rfl
  have e7 : s3.fieldsInfo = s1.fieldsInfo := by subst hs3; rfl
  have e8 : s3.nr = s1.nr := by subst hs3; rfl
  have e9 : s3.bom = s1.bom := by subst hs3; rfl
  have e10 : s3.emitFirst = !effHeader hasHeader modifier := by subst hs3; rfl
  have e11 : s3.hasHeader = effHeader hasHeader modifier := by subst hs3; rfl
  obtain ⟨s', ea, eb, ed, ei⟩ := allRecords_emit c (remaining s3 + 2) s3 e1 e2 (by rw [remaining_eq]; omega)
    (by rw [e5, e4]; exact hnone) (by rw [e4]; exact hok)
  rw [ea]
  simp only [getHeader, readerWarnings_eq, eb, ed, ei, e4, e5, e6, e7, e8, e9, e10, e11]
  cases effHeader hasHeader modifier <;> rfl

/-! ## the text-level specification -/

/-- the data rows of a text, each with the number of its last physical line: physical lines, BOM removed
from the first one, grouped into rows (one line per row, or quote-parity assembly under quoted_rfc), comment
rows dropped -/
def textRows (c : RCfg) (text : Str) : List (Nat × Str) :=
  dataRows c (rowsOfLines c 0 (stripBomFirst c.enc (linesSpec text)))

/-- the first physical line starts with the byte order mark of the encoding -/
def bomSeen (c : RCfg) (text : Str) : Bool :=
  match linesSpec text with
  | [] => false
  | l :: _ => decide (removeBom c.enc l ≠ l)

/-- WHAT `readAll` returns when no record raises (never under the non-rfc policies): in ANY chunking -/
theorem readAll_rows_ok (c : RCfg) (hc : 1 ≤ c.chunk) (hasHeader : Bool) (modifier : Option Bool)
    (pieces : List Str) (hp : ∀ p ∈ pieces, p ≠ [])
    (hok : c.policy = .quotedRfc → ∀ p ∈ textRows c pieces.flatten, (splitRow c p).2 = false) :
    readAll c hasHeader modifier pieces = .ok
      { header := if effHeader hasHeader modifier then
            ((textRows c pieces.flatten).map (fun p => (splitRow c p).1)).head? else none,
        records := if effHeader hasHeader modifier then
            ((textRows c pieces.flatten).map (fun p => (splitRow c p).1)).tail
          else (textRows c pieces.flatten).map (fun p => (splitRow c p).1),
        warnings := warningsOf (bomSeen c pieces.flatten) (fdAfter c none (textRows c pieces.flatten))
          (infoAfter c [] 0 (textRows c pieces.flatten)) } := by
  have i0 : RInv c { stream := pieces, hasHeader := hasHeader } := ⟨hc, hp, by simp⟩
  have hrows : dataRows c (rowsAhead c { stream := pieces, hasHeader := hasHeader }) = textRows c pieces.flatten := by
    simp [rowsAhead, linesAhead, pending, bomFix_zero, textRows]
  have hb0 : bomAfter c { stream := pieces, hasHeader := hasHeader } = bomSeen c pieces.flatten := by
    simp only [bomAfter, bomSeen, pending, List.nil_append, if_true]
    cases linesSpec pieces.flatten <;> simp
  have hg0 : getRecord c { stream := pieces, hasHeader := hasHeader } =
      readRecord c { stream := pieces, hasHeader := hasHeader } := by
    rw [getRecord]; rfl
  rcases hd : textRows c pieces.flatten with _ | ⟨⟨n, line⟩, D⟩
  · rw [hd] at hrows
    obtain ⟨s1, e1, i1, f1, hb1, hset1, hr1⟩ := readRecord_rows_none c _ i0 hrows
    have hd1 : dataRows c (rowsAhead c s1) = [] := by rw [hr1]; rfl
    rw [readAll_after_first c hasHeader modifier pieces none s1 (by rw [hg0, e1]) i1 hset1 f1.2.2.2.1
      (fun _ => hd1) (by rw [hd1]; intro _ p hp; cases hp)]
    rw [hd1, hb1, hb0, f1.1, f1.2.1, f1.2.2.1]
    cases effHeader hasHeader modifier <;> rfl
  · rw [hd] at hrows hok
    have hs := readRecord_rows_some c _ i0 n line D hrows
    have hnw : ¬ ((smartSplit c.delim c.policy false line).2 = true ∧
        ({ stream := pieces, hasHeader := hasHeader } : RState).firstDefective = none ∧ c.policy = .quotedRfc) := by
      intro hh
      have := hok hh.2.2 (n, line) (by simp)
      simp only [splitRow] at this
      rw [this] at hh; cases hh.1
    rw [if_neg hnw] at hs
    obtain ⟨s2, e2, i2, hset2, hb2, hd2, _, hnr2, hfd2, hfi2, hhh2, _, _⟩ := hs
    rw [readAll_after_first c hasHeader modifier pieces _ s2 (by rw [hg0, e2]) i2 hset2 hhh2
      (fun hh => by cases hh) (by
        rw [hd2]; intro hpol p hpm; exact hok hpol p (List.mem_cons_of_mem _ hpm))]
    rw [hd2, hb2, hb0, hnr2, hfd2, hfi2, fdAfter_cons c none (n, line) D]
    cases effHeader hasHeader modifier <;> rfl

/-- the whole run raises, given that the constructor's `get_record` call succeeded with a record and a later
data row is defective (quoted_rfc) -/
theorem readAll_after_first_err (c : RCfg) (hpol : c.policy = .quotedRfc) (hasHeader : Bool) (modifier : Option Bool)
    (pieces : List Str) (r : List Str) (s1 : RState)
    (hg : getRecord c { stream := pieces, hasHeader := hasHeader } = .ok (some r, s1))
    (h1 : RInv c s1) (hh : s1.hasHeader = hasHeader) (hfd : s1.firstDefective = none)
    (D1 : List (Nat × Str)) (n : Nat) (line : Str) (D2 : List (Nat × Str))
    (hD1 : ∀ p ∈ D1, (splitRow c p).2 = false) (hbad : (splitRow c (n, line)).2 = true)
    (hd : dataRows c (rowsAhead c s1) = D1 ++ (n, line) :: D2) :
    readAll c hasHeader modifier pieces = .error (.rfcQuote (s1.nr + D1.length + 1) n) := by
  rw [readAll, initReader, hg]
  simp only [bind, Except.bind, pure, Except.pure]
  rw [handleModifier_eq _ _ (by simp [hh])]
  simp only [hh]
  generalize hs3 : ({ s1 with firstRecord := some r, hasHeader := effHeader hasHeader modifier, emitFirst := !effHeader hasHeader modifier } : RState) = s3
  have e1 : RInv c s3 := by subst hs3; exact ⟨h1.chunk_pos, h1.pieces_ne, h1.exhausted_empty⟩
  have e3 : pending s3 = pending s1 := by subst hs3; rfl
  have e4 : rowsAhead c s3 = rowsAhead c s1 := by subst hs3; rfl
  have e5 : s3.firstRecord = some r := by subst hs3; rfl
  have e6 : s3.firstDefective = s1.firstDefective := by subst hs3; rfl
  have e8 : s3.nr = s1.nr := by subst hs3; rfl
  have key : allRecords c (remaining s3 + 2) s3 [] = .error (.rfcQuote (s1.nr + D1.length + 1) n) := by
    cases hef : s3.emitFirst with
    | false =>
      rw [← e8]
      exact allRecords_rows_err c hpol D1 n line D2 hD1 hbad _ s3 [] e1 hef (by rw [e6, hfd])
        (by rw [remaining_eq]; omega) (by rw [e4]; exact hd)
    | true =>
      have hg3 : getRecord c s3 = .ok (some r, { s3 with emitFirst := false }) := by
        rw [getRecord, hef, ← e5]; rfl
      rw [allRecords_step_some c (remaining s3 + 1) s3 [] r _ hg3, ← e8]
      exact allRecords_rows_err c hpol D1 n line D2 hD1 hbad _ { s3 with emitFirst := false } [r]
        ⟨e1.chunk_pos, e1.pieces_ne, e1.exhausted_empty⟩ rfl (by simp only; rw [e6, hfd])
        (by rw [remaining_eq]; simp only [pending]; omega) (by rw [← e4] at hd; exact hd)
  rw [key]

/-- quoted_rfc: the run raises 'Inconsistent double quote escaping' at the FIRST data row whose split is
defective, naming that record's number and the number of its last physical line — in ANY chunking -/
theorem readAll_rows_err (c : RCfg) (hc : 1 ≤ c.chunk) (hpol : c.policy = .quotedRfc) (hasHeader : Bool)
    (modifier : Option Bool) (pieces : List Str) (hp : ∀ p ∈ pieces, p ≠ [])
    (D1 : List (Nat × Str)) (n : Nat) (line : Str) (D2 : List (Nat × Str))
    (hd : textRows c pieces.flatten = D1 ++ (n, line) :: D2)
    (hD1 : ∀ p ∈ D1, (splitRow c p).2 = false) (hbad : (splitRow c (n, line)).2 = true) :
    readAll c hasHeader modifier pieces = .error (.rfcQuote (D1.length + 1) n) := by
  have i0 : RInv c { stream := pieces, hasHeader := hasHeader } := ⟨hc, hp, by simp⟩
  have hrows : dataRows c (rowsAhead c { stream := pieces, hasHeader := hasHeader }) = textRows c pieces.flatten := by
    simp [rowsAhead, linesAhead, pending, bomFix_zero, textRows]
  have hg0 : getRecord c { stream := pieces, hasHeader := hasHeader } =
      readRecord c { stream := pieces, hasHeader := hasHeader } := by
    rw [getRecord]; rfl
  rw [hd] at hrows
  cases D1 with
  | nil =>
    have hs := readRecord_rows_some c _ i0 n line D2 hrows
    rw [if_pos ⟨hbad, rfl, hpol⟩] at hs
    rw [readAll, initReader, hg0, hs]
    rfl
  | cons p D1 =>
    obtain ⟨m, l⟩ := p
    have hs := readRecord_rows_some c _ i0 m l (D1 ++ (n, line) :: D2) hrows
    have hu : (smartSplit c.delim c.policy false l).2 = false := hD1 (m, l) (by simp)
    rw [if_neg (by rw [hu]; simp)] at hs
    obtain ⟨s2, e2, i2, _, _, hd2, _, hnr2, hfd2, _, hhh2, _, _⟩ := hs
    rw [readAll_after_first_err c hpol hasHeader modifier pieces _ s2 (by rw [hg0, e2]) i2 hhh2
      (by rw [hfd2, hu]; rfl) D1 n line D2 (fun p hp' => hD1 p (List.mem_cons_of_mem _ hp')) hbad hd2, hnr2]
    simp only [List.length_cons]
    congr 2; omega

/-! ## 2a. the non-rfc policies, in the words of the task -/

/-- WHAT the records are (policies other than quoted_rfc): the physical lines of the text, the BOM removed
from the first one, the lines starting with the comment prefix dropped, every remaining line split;
each record comes with the splitter's warning flag -/
def recordsSpec (c : RCfg) (text : Str) : List (List Str × Bool) :=
  ((stripBomFirst c.enc (linesSpec text)).filter (fun l => !isComment c l)).map
    (smartSplit c.delim c.policy false)

/-- the same with the 1-based physical line number of every record -/
def recordsSpecN (c : RCfg) (text : Str) : List (Nat × List Str × Bool) :=
  (((stripBomFirst c.enc (linesSpec text)).zipIdx 1).filter (fun p => !isComment c p.1)).map
    (fun p => (p.2, smartSplit c.delim c.policy false p.1))

/-- the line number of the first record whose split raised the warning -/
def firstDefectiveSpec (c : RCfg) (text : Str) : Option Nat :=
  ((recordsSpecN c text).find? (fun e => e.2.2)).map (·.1)

theorem numberFrom_eq_zipIdx (n0 : Nat) (ls : List Str) :
    numberFrom n0 ls = (ls.zipIdx (n0 + 1)).map (fun p => (p.2, p.1)) := by
  induction ls generalizing n0 with
  | nil => rfl
  | cons l ls ih => simp [numberFrom, List.zipIdx_cons, ih]

theorem textRows_not_rfc (c : RCfg) (hp : c.policy ≠ .quotedRfc) (text : Str) :
    textRows c text =
      (((stripBomFirst c.enc (linesSpec text)).zipIdx 1).filter (fun p => !isComment c p.1)).map
        (fun p => (p.2, p.1)) := by
  simp only [textRows, rowsOfLines, if_neg hp, dataRows, numberFrom_eq_zipIdx, List.filter_map]
  rfl

theorem textRows_recs (c : RCfg) (hp : c.policy ≠ .quotedRfc) (text : Str) :
    (textRows c text).map (fun p => (splitRow c p).1) = (recordsSpec c text).map (·.1) := by
  rw [textRows_not_rfc c hp]
  simp only [recordsSpec, List.map_map]
  generalize stripBomFirst c.enc (linesSpec text) = ls
  generalize 1 = k
  induction ls generalizing k with
  | nil => rfl
  | cons l ls ih =>
    simp only [List.zipIdx_cons, List.filter_cons]
    by_cases hc : isComment c l = true
    · simp only [hc, Bool.not_true, Bool.false_eq_true, if_false]; exact ih (k + 1)
    · simp only [Bool.not_eq_true] at hc
      simp only [hc, Bool.not_false, if_true, List.map_cons]
      rw [ih (k + 1)]; rfl

theorem fdAfter_not_rfc (c : RCfg) (hp : c.policy ≠ .quotedRfc) (text : Str) :
    fdAfter c none (textRows c text) = firstDefectiveSpec c text := by
  rw [textRows_not_rfc c hp]
  simp only [fdAfter, firstDefectiveSpec, recordsSpecN, List.find?_map, Option.map_map]
  rfl

/-! ### the field-count warning, declaratively -/

/-- `fields_info` as a function of the records alone -/
def fieldsInfoSpec : List (Nat × Nat) → Nat → List (List Str) → List (Nat × Nat)
  | info, _, [] => info
  | info, nr, r :: rs => fieldsInfoSpec (addFieldsInfo info r.length (nr + 1)) (nr + 1) rs

theorem infoAfter_eq (c : RCfg) (info : List (Nat × Nat)) (nr : Nat) (D : List (Nat × Str)) :
    infoAfter c info nr D = fieldsInfoSpec info nr (D.map (fun p => (splitRow c p).1)) := by
  induction D generalizing info nr with
  | nil => rfl
  | cons p D ih => simp only [infoAfter, List.map_cons, fieldsInfoSpec, ih]

/-- the field-count warning in words: none if all records have the number of fields of the first one;
otherwise it names the first record (NR 1) and the FIRST record with a different number of fields -/
def fieldsWarnSpec : List (List Str) → List ReadWarn
  | [] => []
  | r :: rs =>
    match (rs.zipIdx 2).find? (fun p => p.1.length ≠ r.length) with
    | none => []
    | some (r2, k) => [.fields r.length 1 r2.length k]

theorem addFieldsInfo_two (e1 e2 : Nat × Nat) (rest : List (Nat × Nat)) (nf nr : Nat) :
    ∃ rest', addFieldsInfo (e1 :: e2 :: rest) nf nr = e1 :: e2 :: rest' := by
  unfold addFieldsInfo
  split
  · exact ⟨rest, rfl⟩
  · exact ⟨rest ++ [(nf, nr)], rfl⟩

theorem fieldsWarn_two (e1 e2 : Nat × Nat) (rest : List (Nat × Nat)) (nr : Nat) (rs : List (List Str)) :
    fieldsWarn (fieldsInfoSpec (e1 :: e2 :: rest) nr rs) = [.fields e1.1 e1.2 e2.1 e2.2] := by
  induction rs generalizing rest nr with
  | nil => rfl
  | cons r rs ih =>
    obtain ⟨rest', h⟩ := addFieldsInfo_two e1 e2 rest r.length (nr + 1)
    rw [fieldsInfoSpec, h, ih]

theorem fieldsWarn_one (a : Nat) (nr : Nat) (rs : List (List Str)) :
    fieldsWarn (fieldsInfoSpec [(a, 1)] nr rs) =
      match (rs.zipIdx (nr + 1)).find? (fun p => p.1.length ≠ a) with
      | none => []
      | some (r2, k) => [.fields a 1 r2.length k] := by
  induction rs generalizing nr with
  | nil => rfl
  | cons r rs ih =>
    rw [fieldsInfoSpec, List.zipIdx_cons, List.find?_cons]
    by_cases h : r.length = a
    · have : addFieldsInfo [(a, 1)] r.length (nr + 1) = [(a, 1)] := by simp [addFieldsInfo, h]
      rw [this, ih (nr + 1)]
      simp [h]
    · have : addFieldsInfo [(a, 1)] r.length (nr + 1) = [(a, 1), (r.length, nr + 1)] := by
        simp [addFieldsInfo]; exact fun e => h e.symm
      rw [this, fieldsWarn_two]
      simp [h]

theorem fieldsWarn_spec (recs : List (List Str)) :
    fieldsWarn (fieldsInfoSpec [] 0 recs) = fieldsWarnSpec recs := by
  cases recs with
  | nil => rfl
  | cons r rs =>
    have : addFieldsInfo [] r.length (0 + 1) = [(r.length, 1)] := by simp [addFieldsInfo]
    rw [fieldsInfoSpec, this, fieldsWarn_one]
    rfl

/-- all warnings of a run, from: does the text start with the BOM, the first defective line, the records -/
def warningsSpec (bom : Bool) (fd : Option Nat) (recs : List (List Str)) : List ReadWarn :=
  (if bom then [.bom] else []) ++ (match fd with | some l => [.defective l] | none => []) ++ fieldsWarnSpec recs

/-- the text's first physical line starts with the byte order mark of the declared encoding -/
theorem bomSeen_iff (c : RCfg) (text : Str) :
    bomSeen c text = true ↔
      c.enc ≠ .none ∧ ∃ rest ls, linesSpec text = (bomOf c.enc ++ rest) :: ls := by
  unfold bomSeen
  cases h : linesSpec text with
  | nil => simp
  | cons l ls =>
    simp only [decide_eq_true_eq, removeBom_ne_iff, List.cons.injEq]
    constructor
    · rintro ⟨h1, rest, rfl⟩; exact ⟨h1, rest, ls, rfl, rfl⟩
    · rintro ⟨h1, rest, ls', rfl, _⟩; exact ⟨h1, rest, rfl⟩

/-- (2a) Policies other than quoted_rfc: for EVERY partition of the text into non-empty pieces and every
chunk size ≥ 1 the reader machine delivers exactly `recordsSpec` — as header + records according to the
header switch in force —, `first_defective_line` is the line number of the first record whose split raised
the warning, the BOM warning appears iff the first line started with the BOM (`bomSeen_iff`), and the
field-count warning is `fieldsWarnSpec` of all records (header included). -/
theorem readAll_eq_recordsSpec (c : RCfg) (hpol : c.policy ≠ .quotedRfc) (hc : 1 ≤ c.chunk) (hasHeader : Bool)
    (modifier : Option Bool) (pieces : List Str) (hp : ∀ p ∈ pieces, p ≠ []) :
    readAll c hasHeader modifier pieces = .ok
      { header := if effHeader hasHeader modifier then ((recordsSpec c pieces.flatten).map (·.1)).head? else none,
        records := if effHeader hasHeader modifier then ((recordsSpec c pieces.flatten).map (·.1)).tail
          else (recordsSpec c pieces.flatten).map (·.1),
        warnings := warningsSpec (bomSeen c pieces.flatten) (firstDefectiveSpec c pieces.flatten)
          ((recordsSpec c pieces.flatten).map (·.1)) } := by
  rw [readAll_rows_ok c hc hasHeader modifier pieces hp (fun h => absurd h hpol), infoAfter_eq,
    textRows_recs c hpol, fdAfter_not_rfc c hpol]
  simp only [warningsOf, warningsSpec, fieldsWarn_spec]

/-! ## 2b. quoted_rfc -/

theorem assembleN_rows (ls : List Str) (n : Nat) (st : Option Str) :
    (assembleN (fun _ => false) ls n st).map (·.2) = assembleAux ls st := by
  induction ls generalizing n st with
  | nil => cases st <;> rfl
  | cons l ls ih =>
    cases st with
    | none =>
      simp only [assembleN, assembleAux, Bool.false_eq_true, if_false]
      by_cases hq : countQuotes l % 2 = 0
      · have h1 : ¬ countQuotes l % 2 = 1 := by omega
        rw [if_pos hq, if_neg h1, List.map_cons, ih]
      · have h1 : countQuotes l % 2 = 1 := by omega
        rw [if_neg hq, if_pos h1, ih]
    | some acc =>
      simp only [assembleN, assembleAux]
      split
      · simp only [List.map_cons, ih]
      · exact ih _ _

theorem isComment_none (c : RCfg) (hc : c.comment = none) : isComment c = fun _ => false := by
  funext l; simp [isComment, hc]

/-- quoted_rfc without a comment prefix: the data rows are the quote-parity assembly (`assemble`) of the
physical lines -/
theorem textRows_rfc_nocomment (c : RCfg) (hpol : c.policy = .quotedRfc) (hcom : c.comment = none) (text : Str) :
    (textRows c text).map (·.2) = assemble (stripBomFirst c.enc (linesSpec text)) := by
  simp only [textRows, rowsOfLines, if_pos hpol, dataRows, isComment_none c hcom, Bool.not_false, assemble]
  rw [List.filter_eq_self.mpr (fun _ _ => rfl)]
  exact assembleN_rows _ _ _

/-- WHAT the records are under quoted_rfc (no comment prefix): the physical lines, BOM removed from the
first, grouped by quote parity (`assemble`: a line with an odd number of quotes opens a record that runs to
the next line with an odd number of quotes, the lines joined by LF), each group split -/
def rfcRecordsSpec (c : RCfg) (text : Str) : List (List Str × Bool) :=
  (assemble (stripBomFirst c.enc (linesSpec text))).map (smartSplit c.delim c.policy false)

theorem textRows_rfc_recs (c : RCfg) (hpol : c.policy = .quotedRfc) (hcom : c.comment = none) (text : Str) :
    (textRows c text).map (splitRow c) = rfcRecordsSpec c text := by
  rw [rfcRecordsSpec, ← textRows_rfc_nocomment c hpol hcom, List.map_map]
  rfl

/-- (2b, success) quoted_rfc, no comment prefix, no record with defective quoting: in EVERY chunking the
reader machine delivers exactly `rfcRecordsSpec`; there is never a defective-line warning. -/
theorem readAll_eq_rfcRecordsSpec (c : RCfg) (hpol : c.policy = .quotedRfc) (hcom : c.comment = none)
    (hc : 1 ≤ c.chunk) (hasHeader : Bool) (modifier : Option Bool) (pieces : List Str) (hp : ∀ p ∈ pieces, p ≠ [])
    (hgood : ∀ e ∈ rfcRecordsSpec c pieces.flatten, e.2 = false) :
    readAll c hasHeader modifier pieces = .ok
      { header := if effHeader hasHeader modifier then ((rfcRecordsSpec c pieces.flatten).map (·.1)).head? else none,
        records := if effHeader hasHeader modifier then ((rfcRecordsSpec c pieces.flatten).map (·.1)).tail
          else (rfcRecordsSpec c pieces.flatten).map (·.1),
        warnings := warningsSpec (bomSeen c pieces.flatten) none ((rfcRecordsSpec c pieces.flatten).map (·.1)) } := by
  have hrec := textRows_rfc_recs c hpol hcom pieces.flatten
  have hflags : ∀ p ∈ textRows c pieces.flatten, (splitRow c p).2 = false := by
    intro p hp'
    apply hgood
    rw [← hrec]
    exact List.mem_map_of_mem hp'
  have hfd : fdAfter c none (textRows c pieces.flatten) = none := by
    simp only [fdAfter, Option.map_eq_none_iff, List.find?_eq_none]
    intro p hp'; simp [hflags p hp']
  have hmap : (textRows c pieces.flatten).map (fun p => (splitRow c p).1) =
      (rfcRecordsSpec c pieces.flatten).map (·.1) := by
    rw [← hrec, List.map_map]; rfl
  rw [readAll_rows_ok c hc hasHeader modifier pieces hp (fun _ => hflags), infoAfter_eq, hmap, hfd]
  simp only [warningsOf, warningsSpec, fieldsWarn_spec]

/-- (2b, failure) … and if some record has defective quoting, the run raises at the FIRST such record,
with its record number (the line number is the one `textRows` attaches to it: `readAll_rows_err`) -/
theorem readAll_rfc_first_defective (c : RCfg) (hpol : c.policy = .quotedRfc) (hcom : c.comment = none)
    (hc : 1 ≤ c.chunk) (hasHeader : Bool) (modifier : Option Bool) (pieces : List Str) (hp : ∀ p ∈ pieces, p ≠ [])
    (R1 : List (List Str × Bool)) (fs : List Str) (R2 : List (List Str × Bool))
    (hsplit : rfcRecordsSpec c pieces.flatten = R1 ++ (fs, true) :: R2) (hR1 : ∀ e ∈ R1, e.2 = false) :
    ∃ nl, readAll c hasHeader modifier pieces = .error (.rfcQuote (R1.length + 1) nl) := by
  rw [← textRows_rfc_recs c hpol hcom] at hsplit
  obtain ⟨D1, rest, h1, h2, h3⟩ := List.map_eq_append_iff.mp hsplit
  obtain ⟨p, D2, h4, h5, h6⟩ := List.map_eq_cons_iff.mp h3
  subst h4
  obtain ⟨n, line⟩ := p
  have hlen : D1.length = R1.length := by rw [← h2]; simp
  refine ⟨n, ?_⟩
  rw [← hlen]
  apply readAll_rows_err c hc hpol hasHeader modifier pieces hp D1 n line D2 h1
  · intro q hq
    have := hR1 (splitRow c q) (by rw [← h2]; exact List.mem_map_of_mem hq)
    exact this
  · rw [h5]

/-! ### quoted_rfc WITH a comment prefix: the rule in one definition -/

/-- quote-parity assembly that skips comment lines: a line starting with the comment prefix is skipped
when no record is open — and only then: inside an open record (odd number of quotes so far) it is an
ordinary line of the record -/
def assembleD (isC : Str → Bool) : List Str → Nat → Option Str → List (Nat × Str)
  | [], _, none => []
  | [], n, some acc => [(n, acc)]
  | l :: ls, n, none =>
    if isC l then assembleD isC ls (n + 1) none
    else if countQuotes l % 2 = 0 then (n + 1, l) :: assembleD isC ls (n + 1) none
    else assembleD isC ls (n + 1) (some l)
  | l :: ls, n, some acc =>
    if countQuotes l % 2 = 1 then (n + 1, acc ++ LF :: l) :: assembleD isC ls (n + 1) none
    else assembleD isC ls (n + 1) (some (acc ++ LF :: l))

theorem isPrefixOf_append_LF (p a l : Str) (hp : NoNL p) :
    p.isPrefixOf (a ++ LF :: l) = p.isPrefixOf a := by
  induction a generalizing p with
  | nil =>
    cases p with
    | nil => rfl
    | cons x xs =>
      have : x ≠ LF := (hp x (by simp)).1
      simp [List.isPrefixOf, this]
  | cons y a ih =>
    cases p with
    | nil => rfl
    | cons x xs =>
      simp only [List.cons_append, List.isPrefixOf]
      rw [ih xs (fun c hc => hp c (by simp [hc]))]

theorem isComment_append_LF (c : RCfg) (hp : ∀ p, c.comment = some p → NoNL p) (a l : Str) :
    isComment c (a ++ LF :: l) = isComment c a := by
  unfold isComment
  cases h : c.comment with
  | none => rfl
  | some p => exact isPrefixOf_append_LF p a l (hp p h)

theorem dataRows_assembleN (c : RCfg) (hp : ∀ p, c.comment = some p → NoNL p) (ls : List Str) (n : Nat)
    (st : Option Str) (hst : ∀ acc, st = some acc → isComment c acc = false) :
    dataRows c (assembleN (isComment c) ls n st) = assembleD (isComment c) ls n st := by
  induction ls generalizing n st with
  | nil =>
    cases st with
    | none => rfl
    | some acc => simp [assembleN, assembleD, dataRows, hst acc rfl]
  | cons l ls ih =>
    cases st with
    | none =>
      simp only [assembleN, assembleD]
      by_cases hc : isComment c l = true
      · rw [if_pos hc, if_pos hc]
        simp only [dataRows, List.filter_cons, hc, Bool.not_true, Bool.false_eq_true, if_false]
        exact ih (n + 1) none (fun _ h => by cases h)
      · rw [if_neg hc, if_neg hc]
        simp only [Bool.not_eq_true] at hc
        split
        · simp only [dataRows, List.filter_cons, hc, Bool.not_false, if_true]
          congr 1
          exact ih (n + 1) none (fun _ h => by cases h)
        · exact ih (n + 1) (some l) (fun acc h => by cases h; exact hc)
    | some acc =>
      have hacc : isComment c (acc ++ LF :: l) = false := by
        rw [isComment_append_LF c hp]; exact hst acc rfl
      simp only [assembleN, assembleD]
      split
      · simp only [dataRows, List.filter_cons, hacc, Bool.not_false, if_true]
        congr 1
        exact ih (n + 1) none (fun _ h => by cases h)
      · exact ih (n + 1) _ (fun a h => by cases h; exact hacc)

/-- quoted_rfc with a comment prefix that contains no line break: the data rows are `assembleD` of the
physical lines -/
theorem textRows_rfc (c : RCfg) (hpol : c.policy = .quotedRfc) (hp : ∀ p, c.comment = some p → NoNL p)
    (text : Str) :
    textRows c text = assembleD (isComment c) (stripBomFirst c.enc (linesSpec text)) 0 none := by
  simp only [textRows, rowsOfLines, if_pos hpol]
  exact dataRows_assembleN c hp _ 0 none (fun _ h => by cases h)

/-- the general rule cannot be simplified without the hypothesis: with the (exotic) prefix `"`+LF the
assembled row `"`+LF+`"` is skipped as a whole although its first line is not a comment line -/
example : textRows { chunk := 1, delim := [','], policy := .quotedRfc, comment := some ['"', LF], enc := .none }
    ['"', LF, '"', LF, 'a', LF] = [(3, ['a'])] := by decide +kernel
example : assembleD (isComment { chunk := 1, delim := [','], policy := .quotedRfc, comment := some ['"', LF], enc := .none })
    [['"'], ['"'], ['a']] 0 none = [(2, ['"', LF, '"']), (3, ['a'])] := by decide +kernel

/-! ## 2c. (C13) the CSV front-end is faithful THROUGH THE READER MACHINE, quoted and simple policies -/

theorem NoNL_quoteField (d f : Str) (h : NoNL f) : NoNL (quoteField d f) := by
  have hQ : NoNL [QUOTE] := by
    intro c hc
    simp only [List.mem_singleton] at hc
    subst hc; decide
  have hesc : NoNL (escapeQ f) := fun c hc => h c (mem_escapeQ c f hc)
  unfold quoteField
  split
  · show NoNL ([QUOTE] ++ (escapeQ f ++ [QUOTE]))
    exact (NoNL_append _ _).mpr ⟨hQ, (NoNL_append _ _).mpr ⟨hesc, hQ⟩⟩
  · split
    · show NoNL ([QUOTE] ++ (f ++ [QUOTE]))
      exact (NoNL_append _ _).mpr ⟨hQ, (NoNL_append _ _).mpr ⟨h, hQ⟩⟩
    · exact h

theorem NoNL_joinD (d : Str) (hd : NoNL d) (l : List Str) (h : ∀ x ∈ l, NoNL x) : NoNL (joinD d l) := by
  intro c hc
  rcases mem_joinD d c l hc with hcd | ⟨x, hx, hcx⟩
  · exact hd c hcd
  · exact h x hx c hcx

theorem stripBomFirst_none (ls : List Str) : stripBomFirst .none ls = ls := by
  cases ls <;> simp [stripBomFirst, removeBom]

/-- the common part: lines without line breaks, each followed by LF, CRLF or CR, that split (without the
warning) into the records of `table`, come back as `table` through the reader machine in any chunking -/
theorem readAll_of_written_lines (c : RCfg) (hpol : c.policy ≠ .quotedRfc) (hc : 1 ≤ c.chunk)
    (hcom : c.comment = none) (henc : c.enc = .none)
    (sep : Str) (hsep : sep = [LF] ∨ sep = [CR, LF] ∨ sep = [CR])
    (lines : List Str) (hnl : ∀ l ∈ lines, NoNL l) (table : List (List Str))
    (hsplit : lines.map (smartSplit c.delim c.policy false) = table.map (fun fs => (fs, false)))
    (hasHeader : Bool) (modifier : Option Bool) (pieces : List Str) (hp : ∀ p ∈ pieces, p ≠ [])
    (htext : pieces.flatten = lines.flatMap (fun l => l ++ sep)) :
    readAll c hasHeader modifier pieces = .ok
      { header := if effHeader hasHeader modifier then table.head? else none,
        records := if effHeader hasHeader modifier then table.tail else table,
        warnings := fieldsWarnSpec table } := by
  have hl : linesSpec pieces.flatten = lines := by rw [htext]; exact file_lines_roundtrip sep hsep lines hnl
  have hrs : recordsSpec c pieces.flatten = table.map (fun fs => (fs, false)) := by
    simp only [recordsSpec, hl, henc, stripBomFirst_none, isComment_none c hcom, Bool.not_false]
    rw [List.filter_eq_self.mpr (fun _ _ => rfl), hsplit]
  have hrecs : (recordsSpec c pieces.flatten).map (·.1) = table := by
    rw [hrs, List.map_map]; exact List.map_id table
  have hbom : bomSeen c pieces.flatten = false := by
    unfold bomSeen; cases linesSpec pieces.flatten <;> first | rfl | simp [henc, removeBom]
  have hfd : firstDefectiveSpec c pieces.flatten = none := by
    have hN : (recordsSpecN c pieces.flatten).map (·.2) = recordsSpec c pieces.flatten := by
      simp only [recordsSpecN, recordsSpec, List.map_map]
      generalize stripBomFirst c.enc (linesSpec pieces.flatten) = ls
      generalize 1 = k
      induction ls generalizing k with
      | nil => rfl
      | cons l ls ih =>
        simp only [List.zipIdx_cons, List.filter_cons]
        split
        · simp only [List.map_cons, ih (k + 1)]; rfl
        · exact ih (k + 1)
    simp only [firstDefectiveSpec, Option.map_eq_none_iff, List.find?_eq_none]
    intro e he
    have : e.2 ∈ recordsSpec c pieces.flatten := by rw [← hN]; exact List.mem_map_of_mem he
    rw [hrs] at this
    obtain ⟨fs, _, hfs⟩ := List.mem_map.mp this
    rw [← hfs]; simp
  rw [readAll_eq_recordsSpec c hpol hc hasHeader modifier pieces hp, hrecs, hbom, hfd]
  simp [warningsSpec]

/-- (2c, quoted policy) a table of non-empty records whose fields contain no line break (and do not overlap
a multi-character delimiter), written with `quote_field`, the delimiter and a line separator after every
record, then read by the reader machine in ANY chunking (quoted policy, no comment prefix, no encoding):
the records read are exactly the table; no BOM warning, no defective-line warning; the only possible
warning is the field-count one, iff the table is ragged (`fieldsWarnSpec`). -/
theorem csv_quoted_reader_roundtrip {d : Str} (g : GoodDelim d (d != [SPACE])) (hlf : LF ∉ d) (hcr : CR ∉ d)
    (table : List (List Str)) (hne : ∀ fs ∈ table, fs ≠ [])
    (hok : ∀ fs ∈ table, ∀ f ∈ fs, FieldOk d f ∧ NoNL f)
    (sep : Str) (hsep : sep = [LF] ∨ sep = [CR, LF] ∨ sep = [CR])
    (c : RCfg) (hc : 1 ≤ c.chunk) (hdel : c.delim = d) (hpol : c.policy = .quoted)
    (hcom : c.comment = none) (henc : c.enc = .none)
    (hasHeader : Bool) (modifier : Option Bool) (pieces : List Str) (hp : ∀ p ∈ pieces, p ≠ [])
    (htext : pieces.flatten = table.flatMap (fun fs => joinD d (fs.map (quoteField d)) ++ sep)) :
    readAll c hasHeader modifier pieces = .ok
      { header := if effHeader hasHeader modifier then table.head? else none,
        records := if effHeader hasHeader modifier then table.tail else table,
        warnings := fieldsWarnSpec table } := by
  apply readAll_of_written_lines c (by rw [hpol]; decide) hc hcom henc sep hsep
    (table.map (fun fs => joinD d (fs.map (quoteField d)))) ?_ table ?_ hasHeader modifier pieces hp
    (by rw [htext, List.flatMap_map])
  · intro l hl
    obtain ⟨fs, hfs, rfl⟩ := List.mem_map.mp hl
    apply NoNL_joinD d (NoNL_of_not_mem d hlf hcr)
    intro x hx
    obtain ⟨f, hf, rfl⟩ := List.mem_map.mp hx
    exact NoNL_quoteField d f (hok fs hfs f hf).2
  · rw [List.map_map]
    apply List.map_congr_left
    intro fs hfs
    simp only [Function.comp, hdel, hpol, smartSplit]
    exact line_roundtrip_quoted_str g fs (hne fs hfs) (fun f hf => (hok fs hfs f hf).1)

/-- (2c, simple policy) the same for raw fields joined by the delimiter -/
theorem csv_simple_reader_roundtrip {d : Str} (hd : d ≠ []) (hlf : LF ∉ d) (hcr : CR ∉ d)
    (table : List (List Str)) (hne : ∀ fs ∈ table, fs ≠ [])
    (hok : ∀ fs ∈ table, ∀ f ∈ fs, RawOk d f ∧ NoNL f)
    (sep : Str) (hsep : sep = [LF] ∨ sep = [CR, LF] ∨ sep = [CR])
    (c : RCfg) (hc : 1 ≤ c.chunk) (hdel : c.delim = d) (hpol : c.policy = .simple)
    (hcom : c.comment = none) (henc : c.enc = .none)
    (hasHeader : Bool) (modifier : Option Bool) (pieces : List Str) (hp : ∀ p ∈ pieces, p ≠ [])
    (htext : pieces.flatten = table.flatMap (fun fs => joinD d fs ++ sep)) :
    readAll c hasHeader modifier pieces = .ok
      { header := if effHeader hasHeader modifier then table.head? else none,
        records := if effHeader hasHeader modifier then table.tail else table,
        warnings := fieldsWarnSpec table } := by
  apply readAll_of_written_lines c (by rw [hpol]; decide) hc hcom henc sep hsep
    (table.map (fun fs => joinD d fs)) ?_ table ?_ hasHeader modifier pieces hp
    (by rw [htext, List.flatMap_map])
  · intro l hl
    obtain ⟨fs, hfs, rfl⟩ := List.mem_map.mp hl
    exact NoNL_joinD d (NoNL_of_not_mem d hlf hcr) fs (fun f hf => (hok fs hfs f hf).2)
  · rw [List.map_map]
    apply List.map_congr_left
    intro fs hfs
    simp only [Function.comp, hdel, hpol, smartSplit]
    rw [line_roundtrip_simple d hd fs (hne fs hfs) (fun f hf => (hok fs hfs f hf).1)]

/-! ## non-vacuity: the specification on concrete texts (cross-checked against the real reader) -/

section Examples

private def exCfg : RCfg :=
  { chunk := 3, delim := [','], policy := .quoted, comment := some ['#'], enc := .utf8 }

/-- BOM, a comment line, a defective line, CRLF, no final line break -/
private def exText : Str := [Char.ofNat 0xfeff] ++ "a,b\n#c\n\"x\"y,z\r\nq".toList

example : recordsSpecN exCfg exText =
    [(1, [['a'], ['b']], false), (3, [['"', 'x', '"', 'y'], ['z']], true), (4, [['q']], false)] := by
  decide +kernel

example : bomSeen exCfg exText = true ∧ firstDefectiveSpec exCfg exText = some 3 := by decide +kernel

example : warningsSpec true (some 3) ((recordsSpec exCfg exText).map (·.1)) =
    [.bom, .defective 3, .fields 2 1 1 3] := by decide +kernel

private def exCfgR : RCfg :=
  { chunk := 2, delim := [','], policy := .quotedRfc, comment := some ['#'], enc := .none }

/-- quoted_rfc with a comment prefix: `#y"` lies inside an open quoted field and belongs to it, `#z` is a
comment line, the last record is defective: the run raises at record 3, line 5 -/
example : textRows exCfgR "a,\"x\n#y\"\n#z\nb,c\nd,\"e\"f\n".toList =
    [(2, "a,\"x\n#y\"".toList), (4, "b,c".toList), (5, "d,\"e\"f".toList)] := by decide +kernel

example : (splitRow exCfgR (5, "d,\"e\"f".toList)).2 = true := by decide +kernel

private theorem goodComma'' : GoodDelim [','] ([','] != [SPACE]) :=
  ⟨by simp, by decide, by intro _; simp [NoLeadSpace, SPACE]⟩

/-- an instance of the C13 round trip: fields with the delimiter, a quote, spaces, an empty field; three
chunkings of the same text -/
example (pieces : List Str) (hp : ∀ p ∈ pieces, p ≠ [])
    (h : pieces.flatten = "a,\"b,c\"\n\"d\"\"e\",\n x ,y\n".toList) :
    readAll { chunk := 5, delim := [','], policy := .quoted, comment := none, enc := .none } true none pieces =
      .ok { header := some [['a'], ['b', ',', 'c']],
            records := [[['d', '"', 'e'], []], [[' ', 'x', ' '], ['y']]],
            warnings := [] } := by
  have hnl : ∀ fs ∈ [[['a'], ['b', ',', 'c']], [['d', '"', 'e'], []], [[' ', 'x', ' '], ['y']]],
      ∀ f ∈ fs, NoNL f := by unfold NoNL; decide
  have := csv_quoted_reader_roundtrip goodComma'' (by decide) (by decide)
    [[['a'], ['b', ',', 'c']], [['d', '"', 'e'], []], [[' ', 'x', ' '], ['y']]] (by decide)
    (fun fs hfs f hf => ⟨fieldOk_single ',' f, hnl fs hfs f hf⟩) [LF] (Or.inl rfl)
    { chunk := 5, delim := [','], policy := .quoted, comment := none, enc := .none } (by decide) rfl rfl rfl rfl
    true none pieces hp (by rw [h]; decide)
  rw [this]; rfl

end Examples

end Rbql
