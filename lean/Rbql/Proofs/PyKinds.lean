/-
  Helpers for `Theorems/C07PyKinds.lean`: what the Python `ast` route (`pyColumnInfo`, Model/PyAst.lean) answers for the tree of
  each common kind of select item, in the vocabulary of `Proofs/SpanParser.lean` (`letter`, `natDigits`, `STAR`, `isFieldVar`, …),
  and the first nodes `ast.walk` (`walkBfs`) visits.
-/
import Rbql.Proofs.SpanParser
import Rbql.Model.PyAst

namespace Rbql.PyKinds
open Rbql.SpanParser

/-! ## the two vocabularies name the same things -/

/-- the star marker of the span parser's vocabulary is the constant the Python model compares with -/
theorem STAR_eq_pyStarMarker : STAR = pyStarMarker := rfl

theorem digitTest_eq (c : Char) : decide (48 ≤ c.toNat ∧ c.toNat ≤ 57) = isDigit c := by
  simp only [Rbql.isDigit, Char.le_def, Char.toNat]
  rw [Bool.eq_iff_iff]
  simp [UInt32.le_iff_toNat_le]

theorem allDigits_eq_isDigits (s : Str) : allDigits s = isDigits s := by
  simp only [allDigits, isDigits, digitTest_eq]

theorem strToNat_eq_digitsToNat (s : Str) : strToNat s = digitsToNat s := rfl

theorem allDigits_natDigits (n : Nat) : allDigits (natDigits n) = true := by
  rw [allDigits_eq_isDigits]
  simp only [isDigits, Bool.and_eq_true, Bool.not_eq_true', List.isEmpty_eq_false_iff, List.all_eq_true]
  exact ⟨natDigits_ne_nil n, natDigits_isDigit n⟩

theorem strToNat_natDigits (n : Nat) : strToNat (natDigits n) = n := by
  rw [strToNat_eq_digitsToNat, digitsToNat_natDigits]

theorem fieldInfo_succ (b : Bool) (n : Nat) : fieldInfo b ((n + 1 : Nat) : Int) = .field b n := by
  unfold fieldInfo
  have h1 : (1 : Int) ≤ ((n + 1 : Nat) : Int) := by omega
  have h2 : (((n + 1 : Nat) : Int) - 1).toNat = n := by omega
  rw [if_pos h1, h2]

theorem fieldInfo_succ' (b : Bool) (n : Nat) : fieldInfo b ((n : Int) + 1) = .field b n := by
  have := fieldInfo_succ b n
  simpa using this

theorem letter_eq_b (isB : Bool) : decide (letter isB = 'b') = isB := by cases isB <;> decide
theorem letter_list_eq_b (isB : Bool) : decide ([letter isB] = ['b']) = isB := by cases isB <;> decide
theorem letter_list_ab (isB : Bool) : [letter isB] = ['a'] ∨ [letter isB] = ['b'] := by cases isB <;> decide

theorem letter_cons_ne_star (isB : Bool) (ds : Str) : letter isB :: ds ≠ pyStarMarker := by
  have hm : pyStarMarker = '_' :: "_RBQL_INTERNAL_STAR".toList := by decide
  intro h
  rw [hm] at h
  have : letter isB = '_' := (List.cons.inj h).1
  cases isB <;> revert this <;> decide

/-! ## the kinds, with the weakest hypotheses the Python side needs -/

/-- `aN` / `bN` -/
theorem py_simple_field (isB : Bool) (n : Nat) :
    pyColumnInfo (.name (letter isB :: natDigits (n + 1))) = .ok (.field isB n) := by
  simp only [pyColumnInfo]
  rw [if_neg (letter_cons_ne_star isB _)]
  rw [if_pos ⟨letter_ab isB, allDigits_natDigits _⟩, strToNat_natDigits, letter_eq_b, fieldInfo_succ]

/-- `a[N]` / `b[N]`: Python's parser has already read the number -/
theorem py_bracket_field (isB : Bool) (n : Nat) :
    pyColumnInfo (.subscript (.name [letter isB]) (.constant (.int ((n : Int) + 1)))) = .ok (.field isB n) := by
  simp only [pyColumnInfo]
  rw [if_pos (letter_list_ab isB), letter_list_eq_b, fieldInfo_succ']

/-- `a.name` / `b.name`: any non-empty attribute name -/
theorem py_dotted (isB : Bool) (ident : Str) (hne : ident ≠ []) :
    pyColumnInfo (.attribute (.name [letter isB]) ident) =
      if ident = pyStarMarker then .ok (.star (some isB)) else .ok (.named ident) := by
  have h0 : ident.isEmpty = false := by simpa using hne
  simp only [pyColumnInfo, h0]
  rw [if_neg (by simp), if_pos (letter_list_ab isB), letter_list_eq_b]

theorem py_dotted_named (isB : Bool) (ident : Str) (hne : ident ≠ []) (hs : ident ≠ STAR) :
    pyColumnInfo (.attribute (.name [letter isB]) ident) = .ok (.named ident) := by
  rw [py_dotted isB ident hne, if_neg (by rw [← STAR_eq_pyStarMarker]; exact hs)]

/-- a bare name that is neither the star marker nor a column variable (no other condition: the parser made it a Name) -/
theorem py_ident (t : Str) (hstar : t ≠ pyStarMarker) (hvar : isFieldVar t = false) :
    pyColumnInfo (.name t) = .ok (.named t) := by
  simp only [pyColumnInfo]
  rw [if_neg hstar]
  cases t with
  | nil => rfl
  | cons c ds =>
    simp only []
    rw [if_neg]
    intro ⟨hc, hd⟩
    rw [allDigits_eq_isDigits] at hd
    have : isAB c = true := by simpa [isAB] using hc
    simp [isFieldVar, this, hd] at hvar

theorem py_star_all : pyColumnInfo (.name STAR) = .ok (.star none) := by
  simp only [pyColumnInfo]
  rw [if_pos STAR_eq_pyStarMarker]

theorem py_star_table (isB : Bool) : pyColumnInfo (.attribute (.name [letter isB]) STAR) = .ok (.star (some isB)) := by
  rw [py_dotted isB STAR (by decide), if_pos STAR_eq_pyStarMarker]

/-- the tree Python's parser builds for the text `markerOf x` -/
def starTree : Option Bool → PyNode
  | none => .name STAR
  | some isB => .attribute (.name [letter isB]) STAR

theorem py_star (x : Option Bool) : pyColumnInfo (starTree x) = .ok (.star x) := by
  cases x with
  | none => exact py_star_all
  | some isB => exact py_star_table isB

/-- `a["name"]` / `b["name"]`: Python's parser has already evaluated the literal -/
theorem py_quoted (isB : Bool) (name : Str) :
    pyColumnInfo (.subscript (.name [letter isB]) (.constant (.str name))) = .ok (.named name) := by
  simp only [pyColumnInfo]
  rw [if_pos (letter_list_ab isB)]

/-! ## `ast.walk`: the first nodes visited -/

theorem size_pos (n : PyNode) : 1 ≤ n.size := by
  cases n <;> simp only [PyNode.size] <;> omega

theorem length_le_sizeList (ns : List PyNode) : ns.length ≤ PyNode.sizeList ns := by
  induction ns with
  | nil => simp [PyNode.sizeList]
  | cons n ns ih =>
    simp only [PyNode.sizeList, List.length_cons]
    have := size_pos n
    omega

theorem sizeList_append (xs ys : List PyNode) : PyNode.sizeList (xs ++ ys) = PyNode.sizeList xs + PyNode.sizeList ys := by
  induction xs with
  | nil => simp [PyNode.sizeList]
  | cons x xs ih => simp only [List.cons_append, PyNode.sizeList, ih]; omega

theorem walkBfs_succ_cons (fuel : Nat) (n : PyNode) (queue : List PyNode) :
    walkBfs (fuel + 1) (n :: queue) = n :: walkBfs fuel (queue ++ n.children) := rfl

/-- with enough fuel, a prefix of the queue is visited first, in order; the children of its nodes join the END of the queue -/
theorem walkBfs_prefix (pre : List PyNode) : ∀ (fuel : Nat) (queue : List PyNode),
    walkBfs (fuel + pre.length) (pre ++ queue) = pre ++ walkBfs fuel (queue ++ pre.flatMap PyNode.children) := by
  induction pre with
  | nil => intro fuel queue; simp
  | cons p pre ih =>
    intro fuel queue
    have hf : fuel + (p :: pre).length = (fuel + pre.length) + 1 := by simp only [List.length_cons]; omega
    rw [hf, List.cons_append, walkBfs_succ_cons, List.append_assoc, ih]
    simp [List.flatMap_cons, List.append_assoc]

/-- the search skips every visited node that is not a call of the pseudo function -/
theorem findSome_skip (pre rest : List PyNode) (h : ∀ p ∈ pre, aliasOfNode p = none) :
    (pre ++ rest).findSome? aliasOfNode = rest.findSome? aliasOfNode := by
  induction pre with
  | nil => rfl
  | cons p pre ih =>
    rw [List.cons_append, List.findSome?_cons, h p (by simp)]
    exact ih (fun q hq => h q (by simp [hq]))

theorem aliasOfNode_call (ident : Str) (hne : ident ≠ []) (kw : List PyNode) :
    aliasOfNode (.call (.name pyAliasFuncName) [.name ident] kw) = some (.found ident) := by
  have h0 : ident.isEmpty = false := by simpa using hne
  simp [aliasOfNode, h0]

theorem aliasOfNode_other (cs : List PyNode) : aliasOfNode (.other cs) = none := rfl

/-- **the first call in breadth-first order decides, and the children of the root come before every deeper node**: when the
root's children start with nodes that are not themselves calls of the pseudo function (whatever they CONTAIN) followed by a
well-formed call, that call is the one found -/
theorem searchAlias_shallow (pre : List PyNode) (hpre : ∀ p ∈ pre, aliasOfNode p = none) (ident : Str) (hne : ident ≠ [])
    (kw rest : List PyNode) :
    searchAlias (.other (pre ++ .call (.name pyAliasFuncName) [.name ident] kw :: rest)) = .found ident := by
  unfold searchAlias PyNode.walk
  have hsz : ∃ f, (PyNode.other (pre ++ .call (.name pyAliasFuncName) [.name ident] kw :: rest)).size =
      (f + 1 + pre.length) + 1 := by
    have h1 := length_le_sizeList pre
    refine ⟨PyNode.sizeList pre - pre.length + (2 + PyNode.sizeList kw) + PyNode.sizeList rest, ?_⟩
    simp only [PyNode.size, PyNode.sizeList, sizeList_append]
    omega
  obtain ⟨f, hf⟩ := hsz
  rw [hf, walkBfs_succ_cons, List.nil_append, PyNode.children, walkBfs_prefix, List.cons_append, walkBfs_succ_cons]
  rw [List.findSome?_cons, aliasOfNode_other, findSome_skip _ _ hpre, List.findSome?_cons, aliasOfNode_call ident hne kw]

/-- the alias kind, general form: any number of non-call siblings before the call (e.g. the operator node of a comparison) -/
theorem py_alias_general (pre : List PyNode) (hpre : ∀ p ∈ pre, aliasOfNode p = none) (ident : Str) (hne : ident ≠ [])
    (kw rest : List PyNode) :
    pyColumnInfo (.other (pre ++ .call (.name pyAliasFuncName) [.name ident] kw :: rest)) = .ok (.alias ident) := by
  unfold pyColumnInfo
  simp only [searchAlias_shallow pre hpre ident hne kw rest]

/-- the alias kind as the translated item `e <op> alias_column_as_pseudo_func(ident)` is parsed: only `e` ITSELF comes before the
call in `ast.walk` order; nothing is assumed about what `e` contains -/
theorem py_alias (e : PyNode) (he : aliasOfNode e = none) (ident : Str) (hne : ident ≠ []) (rest : List PyNode) :
    pyColumnInfo (.other (e :: .call (.name pyAliasFuncName) [.name ident] [] :: rest)) = .ok (.alias ident) :=
  py_alias_general [e] (by simpa using he) ident hne [] rest

/-- the first three nodes `ast.walk` visits, then the rest of the queue: remaining siblings, then grandchildren -/
theorem walk_first_three (e c : PyNode) (rest : List PyNode) :
    (PyNode.other (e :: c :: rest)).walk =
      .other (e :: c :: rest) :: e :: c ::
        walkBfs (e.size + c.size + PyNode.sizeList rest - 2) (rest ++ (e.children ++ c.children)) := by
  unfold PyNode.walk
  have h1 := size_pos e
  have h2 := size_pos c
  have hf : (PyNode.other (e :: c :: rest)).size = (e.size + c.size + PyNode.sizeList rest - 2) + 2 + 1 := by
    simp only [PyNode.size, PyNode.sizeList]; omega
  rw [hf, walkBfs_succ_cons, List.nil_append, PyNode.children]
  have := walkBfs_prefix [e, c] (e.size + c.size + PyNode.sizeList rest - 2) rest
  simp only [List.length_cons, List.length_nil, List.cons_append, List.nil_append, List.flatMap_cons, List.flatMap_nil,
    List.append_nil] at this
  rw [this]

theorem isAliasIdent_ne_nil (ident : Str) (h : isAliasIdent ident = true) : ident ≠ [] := by
  intro h0; subst h0; simp [isAliasIdent] at h

theorem isIdent_ne_nil (ident : Str) (h : isIdent ident = true) : ident ≠ [] := by
  intro h0; subst h0; simp [isIdent] at h

end Rbql.PyKinds
