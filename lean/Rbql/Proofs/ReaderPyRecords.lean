/-
  Content-only dependence of the Python CSV reader: header, records, warnings and the error
  delivered by `readAll` are a function of the concatenated text of the stream; neither the
  partition of the stream into pieces nor the chunk size is observable.

  Method: a one-step characterisation of `getRowSimple` as a function `specStep` of the pending
  text (`pending s`), `nl` and `bom` only, then a simulation relation `Sim` between two reader
  states with the same pending text and the same non-stream fields, lifted through every layer
  of the reader.
-/
import Rbql.Proofs.ReaderPyLines
namespace Rbql

/-! ### The next physical line of a text -/

/-- first line of a text and the text after its separator -/
def nextLine (p : Str) : Option (Str × Str) :=
  match extractLine p with
  | some (b, _, a) => some (b, a)
  | none => if p = [] then none else some (p, [])

theorem extractLine_noNL_append (b X : Str) (hb : NoNL b) :
    extractLine (b ++ X) =
      match extractLine X with
      | some (b', sep, a) => some (b ++ b', sep, a)
      | none => none := by
  induction b with
  | nil => rcases he : extractLine X with _ | ⟨b', sep, a⟩ <;> simp [he]
  | cons c cs ih =>
    rw [NoNL_cons] at hb
    rw [List.cons_append, extractLine.eq_def]
    simp only [if_neg hb.1.1, if_neg hb.1.2, ih hb.2]
    rcases he : extractLine X with _ | ⟨b', sep, a⟩ <;> simp

theorem extractLine_noNL (b : Str) (hb : NoNL b) : extractLine b = none := by
  have := extractLine_noNL_append b [] hb
  simpa [extractLine] using this

theorem nextLine_nil : nextLine [] = none := by simp [nextLine, extractLine]

theorem nextLine_noNL (b : Str) (hb : NoNL b) (hne : b ≠ []) : nextLine b = some (b, []) := by
  simp [nextLine, extractLine_noNL b hb, hne]

theorem nextLine_LF (b X : Str) (hb : NoNL b) : nextLine (b ++ LF :: X) = some (b, X) := by
  simp [nextLine, extractLine_noNL_append _ _ hb, extractLine]

theorem nextLine_CRLF (b X : Str) (hb : NoNL b) :
    nextLine (b ++ CR :: LF :: X) = some (b, X) := by
  simp [nextLine, extractLine_noNL_append _ _ hb, extractLine, CR_ne_LF]

theorem nextLine_CR (b X : Str) (hb : NoNL b) (hX : X.head? ≠ some LF) :
    nextLine (b ++ CR :: X) = some (b, X) := by
  cases X with
  | nil => simp [nextLine, extractLine_noNL_append _ _ hb, extractLine, CR_ne_LF]
  | cons c2 cs =>
    have : c2 ≠ LF := by intro h; subst h; exact hX rfl
    simp [nextLine, extractLine_noNL_append _ _ hb, extractLine, CR_ne_LF, this]

/-! ### Frames: which fields a step may touch -/

/-- the fields above the row machine are untouched -/
def Frame (s s' : RState) : Prop :=
  s'.nr = s.nr ∧ s'.firstDefective = s.firstDefective ∧ s'.fieldsInfo = s.fieldsInfo ∧
  s'.hasHeader = s.hasHeader ∧ s'.firstRecord = s.firstRecord ∧ s'.emitFirst = s.emitFirst

/-- only `stream`, `buffer`, `exhausted` may change -/
def BFrame (s s' : RState) : Prop := Frame s s' ∧ s'.nl = s.nl ∧ s'.bom = s.bom

theorem Frame.refl (s : RState) : Frame s s := ⟨rfl, rfl, rfl, rfl, rfl, rfl⟩

theorem Frame.trans {a b c : RState} (h1 : Frame a b) (h2 : Frame b c) : Frame a c := by
  obtain ⟨a1, a2, a3, a4, a5, a6⟩ := h1
  obtain ⟨b1, b2, b3, b4, b5, b6⟩ := h2
  exact ⟨b1.trans a1, b2.trans a2, b3.trans a3, b4.trans a4, b5.trans a5, b6.trans a6⟩

theorem BFrame.refl (s : RState) : BFrame s s := ⟨Frame.refl s, rfl, rfl⟩

theorem BFrame.trans {a b c : RState} (h1 : BFrame a b) (h2 : BFrame b c) : BFrame a c :=
  ⟨h1.1.trans h2.1, h2.2.1.trans h1.2.1, h2.2.2.trans h1.2.2⟩

/-! ### `rowFromBuffer`, `readUntilFound` in terms of `nextLine` -/

theorem rowFromBuffer_next (s : RState) (row : Str) (s1 : RState) (hst : PiecesNe s.stream)
    (h : rowFromBuffer s = (some row, s1)) :
    nextLine (pending s) = some (row, pending s1) ∧ BFrame s s1 := by
  unfold rowFromBuffer at h
  split at h
  · simp at h
  · rename_i before sep after he
    obtain ⟨hb, hnn, hsep⟩ := extractLine_some _ _ _ _ he
    split at h
    · rename_i hc
      obtain ⟨rfl, rfl⟩ := hc
      rcases hr : Stream.read 1 s.stream with ⟨one, st'⟩
      obtain ⟨r1, r2, r3, r4, r5⟩ := read_spec 1 (Nat.le_refl 1) _ hst _ _ hr
      rw [hr] at h
      simp only at h
      split at h
      · rename_i hone
        subst hone
        simp only [Prod.mk.injEq, Option.some.injEq] at h
        obtain ⟨rfl, rfl⟩ := h
        refine ⟨?_, BFrame.refl _⟩
        simp only [pending, List.nil_append]
        rw [← r1, hb]
        simp only [List.append_assoc, List.cons_append, List.nil_append, List.append_nil]
        exact nextLine_CRLF _ _ hnn
      · rename_i hone
        simp only [Prod.mk.injEq, Option.some.injEq] at h
        obtain ⟨rfl, rfl⟩ := h
        refine ⟨?_, BFrame.refl _⟩
        simp only [pending]
        rw [r1, hb]
        simp only [List.append_assoc, List.cons_append, List.nil_append, List.append_nil]
        apply nextLine_CR _ _ hnn
        rw [← r1]
        match one, hone, r5 with
        | [], _, _ => simp [r4 rfl]
        | [x], hone, _ => simpa using hone
        | _ :: _ :: _, _, r5 => simp at r5
    · rename_i hc
      simp only [Prod.mk.injEq, Option.some.injEq] at h
      obtain ⟨rfl, rfl⟩ := h
      refine ⟨?_, BFrame.refl _⟩
      simp only [pending]
      rw [hb]
      rcases hsep with rfl | rfl | ⟨rfl, hh⟩
      · simp only [List.append_assoc, List.cons_append, List.nil_append]
        exact nextLine_LF _ _ hnn
      · simp only [List.append_assoc, List.cons_append, List.nil_append]
        exact nextLine_CRLF _ _ hnn
      · simp only [List.append_assoc, List.cons_append, List.nil_append]
        apply nextLine_CR _ _ hnn
        cases after with
        | nil => exact absurd ⟨rfl, rfl⟩ hc
        | cons a as => simpa using hh

theorem readUntilFound_frame (c : RCfg) (s : RState) : BFrame s (readUntilFound c s) := by
  unfold readUntilFound
  split
  · exact BFrame.refl s
  · exact BFrame.refl _

/-! ### One step of `getRowSimple` as a function of the pending text -/

/-- what `getRowSimple` returns and leaves behind, from the pending text, `nl` and `bom` only:
(row, new pending text, new `nl`, new `bom`) -/
def specStep (e : Enc) (p : Str) (nl : Nat) (bom : Bool) : Option Str × Str × Nat × Bool :=
  match nextLine p with
  | none => (none, [], nl, bom)
  | some (row, rest) =>
    if nl = 0 then (some (removeBom e row), rest, 1, bom || decide (removeBom e row ≠ row))
    else (some row, rest, nl + 1, bom)

/-- the observable part of a step result -/
def stepObs (r : Option Str × RState) : Option Str × Str × Nat × Bool :=
  (r.1, pending r.2, r.2.nl, r.2.bom)

theorem finRow_next (c : RCfg) (s s1 : RState) (row : Str) (hinv : RInv c s1) (hf : BFrame s s1)
    (hn : nextLine (pending s) = some (row, pending s1)) :
    RInv c (finRow c.enc row s1).2 ∧ Frame s (finRow c.enc row s1).2 ∧
      stepObs (finRow c.enc row s1) = specStep c.enc (pending s) s.nl s.bom := by
  obtain ⟨hfr, hnl, hbom⟩ := hf
  simp only [specStep, hn]
  by_cases h0 : s.nl = 0
  · have h1 : s1.nl = 0 := by rw [hnl, h0]
    by_cases hc : removeBom c.enc row = row
    · simp only [finRow, h1, hc, h0, if_true, ne_eq, not_true_eq_false, if_false, stepObs]
      exact ⟨⟨hinv.chunk_pos, hinv.pieces_ne, hinv.exhausted_empty⟩, hfr,
        by simp [pending, hbom]⟩
    · simp only [finRow, h1, hc, h0, if_true, ne_eq, not_false_eq_true, stepObs]
      exact ⟨⟨hinv.chunk_pos, hinv.pieces_ne, hinv.exhausted_empty⟩, hfr,
        by simp [pending]⟩
  · have h1 : ¬ s1.nl = 0 := by rw [hnl]; exact h0
    simp only [finRow, Nat.add_eq_right, h1, h0, if_false, stepObs]
    exact ⟨⟨hinv.chunk_pos, hinv.pieces_ne, hinv.exhausted_empty⟩, hfr,
      by simp [pending, hnl, hbom]⟩

/-- `getRowSimple` is the function `specStep` of the pending text, `nl` and `bom`; it keeps the
invariant and does not touch the record-level fields. -/
theorem getRowSimple_spec (c : RCfg) (s : RState) (h : RInv c s) :
    RInv c (getRowSimple c s).2 ∧ Frame s (getRowSimple c s).2 ∧
      stepObs (getRowSimple c s) = specStep c.enc (pending s) s.nl s.bom := by
  rw [getRowSimple_eq]
  rcases h1 : rowFromBuffer s with ⟨_ | row, s1⟩
  · obtain ⟨rfl, hno⟩ := rowFromBuffer_none _ _ h1
    simp only
    obtain ⟨u1, u2, u3, u4⟩ := readUntilFound_spec c s1 h
    have u5 := readUntilFound_frame c s1
    generalize readUntilFound c s1 = s2 at u1 u2 u3 u4 u5 ⊢
    rcases h2 : rowFromBuffer s2 with ⟨_ | row, s3⟩
    · obtain ⟨hs, hno2⟩ := rowFromBuffer_none _ _ h2
      subst hs
      simp only
      have hst := u4 hno2
      have hp : pending s1 = s3.buffer := by rw [← u2]; simp [pending, hst]
      split
      · rename_i hb
        refine ⟨u1, u5.1, ?_⟩
        simp only [stepObs, specStep, hp, hb, nextLine_nil]
        simp [pending, hst, hb, u5.2.1, u5.2.2]
      · rename_i hb
        apply finRow_next
        · exact ⟨h.chunk_pos, u1.pieces_ne, u1.exhausted_empty⟩
        · exact u5
        · rw [hp]
          simp only [pending, hst, List.flatten_nil, List.append_nil]
          exact nextLine_noNL _ hno2 hb
    · simp only
      obtain ⟨r1, r2, r3, r4, r5, r6⟩ := rowFromBuffer_some _ _ _ u1.pieces_ne h2
      obtain ⟨n1, n2⟩ := rowFromBuffer_next _ _ _ u1.pieces_ne h2
      apply finRow_next
      · exact ⟨h.chunk_pos, r3, fun hx => r6 (u1.exhausted_empty (r4 ▸ hx))⟩
      · exact u5.trans n2
      · rw [← u2]; exact n1
  · simp only
    obtain ⟨r1, r2, r3, r4, r5, r6⟩ := rowFromBuffer_some _ _ _ h.pieces_ne h1
    obtain ⟨n1, n2⟩ := rowFromBuffer_next _ _ _ h.pieces_ne h1
    apply finRow_next
    · exact ⟨h.chunk_pos, r3, fun hx => r6 (h.exhausted_empty (r4 ▸ hx))⟩
    · exact n2
    · exact n1

/-! ### Simulation between two readers of the same text -/

/-- Two well-formed reader states, the first under `c`, the second under `c` with chunk size `k`,
that hold the same pending text and agree on every field except `stream`/`buffer`/`exhausted`. -/
structure Sim (c : RCfg) (k : Nat) (s1 s2 : RState) : Prop where
  inv1 : RInv c s1
  inv2 : RInv { c with chunk := k } s2
  pend : pending s1 = pending s2
  nl : s1.nl = s2.nl
  nr : s1.nr = s2.nr
  bom : s1.bom = s2.bom
  fd : s1.firstDefective = s2.firstDefective
  fi : s1.fieldsInfo = s2.fieldsInfo
  hh : s1.hasHeader = s2.hasHeader
  fr : s1.firstRecord = s2.firstRecord
  ef : s1.emitFirst = s2.emitFirst

theorem Sim.remaining {c : RCfg} {k : Nat} {s1 s2 : RState} (h : Sim c k s1 s2) :
    remaining s1 = remaining s2 := by
  rw [remaining_eq, remaining_eq, h.pend]

/-- closes `Sim c k u1 u2` when `u1`, `u2` are field updates of states related by `h` -/
macro "sim_close " h:ident : tactic => `(tactic| (
  have i1 := Sim.inv1 $h
  have i2 := Sim.inv2 $h
  have ip := Sim.pend $h
  have f1 := Sim.nl $h
  have f2 := Sim.nr $h
  have f3 := Sim.bom $h
  have f4 := Sim.fd $h
  have f5 := Sim.fi $h
  have f6 := Sim.hh $h
  have f7 := Sim.fr $h
  have f8 := Sim.ef $h
  refine ⟨⟨i1.chunk_pos, i1.pieces_ne, i1.exhausted_empty⟩,
    ⟨i2.chunk_pos, i2.pieces_ne, i2.exhausted_empty⟩, ip, ?_, ?_, ?_, ?_, ?_, ?_, ?_, ?_⟩ <;>
  first
  | rfl | exact f1 | exact f2 | exact f3 | exact f4 | exact f5 | exact f6 | exact f7 | exact f8))

/-- results with equal values and related states -/
theorem rel_intro {α : Type} {c : RCfg} {k : Nat} (r1 r2 : α × RState) (h1 : r1.1 = r2.1)
    (h2 : Sim c k r1.2 r2.2) : ∃ a t1 t2, r1 = (a, t1) ∧ r2 = (a, t2) ∧ Sim c k t1 t2 := by
  obtain ⟨a1, t1⟩ := r1
  obtain ⟨a2, t2⟩ := r2
  simp only at h1 h2
  subst h1
  exact ⟨a1, t1, t2, rfl, rfl, h2⟩

theorem getRowSimple_sim (c : RCfg) (k : Nat) (s1 s2 : RState) (h : Sim c k s1 s2) :
    ∃ a t1 t2, getRowSimple c s1 = (a, t1) ∧ getRowSimple { c with chunk := k } s2 = (a, t2) ∧
      Sim c k t1 t2 := by
  obtain ⟨i1, f1, o1⟩ := getRowSimple_spec c s1 h.inv1
  obtain ⟨i2, f2, o2⟩ := getRowSimple_spec { c with chunk := k } s2 h.inv2
  have ho : stepObs (getRowSimple c s1) = stepObs (getRowSimple { c with chunk := k } s2) := by
    rw [o1, o2, h.pend, h.nl, h.bom]
  simp only [stepObs, Prod.mk.injEq] at ho
  obtain ⟨e1, e2, e3, e4⟩ := ho
  obtain ⟨a1, a2, a3, a4, a5, a6⟩ := f1
  obtain ⟨b1, b2, b3, b4, b5, b6⟩ := f2
  apply rel_intro _ _ e1
  exact ⟨i1, i2, e2, e3, by rw [a1, b1, h.nr], e4, by rw [a2, b2, h.fd], by rw [a3, b3, h.fi],
    by rw [a4, b4, h.hh], by rw [a5, b5, h.fr], by rw [a6, b6, h.ef]⟩

theorem rfcLoop_sim (c : RCfg) (k : Nat) (fuel : Nat) (s1 s2 : RState) (rows : List Str)
    (h : Sim c k s1 s2) :
    ∃ a t1 t2, rfcLoop c fuel s1 rows = (a, t1) ∧
      rfcLoop { c with chunk := k } fuel s2 rows = (a, t2) ∧ Sim c k t1 t2 := by
  induction fuel generalizing s1 s2 rows with
  | zero => exact ⟨_, _, _, rfl, rfl, h⟩
  | succ fuel ih =>
    obtain ⟨a, t1, t2, e1, e2, hs⟩ := getRowSimple_sim c k s1 s2 h
    rw [rfcLoop, rfcLoop, e1, e2]
    cases a with
    | none => exact ⟨_, _, _, rfl, rfl, hs⟩
    | some row =>
      simp only
      by_cases hq : countQuotes row % 2 = 1
      · rw [if_pos hq, if_pos hq]
        exact ⟨_, _, _, rfl, rfl, hs⟩
      · rw [if_neg hq, if_neg hq]
        exact ih t1 t2 _ hs

theorem getRowRfc_eq (c : RCfg) (s : RState) :
    getRowRfc c s =
      match getRowSimple c s with
      | (none, s1) => (none, s1)
      | (some first, s1) =>
        if isComment c first then (some first, s1)
        else if countQuotes first % 2 = 0 then (some first, s1)
        else (some (rfcLoop c (remaining s1 + 1) s1 [first]).1,
          (rfcLoop c (remaining s1 + 1) s1 [first]).2) := rfl

theorem getRowRfc_sim (c : RCfg) (k : Nat) (s1 s2 : RState) (h : Sim c k s1 s2) :
    ∃ a t1 t2, getRowRfc c s1 = (a, t1) ∧ getRowRfc { c with chunk := k } s2 = (a, t2) ∧
      Sim c k t1 t2 := by
  obtain ⟨a, t1, t2, e1, e2, hs⟩ := getRowSimple_sim c k s1 s2 h
  rw [getRowRfc_eq, getRowRfc_eq, e1, e2]
  cases a with
  | none => exact ⟨_, _, _, rfl, rfl, hs⟩
  | some first =>
    simp only
    have hic : isComment { c with chunk := k } first = isComment c first := rfl
    rw [hic]
    cases isComment c first with
    | true => exact ⟨_, _, _, rfl, rfl, hs⟩
    | false =>
      simp only [Bool.false_eq_true, if_false]
      by_cases hq : countQuotes first % 2 = 0
      · rw [if_pos hq, if_pos hq]
        exact ⟨_, _, _, rfl, rfl, hs⟩
      · rw [if_neg hq, if_neg hq]
        obtain ⟨b, u1, u2, g1, g2, hu⟩ := rfcLoop_sim c k (remaining t1 + 1) t1 t2 [first] hs
        rw [← hs.remaining, g1, g2]
        exact ⟨_, _, _, rfl, rfl, hu⟩

theorem getRow_sim (c : RCfg) (k : Nat) (s1 s2 : RState) (h : Sim c k s1 s2) :
    ∃ a t1 t2, getRow c s1 = (a, t1) ∧ getRow { c with chunk := k } s2 = (a, t2) ∧
      Sim c k t1 t2 := by
  rw [getRow, getRow]
  by_cases hp : c.policy = .quotedRfc
  · rw [if_pos hp, if_pos hp]
    exact getRowRfc_sim c k s1 s2 h
  · rw [if_neg hp, if_neg hp]
    exact getRowSimple_sim c k s1 s2 h

theorem nextDataLine_sim (c : RCfg) (k : Nat) (fuel : Nat) (s1 s2 : RState) (h : Sim c k s1 s2) :
    ∃ a t1 t2, nextDataLine c fuel s1 = (a, t1) ∧
      nextDataLine { c with chunk := k } fuel s2 = (a, t2) ∧ Sim c k t1 t2 := by
  induction fuel generalizing s1 s2 with
  | zero => exact ⟨_, _, _, rfl, rfl, h⟩
  | succ fuel ih =>
    obtain ⟨a, t1, t2, e1, e2, hs⟩ := getRow_sim c k s1 s2 h
    rw [nextDataLine, nextDataLine, e1, e2]
    cases a with
    | none => exact ⟨_, _, _, rfl, rfl, hs⟩
    | some line =>
      simp only
      have hic : isComment { c with chunk := k } line = isComment c line := rfl
      rw [hic]
      cases isComment c line with
      | true => simpa using ih t1 t2 hs
      | false => exact ⟨_, _, _, rfl, rfl, hs⟩

/-! ### Record level (results in `Except`) -/

/-- same error, or equal values and related states -/
def RelExc {α : Type} (c : RCfg) (k : Nat) (r1 r2 : Except ReadErr (α × RState)) : Prop :=
  (∃ e, r1 = .error e ∧ r2 = .error e) ∨
  (∃ a t1 t2, r1 = .ok (a, t1) ∧ r2 = .ok (a, t2) ∧ Sim c k t1 t2)

theorem readRecord_sim (c : RCfg) (k : Nat) (s1 s2 : RState) (h : Sim c k s1 s2) :
    RelExc c k (readRecord c s1) (readRecord { c with chunk := k } s2) := by
  obtain ⟨a, t1, t2, e1, e2, hs⟩ := nextDataLine_sim c k (remaining s1 + 1) s1 s2 h
  rw [readRecord, readRecord, ← h.remaining, e1, e2]
  cases a with
  | none => exact Or.inr ⟨_, _, _, rfl, rfl, hs⟩
  | some line =>
    simp only
    rcases smartSplit c.delim c.policy false line with ⟨record, warning⟩
    simp only [hs.nr, hs.nl, hs.fd, hs.fi]
    by_cases hw : warning = true ∧ t2.firstDefective = none
    · rw [if_pos hw, if_pos hw]
      by_cases hp : c.policy = .quotedRfc
      · rw [if_pos hp, if_pos hp]
        exact Or.inl ⟨_, rfl, rfl⟩
      · rw [if_neg hp, if_neg hp]
        refine Or.inr ⟨_, _, _, rfl, rfl, ?_⟩
        sim_close hs
    · rw [if_neg hw, if_neg hw]
      refine Or.inr ⟨_, _, _, rfl, rfl, ?_⟩
      sim_close hs

theorem getRecord_sim (c : RCfg) (k : Nat) (s1 s2 : RState) (h : Sim c k s1 s2) :
    RelExc c k (getRecord c s1) (getRecord { c with chunk := k } s2) := by
  rw [getRecord, getRecord, h.ef, h.fr]
  cases t : s2.emitFirst with
  | true =>
    simp only [if_true]
    refine Or.inr ⟨_, _, _, rfl, rfl, ?_⟩
    sim_close h
  | false =>
    simp only [Bool.false_eq_true, if_false]
    exact readRecord_sim c k s1 s2 h

theorem allRecords_sim (c : RCfg) (k : Nat) (fuel : Nat) (s1 s2 : RState) (acc : List (List Str))
    (h : Sim c k s1 s2) :
    RelExc c k (allRecords c fuel s1 acc) (allRecords { c with chunk := k } fuel s2 acc) := by
  induction fuel generalizing s1 s2 acc with
  | zero => exact Or.inr ⟨_, _, _, rfl, rfl, h⟩
  | succ fuel ih =>
    rw [allRecords, allRecords]
    rcases getRecord_sim c k s1 s2 h with ⟨e, e1, e2⟩ | ⟨a, t1, t2, e1, e2, hs⟩
    · rw [e1, e2]
      exact Or.inl ⟨_, rfl, rfl⟩
    · rw [e1, e2]
      cases a with
      | none => exact Or.inr ⟨_, _, _, rfl, rfl, hs⟩
      | some r => exact ih t1 t2 _ hs

/-! ### Construction, modifier, whole run -/

theorem init_sim (c : RCfg) (k : Nat) (hc : 1 ≤ c.chunk) (hk : 1 ≤ k) (hasHeader : Bool)
    (p1 p2 : List Str) (h1 : ∀ p ∈ p1, p ≠ []) (h2 : ∀ p ∈ p2, p ≠ [])
    (hflat : p1.flatten = p2.flatten) :
    Sim c k { stream := p1, hasHeader := hasHeader } { stream := p2, hasHeader := hasHeader } :=
  ⟨⟨hc, h1, by simp⟩, ⟨hk, h2, by simp⟩, by simp [pending, hflat], rfl, rfl, rfl, rfl, rfl, rfl,
    rfl, rfl⟩

theorem initReader_sim (c : RCfg) (k : Nat) (hc : 1 ≤ c.chunk) (hk : 1 ≤ k) (hasHeader : Bool)
    (p1 p2 : List Str) (h1 : ∀ p ∈ p1, p ≠ []) (h2 : ∀ p ∈ p2, p ≠ [])
    (hflat : p1.flatten = p2.flatten) :
    (∃ e, initReader c hasHeader p1 = .error e ∧
      initReader { c with chunk := k } hasHeader p2 = .error e) ∨
    (∃ t1 t2, initReader c hasHeader p1 = .ok t1 ∧
      initReader { c with chunk := k } hasHeader p2 = .ok t2 ∧ Sim c k t1 t2) := by
  rw [initReader, initReader]
  rcases getRecord_sim c k _ _ (init_sim c k hc hk hasHeader p1 p2 h1 h2 hflat) with
    ⟨e, e1, e2⟩ | ⟨a, t1, t2, e1, e2, hs⟩
  · rw [e1, e2]
    exact Or.inl ⟨e, rfl, rfl⟩
  · rw [e1, e2]
    refine Or.inr ⟨_, _, rfl, rfl, ?_⟩
    sim_close hs

theorem handleModifier_sim (c : RCfg) (k : Nat) (m : Option Bool) (s1 s2 : RState)
    (h : Sim c k s1 s2) : Sim c k (handleModifier m s1) (handleModifier m s2) := by
  match m with
  | none => exact h
  | some true =>
    sim_close h
  | some false =>
    sim_close h

theorem getHeader_sim {c : RCfg} {k : Nat} {s1 s2 : RState} (h : Sim c k s1 s2) :
    getHeader s1 = getHeader s2 := by
  rw [getHeader, getHeader, h.hh, h.fr]

theorem readerWarnings_sim {c : RCfg} {k : Nat} {s1 s2 : RState} (h : Sim c k s1 s2) :
    readerWarnings s1 = readerWarnings s2 := by
  rw [readerWarnings, readerWarnings, h.bom, h.fd, h.fi]

/-- Header, records, warnings, or the error: everything `readAll` delivers depends only on the
concatenated text of the stream, not on its partition into pieces nor on the chunk size. -/
theorem readAll_content_only (c : RCfg) (chunk' : Nat) (hc : 1 ≤ c.chunk) (hc' : 1 ≤ chunk')
    (hasHeader : Bool) (modifier : Option Bool) (p1 p2 : List Str)
    (h1 : ∀ p ∈ p1, p ≠ []) (h2 : ∀ p ∈ p2, p ≠ []) (hflat : p1.flatten = p2.flatten) :
    readAll c hasHeader modifier p1 = readAll { c with chunk := chunk' } hasHeader modifier p2 := by
  rw [readAll, readAll]
  rcases initReader_sim c chunk' hc hc' hasHeader p1 p2 h1 h2 hflat with
    ⟨e, e1, e2⟩ | ⟨t1, t2, e1, e2, hs⟩
  · rw [e1, e2]; rfl
  · rw [e1, e2]
    have hm := handleModifier_sim c chunk' modifier t1 t2 hs
    simp only [bind, Except.bind]
    rw [hm.remaining, getHeader_sim hm]
    rcases allRecords_sim c chunk' (remaining (handleModifier modifier t2) + 2) _ _ [] hm with
      ⟨e, g1, g2⟩ | ⟨recs, u1, u2, g1, g2, hu⟩
    · rw [g1, g2]
    · rw [g1, g2]
      simp only [pure, Except.pure]
      rw [readerWarnings_sim hu]

end Rbql
