/-
  `translate_select_expression` on rendered select lists: the COUNT(*) rewrite, the alias rewrite and the star rewrites
  put together (helper lemmas for `Theorems/TranslateSelect.lean`).
-/
import Rbql.Proofs.TranslateStars
import Rbql.Proofs.TranslateCount
import Rbql.Proofs.TranslateAlias
import Rbql.Proofs.RfcAndWarnings
namespace Rbql

/-! ### admissible select lists -/

/-- a plain item is `PlainOk`, contains no `COUNT(*)` item and no ` AS name` tail; star items are always fine -/
def selItemOk : PItem → Bool
  | (_, .plain t, _) => PlainOk t && CountFree t && AliasFree (' ' :: t)
  | (_, .star _, _) => true

def SelOk (items : List PItem) : Prop := ∀ x ∈ items, selItemOk x = true

instance (items : List PItem) : Decidable (SelOk items) :=
  inferInstanceAs (Decidable (∀ x ∈ items, selItemOk x = true))

theorem SelOk.plainItemsOk {items : List PItem} (h : SelOk items) : PlainItemsOk items := by
  intro x hx
  obtain ⟨l, it, r⟩ := x
  have := h _ hx
  cases it with
  | star k => rfl
  | plain t =>
    simp only [selItemOk, Bool.and_eq_true] at this
    exact this.1.1

theorem countFree_renderItem (x : PItem) (h : selItemOk x = true) : CountFree (renderItem x) = true := by
  obtain ⟨l, it, r⟩ := x
  cases it with
  | star k =>
    cases k
    · exact countFree_star_padded l r
    · exact countFree_aStar_padded l r
    · exact countFree_bStar_padded l r
  | plain t =>
    simp only [selItemOk, Bool.and_eq_true] at h
    exact countFree_padded l r t h.1.2

theorem aliasFree_renderItem (x : PItem) (h : selItemOk x = true) : AliasFree (renderItem x) = true := by
  obtain ⟨l, it, r⟩ := x
  cases it with
  | star k =>
    cases k
    · exact aliasFree_star l r
    · exact aliasFree_a_star l r
    · exact aliasFree_b_star l r
  | plain t =>
    simp only [selItemOk, Bool.and_eq_true] at h
    exact aliasFree_padded l r t h.2

theorem SelOk.zeroL {items : List PItem} (h : SelOk items) : SelOk (zeroL items) := by
  cases items with
  | nil => exact h
  | cons x xs =>
    obtain ⟨l, it, r⟩ := x
    intro y hy
    simp only [Rbql.zeroL, List.mem_cons] at hy
    rcases hy with rfl | hy
    · have := h (l, it, r) (by simp)
      cases it <;> simp [selItemOk] at this ⊢ <;> exact this
    · exact h y (by simp [hy])

theorem SelOk.zeroR {items : List PItem} (h : SelOk items) : SelOk (zeroR items) := by
  induction items with
  | nil => exact h
  | cons x xs ih =>
    cases xs with
    | nil =>
      obtain ⟨l, it, r⟩ := x
      intro y hy
      simp only [Rbql.zeroR, List.mem_singleton] at hy
      subst hy
      have := h (l, it, r) (by simp)
      cases it <;> simp [selItemOk] at this ⊢ <;> exact this
    | cons y ys =>
      intro z hz
      simp only [Rbql.zeroR, List.mem_cons] at hz
      rcases hz with rfl | hz
      · exact h _ (by simp)
      · exact ih (fun w hw => h w (List.mem_cons_of_mem _ hw)) z (by simpa [Rbql.zeroR] using hz)

theorem SelOk.trimEnds {items : List PItem} (h : SelOk items) : SelOk (trimEnds items) := h.zeroL.zeroR

theorem trimEnds_ne_nil {items : List PItem} (h : items ≠ []) : trimEnds items ≠ [] := by
  cases items with
  | nil => exact absurd rfl h
  | cons x xs =>
    obtain ⟨r', rest, e⟩ := zeroR_cons (0, x.2.1, x.2.2) xs
    simp [trimEnds, zeroL, e]

/-! ### the rewrites before the star rewrites leave an admissible list alone -/

theorem replaceStarCountRaw_renderSel (items : List PItem) (h : SelOk items) :
    replaceStarCountRaw 0 true (renderSel items) = renderSel items :=
  replaceStarCountRaw_noop _ (by
    intro t ht
    obtain ⟨x, hx, rfl⟩ := List.mem_map.mp ht
    exact countFree_renderItem x (h x hx))

theorem subAsAlias_renderSel (py : Bool) (repl : Str → Str) (items : List PItem) (h : SelOk items) :
    subAsAlias py repl 0 (renderSel items) = renderSel items :=
  subAsAlias_noop py repl _ (by
    intro t ht
    obtain ⟨x, hx, rfl⟩ := List.mem_map.mp ht
    exact aliasFree_renderItem x (h x hx))

theorem headNot_space_of_py {w : Str} (h : HeadNot isPyWsU w) : HeadNot (· == ' ') w := by
  obtain ⟨c, w', rfl, hc⟩ := h
  refine ⟨c, w', rfl, ?_⟩
  cases hcs : (c == ' ')
  · exact hcs
  · have : c = ' ' := by simpa using hcs
    subst this
    simp [isPyWsU_space] at hc

theorem renderSel_zeroL_headNot {p : Char → Bool} (hp : BlankSet p) (items : List PItem) (hne : items ≠ [])
    (h : headOk p items = true) : HeadNot p (renderSel (zeroL items)) := by
  cases items with
  | nil => exact absurd rfl hne
  | cons x xs =>
    obtain ⟨l, it, r⟩ := x
    simp only [zeroL, renderSel, List.map_cons, commaJoin, renderItem, spaces_zero, List.nil_append, List.append_assoc]
    exact (text_headNot hp l r it xs h).append _

theorem dropSpaces_renderSel (items : List PItem) (hne : items ≠ []) (h : headOk (· == ' ') items = true) :
    (renderSel items).dropWhile (· == ' ') = renderSel (zeroL items) := by
  rw [renderSel_zeroL items, dropWhile_spaces_append _ (by decide)]
  exact dropWhile_headNot _ _ (renderSel_zeroL_headNot blankSet_js items hne h)

theorem headOk_space_of_py (items : List PItem) (h : headOk isPyWsU items = true) : headOk (· == ' ') items = true := by
  cases items with
  | nil => rfl
  | cons x xs =>
    obtain ⟨l, it, r⟩ := x
    cases it with
    | star k => rfl
    | plain t =>
      cases t with
      | nil => simp [headOk] at h
      | cons c cs =>
        simp only [headOk, Bool.not_eq_true'] at h ⊢
        cases hcs : (c == ' ')
        · rfl
        · have : c = ' ' := by simpa using hcs
          subst this
          simp [isPyWsU_space] at h

/-! ### `translate_select_expression`, Python -/

theorem translateSelectPy_renderSel (items : List PItem) (hne : items ≠ []) (hok : SelOk items)
    (hh : headOk isPyWsU items = true) (hl : lastOk isPyWsU items = true) :
    translateSelectPy (renderSel items)
      = .ok ('[' :: pyStripU (canonStars starReplPy items) ++ [']'], pyStripU (commaJoin (items.map markItem))) := by
  have e0 : replaceStarCountPy (renderSel items) = renderSel (zeroL items) := by
    rw [replaceStarCountPy, replaceStarCountRaw_renderSel items hok]
    exact dropSpaces_renderSel items hne (headOk_space_of_py items hh)
  have e1 : pyStripU (renderSel (zeroL items)) = renderSel (trimEnds items) := by
    have : pyStripU (renderSel (zeroL items)) = pyStripU (renderSel items) := by
      rw [renderSel_zeroL items]
      have := stripBy_spaces isPyWsU isPyWsU_space (firstPad items) 0 (renderSel (zeroL items))
      simpa [pyStripU] using this.symm
    rw [this]
    exact stripBy_renderSel blankSet_py items hne hh hl
  have hp := hok.trimEnds.plainItemsOk
  have e2 : pyStripU (canonStars starReplPy (trimEnds items)) = pyStripU (canonStars starReplPy items) :=
    stripBy_canonStars_trimEnds isPyWsU isPyWsU_space starReplPy items
  have e3 : pyStripU (commaJoin ((trimEnds items).map markItem)) = pyStripU (commaJoin (items.map markItem)) :=
    stripBy_markJoin_trimEnds isPyWsU isPyWsU_space items
  have hne' : pyStripU (canonStars starReplPy items) ≠ [] := by
    rw [← e2]
    exact stripBy_ne_nil _ _ (canonStars_trimEnds_headNot blankSet_py starReplPy (starReplPy_headNot blankSet_py) items hne hh)
  unfold translateSelectPy
  simp only [e0, subAsAlias_renderSel true _ (zeroL items) hok.zeroL, e1]
  rw [replaceStarVars_canonical_aux false _ hp, replaceStarVarsMarker_canonical_aux false _ hp]
  simp only [Bool.false_eq_true, if_false, e2, e3]
  cases hc : pyStripU (canonStars starReplPy items) with
  | nil => exact absurd hc hne'
  | cons c cs => simp

/-! ### `translate_select_expression`, JavaScript -/

theorem translateSelectJs_renderSel (items : List PItem) (hne : items ≠ []) (hok : SelOk items)
    (hh : headOk (· == ' ') items = true) (hl : lastOk (· == ' ') items = true) :
    translateSelectJs (renderSel items)
      = .ok ("[].concat([".toList ++ jsStrStrip (canonStars starReplJs items) ++ "])".toList,
             jsStrStrip (commaJoin (items.map markItem))) := by
  have e0 : replaceStarCountJs (renderSel items) = renderSel (trimEnds items) := by
    rw [replaceStarCountJs, replaceStarCountRaw_renderSel items hok]
    exact stripBy_renderSel blankSet_js items hne hh hl
  have hp := hok.trimEnds.plainItemsOk
  have e2 : jsStrStrip (canonStars starReplJs (trimEnds items)) = jsStrStrip (canonStars starReplJs items) :=
    stripBy_canonStars_trimEnds (· == ' ') (by decide) starReplJs items
  have e3 : jsStrStrip (commaJoin ((trimEnds items).map markItem)) = jsStrStrip (commaJoin (items.map markItem)) :=
    stripBy_markJoin_trimEnds (· == ' ') (by decide) items
  have hne' : jsStrStrip (canonStars starReplJs items) ≠ [] := by
    rw [← e2]
    exact stripBy_ne_nil _ _ (canonStars_trimEnds_headNot blankSet_js starReplJs (starReplJs_headNot blankSet_js) items hne hh)
  unfold translateSelectJs
  simp only [e0, subAsAlias_renderSel false _ (trimEnds items) hok.trimEnds]
  rw [replaceStarVars_canonical_aux true _ hp, replaceStarVarsMarker_canonical_aux true _ hp]
  simp only [if_true, e2, e3]
  cases hc : jsStrStrip (canonStars starReplJs items) with
  | nil => exact absurd hc hne'
  | cons c cs => simp


/-! ### COUNT(*) items in a select list -/

/-- a select item that may also be `COUNT(*)` (`w` = `COUNT(` in some letter case, inner paddings `i1`, `i2`) -/
inductive CSelItem
  | count (w : Str) (i1 i2 : Nat)
  | item (it : SelItem)

abbrev CPItem := Nat × CSelItem × Nat

def renderC : CPItem → Str
  | (l, .count w i1 i2, r) => spaces l ++ w ++ spaces i1 ++ '*' :: spaces i2 ++ ')' :: spaces r
  | (l, .item it, r) => renderItem (l, it, r)

/-- `COUNT(*)` with its left padding becomes ` COUNT(1)`: the plain item `COUNT(1)` with one space before it -/
def countToOne : CPItem → PItem
  | (_, .count _ _ _, r) => (1, .plain "COUNT(1)".toList, r)
  | (l, .item it, r) => (l, it, r)

def cselItemOk : CPItem → Bool
  | (_, .count w _ _, _) => w.length == 6 && ciPrefix "COUNT(".toList w
  | (_, .item (.plain t), _) => CountFree t
  | (_, .item (.star _), _) => true

def toCItem : CPItem → CItem
  | (l, .count w i1 i2, r) => .count l w i1 i2 (spaces r)
  | (l, .item it, r) => .other (renderItem (l, it, r))

theorem toCItem_render (x : CPItem) : (toCItem x).render = renderC x := by
  obtain ⟨l, it, r⟩ := x
  cases it <;> simp only [toCItem, CItem.render, renderC]

theorem toCItem_out (x : CPItem) : (toCItem x).out = renderItem (countToOne x) := by
  obtain ⟨l, it, r⟩ := x
  cases it with
  | count w i1 i2 =>
    have h1 : (toCItem (l, .count w i1 i2, r)).out = " COUNT(1)".toList ++ spaces r := rfl
    have h2 : renderItem (countToOne (l, .count w i1 i2, r)) = spaces 1 ++ "COUNT(1)".toList ++ spaces r := rfl
    have e : " COUNT(1)".toList = ' ' :: "COUNT(1)".toList := by decide
    rw [h1, h2, e]
    generalize "COUNT(1)".toList = q
    simp [spaces]
  | item it => rfl

theorem countFree_renderItem' (l r : Nat) (it : SelItem) (h : cselItemOk (l, .item it, r) = true) :
    CountFree (renderItem (l, it, r)) = true := by
  cases it with
  | star k =>
    cases k
    · exact countFree_star_padded l r
    · exact countFree_aStar_padded l r
    · exact countFree_bStar_padded l r
  | plain t => exact countFree_padded l r t h

theorem toCItem_ok (x : CPItem) (h : cselItemOk x = true) : (toCItem x).Ok = true := by
  obtain ⟨l, it, r⟩ := x
  cases it with
  | count w i1 i2 =>
    simp only [toCItem, CItem.Ok, Bool.and_eq_true]
    exact ⟨by simpa [cselItemOk] using h, countFreeTail_spaces r⟩
  | item it => exact countFree_renderItem' l r it h

theorem countFree_countToOne (x : CPItem) (h : cselItemOk x = true) : CountFree (renderItem (countToOne x)) = true := by
  obtain ⟨l, it, r⟩ := x
  cases it with
  | count w i1 i2 => exact countFree_padded 1 r "COUNT(1)".toList (by decide)
  | item it => exact countFree_renderItem' l r it h

/-- the `COUNT(*)` items (with their left padding) become ` COUNT(1)`, nothing else changes -/
theorem replaceStarCountRaw_select (items : List CPItem) (h : ∀ x ∈ items, cselItemOk x = true) :
    replaceStarCountRaw 0 true (commaJoin (items.map renderC)) = renderSel (items.map countToOne) := by
  have := replaceStarCountRaw_items (items.map toCItem) (by
    intro x hx
    obtain ⟨y, hy, rfl⟩ := List.mem_map.mp hx
    exact toCItem_ok y (h y hy))
  simp only [List.map_map] at this
  have e1 : (CItem.render ∘ toCItem) = renderC := funext toCItem_render
  have e2 : (CItem.out ∘ toCItem) = renderItem ∘ countToOne := funext toCItem_out
  rw [e1, e2] at this
  rw [this, renderSel, List.map_map]

theorem replaceStarCountRaw_countToOne (items : List CPItem) (h : ∀ x ∈ items, cselItemOk x = true) :
    replaceStarCountRaw 0 true (renderSel (items.map countToOne)) = renderSel (items.map countToOne) :=
  replaceStarCountRaw_noop _ (by
    intro t ht
    simp only [List.map_map, List.mem_map, Function.comp] at ht
    obtain ⟨x, hx, rfl⟩ := ht
    exact countFree_countToOne x (h x hx))

theorem translateSelectPy_congr (s s' : Str) (h : replaceStarCountRaw 0 true s = replaceStarCountRaw 0 true s') :
    translateSelectPy s = translateSelectPy s' := by
  unfold translateSelectPy replaceStarCountPy
  rw [h]

theorem translateSelectJs_congr (s s' : Str) (h : replaceStarCountRaw 0 true s = replaceStarCountRaw 0 true s') :
    translateSelectJs s = translateSelectJs s' := by
  unfold translateSelectJs replaceStarCountJs
  rw [h]

/-! ### empty select lists -/

theorem replaceStarCountRaw_spaces (n : Nat) (b : Bool) : replaceStarCountRaw 0 b (spaces n) = spaces n := by
  have := replaceStarCountRaw_quiet (spaces n) [] b (countFreeTail_spaces n) (Or.inl rfl)
    (fun _ => countStarItem_of_no_star _ (by simp [spaces]))
  simpa [replaceStarCountRaw] using this

theorem dropWhile_spaces (p : Char → Bool) (hp : p ' ' = true) (n : Nat) : (spaces n).dropWhile p = [] := by
  have := dropWhile_spaces_append p hp n []
  simpa using this

theorem translateSelectPy_spaces (n : Nat) : translateSelectPy (spaces n) = .error .emptySelect := by
  have e0 : replaceStarCountPy (spaces n) = [] := by
    rw [replaceStarCountPy, replaceStarCountRaw_spaces]
    exact dropWhile_spaces _ (by decide) n
  simp [translateSelectPy, e0, subAsAlias, pyStripU, stripBy, replaceStarVars, starMatches, assembleStars]

theorem translateSelectJs_spaces (n : Nat) : translateSelectJs (spaces n) = .error .emptySelect := by
  have e0 : replaceStarCountJs (spaces n) = [] := by
    rw [replaceStarCountJs, replaceStarCountRaw_spaces, jsStrStrip, stripBy, dropWhile_spaces _ (by decide) n]
    rfl
  simp [translateSelectJs, e0, subAsAlias, jsStrStrip, stripBy, replaceStarVars, starMatches, assembleStars]

/-! ### comma-separated items -/

theorem splitOn_commaJoin (xs : List Str) (hne : xs ≠ []) (h : ∀ x ∈ xs, ',' ∉ x) :
    splitOn [','] (commaJoin xs) = xs := by
  induction xs with
  | nil => exact absurd rfl hne
  | cons x xs ih =>
    induction x with
    | nil =>
      cases xs with
      | nil => simpa [commaJoin, commaTail] using splitOn_single_nil ','
      | cons y ys =>
        have := ih (by simp) (fun z hz => h z (List.mem_cons_of_mem _ hz))
        simp only [commaJoin, commaTail, List.nil_append, List.cons_append] at this ⊢
        rw [splitOn_single_cons_eq, this]
    | cons c cs ihc =>
      have hc : c ≠ ',' := by
        intro e
        exact h (c :: cs) (by simp) (by simp [e])
      have := ihc (by simp) (by
        intro z hz
        rcases List.mem_cons.mp hz with rfl | hz
        · intro hm; exact h (c :: z) (by simp) (List.mem_cons_of_mem _ hm)
        · exact h z (List.mem_cons_of_mem _ hz))
      simp only [commaJoin, List.cons_append] at this ⊢
      exact splitOn_single_cons_ne ',' c _ _ _ hc this

/-- no plain text contains a comma -/
def noCommaItem : PItem → Bool
  | (_, .plain t, _) => !t.contains ','
  | (_, .star _, _) => true

theorem markItem_noComma (x : PItem) (h : noCommaItem x = true) : ',' ∉ markItem x := by
  obtain ⟨l, it, r⟩ := x
  cases it with
  | star k =>
    have : ∀ k, ',' ∉ starMarker k := by intro k; cases k <;> decide
    exact this k
  | plain t =>
    simp only [noCommaItem, Bool.not_eq_true', List.contains_eq_mem, decide_eq_false_iff_not] at h
    simp [markItem, spaces, h]

end Rbql
