/-
  Round trip of the CSV dialect: what the writer writes, the splitter reads back
  (line level: `quote_field` + join vs. `split_quoted_str` / `split`; file level: rows followed by
  a line separator vs. the reader's physical-row specification `linesSpec`).
-/
import Rbql.Theorems.C11
import Rbql.Model.Writer
import Rbql.Proofs.ReaderPyLines
namespace Rbql

/-! ### Raw (unquoted) fields -/

/-- a field that is written raw (unquoted) reads back iff the delimiter's first occurrence in `f ++ d` is at `|f|`
    (for a one-character delimiter: the field does not contain it) -/
def RawOk (d f : Str) : Prop := (findD d (f ++ d)).1 = f

theorem rawOk_single (c : Char) (f : Str) (h : c ∉ f) : RawOk [c] f := by
  unfold RawOk
  induction f with
  | nil => simp [findD]
  | cons a as ih =>
    have hne : ¬ c = a := by intro e; apply h; simp [e]
    have := ih (fun hm => h (by simp [hm]))
    simp [findD, List.isPrefixOf, hne, this]

/-- a field as `quote_field` needs it: if it is written raw it is RawOk -/
def FieldOk (d f : Str) : Prop := (QUOTE ∉ f ∧ containsD d f = false) → RawOk d f

theorem RawOk.firstOcc {d f : Str} (hd : d ≠ []) (h : RawOk d f) : FirstOcc d (f ++ d) f [] := by
  unfold RawOk at h
  rcases hfd : findD d (f ++ d) with ⟨b, o⟩
  rw [hfd] at h
  simp only at h
  subst h
  cases o with
  | none =>
    exact absurd (by simp) (((findD_none d hd _ _).mp hfd).2 b [])
  | some r =>
    have hfo := (findD_some d hd _ _ _).mp hfd
    have : r = [] := by
      have := congrArg List.length hfo.1
      simp only [List.length_append] at this
      exact List.eq_nil_of_length_eq_zero (by omega)
    subst this
    exact hfo

/-- an occurrence of `d` that starts inside `f` lies entirely inside `f ++ d` -/
theorem RawOk.firstOcc_append {d f : Str} (hd : d ≠ []) (h : RawOk d f) (r : Str) :
    FirstOcc d (f ++ d ++ r) f r := by
  have hfo := h.firstOcc hd
  refine ⟨rfl, ?_⟩
  intro b' r' hb'
  by_cases hlt : f.length ≤ b'.length
  · exact hlt
  · exfalso
    have hb2 : (f ++ d) ++ r = (b' ++ d) ++ r' := hb'
    rcases List.append_eq_append_iff.mp hb2 with ⟨a', h1, h2⟩ | ⟨c', h1, h2⟩
    · have hl := congrArg List.length h1
      simp at hl
      omega
    · have := hfo.2 b' c' h1
      omega

theorem RawOk.noOcc {d f : Str} (hd : d ≠ []) (h : RawOk d f) : NoOcc d f := by
  intro b' r' hb'
  have hfo := h.firstOcc hd
  have := hfo.2 b' (r' ++ d) (by rw [hb']; simp)
  have hl := congrArg List.length hb'
  have hdl : 0 < d.length := List.length_pos_iff.mpr hd
  simp at hl
  omega

theorem containsD_false_iff (d : Str) (hd : d ≠ []) (f : Str) : containsD d f = false ↔ NoOcc d f := by
  unfold containsD
  rcases hfd : findD d f with ⟨b, o⟩
  cases o with
  | none => simpa using ((findD_none d hd f b).mp hfd).2
  | some r =>
    have hfo := (findD_some d hd f b r).mp hfd
    simp only [Option.isSome_some, Bool.true_eq_false, false_iff]
    intro hno
    exact hno b r hfo.1

theorem escapeQ_of_noQuote (f : Str) (h : QUOTE ∉ f) : escapeQ f = f := by
  induction f with
  | nil => rfl
  | cons a as ih =>
    have hne : a ≠ QUOTE := by intro e; apply h; simp [e]
    simp [escapeQ, hne, ih (fun hm => h (by simp [hm]))]

theorem joinD_cons_cons (d f g : Str) (l : List Str) : joinD d (f :: g :: l) = f ++ d ++ joinD d (g :: l) := rfl

theorem quoteField_eq_nil (d f : Str) (h : quoteField d f = []) : f = [] := by
  unfold quoteField at h
  split at h
  · simp at h
  · split at h
    · simp at h
    · exact h

/-! ### One written field is one field of the dialect -/

/-- a text without quote, followed by the end of the line or by a delimiter, does not start with a quoted field -/
theorem no_quotedAt_raw {d : Str} {ws : Bool} (g : GoodDelim d ws) (f t : Str) (hq : QUOTE ∉ f)
    (ht : t = [] ∨ ∃ r, t = d ++ r) :
    ¬ ∃ x r0, QuotedAt ws (f ++ t) x r0 ∧ (r0 = [] ∨ ∃ t', r0 = d ++ t') := by
  rintro ⟨x, r0, hQ, _⟩
  rcases ht with rfl | ⟨r, rfl⟩
  · obtain ⟨sp1, sp2, _, _, _, hs⟩ := hQ
    apply hq
    simp only [List.append_nil] at hs
    rw [hs]; simp
  · exact hq (quote_in_prefix g (f ++ (d ++ r)) x r0 f r hQ (by simp))

theorem quotedAt_written (ws : Bool) (f t : Str) : QuotedAt ws (QUOTE :: escapeQ f ++ [QUOTE] ++ t) f t :=
  ⟨[], [], fun _ => ⟨rfl, rfl⟩, by simp [AllSpaces], by simp [AllSpaces], by simp⟩

theorem fieldAt_written_end {d : Str} {ws : Bool} (g : GoodDelim d ws) (f : Str) :
    FieldAt d ws (quoteField d f) f false none := by
  unfold quoteField
  by_cases hq : QUOTE ∈ f
  · have : f.contains QUOTE = true := by simpa using hq
    simp only [this, if_true]
    have := quotedAt_written ws f []
    simp only [List.append_nil] at this
    exact FieldAt.quotedEnd f this
  · have hc : f.contains QUOTE = false := by simpa using hq
    simp only [hc, Bool.false_eq_true, if_false]
    by_cases hcd : containsD d f = true
    · simp only [hcd, if_true]
      have := quotedAt_written ws f []
      rw [escapeQ_of_noQuote f hq] at this
      simp only [List.append_nil] at this
      exact FieldAt.quotedEnd f this
    · simp only [hcd]
      have hcd' : containsD d f = false := by simpa using hcd
      have hno := (containsD_false_iff d g.ne f).mp hcd'
      have hn := no_quotedAt_raw g f [] hq (Or.inl rfl)
      simp only [List.append_nil] at hn
      have := FieldAt.plainEnd hn hno
      rw [hc] at this
      exact this

theorem fieldAt_written_delim {d : Str} {ws : Bool} (g : GoodDelim d ws) (f r : Str) (hok : FieldOk d f) :
    FieldAt d ws (quoteField d f ++ d ++ r) f false (some r) := by
  unfold quoteField
  by_cases hq : QUOTE ∈ f
  · have : f.contains QUOTE = true := by simpa using hq
    simp only [this, if_true]
    have := quotedAt_written ws f (d ++ r)
    simp only [← List.append_assoc] at this ⊢
    exact FieldAt.quotedDelim f r this
  · have hc : f.contains QUOTE = false := by simpa using hq
    simp only [hc, Bool.false_eq_true, if_false]
    by_cases hcd : containsD d f = true
    · simp only [hcd, if_true]
      have := quotedAt_written ws f (d ++ r)
      rw [escapeQ_of_noQuote f hq] at this
      simp only [← List.append_assoc] at this ⊢
      exact FieldAt.quotedDelim f r this
    · simp only [hcd]
      have hcd' : containsD d f = false := by simpa using hcd
      have hraw := hok ⟨hq, hcd'⟩
      have hn := no_quotedAt_raw g f (d ++ r) hq (Or.inr ⟨r, rfl⟩)
      simp only [← List.append_assoc] at hn
      have := FieldAt.plainDelim f r hn (hraw.firstOcc_append g.ne r)
      rw [hc] at this
      exact this

/-- the written line parses, in the dialect, as the fields that were written, without warning -/
theorem parses_written {d : Str} {ws : Bool} (g : GoodDelim d ws) (fs : List Str) (hne : fs ≠ [])
    (hok : ∀ f ∈ fs, FieldOk d f) :
    Parses d ws (joinD d (fs.map (quoteField d))) fs false := by
  induction fs with
  | nil => exact absurd rfl hne
  | cons f rest ih =>
    cases rest with
    | nil =>
      simp only [List.map, joinD]
      exact Parses.last _ f false (fieldAt_written_end g f)
    | cons f2 rest2 =>
      have hf := hok f (by simp)
      have ih' := ih (by simp) (fun x hx => hok x (by simp [hx]))
      simp only [List.map_cons, joinD_cons_cons] at ih' ⊢
      by_cases hempty : joinD d (quoteField d f2 :: rest2.map (quoteField d)) = []
      · cases rest2 with
        | nil =>
          simp only [List.map_nil, joinD] at hempty
          have hf2 := quoteField_eq_nil d f2 hempty
          subst hf2
          rw [List.map_nil, hempty]
          exact Parses.trailing _ f false (fieldAt_written_delim g f [] hf)
        | cons f3 rest3 =>
          exfalso
          simp only [List.map_cons, joinD_cons_cons] at hempty
          have := congrArg List.length hempty
          have hdl : 0 < d.length := List.length_pos_iff.mpr g.ne
          simp only [List.length_append, List.length_nil] at this
          omega
      · have := Parses.more _ f false _ (f2 :: rest2) false (fieldAt_written_delim g f _ hf) hempty ih'
        simpa using this

/-! ### Line level -/

/-- quoted policy, one line: splitting the written line returns the fields, without warning -/
theorem line_roundtrip_quoted {d : Str} {ws : Bool} (g : GoodDelim d ws) (fs : List Str) (hne : fs ≠ [])
    (hok : ∀ f ∈ fs, FieldOk d f) :
    splitFrom d ws false (joinD d (fs.map (quoteField d))) = (fs, false) :=
  C11_split_complete g _ fs false (parses_written g fs hne hok)

/-- and through the public entry point (with its no-quote fast path), `ws` being what the code computes -/
theorem line_roundtrip_quoted_str {d : Str} (g : GoodDelim d (d != [SPACE])) (fs : List Str) (hne : fs ≠ [])
    (hok : ∀ f ∈ fs, FieldOk d f) :
    splitQuotedStr d false (joinD d (fs.map (quoteField d))) = (fs, false) := by
  have h := line_roundtrip_quoted g fs hne hok
  unfold splitQuotedStr
  split
  · exact h
  · rename_i hc
    have hq : QUOTE ∉ joinD d (fs.map (quoteField d)) := by simpa using hc
    rw [C11_fast_path g false _ hq] at h
    exact h

theorem splitOn_none (d s b : Str) (h : findD d s = (b, none)) : splitOn d s = [b] := by
  rw [splitOn]
  split
  · rename_i b' heq
    rw [h] at heq
    simp only [Prod.mk.injEq] at heq
    rw [heq.1]
  · rename_i b' r' heq
    rw [h] at heq
    simp at heq

theorem splitOn_some (d s b r : Str) (hd : d ≠ []) (h : findD d s = (b, some r)) :
    splitOn d s = b :: splitOn d r := by
  have hlen := findD_rest_length d s b r h
  have hdl : 0 < d.length := List.length_pos_iff.mpr hd
  rw [splitOn]
  split
  · rename_i b' heq
    rw [h] at heq
    simp at heq
  · rename_i b' r' heq
    rw [h] at heq
    simp only [Prod.mk.injEq, Option.some.injEq] at heq
    obtain ⟨rfl, rfl⟩ := heq
    have hlt : r.length < s.length := by omega
    simp only [hlt, dite_true]

/-- simple policy -/
theorem line_roundtrip_simple (d : Str) (hd : d ≠ []) (fs : List Str) (hne : fs ≠ []) (hok : ∀ f ∈ fs, RawOk d f) :
    splitOn d (joinD d fs) = fs := by
  induction fs with
  | nil => exact absurd rfl hne
  | cons f rest ih =>
    have hf := hok f (by simp)
    cases rest with
    | nil =>
      simp only [joinD]
      exact splitOn_none d f f ((findD_none d hd f f).mpr ⟨rfl, hf.noOcc hd⟩)
    | cons f2 rest2 =>
      rw [joinD_cons_cons]
      rw [splitOn_some d _ f _ hd ((findD_some d hd _ _ _).mpr (hf.firstOcc_append hd _))]
      rw [ih (by simp) (fun x hx => hok x (by simp [hx]))]

/-! ### The writer's warning test for the simple policy -/

theorem findD_single_cons_ne (c a : Char) (s : Str) (h : a ≠ c) :
    findD [c] (a :: s) = (a :: (findD [c] s).1, (findD [c] s).2) := by
  have hne : ¬ c = a := fun e => h e.symm
  simp [findD, List.isPrefixOf, hne]

theorem findD_single_cons_eq (c : Char) (s : Str) : findD [c] (c :: s) = ([], some s) := by
  simp [findD, List.isPrefixOf]

theorem splitOn_single_length (c : Char) (s : Str) : (splitOn [c] s).length = s.count c + 1 := by
  induction s with
  | nil => rw [splitOn_none [c] [] [] (by simp [findD])]; simp
  | cons a s ih =>
    by_cases h : a = c
    · subst h
      rw [splitOn_some [a] _ [] s (by simp) (findD_single_cons_eq a s)]
      simp [ih]
    · have hf := findD_single_cons_ne c a s h
      rcases hfd : findD [c] s with ⟨b, o⟩
      rw [hfd] at hf
      have hcnt : (a :: s).count c = s.count c := by simp [h]
      cases o with
      | none =>
        rw [splitOn_none _ _ _ hf, hcnt, ← ih, splitOn_none _ _ _ hfd]
        simp
      | some r =>
        rw [splitOn_some _ _ _ _ (by simp) hf, hcnt, ← ih, splitOn_some _ _ _ _ (by simp) hfd]
        simp

/-- for a one-character delimiter `s.count(d)` counts the character -/
theorem countD_single (c : Char) (s : Str) : countD [c] s = s.count c := by
  simp [countD, splitOn_single_length]

theorem count_joinD_single (c : Char) (fs : List Str) (hne : fs ≠ []) :
    (joinD [c] fs).count c + 1 = fs.length + (fs.map (List.count c)).sum := by
  induction fs with
  | nil => exact absurd rfl hne
  | cons f rest ih =>
    cases rest with
    | nil => simp [joinD]; omega
    | cons f2 rest2 =>
      have := ih (by simp)
      rw [joinD_cons_cons]
      simp only [List.count_append, List.count_singleton_self, List.length_cons, List.map_cons,
        List.sum_cons] at this ⊢
      omega

theorem sum_count_pos (c : Char) (fs : List Str) (h : ∃ f ∈ fs, c ∈ f) :
    0 < (fs.map (List.count c)).sum := by
  induction fs with
  | nil => obtain ⟨f, hf, _⟩ := h; simp at hf
  | cons g rest ih =>
    obtain ⟨f, hf, hc⟩ := h
    simp only [List.map_cons, List.sum_cons]
    rcases List.mem_cons.mp hf with rfl | hf
    · have := List.count_pos_iff.mpr hc
      omega
    · have := ih ⟨f, hf, hc⟩
      omega

/-- single-character delimiter: a simple-policy field containing the delimiter always triggers the writer's warning test
    `output_line.count(delim) + 1 != len(fields)` -/
theorem lossy_simple_warns (c : Char) (fs : List Str) (hne : fs ≠ []) (h : ∃ f ∈ fs, c ∈ f) :
    countD [c] (joinD [c] fs) + 1 ≠ fs.length := by
  rw [countD_single]
  have h1 := count_joinD_single c fs hne
  have h2 := sum_count_pos c fs h
  omega

/-! ### File level -/

theorem flatMap_CR_head (rows : List Str) (hrows : ∀ r ∈ rows, NoNL r) :
    (rows.flatMap (fun r => r ++ [CR])).head? ≠ some LF := by
  cases rows with
  | nil => simp
  | cons r rs =>
    cases r with
    | nil => simp [CR_ne_LF]
    | cons a as =>
      have := (hrows (a :: as) (by simp)) a (by simp)
      simp [this.1]

/-- file level: rows without line breaks, each followed by the line separator LF, CRLF or CR, come back as the same rows -/
theorem file_lines_roundtrip (sep : Str) (hsep : sep = [LF] ∨ sep = [CR, LF] ∨ sep = [CR]) (rows : List Str)
    (hrows : ∀ r ∈ rows, NoNL r) :
    linesSpec (rows.flatMap (fun r => r ++ sep)) = rows := by
  induction rows with
  | nil => simp [linesSpec_nil]
  | cons r rs ih =>
    have hr := hrows r (by simp)
    have hrs : ∀ x ∈ rs, NoNL x := fun x hx => hrows x (by simp [hx])
    have ih' := ih hrs
    rw [List.flatMap_cons, List.append_assoc]
    rcases hsep with rfl | rfl | rfl
    · rw [List.singleton_append, linesSpec_LF _ _ hr, ih']
    · rw [List.cons_append, List.singleton_append, linesSpec_CRLF _ _ hr, ih']
    · rw [List.singleton_append, linesSpec_CR _ _ hr (flatMap_CR_head rs hrs), ih']

/-! ### One-character delimiters: no side condition on the fields -/

theorem noOcc_single_iff (c : Char) (f : Str) : NoOcc [c] f ↔ c ∉ f := by
  constructor
  · intro h hm
    obtain ⟨b, r, e⟩ := List.append_of_mem hm
    exact h b r (by rw [e]; simp)
  · intro h b r e
    exact h (by rw [e]; simp)

/-- for a one-character delimiter every field is `FieldOk` -/
theorem fieldOk_single (c : Char) (f : Str) : FieldOk [c] f := by
  rintro ⟨_, hc⟩
  exact rawOk_single c f ((noOcc_single_iff c f).mp ((containsD_false_iff [c] (by simp) f).mp hc))

/-- for a one-character delimiter `RawOk` is exactly "does not contain the delimiter" -/
theorem rawOk_single_iff (c : Char) (f : Str) : RawOk [c] f ↔ c ∉ f :=
  ⟨fun h => (noOcc_single_iff c f).mp (h.noOcc (by simp)), rawOk_single c f⟩

/-! ### Non-vacuity: the hypotheses are met by non-trivial instances -/

section Examples

private def exFields : List Str := [['a', ',', 'b'], ['c', '"', 'd'], [' ', 'e', ' '], []]

private theorem goodComma : GoodDelim [','] true :=
  ⟨by simp, by decide, by intro _; simp [NoLeadSpace, SPACE]⟩

example : RawOk [','] [' ', 'e', ' '] := rawOk_single ',' _ (by decide)

/-- `a,b` / `c"d` / ` e ` / empty last field  ↦  `"a,b","c""d", e ,`  ↦  the same four fields -/
example : joinD [','] (exFields.map (quoteField [','])) =
    ['"', 'a', ',', 'b', '"', ',', '"', 'c', '"', '"', 'd', '"', ',', ' ', 'e', ' ', ','] := by decide

example : splitFrom [','] true false (joinD [','] (exFields.map (quoteField [',']))) = (exFields, false) :=
  line_roundtrip_quoted goodComma exFields (by simp [exFields]) (fun f _ => fieldOk_single ',' f)

example : splitQuotedStr [','] false (joinD [','] (exFields.map (quoteField [',']))) = (exFields, false) :=
  line_roundtrip_quoted_str goodComma exFields (by simp [exFields]) (fun f _ => fieldOk_single ',' f)

/-- a two-character delimiter: the field `x#` is not `RawOk` for `##` (`x#` + `##` reads back as `x`, `#`),
    the field `#x` is -/
example : ¬ FieldOk ['#', '#'] ['x', '#'] := by unfold FieldOk RawOk; decide
example : FieldOk ['#', '#'] ['#', 'x'] := by unfold FieldOk RawOk; decide

example : splitOn [','] (joinD [','] [['a'], [], [' ', 'b', '"']]) = [['a'], [], [' ', 'b', '"']] :=
  line_roundtrip_simple [','] (by simp) _ (by simp)
    (fun f hf => rawOk_single ',' f (by
      simp only [List.mem_cons, List.not_mem_nil, or_false] at hf
      rcases hf with rfl | rfl | rfl <;> decide))

example : countD [','] (joinD [','] [['a', ',', 'b'], ['c']]) + 1 ≠ 2 :=
  lossy_simple_warns ',' [['a', ',', 'b'], ['c']] (by simp) ⟨['a', ',', 'b'], by simp, by decide⟩

example : linesSpec ([['a', ',', 'b'], [], ['c']].flatMap (fun r => r ++ [CR, LF])) = [['a', ',', 'b'], [], ['c']] :=
  file_lines_roundtrip [CR, LF] (Or.inr (Or.inl rfl)) _ (by
    intro r hr
    simp only [List.mem_cons, List.not_mem_nil, or_false] at hr
    rcases hr with rfl | rfl | rfl <;> simp [NoNL, LF, CR])

end Examples

end Rbql
