/-
  Chunk independence of the Python CSV reader's physical-row machine: whatever pieces the
  stream hands out, `get_row_simple` yields exactly `linesSpec` of the concatenated text
  (with the BOM stripped from the very first row).
-/
import Rbql.Model.ReaderPy
namespace Rbql

/-! ### `linesAux` / `linesSpec` -/

/-- no LF and no CR -/
def NoNL (b : Str) : Prop := ∀ c ∈ b, c ≠ LF ∧ c ≠ CR

theorem CR_ne_LF : CR ≠ LF := by decide
theorem LF_ne_CR : LF ≠ CR := by decide

theorem NoNL_nil : NoNL [] := by simp [NoNL]

theorem NoNL_cons (c : Char) (b : Str) : NoNL (c :: b) ↔ (c ≠ LF ∧ c ≠ CR) ∧ NoNL b := by
  simp [NoNL]

theorem NoNL_append (a b : Str) : NoNL (a ++ b) ↔ NoNL a ∧ NoNL b := by
  simp only [NoNL, List.mem_append]
  constructor
  · intro h; exact ⟨fun c hc => h c (Or.inl hc), fun c hc => h c (Or.inr hc)⟩
  · rintro ⟨h1, h2⟩ c (hc | hc)
    · exact h1 c hc
    · exact h2 c hc

theorem hasNewline_false_iff (b : Str) : hasNewline b = false ↔ NoNL b := by
  induction b with
  | nil => simp [hasNewline, NoNL]
  | cons c cs ih =>
    rw [NoNL_cons, ← ih]
    simp [hasNewline]

theorem hasNewline_true_iff (b : Str) : hasNewline b = true ↔ ¬ NoNL b := by
  rw [← hasNewline_false_iff]; cases hasNewline b <;> simp

theorem linesAux_LF (X cur : Str) : linesAux (LF :: X) cur = cur.reverse :: linesAux X [] := by
  cases X <;> simp [linesAux]

theorem linesAux_CRLF (X cur : Str) :
    linesAux (CR :: LF :: X) cur = cur.reverse :: linesAux X [] := by
  simp [linesAux, CR_ne_LF]

theorem linesAux_CR (X cur : Str) (hX : X.head? ≠ some LF) :
    linesAux (CR :: X) cur = cur.reverse :: linesAux X [] := by
  cases X with
  | nil => simp [linesAux]
  | cons c2 cs =>
    have : c2 ≠ LF := by intro h; subst h; exact hX rfl
    simp [linesAux, CR_ne_LF, this]

theorem linesAux_char (c : Char) (X cur : Str) (h1 : c ≠ LF) (h2 : c ≠ CR) :
    linesAux (c :: X) cur = linesAux X (c :: cur) := by
  cases X <;> simp [linesAux, h1, h2]

theorem linesAux_noNL_append (b X cur : Str) (hb : NoNL b) :
    linesAux (b ++ X) cur = linesAux X (b.reverse ++ cur) := by
  induction b generalizing cur with
  | nil => simp
  | cons c cs ih =>
    rw [NoNL_cons] at hb
    rw [List.cons_append, linesAux_char c _ _ hb.1.1 hb.1.2, ih _ hb.2]
    simp

theorem linesSpec_nil : linesSpec [] = [] := by simp [linesSpec, linesAux]

theorem linesSpec_noNL (b : Str) (hb : NoNL b) (hne : b ≠ []) : linesSpec b = [b] := by
  have := linesAux_noNL_append b [] [] hb
  simp only [List.append_nil] at this
  rw [linesSpec, this]
  simp [linesAux, hne]

theorem linesSpec_LF (b X : Str) (hb : NoNL b) :
    linesSpec (b ++ LF :: X) = b :: linesSpec X := by
  rw [linesSpec, linesAux_noNL_append _ _ _ hb, linesAux_LF]; simp [linesSpec]

theorem linesSpec_CRLF (b X : Str) (hb : NoNL b) :
    linesSpec (b ++ CR :: LF :: X) = b :: linesSpec X := by
  rw [linesSpec, linesAux_noNL_append _ _ _ hb, linesAux_CRLF]; simp [linesSpec]

theorem linesSpec_CR (b X : Str) (hb : NoNL b) (hX : X.head? ≠ some LF) :
    linesSpec (b ++ CR :: X) = b :: linesSpec X := by
  rw [linesSpec, linesAux_noNL_append _ _ _ hb, linesAux_CR _ _ hX]; simp [linesSpec]

/-! ### `extractLine` -/

theorem extractLine_none (buf : Str) (h : extractLine buf = none) : NoNL buf := by
  fun_induction extractLine buf <;> simp_all [NoNL_cons, NoNL_nil]

theorem extractLine_some (buf before sep after : Str)
    (h : extractLine buf = some (before, sep, after)) :
    buf = before ++ sep ++ after ∧ NoNL before ∧
      (sep = [LF] ∨ sep = [CR, LF] ∨ (sep = [CR] ∧ after.head? ≠ some LF)) := by
  induction buf generalizing before with
  | nil => simp [extractLine] at h
  | cons c cs ih =>
    rw [extractLine.eq_def] at h
    simp only at h
    split at h
    · rename_i hc
      simp only [Option.some.injEq, Prod.mk.injEq] at h
      obtain ⟨rfl, rfl, rfl⟩ := h
      simp [hc, NoNL_nil]
    · split at h
      · rename_i hc1 hc
        split at h
        · split at h <;>
          · simp only [Option.some.injEq, Prod.mk.injEq] at h
            obtain ⟨rfl, rfl, rfl⟩ := h
            simp_all [NoNL_nil]
        · simp only [Option.some.injEq, Prod.mk.injEq] at h
          obtain ⟨rfl, rfl, rfl⟩ := h
          simp [hc, NoNL_nil]
      · rename_i hc1 hc2
        split at h
        · rename_i b sp a heq
          simp only [Option.some.injEq, Prod.mk.injEq] at h
          obtain ⟨rfl, rfl, rfl⟩ := h
          obtain ⟨h1, h2, h3⟩ := ih b heq
          refine ⟨by rw [h1]; simp, ?_, h3⟩
          rw [NoNL_cons]; exact ⟨⟨hc1, hc2⟩, h2⟩
        · simp at h

/-- one line is peeled off the specification -/
theorem linesSpec_extract (buf before sep after Y : Str)
    (h : extractLine buf = some (before, sep, after))
    (hY : sep = [CR] → after = [] → Y.head? ≠ some LF) :
    linesSpec (buf ++ Y) = before :: linesSpec (after ++ Y) := by
  obtain ⟨h1, h2, h3⟩ := extractLine_some _ _ _ _ h
  subst h1
  rcases h3 with rfl | rfl | ⟨rfl, h3⟩
  · simp only [List.append_assoc, List.cons_append, List.nil_append]
    exact linesSpec_LF _ _ h2
  · simp only [List.append_assoc, List.cons_append, List.nil_append]
    exact linesSpec_CRLF _ _ h2
  · simp only [List.append_assoc, List.cons_append, List.nil_append]
    apply linesSpec_CR _ _ h2
    cases after with
    | nil => exact hY rfl rfl
    | cons a as => simpa using h3

/-- a CR at the very end of the buffer followed by an LF in the stream is one CRLF -/
theorem linesSpec_extract_split (buf before Y : Str)
    (h : extractLine buf = some (before, [CR], [])) :
    linesSpec (buf ++ LF :: Y) = before :: linesSpec Y := by
  obtain ⟨h1, h2, _⟩ := extractLine_some _ _ _ _ h
  subst h1
  simp only [List.append_assoc, List.cons_append, List.nil_append, List.append_nil]
  exact linesSpec_CRLF _ _ h2

/-! ### `Stream.read` -/

def PiecesNe (st : Stream) : Prop := ∀ p ∈ st, p ≠ []

theorem totalLen_eq (st : Stream) : totalLen st = st.flatten.length := by
  simp [totalLen, List.length_flatten]

theorem read_spec (n : Nat) (hn : 1 ≤ n) (st : Stream) (hst : PiecesNe st) (t : Str) (st' : Stream)
    (h : Stream.read n st = (t, st')) :
    t ++ st'.flatten = st.flatten ∧ PiecesNe st' ∧ (t = [] ↔ st = []) ∧ (t = [] → st' = []) ∧
      t.length ≤ n := by
  cases st with
  | nil =>
    simp only [Stream.read, Prod.mk.injEq] at h
    obtain ⟨rfl, rfl⟩ := h
    simp [PiecesNe]
  | cons p ps =>
    simp only [Stream.read, Prod.mk.injEq] at h
    obtain ⟨rfl, rfl⟩ := h
    have hp : p ≠ [] := hst p (by simp)
    have hps : PiecesNe ps := fun q hq => hst q (by simp [hq])
    have ht : List.take n p ≠ [] := by
      cases p with
      | nil => exact absurd rfl hp
      | cons a as => cases n with
        | zero => omega
        | succ m => simp
    refine ⟨?_, ?_, by simp [ht], fun h0 => absurd h0 ht, by simp [List.length_take]; omega⟩
    · split
      · rename_i hd
        have := List.take_append_drop n p
        rw [hd, List.append_nil] at this
        simp [this]
      · simp [← List.append_assoc]
    · split
      · exact hps
      · rename_i hd
        intro q hq
        rcases List.mem_cons.mp hq with rfl | hq
        · exact hd
        · exact hps q hq

/-! ### `readLoop` -/

theorem readLoop_spec (n : Nat) (hn : 1 ≤ n) (st : Stream) (acc : Str) (hst : PiecesNe st) :
    ∃ new, (readLoop n st acc).1 = acc ++ new ∧
      new ++ (readLoop n st acc).2.1.flatten = st.flatten ∧
      PiecesNe (readLoop n st acc).2.1 ∧
      ((readLoop n st acc).2.2 = true → (readLoop n st acc).2.1 = [] ∧ NoNL new) ∧
      ((readLoop n st acc).2.2 = false → ¬ NoNL new) := by
  fun_induction readLoop n st acc
  · rename_i st acc st' hr
    obtain ⟨h1, h2, h3, h4, _⟩ := read_spec n hn st hst _ _ hr
    have hs' := h4 rfl
    subst hs'
    refine ⟨[], by simp, by simpa using h1, h2, fun _ => ⟨rfl, NoNL_nil⟩, by simp⟩
  · rename_i st acc t st' hne hr hnl
    obtain ⟨h1, h2, _, _, _⟩ := read_spec n hn st hst _ _ hr
    exact ⟨t, rfl, h1, h2, by simp, fun _ => (hasNewline_true_iff t).mp hnl⟩
  · rename_i st acc t st' hne hr hnl hlt ih
    obtain ⟨h1, h2, _, _, _⟩ := read_spec n hn st hst _ _ hr
    obtain ⟨new, i1, i2, i3, i4, i5⟩ := ih h2
    have htn : NoNL t := (hasNewline_false_iff t).mp (by simpa using hnl)
    refine ⟨t ++ new, by rw [i1, List.append_assoc], by rw [List.append_assoc, i2, h1], i3, ?_, ?_⟩
    · intro hx
      exact ⟨(i4 hx).1, (NoNL_append _ _).mpr ⟨htn, (i4 hx).2⟩⟩
    · intro hx hno
      exact i5 hx ((NoNL_append _ _).mp hno).2
  · rename_i st acc t st' hne hr hnl hlt
    exfalso
    obtain ⟨h1, _, _, _, _⟩ := read_spec n hn st hst _ _ hr
    apply hlt
    rw [totalLen_eq, totalLen_eq, ← h1, List.length_append]
    have : 0 < t.length := List.length_pos_iff.mpr (fun h => hne h)
    omega

/-! ### `rowFromBuffer` -/

/-- the text that is still to be turned into rows -/
def pending (s : RState) : Str := s.buffer ++ s.stream.flatten

theorem remaining_eq (s : RState) : remaining s = (pending s).length := by
  simp [remaining, pending, totalLen_eq]

theorem rowFromBuffer_none (s s1 : RState) (h : rowFromBuffer s = (none, s1)) :
    s1 = s ∧ NoNL s.buffer := by
  unfold rowFromBuffer at h
  split at h
  · rename_i he
    simp only [Prod.mk.injEq, true_and] at h
    exact ⟨h.symm, extractLine_none _ he⟩
  · rename_i before sep after he
    split at h
    · rcases hr : Stream.read 1 s.stream with ⟨one, st'⟩
      rw [hr] at h
      simp only at h
      split at h <;> simp at h
    · simp at h

theorem rowFromBuffer_some (s : RState) (row : Str) (s1 : RState) (hst : PiecesNe s.stream)
    (h : rowFromBuffer s = (some row, s1)) :
    linesSpec (pending s) = row :: linesSpec (pending s1) ∧
      (pending s1).length < (pending s).length ∧ PiecesNe s1.stream ∧
      s1.exhausted = s.exhausted ∧ s1.nl = s.nl ∧ (s.stream = [] → s1.stream = []) := by
  unfold rowFromBuffer at h
  split at h
  · simp at h
  · rename_i before sep after he
    obtain ⟨hb, hnn, hsep⟩ := extractLine_some _ _ _ _ he
    split at h
    · rename_i hc
      obtain ⟨rfl, rfl⟩ := hc
      rcases hr : Stream.read 1 s.stream with ⟨one, st'⟩
      obtain ⟨r1, r2, r3, r4, r5⟩ := read_spec 1 (Nat.le_refl 1) _ hst _ _ hr
      rw [hr] at h
      simp only at h
      split at h
      · rename_i hone
        subst hone
        simp only [Prod.mk.injEq, Option.some.injEq] at h
        obtain ⟨rfl, rfl⟩ := h
        refine ⟨?_, ?_, r2, rfl, rfl, ?_⟩
        · simp only [pending, List.nil_append]
          rw [← r1]
          exact linesSpec_extract_split _ _ _ he
        · simp only [pending, List.nil_append, List.length_append]
          rw [← r1, hb]; simp; omega
        · intro h0; exact absurd (r3.mpr h0) (by simp)
      · rename_i hone
        simp only [Prod.mk.injEq, Option.some.injEq] at h
        obtain ⟨rfl, rfl⟩ := h
        refine ⟨?_, ?_, r2, rfl, rfl, ?_⟩
        · simp only [pending]
          rw [r1]
          have := linesSpec_extract _ _ _ _ s.stream.flatten he (fun _ _ => ?_)
          · simpa using this
          · rw [← r1]
            match one, hone, r5 with
            | [], _, _ => simp [r4 rfl]
            | [x], hone, _ => simpa using hone
            | _ :: _ :: _, _, r5 => simp at r5
        · simp only [pending, List.length_append]
          rw [← List.length_append, r1, hb]; simp
        · intro h0; exact r4 (r3.mpr h0)
    · rename_i hc
      simp only [Prod.mk.injEq, Option.some.injEq] at h
      obtain ⟨rfl, rfl⟩ := h
      refine ⟨?_, ?_, hst, rfl, rfl, fun h0 => h0⟩
      · simp only [pending]
        exact linesSpec_extract _ _ _ _ _ he (fun h1 h2 => absurd ⟨h1, h2⟩ hc)
      · simp only [pending, List.length_append]
        rw [hb]
        rcases hsep with rfl | rfl | ⟨rfl, _⟩ <;> simp <;> omega

/-! ### `readUntilFound`, `getRowSimple` -/

/-- first row loses a BOM when the reader is at line 0 -/
def bomFix (e : Enc) (nl : Nat) (rows : List Str) : List Str :=
  if nl = 0 then (match rows with | [] => [] | r :: rs => removeBom e r :: rs) else rows

/-- Well-formed reader state: chunk size ≥ 1, no empty piece in the stream, and `exhausted` only when the stream is empty. -/
structure RInv (c : RCfg) (s : RState) : Prop where
  chunk_pos : 1 ≤ c.chunk
  pieces_ne : ∀ p ∈ s.stream, p ≠ []
  exhausted_empty : s.exhausted = true → s.stream = []

theorem readUntilFound_spec (c : RCfg) (s : RState) (h : RInv c s) :
    RInv c (readUntilFound c s) ∧ pending (readUntilFound c s) = pending s ∧
      (readUntilFound c s).nl = s.nl ∧
      (NoNL (readUntilFound c s).buffer → (readUntilFound c s).stream = []) := by
  unfold readUntilFound
  split
  · rename_i hex
    exact ⟨h, rfl, rfl, fun _ => h.exhausted_empty hex⟩
  · obtain ⟨new, h1, h2, h3, h4, h5⟩ := readLoop_spec c.chunk h.chunk_pos s.stream [] h.pieces_ne
    rcases hr : readLoop c.chunk s.stream [] with ⟨acc, st', ex⟩
    rw [hr] at h1 h2 h3 h4 h5
    simp only [List.nil_append] at h1 h2 h3 h4 h5
    subst h1
    refine ⟨⟨h.chunk_pos, h3, fun hx => (h4 hx).1⟩, ?_, rfl, ?_⟩
    · simp only [pending]
      rw [List.append_assoc, h2]
    · simp only
      intro hno
      cases ex with
      | true => exact (h4 rfl).1
      | false => exact absurd ((NoNL_append _ _).mp hno).2 (h5 rfl)

/-- the local `fin` of `getRowSimple` -/
def finRow (e : Enc) (row : Str) (s : RState) : Option Str × RState :=
  let s := { s with nl := s.nl + 1 }
  if s.nl = 1 then
    let clean := removeBom e row
    if clean ≠ row then (some clean, { s with bom := true }) else (some row, s)
  else (some row, s)

theorem getRowSimple_eq (c : RCfg) (s : RState) :
    getRowSimple c s =
      match rowFromBuffer s with
      | (some row, s1) => finRow c.enc row s1
      | (none, s1) =>
        match rowFromBuffer (readUntilFound c s1) with
        | (some row, s3) => finRow c.enc row s3
        | (none, s3) =>
          if s3.buffer = [] then (none, s3)
          else finRow c.enc s3.buffer { s3 with buffer := [] } := rfl

theorem finRow_spec (e : Enc) (row : Str) (s : RState) :
    ∃ s', finRow e row s = (some (if s.nl = 0 then removeBom e row else row), s') ∧
      s'.stream = s.stream ∧ s'.buffer = s.buffer ∧ s'.exhausted = s.exhausted ∧
      s'.nl = s.nl + 1 := by
  by_cases h0 : s.nl = 0
  · by_cases hc : removeBom e row = row
    · simp only [finRow, h0, hc, if_true, ne_eq, not_true_eq_false, if_false]
      exact ⟨_, rfl, rfl, rfl, rfl, rfl⟩
    · simp only [finRow, h0, hc, if_true, ne_eq, not_false_eq_true]
      exact ⟨_, rfl, rfl, rfl, rfl, rfl⟩
  · simp only [finRow, Nat.add_eq_right, h0, if_false]
    exact ⟨_, rfl, rfl, rfl, rfl, rfl⟩

/-- what one call of `getRowSimple` does, in terms of the pending text -/
def StepOK (c : RCfg) (s : RState) (r : Option Str × RState) : Prop :=
  (pending s = [] ∧ r.1 = none) ∨
  (∃ row s', r = (some (if s.nl = 0 then removeBom c.enc row else row), s') ∧ RInv c s' ∧
    s'.nl = s.nl + 1 ∧ linesSpec (pending s) = row :: linesSpec (pending s') ∧
    (pending s').length < (pending s).length)

theorem finRow_ok (c : RCfg) (s s1 : RState) (row : Str) (hinv : RInv c s1) (hnl : s1.nl = s.nl)
    (hl : linesSpec (pending s) = row :: linesSpec (pending s1))
    (hlen : (pending s1).length < (pending s).length) :
    StepOK c s (finRow c.enc row s1) := by
  obtain ⟨s', f1, f2, f3, f4, f5⟩ := finRow_spec c.enc row s1
  have hp : pending s' = pending s1 := by simp [pending, f2, f3]
  refine Or.inr ⟨row, s', by rw [f1, hnl], ⟨hinv.chunk_pos, ?_, ?_⟩, by rw [f5, hnl], by rw [hp]; exact hl,
    by rw [hp]; exact hlen⟩
  · rw [f2]; exact hinv.pieces_ne
  · rw [f2, f4]; exact hinv.exhausted_empty

theorem getRowSimple_step (c : RCfg) (s : RState) (h : RInv c s) :
    StepOK c s (getRowSimple c s) := by
  rw [getRowSimple_eq]
  rcases h1 : rowFromBuffer s with ⟨_ | row, s1⟩
  · obtain ⟨rfl, hno⟩ := rowFromBuffer_none _ _ h1
    simp only
    obtain ⟨u1, u2, u3, u4⟩ := readUntilFound_spec c s1 h
    generalize readUntilFound c s1 = s2 at u1 u2 u3 u4 ⊢
    rcases h2 : rowFromBuffer s2 with ⟨_ | row, s3⟩
    · obtain ⟨hs, hno2⟩ := rowFromBuffer_none _ _ h2
      subst hs
      simp only
      have hst := u4 hno2
      have hp : pending s1 = s3.buffer := by rw [← u2]; simp [pending, hst]
      split
      · rename_i hb
        exact Or.inl ⟨by rw [hp, hb], rfl⟩
      · rename_i hb
        apply finRow_ok
        · exact ⟨h.chunk_pos, u1.pieces_ne, u1.exhausted_empty⟩
        · exact u3
        · rw [hp]
          simp only [pending, hst, List.flatten_nil, List.append_nil, linesSpec_nil]
          exact linesSpec_noNL _ hno2 hb
        · rw [hp]
          simp only [pending, hst, List.flatten_nil, List.append_nil, List.length_nil]
          exact List.length_pos_iff.mpr hb
    · simp only
      obtain ⟨r1, r2, r3, r4, r5, r6⟩ := rowFromBuffer_some _ _ _ u1.pieces_ne h2
      apply finRow_ok
      · exact ⟨h.chunk_pos, r3, fun hx => r6 (u1.exhausted_empty (r4 ▸ hx))⟩
      · rw [r5, u3]
      · rw [← u2]; exact r1
      · rw [← u2]; exact r2
  · simp only
    obtain ⟨r1, r2, r3, r4, r5, r6⟩ := rowFromBuffer_some _ _ _ h.pieces_ne h1
    apply finRow_ok
    · exact ⟨h.chunk_pos, r3, fun hx => r6 (h.exhausted_empty (r4 ▸ hx))⟩
    · exact r5
    · exact r1
    · exact r2

/-! ### Main theorems -/

theorem rows_chunk_independent (c : RCfg) (s : RState) (h : RInv c s) (fuel : Nat)
    (hf : remaining s < fuel) :
    allRowsSimple c fuel s = bomFix c.enc s.nl (linesSpec (s.buffer ++ s.stream.flatten)) := by
  induction fuel generalizing s with
  | zero => omega
  | succ fuel ih =>
    rw [remaining_eq] at hf
    change _ = bomFix c.enc s.nl (linesSpec (pending s))
    rw [allRowsSimple]
    rcases getRowSimple_step c s h with ⟨hp, hn⟩ | ⟨row, s', hr, hinv, hnl, hl, hlen⟩
    · rcases hg : getRowSimple c s with ⟨r, s1⟩
      rw [hg] at hn
      simp only at hn
      subst hn
      simp [hp, linesSpec_nil, bomFix]
    · rw [hr]
      simp only
      rw [ih s' hinv (by rw [remaining_eq]; omega)]
      change _ = bomFix c.enc s.nl (linesSpec (pending s))
      change _ :: bomFix c.enc s'.nl (linesSpec (pending s')) = _
      rw [hl, hnl]
      by_cases h0 : s.nl = 0 <;> simp [bomFix, h0]

theorem rows_of_pieces (c : RCfg) (hc : 1 ≤ c.chunk) (pieces : List Str) (hp : ∀ p ∈ pieces, p ≠ []) :
    allRowsSimple c (totalLen pieces + 1) { stream := pieces } = bomFix c.enc 0 (linesSpec pieces.flatten) := by
  have := rows_chunk_independent c { stream := pieces } ⟨hc, hp, by simp⟩ (totalLen pieces + 1)
    (by simp [remaining])
  simpa using this

end Rbql
