/-
  The header line of the Python CSV reader (and, trivially, of the JS reader) is never processed as a
  record, and `WITH (header)` / `WITH (noheader)` in the query overrides the caller's flag.

  No well-formedness assumption on the configuration or the stream is needed: the progress facts
  (`HeaderLine.Prog`: every row/record delivered consumes text, `None` is delivered only by a reader that has
  seen the end of input and holds no text) are proved here directly on `remaining`, and they give
  the fuel-sufficiency of `allRecords` (`HeaderLine.allRecsR_fuel`).
-/
import Rbql.Proofs.ReaderPyRecords
import Rbql.Model.ReaderJs
namespace Rbql
namespace HeaderLine

/-! ### changing `hasHeader` commutes with the row machine -/

def setHE (h e : Bool) (s : RState) : RState := { s with hasHeader := h, emitFirst := e }

theorem remaining_setHE (h e : Bool) (s : RState) : remaining (setHE h e s) = remaining s := rfl

theorem rowFromBuffer_setHE (h e : Bool) (s : RState) :
    rowFromBuffer (setHE h e s) = ((rowFromBuffer s).1, setHE h e (rowFromBuffer s).2) := by
  unfold rowFromBuffer
  have hb : (setHE h e s).buffer = s.buffer := rfl
  have hs : (setHE h e s).stream = s.stream := rfl
  rw [hb, hs]
  cases extractLine s.buffer with
  | none => rfl
  | some p =>
    obtain ⟨before, sep, after⟩ := p
    simp only
    by_cases hc : sep = [CR] ∧ after = []
    · rw [if_pos hc, if_pos hc]
      rcases Stream.read 1 s.stream with ⟨one, st'⟩
      simp only
      by_cases h1 : one = [LF]
      · rw [if_pos h1, if_pos h1]; rfl
      · rw [if_neg h1, if_neg h1]; rfl
    · rw [if_neg hc, if_neg hc]; rfl

theorem readUntilFound_setHE (c : RCfg) (h e : Bool) (s : RState) :
    readUntilFound c (setHE h e s) = setHE h e (readUntilFound c s) := by
  unfold readUntilFound
  have hb : (setHE h e s).exhausted = s.exhausted := rfl
  rw [hb]
  cases s.exhausted with
  | true => rfl
  | false => rfl

theorem finRow_setHE (en : Enc) (row : Str) (h e : Bool) (s : RState) :
    finRow en row (setHE h e s) = ((finRow en row s).1, setHE h e (finRow en row s).2) := by
  unfold finRow
  have hb : (setHE h e s).nl = s.nl := rfl
  simp only [hb]
  by_cases h1 : s.nl + 1 = 1
  · rw [if_pos h1, if_pos h1]
    by_cases h2 : removeBom en row ≠ row
    · rw [if_pos h2, if_pos h2]; rfl
    · rw [if_neg h2, if_neg h2]; rfl
  · rw [if_neg h1, if_neg h1]; rfl

theorem getRowSimple_setHE (c : RCfg) (h e : Bool) (s : RState) :
    getRowSimple c (setHE h e s) = ((getRowSimple c s).1, setHE h e (getRowSimple c s).2) := by
  rw [getRowSimple_eq, getRowSimple_eq, rowFromBuffer_setHE]
  rcases rowFromBuffer s with ⟨_ | row, s1⟩
  · simp only
    rw [readUntilFound_setHE, rowFromBuffer_setHE]
    rcases rowFromBuffer (readUntilFound c s1) with ⟨_ | row, s3⟩
    · simp only
      have : (setHE h e s3).buffer = s3.buffer := rfl
      rw [this]
      split
      · rfl
      · exact finRow_setHE c.enc s3.buffer h e { s3 with buffer := [] }
    · exact finRow_setHE _ _ _ _ _
  · exact finRow_setHE _ _ _ _ _

theorem rfcLoop_setHE (c : RCfg) (h e : Bool) (fuel : Nat) (s : RState) (rows : List Str) :
    rfcLoop c fuel (setHE h e s) rows = ((rfcLoop c fuel s rows).1, setHE h e (rfcLoop c fuel s rows).2) := by
  induction fuel generalizing s rows with
  | zero => rfl
  | succ fuel ih =>
    rw [rfcLoop, rfcLoop, getRowSimple_setHE]
    rcases getRowSimple c s with ⟨_ | row, s1⟩
    · rfl
    · simp only
      split
      · rfl
      · exact ih _ _

theorem getRowRfc_setHE (c : RCfg) (h e : Bool) (s : RState) :
    getRowRfc c (setHE h e s) = ((getRowRfc c s).1, setHE h e (getRowRfc c s).2) := by
  rw [getRowRfc_eq, getRowRfc_eq, getRowSimple_setHE]
  rcases getRowSimple c s with ⟨_ | row, s1⟩
  · rfl
  · simp only
    split
    · rfl
    · split
      · rfl
      · rw [remaining_setHE, rfcLoop_setHE]

theorem getRow_setHE (c : RCfg) (h e : Bool) (s : RState) :
    getRow c (setHE h e s) = ((getRow c s).1, setHE h e (getRow c s).2) := by
  rw [getRow, getRow]
  split
  · exact getRowRfc_setHE c h e s
  · exact getRowSimple_setHE c h e s

theorem nextDataLine_setHE (c : RCfg) (h e : Bool) (fuel : Nat) (s : RState) :
    nextDataLine c fuel (setHE h e s) = ((nextDataLine c fuel s).1, setHE h e (nextDataLine c fuel s).2) := by
  induction fuel generalizing s with
  | zero => rfl
  | succ fuel ih =>
    rw [nextDataLine, nextDataLine, getRow_setHE]
    rcases getRow c s with ⟨_ | line, s1⟩
    · rfl
    · simp only
      split
      · exact ih _
      · rfl

/-- map the state of a step result -/
def mapSt {α : Type} (f : RState → RState) (r : Except ReadErr (α × RState)) :
    Except ReadErr (α × RState) :=
  match r with
  | .error e => .error e
  | .ok (a, s) => .ok (a, f s)

theorem readRecord_setHE (c : RCfg) (h e : Bool) (s : RState) :
    readRecord c (setHE h e s) = mapSt (setHE h e) (readRecord c s) := by
  rw [readRecord, readRecord, remaining_setHE, nextDataLine_setHE]
  rcases nextDataLine c (remaining s + 1) s with ⟨_ | line, s1⟩
  · rfl
  · simp only
    rcases smartSplit c.delim c.policy false line with ⟨record, warning⟩
    have e1 : (setHE h e s1).firstDefective = s1.firstDefective := rfl
    simp only [e1]
    by_cases hw : warning = true ∧ s1.firstDefective = none
    · rw [if_pos hw, if_pos hw]
      by_cases hp : c.policy = .quotedRfc
      · rw [if_pos hp, if_pos hp]; rfl
      · rw [if_neg hp, if_neg hp]; rfl
    · rw [if_neg hw, if_neg hw]; rfl


/-! ### progress of the row machine, without any well-formedness assumption -/

/-- end of input has been seen and nothing is buffered -/
def Dead (s : RState) : Prop := s.buffer = [] ∧ s.exhausted = true

/-- a step does not add text; when it returns nothing the reader is dead, when it returns something
text has been consumed -/
def Prog {α : Type} (s : RState) (r : Option α × RState) : Prop :=
  remaining r.2 ≤ remaining s ∧ (r.1 = none → Dead r.2) ∧ (r.1 ≠ none → remaining r.2 < remaining s)

theorem read_total (n : Nat) (st : Stream) :
    (Stream.read n st).1.length + totalLen (Stream.read n st).2 = totalLen st := by
  cases st with
  | nil => simp [Stream.read, totalLen]
  | cons p ps =>
    simp only [Stream.read]
    have hl : (p.take n).length + (p.drop n).length = p.length := by
      rw [← List.length_append, List.take_append_drop]
    split
    · rename_i hd
      rw [hd] at hl
      simp only [totalLen, List.map_cons, List.sum_cons, List.length_nil] at *
      omega
    · simp only [totalLen, List.map_cons, List.sum_cons] at *
      omega

theorem readLoop_total (n : Nat) (st : Stream) (acc : Str) :
    (readLoop n st acc).1.length + totalLen (readLoop n st acc).2.1 = acc.length + totalLen st ∧
      ((readLoop n st acc).2.2 = false → (readLoop n st acc).1 ≠ []) := by
  fun_induction readLoop n st acc
  · rename_i st acc st' hr
    have := read_total n st
    rw [hr] at this
    simp only [List.length_nil] at this
    refine ⟨by simp only; omega, by simp⟩
  · rename_i st acc t st' hne hr hnl
    have := read_total n st
    rw [hr] at this
    simp only at this
    refine ⟨by simp only [List.length_append]; omega, fun _ => ?_⟩
    simp only [ne_eq, List.append_eq_nil_iff, not_and]
    intro _ ht
    exact hne ht
  · rename_i st acc t st' hne hr hnl hlt ih
    have := read_total n st
    rw [hr] at this
    simp only at this
    refine ⟨by rw [ih.1]; simp only [List.length_append]; omega, ih.2⟩
  · rename_i st acc t st' hne hr hnl hlt
    have := read_total n st
    rw [hr] at this
    simp only at this
    refine ⟨by simp only [List.length_append]; omega, fun _ => ?_⟩
    simp only [ne_eq, List.append_eq_nil_iff, not_and]
    intro _ ht
    exact hne ht


theorem rowFromBuffer_some_lt (s : RState) (row : Str) (s1 : RState)
    (h : rowFromBuffer s = (some row, s1)) : remaining s1 < remaining s := by
  unfold rowFromBuffer at h
  split at h
  · simp at h
  · rename_i before sep after he
    obtain ⟨hb, _, hsep⟩ := extractLine_some _ _ _ _ he
    have hlen : before.length + sep.length + after.length = s.buffer.length := by
      rw [hb]; simp only [List.length_append]
    have hs : 1 ≤ sep.length := by
      rcases hsep with rfl | rfl | ⟨rfl, _⟩ <;> simp
    split at h
    · rename_i hc
      have ht := read_total 1 s.stream
      rcases hr : Stream.read 1 s.stream with ⟨one, st'⟩
      rw [hr] at h ht
      simp only at h ht
      split at h
      · rename_i hone
        simp only [Prod.mk.injEq, Option.some.injEq] at h
        obtain ⟨_, rfl⟩ := h
        simp only [remaining, List.length_nil]
        omega
      · simp only [Prod.mk.injEq, Option.some.injEq] at h
        obtain ⟨_, rfl⟩ := h
        simp only [remaining]
        omega
    · simp only [Prod.mk.injEq, Option.some.injEq] at h
      obtain ⟨_, rfl⟩ := h
      simp only [remaining]
      omega

theorem readUntilFound_remaining (c : RCfg) (s : RState) :
    remaining (readUntilFound c s) = remaining s ∧
      ((readUntilFound c s).buffer = [] → (readUntilFound c s).exhausted = true) := by
  unfold readUntilFound
  cases hx : s.exhausted with
  | true => simp [hx]
  | false =>
    simp only [Bool.false_eq_true, if_false]
    obtain ⟨h1, h2⟩ := readLoop_total c.chunk s.stream []
    rcases hr : readLoop c.chunk s.stream [] with ⟨acc, st', ex⟩
    rw [hr] at h1 h2
    simp only [List.length_nil, Nat.zero_add] at h1 h2
    refine ⟨by simp only [remaining, List.length_append]; omega, ?_⟩
    simp only [List.append_eq_nil_iff]
    rintro ⟨_, ha⟩
    cases ex with
    | true => rfl
    | false => exact absurd ha (h2 rfl)

theorem finRow_remaining (e : Enc) (row : Str) (s : RState) :
    (finRow e row s).1 ≠ none ∧ remaining (finRow e row s).2 = remaining s := by
  obtain ⟨s', f1, f2, f3, _, _⟩ := finRow_spec e row s
  rw [f1]
  simp [remaining, f2, f3]

theorem getRowSimple_prog (c : RCfg) (s : RState) : Prog s (getRowSimple c s) := by
  rw [getRowSimple_eq]
  rcases h1 : rowFromBuffer s with ⟨_ | row, s1⟩
  · obtain ⟨rfl, _⟩ := rowFromBuffer_none _ _ h1
    simp only
    obtain ⟨u1, u2⟩ := readUntilFound_remaining c s1
    generalize readUntilFound c s1 = s2 at u1 u2 ⊢
    rcases h2 : rowFromBuffer s2 with ⟨_ | row, s3⟩
    · obtain ⟨rfl, _⟩ := rowFromBuffer_none _ _ h2
      simp only
      split
      · rename_i hb
        exact ⟨by simp only; omega, fun _ => ⟨hb, u2 hb⟩, by simp⟩
      · rename_i hb
        obtain ⟨f1, f2⟩ := finRow_remaining c.enc s3.buffer { s3 with buffer := [] }
        have : remaining { s3 with buffer := [] } < remaining s3 := by
          have := List.length_pos_iff.mpr hb
          simp only [remaining, List.length_nil]; omega
        exact ⟨by omega, fun h => absurd h f1, fun _ => by omega⟩
    · simp only
      have := rowFromBuffer_some_lt _ _ _ h2
      obtain ⟨f1, f2⟩ := finRow_remaining c.enc row s3
      exact ⟨by omega, fun h => absurd h f1, fun _ => by omega⟩
  · simp only
    have := rowFromBuffer_some_lt _ _ _ h1
    obtain ⟨f1, f2⟩ := finRow_remaining c.enc row s1
    exact ⟨by omega, fun h => absurd h f1, fun _ => by omega⟩

theorem getRowSimple_dead (c : RCfg) (s : RState) (h : Dead s) : getRowSimple c s = (none, s) := by
  obtain ⟨hb, hx⟩ := h
  have h1 : rowFromBuffer s = (none, s) := by simp [rowFromBuffer, hb, extractLine]
  have h2 : readUntilFound c s = s := by simp [readUntilFound, hx]
  rw [getRowSimple_eq, h1]
  simp only
  rw [h2, h1]
  simp [hb]


theorem rfcLoop_remaining (c : RCfg) (fuel : Nat) (s : RState) (rows : List Str) :
    remaining (rfcLoop c fuel s rows).2 ≤ remaining s := by
  induction fuel generalizing s rows with
  | zero => exact Nat.le_refl _
  | succ fuel ih =>
    rw [rfcLoop]
    have hp := getRowSimple_prog c s
    rcases hg : getRowSimple c s with ⟨_ | row, s1⟩ <;> rw [hg] at hp
    · exact hp.1
    · simp only
      split
      · exact hp.1
      · exact Nat.le_trans (ih s1 _) hp.1

theorem getRowRfc_prog (c : RCfg) (s : RState) : Prog s (getRowRfc c s) := by
  rw [getRowRfc_eq]
  have hp := getRowSimple_prog c s
  rcases hg : getRowSimple c s with ⟨_ | first, s1⟩ <;> rw [hg] at hp
  · exact hp
  · simp only
    split
    · exact hp
    · split
      · exact hp
      · have h1 := rfcLoop_remaining c (remaining s1 + 1) s1 [first]
        have h2 := hp.2.2 (by simp)
        simp only at h2
        exact ⟨by simp only; omega, by simp, fun _ => by simp only; omega⟩

theorem getRowRfc_dead (c : RCfg) (s : RState) (h : Dead s) : getRowRfc c s = (none, s) := by
  rw [getRowRfc_eq, getRowSimple_dead c s h]

theorem getRow_prog (c : RCfg) (s : RState) : Prog s (getRow c s) := by
  rw [getRow]
  split
  · exact getRowRfc_prog c s
  · exact getRowSimple_prog c s

theorem getRow_dead (c : RCfg) (s : RState) (h : Dead s) : getRow c s = (none, s) := by
  rw [getRow]
  split
  · exact getRowRfc_dead c s h
  · exact getRowSimple_dead c s h

theorem nextDataLine_prog (c : RCfg) (fuel : Nat) (s : RState) (hf : remaining s < fuel) :
    Prog s (nextDataLine c fuel s) := by
  induction fuel generalizing s with
  | zero => omega
  | succ fuel ih =>
    rw [nextDataLine]
    have hp := getRow_prog c s
    rcases hg : getRow c s with ⟨_ | line, s1⟩ <;> rw [hg] at hp
    · exact hp
    · simp only
      have h2 := hp.2.2 (by simp)
      simp only at h2
      split
      · obtain ⟨i1, i2, i3⟩ := ih s1 (by omega)
        exact ⟨by omega, i2, fun _ => by omega⟩
      · exact hp

theorem nextDataLine_dead (c : RCfg) (fuel : Nat) (s : RState) (h : Dead s) :
    nextDataLine c (fuel + 1) s = (none, s) := by
  rw [nextDataLine, getRow_dead c s h]

/-- `Prog` for a step that may fail -/
def ProgE {α : Type} (s : RState) (r : Except ReadErr (Option α × RState)) : Prop :=
  ∀ p, r = .ok p → Prog s p

theorem readRecord_prog (c : RCfg) (s : RState) : ProgE s (readRecord c s) := by
  intro p hp
  rw [readRecord] at hp
  have hn := nextDataLine_prog c (remaining s + 1) s (by omega)
  rcases hg : nextDataLine c (remaining s + 1) s with ⟨_ | line, s1⟩ <;> rw [hg] at hn hp
  · simp only [Except.ok.injEq] at hp
    subst hp
    exact ⟨hn.1, fun _ => hn.2.1 rfl, by simp⟩
  · have h2 := hn.2.2 (by simp)
    simp only at h2 hp
    rcases smartSplit c.delim c.policy false line with ⟨record, warning⟩
    split at hp
    · split at hp
      · simp at hp
      · simp only [Except.ok.injEq] at hp
        subst hp
        exact ⟨Nat.le_of_lt h2, by simp, fun _ => h2⟩
    · simp only [Except.ok.injEq] at hp
      subst hp
      exact ⟨Nat.le_of_lt h2, by simp, fun _ => h2⟩

theorem readRecord_dead (c : RCfg) (s : RState) (h : Dead s) : readRecord c s = .ok (none, s) := by
  rw [readRecord, nextDataLine_dead c _ s h]


/-! ### the record loop -/

/-- `allRecords` for a reader that has nothing to re-emit -/
def allRecsR (c : RCfg) : Nat → RState → List (List Str) → Except ReadErr (List (List Str) × RState)
  | 0, s, acc => .ok (acc.reverse, s)
  | fuel + 1, s, acc =>
    match readRecord c s with
    | .error e => .error e
    | .ok (none, s1) => .ok (acc.reverse, s1)
    | .ok (some r, s1) => allRecsR c fuel s1 (r :: acc)

theorem allRecsR_succ (c : RCfg) (fuel : Nat) (s : RState) (acc : List (List Str)) :
    allRecsR c (fuel + 1) s acc =
      match readRecord c s with
      | .error e => .error e
      | .ok (none, s1) => .ok (acc.reverse, s1)
      | .ok (some r, s1) => allRecsR c fuel s1 (r :: acc) := rfl

theorem getRecord_setHE_false (c : RCfg) (h : Bool) (s : RState) :
    getRecord c (setHE h false s) = mapSt (setHE h false) (readRecord c s) := by
  rw [← readRecord_setHE]
  rfl

theorem allRecords_setHE (c : RCfg) (h : Bool) (fuel : Nat) (s : RState) (acc : List (List Str)) :
    allRecords c fuel (setHE h false s) acc = mapSt (setHE h false) (allRecsR c fuel s acc) := by
  induction fuel generalizing s acc with
  | zero => rfl
  | succ fuel ih =>
    rw [allRecords, allRecsR, getRecord_setHE_false]
    rcases readRecord c s with e | ⟨_ | r, s1⟩
    · rfl
    · rfl
    · exact ih s1 _

/-- one more unit of fuel changes nothing once the fuel exceeds the text that is left -/
theorem allRecsR_fuel (c : RCfg) (fuel : Nat) (s : RState) (acc : List (List Str))
    (hf : remaining s < fuel) : allRecsR c (fuel + 1) s acc = allRecsR c fuel s acc := by
  induction fuel generalizing s acc with
  | zero => omega
  | succ fuel ih =>
    rw [allRecsR_succ c (fuel + 1), allRecsR_succ c fuel]
    have hp := readRecord_prog c s
    rcases hr : readRecord c s with e | ⟨_ | r, s1⟩
    · rfl
    · rfl
    · simp only
      have := (hp _ hr).2.2 (by simp)
      simp only at this
      exact ih s1 _ (by omega)

/-- map the delivered value of a loop result -/
def mapVal {α : Type} (f : α → α) (r : Except ReadErr (α × RState)) : Except ReadErr (α × RState) :=
  match r with
  | .error e => .error e
  | .ok (a, s) => .ok (f a, s)

theorem allRecsR_acc (c : RCfg) (fuel : Nat) (s : RState) (acc l : List (List Str)) :
    allRecsR c fuel s (acc ++ l) = mapVal (fun rs => l.reverse ++ rs) (allRecsR c fuel s acc) := by
  induction fuel generalizing s acc with
  | zero => simp [allRecsR, mapVal]
  | succ fuel ih =>
    rw [allRecsR, allRecsR]
    rcases readRecord c s with e | ⟨_ | r, s1⟩
    · rfl
    · simp [mapVal]
    · exact ih s1 (r :: acc)

theorem allRecsR_dead (c : RCfg) (fuel : Nat) (s : RState) (h : Dead s) :
    allRecsR c (fuel + 1) s [] = .ok ([], s) := by
  rw [allRecsR, readRecord_dead c s h]
  rfl

/-! ### the whole run -/

/-- `readAll` with the effective header flag -/
def runWith (c : RCfg) (h : Bool) (st : Stream) : Except ReadErr ReadResult :=
  match readRecord c { stream := st } with
  | .error e => .error e
  | .ok (fr, t) =>
    match allRecords c (remaining t + 2) (setHE h (!h) { t with firstRecord := fr }) [] with
    | .error e => .error e
    | .ok v =>
      .ok { header := if h then fr else none, records := v.1, warnings := readerWarnings v.2 }

theorem readAll_eq (c : RCfg) (hasHeader : Bool) (m : Option Bool) (st : Stream) :
    readAll c hasHeader m st =
      runWith c (match m with | some b => b | none => hasHeader) st := by
  have h0 : getRecord c { stream := st, hasHeader := hasHeader } =
      mapSt (setHE hasHeader false) (readRecord c { stream := st }) :=
    getRecord_setHE_false c hasHeader { stream := st }
  rw [readAll, initReader, h0, runWith]
  rcases readRecord c { stream := st } with e | ⟨fr, t⟩
  · rfl
  · simp only [mapSt, bind, Except.bind, pure, Except.pure]
    have e1 : handleModifier m
        { setHE hasHeader false t with firstRecord := fr, emitFirst := !hasHeader } =
        setHE (match m with | some b => b | none => hasHeader)
          (!(match m with | some b => b | none => hasHeader)) { t with firstRecord := fr } := by
      match m, hasHeader with
      | none, true => rfl
      | none, false => rfl
      | some true, _ => rfl
      | some false, _ => rfl
    rw [e1]
    generalize (match m with | some b => b | none => hasHeader) = b
    have e2 : remaining (setHE b (!b) { t with firstRecord := fr }) = remaining t := rfl
    have e3 : getHeader (setHE b (!b) { t with firstRecord := fr }) = if b then fr else none := rfl
    rw [e2, e3]
    generalize allRecords c (remaining t + 2) _ [] = X
    cases X <;> rfl


/-- the two runs side by side: the same error; or empty input; or the first record is the header
of one run and the first data record of the other -/
theorem runWith_cases (c : RCfg) (st : Stream) :
    (∃ e, runWith c true st = .error e ∧ runWith c false st = .error e) ∨
    (∃ w, runWith c true st = .ok ⟨none, [], w⟩ ∧ runWith c false st = .ok ⟨none, [], w⟩) ∨
    (∃ hd recs w, runWith c true st = .ok ⟨some hd, recs, w⟩ ∧
      runWith c false st = .ok ⟨none, hd :: recs, w⟩) := by
  unfold runWith
  have hp := readRecord_prog c { stream := st }
  rcases hr : readRecord c { stream := st } with e | ⟨fr, t⟩
  · exact Or.inl ⟨e, rfl, rfl⟩
  · simp only
    have hpt := hp _ hr
    have hT : allRecords c (remaining t + 2) (setHE true (!true) { t with firstRecord := fr }) [] =
        mapSt (setHE true false) (allRecsR c (remaining t + 1) { t with firstRecord := fr } []) := by
      rw [show (!true) = false from rfl, allRecords_setHE, allRecsR_fuel]
      show remaining t < remaining t + 1
      omega
    cases fr with
    | none =>
      have hd : Dead { t with firstRecord := none } := hpt.2.1 rfl
      have hF : allRecords c (remaining t + 2) (setHE false (!false) { t with firstRecord := none }) [] =
          .ok ([], setHE false false { t with firstRecord := none }) := rfl
      rw [hT, hF, allRecsR_dead c _ _ hd]
      exact Or.inr (Or.inl ⟨_, rfl, rfl⟩)
    | some hd =>
      have hF : allRecords c (remaining t + 2) (setHE false (!false) { t with firstRecord := some hd }) [] =
          allRecords c (remaining t + 1) (setHE false false { t with firstRecord := some hd }) [hd] := rfl
      rw [hT, hF, allRecords_setHE]
      have ha := allRecsR_acc c (remaining t + 1) { t with firstRecord := some hd } [] [hd]
      simp only [List.nil_append] at ha
      rw [ha]
      rcases allRecsR c (remaining t + 1) { t with firstRecord := some hd } [] with e | ⟨recs, s2⟩
      · exact Or.inl ⟨e, rfl, rfl⟩
      · exact Or.inr (Or.inr ⟨hd, recs, readerWarnings s2, rfl, rfl⟩)

end HeaderLine
open HeaderLine

/-! ### the header-line theorems -/

/-- the query modifier simply replaces the caller's flag -/
theorem readAll_modifier_overrides (c : RCfg) (hasHeader : Bool) (b : Bool) (st : Stream) :
    readAll c hasHeader (some b) st = readAll c b none st := by
  rw [readAll_eq, readAll_eq]

/-- without a header the first record read is delivered as data; with a header it is the header and the
records delivered are exactly the remaining ones, in order; warnings are the same (the reader counts the header
line as record 1 in both cases) -/
theorem readAll_header_never_data (c : RCfg) (st : Stream) (r : ReadResult)
    (h : readAll c true none st = .ok r) :
    ∃ r', readAll c false none st = .ok r' ∧ r'.header = none ∧ r'.warnings = r.warnings ∧
      r'.records = (match r.header with | some hd => hd :: r.records | none => r.records) := by
  rw [readAll_eq] at h ⊢
  simp only at h ⊢
  rcases runWith_cases c st with ⟨e, h1, _⟩ | ⟨w, h1, h2⟩ | ⟨hd, recs, w, h1, h2⟩
  · rw [h1] at h; simp at h
  · rw [h1] at h
    simp only [Except.ok.injEq] at h
    subst h
    exact ⟨_, h2, rfl, rfl, rfl⟩
  · rw [h1] at h
    simp only [Except.ok.injEq] at h
    subst h
    exact ⟨_, h2, rfl, rfl, rfl⟩

theorem readAll_error_same (c : RCfg) (st : Stream) (e : ReadErr) :
    readAll c true none st = .error e ↔ readAll c false none st = .error e := by
  rw [readAll_eq, readAll_eq]
  simp only
  rcases runWith_cases c st with ⟨e', h1, h2⟩ | ⟨w, h1, h2⟩ | ⟨hd, recs, w, h1, h2⟩
  · rw [h1, h2]
  · rw [h1, h2]
  · rw [h1, h2]; simp

/-! ### the JS reader -/

theorem jsResult_modifier_overrides (st : JState) (hasHeader b : Bool) :
    jsResult st hasHeader (some b) = jsResult st b none := rfl

theorem jsResult_header_never_data (st : JState) (r : ReadResult)
    (h : jsResult st true none = .ok r) :
    ∃ r', jsResult st false none = .ok r' ∧ r'.header = none ∧ r'.warnings = r.warnings ∧
      r'.records = (match r.header with | some hd => hd :: r.records | none => r.records) := by
  unfold jsResult at h ⊢
  cases he : st.err with
  | some e => rw [he] at h; simp at h
  | none =>
    rw [he] at h
    simp only [if_true, Except.ok.injEq] at h
    subst h
    refine ⟨_, rfl, rfl, rfl, ?_⟩
    simp only [Bool.false_eq_true, if_false]
    cases st.out.reverse with
    | nil => rfl
    | cons a as => rfl

end Rbql
