/-
  String literals are opaque to the shallow query parser, and interchangeable spellings.

  PART 1 (opacity).  The earlier theorems about `separateLiterals` (parts and literals re-assemble to the text,
  literals are put back verbatim) would also hold for a scanner that finds no literal at all.  Here it is proved
  that a quoted string IS extracted:
    (1a) `matchLiteral_plain` / `matchLiteral_esc`, `separateAux_literal`: one literal after a quote-free prefix;
    (1b) `separateLiterals_render`: a text made of quote-free stretches and quoted strings is split into exactly
         these; the format expression is built from the stretches and the placeholders only;
    (1c) `literal_opacity` (+ `literal_opacity_bodies`, `literal_opacity_pipeline`): changing the literal bodies does
         not change the format expression, hence nothing that the rest of the parser sees;
    (1d) bodies may contain escaped quotes and backslashes: `EscBody`.
  Every side condition comes with the counterexample that forces it (section "counterexamples").

  PART 2 (interchangeable spellings).
    (2a) `parseJoinPairs_render`, `parseJoinExpression_render`, `on_clause_spelling_irrelevant`:
         `=`/`==`, spacing, case of `on`/`and` in a JOIN clause;
    (2b) `redundant_from_a_end`, `redundant_from_a_mid`, `redundant_update_a`: `FROM a`, `UPDATE a SET`;
    (2c) `keyword_case_irrelevant`: the case of the keywords for the whole of `separateActions`.
-/
import Rbql.Proofs.ParseInvariance
import Rbql.Proofs.ClauseOrder
namespace Rbql.LitOp

/-! # PART 1: literals are extracted -/

/-! ### one literal -/

/-- the two quote characters -/
def IsQuote (q : Char) : Prop := q = '"' ∨ q = '\''

theorem literalBody_close (q : Char) (post : Str) (fuel : Nat) (prev : Bool) :
    literalBody [q] (fuel + 1) (q :: post) prev = some post := by
  simp [literalBody, List.isPrefixOf]

theorem literalBody_plain_step (q c : Char) (r : Str) (fuel : Nat) (prev : Bool) (h1 : c ≠ q) (h2 : c ≠ '\\') (h3 : c ≠ LF) :
    literalBody [q] (fuel + 1) (c :: r) prev = literalBody [q] fuel r false := by
  rw [literalBody.eq_def]
  simp [List.isPrefixOf, h2, h3, Ne.symm h1]

/-- **(1d)** literal bodies in which every quote `q` is escaped, read as a sequence of units:
  * `plain c`: a character other than `q`, backslash and line feed;
  * `bs n c`: `n + 1` backslashes followed by such a character (`\n`, `\\x`, …);
  * `esc k`: an ODD number `2k + 1` of backslashes followed by the quote (`\'`, `\\\'`, …) — the look-ahead condition of the
    model (`the delimiter occurs again later on the same line`) always holds here, because the closing quote follows
    and the body contains no line feed;
  * `tail k`: the body ends with an EVEN number `2k` of backslashes (`k = 0`: the body ends).
A body that ends with an odd run of backslashes is NOT covered: there the result depends on the text after the literal
(`matchLiteral_backslash_counterexample`). -/
inductive EscBody (q : Char) : Str → Prop
  | tail (k : Nat) : EscBody q (List.replicate (2 * k) '\\')
  | plain (c : Char) (b : Str) : c ≠ q → c ≠ '\\' → c ≠ LF → EscBody q b → EscBody q (c :: b)
  | bs (n : Nat) (c : Char) (b : Str) : c ≠ q → c ≠ '\\' → c ≠ LF → EscBody q b →
      EscBody q (List.replicate (n + 1) '\\' ++ c :: b)
  | esc (k : Nat) (b : Str) : EscBody q b → EscBody q (List.replicate (2 * k + 1) '\\' ++ q :: b)

theorem bsRun_replicate (n : Nat) (c : Char) (r : Str) (hc : c ≠ '\\') :
    bsRun (List.replicate n '\\' ++ c :: r) = n := by
  induction n with
  | zero => simp [bsRun, hc]
  | succ n ih => simp [List.replicate_succ, bsRun, ih]

theorem drop_replicate_append (n : Nat) (x : Char) (r : Str) : (List.replicate n x ++ r).drop n = r := by
  simp

/-- a backslash preceded by a backslash is consumed as an ordinary character -/
theorem literalBody_bsTrue (q : Char) (hq : q ≠ '\\') (m : Nat) (r : Str) (fuel : Nat) :
    literalBody [q] (fuel + m) (List.replicate m '\\' ++ r) true = literalBody [q] fuel r true := by
  induction m with
  | zero => rfl
  | succ m ih =>
    rw [← Nat.add_assoc, List.replicate_succ, List.cons_append, literalBody.eq_def]
    simp [List.isPrefixOf, hq, LF]
    exact ih

theorem EscBody.noLF {q : Char} (hq : q ≠ LF) {b : Str} (h : EscBody q b) : LF ∉ b := by
  induction h with
  | tail k => intro hm; exact absurd (List.eq_of_mem_replicate hm) (by decide)
  | plain c b h1 h2 h3 _ ih => simp [Ne.symm h3, ih]
  | bs n c b h1 h2 h3 _ ih =>
    simp only [List.mem_append, List.mem_cons, not_or]
    exact ⟨fun hm => absurd (List.eq_of_mem_replicate hm) (by decide), Ne.symm h3, ih⟩
  | esc k b _ ih =>
    simp only [List.mem_append, List.mem_cons, not_or]
    exact ⟨fun hm => absurd (List.eq_of_mem_replicate hm) (by decide), Ne.symm hq, ih⟩

theorem occursIn_line (q : Char) (b post : Str) (hb : LF ∉ b) (hq : q ≠ LF) :
    occursIn [q] ((b ++ q :: post).takeWhile (· != LF)) = true := by
  induction b with
  | nil => simp [occursIn, hq, List.isPrefixOf]
  | cons c cs ih =>
    simp only [List.mem_cons, not_or] at hb
    have : (c != LF) = true := by simp [Ne.symm hb.1]
    simp only [List.cons_append, List.takeWhile_cons, this, if_true, occursIn, Bool.or_eq_true]
    right; exact ih hb.2

/-- the scan of the body of a literal, started after the opening quote, ends right after the closing quote -/
theorem literalBody_esc (q : Char) (hq : IsQuote q) (b : Str) (hb : EscBody q b) :
    ∀ (post : Str) (fuel : Nat), b.length < fuel → literalBody [q] fuel (b ++ q :: post) false = some post := by
  have hqb : q ≠ '\\' := by rcases hq with rfl | rfl <;> decide
  have hql : q ≠ LF := by rcases hq with rfl | rfl <;> decide
  induction hb with
  | tail k =>
    intro post fuel hf
    obtain ⟨f, rfl⟩ : ∃ f, fuel = f + 1 := ⟨fuel - 1, by omega⟩
    cases k with
    | zero => exact literalBody_close q post f false
    | succ k =>
      have e : List.replicate (2 * (k + 1)) '\\' = '\\' :: List.replicate (2 * k + 1) '\\' := by
        rw [show 2 * (k + 1) = (2 * k + 1) + 1 by omega, List.replicate_succ]
      have hrun : bsRun ('\\' :: (List.replicate (2 * k + 1) '\\' ++ q :: post)) = 2 * (k + 1) := by
        have := bsRun_replicate (2 * (k + 1)) q post hqb
        rwa [e] at this
      rw [e, List.cons_append, literalBody.eq_def]
      simp only [hrun]
      simp only [List.length_replicate] at hf
      obtain ⟨g, rfl⟩ : ∃ g, f = (g + 1) + (2 * k + 1) := ⟨f - (2 * k + 1) - 1, by omega⟩
      simp [List.isPrefixOf, hqb, LF]
      rw [literalBody_bsTrue q hqb]
      exact literalBody_close q post g true
  | plain c b h1 h2 h3 _ ih =>
    intro post fuel hf
    obtain ⟨f, rfl⟩ : ∃ f, fuel = f + 1 := ⟨fuel - 1, by omega⟩
    rw [List.cons_append, literalBody_plain_step q c _ f false h1 h2 h3]
    exact ih post f (by simp at hf; omega)
  | bs n c b h1 h2 h3 _ ih =>
    intro post fuel hf
    simp only [List.length_append, List.length_replicate, List.length_cons] at hf
    obtain ⟨g, rfl⟩ : ∃ g, fuel = ((g + 1) + n) + 1 := ⟨fuel - n - 2, by omega⟩
    have hrun : bsRun ('\\' :: (List.replicate n '\\' ++ c :: (b ++ q :: post))) = n + 1 := by
      have := bsRun_replicate (n + 1) c (b ++ q :: post) h2
      rwa [List.replicate_succ] at this
    have hdrop : List.drop n (List.replicate n '\\' ++ c :: (b ++ q :: post)) = c :: (b ++ q :: post) :=
      drop_replicate_append _ _ _
    have e : (List.replicate (n + 1) '\\' ++ c :: b) ++ q :: post = '\\' :: (List.replicate n '\\' ++ c :: (b ++ q :: post)) := by
      simp [List.replicate_succ]
    rw [e, literalBody.eq_def]
    simp only [hrun]
    simp [List.isPrefixOf, hqb, LF, hdrop, Ne.symm h1]
    rw [literalBody_bsTrue q hqb, literalBody_plain_step q c _ g true h1 h2 h3]
    exact ih post g (by omega)
  | esc k b hb ih =>
    intro post fuel hf
    simp only [List.length_append, List.length_replicate, List.length_cons] at hf
    obtain ⟨f, rfl⟩ : ∃ f, fuel = f + 1 := ⟨fuel - 1, by omega⟩
    have hrun : bsRun ('\\' :: (List.replicate (2 * k) '\\' ++ q :: (b ++ q :: post))) = 2 * k + 1 := by
      have := bsRun_replicate (2 * k + 1) q (b ++ q :: post) hqb
      rwa [List.replicate_succ] at this
    have hdrop : List.drop (2 * k) (List.replicate (2 * k) '\\' ++ q :: (b ++ q :: post)) = q :: (b ++ q :: post) :=
      drop_replicate_append _ _ _
    have hdrop2 : List.drop (2 * k + 1) (List.replicate (2 * k) '\\' ++ q :: (b ++ q :: post)) = b ++ q :: post := by
      rw [← List.drop_drop, hdrop]; rfl
    have hocc := occursIn_line q b post (hb.noLF hql) hql
    have e : (List.replicate (2 * k + 1) '\\' ++ q :: b) ++ q :: post = '\\' :: (List.replicate (2 * k) '\\' ++ q :: (b ++ q :: post)) := by
      simp [List.replicate_succ]
    rw [e, literalBody.eq_def]
    simp only [hrun]
    simp [List.isPrefixOf, hqb, hdrop, hdrop2, hocc]
    exact ih post f (by omega)


theorem EscBody.head {q : Char} (hq : q ≠ '\\') {b : Str} (h : EscBody q b) : b.head? ≠ some q := by
  cases h with
  | tail k =>
    cases k with
    | zero => simp
    | succ k =>
      rw [show 2 * (k + 1) = (2 * k + 1) + 1 by omega, List.replicate_succ]
      simp [Ne.symm hq]
  | plain c b h1 _ _ _ => simp [h1]
  | bs n c b _ _ _ _ => simp [List.replicate_succ, Ne.symm hq]
  | esc k b _ => simp [List.replicate_succ, Ne.symm hq]

/-- the triple-quote alternative does not apply -/
theorem triple_not_prefix (q : Char) (b post : Str) (hh : b.head? ≠ some q)
    (hnt : b ≠ [] ∨ post.head? ≠ some q) : [q, q, q].isPrefixOf (q :: b ++ q :: post) = false := by
  cases b with
  | nil =>
    cases post with
    | nil => simp [List.isPrefixOf]
    | cons p ps =>
      have : p ≠ q := by
        rcases hnt with h | h
        · exact absurd rfl h
        · simpa using h
      simp [List.isPrefixOf, Ne.symm this]
  | cons c cs =>
    have : c ≠ q := by simpa using hh
    simp [List.isPrefixOf, Ne.symm this]


/-- one alternative of the literal pattern -/
def tryDelim (s d : Str) : Option (Str × Str) :=
  if d.isPrefixOf s then
    (literalBody d (s.length + 1) (s.drop d.length) false).map (fun rest => (s.take (s.length - rest.length), rest))
  else none

theorem matchLiteral_eq (s : Str) : matchLiteral s = DELIMS.findSome? (tryDelim s) := rfl

theorem tryDelim_other (c : Char) (s d : Str) (x : Char) (hx : x ≠ c) : tryDelim (c :: s) (x :: d) = none := by
  simp [tryDelim, List.isPrefixOf, hx]

/-- the quoted string is the literal EXACTLY when the triple-quote alternative of the pattern fails at this place
(see `matchLiteral_triple_wins` for the converse) -/
theorem matchLiteral_esc_of_triple (q : Char) (hq : IsQuote q) (b post : Str) (hb : EscBody q b)
    (htr : tryDelim (q :: b ++ q :: post) [q, q, q] = none) :
    matchLiteral (q :: b ++ q :: post) = some (q :: b ++ [q], post) := by
  have hbody := literalBody_esc q hq b hb post ((q :: b ++ q :: post).length + 1) (by simp; omega)
  have htake : (q :: b ++ q :: post).take ((q :: b ++ q :: post).length - post.length) = q :: b ++ [q] := by
    have e : q :: b ++ q :: post = (q :: b ++ [q]) ++ post := by simp
    rw [e, List.take_left' (by simp only [List.length_append, List.length_cons, List.length_nil]; omega)]
  have hone : tryDelim (q :: b ++ q :: post) [q] = some (q :: b ++ [q], post) := by
    have hp : [q].isPrefixOf (q :: b ++ q :: post) = true := by simp [List.isPrefixOf]
    have hd : (q :: b ++ q :: post).drop [q].length = b ++ q :: post := rfl
    simp only [tryDelim, hp, if_true, hd, hbody, Option.map_some, htake]
  rw [matchLiteral_eq]
  unfold DELIMS
  rcases hq with rfl | rfl
  · simp only [List.cons_append] at hone htr
    simp only [List.findSome?, htr, List.cons_append, tryDelim_other '"' _ _ '\'' (by decide), hone]
  · simp only [List.cons_append] at hone htr
    simp only [List.findSome?, htr, List.cons_append, tryDelim_other '\'' _ _ '"' (by decide), hone]

/-- when the triple-quote alternative matches, its match is the literal -/
theorem matchLiteral_triple_wins (q : Char) (hq : IsQuote q) (s : Str) (x : Str × Str)
    (h : tryDelim (q :: s) [q, q, q] = some x) : matchLiteral (q :: s) = some x := by
  rw [matchLiteral_eq]
  unfold DELIMS
  rcases hq with rfl | rfl
  · simp only [List.findSome?, h]
  · simp only [List.findSome?, h, tryDelim_other '\'' _ _ '"' (by decide)]

/-- **(1a)/(1d)** a quote, a body in which every quote is escaped (`EscBody`), the same quote: the literal is the quoted
string and the rest is the text after the closing quote.  `hnt` (the body is not empty, or the next character is not the
same quote) excludes the triple-quote alternatives. -/
theorem matchLiteral_esc (q : Char) (hq : IsQuote q) (b post : Str) (hb : EscBody q b)
    (hnt : b ≠ [] ∨ post.head? ≠ some q) :
    matchLiteral (q :: b ++ q :: post) = some (q :: b ++ [q], post) := by
  have hqb : q ≠ '\\' := by rcases hq with rfl | rfl <;> decide
  apply matchLiteral_esc_of_triple q hq b post hb
  simp only [tryDelim, triple_not_prefix q b post (hb.head hqb) hnt]; rfl

/-- a literal body without the quote, without backslash and without line feed -/
def PlainBody (q : Char) (b : Str) : Prop := q ∉ b ∧ '\\' ∉ b ∧ LF ∉ b

theorem PlainBody.esc {q : Char} {b : Str} (h : PlainBody q b) : EscBody q b := by
  induction b with
  | nil => exact EscBody.tail 0
  | cons c cs ih =>
    obtain ⟨h1, h2, h3⟩ := h
    simp only [List.mem_cons, not_or] at h1 h2 h3
    exact EscBody.plain c cs (Ne.symm h1.1) (Ne.symm h2.1) (Ne.symm h3.1) (ih ⟨h1.2, h2.2, h3.2⟩)

/-- a text outside the literals: no quote of either kind -/
def NoQuote (s : Str) : Prop := '"' ∉ s ∧ '\'' ∉ s

theorem NoQuote.cons {c : Char} {s : Str} (h : NoQuote (c :: s)) : c ≠ '"' ∧ c ≠ '\'' ∧ NoQuote s := by
  obtain ⟨h1, h2⟩ := h
  simp only [List.mem_cons, not_or] at h1 h2
  exact ⟨Ne.symm h1.1, Ne.symm h2.1, h1.2, h2.2⟩

theorem matchLiteral_noquote (c : Char) (cs : Str) (h1 : c ≠ '"') (h2 : c ≠ '\'') : matchLiteral (c :: cs) = none := by
  rw [matchLiteral_eq]
  unfold DELIMS
  simp only [List.findSome?, tryDelim_other c _ _ '"' (Ne.symm h1), tryDelim_other c _ _ '\'' (Ne.symm h2)]

theorem separateAux_nil (fuel : Nat) (cur : Str) (parts lits : List Str) :
    separateAux fuel [] cur parts lits = ((cur.reverse :: parts).reverse, lits.reverse) := by
  cases fuel <;> rfl

/-- a quote-free stretch goes to the current format part -/
theorem separateAux_noquote (pre : Str) (hpre : NoQuote pre) : ∀ (rest : Str) (fuel : Nat) (cur : Str) (parts lits : List Str),
    separateAux (fuel + pre.length) (pre ++ rest) cur parts lits = separateAux fuel rest (pre.reverse ++ cur) parts lits := by
  induction pre with
  | nil => intro rest fuel cur parts lits; rfl
  | cons c cs ih =>
    intro rest fuel cur parts lits
    obtain ⟨h1, h2, h3⟩ := hpre.cons
    rw [List.length_cons, ← Nat.add_assoc, List.cons_append, separateAux, matchLiteral_noquote c _ h1 h2]
    simp only
    rw [ih h3]
    simp

/-- **(1a)** a quoted string IS extracted: after a quote-free prefix, the scanner emits the prefix as a format part, the quoted
string (with its quotes) as a literal, and continues on the text after the closing quote with an empty current part -/
theorem separateAux_literal (pre : Str) (hpre : NoQuote pre) (q : Char) (hq : IsQuote q) (b post : Str) (hb : EscBody q b)
    (hnt : b ≠ [] ∨ post.head? ≠ some q) (fuel : Nat) (cur : Str) (parts lits : List Str) :
    separateAux (fuel + 1 + pre.length) (pre ++ (q :: b ++ q :: post)) cur parts lits =
      separateAux fuel post [] ((cur.reverse ++ pre) :: parts) ((q :: b ++ [q]) :: lits) := by
  rw [separateAux_noquote pre hpre, List.cons_append, separateAux]
  have := matchLiteral_esc q hq b post hb hnt
  rw [List.cons_append] at this
  rw [this]
  simp

/-! ### (1b), (1c) any number of literals -/

/-- a quote-free stretch followed by a quoted string -/
structure Seg where
  pre : Str
  q : Char
  body : Str

/-- the literal as the scanner returns it: with its quotes -/
def Seg.lit (s : Seg) : Str := s.q :: s.body ++ [s.q]

/-- `pre₀ q₀ body₀ q₀ pre₁ q₁ body₁ q₁ … t` -/
def render : List Seg → Str → Str
  | [], t => t
  | s :: ss, t => s.pre ++ (s.q :: s.body ++ s.q :: render ss t)

/-- `pre₀ ___RBQL_STRING_LITERALi___ pre₁ ___RBQL_STRING_LITERAL(i+1)___ … t`: built from the texts OUTSIDE the quotes only -/
def fmtP : List Str → Str → Nat → Str
  | [], t, _ => t
  | p :: ps, t, i => p ++ placeholder i ++ fmtP ps t (i + 1)

def tabsToSpaces (s : Str) : Str := s.map (fun c => if c = '\t' then ' ' else c)

/-- the side conditions of (1a) for every segment; the fourth excludes the triple-quote alternatives: it can fail only
for an EMPTY literal immediately followed by another literal with the same quote (`segsOk_of_bodies`, `segsOk_of_gaps`) -/
def SegsOk : List Seg → Str → Prop
  | [], t => NoQuote t
  | s :: ss, t => NoQuote s.pre ∧ IsQuote s.q ∧ EscBody s.q s.body ∧
      (s.body ≠ [] ∨ (render ss t).head? ≠ some s.q) ∧ SegsOk ss t

def partsOf (c : Str) : List Seg → Str → List Str
  | [], t => [c ++ t]
  | s :: ss, t => (c ++ s.pre) :: partsOf [] ss t

theorem separateAux_render (segs : List Seg) (t : Str) (h : SegsOk segs t) : ∀ (fuel : Nat) (cur : Str),
    (render segs t).length < fuel →
    separateAux fuel (render segs t) cur [] [] = (partsOf cur.reverse segs t, segs.map Seg.lit) := by
  induction segs with
  | nil =>
    intro fuel cur hf
    simp only [render] at hf ⊢
    obtain ⟨f, rfl⟩ : ∃ f, fuel = f + t.length := ⟨fuel - t.length, by omega⟩
    have := separateAux_noquote t h [] f cur [] []
    rw [List.append_nil] at this
    rw [this, separateAux_nil]
    simp [partsOf]
  | cons s ss ih =>
    intro fuel cur hf
    obtain ⟨h1, h2, h3, h4, h5⟩ := h
    simp only [render] at hf ⊢
    simp only [List.length_append, List.length_cons] at hf
    obtain ⟨f, rfl⟩ : ∃ f, fuel = f + 1 + s.pre.length := ⟨fuel - 1 - s.pre.length, by omega⟩
    rw [separateAux_literal s.pre h1 s.q h2 s.body _ h3 h4, separateAux_acc, ih h5 f [] (by omega)]
    simp [partsOf, Seg.lit]

theorem partsOf_cons (c : Str) (segs : List Seg) (t : Str) : ∃ p ps, partsOf c segs t = p :: ps := by
  cases segs <;> exact ⟨_, _, rfl⟩

theorem interleave_partsOf (segs : List Seg) (t : Str) : ∀ (c : Str) (i : Nat),
    interleaveParts (partsOf c segs t) i = c ++ fmtP (segs.map (·.pre)) t i := by
  induction segs with
  | nil => intro c i; rfl
  | cons s ss ih =>
    intro c i
    obtain ⟨p, ps, e⟩ := partsOf_cons [] ss t
    have := ih [] (i + 1)
    rw [e] at this
    simp only [partsOf, e, interleave_cons_cons, this, List.map_cons, fmtP]
    simp

/-- **(1b)** every quoted string is extracted: the format expression is built from the texts outside the quotes and the
placeholders only (it contains NO character of any literal body), and the literals are the quoted strings in order -/
theorem separateLiterals_render (segs : List Seg) (t : Str) (h : SegsOk segs t) :
    separateLiterals (render segs t) = (tabsToSpaces (fmtP (segs.map (·.pre)) t 0), segs.map Seg.lit) := by
  unfold separateLiterals
  rw [separateAux_render segs t h _ [] (Nat.lt_succ_self _)]
  simp only [List.reverse_nil, interleave_partsOf, List.nil_append]
  rfl

/-- **(1c) opacity**: the format expression does not depend on the literal bodies (nor on the kind of quote) -/
theorem literal_opacity (segs segs' : List Seg) (t : Str) (h : SegsOk segs t) (h' : SegsOk segs' t)
    (hpre : segs.map (·.pre) = segs'.map (·.pre)) :
    (separateLiterals (render segs t)).1 = (separateLiterals (render segs' t)).1 := by
  rw [separateLiterals_render segs t h, separateLiterals_render segs' t h', hpre]


/-! ### (1a) in its plain form, helpers for `SegsOk`, (1c) for replaced bodies and for the whole pipeline -/

instance (q : Char) : Decidable (IsQuote q) := by unfold IsQuote; infer_instance
instance (s : Str) : Decidable (NoQuote s) := by unfold NoQuote; infer_instance
instance (q : Char) (b : Str) : Decidable (PlainBody q b) := by unfold PlainBody; infer_instance

/-- **(1a)** a quote, a body without that quote, backslash and line feed, the same quote: the literal is the quoted
string, the rest is what follows.  `hnt` excludes the triple-quote alternatives of the pattern: it is needed only for an
empty body followed by one more quote of the same kind (`matchLiteral_triple_counterexample`). -/
theorem matchLiteral_plain (q : Char) (hq : IsQuote q) (b post : Str) (hb : PlainBody q b)
    (hnt : b ≠ [] ∨ post.head? ≠ some q) :
    matchLiteral (q :: b ++ q :: post) = some (q :: b ++ [q], post) :=
  matchLiteral_esc q hq b post hb.esc hnt

theorem NoQuote.head {t : Str} (h : NoQuote t) {q : Char} (hq : IsQuote q) : t.head? ≠ some q := by
  cases t with
  | nil => simp
  | cons c cs =>
    obtain ⟨h1, h2, _⟩ := h.cons
    rcases hq with rfl | rfl
    · simpa using h1
    · simpa using h2

/-- **(1a)** one quoted string between two quote-free texts -/
theorem separateLiterals_single (pre : Str) (hpre : NoQuote pre) (q : Char) (hq : IsQuote q) (b : Str) (hb : EscBody q b)
    (t : Str) (ht : NoQuote t) :
    separateLiterals (pre ++ (q :: b ++ q :: t)) = (tabsToSpaces (pre ++ placeholder 0 ++ t), [q :: b ++ [q]]) :=
  separateLiterals_render [⟨pre, q, b⟩] t ⟨hpre, hq, hb, Or.inr (ht.head hq), ht⟩

/-- the part of `SegsOk` that concerns one segment alone -/
def SegBasic (s : Seg) : Prop := NoQuote s.pre ∧ IsQuote s.q ∧ EscBody s.q s.body

theorem NoQuote.append_head {p : Str} (hp : NoQuote p) (hne : p ≠ []) (X : Str) {q : Char} (hq : IsQuote q) :
    (p ++ X).head? ≠ some q := by
  cases p with
  | nil => exact absurd rfl hne
  | cons c cs => exact NoQuote.head (t := [c]) ⟨by have := hp.cons; simp [Ne.symm this.1], by have := hp.cons; simp [Ne.symm this.2.1]⟩ hq

theorem render_head (ss : List Seg) (t : Str) (q : Char) (hq : IsQuote q) (ht : NoQuote t)
    (hgap : ∀ s, ss.head? = some s → s.pre ≠ [] ∧ NoQuote s.pre) : (render ss t).head? ≠ some q := by
  cases ss with
  | nil => exact ht.head hq
  | cons s ss =>
    obtain ⟨h1, h2⟩ := hgap s rfl
    simp only [render]
    exact h2.append_head h1 _ hq

/-- `SegsOk` holds when no literal is empty -/
theorem segsOk_of_bodies (segs : List Seg) (t : Str) (h : ∀ s ∈ segs, SegBasic s ∧ s.body ≠ []) (ht : NoQuote t) :
    SegsOk segs t := by
  induction segs with
  | nil => exact ht
  | cons s ss ih =>
    obtain ⟨⟨h1, h2, h3⟩, h4⟩ := h s (by simp)
    exact ⟨h1, h2, h3, Or.inl h4, ih (fun x hx => h x (by simp [hx]))⟩

/-- `SegsOk` holds when consecutive literals are separated by at least one character -/
theorem segsOk_of_gaps (segs : List Seg) (t : Str) (h : ∀ s ∈ segs, SegBasic s) (hg : ∀ s ∈ segs.tail, s.pre ≠ [])
    (ht : NoQuote t) : SegsOk segs t := by
  induction segs with
  | nil => exact ht
  | cons s ss ih =>
    obtain ⟨h1, h2, h3⟩ := h s (by simp)
    refine ⟨h1, h2, h3, Or.inr ?_, ih (fun x hx => h x (by simp [hx])) (fun x hx => hg x (List.mem_of_mem_tail hx))⟩
    apply render_head ss t s.q h2 ht
    intro x hx
    have hm : x ∈ ss := List.mem_of_mem_head? hx
    exact ⟨hg x hm, (h x (by simp [hm])).1⟩

/-- the segments with other literal bodies -/
def withBodies : List Seg → List Str → List Seg
  | s :: ss, b :: bs => { s with body := b } :: withBodies ss bs
  | _, _ => []

theorem withBodies_pre (segs : List Seg) : ∀ (bs : List Str), bs.length = segs.length →
    (withBodies segs bs).map (·.pre) = segs.map (·.pre) := by
  induction segs with
  | nil => intro bs _; cases bs <;> rfl
  | cons s ss ih =>
    intro bs hl
    cases bs with
    | nil => simp at hl
    | cons b bs => simp [withBodies, ih bs (by simpa using hl)]

/-- **(1c)** replacing every literal body by any other admissible body leaves the format expression unchanged: keywords,
stars, `=`, `#`, commas, semicolons inside quotes never change what the rest of the parser sees -/
theorem literal_opacity_bodies (segs : List Seg) (bs : List Str) (t : Str) (hl : bs.length = segs.length)
    (h : SegsOk segs t) (h' : SegsOk (withBodies segs bs) t) :
    (separateLiterals (render (withBodies segs bs) t)).1 = (separateLiterals (render segs t)).1 :=
  literal_opacity _ _ t h' h (withBodies_pre segs bs hl)

/-- **(1c)** the rest of the shallow parse (redundant table name, statements and their spans) is the same -/
theorem literal_opacity_pipeline (segs segs' : List Seg) (t : Str) (h : SegsOk segs t) (h' : SegsOk segs' t)
    (hpre : segs.map (·.pre) = segs'.map (·.pre)) :
    separateActions (removeRedundantTableName (separateLiterals (render segs t)).1) =
      separateActions (removeRedundantTableName (separateLiterals (render segs' t)).1) := by
  rw [literal_opacity segs segs' t h h' hpre]

/-! ### the hypotheses are satisfiable; counterexamples for each side condition -/

/-- `select a1, 'from' where a2 == "x; #'" limit 3`: the keyword in the first literal, the semicolon, `#` and the
other kind of quote in the second are never seen by the rest of the parser -/
example :
    render [⟨"select a1, ".toList, '\'', "from".toList⟩, ⟨" where a2 == ".toList, '"', "x; #'".toList⟩] " limit 3".toList
      = "select a1, 'from' where a2 == \"x; #'\" limit 3".toList ∧
    SegsOk [⟨"select a1, ".toList, '\'', "from".toList⟩, ⟨" where a2 == ".toList, '"', "x; #'".toList⟩] " limit 3".toList := by
  refine ⟨by decide, segsOk_of_bodies _ _ ?_ (by decide)⟩
  intro s hs
  simp only [List.mem_cons, List.not_mem_nil, or_false] at hs
  rcases hs with rfl | rfl <;> exact ⟨⟨by decide, by decide, PlainBody.esc (by decide)⟩, by decide⟩

/-- `'it\'s'`, `'a\\'`, `'\n'` (backslash, n): bodies with escapes -/
example : EscBody '\'' "it\\'s".toList ∧ EscBody '\'' "a\\\\".toList ∧ EscBody '\'' "\\n".toList :=
  ⟨.plain 'i' _ (by decide) (by decide) (by decide) (.plain 't' _ (by decide) (by decide) (by decide)
      (.esc 0 _ (.plain 's' _ (by decide) (by decide) (by decide) (.tail 0)))),
   .plain 'a' _ (by decide) (by decide) (by decide) (.tail 1),
   .bs 0 'n' _ (by decide) (by decide) (by decide) (.tail 0)⟩

/-- the body must not contain the quote: the literal ends at the first one -/
theorem matchLiteral_quote_counterexample :
    matchLiteral "'a'b' c".toList = some ("'a'".toList, "b' c".toList) := by decide +kernel

/-- a body that ENDS with an odd run of backslashes is outside `EscBody`, and there the result depends on the text after
the literal (the look-ahead of the pattern): the literal ends at that quote only if no quote follows on the line -/
theorem matchLiteral_backslash_counterexample :
    matchLiteral "'a\\' c".toList = some ("'a\\'".toList, " c".toList) ∧
    matchLiteral "'a\\' c 'd'".toList = some ("'a\\' c '".toList, "d'".toList) := by decide +kernel

/-- the body must not contain a line feed -/
theorem matchLiteral_linefeed_counterexample : matchLiteral "'a\nb' c".toList = none := by decide +kernel

/-- `hnt` is needed: with an empty body followed by the same quote the triple-quote alternative can apply -/
theorem matchLiteral_triple_counterexample :
    matchLiteral ('"' :: [] ++ '"' :: "\" x \"\"\" y".toList) = some ("\"\"\" x \"\"\"".toList, " y".toList) := by
  decide +kernel

/-- the same at the level of `separateLiterals`: `''`, `' x '`, `''` written without gaps is ONE literal -/
theorem separateLiterals_triple_counterexample :
    render [⟨[], '\'', []⟩, ⟨[], '\'', " x ".toList⟩, ⟨[], '\'', []⟩] [] = "''' x '''".toList ∧
    separateLiterals "''' x '''".toList = (placeholder 0, ["''' x '''".toList]) := by decide +kernel

/-- the text before a literal must not contain a quote: the apostrophe opens a literal -/
theorem separateLiterals_prefix_counterexample :
    separateLiterals "it's 'x'".toList = ("it".toList ++ placeholder 0 ++ "x'".toList, ["'s '".toList]) := by
  decide +kernel


/-! # PART 2: interchangeable spellings -/

/-! ### (2a) the ON clause -/

/-- `w` is a re-casing of `k` -/
def CI (k w : Str) : Prop := w.map lowerChar = k.map lowerChar

theorem CI.length {k w : Str} (h : CI k w) : w.length = k.length := by
  have := congrArg List.length h
  simpa using this

theorem ciPrefix_of_CI (k w : Str) (h : CI k w) (X : Str) : ciPrefix k (w ++ X) = true := by
  induction k generalizing w with
  | nil => simp [ciPrefix]
  | cons a k ih =>
    cases w with
    | nil => simp [CI] at h
    | cons c cs =>
      simp only [CI, List.map_cons, List.cons.injEq] at h
      simp [ciPrefix, h.1, ih cs h.2]

theorem CI.drop {k w : Str} (h : CI k w) (X : Str) : (w ++ X).drop k.length = X := by
  rw [← h.length, List.drop_left]

theorem CI.nosp {k w : Str} (h : CI k w) (hk : ' ' ∉ k) : ' ' ∉ w := by
  intro hm
  apply hk
  have : lowerChar ' ' ∈ w.map lowerChar := List.mem_map.mpr ⟨' ', hm, rfl⟩
  rw [h, lowerChar_sp] at this
  obtain ⟨c, hc, e⟩ := List.mem_map.mp this
  rw [(lowerChar_space c).mp e] at hc; exact hc

def sp (n : Nat) : Str := List.replicate n ' '

theorem sp_succ (n : Nat) (X : Str) : sp (n + 1) ++ X = ' ' :: (sp n ++ X) := by simp [sp, List.replicate_succ]

theorem sp_head (n : Nat) (X : Str) : (sp (n + 1) ++ X).head? = some ' ' := by rw [sp_succ]; rfl

theorem CI.head {k w : Str} (h : CI k w) (hk : ' ' ∉ k) (hne : k ≠ []) (X : Str) : (w ++ X).head? ≠ some ' ' := by
  have h1 := h.nosp hk
  have hl := h.length
  cases hword : w with
  | nil => rw [hword] at hl; exact absurd (List.eq_nil_of_length_eq_zero hl.symm) hne
  | cons c cs => rw [hword] at h1; simp only [List.mem_cons, not_or] at h1; simp [Ne.symm h1.1]

theorem dropSpaces_sp (n : Nat) (X : Str) (h : X.head? ≠ some ' ') : dropSpaces (sp n ++ X) = X := by
  induction n with
  | zero =>
    cases X with
    | nil => rfl
    | cons c cs =>
      have : c ≠ ' ' := by simpa using h
      simp [sp, dropSpaces, this]
  | succ n ih =>
    simp only [sp, List.replicate_succ, List.cons_append, dropSpaces, List.dropWhile_cons, beq_self_eq_true, if_true]
    exact ih

theorem head_append_ne (v X : Str) (c : Char) (hv : v ≠ []) (hc : c ∉ v) : (v ++ X).head? ≠ some c := by
  cases v with
  | nil => exact absurd rfl hv
  | cons a as =>
    simp only [List.mem_cons, not_or] at hc
    simp [Ne.symm hc.1]

/-- a variable name in an ON clause -/
def VarOk (v : Str) : Prop := v ≠ [] ∧ ' ' ∉ v ∧ '=' ∉ v

theorem takeVar_append (v X : Str) (h1 : ' ' ∉ v) (h2 : '=' ∉ v)
    (hX : X = [] ∨ X.head? = some ' ' ∨ X.head? = some '=') : takeVar (v ++ X) = (v, X) := by
  unfold takeVar
  induction v with
  | nil =>
    rcases hX with rfl | hX | hX
    · rfl
    · cases X with
      | nil => rfl
      | cons c cs => simp at hX; subst hX; simp
    · cases X with
      | nil => rfl
      | cons c cs => simp at hX; subst hX; simp
  | cons c cs ih =>
    simp only [List.mem_cons, not_or] at h1 h2
    have := ih h1.2 h2.2
    simp only [Prod.mk.injEq] at this
    simp [Ne.symm h1.1, Ne.symm h2.1, this.1, this.2]

def eqText (dbl : Bool) : Str := if dbl then ['=', '='] else ['=']

/-- the common part of one step of `parseJoinPairs` -/
theorem parseJoinPairs_step (l r : Str) (hl : VarOk l) (hr : VarOk r) (n m : Nat) (dbl : Bool) (tail : Str)
    (htail : tail = [] ∨ tail.head? = some ' ') (fuel : Nat) :
    parseJoinPairs (fuel + 1) (l ++ (sp n ++ (eqText dbl ++ (sp m ++ (r ++ tail))))) =
      if tail = [] then .ok [(l, r)]
      else
        let r7 := dropSpaces tail
        if ciPrefix "and".toList r7 ∧ (r7.drop 3).head? = some ' ' then do
          let rest ← parseJoinPairs fuel (dropSpaces (r7.drop 3))
          pure ((l, r) :: rest)
        else .error .invalidJoin := by
  obtain ⟨hl1, hl2, hl3⟩ := hl
  obtain ⟨hr1, hr2, hr3⟩ := hr
  have hY : (sp m ++ (r ++ tail)).head? ≠ some '=' := by
    cases m with
    | zero => exact head_append_ne r tail '=' hr1 hr3
    | succ m => simp [sp, List.replicate_succ]
  have hX : ∀ Z, (sp n ++ (eqText dbl ++ Z)).head? = some ' ' ∨ (sp n ++ (eqText dbl ++ Z)).head? = some '=' := by
    intro Z
    cases n with
    | zero => right; cases dbl <;> rfl
    | succ n => left; simp [sp, List.replicate_succ]
  have h1 : takeVar (l ++ (sp n ++ (eqText dbl ++ (sp m ++ (r ++ tail))))) = (l, sp n ++ (eqText dbl ++ (sp m ++ (r ++ tail)))) :=
    takeVar_append l _ hl2 hl3 (Or.inr (hX _))
  have h2 : dropSpaces (sp n ++ (eqText dbl ++ (sp m ++ (r ++ tail)))) = eqText dbl ++ (sp m ++ (r ++ tail)) :=
    dropSpaces_sp n _ (by cases dbl <;> simp [eqText])
  have h3 : dropSpaces (sp m ++ (r ++ tail)) = r ++ tail := dropSpaces_sp m _ (head_append_ne r tail ' ' hr1 hr2)
  have h4 : takeVar (r ++ tail) = (r, tail) := takeVar_append r tail hr2 hr3 (htail.imp id Or.inl)
  have h5 : parseJoinPairs.match_1 (fun _ => Str) (sp m ++ (r ++ tail)) (fun x => x) (fun _ => sp m ++ (r ++ tail)) =
      sp m ++ (r ++ tail) := by
    split
    · rename_i x heq; rw [heq] at hY; simp at hY
    · rfl
  rw [parseJoinPairs, h1]
  simp only [hl1, if_false, h2]
  cases dbl
  · simp only [eqText, Bool.false_eq_true, if_false, List.singleton_append, h5, h3, h4, hr1]
    by_cases ht : tail = []
    · simp [ht]
    · have hh : tail.head? = some ' ' := htail.resolve_left ht
      simp only [ht, if_false, hh, true_and]
  · simp only [eqText, if_true, List.cons_append, List.nil_append, h3, h4, hr1, if_false]
    by_cases ht : tail = []
    · simp [ht]
    · have hh : tail.head? = some ' ' := htail.resolve_left ht
      simp only [ht, if_false, hh, true_and]


structure OnPair where
  l : Str
  r : Str
  n : Nat
  m : Nat
  dbl : Bool

def OnPair.Ok (p : OnPair) : Prop := VarOk p.l ∧ VarOk p.r

/-- `l`, spaces, `=` or `==`, spaces, `r` -/
def OnPair.text (p : OnPair) : Str := p.l ++ (sp p.n ++ (eqText p.dbl ++ (sp p.m ++ p.r)))

/-- ` and ` in any case with at least one space on each side -/
structure AndSep where
  word : Str
  a : Nat
  b : Nat

def AndSep.Ok (s : AndSep) : Prop := CI "and".toList s.word

def AndSep.text (s : AndSep) : Str := sp (s.a + 1) ++ (s.word ++ sp (s.b + 1))

def renderOn : OnPair → List (AndSep × OnPair) → Str
  | p, [] => p.text
  | p, (s, p2) :: rest => p.text ++ (s.text ++ renderOn p2 rest)

def pairsOf (p : OnPair) (rest : List (AndSep × OnPair)) : List (Str × Str) :=
  (p.l, p.r) :: rest.map (fun x => (x.2.l, x.2.r))

theorem renderOn_head (p : OnPair) (hp : p.Ok) (rest : List (AndSep × OnPair)) : (renderOn p rest).head? ≠ some ' ' := by
  cases rest with
  | nil => exact head_append_ne p.l _ ' ' hp.1.1 hp.1.2.1
  | cons x xs =>
    obtain ⟨s, p2⟩ := x
    simp only [renderOn, OnPair.text, List.append_assoc]
    exact head_append_ne p.l _ ' ' hp.1.1 hp.1.2.1

/-- **(2a)** the pairs of an ON clause: `=` or `==`, any spacing around them, ` and ` in any case -/
theorem parseJoinPairs_render (rest : List (AndSep × OnPair)) : ∀ (p : OnPair) (fuel : Nat), p.Ok →
    (∀ x ∈ rest, x.1.Ok ∧ x.2.Ok) → rest.length < fuel →
    parseJoinPairs fuel (renderOn p rest) = .ok (pairsOf p rest) := by
  induction rest with
  | nil =>
    intro p fuel hp _ hf
    obtain ⟨f, rfl⟩ : ∃ f, fuel = f + 1 := ⟨fuel - 1, by omega⟩
    have := parseJoinPairs_step p.l p.r hp.1 hp.2 p.n p.m p.dbl [] (Or.inl rfl) f
    simp only [List.append_nil, if_true] at this
    exact this
  | cons x xs ih =>
    intro p fuel hp hall hf
    obtain ⟨s, p2⟩ := x
    obtain ⟨hs, hp2⟩ := hall (s, p2) (by simp)
    obtain ⟨f, rfl⟩ : ∃ f, fuel = f + 1 := ⟨fuel - 1, by omega⟩
    have hrec := ih p2 f hp2 (fun y hy => hall y (by simp [hy])) (by simpa using hf)
    have htail : s.text ++ renderOn p2 xs ≠ [] := by simp [AndSep.text, sp, List.replicate_succ]
    have hhead : (s.text ++ renderOn p2 xs).head? = some ' ' := by simp [AndSep.text, sp, List.replicate_succ]
    have h7 : dropSpaces (s.text ++ renderOn p2 xs) = s.word ++ (sp (s.b + 1) ++ renderOn p2 xs) := by
      have := dropSpaces_sp (s.a + 1) (s.word ++ (sp (s.b + 1) ++ renderOn p2 xs)) (hs.head (by decide) (by decide) _)
      simpa [AndSep.text, List.append_assoc] using this
    have h8 : ciPrefix "and".toList (s.word ++ (sp (s.b + 1) ++ renderOn p2 xs)) = true := ciPrefix_of_CI _ _ hs _
    have h9 : (s.word ++ (sp (s.b + 1) ++ renderOn p2 xs)).drop 3 = sp (s.b + 1) ++ renderOn p2 xs := hs.drop _
    have h10 : (sp (s.b + 1) ++ renderOn p2 xs).head? = some ' ' := by simp [sp, List.replicate_succ]
    have h11 : dropSpaces (sp (s.b + 1) ++ renderOn p2 xs) = renderOn p2 xs :=
      dropSpaces_sp _ _ (renderOn_head p2 hp2 xs)
    have := parseJoinPairs_step p.l p.r hp.1 hp.2 p.n p.m p.dbl (s.text ++ renderOn p2 xs) (Or.inr hhead) f
    simp only [htail, if_false, h7, h8, h9, h10, h11, hrec, and_self, if_true] at this
    simp only [renderOn, OnPair.text, List.append_assoc] at this ⊢
    rw [this]
    rfl

theorem renderOn_length (p : OnPair) (rest : List (AndSep × OnPair)) : rest.length < (renderOn p rest).length + 1 := by
  induction rest generalizing p with
  | nil => simp
  | cons x xs ih =>
    obtain ⟨s, p2⟩ := x
    have := ih p2
    simp only [renderOn, List.length_append, List.length_cons, AndSep.text, sp, List.length_replicate]
    omega

theorem takeWhile_nosp (v X : Str) (h : ' ' ∉ v) : (v ++ ' ' :: X).takeWhile (· != ' ') = v ∧
    (v ++ ' ' :: X).dropWhile (· != ' ') = ' ' :: X := by
  induction v with
  | nil => simp
  | cons c cs ih =>
    simp only [List.mem_cons, not_or] at h
    have := ih h.2
    simp [Ne.symm h.1, this.1, this.2]

/-- **(2a)** the whole JOIN clause text: table id, `on` in any case, the pairs; `src` may carry surrounding white space -/
theorem parseJoinExpression_render (src tid onw : Str) (j k : Nat) (p : OnPair) (rest : List (AndSep × OnPair))
    (hsrc : pyStrip src = tid ++ (sp (j + 1) ++ (onw ++ (sp (k + 1) ++ renderOn p rest))))
    (htid : tid ≠ [] ∧ ' ' ∉ tid) (hon : CI "on".toList onw) (hp : p.Ok) (hrest : ∀ x ∈ rest, x.1.Ok ∧ x.2.Ok) :
    parseJoinExpression src = .ok (tid, pairsOf p rest) := by
  have e1 : sp (j + 1) ++ (onw ++ (sp (k + 1) ++ renderOn p rest)) = ' ' :: (sp j ++ (onw ++ (sp (k + 1) ++ renderOn p rest))) := by
    simp [sp, List.replicate_succ]
  have hw : (onw ++ (sp (k + 1) ++ renderOn p rest)).head? ≠ some ' ' := hon.head (by decide) (by decide) _
  have h2 : dropSpaces (' ' :: (sp j ++ (onw ++ (sp (k + 1) ++ renderOn p rest)))) = onw ++ (sp (k + 1) ++ renderOn p rest) := by
    rw [← e1]; exact dropSpaces_sp _ _ hw
  have h3 : ciPrefix "on".toList (onw ++ (sp (k + 1) ++ renderOn p rest)) = true := ciPrefix_of_CI _ _ hon _
  have h4 : (onw ++ (sp (k + 1) ++ renderOn p rest)).drop 2 = sp (k + 1) ++ renderOn p rest := hon.drop _
  have h5 : (sp (k + 1) ++ renderOn p rest).head? = some ' ' := by simp [sp, List.replicate_succ]
  have h6 : dropSpaces (sp (k + 1) ++ renderOn p rest) = renderOn p rest := dropSpaces_sp _ _ (renderOn_head p hp rest)
  have hfuel : rest.length < (tid ++ ' ' :: (sp j ++ (onw ++ (sp (k + 1) ++ renderOn p rest)))).length + 1 := by
    have := renderOn_length p rest
    simp only [List.length_append, List.length_cons]
    omega
  have h7 := parseJoinPairs_render rest p _ hp hrest hfuel
  obtain ⟨t1, t2⟩ := takeWhile_nosp tid (sp j ++ (onw ++ (sp (k + 1) ++ renderOn p rest))) htid.2
  unfold parseJoinExpression
  simp only [hsrc, e1, t1, t2, h2, h3, h4, h5, h6, h7, htid.1]
  simp
  rfl


instance (k w : Str) : Decidable (CI k w) := by unfold CI; infer_instance
instance (v : Str) : Decidable (VarOk v) := by unfold VarOk; infer_instance
instance (p : OnPair) : Decidable p.Ok := by unfold OnPair.Ok; infer_instance
instance (s : AndSep) : Decidable s.Ok := by unfold AndSep.Ok; infer_instance

/-- **(2a)** one pair: `l = r`, `l==r`, `l  ==r`, … all give `[(l, r)]` -/
theorem parseJoinPairs_single (l r : Str) (hl : VarOk l) (hr : VarOk r) (n m : Nat) (dbl : Bool) (fuel : Nat) :
    parseJoinPairs (fuel + 1) (l ++ (sp n ++ (eqText dbl ++ (sp m ++ r)))) = .ok [(l, r)] :=
  parseJoinPairs_render [] ⟨l, r, n, m, dbl⟩ (fuel + 1) ⟨hl, hr⟩ (by simp) (by simp)

theorem dropWhile_ws_sp (n : Nat) (X : Str) : (sp n ++ X).dropWhile isPyWs = X.dropWhile isPyWs := by
  induction n with
  | zero => rfl
  | succ n ih =>
    rw [sp_succ, List.dropWhile_cons]
    have : isPyWs ' ' = true := by decide
    rw [this]; exact ih

/-- spaces around a text that neither starts nor ends with white space are stripped -/
theorem pyStrip_sp_core (i e : Nat) (core : Str) (h1 : ∀ c, core.head? = some c → isPyWs c = false)
    (h2 : ∀ c, core.getLast? = some c → isPyWs c = false) : pyStrip (sp i ++ (core ++ sp e)) = core := by
  rw [pyStrip_eq, dropWhile_ws_sp]
  cases core with
  | nil =>
    have := dropWhile_ws_sp e []
    rw [List.append_nil] at this
    rw [List.nil_append, this]; rfl
  | cons c cs =>
    have hc : isPyWs c = false := h1 c rfl
    rw [List.cons_append, List.dropWhile_cons, hc]
    simp only [Bool.false_eq_true, if_false]
    have hr : (c :: (cs ++ sp e)).reverse = sp e ++ (c :: cs).reverse := by
      simp [sp]
    rw [hr, dropWhile_ws_sp]
    have d : ∀ t : Str, (∀ x, t.head? = some x → isPyWs x = false) → t.dropWhile isPyWs = t := by
      intro t ht
      cases t with
      | nil => rfl
      | cons x xs => simp [ht x rfl]
    rw [d _ (by rw [List.head?_reverse]; exact h2), List.reverse_reverse]

theorem renderOn_ne_nil (p : OnPair) (hp : p.Ok) (rest : List (AndSep × OnPair)) : renderOn p rest ≠ [] := by
  have hl : p.l ≠ [] := hp.1.1
  cases rest with
  | nil => simp [renderOn, OnPair.text, hl]
  | cons x xs => obtain ⟨s, p2⟩ := x; simp [renderOn, OnPair.text, hl]

/-- **(2a)** the same with the surrounding spaces written out -/
theorem parseJoinExpression_spaced (i e j k : Nat) (tid onw : Str) (p : OnPair) (rest : List (AndSep × OnPair))
    (htid : tid ≠ [] ∧ ' ' ∉ tid) (hfirst : ∀ c, tid.head? = some c → isPyWs c = false)
    (hlast : ∀ c, (renderOn p rest).getLast? = some c → isPyWs c = false)
    (hon : CI "on".toList onw) (hp : p.Ok) (hrest : ∀ x ∈ rest, x.1.Ok ∧ x.2.Ok) :
    parseJoinExpression (sp i ++ ((tid ++ (sp (j + 1) ++ (onw ++ (sp (k + 1) ++ renderOn p rest)))) ++ sp e)) =
      .ok (tid, pairsOf p rest) := by
  apply parseJoinExpression_render _ tid onw j k p rest _ htid hon hp hrest
  apply pyStrip_sp_core
  · intro c hc
    apply hfirst c
    cases ht : tid with
    | nil => exact absurd ht htid.1
    | cons a as => rw [ht] at hc; exact hc
  · intro c hc
    apply hlast c
    have e1 : tid ++ (sp (j + 1) ++ (onw ++ (sp (k + 1) ++ renderOn p rest))) =
        (tid ++ (sp (j + 1) ++ (onw ++ sp (k + 1)))) ++ renderOn p rest := by simp
    rw [e1, List.getLast?_append] at hc
    cases hl : (renderOn p rest).getLast? with
    | none => exact absurd (List.getLast?_eq_none_iff.mp hl) (renderOn_ne_nil p hp rest)
    | some z => rw [hl] at hc; exact hc

/-- **(2a), conclusion**: two JOIN clauses with the same table id and the same pairs of variable names parse to the same
result, whatever the choice between `=` and `==`, the spacing, and the case of `on` and `and` -/
theorem on_clause_spelling_irrelevant (src src' tid onw onw' : Str) (j k j' k' : Nat) (p p' : OnPair)
    (rest rest' : List (AndSep × OnPair))
    (hsrc : pyStrip src = tid ++ (sp (j + 1) ++ (onw ++ (sp (k + 1) ++ renderOn p rest))))
    (hsrc' : pyStrip src' = tid ++ (sp (j' + 1) ++ (onw' ++ (sp (k' + 1) ++ renderOn p' rest'))))
    (htid : tid ≠ [] ∧ ' ' ∉ tid) (hon : CI "on".toList onw) (hon' : CI "on".toList onw')
    (hp : p.Ok) (hp' : p'.Ok) (hrest : ∀ x ∈ rest, x.1.Ok ∧ x.2.Ok) (hrest' : ∀ x ∈ rest', x.1.Ok ∧ x.2.Ok)
    (hsame : pairsOf p rest = pairsOf p' rest') :
    parseJoinExpression src = parseJoinExpression src' := by
  rw [parseJoinExpression_render src tid onw j k p rest hsrc htid hon hp hrest,
    parseJoinExpression_render src' tid onw' j' k' p' rest' hsrc' htid hon' hp' hrest', hsame]

/-- ` b  ON a1=b1   AnD  a2 ==b2 ` and `b on a1 == b1 and a2 = b2` -/
example :
    parseJoinExpression " b  ON a1=b1   AnD  a2 ==b2 ".toList =
      .ok ("b".toList, [("a1".toList, "b1".toList), ("a2".toList, "b2".toList)]) ∧
    parseJoinExpression " b  ON a1=b1   AnD  a2 ==b2 ".toList = parseJoinExpression "b on a1 == b1 and a2 = b2".toList := by
  have h1 := parseJoinExpression_render " b  ON a1=b1   AnD  a2 ==b2 ".toList "b".toList "ON".toList 1 0
    ⟨"a1".toList, "b1".toList, 0, 0, false⟩ [(⟨"AnD".toList, 2, 1⟩, ⟨"a2".toList, "b2".toList, 1, 0, true⟩)]
    (by decide) (by decide) (by decide) (by decide) (by decide)
  have h2 := parseJoinExpression_render "b on a1 == b1 and a2 = b2".toList "b".toList "on".toList 0 0
    ⟨"a1".toList, "b1".toList, 1, 1, true⟩ [(⟨"and".toList, 0, 0⟩, ⟨"a2".toList, "b2".toList, 1, 1, false⟩)]
    (by decide) (by decide) (by decide) (by decide) (by decide)
  exact ⟨h1, h1.trans h2.symm⟩

/-- only `=` and `==`: a third `=` (or a space between the two) is an error, and ` and` must be followed by a space -/
theorem parseJoin_counterexamples :
    (parseJoinExpression "b on a1 === b1".toList).toOption = none ∧
    (parseJoinExpression "b on a1 = = b1".toList).toOption = none ∧
    (parseJoinExpression "b on a1=b1 anda2=b2".toList).toOption = none := by decide +kernel


/-! ### (2b) the redundant table name -/

theorem ciPrefix_take (k t : Str) (h : ciPrefix k t = true) : CI k (t.take k.length) ∧ k.length ≤ t.length := by
  induction k generalizing t with
  | nil => simp [CI]
  | cons a k ih =>
    cases t with
    | nil => simp [ciPrefix] at h
    | cons c cs =>
      simp only [ciPrefix, Bool.and_eq_true, beq_iff_eq] at h
      obtain ⟨i1, i2⟩ := ih cs h.2
      refine ⟨?_, by simp; omega⟩
      simp only [CI, List.length_cons, List.take_succ_cons, List.map_cons, List.cons.injEq]
      exact ⟨h.1.symm, i1⟩

def fromW : Str := "from".toList

/-- the test made by `removeFromA` at a space: the text after the spaces starts with `from` and a space -/
def FromHead (s1 : Str) : Prop := ciPrefix fromW s1 = true ∧ (s1.drop 4).head? = some ' '

/-- a space-free token that is not `from` (in any case) does not start a match, whatever follows it -/
theorem not_fromHead_token (tok R : Str) (ht : ' ' ∉ tok) (hne : ¬ CI fromW tok) (hR : R = [] ∨ R.head? = some ' ') :
    ¬ FromHead (tok ++ R) := by
  rintro ⟨h1, h2⟩
  rw [ciPrefix_token fromW (by decide) tok R hR] at h1
  obtain ⟨i1, i2⟩ := ciPrefix_take _ _ h1
  have hl : fromW.length = 4 := rfl
  rw [hl] at i1 i2
  have hd : (tok ++ R).drop 4 = tok.drop 4 ++ R := by
    rw [List.drop_append_of_le_length i2]
  rw [hd] at h2
  by_cases he : tok.drop 4 = []
  · apply hne
    have : tok.take 4 = tok := by
      have := List.take_append_drop 4 tok
      rw [he, List.append_nil] at this; exact this
    rwa [this] at i1
  · cases hx : tok.drop 4 with
    | nil => exact he hx
    | cons c cs =>
      rw [hx] at h2
      simp only [List.cons_append, List.head?_cons, Option.some.injEq] at h2
      have : c ∈ tok := List.mem_of_mem_drop (by rw [hx]; simp)
      rw [h2] at this
      exact ht this

theorem removeFromA_nil (fuel : Nat) : removeFromA fuel [] = [] := by cases fuel <;> rfl

theorem removeFromA_char (fuel : Nat) (c : Char) (cs : Str) (hc : c ≠ ' ') :
    removeFromA (fuel + 1) (c :: cs) = c :: removeFromA fuel cs := by
  simp [removeFromA, hc]

theorem dropSpaces_cons_sp (cs : Str) : dropSpaces (' ' :: cs) = dropSpaces cs := by
  simp [dropSpaces]

theorem removeFromA_nohit (fuel : Nat) (cs : Str) (h : ¬ FromHead (dropSpaces cs)) :
    removeFromA (fuel + 1) (' ' :: cs) = ' ' :: removeFromA fuel cs := by
  unfold FromHead at h
  rw [removeFromA]
  simp only [dropSpaces_cons_sp, if_true]
  exact if_neg h

theorem removeFromA_nospace (A : Str) (hA : ' ' ∉ A) (Z : Str) (fuel : Nat) :
    removeFromA (fuel + A.length) (A ++ Z) = A ++ removeFromA fuel Z := by
  induction A with
  | nil => rfl
  | cons c cs ih =>
    simp only [List.mem_cons, not_or] at hA
    rw [List.length_cons, ← Nat.add_assoc, List.cons_append, removeFromA_char _ c _ (Ne.symm hA.1), ih hA.2]
    rfl

/-- no space-separated token is `from` (in any case) -/
def NoFromTok (s : Str) : Prop := ∀ tok ∈ splitOn [' '] s, ¬ CI fromW tok

/-- after the leading spaces of a text that does not end with a space comes a non-empty token -/
theorem dropSpaces_token (r : Str) : r ≠ [] → r.getLast? ≠ some ' ' →
    ∃ tok R, dropSpaces r = tok ++ R ∧ tok ≠ [] ∧ ' ' ∉ tok ∧ tok ∈ splitOn [' '] r ∧ (R = [] ∨ R.head? = some ' ') := by
  induction r with
  | nil => intro h; exact absurd rfl h
  | cons c cs ih =>
    intro _ hl
    by_cases hc : c = ' '
    · subst hc
      have hcs : cs ≠ [] := by rintro rfl; simp at hl
      have hl' : cs.getLast? ≠ some ' ' := by
        rw [List.getLast?_cons_of_ne_nil hcs] at hl; exact hl
      obtain ⟨tok, R, e, h0, h1, h2, h3⟩ := ih hcs hl'
      refine ⟨tok, R, by rw [dropSpaces_cons_sp]; exact e, h0, h1, ?_, h3⟩
      have : splitOn [' '] (' ' :: cs) = [] :: splitOn [' '] cs := splitOn_sp_append [] cs (by simp)
      rw [this]; exact List.mem_cons_of_mem _ h2
    · have hd : dropSpaces (c :: cs) = c :: cs := by simp [dropSpaces, hc]
      rcases token_split (c :: cs) with h | ⟨b, r2, e, hb⟩
      · exact ⟨c :: cs, [], by rw [hd]; simp, by simp, h, by rw [splitOn_sp_none _ h]; simp, Or.inl rfl⟩
      · have hbne : b ≠ [] := by
          rintro rfl
          simp only [List.nil_append, List.cons.injEq] at e
          exact hc e.1
        refine ⟨b, ' ' :: r2, by rw [hd, e], hbne, hb, ?_, Or.inr rfl⟩
        rw [e, splitOn_sp_append b r2 hb]; simp

theorem NoFromTok.tail {b r : Str} (hb : ' ' ∉ b) (h : NoFromTok (b ++ ' ' :: r)) : NoFromTok r := by
  intro tok ht
  apply h
  rw [splitOn_sp_append b r hb]; exact List.mem_cons_of_mem _ ht

/-- a stretch without the token `from` that does not end with a space is copied -/
theorem removeFromA_skip (A : Str) : A.getLast? ≠ some ' ' → NoFromTok A → ∀ (Z : Str), (Z = [] ∨ Z.head? = some ' ') →
    ∀ fuel, removeFromA (fuel + A.length) (A ++ Z) = A ++ removeFromA fuel Z := by
  induction A using (measure List.length).wf.induction with
  | _ A ih =>
    intro hl hn Z hZ fuel
    rcases token_split A with hA | ⟨b, r, rfl, hb⟩
    · exact removeFromA_nospace A hA Z fuel
    · have hr : r ≠ [] := by rintro rfl; simp at hl
      have hl' : r.getLast? ≠ some ' ' := by
        rw [List.getLast?_append, List.getLast?_cons_of_ne_nil hr] at hl
        intro e; rw [e] at hl; simp at hl
      obtain ⟨tok, R, e, h0, h1, h2, h3⟩ := dropSpaces_token r hr hl'
      have hd : dropSpaces (r ++ Z) = tok ++ (R ++ Z) := by
        have hne : (dropSpaces r).isEmpty = false := by rw [e]; cases tok with
          | nil => exact absurd rfl h0
          | cons => rfl
        unfold dropSpaces at hne e ⊢
        rw [List.dropWhile_append, hne, e]
        simp
      have hRZ : R ++ Z = [] ∨ (R ++ Z).head? = some ' ' := by
        rcases h3 with rfl | h3
        · simpa using hZ
        · right
          cases R with
          | nil => simp at h3
          | cons x xs => simpa using h3
      have hnh : ¬ FromHead (dropSpaces (r ++ Z)) := by
        rw [hd]
        apply not_fromHead_token tok _ h1 _ hRZ
        apply hn
        rw [splitOn_sp_append b r hb]; exact List.mem_cons_of_mem _ h2
      have hrec := ih r (by show r.length < (b ++ ' ' :: r).length; simp; omega) hl' (hn.tail hb) Z hZ fuel
      have e1 : fuel + (b ++ ' ' :: r).length = ((fuel + r.length) + 1) + b.length := by simp; omega
      rw [e1, List.append_assoc, removeFromA_nospace b hb, List.cons_append, removeFromA_nohit _ _ hnh, hrec]
      simp


def aW : Str := "a".toList

/-- a match of ` +from +a( +|$)` (any case) is replaced by one space, and the scan continues after it -/
theorem removeFromA_hit (fw aw : Str) (hf : CI fromW fw) (ha : CI aW aw) (i j k : Nat) (rest : Str)
    (hrest : rest.head? ≠ some ' ') (hk : 0 < k ∨ rest = []) (fuel : Nat) :
    removeFromA (fuel + 1) (sp (i + 1) ++ (fw ++ (sp (j + 1) ++ (aw ++ (sp k ++ rest))))) = ' ' :: removeFromA fuel rest := by
  have h1 : dropSpaces (sp i ++ (fw ++ (sp (j + 1) ++ (aw ++ (sp k ++ rest))))) = fw ++ (sp (j + 1) ++ (aw ++ (sp k ++ rest))) :=
    dropSpaces_sp _ _ (hf.head (by decide) (by decide) _)
  have h2 : ciPrefix "from".toList (fw ++ (sp (j + 1) ++ (aw ++ (sp k ++ rest)))) = true := ciPrefix_of_CI _ _ hf _
  have h3 : (fw ++ (sp (j + 1) ++ (aw ++ (sp k ++ rest)))).drop 4 = sp (j + 1) ++ (aw ++ (sp k ++ rest)) := hf.drop _
  have h4 : (sp (j + 1) ++ (aw ++ (sp k ++ rest))).head? = some ' ' := sp_head _ _
  have h5 : dropSpaces (sp (j + 1) ++ (aw ++ (sp k ++ rest))) = aw ++ (sp k ++ rest) :=
    dropSpaces_sp _ _ (ha.head (by decide) (by decide) _)
  have h6 : ciPrefix "a".toList (aw ++ (sp k ++ rest)) = true := ciPrefix_of_CI _ _ ha _
  have h7 : (aw ++ (sp k ++ rest)).drop 1 = sp k ++ rest := ha.drop _
  rw [sp_succ, removeFromA]
  simp only [if_true, dropSpaces_cons_sp, h1, h2, h3, h4, h5, h6, h7, and_self]
  cases k with
  | zero =>
    have : rest = [] := hk.resolve_left (by omega)
    subst this
    simp [sp, removeFromA_nil]
  | succ k =>
    have h8 : sp (k + 1) ++ rest ≠ [] := by rw [sp_succ]; simp
    have h9 : dropSpaces (sp (k + 1) ++ rest) = rest := dropSpaces_sp _ _ hrest
    simp only [h8, if_false, sp_head, if_true, h9]

theorem dropSpaces_length (x : Str) : (dropSpaces x).length ≤ x.length :=
  (List.dropWhile_sublist _).length_le

/-- the fuel does not matter once it covers the text -/
theorem removeFromA_fuel : ∀ (f1 f2 : Nat) (s : Str), s.length ≤ f1 → s.length ≤ f2 → removeFromA f1 s = removeFromA f2 s := by
  intro f1
  induction f1 with
  | zero =>
    intro f2 s h1 _
    have : s = [] := List.eq_nil_of_length_eq_zero (by omega)
    subst this
    rw [removeFromA_nil, removeFromA_nil]
  | succ n ih =>
    intro f2 s h1 h2
    cases s with
    | nil => rw [removeFromA_nil, removeFromA_nil]
    | cons c cs =>
      obtain ⟨g, rfl⟩ : ∃ g, f2 = g + 1 := ⟨f2 - 1, by simp at h2; omega⟩
      simp only [List.length_cons] at h1 h2
      have e1 := ih g cs (by omega) (by omega)
      have hlen : (dropSpaces (List.drop 1 (dropSpaces (List.drop 4 (dropSpaces (c :: cs)))))).length ≤ cs.length := by
        by_cases hc : c = ' '
        · subst hc
          rw [dropSpaces_cons_sp]
          have a1 := dropSpaces_length cs
          have a2 := dropSpaces_length (List.drop 4 (dropSpaces cs))
          have a3 := dropSpaces_length (List.drop 1 (dropSpaces (List.drop 4 (dropSpaces cs))))
          simp only [List.length_drop] at a2 a3 ⊢
          omega
        · have : dropSpaces (c :: cs) = c :: cs := by simp [dropSpaces, hc]
          rw [this]
          have a2 := dropSpaces_length (List.drop 4 (c :: cs))
          have a3 := dropSpaces_length (List.drop 1 (dropSpaces (List.drop 4 (c :: cs))))
          simp only [List.length_drop, List.length_cons] at a2 a3 ⊢
          omega
      have e2 := ih g _ (Nat.le_trans hlen (by omega)) (Nat.le_trans hlen (by omega))
      simp only [removeFromA, e1, e2]

theorem pyStrip_append_sp (s : Str) : pyStrip (s ++ [' ']) = pyStrip s := by
  rw [pyStrip_eq, pyStrip_eq, List.dropWhile_append]
  split
  · rename_i h
    have : s.dropWhile isPyWs = [] := List.isEmpty_iff.mp h
    rw [this]
    rfl
  · rw [List.reverse_append]
    simp only [List.reverse_cons, List.reverse_nil, List.nil_append, List.cons_append, List.dropWhile_cons]
    have : isPyWs ' ' = true := by decide
    rw [this]; simp

theorem pyStrip_id (s : Str) (h1 : ∀ c, s.head? = some c → isPyWs c = false) (h2 : ∀ c, s.getLast? = some c → isPyWs c = false) :
    pyStrip s = s := by
  have d : ∀ t : Str, (∀ c, t.head? = some c → isPyWs c = false) → t.dropWhile isPyWs = t := by
    intro t ht
    cases t with
    | nil => rfl
    | cons c cs => simp [ht c rfl]
  rw [pyStrip_eq, d s h1, d s.reverse (by rw [List.head?_reverse]; exact h2), List.reverse_reverse]

/-- **(2b)** ` from a` at the end of the query (any case, any spacing, trailing spaces) is dropped -/
theorem redundant_from_a_end (sel fw aw : Str) (i j k : Nat) (hl : sel.getLast? ≠ some ' ') (hn : NoFromTok sel)
    (hf : CI fromW fw) (ha : CI aW aw) :
    removeRedundantTableName (sel ++ (sp (i + 1) ++ (fw ++ (sp (j + 1) ++ (aw ++ sp k))))) = removeRedundantTableName sel := by
  have hL : removeFromA ((sel ++ (sp (i + 1) ++ (fw ++ (sp (j + 1) ++ (aw ++ sp k))))).length + 1)
      (sel ++ (sp (i + 1) ++ (fw ++ (sp (j + 1) ++ (aw ++ sp k))))) = sel ++ [' '] := by
    have e : (sel ++ (sp (i + 1) ++ (fw ++ (sp (j + 1) ++ (aw ++ sp k))))).length + 1 =
        ((sp (i + 1) ++ (fw ++ (sp (j + 1) ++ (aw ++ sp k)))).length + 1) + sel.length := by
      simp only [List.length_append]; omega
    rw [e, removeFromA_skip sel hl hn _ (Or.inr (sp_head _ _))]
    have := removeFromA_hit fw aw hf ha i j k [] (by simp) (Or.inr rfl)
      ((sp (i + 1) ++ (fw ++ (sp (j + 1) ++ (aw ++ sp k)))).length)
    rw [List.append_nil] at this
    rw [this, removeFromA_nil]
  have hR : removeFromA (sel.length + 1) sel = sel := by
    have := removeFromA_skip sel hl hn [] (Or.inl rfl) 1
    rw [List.append_nil, removeFromA_nil, List.append_nil, Nat.add_comm] at this
    exact this
  unfold removeRedundantTableName
  rw [hL, hR, pyStrip_append_sp]

/-- **(2b)** ` from a ` in the middle of the query (any case, any spacing) is replaced by one space -/
theorem redundant_from_a_mid (sel fw aw rest : Str) (i j k : Nat) (hl : sel.getLast? ≠ some ' ') (hn : NoFromTok sel)
    (hf : CI fromW fw) (ha : CI aW aw) (hrest : rest.head? ≠ some ' ') (hnf : ¬ FromHead rest) :
    removeRedundantTableName (sel ++ (sp (i + 1) ++ (fw ++ (sp (j + 1) ++ (aw ++ (sp (k + 1) ++ rest)))))) =
      removeRedundantTableName (sel ++ ' ' :: rest) := by
  have hL : removeFromA ((sel ++ (sp (i + 1) ++ (fw ++ (sp (j + 1) ++ (aw ++ (sp (k + 1) ++ rest)))))).length + 1)
      (sel ++ (sp (i + 1) ++ (fw ++ (sp (j + 1) ++ (aw ++ (sp (k + 1) ++ rest)))))) =
      sel ++ ' ' :: removeFromA (rest.length + 1) rest := by
    have e : (sel ++ (sp (i + 1) ++ (fw ++ (sp (j + 1) ++ (aw ++ (sp (k + 1) ++ rest)))))).length + 1 =
        ((sp (i + 1) ++ (fw ++ (sp (j + 1) ++ (aw ++ (sp (k + 1) ++ rest))))).length + 1) + sel.length := by
      simp only [List.length_append]; omega
    rw [e, removeFromA_skip sel hl hn _ (Or.inr (sp_head _ _)),
      removeFromA_hit fw aw hf ha i j (k + 1) rest hrest (Or.inl (by omega))]
    rw [removeFromA_fuel _ (rest.length + 1) rest (by simp only [List.length_append]; omega) (by omega)]
  have hR : removeFromA ((sel ++ ' ' :: rest).length + 1) (sel ++ ' ' :: rest) =
      sel ++ ' ' :: removeFromA (rest.length + 1) rest := by
    have e : (sel ++ ' ' :: rest).length + 1 = ((rest.length + 1) + 1) + sel.length := by
      simp only [List.length_append, List.length_cons]; omega
    have hd : dropSpaces rest = rest := by
      have := dropSpaces_sp 0 rest hrest
      simpa [sp] using this
    rw [e, removeFromA_skip sel hl hn _ (Or.inr rfl), removeFromA_nohit _ _ (by rw [hd]; exact hnf)]
  unfold removeRedundantTableName
  rw [hL, hR]


def updateW : Str := "update".toList
def setW : Str := "set".toList

/-- `^ *update +a +set ` (any case, any spacing) becomes `update ` -/
theorem removeUpdateA_hit (uw aw sw x : Str) (i j k : Nat) (hu : CI updateW uw) (ha : CI aW aw) (hs : CI setW sw) :
    removeUpdateA (sp i ++ (uw ++ (sp (j + 1) ++ (aw ++ (sp (k + 1) ++ (sw ++ ' ' :: x)))))) = "update ".toList ++ x := by
  have h1 : dropSpaces (sp i ++ (uw ++ (sp (j + 1) ++ (aw ++ (sp (k + 1) ++ (sw ++ ' ' :: x)))))) =
      uw ++ (sp (j + 1) ++ (aw ++ (sp (k + 1) ++ (sw ++ ' ' :: x)))) := dropSpaces_sp _ _ (hu.head (by decide) (by decide) _)
  have h2 : ciPrefix "update".toList (uw ++ (sp (j + 1) ++ (aw ++ (sp (k + 1) ++ (sw ++ ' ' :: x))))) = true :=
    ciPrefix_of_CI _ _ hu _
  have h3 : (uw ++ (sp (j + 1) ++ (aw ++ (sp (k + 1) ++ (sw ++ ' ' :: x))))).drop 6 =
      sp (j + 1) ++ (aw ++ (sp (k + 1) ++ (sw ++ ' ' :: x))) := hu.drop _
  have h4 : (sp (j + 1) ++ (aw ++ (sp (k + 1) ++ (sw ++ ' ' :: x)))).head? = some ' ' := sp_head _ _
  have h5 : dropSpaces (sp (j + 1) ++ (aw ++ (sp (k + 1) ++ (sw ++ ' ' :: x)))) = aw ++ (sp (k + 1) ++ (sw ++ ' ' :: x)) :=
    dropSpaces_sp _ _ (ha.head (by decide) (by decide) _)
  have h6 : ciPrefix "a".toList (aw ++ (sp (k + 1) ++ (sw ++ ' ' :: x))) = true := ciPrefix_of_CI _ _ ha _
  have h7 : (aw ++ (sp (k + 1) ++ (sw ++ ' ' :: x))).drop 1 = sp (k + 1) ++ (sw ++ ' ' :: x) := ha.drop _
  have h8 : (sp (k + 1) ++ (sw ++ ' ' :: x)).head? = some ' ' := sp_head _ _
  have h9 : dropSpaces (sp (k + 1) ++ (sw ++ ' ' :: x)) = sw ++ ' ' :: x := dropSpaces_sp _ _ (hs.head (by decide) (by decide) _)
  have hs' : CI "set ".toList (sw ++ [' ']) := by
    unfold CI at hs ⊢
    rw [List.map_append, hs]; rfl
  have e : sw ++ ' ' :: x = (sw ++ [' ']) ++ x := by simp
  have h10 : ciPrefix "set ".toList (sw ++ ' ' :: x) = true := by rw [e]; exact ciPrefix_of_CI _ _ hs' _
  have h11 : (sw ++ ' ' :: x).drop 4 = x := by rw [e]; exact hs'.drop _
  unfold removeUpdateA
  simp only [h1, h2, h3, h4, h5, h6, h7, h8, h9, h10, h11, and_self, if_true]

theorem noFromTok_cons (A B : Str) (hA : ' ' ∉ A) (hne : ¬ CI fromW A) (hB : NoFromTok B) : NoFromTok (A ++ ' ' :: B) := by
  intro tok ht
  rw [splitOn_sp_append A B hA] at ht
  rcases List.mem_cons.mp ht with rfl | ht
  · exact hne
  · exact hB tok ht

theorem not_CI_of_length {k w : Str} (h : w.length ≠ k.length) : ¬ CI k w := fun hc => h hc.length

theorem noFromTok_sp (n : Nat) (B : Str) (hB : NoFromTok B) : NoFromTok (sp n ++ B) := by
  induction n with
  | zero => simpa [sp] using hB
  | succ n ih =>
    rw [sp_succ]
    exact noFromTok_cons [] _ (by simp) (not_CI_of_length (by decide)) ih

theorem lowerChar_ws (c : Char) (h : isPyWs c = true) : lowerChar c = c := by
  simp only [isPyWs, Bool.or_eq_true, decide_eq_true_eq] at h
  rcases h with ((((rfl | rfl) | rfl) | rfl) | rfl) | rfl <;> decide

theorem CI.head_notWs {k w : Str} (h : CI k w) (hk : ∀ c ∈ k, isPyWs (lowerChar c) = false) (X : Str) :
    ∀ c, (w ++ X).head? = some c → w ≠ [] → isPyWs c = false := by
  intro c hc hne
  cases hw : w with
  | nil => exact absurd hw hne
  | cons a as =>
    rw [hw] at hc h
    simp only [List.cons_append, List.head?_cons, Option.some.injEq] at hc
    subst hc
    cases hk' : k with
    | nil => rw [hk'] at h; simp [CI] at h
    | cons b bs =>
      rw [hk'] at h hk
      simp only [CI, List.map_cons, List.cons.injEq] at h
      cases hws : isPyWs a with
      | false => rfl
      | true =>
        have := lowerChar_ws a hws
        rw [this] at h
        have := hk b (by simp)
        rw [← h.1, hws] at this
        exact this

/-- **(2b)** `update a set x` (any case, any spacing) is read as `update x` -/
theorem redundant_update_a (uw aw sw x : Str) (j k : Nat) (hu : CI updateW uw) (ha : CI aW aw) (hs : CI setW sw)
    (hx : NoFromTok x) (hne : x ≠ []) (hlast : ∀ c, x.getLast? = some c → isPyWs c = false) :
    removeRedundantTableName (uw ++ (sp (j + 1) ++ (aw ++ (sp (k + 1) ++ (sw ++ ' ' :: x))))) = "update ".toList ++ x := by
  have hq : NoFromTok (uw ++ (sp (j + 1) ++ (aw ++ (sp (k + 1) ++ (sw ++ ' ' :: x))))) := by
    rw [sp_succ, sp_succ]
    apply noFromTok_cons uw _ (hu.nosp (by decide)) (not_CI_of_length (by rw [hu.length]; decide))
    apply noFromTok_sp
    apply noFromTok_cons aw _ (ha.nosp (by decide)) (not_CI_of_length (by rw [ha.length]; decide))
    apply noFromTok_sp
    exact noFromTok_cons sw _ (hs.nosp (by decide)) (not_CI_of_length (by rw [hs.length]; decide)) hx
  have hlastq : (uw ++ (sp (j + 1) ++ (aw ++ (sp (k + 1) ++ (sw ++ ' ' :: x))))).getLast? = x.getLast? := by
    have e : uw ++ (sp (j + 1) ++ (aw ++ (sp (k + 1) ++ (sw ++ ' ' :: x)))) =
        (uw ++ (sp (j + 1) ++ (aw ++ (sp (k + 1) ++ (sw ++ [' ']))))) ++ x := by simp
    rw [e, List.getLast?_append]
    cases hxl : x.getLast? with
    | none => exact absurd (List.getLast?_eq_none_iff.mp hxl) hne
    | some c => rfl
  have hnsp : x.getLast? ≠ some ' ' := fun e => by
    have := hlast ' ' e
    exact absurd this (by decide)
  have h1 : removeFromA ((uw ++ (sp (j + 1) ++ (aw ++ (sp (k + 1) ++ (sw ++ ' ' :: x))))).length + 1)
      (uw ++ (sp (j + 1) ++ (aw ++ (sp (k + 1) ++ (sw ++ ' ' :: x))))) =
      uw ++ (sp (j + 1) ++ (aw ++ (sp (k + 1) ++ (sw ++ ' ' :: x)))) := by
    have := removeFromA_skip _ (by rw [hlastq]; exact hnsp) hq [] (Or.inl rfl) 1
    rw [List.append_nil, removeFromA_nil, List.append_nil, Nat.add_comm] at this
    exact this
  have hune : uw ≠ [] := by
    intro e
    have := hu.length
    rw [e] at this
    exact absurd this (by decide)
  have h2 : pyStrip (uw ++ (sp (j + 1) ++ (aw ++ (sp (k + 1) ++ (sw ++ ' ' :: x))))) =
      uw ++ (sp (j + 1) ++ (aw ++ (sp (k + 1) ++ (sw ++ ' ' :: x)))) := by
    apply pyStrip_id
    · intro c hc
      exact hu.head_notWs (by decide) _ c hc hune
    · rw [hlastq]; exact hlast
  have h3 := removeUpdateA_hit uw aw sw x 0 j k hu ha hs
  simp only [sp, List.replicate_zero, List.nil_append] at h3
  have h4 : pyStrip ("update ".toList ++ x) = "update ".toList ++ x := by
    apply pyStrip_id
    · intro c hc
      have : c = 'u' := by
        have : ("update ".toList ++ x).head? = some 'u' := rfl
        rw [this] at hc; exact (Option.some.inj hc).symm
      rw [this]; decide
    · rw [List.getLast?_append]
      cases hxl : x.getLast? with
      | none => exact absurd (List.getLast?_eq_none_iff.mp hxl) hne
      | some c => intro c' hc'; simp only [Option.some_or, Option.some.injEq] at hc'; rw [← hc']; exact hlast c hxl
  unfold removeRedundantTableName
  rw [h1, h2]
  simp only [sp] at h3 ⊢
  rw [h3, h4]


/-- **(2b), conclusion**: two spellings of ` from a ` in the middle of a query (case of `from` and `a`, numbers of
spaces) give the same result -/
theorem from_a_spelling_irrelevant (sel fw aw fw' aw' rest : Str) (i j k i' j' k' : Nat) (hl : sel.getLast? ≠ some ' ')
    (hn : NoFromTok sel) (hf : CI fromW fw) (ha : CI aW aw) (hf' : CI fromW fw') (ha' : CI aW aw')
    (hrest : rest.head? ≠ some ' ') (hnf : ¬ FromHead rest) :
    removeRedundantTableName (sel ++ (sp (i + 1) ++ (fw ++ (sp (j + 1) ++ (aw ++ (sp (k + 1) ++ rest)))))) =
      removeRedundantTableName (sel ++ (sp (i' + 1) ++ (fw' ++ (sp (j' + 1) ++ (aw' ++ (sp (k' + 1) ++ rest)))))) := by
  rw [redundant_from_a_mid sel fw aw rest i j k hl hn hf ha hrest hnf,
    redundant_from_a_mid sel fw' aw' rest i' j' k' hl hn hf' ha' hrest hnf]

instance (s1 : Str) : Decidable (FromHead s1) := by unfold FromHead; infer_instance

/-- `select a1  FROM   A  where a2`, `select a1 from a where a2` and `select a1 where a2` -/
example :
    removeRedundantTableName ("select a1".toList ++ (sp 2 ++ ("FROM".toList ++ (sp 3 ++ ("A".toList ++ (sp 2 ++ "where a2".toList)))))) =
      removeRedundantTableName ("select a1".toList ++ ' ' :: "where a2".toList) := by
  apply redundant_from_a_mid "select a1".toList "FROM".toList "A".toList "where a2".toList 1 2 1 (by decide) _ (by decide)
    (by decide) (by decide) (by decide)
  have : splitOn [' '] "select a1".toList = ["select".toList, "a1".toList] := by decide +kernel
  intro tok ht
  rw [this] at ht
  simp only [List.mem_cons, List.not_mem_nil, or_false] at ht
  rcases ht with rfl | rfl <;> decide

/-- `¬ FromHead rest` is needed: after a match the scan continues AFTER the spaces it consumed, so a second `from a`
that follows immediately is not removed, while it is removed when it stands alone -/
theorem redundant_from_rest_counterexample :
    removeRedundantTableName "select x from a from a".toList = "select x from a".toList ∧
    removeRedundantTableName "select x from a".toList = "select x".toList := by decide +kernel

/-- `NoFromTok sel` is needed, for the same reason -/
theorem redundant_from_sel_counterexample :
    removeRedundantTableName "x from a from a z".toList = "x from a z".toList ∧
    removeRedundantTableName "x from a z".toList = "x z".toList := by decide +kernel

/-- `sel` must not end with a space: ALL spaces before `from` are replaced by one -/
theorem redundant_from_space_counterexample :
    removeRedundantTableName "x  from a z".toList = "x z".toList ∧
    removeRedundantTableName "x  z".toList = "x  z".toList := by decide +kernel

/-- `x ≠ []` is needed in `redundant_update_a`: the query is stripped before the `update a set ` pattern is tried -/
theorem redundant_update_counterexample :
    removeRedundantTableName "update a set ".toList = "update a set".toList ∧
    removeRedundantTableName "Update  A  SET  x = 1".toList = "update  x = 1".toList := by decide +kernel


/-! ### (2c) keyword case for the whole of `separateActions` -/

/-- ` keyword body` with the keyword spelled by `kw` -/
def renderClauseK (kw : Stmt → Str) (c : Stmt × Str) : Str := ' ' :: kw c.1 ++ ' ' :: c.2

def clausesTextK (kw : Stmt → Str) (cls : List (Stmt × Str)) : Str := (cls.map (renderClauseK kw)).flatten

/-- the query of `renderQuery` with every keyword spelled by `kw` -/
def renderQueryK (kw : Stmt → Str) (head : Stmt) (headBody : Str) (clauses : List (Stmt × Str)) : Str :=
  kw head ++ ' ' :: headBody ++ clausesTextK kw clauses

/-- `kw` re-cases the keywords: each spelling has the same lower-case form as the upper-case one -/
def Recasing (kw : Stmt → Str) : Prop := ∀ k : Stmt, CI k.text (kw k)

theorem clausesTextK_cons (kw : Stmt → Str) (c : Stmt × Str) (cs : List (Stmt × Str)) :
    clausesTextK kw (c :: cs) = (' ' :: kw c.1) ++ ((' ' :: c.2) ++ clausesTextK kw cs) := by
  simp [clausesTextK, renderClauseK]

theorem clausesTextK_lower (kw : Stmt → Str) (hk : Recasing kw) (cls : List (Stmt × Str)) :
    (clausesTextK kw cls).map lowerChar = (clausesText cls).map lowerChar := by
  induction cls with
  | nil => rfl
  | cons c cs ih =>
    rw [clausesTextK_cons, clausesText_cons]
    simp only [List.map_append, List.map_cons, ih]
    rw [show List.map lowerChar (kw c.1) = List.map lowerChar c.1.text from hk c.1]

theorem renderQueryK_lower (kw : Stmt → Str) (hk : Recasing kw) (head : Stmt) (hb : Str) (cls : List (Stmt × Str)) :
    (renderQueryK kw head hb cls).map lowerChar = (renderQuery head hb cls).map lowerChar := by
  rw [renderQuery_eq]
  unfold renderQueryK
  simp only [List.map_append, List.map_cons, clausesTextK_lower kw hk]
  rw [show List.map lowerChar (kw head) = List.map lowerChar head.text from hk head]
  simp

theorem locateStatements_K (kw : Stmt → Str) (hk : Recasing kw) (head : Stmt) (hb : Str) (cls : List (Stmt × Str)) :
    locateStatements (renderQueryK kw head hb cls) = locateStatements (renderQuery head hb cls) := by
  rw [← locateStatements_lowercase, renderQueryK_lower kw hk, locateStatements_lowercase]

theorem head?_lower (s s' : Str) (h : s'.map lowerChar = s.map lowerChar) : s'.head? = some ' ' → s.head? = some ' ' := by
  intro h'
  cases s' with
  | nil => simp at h'
  | cons c cs =>
    simp only [List.head?_cons, Option.some.injEq] at h'
    subst h'
    cases s with
    | nil => simp at h
    | cons d ds =>
      simp only [List.map_cons, List.cons.injEq] at h
      rw [lowerChar_sp] at h
      rw [(lowerChar_space d).mp h.1.symm]; rfl

theorem getLast?_lower (s s' : Str) (h : s'.map lowerChar = s.map lowerChar) : s'.getLast? = some ' ' → s.getLast? = some ' ' := by
  intro h'
  rw [← List.head?_reverse] at h' ⊢
  apply head?_lower s.reverse s'.reverse _ h'
  rw [List.map_reverse, List.map_reverse, h]

theorem setup_head_last {head : Stmt} {hb : Str} {cls : List (Stmt × Str)} (S : Setup head hb cls) :
    (renderQuery head hb cls).head? ≠ some ' ' ∧ (renderQuery head hb cls).getLast? ≠ some ' ' := by
  constructor
  · rw [renderQuery_eq]
    rcases S.hh with rfl | rfl <;> simp [Stmt.text, Stmt.words, joinSpace]
  · rw [renderQuery_eq]
    by_cases hr : cls = []
    · subst hr
      have : clausesText [] = [] := rfl
      rw [this, List.append_nil, List.getLast?_append, List.getLast?_cons]
      cases hl : hb.getLast? with
      | none => exact absurd (List.getLast?_eq_none_iff.mp hl) S.hq.1
      | some z =>
        simp only [Option.getD_some, Option.some_or]
        intro e; exact S.hq.2.2.1 (by rw [hl, Option.some.inj e])
    · obtain ⟨i1, i2⟩ := clausesText_last cls (fun c hc => (S.hc c hc).2.2.2) hr
      rw [List.getLast?_append, List.getLast?_append]
      cases hl : (clausesText cls).getLast? with
      | none => exact absurd (List.getLast?_eq_none_iff.mp hl) i1
      | some z =>
        simp only [Option.some_or]
        rw [hl] at i2; exact i2

theorem setup_stripSp_K {head : Stmt} {hb : Str} {cls : List (Stmt × Str)} (S : Setup head hb cls) (kw : Stmt → Str)
    (hk : Recasing kw) : stripSp (renderQueryK kw head hb cls) = renderQueryK kw head hb cls := by
  have hl := renderQueryK_lower kw hk head hb cls
  apply stripSp_id
  · exact fun h => (setup_head_last S).1 (head?_lower _ _ hl h)
  · exact fun h => (setup_head_last S).2 (getLast?_lower _ _ hl h)

theorem setup_splitWith_K {head : Stmt} {hb : Str} {cls : List (Stmt × Str)} (S : Setup head hb cls) (kw : Stmt → Str)
    (hk : Recasing kw) : splitWith (renderQueryK kw head hb cls) = none := by
  cases h : splitWith (renderQueryK kw head hb cls) with
  | none => rfl
  | some x =>
    exfalso
    obtain ⟨p, t, e, hci⟩ := splitWith_some _ x h
    have hl := renderQueryK_lower kw hk head hb cls
    have hd : ((renderQuery head hb cls).drop p.length).map lowerChar = ' ' :: t.map lowerChar := by
      rw [List.map_drop, ← hl, e, ← List.map_drop, List.drop_left]
      simp [lowerChar_sp]
    cases hT : (renderQuery head hb cls).drop p.length with
    | nil => rw [hT] at hd; simp at hd
    | cons c t2 =>
      rw [hT] at hd
      simp only [List.map_cons, List.cons.injEq] at hd
      have hc : c = ' ' := (lowerChar_space c).mp hd.1
      subst hc
      have hlt : p.length < (renderQuery head hb cls).length := by
        apply Nat.lt_of_not_le
        intro hge
        have := List.drop_eq_nil_of_le hge
        rw [this] at hT; cases hT
      have := S.noStart p.length hlt t2 hT
      have h1 : ciPrefix withW t2 = ciPrefix withW t := by
        rw [← ciPrefix_map lowerChar lowerChar_idem withW t2, hd.2, ciPrefix_map lowerChar lowerChar_idem]
      rw [h1] at this
      have hw : withW = "with".toList := rfl
      rw [hw, hci] at this
      cases this

theorem build_locsK (kw : Stmt → Str) (hkw : ∀ k : Stmt, (kw k).length = k.text.length) (cls : List (Stmt × Str))
    (hc : ∀ c ∈ cls, c.1 ≠ .select ∧ c.1 ≠ .update) :
    ∀ (P : Str) (a b : Nat) (st : Stmt), b ≤ P.length →
    buildActions (P ++ clausesTextK kw cls) ((a, b, st) :: locs P.length cls) =
      (spanAct a st (P.drop b)).map (fun x => x :: cls.map clauseAction) := by
  induction cls with
  | nil =>
    intro P a b st hb
    have : clausesTextK kw [] = [] := rfl
    simp only [this, List.append_nil, locs, buildActions, buildAction_span, List.map_nil]
    rw [List.take_of_length_le (by simp)]
    cases spanAct a st (P.drop b) <;> rfl
  | cons c rest ih =>
    intro P a b st hb
    have hc' := hc c (by simp)
    have e1 : P ++ clausesTextK kw (c :: rest) = (P ++ ((' ' :: kw c.1) ++ (' ' :: c.2))) ++ clausesTextK kw rest := by
      rw [clausesTextK_cons]; simp
    have e2 : (P ++ ((' ' :: kw c.1) ++ (' ' :: c.2))).length = P.length + clauseLen c := by
      simp [clauseLen, hkw]; omega
    have hrec := ih (fun x hx => hc x (by simp [hx])) (P ++ ((' ' :: kw c.1) ++ (' ' :: c.2)))
      P.length (P.length + (c.1.text.length + 1)) c.1 (by rw [e2]; unfold clauseLen; omega)
    rw [e2, ← e1] at hrec
    have hdrop : (P ++ ((' ' :: kw c.1) ++ (' ' :: c.2))).drop (P.length + (c.1.text.length + 1)) = ' ' :: c.2 := by
      rw [← List.append_assoc]
      exact drop_len_append _ _ _ (by simp [hkw])
    rw [hdrop, (spanAct_clause c.1 hc'.1 hc'.2 P.length c.2).1] at hrec
    have hspan : ((P ++ clausesTextK kw (c :: rest)).drop b).take (P.length - b) = P.drop b := by
      rw [List.drop_append_of_le_length hb, List.take_append_of_le_length (by simp)]
      exact List.take_of_length_le (by simp)
    simp only [locs, buildActions, buildAction_span, hspan]
    have hrec' : buildActions (P ++ clausesTextK kw (c :: rest))
        ((P.length, P.length + (c.1.text.length + 1), c.1) :: locs (P.length + clauseLen c) rest) =
        Except.ok (clauseAction c :: rest.map clauseAction) := hrec
    rw [hrec']
    cases spanAct a st (P.drop b) <;> rfl

/-- **(2c)** the case of the keywords does not matter to `separateActions`: spelling every keyword of the rendered
query in any mixture of upper and lower case gives the same actions -/
theorem keyword_case_irrelevant {head : Stmt} {hb : Str} {cls : List (Stmt × Str)} (S : Setup head hb cls)
    (kw : Stmt → Str) (hk : Recasing kw) :
    separateActions (renderQueryK kw head hb cls) = separateActions (renderQuery head hb cls) := by
  obtain ⟨hA, e2, e1, hsep⟩ := S.separate
  rw [hsep]
  have hkw : ∀ k : Stmt, (kw k).length = k.text.length := fun k => (hk k).length
  have hb' : buildActions (renderQueryK kw head hb cls) (expected head hb cls) = .ok (hA :: cls.map clauseAction) := by
    have := build_locsK kw hkw cls (fun c hc => ⟨(S.hc c hc).1, (S.hc c hc).2.1⟩) (kw head ++ ' ' :: hb) 0 head.text.length head
      (by simp [hkw])
    have e3 : (kw head ++ ' ' :: hb).length = head.text.length + (hb.length + 1) := by simp [hkw]
    have e4 : (kw head ++ ' ' :: hb) ++ clausesTextK kw cls = renderQueryK kw head hb cls := by
      simp [renderQueryK]
    have e5 : (kw head ++ ' ' :: hb).drop head.text.length = ' ' :: hb := by
      rw [← hkw head, List.drop_left]
    rw [e3, e4, e5, e1] at this
    exact this
  have hcl : ∀ a ∈ cls.map clauseAction, a.stmt ≠ .select ∧ a.stmt ≠ .update := by
    intro a ha
    obtain ⟨c, hc, rfl⟩ := List.mem_map.mp ha
    obtain ⟨h1, h2, _, _⟩ := S.hc c hc
    rw [(spanAct_clause c.1 h1 h2 1 c.2).2]
    exact ⟨fun e => h1 (Stmt.group_eq_select _ e), fun e => h2 (Stmt.group_eq_update _ e)⟩
  have hsel : ∀ s : Stmt, (s = .select ∨ s = .update) → (cls.map clauseAction).any (·.stmt == s) = false := by
    intro s hs
    rw [List.any_eq_false]
    intro a ha
    have := hcl a ha
    rcases hs with rfl | rfl <;> simp [this.1, this.2]
  unfold separateActions
  simp only [setup_stripSp_K S kw hk, setup_splitWith_K S kw hk, locateStatements_K kw hk, S.locateStatements_eq, hb', bind, Except.bind,
    List.any_cons, e2, hsel .select (Or.inl rfl), hsel .update (Or.inr rfl), Bool.or_false]
  rcases S.hh with rfl | rfl <;> rfl


/-- any two spellings of the keywords give the same actions -/
theorem keyword_case_irrelevant' {head : Stmt} {hb : Str} {cls : List (Stmt × Str)} (S : Setup head hb cls)
    (kw kw' : Stmt → Str) (hk : Recasing kw) (hk' : Recasing kw') :
    separateActions (renderQueryK kw head hb cls) = separateActions (renderQueryK kw' head hb cls) := by
  rw [keyword_case_irrelevant S kw hk, keyword_case_irrelevant S kw' hk']

/-- with the clause-order theorem: keyword case AND clause order are irrelevant -/
theorem keyword_case_and_clause_order_irrelevant (head : Stmt) (hh : head = .select ∨ head = .update) (headBody : Str)
    (hq : QuietBody headBody) (cl1 cl2 : List (Stmt × Str)) (hok : ClausesOk cl1) (hperm : cl1.Perm cl2)
    (kw : Stmt → Str) (hk : Recasing kw) (s : Stmt) :
    parseDict (renderQueryK kw head headBody cl2) s = parseDict (renderQuery head headBody cl1) s := by
  have S2 : Setup head headBody cl2 :=
    ⟨hh, hq, fun c hc => hok.1 c (hperm.mem_iff.mpr hc), (hperm.map _).nodup_iff.mp hok.2⟩
  have := clause_order_irrelevant head hh headBody hq cl1 cl2 hok hperm s
  unfold parseDict at this ⊢
  rw [keyword_case_irrelevant S2 kw hk, this]

/-- all keywords in lower case -/
theorem recasing_lower : Recasing (fun k => k.text.map lowerChar) := by
  intro k
  simp [CI, lowerChar_idem]

/-- `select`/`Select`/`SELECT` …: each statement in a different mixture -/
example : Recasing (fun k => match k with
    | .select => "Select".toList | .where_ => "wHeRe".toList | .orderBy => "order BY".toList
    | k => k.text.map lowerChar) := by
  intro k
  cases k <;> decide


end Rbql.LitOp
