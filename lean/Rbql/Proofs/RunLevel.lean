/-
  Run-level statements closing gaps found in review of C01 / C10 / C14 / C15:

  A. the broken pipe at the level of `run` (not only of the writer chain fed with a list): for every
     non-aggregate SELECT and every UPDATE, with the prompt-stop bound for streaming shapes;
  B. the field-count warning characterised declaratively (all records equally long / the first record
     and the FIRST record of a different length);
  C. the "delimiter inside a simple field" warning as an iff (one-character delimiters; any delimiter
     under the no-overlap hypothesis, with the counterexamples that force it);
  D. the select-list law (plain expressions, first failing expression, compositionality, stars in
     place) and `pulled = |A|` for unbounded non-aggregate SELECT;
  E. aggregate queries report the error of the FIRST failing step.
-/
import Rbql.Theorems.C01
import Rbql.Theorems.C10
import Rbql.Theorems.C14
import Rbql.Theorems.C15
import Rbql.Proofs.OrderAndStop
import Rbql.Proofs.AggBridge
import Rbql.Proofs.UpdateSpec
namespace Rbql

/-! ## A. the broken pipe, at the level of `run` -/

/-- what `run` returns once the join map is known, for an arbitrary user writer -/
def runWithSink (q : SemQuery) (A B : Table) (jm : JoinMap) (sink : Sink) : RunResult :=
  match mainLoop q jm A 0 { chain := buildChain q sink } with
  | .error (e, st, n) => { sink := st.chain.getSink, error := some e, pulled := n }
  | .ok (st, n) =>
    { sink := (finishAll st).getSink, error := none, pulled := n,
      warnA := fieldsWarning (A.take n), warnB := if q.join.isSome then fieldsWarning B else none }

theorem runWithSink_default (q : SemQuery) (A B : Table) (jm : JoinMap) :
    runWithSink q A B jm {} = runWith q A B jm := rfl

/-- `run_unfold` for an arbitrary start sink -/
theorem run_unfold_sink (q : SemQuery) (A B : Table) (sink : Sink) (hg : q.groupBy = none)
    (hjb : ∀ js, q.join = some js → joinBError js.rhs B = none) :
    ∃ jm, run q A B sink = runWithSink q A B jm sink ∧
      ∀ js, q.join = some js → (jm.maxLen = nullWidth js B ∧
        ∀ key, jm.get key = (partnersSpec js.rhs B key).map (fun p => (p.1, p.2.length, p.2))) := by
  cases hj : q.join with
  | none =>
    refine ⟨{}, ?_, fun js h => by cases h⟩
    unfold run runWithSink
    simp only [hg, hj, Option.isSome_none, Bool.false_and, Bool.false_eq_true, if_false]
    cases h : mainLoop q {} A 0 { chain := buildChain q sink } with
    | error p => obtain ⟨e, st, n⟩ := p; rfl
    | ok p => obtain ⟨st, n⟩ := p; simp
  | some js =>
    obtain ⟨jm, h1, h2, h3⟩ := joinMap_build_ok js.rhs B (hjb js hj)
    refine ⟨jm.widen js.nullWidth, ?_, fun js' h => by
      cases h; exact ⟨by simp only [JoinMap.widen, nullWidth, h2], h3⟩⟩
    unfold run runWithSink
    simp only [hg, hj, Option.isSome_none, Bool.false_and, Bool.false_eq_true, if_false, h1, Except.map]
    cases h : mainLoop q (jm.widen js.nullWidth) A 0 { chain := buildChain q sink } with
    | error p => obtain ⟨e, st, n⟩ := p; rfl
    | ok p => obtain ⟨st, n⟩ := p; simp

/-- Non-aggregate SELECT, ANY user writer (any refusal point, any counters): when no evaluation fails,
`run` hands the writer the specification's result `selectSpec q es`, record by record, through one
stop-at-first-refusal loop, and then calls `finish` once; there is no error. -/
theorem run_select_sink (q : SemQuery) (A B : Table) (sink : Sink) (hsel : q.isUpdate = false)
    (hagg : q.isAgg = false) (hjb : ∀ js, q.join = some js → joinBError js.rhs B = none)
    (es : List (List Val × Row)) (hes : emissions q B A 0 = .ok es) :
    (run q A B sink).error = none ∧ (run q A B sink).sink = (sink.feed (selectSpec q es)).done ∧
      (run q A B sink).pulled ≤ A.length := by
  obtain ⟨jm, hrun, hchar⟩ := run_unfold_sink q A B sink (isAgg_false_groupBy hagg) hjb
  obtain ⟨st, n, hml, hagg', _, hchain, hn⟩ := mainLoop_bridge q A B jm hsel hagg hchar es hes (buildChain q sink)
  rw [hrun]
  unfold runWithSink
  rw [hml]
  refine ⟨rfl, ?_, hn⟩
  show (finishAll st).getSink = _
  simp only [finishAll, hagg', hchain]
  exact chain_sink q hsel es sink

/-- **Broken pipe at the level of `run`**: the output consumer refuses the `k`-th write.  The run ends
without an error, the records the consumer accepted are exactly the first `k - 1` records of the unbroken
output, it received `min k |output|` write calls (so at most one refused call, and none after it), `finish`
was called exactly once, and no more input was pulled than there is. -/
theorem run_on_broken_pipe (q : SemQuery) (A B : Table) (hsel : q.isUpdate = false) (hagg : q.isAgg = false)
    (hjb : ∀ js, q.join = some js → joinBError js.rhs B = none)
    (es : List (List Val × Row)) (hes : emissions q B A 0 = .ok es) (k : Nat) (hk : 1 ≤ k) :
    let r := run q A B { refuseFrom := some k }
    r.error = none ∧ r.rows = (selectSpec q es).take (k - 1) ∧ r.sink.afterRefusal = 0 ∧
    r.sink.writes = min k (selectSpec q es).length ∧ r.sink.finished = 1 ∧ r.pulled ≤ A.length := by
  intro r
  obtain ⟨jm, hrun, hchar⟩ := run_unfold_sink q A B { refuseFrom := some k } (isAgg_false_groupBy hagg) hjb
  obtain ⟨st, n, hml, hagg', _, hchain, hn⟩ :=
    mainLoop_bridge q A B jm hsel hagg hchar es hes (buildChain q { refuseFrom := some k })
  have hr : r = runWithSink q A B jm { refuseFrom := some k } := hrun
  have hsink : r.sink = (((buildChain q { refuseFrom := some k }).feedStop es).1.finish).getSink := by
    rw [hr]
    unfold runWithSink
    rw [hml]
    simp only [finishAll, hagg', hchain]
  have herr : r.error = none := by
    rw [hr]; unfold runWithSink; rw [hml]
  have hp : r.pulled = n := by
    rw [hr]; unfold runWithSink; rw [hml]
  have hproto := C15_writer_protocol q es k hk
  refine ⟨herr, ?_, ?_, ?_, ?_, by omega⟩
  · show r.sink.rows.reverse = _
    rw [hsink]; exact chain_refusal_prefix q hsel es k hk
  · rw [hsink]; exact hproto.2
  · rw [hsink]; exact chain_refusal_writes q hsel es k hk
  · rw [hsink]; exact hproto.1

/-! non-vacuity: three records, the consumer goes away at the second write -/
example :
    let r := run { items := [.starA] } [[.str ['1']], [.str ['2']], [.str ['3']]] [] { refuseFrom := some 2 }
    r.error = none ∧ r.rows = [[.str ['1']]] ∧ r.pulled = 2 ∧ r.sink.writes = 2 ∧ r.sink.afterRefusal = 0 ∧
      r.sink.finished = 1 := by
  decide

/-- why `1 ≤ k`: a writer created already broken (`refuseFrom = some 0`) counts its first call as a call
after a refusal -/
example : (run { items := [.starA] } [[.str ['1']]] [] { refuseFrom := some 0 }).sink.afterRefusal = 1 := by
  decide

/-! ### how many records are pulled -/

/-- if no write through the chain is refused while the emissions are fed, the loop never stops early:
every input record is pulled (and the field-count warning is the one of the whole input) -/
theorem run_select_pulls_all_of_flag (q : SemQuery) (A B : Table) (sink : Sink) (hsel : q.isUpdate = false)
    (hagg : q.isAgg = false) (hjb : ∀ js, q.join = some js → joinBError js.rhs B = none)
    (es : List (List Val × Row)) (hes : emissions q B A 0 = .ok es)
    (hflag : ((buildChain q sink).feedStop es).2 = true) :
    (run q A B sink).pulled = A.length ∧ (run q A B sink).warnA = fieldsWarning A := by
  obtain ⟨jm, hrun, hchar⟩ := run_unfold_sink q A B sink (isAgg_false_groupBy hagg) hjb
  obtain ⟨n, hml, hn⟩ := mainLoop_fed q B jm hsel hagg hchar A 0 { chain := buildChain q sink } rfl rfl es hes
  have hstop : (LoopState.fed { chain := buildChain q sink } es).stop = false := by
    simp [LoopState.fed, hflag]
  have hge : A.length ≤ n := by
    apply Nat.le_of_not_lt
    intro hlt
    have := mainLoop_early_stop q jm A 0 _ _ n hml (by omega)
    rw [hstop] at this
    cases this
  have hnA : n = A.length := by omega
  rw [hrun]
  unfold runWithSink
  rw [hml]
  refine ⟨hnA, ?_⟩
  show fieldsWarning (A.take n) = fieldsWarning A
  rw [hnA, List.take_length]

/-- C01 strengthened: a non-aggregate SELECT without TOP/LIMIT (and a writer that never refuses) pulls
EVERY input record -/
theorem run_select_pulls_all (q : SemQuery) (A B : Table) (hsel : q.isUpdate = false) (hagg : q.isAgg = false)
    (htop : q.top = none) (hjb : ∀ js, q.join = some js → joinBError js.rhs B = none)
    (es : List (List Val × Row)) (hes : emissions q B A 0 = .ok es) :
    (run q A B).pulled = A.length :=
  (run_select_pulls_all_of_flag q A B {} hsel hagg hjb es hes
    (feedStop_noRefuse _ (buildChain_noRefuse q {} htop rfl) es).1).1

/-- ORDER BY buffers everything: every input record is pulled, whatever the user's writer does (a broken
pipe is only noticed at `finish`) -/
theorem run_sorted_pulls_all (q : SemQuery) (A B : Table) (sink : Sink) (hsel : q.isUpdate = false)
    (hagg : q.isAgg = false) (ho : q.orderBy.isSome)
    (hjb : ∀ js, q.join = some js → joinBError js.rhs B = none)
    (es : List (List Val × Row)) (hes : emissions q B A 0 = .ok es) :
    (run q A B sink).pulled = A.length := by
  apply (run_select_pulls_all_of_flag q A B sink hsel hagg hjb es hes ?_).1
  cases hob : q.orderBy with
  | none => simp [hob] at ho
  | some o =>
    rw [Chain.feedStop_sorted (buildChain q sink) q.desc [] (by simp [buildChain, hsel, hob]) es]

/-! ### streaming shapes stop promptly at the refused write -/

/-- no write has been refused yet -/
def Sink.Open (s : Sink) : Prop := ∀ n, s.refuseFrom = some n → s.writes < n

/-- how many more records the user's writer accepts: `none` = unbounded -/
def Sink.room (s : Sink) : Option Nat := s.refuseFrom.map (fun k => k - 1 - s.writes)

def optMin : Option Nat → Option Nat → Option Nat
  | none, b => b
  | some a, none => some a
  | some a, some b => some (min a b)

/-- `n` more records fit into the room -/
def fits (room : Option Nat) (n : Nat) : Bool :=
  match room with | none => true | some m => decide (n ≤ m)

/-- how many more records get through `TopWriter(user writer)` -/
def TopLayer.eff (t : TopLayer) : Option Nat := optMin t.room t.sink.room

theorem Sink.write_room (s : Sink) (h : s.Open) (r : Row) :
    (s.room = some 0 ∧ (s.write r).2 = false) ∨
    (s.room ≠ some 0 ∧ (s.write r).2 = true ∧ (s.write r).1.Open ∧ (s.write r).1.room = s.room.map (· - 1)) := by
  rcases s with ⟨rows, writes, refuseFrom, afterRefusal, finished⟩
  unfold Sink.Open at h
  simp only at h
  unfold Sink.write Sink.room Sink.Open
  rcases refuseFrom with _ | n
  · right; simp
  · have := h n rfl
    by_cases hn : n ≤ writes + 1
    · left; simp [hn] <;> omega
    · right; simp [hn] <;> omega

theorem TopLayer.write_eff (t : TopLayer) (h : t.sink.Open) (r : Row) :
    (t.eff = some 0 ∧ (t.write r).2 = false) ∨
    (t.eff ≠ some 0 ∧ (t.write r).2 = true ∧ (t.write r).1.sink.Open ∧ (t.write r).1.eff = t.eff.map (· - 1)) := by
  rcases t.write_gen r with ⟨h0, hw⟩ | ⟨h0, hok, hsink, hroom⟩
  · left
    refine ⟨?_, by rw [hw]⟩
    unfold TopLayer.eff
    rw [h0]
    cases t.sink.room <;> simp [optMin]
  · rcases t.sink.write_room h r with ⟨s0, sw⟩ | ⟨s0, sw, sopen, sroom⟩
    · left
      refine ⟨?_, by rw [hok, sw]⟩
      unfold TopLayer.eff
      rw [s0]
      cases t.room <;> simp [optMin]
    · right
      refine ⟨?_, by rw [hok, sw], by rw [hsink]; exact sopen, ?_⟩
      · unfold TopLayer.eff
        cases h1 : t.room with
        | none => simpa [optMin] using s0
        | some a =>
          cases h2 : t.sink.room with
          | none => simp only [optMin]; rw [h1] at h0; exact h0
          | some b =>
            rw [h1] at h0; rw [h2] at s0
            simp only [optMin, ne_eq, Option.some.injEq] at h0 s0 ⊢
            omega
      · unfold TopLayer.eff
        rw [hsink, sroom, hroom sw]
        cases t.room <;> cases t.sink.room <;> simp [optMin]
        omega

theorem fits_succ (room : Option Nat) (h : room ≠ some 0) (n : Nat) :
    fits room (n + 1) = fits (room.map (· - 1)) n := by
  cases room with
  | none => rfl
  | some m =>
    have : m ≠ 0 := fun e => h (by rw [e])
    simp only [fits, Option.map_some]
    congr 1
    apply propext
    omega

/-- an unsorted chain over any open writer: feeding stops (the flag is `false`) exactly when more
records get through DISTINCT than `TopWriter(user writer)` has room for -/
theorem feedStop_flag_gen (c : Chain) (hs : c.sorted = none) (hopen : c.sub.sub.sink.Open)
    (es : List (List Val × Row)) :
    (c.feedStop es).2 = fits c.sub.sub.eff (passRows c.sub.dist (es.map (·.2))).length := by
  induction es generalizing c with
  | nil =>
    have : ∀ room, fits room 0 = true := by intro room; cases room <;> simp [fits]
    cases hd : c.sub.dist <;> simp [Chain.feedStop, passRows, foS, this]
  | cons e es ih =>
    obtain ⟨k, r⟩ := e
    obtain ⟨sorted, ⟨dist, t⟩⟩ := c
    simp only at hs hopen
    subst hs
    cases dist with
    | none =>
      simp only [Chain.feedStop, Chain.write, DistLayer.write, List.map_cons, passRows, List.length_cons]
      rcases t.write_eff hopen r with ⟨h0, hw⟩ | ⟨h0, hok, hopen', heff⟩
      · simp [hw, h0, fits]
      · simp only [hok, if_true]
        rw [ih _ rfl hopen', fits_succ _ h0]
        simp only [passRows, heff]
    | uniq seen =>
      simp only [Chain.feedStop, Chain.write, DistLayer.write, List.map_cons, passRows, foS]
      by_cases hr : r ∈ seen
      · simp only [hr, if_true]
        rw [ih _ rfl hopen]
        rfl
      · simp only [hr, if_false]
        rcases t.write_eff hopen r with ⟨h0, hw⟩ | ⟨h0, hok, hopen', heff⟩
        · simp [hw, h0, fits]
        · simp only [hok, if_true]
          rw [ih _ rfl hopen', List.length_cons, fits_succ _ h0]
          simp only [passRows, heff]
    | uniqCount recs =>
      simp only [Chain.feedStop, Chain.write, DistLayer.write, if_true, passRows]
      rw [ih _ rfl hopen]
      simp [passRows]

/-- the flag for the chain `run` builds over a writer that refuses its `k`-th write (no ORDER BY, no
DISTINCT COUNT): no refusal iff the deduplicated emissions fit below both the TOP bound and `k` -/
theorem buildChain_flag_refusing (q : SemQuery) (hsel : q.isUpdate = false) (ho : q.orderBy = none)
    (hd : q.distinct ≠ .count) (k : Nat) (hk : 1 ≤ k) (es : List (List Val × Row)) :
    ((buildChain q { refuseFrom := some k }).feedStop es).2 =
      fits (optMin q.top (some (k - 1))) (dedupSpec q.distinct (es.map (·.2))).length := by
  have hs : (buildChain q { refuseFrom := some k }).sorted = none := by simp [buildChain, hsel, ho]
  have hopen : (buildChain q { refuseFrom := some k }).sub.sub.sink.Open := by
    rw [buildChain_sink]
    intro n hn
    simp only [Option.some.injEq] at hn
    subst hn
    show 0 < k
    omega
  have heff : (buildChain q { refuseFrom := some k }).sub.sub.eff = optMin q.top (some (k - 1)) := by
    unfold TopLayer.eff
    rw [buildChain_sink]
    have : (buildChain q { refuseFrom := some k }).sub.sub.room = q.top := by
      cases ht : q.top <;> simp [buildChain, hsel, ht, TopLayer.room]
    rw [this]
    rfl
  rw [feedStop_flag_gen _ hs hopen, heff]
  have : passRows (buildChain q { refuseFrom := some k }).sub.dist (es.map (·.2)) =
      dedupSpec q.distinct (es.map (·.2)) := by
    cases hdd : q.distinct with
    | no => simp [buildChain, hsel, hdd, passRows, dedupSpec]
    | yes => simp [buildChain, hsel, hdd, passRows, dedupSpec, foS_nil]
    | count => exact absurd hdd hd
  rw [this]

/-- **the broken pipe stops the input promptly** (streaming shapes: no ORDER BY, no DISTINCT COUNT, no
aggregation): as soon as the first `m` input records yield at least `k` output records, the engine — whose
`k`-th write is refused — stops within those `m` records: nothing after them is pulled or evaluated (so
only the prefix's evaluations need to succeed), and the consumer holds the first `k - 1` output records. -/
theorem run_broken_pipe_stops_within (q : SemQuery) (A B : Table) (hsel : q.isUpdate = false)
    (hagg : q.isAgg = false) (ho : q.orderBy = none) (hd : q.distinct ≠ .count)
    (hjb : ∀ js, q.join = some js → joinBError js.rhs B = none) (k : Nat) (hk : 1 ≤ k)
    (m : Nat) (es : List (List Val × Row)) (hes : emissions q B (A.take m) 0 = .ok es)
    (hlen : k ≤ (selectSpec q es).length) :
    let r := run q A B { refuseFrom := some k }
    r.error = none ∧ r.pulled ≤ m ∧ r.rows = (selectSpec q es).take (k - 1) ∧ r.sink.writes = k ∧
      r.sink.afterRefusal = 0 ∧ r.sink.finished = 1 := by
  intro r
  obtain ⟨jm, hrun, hchar⟩ := run_unfold_sink q A B { refuseFrom := some k } (isAgg_false_groupBy hagg) hjb
  obtain ⟨n, hml, hn⟩ := mainLoop_fed q B jm hsel hagg hchar (A.take m) 0
    { chain := buildChain q { refuseFrom := some k } } rfl rfl es hes
  have hflag : ((buildChain q { refuseFrom := some k }).feedStop es).2 = false := by
    rw [buildChain_flag_refusing q hsel ho hd k hk]
    have hsl : (selectSpec q es).length =
        (truncSpec q.top (dedupSpec q.distinct (es.map (·.2)))).length := by
      simp [selectSpec, orderSpec, ho]
    rw [hsl] at hlen
    cases ht : q.top with
    | none =>
      rw [ht] at hlen
      simp only [truncSpec] at hlen
      simp only [optMin, fits, decide_eq_false_iff_not]
      omega
    | some t =>
      rw [ht] at hlen
      simp only [truncSpec, List.length_take] at hlen
      simp only [optMin, fits, decide_eq_false_iff_not]
      omega
  have hstop : (LoopState.fed { chain := buildChain q { refuseFrom := some k } } es).stop = true := by
    simp [LoopState.fed, hflag]
  have hnm : n ≤ m := by
    have := List.length_take_le m A
    omega
  have h := mainLoop_tail_irrelevant q jm (A.take m) 0 _ _ n hml hstop (A.drop n)
  rw [Nat.sub_zero, List.take_take, Nat.min_eq_left hnm, List.take_append_drop] at h
  have hr : r = runWithSink q A B jm { refuseFrom := some k } := hrun
  have hsink : r.sink = (((buildChain q { refuseFrom := some k }).feedStop es).1.finish).getSink := by
    rw [hr]; unfold runWithSink; rw [h]; rfl
  have herr : r.error = none := by rw [hr]; unfold runWithSink; rw [h]
  have hp : r.pulled = n := by rw [hr]; unfold runWithSink; rw [h]
  have hproto := C15_writer_protocol q es k hk
  refine ⟨herr, by omega, ?_, ?_, ?_, ?_⟩
  · show r.sink.rows.reverse = _
    rw [hsink]; exact chain_refusal_prefix q hsel es k hk
  · rw [hsink, chain_refusal_writes q hsel es k hk]; omega
  · rw [hsink]; exact hproto.2
  · rw [hsink]; exact hproto.1

/-- … and conversely: while the first `m` records yield fewer than `k` output records (and no more than
the TOP bound), no write has been refused, so the engine pulls all of them.  Together: the number of
records pulled is the least prefix length whose output reaches the refused write (or exceeds TOP). -/
theorem run_broken_pipe_pulls_at_least (q : SemQuery) (A B : Table) (hsel : q.isUpdate = false)
    (hagg : q.isAgg = false) (ho : q.orderBy = none) (hd : q.distinct ≠ .count)
    (hjb : ∀ js, q.join = some js → joinBError js.rhs B = none) (k : Nat) (hk : 1 ≤ k)
    (m : Nat) (es : List (List Val × Row)) (hes : emissions q B (A.take m) 0 = .ok es)
    (hlen : (dedupSpec q.distinct (es.map (·.2))).length < k)
    (htop : ∀ t, q.top = some t → (dedupSpec q.distinct (es.map (·.2))).length ≤ t) :
    min m A.length ≤ (run q A B { refuseFrom := some k }).pulled := by
  obtain ⟨jm, hrun, hchar⟩ := run_unfold_sink q A B { refuseFrom := some k } (isAgg_false_groupBy hagg) hjb
  obtain ⟨n, hml, hn⟩ := mainLoop_fed q B jm hsel hagg hchar (A.take m) 0
    { chain := buildChain q { refuseFrom := some k } } rfl rfl es hes
  have hflag : ((buildChain q { refuseFrom := some k }).feedStop es).2 = true := by
    rw [buildChain_flag_refusing q hsel ho hd k hk]
    cases ht : q.top with
    | none => simp only [optMin, fits, decide_eq_true_eq]; omega
    | some t =>
      have := htop t ht
      simp only [optMin, fits, decide_eq_true_eq]
      omega
  have hstop : (LoopState.fed { chain := buildChain q { refuseFrom := some k } } es).stop = false := by
    simp [LoopState.fed, hflag]
  have hlen' : (A.take m).length = min m A.length := List.length_take
  have hge : min m A.length ≤ n := by
    apply Nat.le_of_not_lt
    intro hlt
    have := mainLoop_early_stop q jm (A.take m) 0 _ _ n hml (by omega)
    rw [hstop] at this
    cases this
  have h := mainLoop_append q jm (A.take m) (A.drop m) 0 _ _ n hml hstop
  rw [List.take_append_drop] at h
  rw [hrun]
  unfold runWithSink
  rw [h]
  cases h2 : mainLoop q jm (A.drop m) n (LoopState.fed { chain := buildChain q { refuseFrom := some k } } es) with
  | error p =>
    obtain ⟨e, st, n'⟩ := p
    have := (mainLoop_error_count q jm _ n _ st e n' h2).1
    show min m A.length ≤ n'
    omega
  | ok p =>
    obtain ⟨st, n'⟩ := p
    have := (mainLoop_count_bounds q jm _ n _ st n' h2).1
    show min m A.length ≤ n'
    omega

/-! why the streaming bound excludes DISTINCT COUNT (and ORDER BY, see `run_sorted_pulls_all`): these
shapes buffer, the refusal is only met at `finish`, every record has been pulled by then; the streaming
shape stops at the record whose write was refused -/
example : (run { items := [.starA], distinct := .count } [[.str ['1']], [.str ['2']], [.str ['3']]] []
    { refuseFrom := some 1 }).pulled = 3 := by decide
example : (run { items := [.starA], distinct := .yes } [[.str ['1']], [.str ['1']], [.str ['2']], [.str ['3']]] []
    { refuseFrom := some 2 }).pulled = 3 := by decide

/-! ### UPDATE with an arbitrary writer -/

/-- the state after one `write` of `row` through the chain, NU becoming `nu` -/
def LoopState.wr (st : LoopState) (row : Row) (nu : Nat) : LoopState :=
  { st with chain := (st.chain.write [] row).1, nu := nu, stop := st.stop || !(st.chain.write [] row).2 }

theorem processUpdateTail_matched_gen (q : SemQuery) (st : LoopState) (nr : Nat) (recA : Row)
    (bnr : Option Nat) (recB : Option Row) :
    processUpdateTail q st nr recA (true, bnr, recB) =
      (updateWith q nr st.nu recA { nr := nr, a := recA, bnr := bnr, b := recB, nu := st.nu }).map
        (fun p => st.wr p.1 p.2) := by
  simp only [processUpdateTail, updateWith]
  cases hw : liftErr nr (match q.where_ with
      | some w => w { nr := nr, a := recA, bnr := bnr, b := recB, nu := st.nu }
      | none => Except.ok true) with
  | error k => simp [bind, Except.bind, Except.map]
  | ok pass =>
    cases pass with
    | false =>
      simp [LoopState.wr, pure, Except.pure, bind, Except.bind, Except.map]
    | true =>
      cases ha : liftErr nr (applyAssigns q.assigns
          { nr := nr, a := recA, bnr := bnr, b := recB, nu := st.nu + 1 } recA) with
      | error k => simp [bind, Except.bind, Except.map]
      | ok up =>
        simp [LoopState.wr, pure, Except.pure, bind, Except.bind, Except.map]

theorem processUpdateTail_unmatched_gen (q : SemQuery) (st : LoopState) (nr : Nat) (recA : Row) :
    processUpdateTail q st nr recA (false, none, none) = .ok (st.wr recA st.nu) := by
  simp [processUpdateTail, LoopState.wr, pure, Except.pure, bind, Except.bind]

/-- one record of an UPDATE, whatever the writer chain does: the specification step followed by one
`write` (whose answer sets the stop flag) -/
theorem processUpdate_spec_gen (q : SemQuery) (B : Table) (jm : JoinMap) (hjm : JoinMapOK q B jm)
    (st : LoopState) (nr : Nat) (recA : Row) :
    processUpdate q jm st nr recA =
      (updateOneSpec q B nr st.nu recA).map (fun p => st.wr p.1 p.2) := by
  rw [processUpdate_eq, updateOneSpec_eq]
  cases hj : q.join with
  | none =>
    simp only [pure, Except.pure, bind, Except.bind]
    rw [processUpdateTail_matched_gen q st nr recA none none]
  | some js =>
    obtain ⟨hmax, hget⟩ := hjm js hj
    simp only [expandRecord, hj]
    cases hk : liftErr nr (lhsKey js.lhs nr recA) with
    | error k => simp [bind, Except.bind, Except.map]
    | ok key =>
      simp only [bind, Except.bind, getRhs, hget key, hmax]
      generalize partnersSpec js.rhs B key = ps
      have hm := processUpdateTail_matched_gen q st nr recA
      have hu := processUpdateTail_unmatched_gen q st nr recA
      cases js.kind <;> rcases ps with _ | ⟨p1, _ | ⟨p2, ps⟩⟩ <;>
        simp [liftErr, pure, Except.pure, Except.map, hu, hm]

theorem plainChain_write_gen (s : Sink) (k : List Val) (r : Row) :
    (plainChain s).write k r = (plainChain (s.write r).1, (s.write r).2) := by
  simp [plainChain, Chain.write, DistLayer.write, TopLayer.write]

theorem Sink.write_writes (s : Sink) (r : Row) : (s.write r).1.writes = s.writes + 1 := by
  unfold Sink.write
  cases s.refuseFrom with
  | none => rfl
  | some n => simp only []; split <;> rfl

/-- the main loop of an UPDATE over an ARBITRARY user writer `s`: the writer is handed the specified
records one by one until it refuses one, and exactly one input record is pulled per `write` call -/
theorem mainLoop_update_sink (q : SemQuery) (B : Table) (jm : JoinMap) (hupd : q.isUpdate = true)
    (hjm : JoinMapOK q B jm) (A : Table) (nr : Nat) (st : LoopState) (s : Sink)
    (hc : st.chain = plainChain s) (hstop : st.stop = false)
    (rows : List Row) (hu : updateSpec q B A nr st.nu = .ok rows) :
    ∃ st' n, mainLoop q jm A nr st = .ok (st', n) ∧ st'.agg = st.agg ∧
      st'.chain = plainChain (s.feed rows) ∧ n + s.writes = nr + (s.feed rows).writes := by
  induction A generalizing nr st s rows with
  | nil =>
    simp only [updateSpec, Except.ok.injEq] at hu
    subst hu
    exact ⟨st, nr, rfl, rfl, hc, rfl⟩
  | cons recA rest ih =>
    rw [updateSpec] at hu
    rw [mainLoop]
    simp only [hstop, stepRecord, hupd, if_true, Bool.false_eq_true, if_false]
    rw [processUpdate_spec_gen q B jm hjm st (nr + 1) recA]
    cases h1 : updateOneSpec q B (nr + 1) st.nu recA with
    | error e => simp [h1, bind, Except.bind] at hu
    | ok p =>
      obtain ⟨row, nu'⟩ := p
      simp only [h1, bind, Except.bind] at hu
      cases h2 : updateSpec q B rest (nr + 1) nu' with
      | error e => simp [h2] at hu
      | ok tl =>
        simp only [h2, pure, Except.pure, Except.ok.injEq] at hu
        subst hu
        simp only [Except.map]
        have hch : (st.wr row nu').chain = plainChain (s.write row).1 := by
          simp only [LoopState.wr, hc, plainChain_write_gen]
        have hst : (st.wr row nu').stop = !(s.write row).2 := by
          simp only [LoopState.wr, hc, plainChain_write_gen, hstop, Bool.false_or]
        have hww := s.write_writes row
        by_cases hok : (s.write row).2 = true
        · obtain ⟨st', n, hm, hagg, hchain, hcount⟩ :=
            ih (nr + 1) (st.wr row nu') (s.write row).1 hch (by rw [hst, hok]; rfl) tl h2
          refine ⟨st', n, hm, hagg, ?_, ?_⟩
          · rw [hchain, Sink.feed, if_pos hok]
          · rw [Sink.feed, if_pos hok]; omega
        · refine ⟨st.wr row nu', nr + 1, ?_, rfl, ?_, ?_⟩
          · exact mainLoop_of_stop q jm rest (nr + 1) _ (by rw [hst]; simpa using hok)
          · rw [hch, Sink.feed, if_neg hok]
          · rw [Sink.feed, if_neg hok]; omega

theorem plainChain_finish_sink (s : Sink) : (plainChain s).finish.getSink = s.done := rfl

/-- UPDATE, ANY user writer: when no record fails, `run` hands the writer the specified records one by
one until it refuses one, then calls `finish` once; exactly one input record is pulled per `write` call -/
theorem run_update_sink (q : SemQuery) (A B : Table) (sink : Sink) (hupd : q.isUpdate = true)
    (hg : q.groupBy = none) (hjb : ∀ js, q.join = some js → joinBError js.rhs B = none)
    (rows : List Row) (hu : updateSpec q B A 0 0 = .ok rows) :
    (run q A B sink).error = none ∧ (run q A B sink).sink = (sink.feed rows).done ∧
      (run q A B sink).pulled + sink.writes = (sink.feed rows).writes := by
  have core : ∀ (jm : JoinMap) (wb : Option (Nat × Nat × Nat × Nat)), JoinMapOK q B jm →
      ∀ r : RunResult, r = (match mainLoop q jm A 0 { chain := buildChain q sink } with
        | .error (e, st, n) => { sink := st.chain.getSink, error := some e, pulled := n }
        | .ok (st, n) => { sink := (finishAll st).getSink, error := none, pulled := n,
                           warnA := fieldsWarning (A.take n), warnB := wb }) →
      r.error = none ∧ r.sink = (sink.feed rows).done ∧ r.pulled + sink.writes = (sink.feed rows).writes := by
    intro jm wb hjm r hr
    subst hr
    obtain ⟨st', n, hml, hagg, hch, hcount⟩ := mainLoop_update_sink q B jm hupd hjm A 0
      { chain := buildChain q sink } sink (buildChain_update q sink hupd) rfl rows hu
    have hagg' : st'.agg = none := hagg
    simp only [hml, finishAll, hagg', hch, plainChain_finish_sink, true_and]
    omega
  unfold run
  simp only [hg, Option.isSome_none, Bool.false_and, Bool.false_eq_true, if_false]
  cases hj : q.join with
  | none =>
    have hjm : JoinMapOK q B {} := fun js h => by rw [hj] at h; cases h
    exact core {} _ hjm _ rfl
  | some js =>
    obtain ⟨jm, hb, hjm⟩ := JoinMap.build_ok q B js hj (hjb js hj)
    simp only [hb, Except.map]
    exact core (jm.widen js.nullWidth) _ hjm _ rfl

/-- **Broken pipe during an UPDATE**: the consumer refuses the `k`-th write.  No error, the consumer holds
the first `k - 1` updated records, it received `min k |A|` write calls (none after the refused one),
`finish` was called once, and exactly `min k |A|` input records were pulled: the engine stops AT the
record whose write was refused. -/
theorem run_update_on_broken_pipe (q : SemQuery) (A B : Table) (hupd : q.isUpdate = true)
    (hg : q.groupBy = none) (hjb : ∀ js, q.join = some js → joinBError js.rhs B = none)
    (rows : List Row) (hu : updateSpec q B A 0 0 = .ok rows) (k : Nat) (hk : 1 ≤ k) :
    let r := run q A B { refuseFrom := some k }
    r.error = none ∧ r.rows = rows.take (k - 1) ∧ r.sink.afterRefusal = 0 ∧
    r.sink.writes = min k A.length ∧ r.sink.finished = 1 ∧ r.pulled = min k A.length := by
  intro r
  obtain ⟨herr, hsink, hp⟩ := run_update_sink q A B { refuseFrom := some k } hupd hg hjb rows hu
  have hlen := updateSpec_length q B A 0 0 rows hu
  have hfr := Sink.feed_refusing { refuseFrom := some k } k rfl (by show 0 < k; omega) rows
  have hes : (rows.map (fun r => (([] : List Val), r))).map (·.2) = rows := by
    simp [List.map_map, Function.comp_def]
  have hproto := C15_writer_protocol q (rows.map (fun r => (([] : List Val), r))) k hk
  rw [chain_sink_update q hupd, hes] at hproto
  have hw : (Sink.feed { refuseFrom := some k } rows).writes = min k A.length := by
    rw [hfr.2, hlen]; show 0 + min A.length (k - 0) = _; omega
  refine ⟨herr, ?_, ?_, ?_, ?_, ?_⟩
  · show r.sink.rows.reverse = _
    rw [hsink]
    simp only [Sink.done, hfr.1]
    simp
  · rw [hsink]; exact hproto.2
  · rw [hsink]; exact hw
  · rw [hsink]; exact hproto.1
  · have : r.pulled + 0 = (Sink.feed { refuseFrom := some k } rows).writes := hp
    omega

/-! ## B. the field-count warning, declaratively -/

theorem fieldsInfoOf_prefix (t : Table) (nr : Nat) (info : List (Nat × Nat)) :
    ∃ ext, fieldsInfoOf t nr info = info ++ ext := by
  induction t generalizing nr info with
  | nil => exact ⟨[], by simp [fieldsInfoOf]⟩
  | cons r rest ih =>
    rw [fieldsInfoOf]
    split
    · exact ih _ _
    · obtain ⟨ext, h⟩ := ih (nr + 1) (info ++ [(r.length, nr + 1)])
      exact ⟨(r.length, nr + 1) :: ext, by rw [h]; simp⟩

/-- scanning with one length already seen: either every record has that length and nothing is added,
or the second entry is the FIRST record of a different length, with its record number -/
theorem fieldsInfoOf_single (t : Table) (nr n1 k1 : Nat) :
    (fieldsInfoOf t nr [(n1, k1)] = [(n1, k1)] ∧ ∀ r ∈ t, r.length = n1) ∨
    (∃ j n2 ext, fieldsInfoOf t nr [(n1, k1)] = (n1, k1) :: (n2, nr + j + 1) :: ext ∧ n2 ≠ n1 ∧
      (t[j]?).map List.length = some n2 ∧ ∀ i, i < j → (t[i]?).map List.length = some n1) := by
  induction t generalizing nr with
  | nil => left; exact ⟨rfl, by simp⟩
  | cons r rest ih =>
    rw [fieldsInfoOf]
    by_cases hr : r.length = n1
    · have hany : ([(n1, k1)].any fun e => e.1 == r.length) = true := by simp [hr]
      simp only [hany, if_true]
      rcases ih (nr + 1) with ⟨h1, h2⟩ | ⟨j, n2, ext, h1, h2, h3, h4⟩
      · left
        refine ⟨h1, ?_⟩
        intro x hx
        rcases List.mem_cons.mp hx with rfl | hx
        · exact hr
        · exact h2 x hx
      · right
        refine ⟨j + 1, n2, ext, ?_, h2, by simpa using h3, ?_⟩
        · rw [h1]; congr 3; omega
        · intro i hi
          cases i with
          | zero => simp [hr]
          | succ i => simpa using h4 i (by omega)
    · have hany : ([(n1, k1)].any fun e => e.1 == r.length) = false := by
        simp; exact fun h => hr h.symm
      simp only [hany, Bool.false_eq_true, if_false]
      obtain ⟨ext, h⟩ := fieldsInfoOf_prefix rest (nr + 1) ([(n1, k1)] ++ [(r.length, nr + 1)])
      right
      refine ⟨0, r.length, ext, ?_, hr, by simp, by intro i hi; omega⟩
      rw [h]; rfl

/-- the field-count warning is absent iff all records have the same number of fields -/
theorem fieldsWarning_none_iff (t : Table) :
    fieldsWarning t = none ↔ ∀ r₁ ∈ t, ∀ r₂ ∈ t, r₁.length = r₂.length := by
  cases t with
  | nil => simp [fieldsWarning, fieldsInfoOf]
  | cons r0 rest =>
    have hstart : fieldsInfoOf (r0 :: rest) 0 [] = fieldsInfoOf rest 1 [(r0.length, 1)] := by
      rw [fieldsInfoOf]; rfl
    unfold fieldsWarning
    rw [hstart]
    rcases fieldsInfoOf_single rest 1 r0.length 1 with ⟨h1, h2⟩ | ⟨j, n2, ext, h1, h2, h3, h4⟩
    · rw [h1]
      simp only [true_iff]
      have hall : ∀ x ∈ r0 :: rest, x.length = r0.length := by
        intro x hx
        rcases List.mem_cons.mp hx with rfl | hx
        · rfl
        · exact h2 x hx
      intro a ha b hb
      rw [hall a ha, hall b hb]
    · rw [h1]
      simp only [reduceCtorEq, false_iff]
      intro hall
      have hj : j < rest.length := by
        cases hgj : rest[j]? with
        | none => simp [hgj] at h3
        | some x => exact (List.getElem?_eq_some_iff.mp hgj).1
      have hx : rest[j]? = some rest[j] := List.getElem?_eq_getElem hj
      rw [hx] at h3
      simp only [Option.map_some, Option.some.injEq] at h3
      have := hall rest[j] (List.mem_cons_of_mem _ (List.getElem_mem hj)) r0 List.mem_cons_self
      exact h2 (h3 ▸ this)

/-- when the warning is present it cites the first record (record 1, length `n1`) and the FIRST record
whose length differs (record `k2`, 1-based, length `n2 ≠ n1`): every record before it has length `n1` -/
theorem fieldsWarning_some (t : Table) (n1 k1 n2 k2 : Nat) (h : fieldsWarning t = some (n1, k1, n2, k2)) :
    k1 = 1 ∧ (t[0]?).map List.length = some n1 ∧ n1 ≠ n2 ∧ 1 < k2 ∧ (t[k2 - 1]?).map List.length = some n2 ∧
    ∀ j, j < k2 - 1 → (t[j]?).map List.length = some n1 := by
  cases t with
  | nil => simp [fieldsWarning, fieldsInfoOf] at h
  | cons r0 rest =>
    have hstart : fieldsInfoOf (r0 :: rest) 0 [] = fieldsInfoOf rest 1 [(r0.length, 1)] := by
      rw [fieldsInfoOf]; rfl
    unfold fieldsWarning at h
    rw [hstart] at h
    rcases fieldsInfoOf_single rest 1 r0.length 1 with ⟨h1, h2⟩ | ⟨j, n2', ext, h1, h2, h3, h4⟩
    · rw [h1] at h; simp at h
    · rw [h1] at h
      simp only [Option.some.injEq, Prod.mk.injEq] at h
      obtain ⟨rfl, rfl, rfl, rfl⟩ := h
      refine ⟨rfl, by simp, fun h => h2 h.symm, by omega, ?_, ?_⟩
      · have : 1 + j + 1 - 1 = j + 1 := by omega
        rw [this]; simpa using h3
      · intro i hi
        cases i with
        | zero => simp
        | succ i => simpa using h4 i (by omega)

/-- converse of `fieldsWarning_some`: the warning is determined by the first record and the first record
of a different length -/
theorem fieldsWarning_eq_some_iff (t : Table) (n1 k1 n2 k2 : Nat) :
    fieldsWarning t = some (n1, k1, n2, k2) ↔
      (k1 = 1 ∧ (t[0]?).map List.length = some n1 ∧ n1 ≠ n2 ∧ 1 < k2 ∧ (t[k2 - 1]?).map List.length = some n2 ∧
        ∀ j, j < k2 - 1 → (t[j]?).map List.length = some n1) := by
  constructor
  · exact fieldsWarning_some t n1 k1 n2 k2
  · rintro ⟨rfl, h0, hne, hk, hk2, hall⟩
    cases hw : fieldsWarning t with
    | none =>
      exfalso
      rw [fieldsWarning_none_iff] at hw
      cases ha : t[0]? with
      | none => simp [ha] at h0
      | some a =>
        cases hb : t[k2 - 1]? with
        | none => simp [hb] at hk2
        | some b =>
          simp only [ha, hb, Option.map_some, Option.some.injEq] at h0 hk2
          have := hw a (List.mem_of_getElem? ha) b (List.mem_of_getElem? hb)
          omega
    | some w =>
      obtain ⟨m1, c1, m2, c2⟩ := w
      obtain ⟨rfl, g0, gne, gk, gk2, gall⟩ := fieldsWarning_some t m1 c1 m2 c2 hw
      have e1 : m1 = n1 := by rw [g0] at h0; simpa using h0
      subst e1
      -- the two "first different" positions coincide
      have e2 : c2 = k2 := by
        rcases Nat.lt_trichotomy (c2 - 1) (k2 - 1) with hlt | heq | hgt
        · have := hall (c2 - 1) hlt
          rw [gk2] at this
          simp only [Option.some.injEq] at this
          exact absurd this.symm gne
        · omega
        · have := gall (k2 - 1) hgt
          rw [hk2] at this
          simp only [Option.some.injEq] at this
          exact absurd this.symm hne
      subst e2
      have e3 : m2 = n2 := by rw [gk2] at hk2; simpa using hk2
      subst e3
      rfl

example : fieldsWarning [[Val.none], [Val.none], [Val.none, Val.none], [], [Val.none]] = some (1, 1, 2, 3) := by
  decide

/-- at the level of `run` (non-aggregate SELECT without TOP/LIMIT, no evaluation error): the input
field-count warning is reported iff two input records differ in their number of fields -/
theorem run_select_warnA_none_iff (q : SemQuery) (A B : Table) (hsel : q.isUpdate = false) (hagg : q.isAgg = false)
    (htop : q.top = none) (hjb : ∀ js, q.join = some js → joinBError js.rhs B = none)
    (es : List (List Val × Row)) (hes : emissions q B A 0 = .ok es) :
    (run q A B).warnA = none ↔ ∀ r₁ ∈ A, ∀ r₂ ∈ A, r₁.length = r₂.length := by
  rw [(run_select_pulls_all_of_flag q A B {} hsel hagg hjb es hes
    (feedStop_noRefuse _ (buildChain_noRefuse q {} htop rfl) es).1).2]
  exact fieldsWarning_none_iff A

/-! ## C. the "delimiter inside a simple field" warning, as an iff -/

theorem sum_count_zero (c : Char) (fs : List Str) (h : ∀ f ∈ fs, c ∉ f) :
    (fs.map (List.count c)).sum = 0 := by
  induction fs with
  | nil => rfl
  | cons g rest ih =>
    simp only [List.map_cons, List.sum_cons]
    have h1 : g.count c = 0 := List.count_eq_zero.mpr (h g List.mem_cons_self)
    have h2 := ih (fun f hf => h f (List.mem_cons_of_mem _ hf))
    omega

/-- single-character delimiter: the writer's warning test fires iff some field contains the delimiter -/
theorem lossy_simple_iff (c : Char) (fs : List Str) (hne : fs ≠ []) :
    (countD [c] (joinD [c] fs) + 1 ≠ fs.length) ↔ ∃ f ∈ fs, c ∈ f := by
  constructor
  · intro hw
    apply Classical.byContradiction
    intro hno
    have hall : ∀ f ∈ fs, c ∉ f := fun f hf hc => hno ⟨f, hf, hc⟩
    rw [countD_single] at hw
    have h1 := count_joinD_single c fs hne
    have h2 := sum_count_zero c fs hall
    omega
  · exact lossy_simple_warns c fs hne

/-! ### multi-character delimiters -/

theorem splitOn_length_pos (d s : Str) : 0 < (splitOn d s).length := by
  rw [splitOn]
  split
  · simp
  · split <;> simp

theorem countD_of_none (d s b : Str) (h : findD d s = (b, none)) : countD d s = 0 := by
  simp [countD, splitOn_none d s b h]

theorem countD_of_some (d s b r : Str) (hd : d ≠ []) (h : findD d s = (b, some r)) :
    countD d s = 1 + countD d r := by
  have := splitOn_length_pos d r
  simp only [countD, splitOn_some d s b r hd h, List.length_cons]
  omega

theorem occ_cases (d : Str) (hd : d ≠ []) (s : Str) :
    NoOcc d s ∨ ∃ b r, FirstOcc d s b r ∧ findD d s = (b, some r) := by
  rcases h : findD d s with ⟨b, _ | r⟩
  · exact .inl ((findD_none d hd s b).mp h).2
  · exact .inr ⟨b, r, (findD_some d hd s b r).mp h, rfl⟩

theorem countD_noOcc (d : Str) (hd : d ≠ []) (s : Str) (h : NoOcc d s) : countD d s = 0 :=
  countD_of_none d s s ((findD_none d hd s s).mpr ⟨rfl, h⟩)

/-- two factorisations of the same string around `d`, the first one not later than the second:
the second remainder is a suffix of the first -/
theorem rest_suffix (d b1 r1 b2 r2 : Str) (h : b1 ++ d ++ r1 = b2 ++ d ++ r2) (hl : b1.length ≤ b2.length) :
    ∃ c, r1 = c ++ r2 := by
  rcases List.append_eq_append_iff.mp h with ⟨c, h1, h2⟩ | ⟨c, h1, h2⟩
  · -- b2 ++ d = (b1 ++ d) ++ c
    exact ⟨c, h2⟩
  · -- b1 ++ d = (b2 ++ d) ++ c
    have := congrArg List.length h1
    simp only [List.length_append] at this
    have hc : c = [] := List.eq_nil_of_length_eq_zero (by omega)
    subst hc
    exact ⟨[], by simpa using h2.symm⟩

/-- the greedy left-to-right count does not decrease when text is put in front -/
theorem countD_mono_left (d : Str) (hd : d ≠ []) (r a : Str) : countD d r ≤ countD d (a ++ r) := by
  generalize hn : r.length = n
  induction n using Nat.strongRecOn generalizing r a with
  | ind n ih =>
    rcases occ_cases d hd r with hno | ⟨b, r1, ⟨heq, hmin⟩, hf⟩
    · rw [countD_noOcc d hd r hno]; omega
    · rw [countD_of_some d r b r1 hd hf]
      rcases occ_cases d hd (a ++ r) with hno | ⟨b', r', ⟨heq', hmin'⟩, hf'⟩
      · exact absurd (by rw [heq]; simp) (hno (a ++ b) r1)
      · rw [countD_of_some d _ b' r' hd hf']
        have hle := hmin' (a ++ b) r1 (by rw [heq]; simp)
        obtain ⟨c, hc⟩ := rest_suffix d b' r' (a ++ b) r1 (by rw [← heq']; rw [heq]; simp) hle
        have hlen : r1.length < n := by
          have := congrArg List.length heq
          have hdl : 0 < d.length := List.length_pos_iff.mpr hd
          simp only [List.length_append] at this
          omega
        have := ih r1.length hlen r1 c rfl
        rw [hc]
        omega

/-- … and is superadditive: the occurrences counted in two pieces are still counted in their concatenation -/
theorem countD_superadd (d : Str) (hd : d ≠ []) (x y : Str) :
    countD d x + countD d y ≤ countD d (x ++ y) := by
  generalize hn : x.length = n
  induction n using Nat.strongRecOn generalizing x with
  | ind n ih =>
    rcases occ_cases d hd x with hno | ⟨b, r, ⟨heq, hmin⟩, hf⟩
    · rw [countD_noOcc d hd x hno]
      have := countD_mono_left d hd y x
      omega
    · have hfo : FirstOcc d (x ++ y) b (r ++ y) := by
        refine ⟨by rw [heq]; simp, ?_⟩
        intro b' r' hb'
        apply Nat.le_of_not_lt
        intro hlt
        have hdl : 0 < d.length := List.length_pos_iff.mpr hd
        have hxl : x.length = b.length + d.length + r.length := by
          have := congrArg List.length heq
          simp only [List.length_append] at this
          omega
        rcases List.append_eq_append_iff.mp hb' with ⟨c, h1, h2⟩ | ⟨c, h1, h2⟩
        · -- b' ++ d = x ++ c : impossible unless the occurrence lies in x
          have := congrArg List.length h1
          simp only [List.length_append] at this
          omega
        · -- x = (b' ++ d) ++ c
          have := hmin b' c h1
          omega
      rw [countD_of_some d x b r hd hf,
        countD_of_some d (x ++ y) b (r ++ y) hd ((findD_some d hd _ _ _).mpr hfo)]
      have hlen : r.length < n := by
        have := congrArg List.length heq
        have hdl : 0 < d.length := List.length_pos_iff.mpr hd
        simp only [List.length_append] at this
        omega
      have := ih r.length hlen r rfl
      omega

theorem countD_self (d : Str) (hd : d ≠ []) : countD d d = 1 := by
  have hfo : FirstOcc d d [] [] := ⟨by simp, fun _ _ _ => Nat.zero_le _⟩
  rw [countD_of_some d d [] [] hd ((findD_some d hd _ _ _).mpr hfo),
    countD_noOcc d hd [] ?_]
  intro b r h
  have := congrArg List.length h
  have hdl : 0 < d.length := List.length_pos_iff.mpr hd
  simp only [List.length_append, List.length_nil] at this
  omega

theorem countD_pos_of_occ (d : Str) (hd : d ≠ []) (f : Str) (h : ¬ NoOcc d f) : 0 < countD d f := by
  rcases occ_cases d hd f with hno | ⟨b, r, _, hf⟩
  · exact absurd hno h
  · rw [countD_of_some d f b r hd hf]; omega

/-- the written line contains at least the `n - 1` delimiters put there by the writer plus every
occurrence inside a field -/
theorem countD_joinD_ge (d : Str) (hd : d ≠ []) (fs : List Str) (hne : fs ≠ []) :
    fs.length + (fs.map (countD d)).sum ≤ countD d (joinD d fs) + 1 := by
  induction fs with
  | nil => exact absurd rfl hne
  | cons f rest ih =>
    cases rest with
    | nil => simp [joinD]; omega
    | cons g l =>
      have h1 := ih (by simp)
      rw [joinD_cons_cons]
      have h2 := countD_superadd d hd (f ++ d) (joinD d (g :: l))
      have h3 := countD_superadd d hd f d
      rw [countD_self d hd] at h3
      simp only [List.length_cons, List.map_cons, List.sum_cons] at h1 ⊢
      omega

theorem sum_countD_pos (d : Str) (hd : d ≠ []) (fs : List Str) (h : ∃ f ∈ fs, ¬ NoOcc d f) :
    0 < (fs.map (countD d)).sum := by
  induction fs with
  | nil => obtain ⟨f, hf, _⟩ := h; simp at hf
  | cons g rest ih =>
    obtain ⟨f, hf, hc⟩ := h
    simp only [List.map_cons, List.sum_cons]
    rcases List.mem_cons.mp hf with rfl | hf
    · have := countD_pos_of_occ d hd f hc
      omega
    · have := ih ⟨f, hf, hc⟩
      omega

/-- ANY non-empty delimiter: a simple-policy field containing the delimiter always triggers the writer's
warning test (the line has more delimiters than `n - 1`) -/
theorem lossy_simple_warns_multi (d : Str) (hd : d ≠ []) (fs : List Str) (hne : fs ≠ [])
    (h : ∃ f ∈ fs, containsD d f = true) : countD d (joinD d fs) + 1 ≠ fs.length := by
  have h' : ∃ f ∈ fs, ¬ NoOcc d f := by
    obtain ⟨f, hf, hc⟩ := h
    refine ⟨f, hf, fun hno => ?_⟩
    rw [(containsD_false_iff d hd f).mpr hno] at hc
    cases hc
  have h1 := countD_joinD_ge d hd fs hne
  have h2 := sum_countD_pos d hd fs h'
  omega

/-- ANY non-empty delimiter: if every field reads back as itself (`RawOk`: the first delimiter found in
`f ++ d` is the one appended), there is no warning -/
theorem simple_no_warning_of_rawOk (d : Str) (hd : d ≠ []) (fs : List Str) (hne : fs ≠ [])
    (hok : ∀ f ∈ fs, RawOk d f) : countD d (joinD d fs) + 1 = fs.length := by
  have := splitOn_length_pos d (joinD d fs)
  rw [countD, line_roundtrip_simple d hd fs hne hok] at *
  omega

/-- multi-character delimiter under the no-overlap hypothesis (a field that does not contain the
delimiter does not create one together with the delimiter that follows it): the warning fires iff some
field contains the delimiter -/
theorem lossy_simple_iff_multi (d : Str) (hd : d ≠ []) (fs : List Str) (hne : fs ≠ [])
    (hov : ∀ f ∈ fs, containsD d f = false → RawOk d f) :
    (countD d (joinD d fs) + 1 ≠ fs.length) ↔ ∃ f ∈ fs, containsD d f = true := by
  constructor
  · intro hw
    apply Classical.byContradiction
    intro hno
    apply hw
    apply simple_no_warning_of_rawOk d hd fs hne
    intro f hf
    apply hov f hf
    cases hc : containsD d f with
    | false => rfl
    | true => exact absurd ⟨f, hf, hc⟩ hno
  · exact lossy_simple_warns_multi d hd fs hne

/-- the no-overlap hypothesis is automatic for a one-character delimiter … -/
theorem no_overlap_single (c : Char) (f : Str) (h : containsD [c] f = false) : RawOk [c] f :=
  rawOk_single c f ((noOcc_single_iff c f).mp ((containsD_false_iff [c] (by simp) f).mp h))

/-- … and cannot be dropped for longer ones: with delimiter `aa` the fields `a`,`a` contain no
delimiter, yet the line `aaaa` triggers the warning (and reads back as three empty fields) … -/
example : (countD ['a', 'a'] (joinD ['a', 'a'] [['a'], ['a']]) + 1 ≠ [['a'], ['a']].length) ∧
    ¬ ∃ f ∈ [['a'], ['a']], containsD ['a', 'a'] f = true := by
  simp [joinD, countD, splitOn, findD, List.isPrefixOf, containsD]

/-- … while `xa`,`b` is written as `xaaab`: no warning, and yet it reads back as `x`,`ab`
(`C10_overlap_counterexample`): without the no-overlap hypothesis "no warning" does not mean "lossless" -/
example : countD ['a', 'a'] (joinD ['a', 'a'] [['x', 'a'], ['b']]) + 1 = [['x', 'a'], ['b']].length := by
  simp [joinD, countD, splitOn, findD, List.isPrefixOf]

/-! ## D. the select list law -/

/-- a plain select list `e1, …, ek` yields `[e1(r), …, ek(r)]` -/
theorem evalItemsFrom_exprs (seen : Bool) (fs : List (Ex Val)) (e : Env) (vs : List Val)
    (h : fs.mapM (· e) = .ok vs) : evalItemsFrom seen (fs.map SItem.expr) e = .ok (vs, none) := by
  induction fs generalizing vs seen with
  | nil => simp [List.mapM_nil, pure, Except.pure] at h; subst h; rfl
  | cons f fs ih =>
    simp only [List.mapM_cons, bind, Except.bind, pure, Except.pure] at h
    cases hf : f e with
    | error x => simp [hf] at h
    | ok v =>
      simp only [hf] at h
      cases hr : fs.mapM (fun f => f e) with
      | error x => simp [hr] at h
      | ok ws =>
        simp only [hr, Except.ok.injEq] at h
        subst h
        simp [evalItemsFrom, hf, ih _ ws hr, bind, Except.bind, pure, Except.pure]

/-- … and if some expression fails, the error of the FIRST failing expression (left to right) is the
error of the select list: `mapM` in `Except` stops at the first error -/
theorem evalItemsFrom_exprs_error (seen : Bool) (fs : List (Ex Val)) (e : Env) (err : ErrKind)
    (h : fs.mapM (· e) = .error err) : evalItemsFrom seen (fs.map SItem.expr) e = .error err := by
  induction fs generalizing seen with
  | nil => simp [List.mapM_nil, pure, Except.pure] at h
  | cons f fs ih =>
    simp only [List.mapM_cons, bind, Except.bind, pure, Except.pure] at h
    cases hf : f e with
    | error x =>
      simp only [hf, Except.error.injEq] at h
      subst h
      simp [evalItemsFrom, hf, bind, Except.bind]
    | ok v =>
      simp only [hf] at h
      cases hr : fs.mapM (fun f => f e) with
      | ok ws => simp [hr] at h
      | error x =>
        simp only [hr, Except.error.injEq] at h
        subst h
        simp [evalItemsFrom, hf, ih _ hr, bind, Except.bind, pure, Except.pure]

/-- the explicit form: the expressions before `f` succeed, `f` fails, whatever follows is not looked at -/
theorem evalItemsFrom_exprs_first_error (seen : Bool) (pre post : List (Ex Val)) (f : Ex Val) (e : Env)
    (vs : List Val) (hpre : pre.mapM (· e) = .ok vs) (err : ErrKind) (hf : f e = .error err) :
    evalItemsFrom seen ((pre ++ f :: post).map SItem.expr) e = .error err := by
  apply evalItemsFrom_exprs_error
  induction pre generalizing vs with
  | nil => simp [List.mapM_cons, hf, bind, Except.bind]
  | cons g pre ih =>
    simp only [List.mapM_cons, bind, Except.bind, pure, Except.pure] at hpre
    cases hg : g e with
    | error x => simp [hg] at hpre
    | ok v =>
      simp only [hg] at hpre
      cases hr : pre.mapM (fun f => f e) with
      | error x => simp [hr] at hpre
      | ok ws =>
        simp only [List.cons_append, List.mapM_cons, hg, bind, Except.bind, ih ws hr]

/-- how the UNNEST bookkeeping of two consecutive parts of a select list combines -/
def combineUnnest (n : Nat) : Option (Nat × List Atom) → Option (Nat × List Atom) → Option (Nat × List Atom)
  | some pl, _ => some pl
  | none, some (p, l) => some (n + p, l)
  | none, none => none

/-- the contribution of one item of the select list -/
def itemVal (seen : Bool) (it : SItem) (e : Env) : Except ErrKind (Row × Option (List Atom)) :=
  match it with
  | .expr f => do let v ← f e; pure ([v], none)
  | .star => pure (e.a ++ e.b.getD [], none)
  | .starA => pure (e.a, none)
  | .starB => pure (e.b.getD [], none)
  | .unnest f => do
    let l ← f e
    if seen then .error .unnestTwice else pure ([Val.none], some l)
  | .agg _ f => do let v ← f e; pure ([v], none)

theorem evalItemsFrom_consRL (seen : Bool) (it : SItem) (rest : List SItem) (e : Env) :
    evalItemsFrom seen (it :: rest) e = (do
      let (hd, un) ← itemVal seen it e
      let (tl, un2) ← evalItemsFrom (seen || un.isSome) rest e
      match un, un2 with
      | some l, _ => .ok (hd ++ tl, some (0, l))
      | none, some (p, l) => .ok (hd ++ tl, some (hd.length + p, l))
      | none, none => .ok (hd ++ tl, none)) := by
  cases it <;> rfl

/-- the compositional law of the select list: a list `xs ++ ys` is evaluated as `xs`, then `ys` (knowing
whether an UNNEST was already seen), the fields concatenated in order, the UNNEST position shifted -/
theorem evalItemsFrom_append (seen : Bool) (xs ys : List SItem) (e : Env) :
    evalItemsFrom seen (xs ++ ys) e = (do
      let (r1, u1) ← evalItemsFrom seen xs e
      let (r2, u2) ← evalItemsFrom (seen || u1.isSome) ys e
      pure (r1 ++ r2, combineUnnest r1.length u1 u2)) := by
  induction xs generalizing seen with
  | nil =>
    simp only [List.nil_append, evalItemsFrom, bind, Except.bind, pure, Except.pure, Option.isSome_none,
      Bool.or_false]
    cases evalItemsFrom seen ys e with
    | error x => rfl
    | ok p =>
      obtain ⟨r2, u2⟩ := p
      rcases u2 with _ | ⟨p, l⟩ <;> simp [combineUnnest]
  | cons it rest ih =>
    rw [List.cons_append, evalItemsFrom_consRL, evalItemsFrom_consRL]
    generalize itemVal seen it e = r0
    cases r0 with
    | error x => rfl
    | ok p0 =>
      obtain ⟨hd, un⟩ := p0
      simp only [bind, Except.bind]
      rw [ih]
      cases h1 : evalItemsFrom (seen || un.isSome) rest e with
      | error x => rfl
      | ok p1 =>
        obtain ⟨r1, u1⟩ := p1
        simp only [bind, Except.bind]
        have hseen : (seen || (match un, u1 with
            | some l, _ => some (0, l)
            | none, some (p, l) => some (hd.length + p, l)
            | none, none => (none : Option (Nat × List Atom))).isSome) = (seen || un.isSome || u1.isSome) := by
          rcases un with _ | l <;> rcases u1 with _ | ⟨p, l'⟩ <;> simp
        rcases un with _ | l <;> rcases u1 with _ | ⟨p, l'⟩ <;>
          simp only [Option.isSome_none, Option.isSome_some, Bool.or_false, Bool.or_true] <;>
          (cases evalItemsFrom _ ys e with
           | error x => rfl
           | ok p2 =>
             obtain ⟨r2, u2⟩ := p2
             rcases u2 with _ | ⟨p2, l2⟩ <;>
               simp [combineUnnest, pure, Except.pure, Nat.add_assoc])

/-- one star item in front: its fields are put in front, the UNNEST position moves right -/
theorem evalItemsFrom_star_cons (seen : Bool) (ys : List SItem) (e : Env) :
    evalItemsFrom seen (.star :: ys) e =
      (evalItemsFrom seen ys e).map (fun p =>
        ((e.a ++ e.b.getD []) ++ p.1, p.2.map (fun pl => ((e.a ++ e.b.getD []).length + pl.1, pl.2)))) := by
  simp only [evalItemsFrom, bind, Except.bind, pure, Except.pure, Option.isSome_none, Bool.or_false]
  cases evalItemsFrom seen ys e with
  | error x => rfl
  | ok p =>
    obtain ⟨r2, u2⟩ := p
    rcases u2 with _ | ⟨p, l⟩ <;> simp [Except.map]

/-- `*` among other items: the fields of the (joined) record `a ++ b` appear in place, between the
fields of the items before and after it; an UNNEST position after the star is shifted accordingly -/
theorem evalItemsFrom_star_in_place (seen : Bool) (xs ys : List SItem) (e : Env)
    (r1 : Row) (u1 : Option (Nat × List Atom)) (h1 : evalItemsFrom seen xs e = .ok (r1, u1))
    (r2 : Row) (u2 : Option (Nat × List Atom)) (h2 : evalItemsFrom (seen || u1.isSome) ys e = .ok (r2, u2)) :
    evalItemsFrom seen (xs ++ [.star] ++ ys) e =
      .ok (r1 ++ (e.a ++ e.b.getD []) ++ r2,
           combineUnnest r1.length u1 (u2.map (fun pl => ((e.a ++ e.b.getD []).length + pl.1, pl.2)))) := by
  rw [List.append_assoc, evalItemsFrom_append, h1]
  simp only [bind, Except.bind, List.singleton_append, evalItemsFrom_star_cons, h2, Except.map, pure,
    Except.pure, List.append_assoc]

/-- the same for `a.*` and `b.*` -/
theorem evalItemsFrom_starA_in_place (seen : Bool) (xs ys : List SItem) (e : Env)
    (r1 : Row) (u1 : Option (Nat × List Atom)) (h1 : evalItemsFrom seen xs e = .ok (r1, u1))
    (r2 : Row) (u2 : Option (Nat × List Atom)) (h2 : evalItemsFrom (seen || u1.isSome) ys e = .ok (r2, u2)) :
    evalItemsFrom seen (xs ++ [.starA] ++ ys) e =
      .ok (r1 ++ e.a ++ r2, combineUnnest r1.length u1 (u2.map (fun pl => (e.a.length + pl.1, pl.2)))) := by
  rw [List.append_assoc, evalItemsFrom_append, h1]
  simp only [bind, Except.bind, List.singleton_append, evalItemsFrom, h2, pure, Except.pure,
    Option.isSome_none, Bool.or_false, List.append_assoc]
  rcases u2 with _ | ⟨p, l⟩ <;> simp

theorem evalItemsFrom_starB_in_place (seen : Bool) (xs ys : List SItem) (e : Env)
    (r1 : Row) (u1 : Option (Nat × List Atom)) (h1 : evalItemsFrom seen xs e = .ok (r1, u1))
    (r2 : Row) (u2 : Option (Nat × List Atom)) (h2 : evalItemsFrom (seen || u1.isSome) ys e = .ok (r2, u2)) :
    evalItemsFrom seen (xs ++ [.starB] ++ ys) e =
      .ok (r1 ++ e.b.getD [] ++ r2,
           combineUnnest r1.length u1 (u2.map (fun pl => ((e.b.getD []).length + pl.1, pl.2)))) := by
  rw [List.append_assoc, evalItemsFrom_append, h1]
  simp only [bind, Except.bind, List.singleton_append, evalItemsFrom, h2, pure, Except.pure,
    Option.isSome_none, Bool.or_false, List.append_assoc]
  rcases u2 with _ | ⟨p, l⟩ <;> simp

/-- the typical shape `e1, …, ej, *, f1, …, fk` -/
theorem evalItems_exprs_star_exprs (fs gs : List (Ex Val)) (e : Env) (vs ws : List Val)
    (hf : fs.mapM (· e) = .ok vs) (hg : gs.mapM (· e) = .ok ws) :
    evalItems (fs.map SItem.expr ++ [.star] ++ gs.map SItem.expr) e =
      .ok (vs ++ (e.a ++ e.b.getD []) ++ ws, none) := by
  have := evalItemsFrom_star_in_place false (fs.map SItem.expr) (gs.map SItem.expr) e vs none
    (evalItemsFrom_exprs false fs e vs hf) ws none (evalItemsFrom_exprs _ gs e ws hg)
  simpa [evalItems, combineUnnest] using this

example :
    evalItems [.expr (fun e => .ok (safeGet e.a 1)), .star, .unnest (fun _ => .ok [.str ['x']]), .starA]
      { nr := 1, a := [Val.str ['k'], Val.str ['v']] } =
    .ok ([Val.str ['v'], Val.str ['k'], Val.str ['v'], Val.none, Val.str ['k'], Val.str ['v']],
         some (3, [.str ['x']])) := by
  rfl

/-! ## E. aggregate queries report the FIRST failing step -/

/-- what the engine does with one environment of an aggregate query, given the aggregation state `ag`:
evaluate WHERE, the select list (aggregate arguments included) and the group key, then accumulate -/
def aggStep (q : SemQuery) (ag : Option AggState) (e : Env) : Except EngErr (Option AggState) :=
  (projectAggEnv q e).bind (fun r => match r with
    | none => .ok ag
    | some kr => aggFeed1 q ag kr)

theorem processSelect_agg_err (q : SemQuery) (hagg : q.isAgg = true) (hx : q.exceptCols = none)
    (st : LoopState) (hf : st.chain.forbidsAggregation = false) (e : Env) (err : EngErr)
    (h : aggStep q st.agg e = .error err) : processSelect q st e = .error err := by
  rw [processSelect_agg q hagg hx st hf e]
  unfold aggStep at h
  cases h1 : projectAggEnv q e with
  | error x => rw [h1] at h; simp only [Except.bind, Except.error.injEq] at h ⊢; exact h
  | ok r =>
    rw [h1] at h
    cases r with
    | none => simp [Except.bind] at h
    | some kr =>
      simp only [Except.bind] at h ⊢
      rw [h]; rfl

theorem processMatches_agg_err (q : SemQuery) (hagg : q.isAgg = true) (hx : q.exceptCols = none)
    (nr : Nat) (recA : Row) (ms1 : List (Option Nat × Row)) (m : Option Nat × Row)
    (ms2 : List (Option Nat × Row)) (st : LoopState) (hnu : st.nu = 0)
    (hstop : st.stop = false) (hf : st.chain.forbidsAggregation = false)
    (krs : List (List Val × Row × Env)) (h : projectAggEnvs q (ms1.map (matchEnv nr recA)) = .ok krs)
    (ag2 : Option AggState) (hfeed : aggFeed q st.agg krs = .ok ag2) (err : EngErr)
    (herr : aggStep q ag2 (matchEnv nr recA m) = .error err) :
    processMatches q nr recA st (ms1 ++ m :: ms2) = .error err := by
  induction ms1 generalizing st krs with
  | nil =>
    simp only [List.map_nil, projectAggEnvs, Except.ok.injEq] at h
    subst h
    simp only [aggFeed, Except.ok.injEq] at hfeed
    subst hfeed
    obtain ⟨bnr, recB⟩ := m
    have := processSelect_agg_err q hagg hx st hf
      { nr := nr, a := recA, bnr := bnr, b := some recB, nu := st.nu } err (by rw [hnu]; exact herr)
    simp only [List.nil_append, processMatches, this, bind, Except.bind]
  | cons m0 rest ih =>
    obtain ⟨bnr, recB⟩ := m0
    obtain ⟨hd, tl, h1, h2, rfl⟩ := projectAggEnvs_cons_ok h
    obtain ⟨ag1, hsel, hrest⟩ := processSelect_agg_ok q hagg hx st hf
      { nr := nr, a := recA, bnr := bnr, b := some recB, nu := st.nu } hd tl
      (by rw [hnu]; exact h1) ag2 hfeed
    simp only [List.cons_append, processMatches, hsel, bind, Except.bind]
    have hs : (st.withAgg ag1).stop = false := hstop
    simp only [hs, Bool.false_eq_true, if_false]
    exact ih (st.withAgg ag1) hnu hstop hf tl h2 hrest

/-- the failing record: its join expansion succeeds, the environments before `env` are evaluated and
accumulated fine, and the step for `env` fails -/
theorem stepRecord_agg_err (q : SemQuery) (B : Table) (jm : JoinMap)
    (hsel : q.isUpdate = false) (hagg : q.isAgg = true) (hx : q.exceptCols = none)
    (hjm : ∀ js, q.join = some js → (jm.maxLen = nullWidth js B ∧
        ∀ key, jm.get key = (partnersSpec js.rhs B key).map (fun p => (p.1, p.2.length, p.2))))
    (st : LoopState) (hnu : st.nu = 0) (hstop : st.stop = false)
    (hf : st.chain.forbidsAggregation = false) (nr : Nat) (recA : Row)
    (envs1 : List Env) (env : Env) (envs2 : List Env)
    (he : expandRecord q B nr recA = .ok (envs1 ++ env :: envs2))
    (krs : List (List Val × Row × Env)) (hp : projectAggEnvs q envs1 = .ok krs)
    (ag2 : Option AggState) (hfeed : aggFeed q st.agg krs = .ok ag2) (err : EngErr)
    (herr : aggStep q ag2 env = .error err) :
    stepRecord q jm st nr recA = .error err := by
  unfold stepRecord
  simp only [hsel, Bool.false_eq_true, if_false]
  cases hj : q.join with
  | none =>
    simp only [expandRecord, hj, Except.ok.injEq] at he
    cases envs1 with
    | cons x xs =>
      simp only [List.cons_append, List.cons.injEq] at he
      have := he.2
      cases xs <;> simp at this
    | nil =>
      simp only [List.nil_append, List.cons.injEq] at he
      obtain ⟨rfl, _⟩ := he
      simp only [projectAggEnvs, Except.ok.injEq] at hp
      subst hp
      simp only [aggFeed, Except.ok.injEq] at hfeed
      subst hfeed
      exact processSelect_agg_err q hagg hx st hf _ err (by rw [hnu]; exact herr)
  | some js =>
    rw [expandRecord_join q B jm js hj (hjm js hj)] at he
    simp only
    cases h1 : liftErr nr (lhsKey js.lhs nr recA) with
    | error x => simp [h1, bind, Except.bind] at he
    | ok key =>
      cases h2 : liftErr nr (getRhs js.kind jm key) with
      | error x => simp [h1, h2, bind, Except.bind] at he
      | ok ms =>
        simp only [h1, h2, bind, Except.bind, pure, Except.pure, Except.ok.injEq] at he
        obtain ⟨ms1, l2, rfl, hm1, hm2⟩ := List.map_eq_append_iff.mp he
        obtain ⟨m, ms2, rfl, hm, _⟩ := List.map_eq_cons_iff.mp hm2
        subst hm1
        subst hm
        simp only [bind, Except.bind, h2]
        exact processMatches_agg_err q hagg hx nr recA ms1 m ms2 st hnu hstop hf krs hp ag2 hfeed err herr

/-- **First error of an aggregate query.**  Let the records `A1` be evaluated and accumulated without
error, and let the next record `r` (number `|A1| + 1`) expand to `envs1 ++ env :: envs2` (one
environment without a join), where `envs1` are evaluated and accumulated fine and the step for `env`
fails with `e` — in WHERE, in the select list (an aggregate argument or a plain column), in the group key,
or in the accumulation itself (a non-numeric value for SUM/…, a column that is not constant in its
group).  Then `run` reports exactly `e`, having pulled exactly `|A1| + 1` records and written nothing,
whatever follows. -/
theorem run_agg_first_error (q : SemQuery) (A1 : Table) (r : Row) (A2 B : Table)
    (hsel : q.isUpdate = false) (hagg : q.isAgg = true) (ho : q.orderBy = none) (hd : q.distinct = .no)
    (hx : q.exceptCols = none)
    (hjb : ∀ js, q.join = some js → joinBError js.rhs B = none)
    (krs1 : List (List Val × Row × Env)) (hk1 : aggEmissions q B A1 0 = .ok krs1)
    (ag1 : Option AggState) (hf1 : aggFeed q none krs1 = .ok ag1)
    (envs1 : List Env) (env : Env) (envs2 : List Env)
    (hexp : expandRecord q B (A1.length + 1) r = .ok (envs1 ++ env :: envs2))
    (krs2 : List (List Val × Row × Env)) (hk2 : projectAggEnvs q envs1 = .ok krs2)
    (ag2 : Option AggState) (hf2 : aggFeed q ag1 krs2 = .ok ag2)
    (e : EngErr) (herr : aggStep q ag2 env = .error e) :
    (run q (A1 ++ r :: A2) B).error = some e ∧ (run q (A1 ++ r :: A2) B).pulled = A1.length + 1 ∧
      (run q (A1 ++ r :: A2) B).rows = [] := by
  obtain ⟨jm, hrun, hchar⟩ := run_unfold_agg q (A1 ++ r :: A2) B hsel ho hjb
  have hf := buildChain_allows_agg q {} hsel ho hd
  have hml1 := mainLoop_agg q B jm hsel hagg hx hchar A1 0 { chain := buildChain q {} } rfl rfl hf
    krs1 hk1 ag1 hf1
  have happ := mainLoop_append q jm A1 (r :: A2) 0 _ _ _ hml1 rfl
  have hstep := stepRecord_agg_err q B jm hsel hagg hx hchar
    (({ chain := buildChain q {} } : LoopState).withAgg ag1) rfl rfl hf (A1.length + 1) r
    envs1 env envs2 hexp krs2 hk2 ag2 hf2 e herr
  have hml : mainLoop q jm (A1 ++ r :: A2) 0 { chain := buildChain q {} } =
      .error (e, ({ chain := buildChain q {} } : LoopState).withAgg ag1, A1.length + 1) := by
    rw [happ, mainLoop]
    simp only [Nat.zero_add]
    rw [hstep]
    rfl
  rw [hrun]
  unfold runWith
  rw [hml]
  refine ⟨rfl, rfl, ?_⟩
  show ((buildChain q {}).getSink.rows.reverse = [])
  rw [Chain.getSink, buildChain_sink]
  rfl

/-- … and a failing JOIN key / STRICT LEFT JOIN violation at that record is reported likewise -/
theorem run_agg_first_error_expand (q : SemQuery) (A1 : Table) (r : Row) (A2 B : Table)
    (hsel : q.isUpdate = false) (hagg : q.isAgg = true) (ho : q.orderBy = none) (hd : q.distinct = .no)
    (hx : q.exceptCols = none)
    (hjb : ∀ js, q.join = some js → joinBError js.rhs B = none)
    (krs1 : List (List Val × Row × Env)) (hk1 : aggEmissions q B A1 0 = .ok krs1)
    (ag1 : Option AggState) (hf1 : aggFeed q none krs1 = .ok ag1)
    (e : EngErr) (hexp : expandRecord q B (A1.length + 1) r = .error e) :
    (run q (A1 ++ r :: A2) B).error = some e ∧ (run q (A1 ++ r :: A2) B).pulled = A1.length + 1 ∧
      (run q (A1 ++ r :: A2) B).rows = [] := by
  obtain ⟨jm, hrun, hchar⟩ := run_unfold_agg q (A1 ++ r :: A2) B hsel ho hjb
  have hf := buildChain_allows_agg q {} hsel ho hd
  have hml1 := mainLoop_agg q B jm hsel hagg hx hchar A1 0 { chain := buildChain q {} } rfl rfl hf
    krs1 hk1 ag1 hf1
  have happ := mainLoop_append q jm A1 (r :: A2) 0 _ _ _ hml1 rfl
  have hstep := stepRecord_err_expand q B jm hsel hchar
    (({ chain := buildChain q {} } : LoopState).withAgg ag1) (A1.length + 1) r e hexp
  have hml : mainLoop q jm (A1 ++ r :: A2) 0 { chain := buildChain q {} } =
      .error (e, ({ chain := buildChain q {} } : LoopState).withAgg ag1, A1.length + 1) := by
    rw [happ, mainLoop]
    simp only [Nat.zero_add]
    rw [hstep]
    rfl
  rw [hrun]
  unfold runWith
  rw [hml]
  refine ⟨rfl, rfl, ?_⟩
  show ((buildChain q {}).getSink.rows.reverse = [])
  rw [Chain.getSink, buildChain_sink]
  rfl

/-- the common case spelled out: no JOIN, and the evaluation (WHERE, an aggregate argument or a plain
column, the group key) of record `|A1| + 1` fails -/
theorem run_agg_first_error_nojoin (q : SemQuery) (A1 : Table) (r : Row) (A2 B : Table)
    (hsel : q.isUpdate = false) (hagg : q.isAgg = true) (ho : q.orderBy = none) (hd : q.distinct = .no)
    (hx : q.exceptCols = none) (hj : q.join = none)
    (krs1 : List (List Val × Row × Env)) (hk1 : aggEmissions q B A1 0 = .ok krs1)
    (ag1 : Option AggState) (hf1 : aggFeed q none krs1 = .ok ag1)
    (e : EngErr) (herr : projectAggEnv q { nr := A1.length + 1, a := r } = .error e) :
    (run q (A1 ++ r :: A2) B).error = some e ∧ (run q (A1 ++ r :: A2) B).pulled = A1.length + 1 := by
  have h := run_agg_first_error q A1 r A2 B hsel hagg ho hd hx (fun js h => by rw [hj] at h; cases h)
    krs1 hk1 ag1 hf1 [] { nr := A1.length + 1, a := r } []
    (by simp [expandRecord, hj]) [] rfl ag1 rfl e (by simp [aggStep, herr, Except.bind])
  exact ⟨h.1, h.2.1⟩

/-- every evaluation error of `projectAggEnv` carries the record number of its environment (or is the
"only one UNNEST" parse error) -/
theorem liftErr_error_shape (nr : Nat) {α : Type} (x : Except ErrKind α) (e : EngErr)
    (h : liftErr nr x = .error e) : (∃ f, e = .runtime nr f) ∨ e = .parsing .unnestTwice := by
  cases x with
  | ok a => simp [liftErr] at h
  | error k =>
    cases k with
    | exc => simp only [liftErr, Except.error.injEq] at h; exact .inl ⟨none, h.symm⟩
    | badField i => simp only [liftErr, Except.error.injEq] at h; exact .inl ⟨some (i + 1), h.symm⟩
    | unnestTwice => simp only [liftErr, Except.error.injEq] at h; exact .inr h.symm

theorem projectAggEnv_error_names_record (q : SemQuery) (env : Env) (e : EngErr)
    (h : projectAggEnv q env = .error e) : (∃ f, e = .runtime env.nr f) ∨ e = .parsing .unnestTwice := by
  unfold projectAggEnv at h
  generalize h1 : liftErr env.nr (match q.where_ with | some w => w env | none => Except.ok true) = r1 at h
  generalize h2 : liftErr env.nr (evalItems q.items env) = r2 at h
  generalize h3 : liftErr env.nr (match q.groupBy with | some g => g env | none => Except.ok [Val.none]) = r3 at h
  cases r1 with
  | error x =>
    simp only [bind, Except.bind, Except.error.injEq] at h
    subst h
    exact liftErr_error_shape _ _ _ h1
  | ok pass =>
    cases pass with
    | false => simp [bind, Except.bind, pure, Except.pure] at h
    | true =>
      cases r2 with
      | error x =>
        simp only [bind, Except.bind, Bool.not_true, Bool.false_eq_true, if_false, Except.error.injEq] at h
        subst h
        exact liftErr_error_shape _ _ _ h2
      | ok ru =>
        cases r3 with
        | error x =>
          simp only [bind, Except.bind, Bool.not_true, Bool.false_eq_true, if_false, Except.error.injEq] at h
          subst h
          exact liftErr_error_shape _ _ _ h3
        | ok key => simp [bind, Except.bind, pure, Except.pure] at h

/-! non-vacuity: `SELECT a1, SUM(a2) GROUP BY a1` where the third record has no second field … -/
example :
    let q : SemQuery := { items := [.expr (fun e => .ok (safeGet e.a 0)),
                                    .agg .sum (fun e => if e.a.length ≤ 1 then .error (.badField 1) else .ok (safeGet e.a 1))],
                          groupBy := some (fun e => .ok [safeGet e.a 0]) }
    (run q [[.str ['x'], .num 1], [.str ['y'], .num 2], [.str ['x']], [.str ['z']]] []).error =
      some (.runtime 3 (some 2)) := by
  rfl

end Rbql
