/-
  The rbql.js string-literal scanner (`separate_string_literals` of rbql.js after the repair of the look-behind):
  helper lemmas for `Theorems/C08Js.lean`.

    (A) re-assembly: the match is a non-empty prefix of the text, `separateAuxJs` loses / reorders nothing;
    (B) the scan of a literal body: fuel independence, a closing quote is found iff the quote character occurs,
        runs of backslashes (an even run never escapes, an odd run escapes when a closing quote can still be found);
    (C) well-formed JS literal bodies (`JsBody`, decidable through `jsBodyOk`), extraction of every literal of a text
        made of quote-free gaps and well-formed literals (`separateLiteralsJs_render`), opacity;
    (D) agreement with the Python scanner on the common literals.
-/
import Rbql.Model.ParseJs
import Rbql.Proofs.LiteralOpacity
namespace Rbql.LitJs
open Rbql.LitOp

/-! ## (A) re-assembly -/

theorem jsLiteralBody_suffix (d : Char) (fuel : Nat) (prev : Bool) (s rest : Str)
    (h : jsLiteralBody d fuel prev s = some rest) : ∃ pre, s = pre ++ rest ∧ pre ≠ [] := by
  induction fuel generalizing prev s with
  | zero => simp [jsLiteralBody] at h
  | succ n ih =>
    cases s with
    | nil => simp [jsLiteralBody] at h
    | cons c cs =>
      rw [jsLiteralBody.eq_def] at h
      simp only at h
      split at h
      · simp only [Option.some.injEq] at h
        exact ⟨[c], by rw [← h]; rfl, by simp⟩
      · split at h
        · split at h
          · rename_i r hr
            simp only [Option.some.injEq] at h
            subst h
            obtain ⟨pre, hp, _⟩ := ih _ _ hr
            refine ⟨(c :: cs).take (bsRun (c :: cs) + 1) ++ pre, ?_, by simp⟩
            rw [List.append_assoc, ← hp, List.take_append_drop]
          · obtain ⟨pre, hp, _⟩ := ih _ _ h
            exact ⟨c :: pre, by rw [hp]; rfl, by simp⟩
        · obtain ⟨pre, hp, _⟩ := ih _ _ h
          exact ⟨c :: pre, by rw [hp]; rfl, by simp⟩

theorem matchLiteralJs_split (s lit rest : Str) (h : matchLiteralJs s = some (lit, rest)) :
    s = lit ++ rest ∧ lit ≠ [] := by
  unfold matchLiteralJs at h
  cases s with
  | nil => simp at h
  | cons c cs =>
    simp only at h
    split at h
    · cases hb : jsLiteralBody c ((c :: cs).length + 1) false cs with
      | none => rw [hb] at h; simp at h
      | some r =>
        rw [hb] at h
        simp only [Option.map_some, Option.some.injEq, Prod.mk.injEq] at h
        obtain ⟨h1, h2⟩ := h
        subst h2
        obtain ⟨pre, hpre, _⟩ := jsLiteralBody_suffix _ _ _ _ _ hb
        have hs : c :: cs = (c :: pre) ++ r := by rw [hpre]; rfl
        have hl : (c :: cs).length - r.length = (c :: pre).length := by
          rw [hs]; simp only [List.length_append]; omega
        rw [hl] at h1
        have : lit = c :: pre := by rw [← h1, hs, List.take_left]
        subst this
        exact ⟨hs, by simp⟩
    · cases h

theorem separateAuxJs_acc (fuel : Nat) (s cur : Str) (parts lits : List Str) :
    separateAuxJs fuel s cur parts lits =
      (parts.reverse ++ (separateAuxJs fuel s cur [] []).1, lits.reverse ++ (separateAuxJs fuel s cur [] []).2) := by
  induction fuel generalizing s cur parts lits with
  | zero => simp [separateAuxJs]
  | succ n ih =>
    cases s with
    | nil => simp [separateAuxJs]
    | cons c cs =>
      simp only [separateAuxJs]
      cases hm : matchLiteralJs (c :: cs) with
      | none => simp only; exact ih _ _ _ _
      | some p =>
        obtain ⟨lit, rest⟩ := p
        simp only
        rw [ih rest [] (cur.reverse :: parts) (lit :: lits), ih rest [] [cur.reverse] [lit]]
        simp

theorem separateAuxJs_spec (fuel : Nat) (s cur : Str) (hf : s.length < fuel) :
    (separateAuxJs fuel s cur [] []).1.length = (separateAuxJs fuel s cur [] []).2.length + 1 ∧
    reassemble (separateAuxJs fuel s cur [] []).1 (separateAuxJs fuel s cur [] []).2 = cur.reverse ++ s := by
  induction fuel generalizing s cur with
  | zero => omega
  | succ n ih =>
    cases s with
    | nil => simp [separateAuxJs, reassemble]
    | cons c cs =>
      simp only [separateAuxJs]
      cases hm : matchLiteralJs (c :: cs) with
      | none =>
        simp only
        have := ih cs (c :: cur) (by simp only [List.length_cons] at hf; omega)
        simpa using this
      | some p =>
        obtain ⟨lit, rest⟩ := p
        simp only
        obtain ⟨hs, hne⟩ := matchLiteralJs_split _ _ _ hm
        have hlen : rest.length < n := by
          have := congrArg List.length hs
          simp only [List.length_append] at this
          have : 0 < lit.length := List.length_pos_iff.mpr hne
          omega
        rw [separateAuxJs_acc]
        obtain ⟨h1, h2⟩ := ih rest [] hlen
        constructor
        · simp [h1]
        · simp only [List.reverse_cons, List.reverse_nil, List.nil_append, List.singleton_append]
          cases hr : (separateAuxJs n rest [] [] []).1 with
          | nil => rw [hr] at h1; simp at h1
          | cons p0 ps0 =>
            rw [hr] at h2
            simp only [reassemble]
            simp only [List.reverse_nil, List.nil_append] at h2
            rw [h2, hs, List.append_assoc]

theorem separateAuxJs_shape (s : Str) :
    (separateAuxJs (s.length + 1) s [] [] []).1.length = (separateAuxJs (s.length + 1) s [] [] []).2.length + 1 :=
  (separateAuxJs_spec (s.length + 1) s [] (Nat.lt_succ_self _)).1

theorem separateAuxJs_reassemble (s : Str) :
    reassemble (separateAuxJs (s.length + 1) s [] [] []).1 (separateAuxJs (s.length + 1) s [] [] []).2 = s := by
  have := (separateAuxJs_spec (s.length + 1) s [] (Nat.lt_succ_self _)).2
  simpa using this


/-! ## (B) the scan of a literal body -/

/-- with enough fuel the result does not depend on the fuel -/
theorem jsLiteralBody_fuel (d : Char) (f1 f2 : Nat) (p : Bool) (s : Str) (h1 : s.length < f1) (h2 : s.length < f2) :
    jsLiteralBody d f1 p s = jsLiteralBody d f2 p s := by
  induction f1 generalizing f2 p s with
  | zero => omega
  | succ n ih =>
    cases f2 with
    | zero => omega
    | succ m =>
      cases s with
      | nil => rfl
      | cons c cs =>
        simp only [List.length_cons] at h1 h2
        have hd : ((c :: cs).drop (bsRun (c :: cs) + 1)).length < n ∧ ((c :: cs).drop (bsRun (c :: cs) + 1)).length < m := by
          simp only [List.length_drop, List.length_cons]; omega
        simp only [jsLiteralBody]
        rw [ih m _ cs (by omega) (by omega), ih m _ cs (by omega) (by omega), ih m _ _ hd.1 hd.2]

/-- a closing quote is found as soon as the quote character occurs in the text … -/
theorem jsLiteralBody_isSome (d : Char) (fuel : Nat) (p : Bool) (s : Str) (hf : s.length < fuel) (hd : d ∈ s) :
    (jsLiteralBody d fuel p s).isSome = true := by
  induction fuel generalizing p s with
  | zero => omega
  | succ n ih =>
    cases s with
    | nil => simp at hd
    | cons c cs =>
      simp only [List.length_cons] at hf
      rw [jsLiteralBody.eq_def]
      simp only
      split
      · rfl
      · rename_i hcd
        have hcs : d ∈ cs := by
          simp only [List.mem_cons] at hd
          rcases hd with rfl | h
          · exact absurd rfl hcd
          · exact h
        split
        · split
          · rfl
          · exact ih _ cs (by omega) hcs
        · exact ih _ cs (by omega) hcs

/-- … and only then -/
theorem jsLiteralBody_none (d : Char) (fuel : Nat) (p : Bool) (s : Str) (hd : d ∉ s) :
    jsLiteralBody d fuel p s = none := by
  induction fuel generalizing p s with
  | zero => rfl
  | succ n ih =>
    cases s with
    | nil => rfl
    | cons c cs =>
      simp only [List.mem_cons, not_or] at hd
      have hdrop : d ∉ (c :: cs).drop (bsRun (c :: cs) + 1) := fun hm => by
        have := List.mem_of_mem_drop hm
        simp only [List.mem_cons] at this
        exact this.elim hd.1 hd.2
      rw [jsLiteralBody.eq_def]
      simp only [Ne.symm hd.1, if_false, ih _ _ hdrop, ih _ cs hd.2]
      split <;> rfl

theorem js_close (d : Char) (post : Str) (fuel : Nat) (p : Bool) :
    jsLiteralBody d (fuel + 1) p (d :: post) = some post := by
  simp [jsLiteralBody]

theorem js_plain_step (d c : Char) (r : Str) (fuel : Nat) (p : Bool) (h1 : c ≠ d) (h2 : c ≠ '\\') :
    jsLiteralBody d (fuel + 1) p (c :: r) = jsLiteralBody d fuel false r := by
  rw [jsLiteralBody.eq_def]
  simp [h1, h2]

/-- a stretch without the quote character and without backslash is consumed; after it the look-behind sees no backslash -/
theorem js_plain (d : Char) (b : Str) (hd : d ∉ b) (hb : '\\' ∉ b) (r : Str) (fuel : Nat) (p : Bool) :
    jsLiteralBody d (fuel + b.length) p (b ++ r) = jsLiteralBody d fuel (b.isEmpty && p) r := by
  induction b generalizing p with
  | nil => simp
  | cons c cs ih =>
    simp only [List.mem_cons, not_or] at hd hb
    rw [List.length_cons, ← Nat.add_assoc, List.cons_append, js_plain_step d c _ _ p (Ne.symm hd.1) (Ne.symm hb.1), ih hd.2 hb.2]
    simp

/-- a backslash preceded by a backslash is an ordinary character -/
theorem js_bsTrue (d : Char) (hd : d ≠ '\\') (m : Nat) (r : Str) (fuel : Nat) :
    jsLiteralBody d (fuel + m) true (List.replicate m '\\' ++ r) = jsLiteralBody d fuel true r := by
  induction m with
  | zero => rfl
  | succ m ih =>
    rw [← Nat.add_assoc, List.replicate_succ, List.cons_append, jsLiteralBody.eq_def]
    simp [Ne.symm hd]
    exact ih

theorem bsRun_replicate_succ (n : Nat) (c : Char) (r : Str) (hc : c ≠ '\\') :
    bsRun ('\\' :: (List.replicate n '\\' ++ c :: r)) = n + 1 := by
  have := bsRun_replicate (n + 1) c r hc
  rwa [List.replicate_succ] at this

/-- a run of backslashes that is NOT an escape (the look-behind sees a backslash, or the run is even, or no quote follows):
every backslash is an ordinary character -/
theorem js_run_noesc (d c : Char) (hd : d ≠ '\\') (hc : c ≠ '\\') (m : Nat) (p : Bool) (r : Str) (fuel : Nat)
    (h : p = true ∨ (m + 1) % 2 = 0 ∨ c ≠ d) :
    jsLiteralBody d (fuel + (m + 1)) p (List.replicate (m + 1) '\\' ++ c :: r) = jsLiteralBody d fuel true (c :: r) := by
  have hrun := bsRun_replicate_succ m c r hc
  have hdrop : List.drop m (List.replicate m '\\' ++ c :: r) = c :: r := drop_replicate_append _ _ _
  rw [← Nat.add_assoc, List.replicate_succ, List.cons_append, jsLiteralBody.eq_def]
  simp only [hrun]
  have hcond : ¬ (True ∧ (!p) = true ∧ (m + 1) % 2 = 1 ∧
      (List.drop (m + 1) ('\\' :: (List.replicate m '\\' ++ c :: r))).head? = some d) := by
    rw [List.drop_succ_cons, hdrop]
    rintro ⟨_, h1, h2, h3⟩
    simp only [List.head?_cons, Option.some.injEq] at h3
    rcases h with h | h | h
    · simp [h] at h1
    · omega
    · exact h h3
  rw [if_neg (Ne.symm hd), if_neg hcond]
  simp only [decide_true]
  exact js_bsTrue d hd m (c :: r) fuel

/-- an ODD run of backslashes followed by the quote, not preceded by a backslash: the escaped quote is skipped as a unit when a
closing quote is found after it; otherwise the scan falls back to the backslash alone -/
theorem js_run_esc (d : Char) (hd : d ≠ '\\') (k : Nat) (r : Str) (fuel : Nat) :
    jsLiteralBody d (fuel + 1) false (List.replicate (2 * k + 1) '\\' ++ d :: r) =
      match jsLiteralBody d fuel false r with
      | some x => some x
      | none => jsLiteralBody d fuel true (List.replicate (2 * k) '\\' ++ d :: r) := by
  have hrun := bsRun_replicate_succ (2 * k) d r hd
  have hdrop : List.drop (2 * k) (List.replicate (2 * k) '\\' ++ d :: r) = d :: r := drop_replicate_append _ _ _
  have hdrop2 : List.drop (2 * k + 1) (List.replicate (2 * k) '\\' ++ d :: r) = r := by
    rw [← List.drop_drop, hdrop]; rfl
  rw [List.replicate_succ, List.cons_append, jsLiteralBody.eq_def]
  simp only [hrun]
  have hcond : (True ∧ (!false) = true ∧ (2 * k + 1) % 2 = 1 ∧
      (List.drop (2 * k + 1) ('\\' :: (List.replicate (2 * k) '\\' ++ d :: r))).head? = some d) := by
    rw [List.drop_succ_cons, hdrop]
    exact ⟨trivial, rfl, by omega, rfl⟩
  rw [if_neg (Ne.symm hd), if_pos hcond, List.drop_succ_cons, hdrop2]
  cases jsLiteralBody d fuel false r <;> rfl

/-- an EVEN run of backslashes before a quote never escapes it (whatever the look-behind) -/
theorem js_even_run_closes (d : Char) (hd : d ≠ '\\') (n : Nat) (rest : Str) (fuel : Nat) (p : Bool) (hf : 2 * n < fuel) :
    jsLiteralBody d fuel p (List.replicate (2 * n) '\\' ++ d :: rest) = some rest := by
  cases n with
  | zero =>
    obtain ⟨f, rfl⟩ : ∃ f, fuel = f + 1 := ⟨fuel - 1, by omega⟩
    exact js_close d rest f p
  | succ n =>
    obtain ⟨f, rfl⟩ : ∃ f, fuel = (f + 1) + ((2 * n + 1) + 1) := ⟨fuel - (2 * n + 2) - 1, by omega⟩
    rw [show 2 * (n + 1) = (2 * n + 1) + 1 by omega, js_run_noesc d d hd hd (2 * n + 1) p rest (f + 1) (Or.inr (Or.inl (by omega)))]
    exact js_close d rest f true


/-- the regression statement for the repaired defect: after a stretch without quote and backslash, an EVEN run of backslashes
before a quote never escapes it — the literal closes there, wherever the scan comes from (`p` arbitrary) -/
theorem js_closes_after_even_run (d : Char) (hd : d ≠ '\\') (b : Str) (hdb : d ∉ b) (hbb : '\\' ∉ b) (n : Nat) (rest : Str)
    (fuel : Nat) (p : Bool) (hf : b.length + 2 * n < fuel) :
    jsLiteralBody d fuel p (b ++ List.replicate (2 * n) '\\' ++ d :: rest) = some rest := by
  obtain ⟨f, rfl⟩ : ∃ f, fuel = f + b.length := ⟨fuel - b.length, by omega⟩
  rw [List.append_assoc, js_plain d b hdb hbb]
  exact js_even_run_closes d hd n rest f _ (by omega)

/-- the twin for ODD runs: the quote is escaped and the scan continues after it when the quote character occurs later … -/
theorem js_continues_after_odd_run (d : Char) (hd : d ≠ '\\') (b : Str) (hdb : d ∉ b) (hbb : '\\' ∉ b) (n : Nat) (more : Str)
    (fuel : Nat) (hf : (b ++ List.replicate (2 * n + 1) '\\' ++ d :: more).length < fuel) (hm : d ∈ more) :
    jsLiteralBody d fuel false (b ++ List.replicate (2 * n + 1) '\\' ++ d :: more) = jsLiteralBody d fuel false more := by
  simp only [List.length_append, List.length_replicate, List.length_cons] at hf
  obtain ⟨f, rfl⟩ : ∃ f, fuel = (f + 1) + b.length := ⟨fuel - b.length - 1, by omega⟩
  rw [List.append_assoc, js_plain d b hdb hbb, Bool.and_false, js_run_esc d hd]
  have hs := jsLiteralBody_isSome d f false more (by omega) hm
  cases hx : jsLiteralBody d f false more with
  | none => rw [hx] at hs; cases hs
  | some x =>
    simp only
    rw [← hx]
    exact jsLiteralBody_fuel d _ _ false more (by omega) (by omega)

/-- … and when it does not, the scan falls back: the backslashes are ordinary characters and the literal closes at that quote -/
theorem js_closes_after_odd_run_at_end (d : Char) (hd : d ≠ '\\') (b : Str) (hdb : d ∉ b) (hbb : '\\' ∉ b) (n : Nat) (more : Str)
    (fuel : Nat) (hf : b.length + (2 * n + 1) < fuel) (hm : d ∉ more) :
    jsLiteralBody d fuel false (b ++ List.replicate (2 * n + 1) '\\' ++ d :: more) = some more := by
  obtain ⟨f, rfl⟩ : ∃ f, fuel = ((f + 1) + 2 * n + 1) + b.length := ⟨fuel - b.length - (2 * n + 1) - 1, by omega⟩
  rw [List.append_assoc, js_plain d b hdb hbb, Bool.and_false, js_run_esc d hd, jsLiteralBody_none d _ false more hm]
  simp only
  rw [js_bsTrue d hd]
  exact js_close d more f true

/-! ## (C) well-formed literals are extracted -/

/-- the three quote characters of the rbql.js pattern -/
def IsQuoteJs (q : Char) : Prop := q = '\'' ∨ q = '"' ∨ q = '`'

/-- a text outside the literals: no quote of any kind -/
def NoQuoteJs (s : Str) : Prop := '"' ∉ s ∧ '\'' ∉ s ∧ '`' ∉ s

instance (q : Char) : Decidable (IsQuoteJs q) := by unfold IsQuoteJs; infer_instance
instance (s : Str) : Decidable (NoQuoteJs s) := by unfold NoQuoteJs; infer_instance

theorem IsQuoteJs.ne_bs {q : Char} (h : IsQuoteJs q) : q ≠ '\\' := by
  rcases h with rfl | rfl | rfl <;> decide

/-- the body of a well-formed JS literal delimited by `q`, read as a sequence of units (as `EscBody`, but a line feed is an
ordinary character for the rbql.js pattern):
  * `plain c`: a character other than `q` and backslash;
  * `bs n c`: `n + 1` backslashes followed by such a character;
  * `esc k`: an ODD number `2k + 1` of backslashes followed by the quote;
  * `tail k`: the body ends with an EVEN number `2k` of backslashes (`k = 0`: the body ends).
Equivalently (`jsBody_iff_wellFormed`): every occurrence of `q` in the body is preceded by an odd (maximal) run of backslashes and
the body does not end in an odd run of backslashes.  Decidable through `jsBodyOk`. -/
inductive JsBody (q : Char) : Str → Prop
  | tail (k : Nat) : JsBody q (List.replicate (2 * k) '\\')
  | plain (c : Char) (b : Str) : c ≠ q → c ≠ '\\' → JsBody q b → JsBody q (c :: b)
  | bs (n : Nat) (c : Char) (b : Str) : c ≠ q → c ≠ '\\' → JsBody q b → JsBody q (List.replicate (n + 1) '\\' ++ c :: b)
  | esc (k : Nat) (b : Str) : JsBody q b → JsBody q (List.replicate (2 * k + 1) '\\' ++ q :: b)

/-- the scan of a well-formed body, started after the opening quote, ends right after the closing quote — whatever follows -/
theorem jsLiteralBody_body (q : Char) (hq : q ≠ '\\') (b : Str) (hb : JsBody q b) :
    ∀ (post : Str) (fuel : Nat), b.length < fuel → jsLiteralBody q fuel false (b ++ q :: post) = some post := by
  induction hb with
  | tail k =>
    intro post fuel hf
    simp only [List.length_replicate] at hf
    exact js_even_run_closes q hq k post fuel false hf
  | plain c b h1 h2 _ ih =>
    intro post fuel hf
    obtain ⟨f, rfl⟩ : ∃ f, fuel = f + 1 := ⟨fuel - 1, by omega⟩
    rw [List.cons_append, js_plain_step q c _ f false h1 h2]
    exact ih post f (by simp at hf; omega)
  | bs n c b h1 h2 _ ih =>
    intro post fuel hf
    simp only [List.length_append, List.length_replicate, List.length_cons] at hf
    obtain ⟨g, rfl⟩ : ∃ g, fuel = (g + 1) + (n + 1) := ⟨fuel - n - 2, by omega⟩
    rw [List.append_assoc, List.cons_append, js_run_noesc q c hq h2 n false _ (g + 1) (Or.inr (Or.inr h1)),
      js_plain_step q c _ g true h1 h2]
    exact ih post g (by omega)
  | esc k b _ ih =>
    intro post fuel hf
    simp only [List.length_append, List.length_replicate, List.length_cons] at hf
    obtain ⟨f, rfl⟩ : ∃ f, fuel = f + 1 := ⟨fuel - 1, by omega⟩
    rw [List.append_assoc, List.cons_append, js_run_esc q hq, ih post f (by omega)]

/-- a quote, a well-formed body, the same quote: the literal is the quoted string, the rest is what follows -/
theorem matchLiteralJs_lit (q : Char) (hq : IsQuoteJs q) (b post : Str) (hb : JsBody q b) :
    matchLiteralJs (q :: b ++ q :: post) = some (q :: b ++ [q], post) := by
  have hbody := jsLiteralBody_body q hq.ne_bs b hb post ((q :: b ++ q :: post).length + 1) (by simp; omega)
  have htake : (q :: b ++ q :: post).take ((q :: b ++ q :: post).length - post.length) = q :: b ++ [q] := by
    have e : q :: b ++ q :: post = (q :: b ++ [q]) ++ post := by simp
    rw [e, List.take_left' (by simp only [List.length_append, List.length_cons, List.length_nil]; omega)]
  have hq' : q = '\'' ∨ q = '"' ∨ q = '`' := hq
  rw [List.cons_append] at hbody htake ⊢
  simp only [matchLiteralJs, hq', if_true, hbody, Option.map_some, htake]

theorem matchLiteralJs_noquote (c : Char) (cs : Str) (h1 : c ≠ '"') (h2 : c ≠ '\'') (h3 : c ≠ '`') :
    matchLiteralJs (c :: cs) = none := by
  simp [matchLiteralJs, h1, h2, h3]

theorem NoQuoteJs.cons {c : Char} {s : Str} (h : NoQuoteJs (c :: s)) : c ≠ '"' ∧ c ≠ '\'' ∧ c ≠ '`' ∧ NoQuoteJs s := by
  obtain ⟨h1, h2, h3⟩ := h
  simp only [List.mem_cons, not_or] at h1 h2 h3
  exact ⟨Ne.symm h1.1, Ne.symm h2.1, Ne.symm h3.1, h1.2, h2.2, h3.2⟩

theorem separateAuxJs_nil (fuel : Nat) (cur : Str) (parts lits : List Str) :
    separateAuxJs fuel [] cur parts lits = ((cur.reverse :: parts).reverse, lits.reverse) := by
  cases fuel <;> rfl

/-- a quote-free stretch goes to the current format part -/
theorem separateAuxJs_noquote (pre : Str) (hpre : NoQuoteJs pre) : ∀ (rest : Str) (fuel : Nat) (cur : Str) (parts lits : List Str),
    separateAuxJs (fuel + pre.length) (pre ++ rest) cur parts lits = separateAuxJs fuel rest (pre.reverse ++ cur) parts lits := by
  induction pre with
  | nil => intro rest fuel cur parts lits; rfl
  | cons c cs ih =>
    intro rest fuel cur parts lits
    obtain ⟨h1, h2, h3, h4⟩ := hpre.cons
    rw [List.length_cons, ← Nat.add_assoc, List.cons_append, separateAuxJs, matchLiteralJs_noquote c _ h1 h2 h3]
    simp only
    rw [ih h4]
    simp

/-- a quoted string IS extracted -/
theorem separateAuxJs_literal (pre : Str) (hpre : NoQuoteJs pre) (q : Char) (hq : IsQuoteJs q) (b post : Str) (hb : JsBody q b)
    (fuel : Nat) (cur : Str) (parts lits : List Str) :
    separateAuxJs (fuel + 1 + pre.length) (pre ++ (q :: b ++ q :: post)) cur parts lits =
      separateAuxJs fuel post [] ((cur.reverse ++ pre) :: parts) ((q :: b ++ [q]) :: lits) := by
  rw [separateAuxJs_noquote pre hpre, List.cons_append, separateAuxJs]
  have := matchLiteralJs_lit q hq b post hb
  rw [List.cons_append] at this
  rw [this]
  simp

/-- the side conditions for every segment: quote-free gaps, a quote character of the JS pattern, a well-formed body.
(No condition relates a literal to the text after it: the rbql.js pattern has no triple-quote alternative.) -/
def SegsOkJs : List Seg → Str → Prop
  | [], t => NoQuoteJs t
  | s :: ss, t => NoQuoteJs s.pre ∧ IsQuoteJs s.q ∧ JsBody s.q s.body ∧ SegsOkJs ss t

theorem separateAuxJs_render (segs : List Seg) (t : Str) (h : SegsOkJs segs t) : ∀ (fuel : Nat) (cur : Str),
    (render segs t).length < fuel →
    separateAuxJs fuel (render segs t) cur [] [] = (partsOf cur.reverse segs t, segs.map Seg.lit) := by
  induction segs with
  | nil =>
    intro fuel cur hf
    simp only [render] at hf ⊢
    obtain ⟨f, rfl⟩ : ∃ f, fuel = f + t.length := ⟨fuel - t.length, by omega⟩
    have := separateAuxJs_noquote t h [] f cur [] []
    rw [List.append_nil] at this
    rw [this, separateAuxJs_nil]
    simp [partsOf]
  | cons s ss ih =>
    intro fuel cur hf
    obtain ⟨h1, h2, h3, h5⟩ := h
    simp only [render] at hf ⊢
    simp only [List.length_append, List.length_cons] at hf
    obtain ⟨f, rfl⟩ : ∃ f, fuel = f + 1 + s.pre.length := ⟨fuel - 1 - s.pre.length, by omega⟩
    rw [separateAuxJs_literal s.pre h1 s.q h2 s.body _ h3, separateAuxJs_acc, ih h5 f [] (by omega)]
    simp [partsOf, Seg.lit]

/-- every quoted string is extracted: the format expression is built from the texts outside the quotes and the placeholders
only, and the literals are the quoted strings in order -/
theorem separateLiteralsJs_render (segs : List Seg) (t : Str) (h : SegsOkJs segs t) :
    separateLiteralsJs (render segs t) = (tabsToSpaces (fmtP (segs.map (·.pre)) t 0), segs.map Seg.lit) := by
  unfold separateLiteralsJs
  rw [separateAuxJs_render segs t h _ [] (Nat.lt_succ_self _)]
  simp only [List.reverse_nil, interleave_partsOf, List.nil_append]
  rfl

/-- opacity: the format expression does not depend on the literal bodies (nor on the kind of quote) -/
theorem literal_opacity_js (segs segs' : List Seg) (t : Str) (h : SegsOkJs segs t) (h' : SegsOkJs segs' t)
    (hpre : segs.map (·.pre) = segs'.map (·.pre)) :
    (separateLiteralsJs (render segs t)).1 = (separateLiteralsJs (render segs' t)).1 := by
  rw [separateLiteralsJs_render segs t h, separateLiteralsJs_render segs' t h', hpre]


/-! ### the decidable form of `JsBody` and its declarative reading -/

/-- one pass over the body; `odd` = the run of backslashes that ends here has odd length -/
def jsBodyOk (q : Char) : Bool → Str → Bool
  | odd, [] => !odd
  | odd, c :: cs =>
    if c = '\\' then jsBodyOk q (!odd) cs
    else if c = q then odd && jsBodyOk q false cs
    else jsBodyOk q false cs

theorem JsBody.bs2 {q : Char} {b : Str} (h : JsBody q b) : JsBody q ('\\' :: '\\' :: b) := by
  cases h with
  | tail k =>
    have := JsBody.tail (q := q) (k + 1)
    rwa [show 2 * (k + 1) = (2 * k + 1) + 1 by omega, List.replicate_succ, List.replicate_succ] at this
  | plain c b h1 h2 hb => exact JsBody.bs 1 c b h1 h2 hb
  | bs n c b h1 h2 hb =>
    have := JsBody.bs (n + 2) c b h1 h2 hb
    rwa [List.replicate_succ, List.replicate_succ, List.cons_append, List.cons_append] at this
  | esc k b hb =>
    have := JsBody.esc (q := q) (k + 1) b hb
    rwa [show 2 * (k + 1) + 1 = (2 * k + 1) + 1 + 1 by omega, List.replicate_succ, List.replicate_succ,
      List.cons_append, List.cons_append] at this

theorem JsBody.of_ok_aux (q : Char) (b : Str) : ∀ odd : Bool, jsBodyOk q odd b = true →
    JsBody q ((if odd then ['\\'] else []) ++ b) := by
  induction b with
  | nil =>
    intro odd h
    cases odd
    · exact JsBody.tail 0
    · simp [jsBodyOk] at h
  | cons c cs ih =>
    intro odd h
    rw [jsBodyOk] at h
    split at h
    · rename_i hc
      subst hc
      cases odd
      · exact ih true h
      · exact (ih false h).bs2
    · rename_i hc
      split at h
      · rename_i hcq
        subst hcq
        simp only [Bool.and_eq_true] at h
        obtain ⟨ho, h⟩ := h
        subst ho
        exact JsBody.esc 0 cs (ih false h)
      · rename_i hcq
        cases odd
        · exact JsBody.plain c cs hcq hc (ih false h)
        · exact JsBody.bs 0 c cs hcq hc (ih false h)

theorem jsBodyOk_replicate (q : Char) (n : Nat) (odd : Bool) (r : Str) :
    jsBodyOk q odd (List.replicate n '\\' ++ r) = jsBodyOk q (if n % 2 = 1 then !odd else odd) r := by
  induction n generalizing odd with
  | zero => simp
  | succ n ih =>
    rw [List.replicate_succ, List.cons_append, jsBodyOk, if_pos rfl, ih]
    by_cases h : n % 2 = 1
    · have : ¬ (n + 1) % 2 = 1 := by omega
      simp [h, this]
    · have : (n + 1) % 2 = 1 := by omega
      simp [h, this]

theorem JsBody.ok {q : Char} (hq : q ≠ '\\') {b : Str} (h : JsBody q b) : jsBodyOk q false b = true := by
  induction h with
  | tail k =>
    have := jsBodyOk_replicate q (2 * k) false []
    rw [List.append_nil] at this
    rw [this, if_neg (by omega)]
    rfl
  | plain c b h1 h2 _ ih => rw [jsBodyOk, if_neg h2, if_neg h1]; exact ih
  | bs n c b h1 h2 _ ih => rw [jsBodyOk_replicate, jsBodyOk, if_neg h2, if_neg h1]; exact ih
  | esc k b _ ih =>
    rw [jsBodyOk_replicate, if_pos (by omega), jsBodyOk, if_neg hq, if_pos rfl, ih]
    rfl

/-- `JsBody` is decidable: it is the check `jsBodyOk` -/
theorem jsBody_iff_ok (q : Char) (hq : q ≠ '\\') (b : Str) : JsBody q b ↔ jsBodyOk q false b = true :=
  ⟨fun h => h.ok hq, fun h => by simpa using JsBody.of_ok_aux q b false h⟩

/-- the declarative reading of the task: every occurrence of `q` in the body is preceded by an odd (maximal) run of
backslashes, and the body does not end in an odd run of backslashes -/
def WellFormedJsBody (q : Char) (b : Str) : Prop :=
  (∀ pre post, b = pre ++ q :: post → bsRun pre.reverse % 2 = 1) ∧ bsRun b.reverse % 2 = 0

theorem jsBodyOk_iff_aux (q : Char) (hq : q ≠ '\\') (b : Str) : ∀ acc : Str,
    (jsBodyOk q (decide (bsRun acc % 2 = 1)) b = true ↔
      (∀ pre post, b = pre ++ q :: post → bsRun (pre.reverse ++ acc) % 2 = 1) ∧ bsRun (b.reverse ++ acc) % 2 = 0) := by
  induction b with
  | nil =>
    intro acc
    simp only [jsBodyOk, List.reverse_nil, List.nil_append]
    constructor
    · intro h
      refine ⟨fun pre post e => ?_, by simp at h; omega⟩
      cases pre <;> simp at e
    · intro h; simp; omega
  | cons c cs ih =>
    intro acc
    have hstep : ∀ P : Str → Prop, (∀ pre post, c :: cs = pre ++ q :: post → P pre) ↔
        ((c = q → P []) ∧ ∀ pre post, cs = pre ++ q :: post → P (c :: pre)) := by
      intro P
      constructor
      · intro h
        exact ⟨fun e => h [] cs (by rw [e]; rfl), fun pre post e => h (c :: pre) post (by rw [e]; rfl)⟩
      · rintro ⟨h1, h2⟩ pre post e
        cases pre with
        | nil => simp only [List.nil_append, List.cons.injEq] at e; exact h1 e.1
        | cons p ps =>
          simp only [List.cons_append, List.cons.injEq] at e
          rw [← e.1]; exact h2 ps post e.2
    rw [hstep (fun pre => bsRun (pre.reverse ++ acc) % 2 = 1)]
    simp only [List.reverse_cons, List.append_assoc, List.singleton_append, List.reverse_nil, List.nil_append]
    have ih' := ih (c :: acc)
    rw [jsBodyOk]
    by_cases hc : c = '\\'
    · subst hc
      have e : (decide (bsRun ('\\' :: acc) % 2 = 1)) = !(decide (bsRun acc % 2 = 1)) := by
        simp only [bsRun, if_true]
        by_cases h : bsRun acc % 2 = 1
        · have : ¬ (bsRun acc + 1) % 2 = 1 := by omega
          simp [h, this]
        · have : (bsRun acc + 1) % 2 = 1 := by omega
          simp [h, this]
      rw [if_pos rfl, ← e, ih']
      have : ¬ ('\\' = q) := fun h => hq h.symm
      simp [this]
    · have e : (decide (bsRun (c :: acc) % 2 = 1)) = false := by simp [bsRun, hc]
      rw [e] at ih'
      rw [if_neg hc]
      by_cases hcq : c = q
      · subst hcq
        rw [if_pos rfl, Bool.and_eq_true, ih']
        simp [and_assoc]
      · rw [if_neg hcq, ih']
        simp [hcq]

/-- `JsBody` says exactly what the task asks of a well-formed JS literal body -/
theorem jsBody_iff_wellFormed (q : Char) (hq : q ≠ '\\') (b : Str) : JsBody q b ↔ WellFormedJsBody q b := by
  rw [jsBody_iff_ok q hq]
  have := jsBodyOk_iff_aux q hq b []
  simpa [WellFormedJsBody, bsRun] using this

/-- `SegsOkJs` as a check -/
def segsOkJsB : List Seg → Str → Bool
  | [], t => decide (NoQuoteJs t)
  | s :: ss, t => decide (NoQuoteJs s.pre) && decide (IsQuoteJs s.q) && jsBodyOk s.q false s.body && segsOkJsB ss t

theorem segsOkJs_iff (segs : List Seg) (t : Str) : SegsOkJs segs t ↔ segsOkJsB segs t = true := by
  induction segs with
  | nil => simp [SegsOkJs, segsOkJsB]
  | cons s ss ih =>
    simp only [SegsOkJs, segsOkJsB, Bool.and_eq_true, decide_eq_true_eq, ih, and_assoc]
    constructor
    · rintro ⟨h1, h2, h3, h4⟩; exact ⟨h1, h2, (jsBody_iff_ok _ h2.ne_bs _).mp h3, h4⟩
    · rintro ⟨h1, h2, h3, h4⟩; exact ⟨h1, h2, (jsBody_iff_ok _ h2.ne_bs _).mpr h3, h4⟩

instance (segs : List Seg) (t : Str) : Decidable (SegsOkJs segs t) := decidable_of_iff _ (segsOkJs_iff segs t).symm

/-! ## (D) agreement with the Python scanner -/

/-- a body that is well formed for the Python pattern is well formed for the rbql.js pattern -/
theorem escBody_js {q : Char} {b : Str} (h : EscBody q b) : JsBody q b := by
  induction h with
  | tail k => exact JsBody.tail k
  | plain c b h1 h2 _ _ ih => exact JsBody.plain c b h1 h2 ih
  | bs n c b h1 h2 _ _ ih => exact JsBody.bs n c b h1 h2 ih
  | esc k b _ ih => exact JsBody.esc k b ih

/-- the conditions under which both scanners cut the same literals: the Python conditions (`SegsOk`: single or double quotes,
bodies without line feed, an empty literal not followed by its own quote character) and no backtick in the gaps -/
def SegsOkBoth : List Seg → Str → Prop
  | [], t => NoQuote t ∧ '`' ∉ t
  | s :: ss, t => '`' ∉ s.pre ∧ SegsOkBoth ss t

theorem segsOkJs_of_py (segs : List Seg) (t : Str) (h : SegsOk segs t) (hb : SegsOkBoth segs t) : SegsOkJs segs t := by
  induction segs with
  | nil => exact ⟨h.1, h.2, hb.2⟩
  | cons s ss ih =>
    obtain ⟨h1, h2, h3, _, h5⟩ := h
    refine ⟨⟨h1.1, h1.2, hb.1⟩, ?_, escBody_js h3, ih h5 hb.2⟩
    rcases h2 with e | e
    · exact Or.inr (Or.inl e)
    · exact Or.inl e

theorem separateLiterals_agree (segs : List Seg) (t : Str) (h : SegsOk segs t) (hb : SegsOkBoth segs t) :
    separateLiteralsJs (render segs t) = separateLiterals (render segs t) := by
  rw [separateLiteralsJs_render segs t (segsOkJs_of_py segs t h hb), separateLiterals_render segs t h]


instance decSegsOkBoth : (segs : List Seg) → (t : Str) → Decidable (SegsOkBoth segs t)
  | [], t => by unfold SegsOkBoth; infer_instance
  | s :: ss, t => by
    unfold SegsOkBoth
    have := decSegsOkBoth ss t
    infer_instance

/-- a stretch without quote and backslash followed by an even run of backslashes is a well-formed body -/
theorem jsBody_plain_tail (q : Char) (b : Str) (hq : q ∉ b) (hb : '\\' ∉ b) (n : Nat) :
    JsBody q (b ++ List.replicate (2 * n) '\\') := by
  induction b with
  | nil => exact JsBody.tail n
  | cons c cs ih =>
    simp only [List.mem_cons, not_or] at hq hb
    exact JsBody.plain c _ (Ne.symm hq.1) (Ne.symm hb.1) (ih hq.2 hb.2)

end Rbql.LitJs
