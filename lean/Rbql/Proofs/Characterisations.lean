/-
  Declarative characterisations for C03 (aggregates).  The theorems of `Aggregates.lean` /
  `AggBridge.lean` relate the engine model to `aggRowsSpec`, `medianOf`, `ratVariance`, … ; this file says
  what those specification functions ARE, in terms that do not mention the model:

  * MEDIAN (`medianOf`): for EVERY ascending rearrangement `ys` of the values, the median is the middle
    element of `ys` (odd length) or the arithmetic mean of the two middle elements (even length).  RBQL's
    `if a == b: a else (a + b) / 2` for the even case is the same number in exact arithmetic.
  * VARIANCE (`ratVariance` is by definition the mean of the squared deviations from the mean): it is
    non-negative.
  * the key order is antisymmetric (`keyCmp a b = .eq ↔ a = b`), hence the output of an aggregate query is in
    STRICTLY ascending key order, with exactly one record per distinct key (`aggRows_characterised`,
    `run_agg_characterised`).

  Core Lean only.
-/
import Rbql.Proofs.Aggregates
import Rbql.Proofs.AggBridge
import Rbql.Proofs.OrderAndStop
namespace Rbql

/-! ## 1a. MEDIAN -/

/-- the middle of a non-empty list: the middle element (odd length) or the mean of the two middle
elements (even length) -/
def middleOf (ys : List Rat) (h0 : 0 < ys.length) : Rat :=
  if ys.length % 2 = 1 then ys[ys.length / 2]'(Nat.div_lt_self h0 (by decide))
  else (ys[ys.length / 2 - 1]'(by omega) + ys[ys.length / 2]'(Nat.div_lt_self h0 (by decide))) / 2

theorem ratLe_sorted (xs : List Rat) : (xs.mergeSort (fun a b => decide (a ≤ b))).Pairwise (· ≤ ·) := by
  have := List.pairwise_mergeSort (le := fun a b : Rat => decide (a ≤ b))
    (fun a b c h1 h2 => by simp only [decide_eq_true_eq] at *; exact Rat.le_trans h1 h2)
    (fun a b => by simp only [Bool.or_eq_true, decide_eq_true_eq]; exact Rat.le_total) xs
  exact this.imp (fun h => by simpa using h)

theorem medianOf_mergeSort (xs : List Rat) (h : xs ≠ []) :
    ∃ h0 : 0 < (xs.mergeSort (fun a b => decide (a ≤ b))).length,
      medianOf xs = middleOf (xs.mergeSort (fun a b => decide (a ≤ b))) h0 := by
  have h0 : 0 < (xs.mergeSort (fun a b => decide (a ≤ b))).length := by
    rw [List.length_mergeSort]; exact List.length_pos_iff.mpr h
  refine ⟨h0, ?_⟩
  unfold medianOf middleOf
  generalize xs.mergeSort (fun a b => decide (a ≤ b)) = s at h0 ⊢
  simp only
  have hm : s.length / 2 < s.length := Nat.div_lt_self h0 (by decide)
  split
  · simp [List.getD_eq_getElem?_getD, hm]
  · have hm1 : s.length / 2 - 1 < s.length := by omega
    simp only [List.getD_eq_getElem?_getD, List.getElem?_eq_getElem hm, List.getElem?_eq_getElem hm1,
      Option.getD_some]
    split
    · rename_i he
      rw [← he]
      grind
    · rfl

/-- a sorted permutation is unique -/
theorem sorted_perm_unique (xs ys : List Rat) (hp : ys.Perm xs) (hs : ys.Pairwise (· ≤ ·)) :
    ys = xs.mergeSort (fun a b => decide (a ≤ b)) := by
  apply List.Perm.eq_of_pairwise (le := fun a b : Rat => a ≤ b)
    (fun a b _ _ h1 h2 => Rat.le_antisymm h1 h2) hs (ratLe_sorted xs)
  exact hp.trans (List.mergeSort_perm xs _).symm

/-- MEDIAN, characterised: for EVERY ascending rearrangement `ys` of the values -/
theorem median_is_middle_of_sorted (xs : List Rat) (h : xs ≠ []) (ys : List Rat) (hp : ys.Perm xs)
    (hs : ys.Pairwise (· ≤ ·)) :
    ∃ h0 : 0 < ys.length, medianOf xs = middleOf ys h0 := by
  obtain ⟨h0, hm⟩ := medianOf_mergeSort xs h
  have := sorted_perm_unique xs ys hp hs
  subst this
  exact ⟨h0, hm⟩

theorem median_exists (xs : List Rat) (h : xs ≠ []) :
    ∃ ys : List Rat, ys.Perm xs ∧ ys.Pairwise (· ≤ ·) ∧ ∃ h0 : 0 < ys.length,
      medianOf xs =
        if ys.length % 2 = 1 then ys[ys.length / 2]'(Nat.div_lt_self h0 (by decide))
        else (ys[ys.length / 2 - 1]'(by omega) + ys[ys.length / 2]'(Nat.div_lt_self h0 (by decide))) / 2 :=
  ⟨_, List.mergeSort_perm xs _, ratLe_sorted xs, medianOf_mergeSort xs h⟩

/-! ## 1c. VARIANCE -/

theorem ratSum_nonneg (xs : List Rat) (h : ∀ x ∈ xs, 0 ≤ x) : 0 ≤ ratSum xs := by
  induction xs with
  | nil => simp [ratSum]
  | cons x t ih =>
    rw [ratSum_cons]
    exact Rat.add_nonneg (h x (by simp)) (ih (fun y hy => h y (by simp [hy])))

private theorem rat_mul_self_nonneg (a : Rat) : 0 ≤ a * a := by
  rcases Rat.le_total (a := 0) (b := a) with h | h
  · exact Rat.mul_nonneg h h
  · have : 0 ≤ -a := by grind
    have := Rat.mul_nonneg this this
    grind

theorem ratVariance_nonneg (xs : List Rat) : 0 ≤ ratVariance xs := by
  unfold ratVariance
  have h1 : 0 ≤ ratSum (xs.map (fun x => (x - ratAvg xs) * (x - ratAvg xs))) := by
    apply ratSum_nonneg
    intro y hy
    obtain ⟨x, _, rfl⟩ := List.mem_map.mp hy
    exact rat_mul_self_nonneg _
  generalize ratSum (xs.map (fun x => (x - ratAvg xs) * (x - ratAvg xs))) = S at h1
  have h2 : (0 : Rat) ≤ (xs.length : Rat) := Rat.natCast_nonneg
  rw [Rat.div_def]
  apply Rat.mul_nonneg h1
  rcases Rat.le_iff_lt_or_eq.mp h2 with h | h
  · exact Rat.le_of_lt (Rat.inv_pos.mpr h)
  · rw [← h, Rat.inv_zero]; exact Rat.le_refl

/-! ## 1b. one output record per distinct key, in strictly ascending key order -/

private theorem char_toNat_inj (a b : Char) (h : a.toNat = b.toNat) : a = b := by
  apply Char.ext
  apply UInt32.toNat_inj.mp
  exact h

theorem strCmp_eq (a b : Str) (h : strCmp a b = .eq) : a = b := by
  induction a generalizing b with
  | nil => cases b <;> simp_all [strCmp]
  | cons x xs ih =>
    cases b with
    | nil => simp [strCmp] at h
    | cons y ys =>
      rw [strCmp] at h
      split at h
      · cases h
      · split at h
        · cases h
        · have : x = y := char_toNat_inj x y (by omega)
          rw [this, ih ys h]

theorem atomCmp_eq (a b : Atom) (h : atomCmp a b = .eq) : a = b := by
  cases a with
  | none => cases b <;> simp only [atomCmp, Atom.rank] at h <;> first | rfl | exact absurd h (by decide)
  | str p =>
    cases b <;> simp only [atomCmp, Atom.rank] at h <;> first | rw [strCmp_eq _ _ h] | exact absurd h (by decide)
  | num p =>
    cases b with
    | num q =>
      simp only [atomCmp] at h
      split at h
      · cases h
      · split at h
        · cases h
        · congr 1; grind
    | _ => simp only [atomCmp, Atom.rank] at h; exact absurd h (by decide)
  | bool p =>
    cases b with
    | bool q => cases p <;> cases q <;> first | rfl | exact absurd h (by decide)
    | _ => simp only [atomCmp, Atom.rank] at h; exact absurd h (by decide)

theorem atomsCmp_eq (a b : List Atom) (h : atomsCmp a b = .eq) : a = b := by
  induction a generalizing b with
  | nil => cases b <;> simp_all [atomsCmp]
  | cons x xs ih =>
    cases b with
    | nil => simp [atomsCmp] at h
    | cons y ys =>
      rw [atomsCmp] at h
      cases hxy : atomCmp x y <;> rw [hxy] at h <;> simp only at h <;> try cases h
      rw [atomCmp_eq _ _ hxy, ih ys h]

theorem valCmp_eq (a b : Val) (h : valCmp a b = .eq) : a = b := by
  cases a <;> cases b <;> simp only [valCmp] at h <;> try cases h
  · rw [atomCmp_eq _ _ h]
  · rw [atomsCmp_eq _ _ h]

/-- the key order is antisymmetric: two keys compare equal only if they are the same key -/
theorem keyCmp_eq (a b : List Val) (h : keyCmp a b = .eq) : a = b := by
  induction a generalizing b with
  | nil => cases b <;> simp_all [keyCmp]
  | cons x xs ih =>
    cases b with
    | nil => simp [keyCmp] at h
    | cons y ys =>
      rw [keyCmp] at h
      cases hxy : valCmp x y <;> rw [hxy] at h <;> simp only at h <;> try cases h
      rw [valCmp_eq _ _ hxy, ih ys h]

theorem keyCmp_refl (a : List Val) : keyCmp a a = .eq := by
  have := goodCmp_keyCmp.swap a a
  cases h : keyCmp a a <;> rw [h] at this <;> simp [Ordering.swap] at this

theorem keyCmp_eq_iff (a b : List Val) : keyCmp a b = .eq ↔ a = b :=
  ⟨keyCmp_eq a b, fun h => h ▸ keyCmp_refl a⟩

/-! distinct keys -/

theorem mem_distinctKeys (ks : List (List Val)) (k : List Val) : k ∈ distinctKeys ks ↔ k ∈ ks := by
  induction ks with
  | nil => simp [distinctKeys]
  | cons a t ih =>
    simp only [distinctKeys, List.mem_cons, List.mem_filter, ih, decide_eq_true_eq]
    by_cases h : k = a <;> simp [h]

theorem nodup_distinctKeys (ks : List (List Val)) : (distinctKeys ks).Nodup := by
  induction ks with
  | nil => simp [distinctKeys]
  | cons a t ih =>
    simp only [distinctKeys, List.nodup_cons, List.mem_filter, decide_eq_true_eq]
    exact ⟨fun h => h.2 rfl, ih.filter _⟩

/-- sorting a duplicate-free key list with `keyLe` gives a STRICTLY ascending list -/
theorem sorted_keys_strict (ks : List (List Val)) (hn : ks.Nodup) :
    (ks.mergeSort keyLe).Pairwise (fun a b => keyCmp a b = .lt) := by
  have hs : (ks.mergeSort keyLe).Pairwise (fun a b => keyLe a b = true) :=
    List.pairwise_mergeSort keyLe_trans (fun a b => by
      rcases keyLe_total a b with h | h <;> simp [h]) ks
  have hnd : (ks.mergeSort keyLe).Nodup := (List.mergeSort_perm ks keyLe).nodup_iff.mpr hn
  have := hs.and hnd
  refine this.imp ?_
  intro a b ⟨h1, h2⟩
  simp only [keyLe, bne_iff_ne] at h1
  cases h : keyCmp a b
  · rfl
  · exact absurd (keyCmp_eq a b h) h2
  · exact absurd h h1


private theorem mapM_zipIdx_ok {α β ε : Type} (f : α × Nat → Except ε β) (l : List α) (n : Nat) (out : List β)
    (h : (l.zipIdx n).mapM f = .ok out) :
    out.length = l.length ∧
      ∀ i (hi : i < l.length) (ho : i < out.length), f (l[i], n + i) = .ok out[i] := by
  induction l generalizing n out with
  | nil =>
    simp only [List.zipIdx_nil, List.mapM_nil, pure, Except.pure, Except.ok.injEq] at h
    subst h
    exact ⟨rfl, fun i hi => absurd hi (by simp)⟩
  | cons a t ih =>
    simp only [List.zipIdx_cons, List.mapM_cons] at h
    cases h1 : f (a, n) with
    | error e => simp [h1, bind, Except.bind] at h
    | ok b =>
      cases h2 : (t.zipIdx (n + 1)).mapM f with
      | error e => simp [h1, h2, bind, Except.bind] at h
      | ok bs =>
        simp only [h1, h2, bind, Except.bind, pure, Except.pure, Except.ok.injEq] at h
        subst h
        obtain ⟨l1, l2⟩ := ih (n + 1) bs h2
        refine ⟨by simp [l1], ?_⟩
        intro i hi ho
        cases i with
        | zero => simpa using h1
        | succ j =>
          have := l2 j (by simpa using hi) (by simpa using ho)
          simp only [List.getElem_cons_succ]
          rw [← this]
          congr 2
          omega


/-- the output record of group `k`: column `i` is the final value of the `i`-th accumulator for `k` -/
def rowOfKey (cols : List AggCol) (k : List Val) : Row :=
  cols.map (fun c => ((lookupAcc c.stats k).map Acc.final).getD Val.none)

theorem aggRows_characterised (q : SemQuery) (kr0 : List Val × Row × Env) (rest : List (List Val × Row × Env))
    (rows : List Row) (hr : aggRowsSpec q (kr0 :: rest) = .ok rows) :
    ∃ (cols : List AggCol) (keys : List (List Val)),
      cols.length = (aggColKinds q.items kr0.2.2).length ∧
      (∀ i (hi : i < (aggColKinds q.items kr0.2.2).length) (hc : i < cols.length),
        foldIncr { kind := (aggColKinds q.items kr0.2.2)[i] }
          ((kr0 :: rest).map (fun kr => (kr.1, kr.2.1.getD i Val.none))) = .ok cols[i]) ∧
      keys.Pairwise (fun a b => keyCmp a b = .lt) ∧
      keys.Perm (distinctKeys ((kr0 :: rest).map (·.1))) ∧
      keys.Nodup ∧ (∀ k, k ∈ keys ↔ ∃ kr ∈ kr0 :: rest, kr.1 = k) ∧
      rows = truncSpec q.top (keys.map (rowOfKey cols)) := by
  obtain ⟨k0, r0, e0⟩ := kr0
  simp only [aggRowsSpec] at hr
  cases hm : ((aggColKinds q.items e0).zipIdx).mapM (fun p =>
      foldIncr { kind := p.1 } (((k0, r0, e0) :: rest).map (fun kr => (kr.1, kr.2.1.getD p.2 Val.none)))) with
  | error e => rw [hm] at hr; simp [bind, Except.bind] at hr
  | ok cols =>
    rw [hm] at hr
    simp only [bind, Except.bind, pure, Except.pure, Except.ok.injEq] at hr
    obtain ⟨l1, l2⟩ := mapM_zipIdx_ok _ _ 0 cols hm
    have hnd := nodup_distinctKeys (((k0, r0, e0) :: rest).map (·.1))
    have hperm := List.mergeSort_perm (distinctKeys (((k0, r0, e0) :: rest).map (·.1))) keyLe
    refine ⟨cols, (distinctKeys (((k0, r0, e0) :: rest).map (·.1))).mergeSort keyLe, l1, ?_,
      sorted_keys_strict _ hnd, hperm, hperm.nodup_iff.mpr hnd, ?_, ?_⟩
    · intro i hi hc
      have := l2 i hi hc
      simpa using this
    · intro k
      rw [hperm.mem_iff, mem_distinctKeys]
      simp only [List.mem_map]
    · rw [← hr]; rfl


/-- The aggregate query as the engine runs it (hypotheses of `C03_one_row_per_key_sorted`): the output is
`keys.map (rowOfKey cols)` (cut by TOP), where `keys` is THE strictly ascending list of the distinct group
keys — every key of a record passing WHERE occurs in it exactly once and nothing else does — and column `i`
of `cols` is the accumulator fed with the `i`-th select-list values (to which `C03_count`, `C03_sum`,
`C03_median`, … apply). -/
theorem run_agg_characterised (q : SemQuery) (A B : Table)
    (hsel : q.isUpdate = false) (hagg : q.isAgg = true) (ho : q.orderBy = none) (hd : q.distinct = .no)
    (hx : q.exceptCols = none)
    (hjb : ∀ js, q.join = some js → joinBError js.rhs B = none)
    (kr0 : List Val × Row × Env) (rest : List (List Val × Row × Env))
    (hk : aggEmissions q B A 0 = .ok (kr0 :: rest))
    (hw : ∀ kr ∈ kr0 :: rest, kr.2.1.length = (aggColKinds q.items kr0.2.2).length)
    (rows : List Row) (hr : aggRowsSpec q (kr0 :: rest) = .ok rows) :
    (run q A B).error = none ∧
    ∃ (cols : List AggCol) (keys : List (List Val)),
      cols.length = (aggColKinds q.items kr0.2.2).length ∧
      (∀ i (hi : i < (aggColKinds q.items kr0.2.2).length) (hc : i < cols.length),
        foldIncr { kind := (aggColKinds q.items kr0.2.2)[i] }
          ((kr0 :: rest).map (fun kr => (kr.1, kr.2.1.getD i Val.none))) = .ok cols[i]) ∧
      keys.Pairwise (fun a b => keyCmp a b = .lt) ∧
      keys.Nodup ∧ (∀ k, k ∈ keys ↔ ∃ kr ∈ kr0 :: rest, kr.1 = k) ∧
      (run q A B).rows = truncSpec q.top (keys.map (rowOfKey cols)) := by
  obtain ⟨h1, h2⟩ := run_agg_eq_spec q A B hsel hagg ho hd hx hjb (kr0 :: rest) hk
    (fun kr hkr kr0' hkr0' => by
      simp only [List.head?_cons, Option.mem_def, Option.some.injEq] at hkr0'
      subst hkr0'
      exact hw kr hkr) rows hr
  obtain ⟨cols, keys, c1, c2, c3, _, c5, c6, c7⟩ := aggRows_characterised q kr0 rest rows hr
  exact ⟨h1, cols, keys, c1, c2, c3, c5, c6, by rw [h2, c7]⟩

/-- a strictly ascending list with given members is unique: "the" in the statements above is justified -/
theorem strict_keys_unique (k1 k2 : List (List Val)) (h1 : k1.Pairwise (fun a b => keyCmp a b = .lt))
    (h2 : k2.Pairwise (fun a b => keyCmp a b = .lt)) (hm : ∀ k, k ∈ k1 ↔ k ∈ k2) : k1 = k2 := by
  have irr : ∀ a : List Val, keyCmp a a ≠ .lt := fun a h => by rw [keyCmp_refl] at h; cases h
  have nd : ∀ l : List (List Val), l.Pairwise (fun a b => keyCmp a b = .lt) → l.Nodup := by
    intro l hl
    unfold List.Nodup
    exact hl.imp (fun {a b} (h : keyCmp a b = .lt) (e : a = b) => irr a (by rw [← e] at h; exact h))
  have n1 := nd k1 h1
  have n2 := nd k2 h2
  have hp : k1.Perm k2 := (List.perm_ext_iff_of_nodup n1 n2).mpr hm
  apply List.Perm.eq_of_pairwise (le := fun a b => keyCmp a b = .lt) ?_ h1 h2 hp
  intro a b _ _ hab hba
  rw [keyCmp_lt_iff_gt] at hab
  rw [hab] at hba; cases hba

/-! ## the engine's MEDIAN and VARIANCE columns, in these terms -/

/-- MEDIAN through the accumulator: for every ascending rearrangement `ys` of the group's numbers, the
column's final value for the group is the middle of `ys` -/
theorem agg_median_characterised (asStr : Bool) (kvs : List (List Val × Val))
    (hom : ∀ p ∈ kvs, ∃ x, numOfVal asStr p.2 = some x)
    (c : AggCol) (h : foldIncr { kind := some .median } kvs = .ok c) (key : List Val) (hk : groupVals kvs key ≠ [])
    (ys : List Rat) (hp : ys.Perm ((groupVals kvs key).filterMap (numOfVal asStr))) (hs : ys.Pairwise (· ≤ ·)) :
    ∃ h0 : 0 < ys.length, (lookupAcc c.stats key).map Acc.final = some (Val.num (middleOf ys h0)) := by
  have hne : (groupVals kvs key).filterMap (numOfVal asStr) ≠ [] := by
    intro he
    cases hg : groupVals kvs key with
    | nil => exact hk hg
    | cons v t =>
      have hv : v ∈ groupVals kvs key := by rw [hg]; simp
      obtain ⟨x, hx⟩ := hom (key, v) (mem_groupVals.mp hv)
      have : x ∈ (groupVals kvs key).filterMap (numOfVal asStr) := List.mem_filterMap.mpr ⟨v, hv, hx⟩
      rw [he] at this; cases this
  obtain ⟨h0, hm⟩ := median_is_middle_of_sorted _ hne ys hp hs
  exact ⟨h0, by rw [agg_median asStr kvs hom c h key hk, hm]⟩

/-- VARIANCE through the accumulator is a non-negative number -/
theorem agg_variance_nonneg (asStr : Bool) (kvs : List (List Val × Val))
    (hom : ∀ p ∈ kvs, ∃ x, numOfVal asStr p.2 = some x)
    (c : AggCol) (h : foldIncr { kind := some .variance } kvs = .ok c) (key : List Val) (hk : groupVals kvs key ≠ []) :
    ∃ v : Rat, 0 ≤ v ∧ (lookupAcc c.stats key).map Acc.final = some (Val.num v) :=
  ⟨_, ratVariance_nonneg _, agg_variance asStr kvs hom c h key hk⟩

/-! ## non-vacuity -/

example : medianOf [3, 1, 2] = 2 := by
  obtain ⟨h0, hm⟩ := median_is_middle_of_sorted [3, 1, 2] (by simp) [1, 2, 3] (by decide) (by decide)
  rw [hm]; simp [middleOf]

example : medianOf [4, 1, 3, 2] = 5 / 2 := by
  obtain ⟨h0, hm⟩ := median_is_middle_of_sorted [4, 1, 3, 2] (by simp) [1, 2, 3, 4] (by decide) (by decide)
  rw [hm]; simp [middleOf]; decide +kernel

open AggExamples in
private theorem exKeys_sorted : [kA, kB, kC].Pairwise (fun a b => keyCmp a b = .lt) := by decide +kernel

open AggExamples in
/-- the sorted distinct keys of `b, a, b, c, a` are `a, b, c` -/
example : ∀ keys : List (List Val), keys.Pairwise (fun a b => keyCmp a b = .lt) →
    (∀ k, k ∈ keys ↔ k ∈ [kB, kA, kB, kC, kA]) → keys = [kA, kB, kC] := by
  intro keys h1 h2
  apply strict_keys_unique keys [kA, kB, kC] h1 exKeys_sorted
  intro k; rw [h2]; simp only [List.mem_cons, List.not_mem_nil, or_false]; grind

end Rbql
