/-
  Three groups of results:
  A. whitespace policy: `wsTokens` is "split on runs of spaces", and the written line reads back;
  B. quoted_rfc policy: quote parity of the written line, line-level round trip for
     `rfc_quote_field`, and the quote-parity assembly of physical lines into records;
  C. reader warnings (BOM, defective line, rfc error) appear iff the anomaly occurred.
-/
import Rbql.Proofs.RoundTrip
import Rbql.Proofs.ReaderPyRecords
namespace Rbql

/-! ## A. whitespace policy -/

theorem splitOn_single_nil (c : Char) : splitOn [c] [] = [[]] :=
  splitOn_none [c] [] [] (by simp [findD])

theorem splitOn_single_cons_eq (c : Char) (s : Str) : splitOn [c] (c :: s) = [] :: splitOn [c] s :=
  splitOn_some [c] _ [] s (by simp) (findD_single_cons_eq c s)

theorem splitOn_single_ne_nil (c : Char) (s : Str) : splitOn [c] s ≠ [] := by
  intro h
  have := splitOn_single_length c s
  rw [h] at this
  simp at this

theorem splitOn_single_cons_ne (c a : Char) (s p : Str) (ps : List Str) (h : a ≠ c)
    (hs : splitOn [c] s = p :: ps) : splitOn [c] (a :: s) = (a :: p) :: ps := by
  have hf := findD_single_cons_ne c a s h
  rcases hfd : findD [c] s with ⟨b, o⟩
  rw [hfd] at hf
  cases o with
  | none =>
    rw [splitOn_none _ _ _ hfd] at hs
    rw [splitOn_none _ _ _ hf]
    simp only [List.cons.injEq] at hs
    rw [hs.1, hs.2]
  | some r =>
    rw [splitOn_some _ _ _ _ (by simp) hfd] at hs
    rw [splitOn_some _ _ _ _ (by simp) hf]
    simp only [List.cons.injEq] at hs
    rw [hs.1, hs.2]

/-- the accumulator of `wsTokens` is the beginning of the first piece -/
theorem wsTokens_acc (s cur p : Str) (ps : List Str) (hs : splitOn [SPACE] s = p :: ps) :
    wsTokens s cur = ((cur.reverse ++ p) :: ps).filter (· ≠ []) := by
  induction s generalizing cur p ps with
  | nil =>
    rw [splitOn_single_nil] at hs
    simp only [List.cons.injEq] at hs
    obtain ⟨rfl, rfl⟩ := hs
    by_cases hc : cur = [] <;> simp [wsTokens, hc]
  | cons a s ih =>
    rcases hsp : splitOn [SPACE] s with _ | ⟨p0, ps0⟩
    · exact absurd hsp (splitOn_single_ne_nil _ _)
    · by_cases ha : a = SPACE
      · subst ha
        rw [splitOn_single_cons_eq, hsp] at hs
        simp only [List.cons.injEq] at hs
        obtain ⟨rfl, rfl⟩ := hs
        have := ih [] p0 ps0 hsp
        simp only [List.reverse_nil, List.nil_append] at this
        by_cases hc : cur = [] <;> simp [wsTokens, hc, this]
      · rw [splitOn_single_cons_ne SPACE a s p0 ps0 ha hsp] at hs
        simp only [List.cons.injEq] at hs
        obtain ⟨rfl, rfl⟩ := hs
        simp [wsTokens, ha, ih (a :: cur) p0 ps0 hsp]

/-- `split_whitespace_separated_str` (not preserving) is "split on the space, drop the empty pieces",
i.e. split on runs of spaces -/
theorem wsTokens_spec (s : Str) : wsTokens s [] = (splitOn [SPACE] s).filter (· ≠ []) := by
  rcases hsp : splitOn [SPACE] s with _ | ⟨p0, ps0⟩
  · exact absurd hsp (splitOn_single_ne_nil _ _)
  · simpa using wsTokens_acc s [] p0 ps0 hsp

/-- whitespace policy: non-empty fields without a space, joined by one space, read back -/
theorem whitespace_roundtrip (fs : List Str) (h : ∀ f ∈ fs, f ≠ [] ∧ SPACE ∉ f) :
    splitWhitespace false (joinD [SPACE] fs) = fs := by
  simp only [splitWhitespace, Bool.false_eq_true, if_false]
  by_cases hne : fs = []
  · subst hne; simp [joinD, wsTokens]
  · rw [wsTokens_spec,
      line_roundtrip_simple [SPACE] (by simp) fs hne (fun f hf => rawOk_single SPACE f (h f hf).2)]
    apply List.filter_eq_self.mpr
    intro f hf
    simpa using (h f hf).1

/-! ## B. quoted_rfc policy -/

/-! ### B0. what `rfc_quote_field` writes -/

/-- `rfc_quote_field` either quotes the field, or writes it raw — and a field written raw has no quote,
no delimiter occurrence, no LF and no CR -/
theorem rfcQuoteField_cases (d f : Str) :
    rfcQuoteField d f = QUOTE :: escapeQ f ++ [QUOTE] ∨
    (rfcQuoteField d f = f ∧ QUOTE ∉ f ∧ containsD d f = false ∧ LF ∉ f ∧ CR ∉ f) := by
  unfold rfcQuoteField
  by_cases hq : QUOTE ∈ f
  · have : f.contains QUOTE = true := by simpa using hq
    simp only [this, if_true]
    exact Or.inl trivial
  · have hc : f.contains QUOTE = false := by simpa using hq
    simp only [hc, Bool.false_eq_true, if_false]
    by_cases hx : (containsD d f || f.contains LF || f.contains CR) = true
    · simp only [hx, if_true]
      left
      rw [escapeQ_of_noQuote f hq]
    · simp only [hx]
      right
      simp only [Bool.or_eq_true, not_or, Bool.not_eq_true] at hx
      refine ⟨rfl, hq, hx.1.1, ?_, ?_⟩
      · simpa using hx.1.2
      · simpa using hx.2

/-- a field written raw by `rfc_quote_field` has no quote, no delimiter occurrence, no LF, no CR -/
theorem rfcQuoteField_raw (d f : Str) (h : rfcQuoteField d f = f) :
    QUOTE ∉ f ∧ containsD d f = false ∧ LF ∉ f ∧ CR ∉ f := by
  rcases rfcQuoteField_cases d f with hq | ⟨_, h1, h2, h3, h4⟩
  · exfalso
    rw [h] at hq
    have := congrArg List.length hq
    by_cases hqf : QUOTE ∈ f
    · have hlen : f.length ≤ (escapeQ f).length := by
        clear hq this h
        induction f with
        | nil => simp
        | cons a as ih =>
          by_cases ha : a = QUOTE
          · subst ha
            by_cases hm : QUOTE ∈ as
            · have := ih hm; simp [escapeQ]; omega
            · rw [escapeQ, if_pos rfl, escapeQ_of_noQuote as hm]; simp
          · have hm : QUOTE ∈ as := by
              rcases List.mem_cons.mp hqf with e | e
              · exact absurd e.symm ha
              · exact e
            have := ih hm; simp [escapeQ, ha]; omega
      simp at this; omega
    · rw [escapeQ_of_noQuote f hqf] at this
      simp at this
      omega
  · exact ⟨h1, h2, h3, h4⟩

/-- a field containing a line break is quoted -/
theorem rfcQuoteField_linebreak (d f : Str) (h : LF ∈ f ∨ CR ∈ f) :
    rfcQuoteField d f = QUOTE :: escapeQ f ++ [QUOTE] := by
  rcases rfcQuoteField_cases d f with hq | ⟨_, _, _, h3, h4⟩
  · exact hq
  · rcases h with h | h
    · exact absurd h h3
    · exact absurd h h4

theorem rfcQuoteField_eq_nil (d f : Str) (h : rfcQuoteField d f = []) : f = [] := by
  rcases rfcQuoteField_cases d f with hq | ⟨he, _⟩
  · rw [hq] at h; simp at h
  · rw [← he]; exact h

/-! ### B1. quote parity -/

theorem countQuotes_nil : countQuotes [] = 0 := rfl

theorem countQuotes_append (a b : Str) : countQuotes (a ++ b) = countQuotes a + countQuotes b := by
  simp [countQuotes]

theorem countQuotes_cons_quote (a : Str) : countQuotes (QUOTE :: a) = countQuotes a + 1 := by
  simp [countQuotes]

theorem countQuotes_cons_ne (c : Char) (a : Str) (h : c ≠ QUOTE) : countQuotes (c :: a) = countQuotes a := by
  simp [countQuotes, h]

theorem countQuotes_eq_zero (a : Str) (h : QUOTE ∉ a) : countQuotes a = 0 := by
  simpa [countQuotes] using List.count_eq_zero.mpr h

/-- `replace('"', '""')` doubles the number of quotes -/
theorem countQuotes_escapeQ (f : Str) : countQuotes (escapeQ f) = 2 * countQuotes f := by
  induction f with
  | nil => rfl
  | cons a as ih =>
    by_cases ha : a = QUOTE
    · subst ha
      rw [escapeQ, if_pos rfl, countQuotes_cons_quote, countQuotes_cons_quote, countQuotes_cons_quote, ih]
      omega
    · rw [escapeQ, if_neg ha, countQuotes_cons_ne _ _ ha, countQuotes_cons_ne _ _ ha, ih]

/-- B1, one field: opening + closing + doubled inner quotes, or no quote at all -/
theorem countQuotes_rfcQuoteField (d f : Str) : countQuotes (rfcQuoteField d f) % 2 = 0 := by
  rcases rfcQuoteField_cases d f with hq | ⟨he, hn, _⟩
  · rw [hq, countQuotes_append, countQuotes_cons_quote, countQuotes_escapeQ]
    have : countQuotes [QUOTE] = 1 := by simp [countQuotes]
    omega
  · rw [he, countQuotes_eq_zero f hn]

theorem countQuotes_joinD_even (d : Str) (hd : QUOTE ∉ d) (l : List Str)
    (h : ∀ x ∈ l, countQuotes x % 2 = 0) : countQuotes (joinD d l) % 2 = 0 := by
  induction l with
  | nil => rfl
  | cons f rest ih =>
    cases rest with
    | nil => simpa [joinD] using h f (by simp)
    | cons f2 rest2 =>
      have h1 := h f (by simp)
      have h2 := ih (fun x hx => h x (by simp [hx]))
      rw [joinD_cons_cons, countQuotes_append, countQuotes_append, countQuotes_eq_zero d hd]
      omega

/-- B1, the written line has an even number of quotes -/
theorem countQuotes_written_rfc (d : Str) (hd : QUOTE ∉ d) (fs : List Str) :
    countQuotes (joinD d (fs.map (rfcQuoteField d))) % 2 = 0 := by
  apply countQuotes_joinD_even d hd
  intro x hx
  obtain ⟨f, _, rfl⟩ := List.mem_map.mp hx
  exact countQuotes_rfcQuoteField d f

/-! ### B2. line-level round trip -/

theorem fieldAt_written_rfc_end {d : Str} {ws : Bool} (g : GoodDelim d ws) (f : Str) :
    FieldAt d ws (rfcQuoteField d f) f false none := by
  rcases rfcQuoteField_cases d f with hq | ⟨he, hn, hcd, _⟩
  · rw [hq]
    have := quotedAt_written ws f []
    simp only [List.append_nil] at this
    exact FieldAt.quotedEnd f this
  · rw [he]
    have hno := (containsD_false_iff d g.ne f).mp hcd
    have hn' := no_quotedAt_raw g f [] hn (Or.inl rfl)
    simp only [List.append_nil] at hn'
    have := FieldAt.plainEnd hn' hno
    have hc : f.contains QUOTE = false := by simpa using hn
    rw [hc] at this
    exact this

theorem fieldAt_written_rfc_delim {d : Str} {ws : Bool} (g : GoodDelim d ws) (f r : Str) (hok : FieldOk d f) :
    FieldAt d ws (rfcQuoteField d f ++ d ++ r) f false (some r) := by
  rcases rfcQuoteField_cases d f with hq | ⟨he, hn, hcd, _⟩
  · rw [hq]
    have := quotedAt_written ws f (d ++ r)
    simp only [← List.append_assoc] at this ⊢
    exact FieldAt.quotedDelim f r this
  · rw [he]
    have hraw := hok ⟨hn, hcd⟩
    have hn' := no_quotedAt_raw g f (d ++ r) hn (Or.inr ⟨r, rfl⟩)
    simp only [← List.append_assoc] at hn'
    have := FieldAt.plainDelim f r hn' (hraw.firstOcc_append g.ne r)
    have hc : f.contains QUOTE = false := by simpa using hn
    rw [hc] at this
    exact this

/-- the line written with `rfc_quote_field` parses, in the dialect, as the fields that were written -/
theorem parses_written_rfc {d : Str} {ws : Bool} (g : GoodDelim d ws) (fs : List Str) (hne : fs ≠ [])
    (hok : ∀ f ∈ fs, FieldOk d f) :
    Parses d ws (joinD d (fs.map (rfcQuoteField d))) fs false := by
  induction fs with
  | nil => exact absurd rfl hne
  | cons f rest ih =>
    cases rest with
    | nil =>
      simp only [List.map, joinD]
      exact Parses.last _ f false (fieldAt_written_rfc_end g f)
    | cons f2 rest2 =>
      have hf := hok f (by simp)
      have ih' := ih (by simp) (fun x hx => hok x (by simp [hx]))
      simp only [List.map_cons, joinD_cons_cons] at ih' ⊢
      by_cases hempty : joinD d (rfcQuoteField d f2 :: rest2.map (rfcQuoteField d)) = []
      · cases rest2 with
        | nil =>
          simp only [List.map_nil, joinD] at hempty
          have hf2 := rfcQuoteField_eq_nil d f2 hempty
          subst hf2
          rw [List.map_nil, hempty]
          exact Parses.trailing _ f false (fieldAt_written_rfc_delim g f [] hf)
        | cons f3 rest3 =>
          exfalso
          simp only [List.map_cons, joinD_cons_cons] at hempty
          have := congrArg List.length hempty
          have hdl : 0 < d.length := List.length_pos_iff.mpr g.ne
          simp only [List.length_append, List.length_nil] at this
          omega
      · have := Parses.more _ f false _ (f2 :: rest2) false (fieldAt_written_rfc_delim g f _ hf) hempty ih'
        simpa using this

theorem line_roundtrip_rfc {d : Str} {ws : Bool} (g : GoodDelim d ws) (fs : List Str) (hne : fs ≠ [])
    (hok : ∀ f ∈ fs, FieldOk d f) :
    splitFrom d ws false (joinD d (fs.map (rfcQuoteField d))) = (fs, false) :=
  C11_split_complete g _ fs false (parses_written_rfc g fs hne hok)

/-- B2: quoted_rfc policy, one logical line (the fields may contain LF and CR): splitting the written
line returns the fields, without warning -/
theorem line_roundtrip_rfc_str {d : Str} (g : GoodDelim d (d != [SPACE])) (fs : List Str) (hne : fs ≠ [])
    (hok : ∀ f ∈ fs, FieldOk d f) :
    splitQuotedStr d false (joinD d (fs.map (rfcQuoteField d))) = (fs, false) := by
  have h := line_roundtrip_rfc g fs hne hok
  unfold splitQuotedStr
  split
  · exact h
  · rename_i hc
    have hq : QUOTE ∉ joinD d (fs.map (rfcQuoteField d)) := by simpa using hc
    rw [C11_fast_path g false _ hq] at h
    exact h

/-- the same through `smart_split` with the policy name -/
theorem line_roundtrip_rfc_smart {d : Str} (g : GoodDelim d (d != [SPACE])) (fs : List Str) (hne : fs ≠ [])
    (hok : ∀ f ∈ fs, FieldOk d f) :
    smartSplit d .quotedRfc false (joinD d (fs.map (rfcQuoteField d))) = (fs, false) :=
  line_roundtrip_rfc_str g fs hne hok

/-! ### B3. quote-parity assembly of physical lines -/

/-- Quote-parity assembly of physical lines into logical records (what `get_row_rfc` /
`MultilineRecordAggregator` do, comment lines aside).  The second argument is the record under
construction — the physical lines taken so far, joined with LF — or `none` when no record is open.
A line with an odd number of quotes opens a record, which extends to the next line with an odd
number of quotes (or to the end of the input). -/
def assembleAux : List Str → Option Str → List Str
  | [], none => []
  | [], some acc => [acc]
  | l :: ls, none =>
    if countQuotes l % 2 = 1 then assembleAux ls (some l) else l :: assembleAux ls none
  | l :: ls, some acc =>
    if countQuotes l % 2 = 1 then (acc ++ LF :: l) :: assembleAux ls none
    else assembleAux ls (some (acc ++ LF :: l))

def assemble (ls : List Str) : List Str := assembleAux ls none

/-- every occurrence of the character `c` in `r` is preceded by an odd number of quotes, i.e. lies
inside a quoted field.  (`InsideQuotes LF r` is the side condition of `assemble_written`: with the
physical lines `l₁ … lₖ` of `r` it says that `l₁ … lᵢ` together have an odd number of quotes for every
`i < k`, i.e. `l₁` is odd when `k > 1` and `l₂ … lₖ₋₁` are even; `lₖ` is then odd because the total is even.) -/
def InsideQuotes (c : Char) (r : Str) : Prop := ∀ p q, r = p ++ c :: q → countQuotes p % 2 = 1

theorem NoNL_of_not_mem (b : Str) (h1 : LF ∉ b) (h2 : CR ∉ b) : NoNL b := by
  intro c hc
  exact ⟨fun e => h1 (e ▸ hc), fun e => h2 (e ▸ hc)⟩

/-- an open record is closed by the first physical line with an odd number of quotes -/
theorem assembleAux_open (acc b X : Str) (hcr : CR ∉ b) (hodd : countQuotes b % 2 = 1)
    (hpre : ∀ p q, b = p ++ LF :: q → countQuotes p % 2 = 0) :
    assembleAux (linesSpec (b ++ LF :: X)) (some acc) =
      (acc ++ LF :: b) :: assembleAux (linesSpec X) none := by
  induction hn : b.length using Nat.strongRecOn generalizing b acc with
  | ind n ih =>
    by_cases hlf : LF ∈ b
    · obtain ⟨a, b', rfl, ha⟩ := List.eq_append_cons_of_mem hlf
      have hcra : CR ∉ a := fun h => hcr (by simp [h])
      have hcrb : CR ∉ b' := fun h => hcr (by simp [h])
      have hea : countQuotes a % 2 = 0 := hpre a b' rfl
      have hLF : LF ≠ QUOTE := by decide
      rw [List.append_assoc, List.cons_append, linesSpec_LF _ _ (NoNL_of_not_mem a ha hcra), assembleAux]
      rw [if_neg (by omega)]
      rw [ih b'.length (by subst hn; simp; omega) (acc ++ LF :: a) b' hcrb ?_ ?_ rfl]
      · simp
      · rw [countQuotes_append, countQuotes_cons_ne _ _ hLF] at hodd
        omega
      · intro p q hb
        have := hpre (a ++ LF :: p) q (by rw [hb]; simp)
        rw [countQuotes_append, countQuotes_cons_ne _ _ hLF] at this
        omega
    · rw [linesSpec_LF _ _ (NoNL_of_not_mem b hlf hcr), assembleAux, if_pos hodd]

/-- one record is peeled off -/
theorem assemble_record (r X : Str) (hcr : CR ∉ r) (heven : countQuotes r % 2 = 0)
    (hin : InsideQuotes LF r) :
    assembleAux (linesSpec (r ++ LF :: X)) none = r :: assembleAux (linesSpec X) none := by
  by_cases hlf : LF ∈ r
  · obtain ⟨a, b, rfl, ha⟩ := List.eq_append_cons_of_mem hlf
    have hcra : CR ∉ a := fun h => hcr (by simp [h])
    have hcrb : CR ∉ b := fun h => hcr (by simp [h])
    have hoa : countQuotes a % 2 = 1 := hin a b rfl
    have hLF : LF ≠ QUOTE := by decide
    rw [List.append_assoc, List.cons_append, linesSpec_LF _ _ (NoNL_of_not_mem a ha hcra), assembleAux,
      if_pos hoa, assembleAux_open a b X hcrb]
    · rw [countQuotes_append, countQuotes_cons_ne _ _ hLF] at heven
      omega
    · intro p q hb
      have := hin (a ++ LF :: p) q (by rw [hb]; simp)
      rw [countQuotes_append, countQuotes_cons_ne _ _ hLF] at this
      omega
  · rw [linesSpec_LF _ _ (NoNL_of_not_mem r hlf hcr), assembleAux, if_neg (by omega)]

/-- B3: records without CR, with an even number of quotes and with every LF inside quotes, each followed
by a line feed: reading physical lines and re-assembling them by quote parity gives the records back -/
theorem assemble_written (records : List Str)
    (h : ∀ r ∈ records, CR ∉ r ∧ countQuotes r % 2 = 0 ∧ InsideQuotes LF r) :
    assemble (linesSpec (records.flatMap (fun r => r ++ [LF]))) = records := by
  unfold assemble
  induction records with
  | nil => simp [linesSpec_nil, assembleAux]
  | cons r rs ih =>
    obtain ⟨h1, h2, h3⟩ := h r (by simp)
    rw [List.flatMap_cons, List.append_assoc, List.singleton_append, assemble_record r _ h1 h2 h3,
      ih (fun x hx => h x (by simp [hx]))]

/-! ### B3, the side condition holds for written records -/

theorem append_eq_append_cons {x y p q : Str} {c : Char} (h : x ++ y = p ++ c :: q) :
    (∃ q', x = p ++ c :: q' ∧ q = q' ++ y) ∨ (∃ p', p = x ++ p' ∧ y = p' ++ c :: q) := by
  induction x generalizing p with
  | nil => exact Or.inr ⟨p, by simp, by simpa using h⟩
  | cons a x ih =>
    cases p with
    | nil =>
      simp only [List.cons_append, List.nil_append, List.cons.injEq] at h
      obtain ⟨rfl, rfl⟩ := h
      exact Or.inl ⟨x, rfl, rfl⟩
    | cons b p =>
      simp only [List.cons_append, List.cons.injEq] at h
      obtain ⟨rfl, h⟩ := h
      rcases ih h with ⟨q', rfl, rfl⟩ | ⟨p', rfl, rfl⟩
      · exact Or.inl ⟨q', rfl, rfl⟩
      · exact Or.inr ⟨p', rfl, rfl⟩

/-- in `src.replace('"', '""')` every non-quote character is preceded by an even number of quotes
coming from the replacement … -/
theorem escapeQ_prefix_even (f p q : Str) (c : Char) (hc : c ≠ QUOTE) (h : escapeQ f = p ++ c :: q) :
    countQuotes p % 2 = 0 := by
  induction f generalizing p with
  | nil => simp [escapeQ] at h
  | cons a as ih =>
    by_cases ha : a = QUOTE
    · subst ha
      rw [escapeQ, if_pos rfl] at h
      match p, h with
      | [], h => simp at h; exact absurd h.1.symm hc
      | [x], h => simp at h; exact absurd h.2.1.symm hc
      | x :: y :: p', h =>
        simp only [List.cons_append, List.cons.injEq] at h
        obtain ⟨rfl, rfl, h⟩ := h
        have := ih p' h
        rw [countQuotes_cons_quote, countQuotes_cons_quote]
        omega
    · rw [escapeQ, if_neg ha] at h
      cases p with
      | nil => rfl
      | cons x p' =>
        simp only [List.cons_append, List.cons.injEq] at h
        obtain ⟨rfl, h⟩ := h
        rw [countQuotes_cons_ne _ _ ha]
        exact ih p' h

/-- … so inside a quoted field every non-quote character is preceded by an odd number of quotes -/
theorem insideQuotes_quoted (f : Str) (c : Char) (hc : c ≠ QUOTE) :
    InsideQuotes c (QUOTE :: escapeQ f ++ [QUOTE]) := by
  intro p q h
  cases p with
  | nil => simp at h; exact absurd h.1.symm hc
  | cons x p' =>
    simp only [List.cons_append, List.cons.injEq] at h
    obtain ⟨rfl, h⟩ := h
    rw [countQuotes_cons_quote]
    rcases append_eq_append_cons h with ⟨q', h1, _⟩ | ⟨p'', _, h2⟩
    · have := escapeQ_prefix_even f p' q' c hc h1
      omega
    · exfalso
      cases p'' with
      | nil => simp at h2; exact hc h2.1.symm
      | cons y p3 => simp at h2

/-- every LF and every CR of a field written by `rfc_quote_field` lies inside its quotes -/
theorem insideQuotes_rfcQuoteField (d f : Str) (c : Char) (hc : c = LF ∨ c = CR) :
    InsideQuotes c (rfcQuoteField d f) := by
  have hcq : c ≠ QUOTE := by rcases hc with rfl | rfl <;> decide
  rcases rfcQuoteField_cases d f with hq | ⟨he, _, _, h3, h4⟩
  · rw [hq]; exact insideQuotes_quoted f c hcq
  · rw [he]
    intro p q h
    exfalso
    have : c ∈ f := by rw [h]; simp
    rcases hc with rfl | rfl
    · exact h3 this
    · exact h4 this

theorem insideQuotes_joinD (d : Str) (c : Char) (hcd : c ∉ d) (hqd : QUOTE ∉ d) (l : List Str)
    (h : ∀ x ∈ l, InsideQuotes c x ∧ countQuotes x % 2 = 0) : InsideQuotes c (joinD d l) := by
  induction l with
  | nil => intro p q hpq; simp [joinD] at hpq
  | cons x rest ih =>
    cases rest with
    | nil => simpa [joinD] using (h x (by simp)).1
    | cons y rest2 =>
      have hx := h x (by simp)
      have ih' := ih (fun z hz => h z (by simp [hz]))
      intro p q hpq
      rw [joinD_cons_cons] at hpq
      rcases append_eq_append_cons hpq with ⟨q', h1, _⟩ | ⟨p', rfl, h2⟩
      · rcases append_eq_append_cons h1 with ⟨q'', h3, _⟩ | ⟨p'', _, h4⟩
        · exact hx.1 p q'' h3
        · exact absurd (by rw [h4]; simp) hcd
      · have := ih' p' q h2
        rw [countQuotes_append, countQuotes_append, countQuotes_eq_zero d hqd]
        omega

/-- every LF (and every CR) of a written record lies inside a quoted field -/
theorem insideQuotes_written (d : Str) (c : Char) (hc : c = LF ∨ c = CR) (hcd : c ∉ d) (hqd : QUOTE ∉ d)
    (fs : List Str) : InsideQuotes c (joinD d (fs.map (rfcQuoteField d))) := by
  apply insideQuotes_joinD d c hcd hqd
  intro x hx
  obtain ⟨f, _, rfl⟩ := List.mem_map.mp hx
  exact ⟨insideQuotes_rfcQuoteField d f c hc, countQuotes_rfcQuoteField d f⟩

theorem mem_escapeQ (c : Char) (f : Str) (h : c ∈ escapeQ f) : c ∈ f := by
  induction f with
  | nil => simp [escapeQ] at h
  | cons a as ih =>
    by_cases ha : a = QUOTE
    · subst ha
      rw [escapeQ, if_pos rfl] at h
      simp only [List.mem_cons] at h ⊢
      rcases h with h | h | h
      · exact Or.inl h
      · exact Or.inl h
      · exact Or.inr (ih h)
    · rw [escapeQ, if_neg ha] at h
      simp only [List.mem_cons] at h ⊢
      rcases h with h | h
      · exact Or.inl h
      · exact Or.inr (ih h)

theorem mem_rfcQuoteField (d f : Str) (c : Char) (hc : c ≠ QUOTE) (h : c ∈ rfcQuoteField d f) : c ∈ f := by
  rcases rfcQuoteField_cases d f with hq | ⟨he, _⟩
  · rw [hq] at h
    simp only [List.cons_append, List.mem_cons, List.mem_append, List.not_mem_nil, or_false] at h
    rcases h with h | h | h
    · exact absurd h hc
    · exact mem_escapeQ c f h
    · exact absurd h hc
  · rw [← he]; exact h

theorem mem_joinD (d : Str) (c : Char) (l : List Str) (h : c ∈ joinD d l) : c ∈ d ∨ ∃ x ∈ l, c ∈ x := by
  induction l with
  | nil => simp [joinD] at h
  | cons x rest ih =>
    cases rest with
    | nil => exact Or.inr ⟨x, by simp, by simpa [joinD] using h⟩
    | cons y rest2 =>
      rw [joinD_cons_cons] at h
      simp only [List.mem_append] at h
      rcases h with (h | h) | h
      · exact Or.inr ⟨x, by simp, h⟩
      · exact Or.inl h
      · rcases ih h with h | ⟨z, hz, hc⟩
        · exact Or.inl h
        · exact Or.inr ⟨z, by simp [hz], hc⟩

/-- B3 for the writer's output (fields free of CR, e.g. after CR/CRLF were normalised; they may contain
LF): the lines written for a table, each followed by LF, are re-assembled into exactly these lines. -/
theorem assemble_written_table (d : Str) (hqd : QUOTE ∉ d) (hlf : LF ∉ d) (hcr : CR ∉ d)
    (table : List (List Str)) (hf : ∀ fs ∈ table, ∀ f ∈ fs, CR ∉ f) :
    assemble (linesSpec (table.flatMap (fun fs => joinD d (fs.map (rfcQuoteField d)) ++ [LF]))) =
      table.map (fun fs => joinD d (fs.map (rfcQuoteField d))) := by
  have := assemble_written (table.map (fun fs => joinD d (fs.map (rfcQuoteField d)))) (by
    intro r hr
    obtain ⟨fs, hfs, rfl⟩ := List.mem_map.mp hr
    refine ⟨?_, countQuotes_written_rfc d hqd fs, insideQuotes_written d LF (Or.inl rfl) hlf hqd fs⟩
    intro hmem
    rcases mem_joinD d CR _ hmem with h | ⟨x, hx, hc⟩
    · exact hcr h
    · obtain ⟨f, hfm, rfl⟩ := List.mem_map.mp hx
      exact hf fs hfs f hfm (mem_rfcQuoteField d f CR (by decide) hc))
  rw [List.flatMap_map] at this
  exact this

/-- … and every re-assembled line splits into the fields that were written, without warning: the whole
quoted_rfc round trip from the table to the table. -/
theorem rfc_table_roundtrip {d : Str} (g : GoodDelim d (d != [SPACE])) (hlf : LF ∉ d) (hcr : CR ∉ d)
    (table : List (List Str)) (hne : ∀ fs ∈ table, fs ≠ [])
    (hok : ∀ fs ∈ table, ∀ f ∈ fs, FieldOk d f ∧ CR ∉ f) :
    (assemble (linesSpec (table.flatMap (fun fs => joinD d (fs.map (rfcQuoteField d)) ++ [LF])))).map
      (smartSplit d .quotedRfc false) = table.map (fun fs => (fs, false)) := by
  rw [assemble_written_table d g.noQuote hlf hcr table (fun fs hfs f hf => (hok fs hfs f hf).2),
    List.map_map]
  apply List.map_congr_left
  intro fs hfs
  exact line_roundtrip_rfc_smart g fs (hne fs hfs) (fun f hf => (hok fs hfs f hf).1)

/-! ### B4. fields containing CR or CRLF: the assembly normalises them to LF -/

theorem univNewlines_nil : univNewlines [] = [] := rfl

theorem univNewlines_cons_ne (c : Char) (X : Str) (h : c ≠ CR) :
    univNewlines (c :: X) = c :: univNewlines X := by
  cases X <;> simp [univNewlines, h]

theorem univNewlines_CRLF (X : Str) : univNewlines (CR :: LF :: X) = LF :: univNewlines X := by
  simp [univNewlines]

theorem univNewlines_CR (X : Str) (h : X.head? ≠ some LF) :
    univNewlines (CR :: X) = LF :: univNewlines X := by
  cases X with
  | nil => simp [univNewlines]
  | cons c2 cs =>
    have : c2 ≠ LF := by intro e; subst e; exact h rfl
    simp [univNewlines, this]

theorem univNewlines_noCR_append (a X : Str) (h : CR ∉ a) :
    univNewlines (a ++ X) = a ++ univNewlines X := by
  induction a with
  | nil => rfl
  | cons c cs ih =>
    have hc : c ≠ CR := by intro e; apply h; simp [e]
    rw [List.cons_append, univNewlines_cons_ne _ _ hc, ih (fun hm => h (by simp [hm]))]
    rfl

theorem univNewlines_noCR (a : Str) (h : CR ∉ a) : univNewlines a = a := by
  simpa [univNewlines_nil] using univNewlines_noCR_append a [] h

theorem NoNL.noCR {a : Str} (h : NoNL a) : CR ∉ a := fun hm => (h CR hm).2 rfl
theorem NoNL.noLF {a : Str} (h : NoNL a) : LF ∉ a := fun hm => (h LF hm).1 rfl

/-- the first line break of a text, in the normalised text -/
theorem univNewlines_extract (buf before sep after : Str)
    (h : extractLine buf = some (before, sep, after)) :
    univNewlines buf = before ++ LF :: univNewlines after := by
  obtain ⟨h1, h2, h3⟩ := extractLine_some _ _ _ _ h
  subst h1
  rw [List.append_assoc, univNewlines_noCR_append _ _ h2.noCR]
  rcases h3 with rfl | rfl | ⟨rfl, h3⟩
  · rw [List.singleton_append, univNewlines_cons_ne _ _ LF_ne_CR]
  · rw [List.cons_append, List.singleton_append, univNewlines_CRLF]
  · rw [List.singleton_append, univNewlines_CR _ h3]

theorem univNewlines_noNL (a : Str) (h : NoNL a) : univNewlines a = a := univNewlines_noCR a h.noCR

theorem extractLine_first_char (buf before sep after : Str)
    (h : extractLine buf = some (before, sep, after)) :
    ∃ c t, (c = LF ∨ c = CR) ∧ sep = c :: t ∧ QUOTE ∉ sep := by
  obtain ⟨_, _, h3⟩ := extractLine_some _ _ _ _ h
  rcases h3 with rfl | rfl | ⟨rfl, _⟩
  · exact ⟨LF, [], Or.inl rfl, rfl, by decide⟩
  · exact ⟨CR, [LF], Or.inr rfl, rfl, by decide⟩
  · exact ⟨CR, [], Or.inr rfl, rfl, by decide⟩

/-- an open record is closed by the first physical line with an odd number of quotes; the line breaks
LF, CR, CRLF met on the way all become LF -/
theorem assembleAux_open_nl (acc b X : Str) (hodd : countQuotes b % 2 = 1)
    (hpre : ∀ c, c = LF ∨ c = CR → ∀ p q, b = p ++ c :: q → countQuotes p % 2 = 0) :
    assembleAux (linesSpec (b ++ LF :: X)) (some acc) =
      (acc ++ LF :: univNewlines b) :: assembleAux (linesSpec X) none := by
  induction hn : b.length using Nat.strongRecOn generalizing b acc with
  | ind n ih =>
    rcases he : extractLine b with _ | ⟨a, sep, b'⟩
    · have hno := extractLine_none b he
      rw [linesSpec_LF _ _ hno, assembleAux, if_pos hodd, univNewlines_noNL b hno]
    · obtain ⟨hb, hna, hsep⟩ := extractLine_some _ _ _ _ he
      obtain ⟨c, t, hc, hct, hqs⟩ := extractLine_first_char _ _ _ _ he
      have hea : countQuotes a % 2 = 0 := hpre c hc a (t ++ b') (by rw [hb, hct]; simp)
      have hcnt : countQuotes b = countQuotes a + countQuotes b' := by
        rw [hb, countQuotes_append, countQuotes_append, countQuotes_eq_zero sep hqs]; omega
      have hb'ne : sep = [CR] → b' = [] → False := by
        intro hs hb'
        have := hpre CR (Or.inr rfl) a [] (by rw [hb, hs, hb']; simp)
        rw [hb', countQuotes_nil] at hcnt
        omega
      have hl : linesSpec (b ++ LF :: X) = a :: linesSpec (b' ++ LF :: X) :=
        linesSpec_extract b a sep b' (LF :: X) he (fun h1 h2 => absurd h2 (fun e => hb'ne h1 e))
      have hlen : b'.length < b.length := by
        rw [hb, hct]; simp; omega
      rw [hl, assembleAux, if_neg (by omega),
        ih b'.length (by omega) (acc ++ LF :: a) b' (by omega) ?_ rfl, univNewlines_extract b a sep b' he]
      · simp
      · intro c' hc' p q hpq
        have := hpre c' hc' (a ++ sep ++ p) q (by rw [hb, hpq]; simp)
        rw [countQuotes_append, countQuotes_append, countQuotes_eq_zero sep hqs] at this
        omega

/-- one record is peeled off, its line breaks normalised -/
theorem assemble_record_nl (r X : Str) (heven : countQuotes r % 2 = 0)
    (hin : ∀ c, c = LF ∨ c = CR → InsideQuotes c r) :
    assembleAux (linesSpec (r ++ LF :: X)) none = univNewlines r :: assembleAux (linesSpec X) none := by
  rcases he : extractLine r with _ | ⟨a, sep, b⟩
  · have hno := extractLine_none r he
    rw [linesSpec_LF _ _ hno, assembleAux, if_neg (by omega), univNewlines_noNL r hno]
  · obtain ⟨hb, hna, hsep⟩ := extractLine_some _ _ _ _ he
    obtain ⟨c, t, hc, hct, hqs⟩ := extractLine_first_char _ _ _ _ he
    have hoa : countQuotes a % 2 = 1 := hin c hc a (t ++ b) (by rw [hb, hct]; simp)
    have hcnt : countQuotes r = countQuotes a + countQuotes b := by
      rw [hb, countQuotes_append, countQuotes_append, countQuotes_eq_zero sep hqs]; omega
    have hbne : sep = [CR] → b = [] → False := by
      intro hs hb'
      rw [hb', countQuotes_nil] at hcnt
      omega
    have hl : linesSpec (r ++ LF :: X) = a :: linesSpec (b ++ LF :: X) :=
      linesSpec_extract r a sep b (LF :: X) he (fun h1 h2 => absurd h2 (fun e => hbne h1 e))
    rw [hl, assembleAux, if_pos hoa, assembleAux_open_nl a b X (by omega), univNewlines_extract r a sep b he]
    intro c' hc' p q hpq
    have := hin c' hc' (a ++ sep ++ p) q (by rw [hb, hpq]; simp)
    rw [countQuotes_append, countQuotes_append, countQuotes_eq_zero sep hqs] at this
    omega

/-- B3 in general: records with an even number of quotes whose LF and CR all lie inside quotes, each
followed by a line feed, are re-assembled with every line break CR, CRLF turned into LF -/
theorem assemble_written_nl (records : List Str)
    (h : ∀ r ∈ records, countQuotes r % 2 = 0 ∧ InsideQuotes LF r ∧ InsideQuotes CR r) :
    assemble (linesSpec (records.flatMap (fun r => r ++ [LF]))) = records.map univNewlines := by
  unfold assemble
  induction records with
  | nil => simp [linesSpec_nil, assembleAux]
  | cons r rs ih =>
    obtain ⟨h1, h2, h3⟩ := h r (by simp)
    rw [List.flatMap_cons, List.append_assoc, List.singleton_append,
      assemble_record_nl r _ h1 (by rintro c (rfl | rfl); exact h2; exact h3),
      ih (fun x hx => h x (by simp [hx]))]
    rfl

/-! normalisation commutes with writing -/

theorem univNewlines_append (x y : Str) (hy : y.head? ≠ some LF) :
    univNewlines (x ++ y) = univNewlines x ++ univNewlines y := by
  induction hn : x.length using Nat.strongRecOn generalizing x with
  | ind n ih =>
    match x, hn with
    | [], _ => rfl
    | c :: x', hn =>
      by_cases hc : c = CR
      · subst hc
        match x', hn with
        | [], _ =>
          rw [List.cons_append, List.nil_append, univNewlines_CR _ hy]; rfl
        | c2 :: x'', hn =>
          by_cases hc2 : c2 = LF
          · subst hc2
            rw [List.cons_append, List.cons_append, univNewlines_CRLF, univNewlines_CRLF,
              ih x''.length (by subst hn; simp; omega) x'' rfl]
            rfl
          · have h1 : (c2 :: x'').head? ≠ some LF := by simpa using hc2
            have h2 : (c2 :: x'' ++ y).head? ≠ some LF := by simpa using hc2
            rw [List.cons_append, univNewlines_CR _ h2, univNewlines_CR _ h1,
              ih (c2 :: x'').length (by subst hn; simp) (c2 :: x'') rfl]
            rfl
      · rw [List.cons_append, univNewlines_cons_ne _ _ hc, univNewlines_cons_ne _ _ hc,
          ih x'.length (by subst hn; simp) x' rfl]
        rfl

theorem univNewlines_escapeQ (f : Str) : univNewlines (escapeQ f) = escapeQ (univNewlines f) := by
  induction hn : f.length using Nat.strongRecOn generalizing f with
  | ind n ih =>
    match f, hn with
    | [], _ => rfl
    | c :: f', hn =>
      have hCQ : CR ≠ QUOTE := by decide
      have hLQ : LF ≠ QUOTE := by decide
      by_cases hc : c = CR
      · subst hc
        match f', hn with
        | [], _ => simp [escapeQ, univNewlines, hCQ, hLQ]
        | c2 :: f'', hn =>
          by_cases hc2 : c2 = LF
          · subst hc2
            rw [univNewlines_CRLF, escapeQ, if_neg hCQ, escapeQ, if_neg hLQ, univNewlines_CRLF,
              ih f''.length (by subst hn; simp; omega) f'' rfl, escapeQ, if_neg hLQ]
          · have h1 : (c2 :: f'').head? ≠ some LF := by simpa using hc2
            have h2 : (escapeQ (c2 :: f'')).head? ≠ some LF := by
              rw [escapeQ]
              split
              · simp [QUOTE, LF]
              · simpa using hc2
            rw [univNewlines_CR _ h1, escapeQ, if_neg hCQ, univNewlines_CR _ h2,
              ih (c2 :: f'').length (by subst hn; simp) (c2 :: f'') rfl, escapeQ, if_neg hLQ]
      · by_cases hq : c = QUOTE
        · subst hq
          rw [univNewlines_cons_ne _ _ hc, escapeQ, if_pos rfl, univNewlines_cons_ne _ _ hc,
            univNewlines_cons_ne _ _ hc, ih f'.length (by subst hn; simp) f' rfl, escapeQ, if_pos rfl]
        · rw [univNewlines_cons_ne _ _ hc, escapeQ, if_neg hq, univNewlines_cons_ne _ _ hc,
            ih f'.length (by subst hn; simp) f' rfl, escapeQ, if_neg hq]

theorem mem_univNewlines_of_CR (f : Str) (h : CR ∈ f) : LF ∈ univNewlines f := by
  obtain ⟨a, b, rfl, ha⟩ := List.eq_append_cons_of_mem h
  rw [univNewlines_noCR_append _ _ ha]
  cases b with
  | nil => simp [univNewlines]
  | cons c2 cs =>
    by_cases hc2 : c2 = LF
    · subst hc2; rw [univNewlines_CRLF]; simp
    · rw [univNewlines_CR _ (by simpa using hc2)]; simp

theorem mem_univNewlines_quote (f : Str) : QUOTE ∈ univNewlines f ↔ QUOTE ∈ f := by
  have key : countQuotes (univNewlines f) = countQuotes f := by
    induction hn : f.length using Nat.strongRecOn generalizing f with
    | ind n ih =>
      have hCQ : CR ≠ QUOTE := by decide
      have hLQ : LF ≠ QUOTE := by decide
      match f, hn with
      | [], _ => rfl
      | c :: f', hn =>
        by_cases hc : c = CR
        · subst hc
          match f', hn with
          | [], _ => simp [univNewlines, countQuotes, hCQ, hLQ]
          | c2 :: f'', hn =>
            by_cases hc2 : c2 = LF
            · subst hc2
              rw [univNewlines_CRLF, countQuotes_cons_ne _ _ hLQ, countQuotes_cons_ne _ _ hCQ,
                countQuotes_cons_ne _ _ hLQ, ih f''.length (by subst hn; simp; omega) f'' rfl]
            · rw [univNewlines_CR _ (by simpa using hc2), countQuotes_cons_ne _ _ hLQ,
                countQuotes_cons_ne _ _ hCQ, ih (c2 :: f'').length (by subst hn; simp) (c2 :: f'') rfl]
        · rw [univNewlines_cons_ne _ _ hc]
          have := ih f'.length (by subst hn; simp) f' rfl
          by_cases hq : c = QUOTE
          · subst hq; rw [countQuotes_cons_quote, countQuotes_cons_quote, this]
          · rw [countQuotes_cons_ne _ _ hq, countQuotes_cons_ne _ _ hq, this]
  unfold countQuotes at key
  rw [← List.count_pos_iff, ← List.count_pos_iff, key]

/-- writing the normalised field = normalising the written field -/
theorem univNewlines_rfcQuoteField (d f : Str) :
    univNewlines (rfcQuoteField d f) = rfcQuoteField d (univNewlines f) := by
  by_cases hcr : CR ∈ f
  · have hlf := mem_univNewlines_of_CR f hcr
    rw [rfcQuoteField_linebreak d f (Or.inr hcr), rfcQuoteField_linebreak d _ (Or.inl hlf),
      List.cons_append, univNewlines_cons_ne _ _ (by decide),
      univNewlines_append _ _ (by simp [QUOTE, LF]), univNewlines_escapeQ]
    rfl
  · rw [univNewlines_noCR f hcr]
    apply univNewlines_noCR
    intro hm
    exact hcr (mem_rfcQuoteField d f CR (by decide) hm)

theorem univNewlines_joinD (d : Str) (hne : d ≠ []) (hlf : LF ∉ d) (hcr : CR ∉ d) (l : List Str) :
    univNewlines (joinD d l) = joinD d (l.map univNewlines) := by
  induction l with
  | nil => rfl
  | cons x rest ih =>
    cases rest with
    | nil => simp [joinD]
    | cons y rest2 =>
      rw [List.map_cons, List.map_cons, joinD_cons_cons, joinD_cons_cons, ← List.map_cons, ← ih,
        List.append_assoc, univNewlines_append, univNewlines_noCR_append _ _ hcr, List.append_assoc]
      cases d with
      | nil => exact absurd rfl hne
      | cons c cs =>
        have : c ≠ LF := by intro e; apply hlf; simp [e]
        simpa using this

theorem univNewlines_written (d : Str) (hne : d ≠ []) (hlf : LF ∉ d) (hcr : CR ∉ d) (fs : List Str) :
    univNewlines (joinD d (fs.map (rfcQuoteField d))) =
      joinD d ((fs.map univNewlines).map (rfcQuoteField d)) := by
  rw [univNewlines_joinD d hne hlf hcr, List.map_map, List.map_map]
  congr 1
  apply List.map_congr_left
  intro f _
  exact univNewlines_rfcQuoteField d f

/-- The whole quoted_rfc round trip, fields with arbitrary line breaks: the lines written for a table, each
followed by LF, read as physical lines, re-assembled by quote parity and split, give back the table with
CR and CRLF inside fields normalised to LF — and no warning. -/
theorem rfc_table_roundtrip_nl {d : Str} (g : GoodDelim d (d != [SPACE])) (hlf : LF ∉ d) (hcr : CR ∉ d)
    (table : List (List Str)) (hne : ∀ fs ∈ table, fs ≠ [])
    (hok : ∀ fs ∈ table, ∀ f ∈ fs, FieldOk d (univNewlines f)) :
    (assemble (linesSpec (table.flatMap (fun fs => joinD d (fs.map (rfcQuoteField d)) ++ [LF])))).map
      (smartSplit d .quotedRfc false) = table.map (fun fs => (fs.map univNewlines, false)) := by
  have := assemble_written_nl (table.map (fun fs => joinD d (fs.map (rfcQuoteField d)))) (by
    intro r hr
    obtain ⟨fs, hfs, rfl⟩ := List.mem_map.mp hr
    exact ⟨countQuotes_written_rfc d g.noQuote fs,
      insideQuotes_written d LF (Or.inl rfl) hlf g.noQuote fs,
      insideQuotes_written d CR (Or.inr rfl) hcr g.noQuote fs⟩)
  rw [List.flatMap_map] at this
  rw [this, List.map_map, List.map_map]
  apply List.map_congr_left
  intro fs hfs
  simp only [Function.comp]
  rw [univNewlines_written d g.ne hlf hcr]
  exact line_roundtrip_rfc_smart g (fs.map univNewlines) (by simpa using hne fs hfs) (by
    intro f hf
    obtain ⟨f0, hf0, rfl⟩ := List.mem_map.mp hf
    exact hok fs hfs f0 hf0)

/-! ### B5. `assemble` is what `get_row_rfc` computes (no comment prefix) -/

theorem nextLine_none_iff (p : Str) (h : nextLine p = none) : p = [] := by
  unfold nextLine at h
  rcases he : extractLine p with _ | ⟨b, sep, a⟩
  · rw [he] at h
    by_cases hp : p = []
    · exact hp
    · simp [hp] at h
  · rw [he] at h; simp at h

theorem nextLine_some (p row rest : Str) (h : nextLine p = some (row, rest)) :
    linesSpec p = row :: linesSpec rest ∧ rest.length < p.length := by
  unfold nextLine at h
  rcases he : extractLine p with _ | ⟨b, sep, a⟩
  · rw [he] at h
    by_cases hp : p = []
    · simp [hp] at h
    · simp only [hp, if_false, Option.some.injEq, Prod.mk.injEq] at h
      obtain ⟨rfl, rfl⟩ := h
      exact ⟨by rw [linesSpec_noNL _ (extractLine_none _ he) hp, linesSpec_nil],
        by simpa using List.length_pos_iff.mpr hp⟩
  · rw [he] at h
    simp only [Option.some.injEq, Prod.mk.injEq] at h
    obtain ⟨rfl, rfl⟩ := h
    have := linesSpec_extract p b sep a [] he (by simp)
    simp only [List.append_nil] at this
    refine ⟨this, ?_⟩
    obtain ⟨hb, _, hsep⟩ := extractLine_some _ _ _ _ he
    rw [hb]
    rcases hsep with rfl | rfl | ⟨rfl, _⟩ <;> simp <;> omega

/-- the physical lines still to come, as `get_row_simple` will deliver them -/
def linesAhead (c : RCfg) (s : RState) : List Str := bomFix c.enc s.nl (linesSpec (pending s))

theorem linesAhead_pos (c : RCfg) (s : RState) (h : 0 < s.nl) : linesAhead c s = linesSpec (pending s) := by
  have : s.nl ≠ 0 := by omega
  simp [linesAhead, bomFix, this]

theorem getRowSimple_none_lines (c : RCfg) (s s1 : RState) (h : RInv c s)
    (hg : getRowSimple c s = (none, s1)) :
    RInv c s1 ∧ linesAhead c s = [] ∧ pending s1 = [] ∧ s1.nl = s.nl := by
  obtain ⟨i, _, o⟩ := getRowSimple_spec c s h
  rw [hg] at i o
  simp only [stepObs, specStep] at o
  rcases hn : nextLine (pending s) with _ | ⟨line, rest⟩
  · rw [hn] at o
    simp only [Prod.mk.injEq, true_and] at o
    have hp := nextLine_none_iff _ hn
    refine ⟨i, ?_, o.1, o.2.1⟩
    simp only [linesAhead, hp, linesSpec_nil, bomFix]
    split <;> rfl
  · rw [hn] at o
    simp only at o
    split at o <;> simp at o

theorem getRowSimple_some_lines (c : RCfg) (s s1 : RState) (row : Str) (h : RInv c s)
    (hg : getRowSimple c s = (some row, s1)) :
    RInv c s1 ∧ linesAhead c s = row :: linesSpec (pending s1) ∧ 0 < s1.nl ∧
      (pending s1).length < (pending s).length := by
  obtain ⟨i, _, o⟩ := getRowSimple_spec c s h
  rw [hg] at i o
  simp only [stepObs, specStep] at o
  rcases hn : nextLine (pending s) with _ | ⟨line, rest⟩
  · rw [hn] at o; simp at o
  · rw [hn] at o
    obtain ⟨hl, hlen⟩ := nextLine_some _ _ _ hn
    by_cases h0 : s.nl = 0
    · simp only [h0, if_true, Prod.mk.injEq, Option.some.injEq] at o
      obtain ⟨o1, o2, o3, _⟩ := o
      refine ⟨i, ?_, by omega, by rw [o2]; exact hlen⟩
      simp [linesAhead, bomFix, h0, hl, o1, o2]
    · simp only [h0, if_false, Prod.mk.injEq, Option.some.injEq] at o
      obtain ⟨o1, o2, o3, _⟩ := o
      refine ⟨i, ?_, by omega, by rw [o2]; exact hlen⟩
      simp [linesAhead, bomFix, h0, hl, o1, o2]

theorem joinLF_cons_cons (r r2 : Str) (rs : List Str) :
    joinLF (r :: r2 :: rs) = r ++ LF :: joinLF (r2 :: rs) := rfl

theorem joinLF_append_singleton (rows : List Str) (row : Str) (h : rows ≠ []) :
    joinLF (rows ++ [row]) = joinLF rows ++ LF :: row := by
  induction rows with
  | nil => exact absurd rfl h
  | cons r rs ih =>
    cases rs with
    | nil => simp [joinLF]
    | cons r2 rs2 =>
      have := ih (by simp)
      simp only [List.cons_append] at this ⊢
      rw [joinLF_cons_cons, this, joinLF_cons_cons]
      simp

/-- the `while True` loop of `get_row_rfc` is the open state of `assembleAux` -/
theorem rfcLoop_assemble (c : RCfg) (fuel : Nat) (s : RState) (rows : List Str) (h : RInv c s)
    (hnl : 0 < s.nl) (hrows : rows ≠ []) (hf : (pending s).length < fuel) :
    assembleAux (linesSpec (pending s)) (some (joinLF rows.reverse)) =
        (rfcLoop c fuel s rows).1 :: assembleAux (linesSpec (pending (rfcLoop c fuel s rows).2)) none ∧
      RInv c (rfcLoop c fuel s rows).2 ∧ 0 < (rfcLoop c fuel s rows).2.nl ∧
      (pending (rfcLoop c fuel s rows).2).length ≤ (pending s).length := by
  induction fuel generalizing s rows with
  | zero => omega
  | succ fuel ih =>
    rw [rfcLoop]
    rcases hg : getRowSimple c s with ⟨_ | row, s1⟩
    · obtain ⟨i, hl, hp, hn⟩ := getRowSimple_none_lines c s s1 h hg
      rw [linesAhead_pos c s hnl] at hl
      simp only
      refine ⟨?_, i, by omega, by simp [hp]⟩
      rw [hl, hp, linesSpec_nil]
      rfl
    · obtain ⟨i, hl, hn, hlen⟩ := getRowSimple_some_lines c s s1 row h hg
      rw [linesAhead_pos c s hnl] at hl
      simp only
      have hj : joinLF (row :: rows).reverse = joinLF rows.reverse ++ LF :: row := by
        rw [List.reverse_cons, joinLF_append_singleton _ _ (by simpa using hrows)]
      by_cases hq : countQuotes row % 2 = 1
      · rw [if_pos hq]
        simp only
        refine ⟨?_, i, hn, by omega⟩
        rw [hl, assembleAux, if_pos hq, hj]
      · rw [if_neg hq]
        obtain ⟨a1, a2, a3, a4⟩ := ih s1 (row :: rows) i hn (by simp) (by omega)
        refine ⟨?_, a2, a3, by omega⟩
        rw [hl, assembleAux, if_neg hq, ← hj]
        exact a1

/-- One call of `get_row_rfc` (no comment prefix): it returns nothing exactly when no physical line is
left; otherwise the row it returns is the first record that `assemble` makes of the physical lines
still to come, and `assemble` continues on the lines left for the next call. -/
theorem getRowRfc_assemble (c : RCfg) (s : RState) (h : RInv c s) (hc : c.comment = none) :
    (∀ s', getRowRfc c s = (none, s') → linesAhead c s = []) ∧
    (∀ row s', getRowRfc c s = (some row, s') →
      assemble (linesAhead c s) = row :: assemble (linesAhead c s') ∧ RInv c s' ∧
        (pending s').length < (pending s).length) := by
  have hic : ∀ x, isComment c x = false := by intro x; simp [isComment, hc]
  rw [getRowRfc_eq]
  rcases hg : getRowSimple c s with ⟨_ | first, s1⟩
  · obtain ⟨i, hl, hp, hn⟩ := getRowSimple_none_lines c s s1 h hg
    refine ⟨fun _ _ => hl, ?_⟩
    intro row s' he
    simp at he
  · obtain ⟨i, hl, hn, hlen⟩ := getRowSimple_some_lines c s s1 first h hg
    simp only [hic, Bool.false_eq_true, if_false]
    refine ⟨by intro s' he; split at he <;> simp at he, ?_⟩
    intro row s' he
    by_cases hq : countQuotes first % 2 = 0
    · rw [if_pos hq] at he
      simp only [Prod.mk.injEq, Option.some.injEq] at he
      obtain ⟨rfl, rfl⟩ := he
      refine ⟨?_, i, hlen⟩
      rw [hl, linesAhead_pos c s1 hn, assemble, assembleAux, if_neg (by omega)]
      rfl
    · rw [if_neg hq] at he
      simp only [Prod.mk.injEq, Option.some.injEq] at he
      obtain ⟨rfl, rfl⟩ := he
      obtain ⟨a1, a2, a3, a4⟩ := rfcLoop_assemble c (remaining s1 + 1) s1 [first] i hn (by simp)
        (by rw [remaining_eq]; omega)
      refine ⟨?_, a2, by omega⟩
      rw [hl, linesAhead_pos c _ a3, assemble, assembleAux, if_pos (by omega)]
      exact a1

/-- all logical rows through `get_row_rfc` -/
def allRowsRfc (c : RCfg) : Nat → RState → List Str
  | 0, _ => []
  | fuel + 1, s =>
    match getRowRfc c s with
    | (none, _) => []
    | (some row, s1) => row :: allRowsRfc c fuel s1

/-- Whatever pieces the stream hands out, the rows `get_row_rfc` delivers are the quote-parity assembly
of the physical lines of the text (BOM stripped from the first line). -/
theorem rows_rfc_assemble (c : RCfg) (s : RState) (h : RInv c s) (hc : c.comment = none) (fuel : Nat)
    (hf : remaining s < fuel) :
    allRowsRfc c fuel s = assemble (bomFix c.enc s.nl (linesSpec (s.buffer ++ s.stream.flatten))) := by
  change _ = assemble (linesAhead c s)
  induction fuel generalizing s with
  | zero => omega
  | succ fuel ih =>
    obtain ⟨g1, g2⟩ := getRowRfc_assemble c s h hc
    rw [allRowsRfc]
    rcases hg : getRowRfc c s with ⟨_ | row, s1⟩
    · rw [g1 s1 hg]; rfl
    · obtain ⟨a1, a2, a3⟩ := g2 row s1 hg
      simp only
      rw [a1, ih s1 a2 (by rw [remaining_eq] at hf ⊢; omega)]

/-- End to end for the quoted_rfc policy (no comment prefix, no encoding hence no BOM handling): the
table is written with `rfc_quote_field`, LF after each record; the text reaches the reader cut into
arbitrary non-empty pieces; the rows of `get_row_rfc`, split by `smart_split`, are the table with
CR and CRLF inside fields normalised to LF, and no split warning is raised. -/
theorem rfc_reader_roundtrip {d : Str} (g : GoodDelim d (d != [SPACE])) (hlf : LF ∉ d) (hcr : CR ∉ d)
    (table : List (List Str)) (hne : ∀ fs ∈ table, fs ≠ [])
    (hok : ∀ fs ∈ table, ∀ f ∈ fs, FieldOk d (univNewlines f))
    (c : RCfg) (hchunk : 1 ≤ c.chunk) (hcom : c.comment = none) (henc : c.enc = .none)
    (pieces : List Str) (hp : ∀ p ∈ pieces, p ≠ [])
    (htext : pieces.flatten = table.flatMap (fun fs => joinD d (fs.map (rfcQuoteField d)) ++ [LF])) :
    (allRowsRfc c (totalLen pieces + 1) { stream := pieces }).map (smartSplit d .quotedRfc false) =
      table.map (fun fs => (fs.map univNewlines, false)) := by
  have := rows_rfc_assemble c { stream := pieces } ⟨hchunk, hp, by simp⟩ hcom (totalLen pieces + 1)
    (by simp [remaining])
  rw [this]
  simp only [List.nil_append, htext]
  have hb : ∀ X, bomFix c.enc 0 X = X := by
    intro X
    cases X with
    | nil => simp [bomFix]
    | cons r rs => simp [bomFix, henc, removeBom]
  rw [hb]
  exact rfc_table_roundtrip_nl g hlf hcr table hne hok

/-! ## C. reader warnings appear iff the anomaly occurred -/

/-! ### what `get_warnings` reports -/

theorem bom_warning_iff (s : RState) : ReadWarn.bom ∈ readerWarnings s ↔ s.bom = true := by
  unfold readerWarnings
  cases s.bom <;> cases s.firstDefective <;> rcases s.fieldsInfo with _ | ⟨⟨a, b⟩, _ | ⟨⟨c, d⟩, _⟩⟩ <;> simp

theorem defective_warning_iff (s : RState) (l : Nat) :
    ReadWarn.defective l ∈ readerWarnings s ↔ s.firstDefective = some l := by
  unfold readerWarnings
  cases s.bom <;> cases s.firstDefective <;> rcases s.fieldsInfo with _ | ⟨⟨a, b⟩, _ | ⟨⟨c, d⟩, _⟩⟩ <;>
    simp <;> exact eq_comm

/-! ### the BOM -/

/-- the byte order mark as the reader sees it: U+FEFF in a decoded (utf-8) text, the three bytes
EF BB BF in a latin-1 text; none when no encoding is given -/
def bomOf : Enc → Str
  | .utf8 => [Char.ofNat 0xfeff]
  | .latin1 => [Char.ofNat 0xef, Char.ofNat 0xbb, Char.ofNat 0xbf]
  | .none => []

theorem removeBom_bom (e : Enc) (rest : Str) : removeBom e (bomOf e ++ rest) = rest := by
  cases e <;> simp [removeBom, bomOf]

/-- `remove_utf8_bom` changes the line iff the line starts with the BOM of the encoding -/
theorem removeBom_ne_iff (e : Enc) (line : Str) :
    removeBom e line ≠ line ↔ (e ≠ .none ∧ ∃ rest, line = bomOf e ++ rest) := by
  constructor
  · intro h
    cases e with
    | none => exact absurd (by simp [removeBom]) h
    | utf8 =>
      refine ⟨by simp, ?_⟩
      match line, h with
      | [], h => exact absurd (by simp [removeBom]) h
      | c1 :: rest, h =>
        by_cases hc : c1 = Char.ofNat 0xfeff
        · exact ⟨rest, by simp [bomOf, hc]⟩
        · exact absurd (by simp [removeBom, hc]) h
    | latin1 =>
      refine ⟨by simp, ?_⟩
      match line, h with
      | [], h => exact absurd (by simp [removeBom]) h
      | [_], h => exact absurd (by simp [removeBom]) h
      | [_, _], h => exact absurd (by simp [removeBom]) h
      | c1 :: c2 :: c3 :: rest, h =>
        by_cases hc : c1 = Char.ofNat 0xef ∧ c2 = Char.ofNat 0xbb ∧ c3 = Char.ofNat 0xbf
        · exact ⟨rest, by simp [bomOf, hc.1, hc.2.1, hc.2.2]⟩
        · exact absurd (by simp only [removeBom, hc, if_false]) h
  · rintro ⟨he, rest, rfl⟩ heq
    rw [removeBom_bom] at heq
    have := congrArg List.length heq
    cases e <;> simp [bomOf] at this he
    all_goals omega

/-- One `get_row_simple` step that returns a row: the row is the next physical line of the pending text
(minus the BOM on the very first line), and the BOM flag is set afterwards iff it was set before or this
is the first line and it starts with the BOM of the encoding. -/
theorem bom_flag_iff (c : RCfg) (s : RState) (h : RInv c s) (row : Str) (s' : RState)
    (hstep : getRowSimple c s = (some row, s')) :
    ∃ line rest, nextLine (pending s) = some (line, rest) ∧ pending s' = rest ∧ s'.nl = s.nl + 1 ∧
      row = (if s.nl = 0 then removeBom c.enc line else line) ∧
      (s'.bom = true ↔ (s.bom = true ∨ (s.nl = 0 ∧ removeBom c.enc line ≠ line))) := by
  obtain ⟨_, _, o⟩ := getRowSimple_spec c s h
  rw [hstep] at o
  simp only [stepObs, specStep] at o
  rcases hn : nextLine (pending s) with _ | ⟨line, rest⟩
  · rw [hn] at o; simp at o
  · rw [hn] at o
    simp only at o
    refine ⟨line, rest, rfl, ?_⟩
    by_cases h0 : s.nl = 0
    · simp only [h0, if_true, Prod.mk.injEq, Option.some.injEq] at o
      obtain ⟨o1, o2, o3, o4⟩ := o
      refine ⟨o2, by rw [o3, h0], by simp [h0, o1], ?_⟩
      rw [o4]; simp [h0]
    · simp only [h0, if_false, Prod.mk.injEq, Option.some.injEq] at o
      obtain ⟨o1, o2, o3, o4⟩ := o
      refine ⟨o2, o3, by simp [h0, o1], ?_⟩
      rw [o4]; simp [h0]

/-- in words of the BOM itself -/
theorem bom_flag_iff_starts_with_bom (c : RCfg) (s : RState) (h : RInv c s) (row : Str) (s' : RState)
    (hstep : getRowSimple c s = (some row, s')) :
    ∃ line rest, nextLine (pending s) = some (line, rest) ∧
      (s'.bom = true ↔
        (s.bom = true ∨ (s.nl = 0 ∧ c.enc ≠ .none ∧ ∃ t, line = bomOf c.enc ++ t))) := by
  obtain ⟨line, rest, h1, _, _, _, h5⟩ := bom_flag_iff c s h row s' hstep
  exact ⟨line, rest, h1, by rw [h5, removeBom_ne_iff]⟩

/-! ### frames: the row machine does not touch `firstDefective`, `nr`, … -/

theorem rfcLoop_frame (c : RCfg) (fuel : Nat) (s : RState) (rows : List Str) (h : RInv c s) :
    RInv c (rfcLoop c fuel s rows).2 ∧ Frame s (rfcLoop c fuel s rows).2 := by
  induction fuel generalizing s rows with
  | zero => exact ⟨h, Frame.refl s⟩
  | succ fuel ih =>
    obtain ⟨i1, f1, _⟩ := getRowSimple_spec c s h
    rw [rfcLoop]
    rcases hg : getRowSimple c s with ⟨_ | row, s1⟩
    · rw [hg] at i1 f1; exact ⟨i1, f1⟩
    · rw [hg] at i1 f1
      simp only
      split
      · exact ⟨i1, f1⟩
      · obtain ⟨i2, f2⟩ := ih s1 (row :: rows) i1
        exact ⟨i2, f1.trans f2⟩

theorem getRowRfc_frame (c : RCfg) (s : RState) (h : RInv c s) :
    RInv c (getRowRfc c s).2 ∧ Frame s (getRowRfc c s).2 := by
  obtain ⟨i1, f1, _⟩ := getRowSimple_spec c s h
  rw [getRowRfc_eq]
  rcases hg : getRowSimple c s with ⟨_ | row, s1⟩
  · rw [hg] at i1 f1; exact ⟨i1, f1⟩
  · rw [hg] at i1 f1
    simp only
    split
    · exact ⟨i1, f1⟩
    · split
      · exact ⟨i1, f1⟩
      · obtain ⟨i2, f2⟩ := rfcLoop_frame c (remaining s1 + 1) s1 [row] i1
        exact ⟨i2, f1.trans f2⟩

theorem getRow_frame (c : RCfg) (s : RState) (h : RInv c s) :
    RInv c (getRow c s).2 ∧ Frame s (getRow c s).2 := by
  rw [getRow]
  split
  · exact getRowRfc_frame c s h
  · obtain ⟨i1, f1, _⟩ := getRowSimple_spec c s h
    exact ⟨i1, f1⟩

theorem nextDataLine_frame (c : RCfg) (fuel : Nat) (s : RState) (h : RInv c s) :
    RInv c (nextDataLine c fuel s).2 ∧ Frame s (nextDataLine c fuel s).2 := by
  induction fuel generalizing s with
  | zero => exact ⟨h, Frame.refl s⟩
  | succ fuel ih =>
    obtain ⟨i1, f1⟩ := getRow_frame c s h
    rw [nextDataLine]
    rcases hg : getRow c s with ⟨_ | line, s1⟩
    · rw [hg] at i1 f1; exact ⟨i1, f1⟩
    · rw [hg] at i1 f1
      simp only
      split
      · obtain ⟨i2, f2⟩ := ih s1 i1
        exact ⟨i2, f1.trans f2⟩
      · exact ⟨i1, f1⟩

/-! ### the defective-line warning and the rfc error -/

/-- what `get_record` does once a data line has been found, spelled out -/
theorem readRecord_some (c : RCfg) (s : RState) (line : Str) (s1 : RState)
    (hnd : nextDataLine c (remaining s + 1) s = (some line, s1)) :
    readRecord c s =
      if (smartSplit c.delim c.policy false line).2 = true ∧ s1.firstDefective = none then
        if c.policy = .quotedRfc then .error (.rfcQuote (s1.nr + 1) s1.nl)
        else .ok (some (smartSplit c.delim c.policy false line).1,
          { s1 with nr := s1.nr + 1, firstDefective := some s1.nl,
                    fieldsInfo := addFieldsInfo s1.fieldsInfo (smartSplit c.delim c.policy false line).1.length (s1.nr + 1) })
      else .ok (some (smartSplit c.delim c.policy false line).1,
          { s1 with nr := s1.nr + 1,
                    fieldsInfo := addFieldsInfo s1.fieldsInfo (smartSplit c.delim c.policy false line).1.length (s1.nr + 1) }) := by
  rw [readRecord, hnd]

theorem readRecord_none (c : RCfg) (s s1 : RState)
    (hnd : nextDataLine c (remaining s + 1) s = (none, s1)) : readRecord c s = .ok (none, s1) := by
  rw [readRecord, hnd]

/-- Policies other than quoted_rfc (in particular `quoted`), one `get_record` step that returns a record:
the record is the split of the next data line, and `first_defective_line` becomes the current line number
iff it was unset and the split raised its warning; otherwise it keeps its value. -/
theorem defective_line_iff (c : RCfg) (s : RState) (hinv : RInv c s) (hp : c.policy ≠ .quotedRfc)
    (record : List Str) (s' : RState) (h : readRecord c s = .ok (some record, s')) :
    ∃ line s1, nextDataLine c (remaining s + 1) s = (some line, s1) ∧
      record = (smartSplit c.delim c.policy false line).1 ∧ s'.nl = s1.nl ∧ s'.nr = s.nr + 1 ∧
      ((s.firstDefective = none ∧ s'.firstDefective = some s'.nl) ↔
        (s.firstDefective = none ∧ (smartSplit c.delim c.policy false line).2 = true)) ∧
      (¬ (s.firstDefective = none ∧ (smartSplit c.delim c.policy false line).2 = true) →
        s'.firstDefective = s.firstDefective) := by
  obtain ⟨_, f1⟩ := nextDataLine_frame c (remaining s + 1) s hinv
  rcases hnd : nextDataLine c (remaining s + 1) s with ⟨_ | line, s1⟩
  · rw [readRecord_none c s s1 hnd] at h
    simp at h
  · rw [hnd] at f1
    obtain ⟨fnr, ffd, _⟩ := f1
    simp only at fnr ffd
    rw [readRecord_some c s line s1 hnd, if_neg hp] at h
    refine ⟨line, s1, rfl, ?_⟩
    by_cases hw : (smartSplit c.delim c.policy false line).2 = true ∧ s1.firstDefective = none
    · rw [if_pos hw] at h
      simp only [Except.ok.injEq, Prod.mk.injEq, Option.some.injEq] at h
      obtain ⟨rfl, rfl⟩ := h
      have hs : s.firstDefective = none := by rw [← ffd]; exact hw.2
      refine ⟨rfl, rfl, by simp [fnr], ?_, ?_⟩
      · simp [hs, hw.1]
      · intro hn; exact absurd ⟨hs, hw.1⟩ hn
    · rw [if_neg hw] at h
      simp only [Except.ok.injEq, Prod.mk.injEq, Option.some.injEq] at h
      obtain ⟨rfl, rfl⟩ := h
      refine ⟨rfl, rfl, by simp [fnr], ?_, ?_⟩
      · simp only [ffd]
        constructor
        · rintro ⟨a, b⟩; rw [a] at b; cases b
        · rintro ⟨a, b⟩; exact absurd ⟨b, ffd ▸ a⟩ hw
      · intro _; exact ffd

/-- under these policies `get_record` never raises -/
theorem readRecord_ok_of_not_rfc (c : RCfg) (s : RState) (hp : c.policy ≠ .quotedRfc) :
    ∃ r, readRecord c s = .ok r := by
  rcases hnd : nextDataLine c (remaining s + 1) s with ⟨_ | line, s1⟩
  · exact ⟨_, readRecord_none c s s1 hnd⟩
  · rw [readRecord_some c s line s1 hnd, if_neg hp]
    split <;> exact ⟨_, rfl⟩

/-- quoted_rfc policy: `get_record` raises the "Inconsistent double quote escaping" error, carrying the
record and line numbers, iff no defective line was recorded before and the split of the next data line
raised its warning — the anomaly is an I/O error here, not a warning. -/
theorem rfc_malformed_is_io_error (c : RCfg) (s : RState) (hinv : RInv c s) (hp : c.policy = .quotedRfc)
    (nr nl : Nat) :
    readRecord c s = .error (.rfcQuote nr nl) ↔
      ∃ line s1, nextDataLine c (remaining s + 1) s = (some line, s1) ∧ s.firstDefective = none ∧
        (smartSplit c.delim .quotedRfc false line).2 = true ∧ nr = s.nr + 1 ∧ nl = s1.nl := by
  obtain ⟨_, f1⟩ := nextDataLine_frame c (remaining s + 1) s hinv
  rcases hnd : nextDataLine c (remaining s + 1) s with ⟨_ | line, s1⟩
  · rw [readRecord_none c s s1 hnd]
    simp
  · rw [hnd] at f1
    obtain ⟨fnr, ffd, _⟩ := f1
    simp only at fnr ffd
    rw [readRecord_some c s line s1 hnd, if_pos hp, hp]
    by_cases hw : (smartSplit c.delim .quotedRfc false line).2 = true ∧ s1.firstDefective = none
    · rw [if_pos hw]
      simp only [Except.error.injEq, ReadErr.rfcQuote.injEq, Prod.mk.injEq, Option.some.injEq]
      constructor
      · rintro ⟨rfl, rfl⟩
        exact ⟨line, s1, ⟨rfl, rfl⟩, by rw [← ffd]; exact hw.2, hw.1, by rw [fnr], rfl⟩
      · rintro ⟨line', s1', ⟨rfl, rfl⟩, _, _, rfl, rfl⟩
        exact ⟨by rw [fnr], rfl⟩
    · rw [if_neg hw]
      simp only [reduceCtorEq, false_iff, Prod.mk.injEq, Option.some.injEq]
      rintro ⟨line', s1', ⟨rfl, rfl⟩, a, b, _, _⟩
      exact hw ⟨b, by rw [ffd]; exact a⟩

/-- and it never records a defective line: after a successful step the field is what it was -/
theorem rfc_no_defective_warning (c : RCfg) (s : RState) (hinv : RInv c s) (hp : c.policy = .quotedRfc)
    (r : Option (List Str)) (s' : RState) (h : readRecord c s = .ok (r, s')) :
    s'.firstDefective = s.firstDefective := by
  obtain ⟨_, f1⟩ := nextDataLine_frame c (remaining s + 1) s hinv
  rcases hnd : nextDataLine c (remaining s + 1) s with ⟨_ | line, s1⟩
  · rw [hnd] at f1
    rw [readRecord_none c s s1 hnd] at h
    simp only [Except.ok.injEq, Prod.mk.injEq] at h
    rw [← h.2]; exact f1.2.1
  · rw [hnd] at f1
    rw [readRecord_some c s line s1 hnd, if_pos hp] at h
    split at h
    · cases h
    · simp only [Except.ok.injEq, Prod.mk.injEq] at h
      rw [← h.2]; exact f1.2.1

/-! ## Non-vacuity: the hypotheses are met by non-trivial instances -/

section Examples

private theorem goodComma' : GoodDelim [','] ([','] != [SPACE]) :=
  ⟨by simp, by decide, by intro _; simp [NoLeadSpace, SPACE]⟩

/-- two records; the first has a field with a CRLF and one with a bare CR, the second a field with an LF
and a quote, and an empty last field -/
private def exTable : List (List Str) :=
  [[['a', '\r', '\n', 'b'], ['c', '\r'], ['d']], [['x', '\n', '"', 'y'], []]]

example : exTable.flatMap (fun fs => joinD [','] (fs.map (rfcQuoteField [','])) ++ [LF]) =
    "\"a\r\nb\",\"c\r\",d\n\"x\n\"\"y\",\n".toList := by decide

/-- four physical lines … -/
example : linesSpec (exTable.flatMap (fun fs => joinD [','] (fs.map (rfcQuoteField [','])) ++ [LF])) =
    ["\"a".toList, "b\",\"c".toList, "\",d".toList, "\"x".toList, "\"\"y\",".toList] := by decide

/-- … re-assembled into two records, CRLF and CR now LF, and split into the fields -/
example : (assemble (linesSpec (exTable.flatMap
      (fun fs => joinD [','] (fs.map (rfcQuoteField [','])) ++ [LF])))).map (smartSplit [','] .quotedRfc false) =
    [([['a', '\n', 'b'], ['c', '\n'], ['d']], false), ([['x', '\n', '"', 'y'], []], false)] :=
  rfc_table_roundtrip_nl goodComma' (by decide) (by decide) exTable (by decide)
    (fun _ _ f _ => fieldOk_single ',' _)

example : splitWhitespace false (joinD [SPACE] [['a', 'b'], ['c'], ['"', 'd']]) = [['a', 'b'], ['c'], ['"', 'd']] :=
  whitespace_roundtrip _ (by decide)

example : wsTokens "  a  b c ".toList [] = [['a'], ['b'], ['c']] := by decide

/-- an odd line followed by the end of the input stays open to the end (what `get_row_rfc` does) -/
example : assemble [['"', 'a'], ['b']] = [['"', 'a', '\n', 'b']] := by decide

/-- the side condition of `assemble_written` cannot be dropped: an LF outside quotes (no CR, even number
of quotes) separates two records -/
example : assemble (linesSpec (['a', '\n', 'b'] ++ [LF])) = [['a'], ['b']] := by decide
example : ¬ InsideQuotes LF ['a', '\n', 'b'] := fun h => by
  have := h ['a'] ['b'] rfl
  simp [countQuotes, QUOTE] at this

end Examples

end Rbql
