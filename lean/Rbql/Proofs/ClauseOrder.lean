/-
  C08, clause order: the parse of a query does not depend on the order of its clauses after SELECT/UPDATE.
-/
import Rbql.Model.Parse
import Rbql.Proofs.ParseInvariance
import Rbql.Proofs.ClauseOrderLemmas
namespace Rbql

/-- the spelling of a statement in the query text: its words separated by one space -/
def Stmt.text (st : Stmt) : Str := joinSpace st.words

/-- lower-cased first words of all statement patterns, and `with` (the WITH (header) modifier) -/
def reservedPrefixes : List Str :=
  ["strict".toList, "left".toList, "inner".toList, "join".toList, "select".toList, "order".toList, "where".toList,
   "update".toList, "group".toList, "limit".toList, "except".toList, "with".toList]

/-- a clause body that cannot be mistaken for a keyword: non-empty, no space at either end, and no
space-separated token starts (case-insensitively) with a reserved word -/
def QuietBody (b : Str) : Prop :=
  b ≠ [] ∧ b.head? ≠ some ' ' ∧ b.getLast? ≠ some ' ' ∧
  ∀ tok ∈ splitOn [' '] b, ∀ w ∈ reservedPrefixes, ciPrefix w tok = false

/-- the JOIN family counts as one group; every other statement is its own group -/
def Stmt.group : Stmt → Stmt
  | .strictLeftJoin | .leftOuterJoin | .leftJoin | .innerJoin | .join => .join
  | s => s

/-- ` KEYWORD body` -/
def renderClause (c : Stmt × Str) : Str := ' ' :: c.1.text ++ ' ' :: c.2

/-- `HEAD headBody KEYWORD₁ body₁ KEYWORD₂ body₂ …` -/
def renderQuery (head : Stmt) (headBody : Str) (clauses : List (Stmt × Str)) : Str :=
  head.text ++ ' ' :: headBody ++ (clauses.map renderClause).flatten

/-- the parse result as the dictionary it is in the code: the action of a statement kind, if any -/
def Actions.lookup (a : Actions) (s : Stmt) : Option Action := a.actions.find? (fun x => x.stmt == s)

def parseDict (q : Str) (s : Stmt) : Except ParseError (Option Action × Option Str) :=
  (separateActions q).map (fun a => (a.lookup s, a.withModifier))

/-- admissible clause lists: statements other than SELECT/UPDATE/FROM, at most one per group -/
def ClausesOk (clauses : List (Stmt × Str)) : Prop :=
  (∀ c ∈ clauses, c.1 ≠ .select ∧ c.1 ≠ .update ∧ c.1 ≠ .from ∧ QuietBody c.2) ∧
  (clauses.map (fun c => c.1.group)).Nodup

/-! ### facts about the statement words -/

/-- first word of the pattern -/
def Stmt.w0 (st : Stmt) : Str := st.words.headD []

theorem Stmt.words_eq (st : Stmt) : st.words = st.w0 :: st.words.tail := by cases st <;> rfl

theorem Stmt.w0_nosp (st : Stmt) : ' ' ∉ st.w0 := by cases st <;> decide

theorem Stmt.words_nosp (st : Stmt) : ∀ w ∈ st.words, ' ' ∉ w := by cases st <;> decide

theorem Stmt.words_ne (st : Stmt) : st.words ≠ [] := by cases st <;> simp [Stmt.words]

theorem Stmt.tokens (st : Stmt) : splitOn [' '] st.text = st.words :=
  splitOn_joinSpace st.words st.words_ne st.words_nosp

theorem ciPrefix_lower (w t : Str) : ciPrefix (w.map lowerChar) t = ciPrefix w t := by
  induction w generalizing t with
  | nil => rfl
  | cons k ks ih =>
    cases t with
    | nil => rfl
    | cons c cs => simp [ciPrefix, lowerChar_idem, ih]

theorem Stmt.w0_reserved (st : Stmt) (h : st ≠ .from) : st.w0.map lowerChar ∈ reservedPrefixes := by
  cases st <;> first | exact absurd rfl h | decide

/-- the first word of `st` starts none of the words of `k` -/
def FirstDead (st k : Stmt) : Prop := ∀ u ∈ k.words, ciPrefix st.w0 u = false

instance (st k : Stmt) : Decidable (FirstDead st k) := by unfold FirstDead; infer_instance

/-- no match of `st` starts in ` KEYWORD` of `k` -/
def DeadK (st k : Stmt) : Prop := ∀ R, DeadPrefix st.words (k.text.length + 1) (' ' :: k.text ++ ' ' :: R)

theorem FirstDead.deadK {st k : Stmt} (h : FirstDead st k) : DeadK st k := by
  intro R
  rw [st.words_eq]
  apply DeadPrefix.tokens st.w0 _ st.w0_nosp k.text (' ' :: R) (Or.inr rfl)
  rw [k.tokens]; exact h

theorem QuietBody.dead {b : Str} (hq : QuietBody b) (st : Stmt) (hst : st ≠ .from) (R : Str)
    (hR : R = [] ∨ R.head? = some ' ') : DeadPrefix st.words (b.length + 1) (' ' :: b ++ R) := by
  rw [st.words_eq]
  apply DeadPrefix.tokens st.w0 _ st.w0_nosp b R hR
  intro tok ht
  rw [← ciPrefix_lower]
  exact hq.2.2.2 tok ht _ (st.w0_reserved hst)

theorem hitKw (k : Stmt) (X : Str) : hitAt k.words (' ' :: k.text ++ ' ' :: X) = some (k.text.length + 1) := by
  cases k <;> simp [hitAt, matchWords, Stmt.words, Stmt.text, joinSpace, ciPrefix, dropSpaces]

theorem deadK_leftOuter_left : DeadK .leftOuterJoin .leftJoin := by
  intro R
  have h1 : DeadPrefix Stmt.leftOuterJoin.words 5 (' ' :: Stmt.join.text ++ ' ' :: R) :=
    (FirstDead.deadK (st := .leftOuterJoin) (k := .join) (by decide)) R
  have e : ' ' :: Stmt.leftJoin.text ++ ' ' :: R = ' ' :: 'L' :: 'E' :: 'F' :: 'T' :: (' ' :: Stmt.join.text ++ ' ' :: R) := by
    simp [Stmt.text, Stmt.words, joinSpace]
  rw [e]
  refine DeadPrefix.cons ?_ (DeadPrefix.cons ?_ (DeadPrefix.cons ?_ (DeadPrefix.cons ?_ (DeadPrefix.cons ?_ h1))))
  · have : lowerChar 'O' ≠ lowerChar 'J' := by decide
    simp [hitAt, matchWords, Stmt.words, Stmt.text, joinSpace, ciPrefix, dropSpaces, this]
  all_goals exact hitAt_nonspace _ _ _ (by decide)

/-! ### scanning the clauses -/

def clausesText (cls : List (Stmt × Str)) : Str := (cls.map renderClause).flatten

def clauseLen (c : Stmt × Str) : Nat := (c.1.text.length + 1) + (c.2.length + 1)

/-- where the clauses are: (start, end of keyword, statement) -/
def locs (pos : Nat) : List (Stmt × Str) → List Loc
  | [] => []
  | c :: cs => (pos, pos + (c.1.text.length + 1), c.1) :: locs (pos + clauseLen c) cs

def hitsOf (st : Stmt) (l : List Loc) : List (Nat × Nat) :=
  (l.filter (fun x => x.2.2 = st)).map (fun x => (x.1, x.2.1))

theorem clausesText_cons (c : Stmt × Str) (cs : List (Stmt × Str)) :
    clausesText (c :: cs) = (' ' :: c.1.text) ++ ((' ' :: c.2) ++ clausesText cs) := by
  simp [clausesText, renderClause]

theorem clausesText_length_cons (c : Stmt × Str) (cs : List (Stmt × Str)) :
    (clausesText (c :: cs)).length = clauseLen c + (clausesText cs).length := by
  rw [clausesText_cons]; simp [clauseLen]; omega

theorem clausesText_head (cls : List (Stmt × Str)) : clausesText cls = [] ∨ (clausesText cls).head? = some ' ' := by
  cases cls with
  | nil => left; rfl
  | cons c cs => right; rw [clausesText_cons]; rfl

theorem drop_len_append (A S : Str) (n : Nat) (h : n = A.length) : (A ++ S).drop n = S := by
  subst h; exact List.drop_left

theorem scan_clauses (st : Stmt) (hst : st ≠ .from) : ∀ (cls : List (Stmt × Str)) (pos fuel : Nat), pos ≠ 0 →
    (clausesText cls).length ≤ fuel → (∀ c ∈ cls, QuietBody c.2 ∧ (c.1 = st ∨ DeadK st c.1)) →
    kwMatches st.words fuel pos (clausesText cls) = hitsOf st (locs pos cls) := by
  intro cls
  induction cls with
  | nil => intro pos fuel _ _ _; simp [clausesText, kwMatches_nil, hitsOf, locs]
  | cons c rest ih =>
    intro pos fuel hp hf hc
    obtain ⟨hq, hk⟩ := hc c (by simp)
    have hrest : ∀ c ∈ rest, QuietBody c.2 ∧ (c.1 = st ∨ DeadK st c.1) := fun x hx => hc x (by simp [hx])
    have hlen := clausesText_length_cons c rest
    have hbody : DeadPrefix st.words (c.2.length + 1) ((' ' :: c.2) ++ clausesText rest) :=
      hq.dead st hst _ (clausesText_head rest)
    -- after the keyword: skip the body, then the remaining clauses
    have hafter : ∀ f, (c.2.length + 1) + (clausesText rest).length ≤ f →
        kwMatches st.words f (pos + (c.1.text.length + 1)) ((' ' :: c.2) ++ clausesText rest)
          = hitsOf st (locs (pos + clauseLen c) rest) := by
      intro f hf'
      rw [kwMatches_skip' st.words (c.2.length + 1) f _ _ (by omega) (by simp) (by omega) hbody]
      rw [drop_len_append _ _ _ (by simp)]
      rw [ih _ _ (by omega) (by omega) hrest]
      congr 2
      unfold clauseLen; omega
    rw [clausesText_cons]
    rw [clausesText_cons] at hf
    simp only [List.length_append, List.length_cons] at hf
    by_cases hst' : c.1 = st
    · -- the keyword matches
      obtain ⟨f, rfl⟩ : ∃ f, fuel = f + 1 := ⟨fuel - 1, by omega⟩
      have hh : hitAt st.words ((' ' :: c.1.text) ++ ((' ' :: c.2) ++ clausesText rest)) = some (c.1.text.length + 1) := by
        rw [← hst']; exact hitKw c.1 (c.2 ++ clausesText rest)
      rw [kwMatches_hit st.words f pos _ _ hp hh, drop_len_append _ _ _ (by simp), hafter f (by omega)]
      simp [hitsOf, locs, hst']
    · have hd : DeadK st c.1 := hk.resolve_left hst'
      have hd' : DeadPrefix st.words (c.1.text.length + 1) ((' ' :: c.1.text) ++ ((' ' :: c.2) ++ clausesText rest)) :=
        hd (c.2 ++ clausesText rest)
      rw [kwMatches_skip' st.words (c.1.text.length + 1) fuel _ _ hp (by simp) (by omega) hd']
      rw [drop_len_append _ _ _ (by simp), hafter _ (by omega)]
      simp [hitsOf, locs, hst']

/-! ### scanning from the start of the text -/

theorem start_hit (W : List Str) (A X : Str) (fuel : Nat) (hA : A ≠ [])
    (hm : matchWords W (A ++ ' ' :: X) = some (' ' :: X)) :
    kwMatches W (fuel + 1) 0 (A ++ ' ' :: X) = (0, A.length) :: kwMatches W fuel A.length (' ' :: X) := by
  cases A with
  | nil => exact absurd rfl hA
  | cons a A' =>
    have hk : kwMatchAt W 0 true (a :: A' ++ ' ' :: X) = some (0, (a :: A').length) := by
      rw [kwMatchAt_eq]
      simp only [if_true, tryAtM, hm, List.head?_cons, Nat.zero_add]
      simp; omega
    have hk' : kwMatchAt W 0 (0 == 0) (a :: (A' ++ ' ' :: X)) = some (0, (a :: A').length) := hk
    simp only [List.cons_append, kwMatches, hk']
    rw [if_pos (by simp)]
    congr 2
    have : a :: (A' ++ ' ' :: X) = (a :: A') ++ ' ' :: X := rfl
    rw [this, Nat.sub_zero, List.drop_left]

theorem start_miss (w0 : Str) (W' : List Str) (a : Char) (T : Str) (fuel : Nat) (ha : a ≠ ' ')
    (h : ciPrefix w0 (a :: T) = false) :
    kwMatches (w0 :: W') (fuel + 1) 0 (a :: T) = kwMatches (w0 :: W') fuel 1 T := by
  have hk : kwMatchAt (w0 :: W') 0 (0 == 0) (a :: T) = none := by
    rw [kwMatchAt_eq]
    simp only [tryAtM, matchWords_first w0 W' _ h]
    split
    · rename_i heq; simp at heq
    · split
      · rename_i heq; simp at heq; exact absurd heq.1 ha
      · rfl
  simp only [kwMatches, hk]

/-- the matches of `st` in the rendered query -/
theorem scan_query (st : Stmt) (hst : st ≠ .from) (head : Stmt) (hh : head = .select ∨ head = .update)
    (hb : Str) (hq : QuietBody hb) (cls : List (Stmt × Str))
    (hc : ∀ c ∈ cls, QuietBody c.2 ∧ (c.1 = st ∨ DeadK st c.1)) :
    kwMatches st.words ((renderQuery head hb cls).length + 1) 0 (renderQuery head hb cls) =
      hitsOf st ((0, head.text.length, head) :: locs (head.text.length + (hb.length + 1)) cls) := by
  have hT : renderQuery head hb cls = head.text ++ ' ' :: (hb ++ clausesText cls) := by
    simp [renderQuery, clausesText]
  have hbody : DeadPrefix st.words (hb.length + 1) ((' ' :: hb) ++ clausesText cls) :=
    hq.dead st hst _ (clausesText_head cls)
  have hne : head.text ≠ [] := by rcases hh with rfl | rfl <;> simp [Stmt.text, Stmt.words, joinSpace]
  have hnosp : ' ' ∉ head.text := by rcases hh with rfl | rfl <;> decide
  have hafter : ∀ f, (hb.length + 1) + (clausesText cls).length ≤ f →
      kwMatches st.words f head.text.length (' ' :: (hb ++ clausesText cls))
        = hitsOf st (locs (head.text.length + (hb.length + 1)) cls) := by
    intro f hf'
    show kwMatches st.words f head.text.length ((' ' :: hb) ++ clausesText cls) = _
    have hpos : head.text.length ≠ 0 := fun e => hne (List.eq_nil_of_length_eq_zero e)
    rw [kwMatches_skip' st.words (hb.length + 1) f _ _ hpos (by simp) (by omega) hbody]
    rw [drop_len_append _ _ _ (by simp)]
    rw [scan_clauses st hst cls _ _ (by omega) (by omega) hc]
  rw [hT]
  by_cases hst' : head = st
  · have hm : matchWords st.words (head.text ++ ' ' :: (hb ++ clausesText cls)) = some (' ' :: (hb ++ clausesText cls)) := by
      rw [← hst']
      rcases hh with rfl | rfl <;> simp [matchWords, Stmt.words, Stmt.text, joinSpace, ciPrefix]
    rw [start_hit st.words _ _ _ hne hm]
    have := hafter ((head.text ++ ' ' :: (hb ++ clausesText cls)).length) (by simp; omega)
    rw [this]
    simp [hitsOf, hst']
  · have hfd : ciPrefix st.w0 head.text = false := by
      rcases hh with rfl | rfl <;> cases st <;> first | exact absurd rfl hst' | decide
    obtain ⟨a, A', hA⟩ : ∃ a A', head.text = a :: A' := by
      cases h : head.text with
      | nil => exact absurd h hne
      | cons a A' => exact ⟨a, A', rfl⟩
    have ha : a ≠ ' ' := fun e => hnosp (by rw [hA, e]; simp)
    have hA' : ' ' ∉ A' := fun e => hnosp (by rw [hA]; simp [e])
    have hci : ciPrefix st.w0 (head.text ++ ' ' :: (hb ++ clausesText cls)) = false := by
      rw [ciPrefix_token st.w0 st.w0_nosp _ _ (Or.inr rfl)]; exact hfd
    have hlen : head.text.length = A'.length + 1 := by rw [hA]; rfl
    rw [st.words_eq]
    rw [hA] at hci ⊢
    rw [List.cons_append] at hci ⊢
    rw [start_miss st.w0 _ a _ _ ha hci]
    rw [← st.words_eq]
    have hd := DeadPrefix.nospace st.words A' (' ' :: (hb ++ clausesText cls)) hA'
    rw [kwMatches_skip' st.words A'.length _ 1 _ (by omega) (by simp) (by simp; omega) hd]
    rw [List.drop_left]
    have := hafter ((a :: (A' ++ ' ' :: (hb ++ clausesText cls))).length - A'.length) (by simp; omega)
    rw [hlen, Nat.add_comm A'.length 1] at this
    rw [this]
    simp [hitsOf, hst', Nat.add_comm]

/-! ### the statements located -/

/-- order of the JOIN family in its statement group -/
def Stmt.rank : Stmt → Nat
  | .strictLeftJoin => 0 | .leftOuterJoin => 1 | .leftJoin => 2 | .innerJoin => 3 | .join => 4 | _ => 5

theorem deadK_of (st k : Stmt) (hne : k ≠ st) (h : st.group ≠ k.group ∨ st.rank < k.rank) : DeadK st k := by
  cases st <;> cases k <;>
    first
    | exact absurd rfl hne
    | exact FirstDead.deadK (by decide)
    | exact deadK_leftOuter_left
    | (exfalso; revert h; decide)

/-- the located statements of the rendered query, in text order -/
def expected (head : Stmt) (hb : Str) (cls : List (Stmt × Str)) : List Loc :=
  (0, head.text.length, head) :: locs (head.text.length + (hb.length + 1)) cls

theorem locs_stmts (pos : Nat) (cls : List (Stmt × Str)) : (locs pos cls).map (·.2.2) = cls.map (·.1) := by
  induction cls generalizing pos with
  | nil => rfl
  | cons c cs ih => simp [locs, ih]

theorem expected_stmts (head : Stmt) (hb : Str) (cls : List (Stmt × Str)) :
    (expected head hb cls).map (·.2.2) = head :: cls.map (·.1) := by
  simp [expected, locs_stmts]

theorem inj_of_nodup {α β : Type} (f : α → β) (l : List α) (h : (l.map f).Nodup) (x y : α) (hx : x ∈ l) (hy : y ∈ l)
    (e : f x = f y) : x = y := by
  induction l with
  | nil => simp at hx
  | cons a as ih =>
    simp only [List.map_cons, List.nodup_cons, List.mem_map, not_exists, not_and] at h
    rcases List.mem_cons.mp hx with rfl | hx' <;> rcases List.mem_cons.mp hy with rfl | hy'
    · rfl
    · exact absurd e.symm (h.1 y hy')
    · exact absurd e (h.1 x hx')
    · exact ih h.2 hx' hy'

theorem nodup_of_map {α β : Type} (f : α → β) (l : List α) (h : (l.map f).Nodup) : l.Nodup := by
  induction l with
  | nil => simp
  | cons a as ih =>
    simp only [List.map_cons, List.nodup_cons, List.mem_map, not_exists, not_and] at h ⊢
    exact ⟨fun hm => h.1 a hm rfl, ih h.2⟩

theorem hitsOf_nil (st : Stmt) (l : List Loc) (h : ∀ x ∈ l, x.2.2 ≠ st) : hitsOf st l = [] := by
  unfold hitsOf
  rw [List.filter_eq_nil_iff.mpr]
  · rfl
  · intro x hx; simpa using h x hx

theorem hitsOf_single (l : List Loc) (hnd : (l.map (·.2.2)).Nodup) (x : Loc) (hx : x ∈ l) :
    hitsOf x.2.2 l = [(x.1, x.2.1)] := by
  induction l with
  | nil => simp at hx
  | cons a as ih =>
    simp only [List.map_cons, List.nodup_cons, List.mem_map, not_exists, not_and] at hnd
    rcases List.mem_cons.mp hx with rfl | hx'
    · have := hitsOf_nil x.2.2 as (fun y hy e => hnd.1 y hy e)
      unfold hitsOf at this ⊢
      simp [this]
    · have hne : a.2.2 ≠ x.2.2 := fun e => hnd.1 x hx' e.symm
      have := ih hnd.2 hx'
      unfold hitsOf at this ⊢
      simp [hne, this]

theorem locateGroup_none (T : Str) (g : List Stmt) (h : ∀ st ∈ g, kwMatches st.words (T.length + 1) 0 T = []) :
    locateGroup T g = .ok none := by
  induction g with
  | nil => rfl
  | cons st rest ih =>
    simp only [locateGroup, h st (by simp)]
    exact ih (fun x hx => h x (by simp [hx]))

theorem locateGroup_first (T : Str) (pre post : List Stmt) (k : Stmt) (a b : Nat)
    (h : ∀ st ∈ pre, kwMatches st.words (T.length + 1) 0 T = [])
    (hk : kwMatches k.words (T.length + 1) 0 T = [(a, b)]) :
    locateGroup T (pre ++ k :: post) = .ok (some (a, b, k)) := by
  induction pre with
  | nil => simp only [List.nil_append, locateGroup, hk]
  | cons st rest ih =>
    simp only [List.cons_append, locateGroup, h st (by simp)]
    exact ih (fun x hx => h x (by simp [hx]))

structure Setup (head : Stmt) (hb : Str) (cls : List (Stmt × Str)) : Prop where
  hh : head = .select ∨ head = .update
  hq : QuietBody hb
  hc : ∀ c ∈ cls, c.1 ≠ .select ∧ c.1 ≠ .update ∧ c.1 ≠ .from ∧ QuietBody c.2
  hnd : (cls.map (fun c => c.1.group)).Nodup

theorem Stmt.group_eq_select (k : Stmt) (h : k.group = .select) : k = .select := by cases k <;> simp_all [Stmt.group]
theorem Stmt.group_eq_update (k : Stmt) (h : k.group = .update) : k = .update := by cases k <;> simp_all [Stmt.group]

theorem Setup.nodup_groups {head : Stmt} {hb : Str} {cls : List (Stmt × Str)} (S : Setup head hb cls) :
    ((expected head hb cls).map (fun x => x.2.2.group)).Nodup := by
  have e : (expected head hb cls).map (fun x => x.2.2.group) = ((expected head hb cls).map (·.2.2)).map Stmt.group := by
    simp
  rw [e, expected_stmts]
  simp only [List.map_cons, List.map_map, List.nodup_cons]
  refine ⟨?_, S.hnd⟩
  simp only [List.mem_map, not_exists, not_and, Function.comp]
  intro c hc e
  obtain ⟨h1, h2, _, _⟩ := S.hc c hc
  rcases S.hh with rfl | rfl
  · exact h1 (Stmt.group_eq_select _ e)
  · exact h2 (Stmt.group_eq_update _ e)

theorem Setup.nodup_stmts {head : Stmt} {hb : Str} {cls : List (Stmt × Str)} (S : Setup head hb cls) :
    ((expected head hb cls).map (·.2.2)).Nodup := by
  have := S.nodup_groups
  have e : (expected head hb cls).map (fun x => x.2.2.group) = ((expected head hb cls).map (·.2.2)).map Stmt.group := by
    simp
  rw [e] at this
  exact nodup_of_map _ _ this

theorem mem_expected_of_clause {head : Stmt} {hb : Str} {cls : List (Stmt × Str)} (c : Stmt × Str) (hc : c ∈ cls) :
    ∃ x ∈ expected head hb cls, x.2.2 = c.1 := by
  have : c.1 ∈ (expected head hb cls).map (·.2.2) := by
    rw [expected_stmts]; simp only [List.mem_cons, List.mem_map]; exact Or.inr ⟨c, hc, rfl⟩
  obtain ⟨x, hx, e⟩ := List.mem_map.mp this
  exact ⟨x, hx, e⟩

theorem Setup.kw_eq {head : Stmt} {hb : Str} {cls : List (Stmt × Str)} (S : Setup head hb cls) (st : Stmt)
    (hst : st ≠ .from) (h : ∀ c ∈ cls, c.1 = st ∨ st.group ≠ c.1.group ∨ st.rank < c.1.rank) :
    kwMatches st.words ((renderQuery head hb cls).length + 1) 0 (renderQuery head hb cls) =
      hitsOf st (expected head hb cls) := by
  apply scan_query st hst head S.hh hb S.hq cls
  intro c hc
  refine ⟨(S.hc c hc).2.2.2, ?_⟩
  by_cases e : c.1 = st
  · exact Or.inl e
  · exact Or.inr (deadK_of st c.1 e ((h c hc).resolve_left e))

theorem Setup.locateGroup_spec {head : Stmt} {hb : Str} {cls : List (Stmt × Str)} (S : Setup head hb cls)
    (g : List Stmt) (G : Stmt) (h1 : ∀ st ∈ g, st.group = G ∧ st ≠ .from) (h2 : ∀ k, k.group = G → k ∈ g)
    (h3 : g.Pairwise (fun a b => a.rank < b.rank)) :
    ∃ r, locateGroup (renderQuery head hb cls) g = .ok r ∧
      ∀ x, r = some x ↔ x ∈ expected head hb cls ∧ x.2.2.group = G := by
  by_cases hex : ∃ x ∈ expected head hb cls, x.2.2.group = G
  · obtain ⟨x, hx, hxG⟩ := hex
    have huniq : ∀ y ∈ expected head hb cls, y.2.2.group = G → y = x := fun y hy e =>
      inj_of_nodup (fun x : Loc => x.2.2.group) _ S.nodup_groups y x hy hx (e.trans hxG.symm)
    obtain ⟨pre, post, hg⟩ := List.append_of_mem (h2 x.2.2 hxG)
    have hpre : ∀ st ∈ pre, st.rank < x.2.2.rank := by
      rw [hg, List.pairwise_append] at h3
      intro st hst; exact h3.2.2 st hst x.2.2 (by simp)
    have hcl : ∀ c ∈ cls, c.1.group = G → c.1 = x.2.2 := by
      intro c hc e
      obtain ⟨y, hy, ey⟩ := mem_expected_of_clause (head := head) (hb := hb) c hc
      rw [← ey] at e ⊢
      rw [huniq y hy e]
    have hk := S.kw_eq x.2.2 (h1 _ (by rw [hg]; simp)).2 (by
      intro c hc
      by_cases e : c.1.group = G
      · exact Or.inl (hcl c hc e)
      · exact Or.inr (Or.inl (by rw [hxG]; exact fun e' => e e'.symm)))
    rw [hitsOf_single _ S.nodup_stmts x hx] at hk
    have hpre0 : ∀ st ∈ pre, kwMatches st.words ((renderQuery head hb cls).length + 1) 0 (renderQuery head hb cls) = [] := by
      intro st hst
      have hstg := h1 st (by rw [hg]; simp [hst])
      rw [S.kw_eq st hstg.2 (by
        intro c hc
        by_cases e : c.1.group = G
        · exact Or.inr (Or.inr (by rw [hcl c hc e]; exact hpre st hst))
        · exact Or.inr (Or.inl (by rw [hstg.1]; exact fun e' => e e'.symm)))]
      apply hitsOf_nil
      intro y hy e
      have := huniq y hy (by rw [e]; exact hstg.1)
      have h' := hpre st hst
      rw [← this, e] at h'
      exact Nat.lt_irrefl _ h'
    refine ⟨some x, ?_, ?_⟩
    · rw [hg, locateGroup_first _ pre post x.2.2 x.1 x.2.1 hpre0 hk]
    · intro y
      constructor
      · intro e; cases e; exact ⟨hx, hxG⟩
      · rintro ⟨hy, e⟩; rw [huniq y hy e]
  · refine ⟨none, ?_, ?_⟩
    · apply locateGroup_none
      intro st hst
      have hstg := h1 st hst
      rw [S.kw_eq st hstg.2 (by
        intro c hc
        refine Or.inr (Or.inl ?_)
        obtain ⟨y, hy, ey⟩ := mem_expected_of_clause (head := head) (hb := hb) c hc
        intro e
        exact hex ⟨y, hy, by rw [ey, ← e]; exact hstg.1⟩)]
      apply hitsOf_nil
      intro y hy e
      exact hex ⟨y, hy, by rw [e]; exact hstg.1⟩
    · intro y
      constructor
      · intro e; cases e
      · rintro ⟨hy, e⟩; exact absurd ⟨y, hy, e⟩ hex

theorem locs_sorted (cls : List (Stmt × Str)) : ∀ pos, (locs pos cls).Pairwise LocLt ∧ ∀ x ∈ locs pos cls, pos ≤ x.1 := by
  induction cls with
  | nil => intro pos; simp [locs]
  | cons c cs ih =>
    intro pos
    obtain ⟨h1, h2⟩ := ih (pos + clauseLen c)
    refine ⟨List.pairwise_cons.mpr ⟨?_, h1⟩, ?_⟩
    · intro y hy
      have := h2 y hy
      show pos < y.1
      unfold clauseLen at this; omega
    · intro x hx
      rcases List.mem_cons.mp hx with rfl | hx
      · exact Nat.le_refl _
      · have := h2 x hx; omega

theorem expected_sorted (head : Stmt) (hb : Str) (cls : List (Stmt × Str)) : (expected head hb cls).Pairwise LocLt := by
  obtain ⟨h1, h2⟩ := locs_sorted cls (head.text.length + (hb.length + 1))
  refine List.pairwise_cons.mpr ⟨?_, h1⟩
  intro y hy
  have := h2 y hy
  show 0 < y.1
  omega

theorem sorted_pos_inj (l : List Loc) (h : l.Pairwise LocLt) (x y : Loc) (hx : x ∈ l) (hy : y ∈ l) (e : x.1 = y.1) : x = y := by
  induction l with
  | nil => simp at hx
  | cons a as ih =>
    have p := List.pairwise_cons.mp h
    rcases List.mem_cons.mp hx with rfl | hx' <;> rcases List.mem_cons.mp hy with rfl | hy'
    · rfl
    · have := p.1 y hy'; unfold LocLt at this; omega
    · have := p.1 x hx'; unfold LocLt at this; omega
    · exact ih p.2 hx' hy'

inductive All2 {α β : Type} (R : α → β → Prop) : List α → List β → Prop
  | nil : All2 R [] []
  | cons {a b l1 l2} : R a b → All2 R l1 l2 → All2 R (a :: l1) (b :: l2)

theorem collect (E : List Loc) (hE : E.Pairwise LocLt) : ∀ (rs : List (Option Loc)) (Gs : List Stmt), Gs.Nodup →
    All2 (fun r G => ∀ x, r = some x ↔ x ∈ E ∧ x.2.2.group = G) rs Gs →
    (rs.filterMap id).Pairwise (fun a b => a.1 ≠ b.1) ∧ ∀ x, x ∈ rs.filterMap id ↔ x ∈ E ∧ x.2.2.group ∈ Gs := by
  intro rs Gs hnd hf
  induction hf with
  | nil => simp
  | @cons r G rs' Gs' hr _ ih =>
    have hnd' := List.nodup_cons.mp hnd
    obtain ⟨ih1, ih2⟩ := ih hnd'.2
    cases r with
    | none =>
      simp only [List.filterMap_cons, id]
      refine ⟨ih1, fun x => ?_⟩
      rw [ih2 x, List.mem_cons]
      constructor
      · rintro ⟨a, b⟩; exact ⟨a, Or.inr b⟩
      · rintro ⟨a, b | b⟩
        · exact absurd ((hr x).mpr ⟨a, b⟩) (by simp)
        · exact ⟨a, b⟩
    | some z =>
      have hz := (hr z).mp rfl
      simp only [List.filterMap_cons, id]
      refine ⟨List.pairwise_cons.mpr ⟨?_, ih1⟩, fun x => ?_⟩
      · intro y hy e
        have hy' := (ih2 y).mp hy
        have := sorted_pos_inj E hE z y hz.1 hy'.1 e
        rw [← this, hz.2] at hy'
        exact hnd'.1 hy'.2
      · rw [List.mem_cons, ih2 x, List.mem_cons]
        constructor
        · rintro (rfl | ⟨a, b⟩)
          · exact ⟨hz.1, Or.inl hz.2⟩
          · exact ⟨a, Or.inr b⟩
        · rintro ⟨a, b | b⟩
          · left; have := (hr x).mpr ⟨a, b⟩; simpa using this.symm
          · exact Or.inr ⟨a, b⟩

theorem Stmt.group_mem (k : Stmt) (h : k ≠ .from) :
    k.group ∈ [Stmt.join, .select, .orderBy, .where_, .update, .groupBy, .limit, .except] := by
  cases k <;> first | exact absurd rfl h | decide

theorem Setup.locateStatements_eq {head : Stmt} {hb : Str} {cls : List (Stmt × Str)} (S : Setup head hb cls) :
    locateStatements (renderQuery head hb cls) = .ok (expected head hb cls) := by
  obtain ⟨r1, e1, p1⟩ := S.locateGroup_spec [.strictLeftJoin, .leftOuterJoin, .leftJoin, .innerJoin, .join] .join
    (by decide) (by intro k; cases k <;> decide) (by decide)
  obtain ⟨r2, e2, p2⟩ := S.locateGroup_spec [.select] .select (by decide) (by intro k; cases k <;> decide) (by decide)
  obtain ⟨r3, e3, p3⟩ := S.locateGroup_spec [.orderBy] .orderBy (by decide) (by intro k; cases k <;> decide) (by decide)
  obtain ⟨r4, e4, p4⟩ := S.locateGroup_spec [.where_] .where_ (by decide) (by intro k; cases k <;> decide) (by decide)
  obtain ⟨r5, e5, p5⟩ := S.locateGroup_spec [.update] .update (by decide) (by intro k; cases k <;> decide) (by decide)
  obtain ⟨r6, e6, p6⟩ := S.locateGroup_spec [.groupBy] .groupBy (by decide) (by intro k; cases k <;> decide) (by decide)
  obtain ⟨r7, e7, p7⟩ := S.locateGroup_spec [.limit] .limit (by decide) (by intro k; cases k <;> decide) (by decide)
  obtain ⟨r8, e8, p8⟩ := S.locateGroup_spec [.except] .except (by decide) (by intro k; cases k <;> decide) (by decide)
  have hm : statementGroups.mapM (locateGroup (renderQuery head hb cls)) = .ok [r1, r2, r3, r4, r5, r6, r7, r8] := by
    simp only [statementGroups, List.mapM_cons, List.mapM_nil, e1, e2, e3, e4, e5, e6, e7, e8, bind, Except.bind, pure, Except.pure]
  unfold locateStatements
  rw [hm]
  show Except.ok _ = _
  congr 1
  have hE := expected_sorted head hb cls
  obtain ⟨c1, c2⟩ := collect (expected head hb cls) hE [r1, r2, r3, r4, r5, r6, r7, r8]
    [.join, .select, .orderBy, .where_, .update, .groupBy, .limit, .except] (by decide)
    (.cons p1 (.cons p2 (.cons p3 (.cons p4 (.cons p5 (.cons p6 (.cons p7 (.cons p8 .nil))))))))
  obtain ⟨f1, f2⟩ := foldl_insertSorted _ [] List.Pairwise.nil c1 (by simp)
  apply sorted_ext _ _ f1 hE
  intro x
  rw [f2 x, c2 x]
  simp only [List.not_mem_nil, or_false]
  constructor
  · exact fun h => h.1
  · intro hx
    refine ⟨hx, Stmt.group_mem _ ?_⟩
    have : x.2.2 ∈ (expected head hb cls).map (·.2.2) := List.mem_map.mpr ⟨x, hx, rfl⟩
    rw [expected_stmts] at this
    rcases List.mem_cons.mp this with e | e
    · rw [e]; rcases S.hh with rfl | rfl <;> decide
    · obtain ⟨c, hc, e'⟩ := List.mem_map.mp e
      rw [← e']; exact (S.hc c hc).2.2.1

/-! ### no WITH modifier, nothing to strip -/

def withW : Str := "with".toList

theorem kw_noStart (k : Stmt) (R : Str) : NoStart withW (k.text.length + 1) (' ' :: k.text ++ ' ' :: R) := by
  apply NoStart.tokens withW (by decide) k.text (' ' :: R) (Or.inr rfl)
  rw [k.tokens]
  cases k <;> decide

theorem QuietBody.noStart {b : Str} (hq : QuietBody b) (R : Str) (hR : R = [] ∨ R.head? = some ' ') :
    NoStart withW (b.length + 1) (' ' :: b ++ R) := by
  apply NoStart.tokens withW (by decide) b R hR
  intro tok ht
  exact hq.2.2.2 tok ht _ (by decide)

theorem clauses_noStart (cls : List (Stmt × Str)) (h : ∀ c ∈ cls, QuietBody c.2) :
    NoStart withW (clausesText cls).length (clausesText cls) := by
  induction cls with
  | nil => exact NoStart.zero _ _
  | cons c rest ih =>
    have h1 : NoStart withW (c.1.text.length + 1) ((' ' :: c.1.text) ++ ((' ' :: c.2) ++ clausesText rest)) :=
      kw_noStart c.1 (c.2 ++ clausesText rest)
    have h2 : NoStart withW (c.2.length + 1) ((' ' :: c.2) ++ clausesText rest) :=
      (h c (by simp)).noStart _ (clausesText_head rest)
    have h3 := ih (fun x hx => h x (by simp [hx]))
    have h4 := NoStart.append (A := ' ' :: c.2) (by simpa using h2) h3
    have h5 := NoStart.append (A := ' ' :: c.1.text) (by simpa using h1) h4
    rw [clausesText_cons]
    have e : ((' ' :: c.1.text) ++ ((' ' :: c.2) ++ clausesText rest)).length =
        (' ' :: c.1.text).length + ((' ' :: c.2).length + (clausesText rest).length) := by simp; omega
    rw [e]; exact h5

theorem renderQuery_eq (head : Stmt) (hb : Str) (cls : List (Stmt × Str)) :
    renderQuery head hb cls = head.text ++ ((' ' :: hb) ++ clausesText cls) := by
  simp [renderQuery, clausesText]

theorem Setup.noStart {head : Stmt} {hb : Str} {cls : List (Stmt × Str)} (S : Setup head hb cls) :
    NoStart withW (renderQuery head hb cls).length (renderQuery head hb cls) := by
  have hnosp : ' ' ∉ head.text := by rcases S.hh with rfl | rfl <;> decide
  have h1 := NoStart.nospace withW head.text ((' ' :: hb) ++ clausesText cls) hnosp
  have h2 : NoStart withW (hb.length + 1) ((' ' :: hb) ++ clausesText cls) := S.hq.noStart _ (clausesText_head cls)
  have h3 := clauses_noStart cls (fun c hc => (S.hc c hc).2.2.2)
  have h4 := NoStart.append (A := ' ' :: hb) (by simpa using h2) h3
  have h5 := NoStart.append h1 h4
  rw [renderQuery_eq]
  have e : (head.text ++ ((' ' :: hb) ++ clausesText cls)).length =
      head.text.length + ((' ' :: hb).length + (clausesText cls).length) := by simp; omega
  rw [e]; exact h5

theorem Setup.splitWith_none {head : Stmt} {hb : Str} {cls : List (Stmt × Str)} (S : Setup head hb cls) :
    splitWith (renderQuery head hb cls) = none := by
  cases h : splitWith (renderQuery head hb cls) with
  | none => rfl
  | some x =>
    obtain ⟨p, t, e, hci⟩ := splitWith_some _ x h
    have := S.noStart p.length (by rw [e]; simp) t (by rw [e]; simp)
    have hw : withW = "with".toList := rfl
    rw [hw, hci] at this
    cases this

theorem stripSp_id (s : Str) (h1 : s.head? ≠ some ' ') (h2 : s.getLast? ≠ some ' ') : stripSp s = s := by
  have d : ∀ t : Str, t.head? ≠ some ' ' → t.dropWhile (· == ' ') = t := by
    intro t ht
    cases t with
    | nil => rfl
    | cons c cs =>
      have : c ≠ ' ' := fun e => ht (by simp [e])
      simp [this]
  unfold stripSp
  rw [d s h1, d s.reverse (by rw [List.head?_reverse]; exact h2), List.reverse_reverse]

theorem clausesText_last (cls : List (Stmt × Str)) (h : ∀ c ∈ cls, QuietBody c.2) (hne : cls ≠ []) :
    clausesText cls ≠ [] ∧ (clausesText cls).getLast? ≠ some ' ' := by
  induction cls with
  | nil => exact absurd rfl hne
  | cons c rest ih =>
    rw [clausesText_cons]
    refine ⟨by simp, ?_⟩
    have hq := h c (by simp)
    by_cases hr : rest = []
    · subst hr
      have : clausesText [] = [] := rfl
      rw [this, List.append_nil, List.getLast?_append, List.getLast?_cons]
      cases hl : c.2.getLast? with
      | none => exact absurd (List.getLast?_eq_none_iff.mp hl) hq.1
      | some z =>
        simp only [Option.getD_some]
        intro e; exact hq.2.2.1 (by rw [hl, Option.some.inj e])
    · obtain ⟨i1, i2⟩ := ih (fun x hx => h x (by simp [hx])) hr
      rw [List.getLast?_append, List.getLast?_append]
      cases hl : (clausesText rest).getLast? with
      | none => exact absurd (List.getLast?_eq_none_iff.mp hl) i1
      | some z =>
        simp only [Option.some_or]
        rw [hl] at i2; exact i2

theorem Setup.stripSp_eq {head : Stmt} {hb : Str} {cls : List (Stmt × Str)} (S : Setup head hb cls) :
    stripSp (renderQuery head hb cls) = renderQuery head hb cls := by
  apply stripSp_id
  · rw [renderQuery_eq]
    rcases S.hh with rfl | rfl <;> simp [Stmt.text, Stmt.words, joinSpace]
  · rw [renderQuery_eq]
    by_cases hr : cls = []
    · subst hr
      have : clausesText [] = [] := rfl
      rw [this, List.append_nil, List.getLast?_append, List.getLast?_cons]
      cases hl : hb.getLast? with
      | none => exact absurd (List.getLast?_eq_none_iff.mp hl) S.hq.1
      | some z =>
        simp only [Option.getD_some, Option.some_or]
        intro e; exact S.hq.2.2.1 (by rw [hl, Option.some.inj e])
    · obtain ⟨i1, i2⟩ := clausesText_last cls (fun c hc => (S.hc c hc).2.2.2) hr
      rw [List.getLast?_append, List.getLast?_append]
      cases hl : (clausesText cls).getLast? with
      | none => exact absurd (List.getLast?_eq_none_iff.mp hl) i1
      | some z =>
        simp only [Option.some_or]
        rw [hl] at i2; exact i2

/-! ### the actions -/

/-- `buildAction` on an explicit span -/
def spanAct (start : Nat) (st : Stmt) (span : Str) : Except ParseError Action :=
  buildAction span start 0 span.length st

theorem buildAction_span (expr : Str) (start a b : Nat) (st : Stmt) :
    buildAction expr start a b st = spanAct start st ((expr.drop a).take (b - a)) := by
  unfold spanAct buildAction
  simp only [List.drop_zero, Nat.sub_zero, List.take_length]

/-- the action of a clause -/
def clauseAction (c : Stmt × Str) : Action :=
  match spanAct 1 c.1 (' ' :: c.2) with
  | .ok a => a
  | .error _ => { stmt := .from, text := [] }

theorem spanAct_clause (k : Stmt) (h1 : k ≠ .select) (h2 : k ≠ .update) (p : Nat) (b : Str) :
    spanAct p k (' ' :: b) = .ok (clauseAction (k, b)) ∧ (clauseAction (k, b)).stmt = k.group := by
  cases k <;> first | exact absurd rfl h1 | exact absurd rfl h2 | skip
  all_goals first
    | exact ⟨rfl, rfl⟩
    | (simp only [clauseAction, spanAct, buildAction]; split <;> exact ⟨rfl, rfl⟩)

theorem build_locs (cls : List (Stmt × Str)) (hc : ∀ c ∈ cls, c.1 ≠ .select ∧ c.1 ≠ .update) :
    ∀ (P : Str) (a b : Nat) (st : Stmt), b ≤ P.length →
    buildActions (P ++ clausesText cls) ((a, b, st) :: locs P.length cls) =
      (spanAct a st (P.drop b)).map (fun x => x :: cls.map clauseAction) := by
  induction cls with
  | nil =>
    intro P a b st hb
    have : clausesText [] = [] := rfl
    simp only [this, List.append_nil, locs, buildActions, buildAction_span, List.map_nil]
    rw [List.take_of_length_le (by simp)]
    cases spanAct a st (P.drop b) <;> rfl
  | cons c rest ih =>
    intro P a b st hb
    have hc' := hc c (by simp)
    have e1 : P ++ clausesText (c :: rest) = (P ++ ((' ' :: c.1.text) ++ (' ' :: c.2))) ++ clausesText rest := by
      rw [clausesText_cons]; simp
    have e2 : (P ++ ((' ' :: c.1.text) ++ (' ' :: c.2))).length = P.length + clauseLen c := by
      simp [clauseLen]; omega
    have hrec := ih (fun x hx => hc x (by simp [hx])) (P ++ ((' ' :: c.1.text) ++ (' ' :: c.2)))
      P.length (P.length + (c.1.text.length + 1)) c.1 (by rw [e2]; unfold clauseLen; omega)
    rw [e2, ← e1] at hrec
    have hdrop : (P ++ ((' ' :: c.1.text) ++ (' ' :: c.2))).drop (P.length + (c.1.text.length + 1)) = ' ' :: c.2 := by
      rw [← List.append_assoc]
      exact drop_len_append _ _ _ (by simp)
    rw [hdrop, (spanAct_clause c.1 hc'.1 hc'.2 P.length c.2).1] at hrec
    have hspan : ((P ++ clausesText (c :: rest)).drop b).take (P.length - b) = P.drop b := by
      rw [List.drop_append_of_le_length hb, List.take_append_of_le_length (by simp)]
      exact List.take_of_length_le (by simp)
    simp only [locs, buildActions, buildAction_span, hspan]
    have hrec' : buildActions (P ++ clausesText (c :: rest))
        ((P.length, P.length + (c.1.text.length + 1), c.1) :: locs (P.length + clauseLen c) rest) =
        Except.ok (clauseAction c :: rest.map clauseAction) := hrec
    rw [hrec']
    cases spanAct a st (P.drop b) <;> rfl

theorem spanAct_head (head : Stmt) (hh : head = .select ∨ head = .update) (span : Str) :
    ∃ a, spanAct 0 head span = .ok a ∧ a.stmt = head := by
  rcases hh with rfl | rfl
  · simp only [spanAct, buildAction, ne_eq, not_true_eq_false, if_false]
    exact ⟨_, rfl, rfl⟩
  · simp only [spanAct, buildAction, ne_eq, not_true_eq_false, if_false]
    exact ⟨_, rfl, rfl⟩

theorem find_perm {α : Type} (p : α → Bool) (l1 l2 : List α) (hp : l1.Perm l2)
    (hu : ∀ x ∈ l1, ∀ y ∈ l1, p x = true → p y = true → x = y) : l1.find? p = l2.find? p := by
  cases h1 : l1.find? p with
  | none =>
    symm
    rw [List.find?_eq_none] at h1 ⊢
    intro x hx; exact h1 x (hp.mem_iff.mpr hx)
  | some x =>
    have hx := List.mem_of_find?_eq_some h1
    have hpx := List.find?_some h1
    cases h2 : l2.find? p with
    | none =>
      rw [List.find?_eq_none] at h2
      exact absurd hpx (h2 x (hp.mem_iff.mp hx))
    | some y =>
      have hy := hp.mem_iff.mpr (List.mem_of_find?_eq_some h2)
      rw [hu x hx y hy hpx (List.find?_some h2)]

theorem Setup.separate {head : Stmt} {hb : Str} {cls : List (Stmt × Str)} (S : Setup head hb cls) :
    ∃ hA : Action, hA.stmt = head ∧ spanAct 0 head (' ' :: hb) = .ok hA ∧
      separateActions (renderQuery head hb cls) = .ok { withModifier := none, actions := hA :: cls.map clauseAction } := by
  obtain ⟨hA, e1, e2⟩ := spanAct_head head S.hh (' ' :: hb)
  refine ⟨hA, e2, e1, ?_⟩
  have hb' : buildActions (renderQuery head hb cls) (expected head hb cls) = .ok (hA :: cls.map clauseAction) := by
    have := build_locs cls (fun c hc => ⟨(S.hc c hc).1, (S.hc c hc).2.1⟩) (head.text ++ ' ' :: hb) 0 head.text.length head (by simp)
    have e3 : (head.text ++ ' ' :: hb).length = head.text.length + (hb.length + 1) := by simp
    have e4 : (head.text ++ ' ' :: hb) ++ clausesText cls = renderQuery head hb cls := by
      rw [renderQuery_eq]; simp
    rw [e3, e4, List.drop_left, e1] at this
    exact this
  have hcl : ∀ a ∈ cls.map clauseAction, a.stmt ≠ .select ∧ a.stmt ≠ .update := by
    intro a ha
    obtain ⟨c, hc, rfl⟩ := List.mem_map.mp ha
    obtain ⟨h1, h2, _, _⟩ := S.hc c hc
    rw [(spanAct_clause c.1 h1 h2 1 c.2).2]
    exact ⟨fun e => h1 (Stmt.group_eq_select _ e), fun e => h2 (Stmt.group_eq_update _ e)⟩
  have hsel : ∀ s : Stmt, (s = .select ∨ s = .update) → (cls.map clauseAction).any (·.stmt == s) = false := by
    intro s hs
    rw [List.any_eq_false]
    intro a ha
    have := hcl a ha
    rcases hs with rfl | rfl <;> simp [this.1, this.2]
  unfold separateActions
  simp only [S.stripSp_eq, S.splitWith_none, S.locateStatements_eq, hb', bind, Except.bind, List.any_cons, e2,
    hsel .select (Or.inl rfl), hsel .update (Or.inr rfl), Bool.or_false]
  rcases S.hh with rfl | rfl <;> rfl

theorem Setup.nodup_actions {head : Stmt} {hb : Str} {cls : List (Stmt × Str)} (S : Setup head hb cls) (hA : Action)
    (hs : hA.stmt = head) : ((hA :: cls.map clauseAction).map (·.stmt)).Nodup := by
  have e : (cls.map clauseAction).map (·.stmt) = cls.map (fun c => c.1.group) := by
    rw [List.map_map]
    apply List.map_congr_left
    intro c hc
    obtain ⟨h1, h2, _, _⟩ := S.hc c hc
    exact (spanAct_clause c.1 h1 h2 1 c.2).2
  rw [List.map_cons, e, hs, List.nodup_cons]
  refine ⟨?_, S.hnd⟩
  simp only [List.mem_map, not_exists, not_and]
  intro c hc e
  obtain ⟨h1, h2, _, _⟩ := S.hc c hc
  rcases S.hh with rfl | rfl
  · exact h1 (Stmt.group_eq_select _ e)
  · exact h2 (Stmt.group_eq_update _ e)

/-- **clause order is irrelevant**: any permutation of the clauses after SELECT (or UPDATE) parses to the same
dictionary of actions, and to the same error if there is one -/
theorem clause_order_irrelevant (head : Stmt) (hh : head = .select ∨ head = .update) (headBody : Str)
    (hq : QuietBody headBody) (cl1 cl2 : List (Stmt × Str)) (hok : ClausesOk cl1) (hperm : cl1.Perm cl2) (s : Stmt) :
    parseDict (renderQuery head headBody cl2) s = parseDict (renderQuery head headBody cl1) s := by
  have S1 : Setup head headBody cl1 := ⟨hh, hq, hok.1, hok.2⟩
  have S2 : Setup head headBody cl2 :=
    ⟨hh, hq, fun c hc => hok.1 c (hperm.mem_iff.mpr hc), (hperm.map _).nodup_iff.mp hok.2⟩
  obtain ⟨a1, s1, e1, p1⟩ := S1.separate
  obtain ⟨a2, _, e2, p2⟩ := S2.separate
  have ha : a2 = a1 := by rw [e1] at e2; exact (Except.ok.inj e2).symm
  subst ha
  unfold parseDict
  rw [p1, p2]
  simp only [Except.map, Actions.lookup]
  congr 2
  symm
  apply find_perm _ _ _ ((hperm.map clauseAction).cons a2)
  intro x hx y hy px py
  apply inj_of_nodup (fun a : Action => a.stmt) _ (S1.nodup_actions a2 s1) x y hx hy
  simp only [beq_iff_eq] at px py
  rw [px, py]

/-! ### the hypotheses hold for ordinary queries -/

theorem quietBody_of_tokens (ws : List Str) (h1 : ws ≠ []) (h2 : ∀ w ∈ ws, ' ' ∉ w)
    (h3 : joinSpace ws ≠ [] ∧ (joinSpace ws).head? ≠ some ' ' ∧ (joinSpace ws).getLast? ≠ some ' ')
    (h4 : ∀ tok ∈ ws, ∀ w ∈ reservedPrefixes, ciPrefix w tok = false) : QuietBody (joinSpace ws) := by
  refine ⟨h3.1, h3.2.1, h3.2.2, ?_⟩
  rw [splitOn_joinSpace ws h1 h2]; exact h4

def toks (l : List String) : List Str := l.map String.toList

/-- `SELECT top 3 distinct a1, a2 WHERE a1 > 5 ORDER BY a2 DESC LEFT JOIN b on a1 == b1 LIMIT 10 GROUP BY a3` -/
example :
    renderQuery .select (joinSpace (toks ["top", "3", "distinct", "a1,", "a2"]))
      [(.where_, joinSpace (toks ["a1", ">", "5"])), (.orderBy, joinSpace (toks ["a2", "DESC"])),
       (.leftJoin, joinSpace (toks ["b", "on", "a1", "==", "b1"])), (.limit, joinSpace (toks ["10"])),
       (.groupBy, joinSpace (toks ["a3"]))]
      = "SELECT top 3 distinct a1, a2 WHERE a1 > 5 ORDER BY a2 DESC LEFT JOIN b on a1 == b1 LIMIT 10 GROUP BY a3".toList ∧
    QuietBody (joinSpace (toks ["top", "3", "distinct", "a1,", "a2"])) ∧
    ClausesOk
      [(.where_, joinSpace (toks ["a1", ">", "5"])), (.orderBy, joinSpace (toks ["a2", "DESC"])),
       (.leftJoin, joinSpace (toks ["b", "on", "a1", "==", "b1"])), (.limit, joinSpace (toks ["10"])),
       (.groupBy, joinSpace (toks ["a3"]))] := by
  refine ⟨by decide, quietBody_of_tokens _ (by decide) (by decide) (by decide) (by decide), ?_, by decide⟩
  intro c hc
  simp only [List.mem_cons, List.not_mem_nil, or_false] at hc
  rcases hc with rfl | rfl | rfl | rfl | rfl <;>
    exact ⟨by decide, by decide, by decide, quietBody_of_tokens _ (by decide) (by decide) (by decide) (by decide)⟩

end Rbql
