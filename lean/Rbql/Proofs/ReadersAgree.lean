/-
  The Python reader (pull machine over a chunked stream) and the JavaScript reader (push machine,
  fold over the physical lines) deliver the same thing from the same text: same header, same
  records, same warnings up to order, or the same error.

  Method: a direct simulation.  A Python state `s` is abstracted to the JS state `absJ s agg out err`
  that carries the same counters; every Python step that pops lines off the pending text
  (`getRowSimple`, `rfcLoop`, `getRowRfc`, `nextDataLine`, `readRecord`, `allRecords`) is matched
  with the JS run `jsRun` over exactly those lines (`linesSpec (pending s)`).

  The statement is FALSE without a side condition under the `quotedRfc` policy: Python tests the
  *joined* multi-line record against the comment prefix (in `nextDataLine`), JS only the first
  physical line.  With a comment prefix that contains LF (`"⏎`, text `"⏎foo"⏎bar⏎`) Python drops the
  record `"⏎foo"` as a comment and JS delivers it.  `CommentOK` excludes exactly those prefixes.
-/
import Rbql.Proofs.ReaderPyRecords
import Rbql.Proofs.ReaderJsLines
namespace Rbql

/-! ### Statement-level definitions -/

/-- canonical order of the warnings: BOM, defective line, field counts (Python's order) -/
def canonWarnings (ws : List ReadWarn) : List ReadWarn :=
  ws.filter (fun w => match w with | .bom => true | _ => false) ++
  ws.filter (fun w => match w with | .defective _ => true | _ => false) ++
  ws.filter (fun w => match w with | .fields .. => true | _ => false)

def canonResult (r : Except ReadErr ReadResult) : Except ReadErr ReadResult :=
  r.map (fun x => { x with warnings := canonWarnings x.warnings })

/-- Side condition for the `quotedRfc` policy: the comment prefix is not of the form
`a ++ LF :: b` with `a` a single physical line with an odd number of quotes.  (Any prefix without
LF qualifies.)  Vacuous for the other policies. -/
def CommentOK (c : RCfg) : Prop :=
  c.policy = .quotedRfc → ∀ p a b, c.comment = some p → p = a ++ LF :: b → NoNL a →
    countQuotes a % 2 = 0

/-! ### The JS run over a list of lines -/

/-- JS state carrying the counters of a Python state -/
def absJ (s : RState) (agg : List Str) (out : List (List Str)) (err : Option ReadErr) : JState :=
  { nl := s.nl, nr := s.nr, bom := s.bom, firstDefective := s.firstDefective,
    fieldsInfo := s.fieldsInfo, agg := agg, out := out, err := err }

/-- forget the aggregation buffer (not observable in `jsResult`) -/
def clr (st : JState) : JState := { st with agg := [] }

/-- `process_line` on every line, then the final flush -/
def jsRun (c : RCfg) (st : JState) : List Str → JState
  | [] => jsFlush c st
  | l :: ls => jsRun c (jsProcessLine c st l) ls

theorem jsRun_eq (c : RCfg) (st : JState) (ls : List Str) :
    jsRun c st ls = jsFlush c (ls.foldl (jsProcessLine c) st) := by
  induction ls generalizing st with
  | nil => rfl
  | cons l ls ih => simp [jsRun, ih]

/-- the part of `process_line` after the line counter and the BOM -/
def jsDispatch (c : RCfg) (st : JState) (line : Str) : JState :=
  if c.policy = .quotedRfc then jsRfcLine c st line
  else if isComment c line then st
  else jsRecordLine c st line

/-! ### `nextLine` and `linesSpec` -/

theorem nextLine_none_nil (p : Str) (h : nextLine p = none) : p = [] := by
  unfold nextLine at h
  split at h
  · simp at h
  · split at h
    · assumption
    · simp at h

theorem nextLine_some_lines (p row rest : Str) (h : nextLine p = some (row, rest)) :
    linesSpec p = row :: linesSpec rest ∧ rest.length < p.length ∧ NoNL row := by
  unfold nextLine at h
  split at h
  · rename_i b sep a he
    simp only [Option.some.injEq, Prod.mk.injEq] at h
    obtain ⟨rfl, rfl⟩ := h
    have h1 := linesSpec_extract p b sep a [] he (by simp)
    simp only [List.append_nil] at h1
    obtain ⟨h2, h3, h4⟩ := extractLine_some _ _ _ _ he
    refine ⟨h1, ?_, h3⟩
    subst h2
    rcases h4 with rfl | rfl | ⟨rfl, _⟩ <;> simp <;> omega
  · rename_i he
    split at h
    · simp at h
    · rename_i hne
      simp only [Option.some.injEq, Prod.mk.injEq] at h
      obtain ⟨rfl, rfl⟩ := h
      have hn := extractLine_none _ he
      refine ⟨by rw [linesSpec_noNL _ hn hne, linesSpec_nil], ?_, hn⟩
      exact List.length_pos_iff.mpr hne

theorem NoNL_removeBom (e : Enc) (row : Str) (h : NoNL row) : NoNL (removeBom e row) := by
  unfold removeBom
  split
  · split
    · simp only [NoNL_cons] at h; exact h.2.2.2
    · exact h
  · split
    · simp only [NoNL_cons] at h; exact h.2
    · exact h
  · exact h

/-! ### One physical line: `getRowSimple` against `jsProcessLine` -/

theorem absJ_frame {s s1 : RState} (hf : Frame s s1) (hnl : s1.nl = s.nl) (hb : s1.bom = s.bom)
    (agg : List Str) (out : List (List Str)) (err : Option ReadErr) :
    absJ s1 agg out err = absJ s agg out err := by
  obtain ⟨a1, a2, a3, _, _, _⟩ := hf
  simp [absJ, a1, a2, a3, hnl, hb]

theorem getRowSimple_js (c : RCfg) (s : RState) (h : RInv c s) (r : Option Str) (s1 : RState)
    (hg : getRowSimple c s = (r, s1)) :
    match r with
    | none => pending s = [] ∧ pending s1 = [] ∧ RInv c s1 ∧ Frame s s1 ∧ s1.nl = s.nl ∧
        s1.bom = s.bom
    | some row => ∃ l, linesSpec (pending s) = l :: linesSpec (pending s1) ∧
        (pending s1).length < (pending s).length ∧ RInv c s1 ∧ Frame s s1 ∧ NoNL row ∧
        ∀ agg out err, jsProcessLine c (absJ s agg out err) l = jsDispatch c (absJ s1 agg out err) row := by
  obtain ⟨i, f, o⟩ := getRowSimple_spec c s h
  rw [hg] at i f o
  simp only [stepObs, specStep] at o i f
  rcases hn : nextLine (pending s) with _ | ⟨l, rest⟩
  · rw [hn] at o
    simp only [Prod.mk.injEq] at o
    obtain ⟨rfl, o2, o3, o4⟩ := o
    exact ⟨nextLine_none_nil _ hn, o2, i, f, o3, o4⟩
  · rw [hn] at o
    simp only at o
    obtain ⟨l1, l2, l3⟩ := nextLine_some_lines _ _ _ hn
    obtain ⟨a1, a2, a3, _, _, _⟩ := id f
    by_cases h0 : s.nl = 0
    · rw [if_pos h0] at o
      simp only [Prod.mk.injEq] at o
      obtain ⟨rfl, o2, o3, o4⟩ := o
      simp only
      refine ⟨l, by rw [o2]; exact l1, by rw [o2]; exact l2, i, f, NoNL_removeBom _ _ l3, ?_⟩
      intro agg out err
      by_cases hc : removeBom c.enc l = l
      · simp [jsProcessLine, jsDispatch, absJ, h0, hc, a1, a2, a3, o3, o4]
      · simp [jsProcessLine, jsDispatch, absJ, h0, hc, a1, a2, a3, o3, o4]
    · rw [if_neg h0] at o
      simp only [Prod.mk.injEq] at o
      obtain ⟨rfl, o2, o3, o4⟩ := o
      simp only
      refine ⟨l, by rw [o2]; exact l1, by rw [o2]; exact l2, i, f, l3, ?_⟩
      intro agg out err
      simp [jsProcessLine, absJ, h0, a1, a2, a3, o3, o4, jsDispatch]

/-! ### JS side: stored error is sticky, the aggregation buffer is not observable -/

theorem jsRecordLine_err (c : RCfg) (st : JState) (line : Str) (e : ReadErr)
    (h : st.err = some e) : (jsRecordLine c st line).err = some e := by
  unfold jsRecordLine
  simp only
  split <;> (try split) <;> simp_all

theorem jsRecordLine_agg (c : RCfg) (st : JState) (line : Str) :
    (jsRecordLine c st line).agg = st.agg := by
  unfold jsRecordLine
  simp only
  split <;> (try split) <;> simp_all

theorem clr_jsRecordLine (c : RCfg) (st : JState) (line : Str) :
    clr (jsRecordLine c st line) = jsRecordLine c (clr st) line := by
  unfold jsRecordLine clr
  simp only
  split <;> (try split) <;> simp_all

theorem jsRfcLine_err (c : RCfg) (st : JState) (line : Str) (e : ReadErr)
    (h : st.err = some e) : (jsRfcLine c st line).err = some e := by
  unfold jsRfcLine
  split
  · exact h
  · simp only
    split
    · exact jsRecordLine_err _ _ _ _ h
    · exact h

theorem jsDispatch_err (c : RCfg) (st : JState) (line : Str) (e : ReadErr)
    (h : st.err = some e) : (jsDispatch c st line).err = some e := by
  unfold jsDispatch
  split
  · exact jsRfcLine_err _ _ _ _ h
  · split
    · exact h
    · exact jsRecordLine_err _ _ _ _ h

theorem jsProcessLine_eq (c : RCfg) (st : JState) (line : Str) :
    ∃ st' line', jsProcessLine c st line = jsDispatch c st' line' ∧ st'.err = st.err := by
  by_cases h1 : st.nl = 0
  · by_cases hc : removeBom c.enc line = line
    · exact ⟨{ st with nl := st.nl + 1 }, line, by simp [jsProcessLine, jsDispatch, h1, hc], rfl⟩
    · exact ⟨{ st with nl := st.nl + 1, bom := true }, removeBom c.enc line,
        by simp [jsProcessLine, jsDispatch, h1, hc], rfl⟩
  · exact ⟨{ st with nl := st.nl + 1 }, line, by simp [jsProcessLine, jsDispatch, h1], rfl⟩

theorem jsProcessLine_err (c : RCfg) (st : JState) (line : Str) (e : ReadErr)
    (h : st.err = some e) : (jsProcessLine c st line).err = some e := by
  obtain ⟨st', line', h1, h2⟩ := jsProcessLine_eq c st line
  rw [h1]
  exact jsDispatch_err _ _ _ _ (h2.trans h)

theorem jsFlush_err (c : RCfg) (st : JState) (e : ReadErr) (h : st.err = some e) :
    (jsFlush c st).err = some e := by
  unfold jsFlush
  split
  · exact jsRecordLine_err _ _ _ _ h
  · exact h

theorem jsRun_err (c : RCfg) (st : JState) (ls : List Str) (e : ReadErr) (h : st.err = some e) :
    (jsRun c st ls).err = some e := by
  induction ls generalizing st with
  | nil => exact jsFlush_err _ _ _ h
  | cons l ls ih => exact ih _ (jsProcessLine_err _ _ _ _ h)

theorem jsFlush_nil (c : RCfg) (st : JState) (h : st.agg = []) : jsFlush c st = st := by
  simp [jsFlush, h]

theorem jsRun_nil_of_agg (c : RCfg) (st : JState) (h : st.agg = []) : jsRun c st [] = st :=
  jsFlush_nil c st h

/-- the aggregator on a line inside a multi-line record -/
theorem jsRfcLine_cont (c : RCfg) (st : JState) (line : Str) (h : st.agg ≠ []) :
    jsRfcLine c st line =
      if countQuotes line % 2 = 1 then
        jsRecordLine c { st with agg := [] } (joinLF (line :: st.agg).reverse)
      else { st with agg := line :: st.agg } := by
  unfold jsRfcLine
  have hl : 0 < st.agg.length := List.length_pos_iff.mpr h
  rw [if_neg (fun hh => h hh.1)]
  by_cases hq : countQuotes line % 2 = 1
  · have : (st.agg.length + 1 > 1) := by omega
    simp [hq, this]
  · have : ¬ (st.agg.length = 0) := by omega
    simp [hq, this]

/-- the aggregator on a line that starts a record -/
theorem jsRfcLine_start (c : RCfg) (st : JState) (line : Str) (h : st.agg = []) :
    jsRfcLine c st line =
      if isComment c line then st
      else if countQuotes line % 2 = 1 then { st with agg := [line] }
      else jsRecordLine c { st with agg := [] } line := by
  unfold jsRfcLine
  by_cases hc : isComment c line = true
  · simp [h, hc]
  · by_cases hq : countQuotes line % 2 = 1
    · simp [h, hc, hq]
    · simp [h, hc, hq, joinLF]

/-! ### Finishing a record: the tail of `readRecord` against `jsRecordLine` -/

/-- `readRecord` after the data line has been found -/
def pyFinish (c : RCfg) (s1 : RState) (line : Str) : Except ReadErr (Option (List Str) × RState) :=
  let s2 := { s1 with nr := s1.nr + 1 }
  let (record, warning) := smartSplit c.delim c.policy false line
  let info := addFieldsInfo s2.fieldsInfo record.length s2.nr
  if warning ∧ s2.firstDefective = none then
    if c.policy = .quotedRfc then .error (.rfcQuote s2.nr s2.nl)
    else .ok (some record, { s2 with firstDefective := some s2.nl, fieldsInfo := info })
  else .ok (some record, { s2 with fieldsInfo := info })

theorem readRecord_eq (c : RCfg) (s : RState) :
    readRecord c s =
      match nextDataLine c (remaining s + 1) s with
      | (none, s1) => .ok (none, s1)
      | (some line, s1) => pyFinish c s1 line := rfl

theorem pyFinish_js (c : RCfg) (s1 : RState) (line : Str) :
    match pyFinish c s1 line with
    | .error e => ∀ agg out, (jsRecordLine c (absJ s1 agg out none) line).err = some e
    | .ok (r, s2) => ∃ rec, r = some rec ∧ pending s2 = pending s1 ∧ (RInv c s1 → RInv c s2) ∧
        (s2.emitFirst = s1.emitFirst ∧ s2.hasHeader = s1.hasHeader) ∧
        ∀ agg out, jsRecordLine c (absJ s1 agg out none) line = absJ s2 agg (rec :: out) none := by
  unfold pyFinish jsRecordLine
  rcases smartSplit c.delim c.policy false line with ⟨record, warning⟩
  simp only
  by_cases hw : warning = true ∧ s1.firstDefective = none
  · rw [if_pos hw]
    by_cases hp : c.policy = .quotedRfc
    · rw [if_pos hp]
      intro agg out
      simp [absJ, hw, hp]
    · rw [if_neg hp]
      refine ⟨record, rfl, rfl, fun h => ⟨h.1, h.2, h.3⟩, ⟨rfl, rfl⟩, ?_⟩
      intro agg out
      simp [absJ, hw, hp]
  · rw [if_neg hw]
    refine ⟨record, rfl, rfl, fun h => ⟨h.1, h.2, h.3⟩, ⟨rfl, rfl⟩, ?_⟩
    intro agg out
    have hw' : ¬ (warning = true ∧ (absJ s1 agg out none).firstDefective = none) := hw
    rw [if_neg hw']
    simp [absJ]

/-! ### The comment test on a joined multi-line record -/

theorem startsWith_append_LF (p first X : Str) (h : startsWith p (first ++ LF :: X) = true) :
    startsWith p first = true ∨ ∃ b, p = first ++ LF :: b := by
  induction first generalizing p with
  | nil =>
    cases p with
    | nil => left; simp [startsWith]
    | cons c p' =>
      right
      simp [startsWith] at h
      exact ⟨p', by simp [h.1]⟩
  | cons f fs ih =>
    cases p with
    | nil => left; simp [startsWith]
    | cons c p' =>
      simp only [startsWith, List.cons_append, List.isPrefixOf_cons_cons, Bool.and_eq_true,
        beq_iff_eq] at h ⊢
      obtain ⟨rfl, h2⟩ := h
      rcases ih p' h2 with h3 | ⟨b, rfl⟩
      · left; exact ⟨rfl, h3⟩
      · right; exact ⟨b, rfl⟩

theorem isComment_joined (c : RCfg) (hok : CommentOK c) (hp : c.policy = .quotedRfc)
    (first X : Str) (hn : NoNL first) (hq : countQuotes first % 2 = 1)
    (hc : isComment c first = false) : isComment c (first ++ LF :: X) = false := by
  unfold isComment at hc ⊢
  rcases hcm : c.comment with _ | p
  · rfl
  · rw [hcm] at hc
    simp only at hc ⊢
    rcases hs : startsWith p (first ++ LF :: X) with _ | _
    · rfl
    · rcases startsWith_append_LF _ _ _ hs with h1 | ⟨b, rfl⟩
      · rw [h1] at hc; cases hc
      · have := hok hp _ first b hcm rfl hn
        omega

theorem joinLF_cons (r : Str) (rs : List Str) :
    joinLF (r :: rs) = if rs = [] then r else r ++ LF :: joinLF rs := by
  cases rs <;> simp [joinLF]

/-! ### The multi-line loop -/

theorem clr_absJ (s : RState) (agg : List Str) (out : List (List Str)) (err : Option ReadErr) :
    clr (absJ s agg out err) = absJ s [] out err := rfl

theorem rfcLoop_js (c : RCfg) (hp : c.policy = .quotedRfc) (fuel : Nat) (s : RState)
    (rows : List Str) (hrows : rows ≠ []) (hinv : RInv c s) (hfuel : (pending s).length < fuel) :
    (pending (rfcLoop c fuel s rows).2).length ≤ (pending s).length ∧
    RInv c (rfcLoop c fuel s rows).2 ∧ Frame s (rfcLoop c fuel s rows).2 ∧
    (∃ extra, (rfcLoop c fuel s rows).1 = joinLF (rows.reverse ++ extra)) ∧
    ∀ out err, clr (jsRun c (absJ s rows out err) (linesSpec (pending s))) =
      clr (jsRun c (jsRecordLine c (absJ (rfcLoop c fuel s rows).2 [] out err)
        (rfcLoop c fuel s rows).1) (linesSpec (pending (rfcLoop c fuel s rows).2))) := by
  induction fuel generalizing s rows with
  | zero => omega
  | succ fuel ih =>
    rw [rfcLoop]
    rcases hg : getRowSimple c s with ⟨_ | row, s1⟩
    · have hj := getRowSimple_js c s hinv _ _ hg
      simp only at hj ⊢
      obtain ⟨p0, p1, i1, f1, n1, b1⟩ := hj
      refine ⟨by rw [p0, p1]; exact Nat.le_refl _, i1, f1, ⟨[], by simp⟩, ?_⟩
      intro out err
      rw [p0, p1, linesSpec_nil, absJ_frame f1 n1 b1]
      simp only [jsRun]
      rw [jsFlush_nil _ (jsRecordLine _ _ _) (by rw [jsRecordLine_agg]; rfl)]
      have : (absJ s rows out err).agg ≠ [] := hrows
      rw [jsFlush, if_pos this, clr_jsRecordLine, clr_jsRecordLine]
      rfl
    · have hj := getRowSimple_js c s hinv _ _ hg
      simp only at hj ⊢
      obtain ⟨l, hl, hlen, i1, f1, nn, hj⟩ := hj
      by_cases hq : countQuotes row % 2 = 1
      · rw [if_pos hq]
        simp only
        refine ⟨Nat.le_of_lt hlen, i1, f1, ⟨[row], by simp⟩, ?_⟩
        intro out err
        have hagg : (absJ s1 rows out err).agg ≠ [] := hrows
        rw [hl]
        simp only [jsRun]
        rw [hj, jsDispatch, if_pos hp, jsRfcLine_cont _ _ _ hagg, if_pos hq]
        rfl
      · rw [if_neg hq]
        obtain ⟨q1, q2, q3, ⟨extra, q4⟩, q5⟩ := ih s1 (row :: rows) (by simp) i1 (by omega)
        refine ⟨by omega, q2, f1.trans q3, ⟨row :: extra, by rw [q4]; simp⟩, ?_⟩
        intro out err
        have hagg : (absJ s1 rows out err).agg ≠ [] := hrows
        rw [hl]
        simp only [jsRun]
        rw [hj, jsDispatch, if_pos hp, jsRfcLine_cont _ _ _ hagg, if_neg hq]
        exact q5 out err

/-! ### One logical row: `getRow` -/

theorem getRow_js (c : RCfg) (hok : CommentOK c) (s : RState) (hinv : RInv c s) (r : Option Str)
    (s1 : RState) (hg : getRow c s = (r, s1)) :
    match r with
    | none => pending s = [] ∧ pending s1 = [] ∧ RInv c s1 ∧ Frame s s1 ∧ s1.nl = s.nl ∧
        s1.bom = s.bom
    | some line => (pending s1).length < (pending s).length ∧ RInv c s1 ∧ Frame s s1 ∧
        ∀ out err, clr (jsRun c (absJ s [] out err) (linesSpec (pending s))) =
          clr (jsRun c (if isComment c line then absJ s1 [] out err
            else jsRecordLine c (absJ s1 [] out err) line) (linesSpec (pending s1))) := by
  rw [getRow] at hg
  by_cases hp : c.policy = .quotedRfc
  · rw [if_pos hp, getRowRfc_eq] at hg
    rcases hg1 : getRowSimple c s with ⟨_ | first, s0⟩
    · rw [hg1] at hg
      simp only [Prod.mk.injEq] at hg
      obtain ⟨rfl, rfl⟩ := hg
      exact getRowSimple_js c s hinv _ _ hg1
    · rw [hg1] at hg
      simp only at hg
      have hj := getRowSimple_js c s hinv _ _ hg1
      simp only at hj
      obtain ⟨l, hl, hlen, i1, f1, nn, hj⟩ := hj
      have hagg : ∀ out err, (absJ s0 [] out err).agg = [] := fun _ _ => rfl
      by_cases hc : isComment c first = true
      · rw [if_pos hc] at hg
        simp only [Prod.mk.injEq] at hg
        obtain ⟨rfl, rfl⟩ := hg
        simp only
        refine ⟨hlen, i1, f1, ?_⟩
        intro out err
        rw [hl]
        simp only [jsRun]
        rw [hj, jsDispatch, if_pos hp, jsRfcLine_start _ _ _ (hagg out err), if_pos hc, if_pos hc]
      · rw [if_neg hc] at hg
        by_cases hq : countQuotes first % 2 = 0
        · rw [if_pos hq] at hg
          simp only [Prod.mk.injEq] at hg
          obtain ⟨rfl, rfl⟩ := hg
          simp only
          refine ⟨hlen, i1, f1, ?_⟩
          intro out err
          rw [hl]
          simp only [jsRun]
          rw [hj, jsDispatch, if_pos hp, jsRfcLine_start _ _ _ (hagg out err), if_neg hc,
            if_neg (by omega), if_neg hc]
          rfl
        · rw [if_neg hq] at hg
          obtain ⟨q1, q2, q3, ⟨extra, q4⟩, q5⟩ := rfcLoop_js c hp (remaining s0 + 1) s0 [first]
            (by simp) i1 (by rw [remaining_eq]; omega)
          simp only [Prod.mk.injEq] at hg
          obtain ⟨rfl, rfl⟩ := hg
          simp only
          have hodd : countQuotes first % 2 = 1 := by omega
          have hcf : isComment c first = false := by simpa using hc
          have hnc : isComment c (rfcLoop c (remaining s0 + 1) s0 [first]).1 = false := by
            rw [q4]
            simp only [List.reverse_singleton, List.singleton_append, joinLF_cons]
            split
            · exact hcf
            · exact isComment_joined c hok hp first _ nn hodd hcf
          refine ⟨by omega, q2, f1.trans q3, ?_⟩
          intro out err
          rw [hl]
          simp only [jsRun]
          rw [hj, jsDispatch, if_pos hp, jsRfcLine_start _ _ _ (hagg out err), if_neg hc,
            if_pos hodd, hnc]
          simp only [Bool.false_eq_true, if_false]
          exact q5 out err
  · rw [if_neg hp] at hg
    have hj := getRowSimple_js c s hinv _ _ hg
    cases r with
    | none => exact hj
    | some line =>
      simp only at hj ⊢
      obtain ⟨l, hl, hlen, i1, f1, nn, hj⟩ := hj
      refine ⟨hlen, i1, f1, ?_⟩
      intro out err
      rw [hl]
      simp only [jsRun]
      rw [hj, jsDispatch, if_neg hp]

/-! ### Skipping comments: `nextDataLine` -/

theorem nextDataLine_js (c : RCfg) (hok : CommentOK c) (fuel : Nat) (s : RState) (hinv : RInv c s)
    (hfuel : (pending s).length < fuel) (r : Option Str) (s1 : RState)
    (hg : nextDataLine c fuel s = (r, s1)) :
    match r with
    | none => pending s1 = [] ∧ RInv c s1 ∧ Frame s s1 ∧
        ∀ out err, clr (jsRun c (absJ s [] out err) (linesSpec (pending s))) = absJ s1 [] out err
    | some line => (pending s1).length < (pending s).length ∧ RInv c s1 ∧ Frame s s1 ∧
        ∀ out err, clr (jsRun c (absJ s [] out err) (linesSpec (pending s))) =
          clr (jsRun c (jsRecordLine c (absJ s1 [] out err) line) (linesSpec (pending s1))) := by
  induction fuel generalizing s with
  | zero => omega
  | succ fuel ih =>
    rw [nextDataLine] at hg
    rcases hg1 : getRow c s with ⟨_ | line, s0⟩
    · rw [hg1] at hg
      simp only [Prod.mk.injEq] at hg
      obtain ⟨rfl, rfl⟩ := hg
      have hj := getRow_js c hok s hinv _ _ hg1
      simp only at hj ⊢
      obtain ⟨p0, p1, i1, f1, n1, b1⟩ := hj
      refine ⟨p1, i1, f1, ?_⟩
      intro out err
      rw [p0, linesSpec_nil, absJ_frame f1 n1 b1, jsRun_nil_of_agg _ _ rfl]
      rfl
    · rw [hg1] at hg
      simp only at hg
      have hj := getRow_js c hok s hinv _ _ hg1
      simp only at hj
      obtain ⟨hlen, i1, f1, hj⟩ := hj
      by_cases hc : isComment c line = true
      · rw [if_pos hc] at hg
        have h2 := ih s0 i1 (by omega) hg
        cases r with
        | none =>
          simp only at h2 ⊢
          obtain ⟨a, b, d, e⟩ := h2
          refine ⟨a, b, f1.trans d, ?_⟩
          intro out err
          rw [hj, if_pos hc]
          exact e out err
        | some line' =>
          simp only at h2 ⊢
          obtain ⟨a, b, d, e⟩ := h2
          refine ⟨by omega, b, f1.trans d, ?_⟩
          intro out err
          rw [hj, if_pos hc]
          exact e out err
      · rw [if_neg hc] at hg
        simp only [Prod.mk.injEq] at hg
        obtain ⟨rfl, rfl⟩ := hg
        simp only
        refine ⟨hlen, i1, f1, ?_⟩
        intro out err
        rw [hj, if_neg hc]

/-! ### One record: `readRecord` -/

theorem clr_err (st : JState) : (clr st).err = st.err := rfl

theorem readRecord_js (c : RCfg) (hok : CommentOK c) (s : RState) (hinv : RInv c s)
    (res : Except ReadErr (Option (List Str) × RState)) :
    readRecord c s = res →
    match res with
    | .error e => ∀ out, (jsRun c (absJ s [] out none) (linesSpec (pending s))).err = some e
    | .ok (none, s1) => pending s1 = [] ∧ RInv c s1 ∧
        (s1.emitFirst = s.emitFirst ∧ s1.hasHeader = s.hasHeader) ∧
        ∀ out, clr (jsRun c (absJ s [] out none) (linesSpec (pending s))) = absJ s1 [] out none
    | .ok (some rec, s1) => (pending s1).length < (pending s).length ∧ RInv c s1 ∧
        (s1.emitFirst = s.emitFirst ∧ s1.hasHeader = s.hasHeader) ∧
        ∀ out, clr (jsRun c (absJ s [] out none) (linesSpec (pending s))) =
          clr (jsRun c (absJ s1 [] (rec :: out) none) (linesSpec (pending s1))) := by
  intro hr
  rw [readRecord_eq] at hr
  rcases hg : nextDataLine c (remaining s + 1) s with ⟨_ | line, s0⟩
  · rw [hg] at hr
    simp only at hr
    subst hr
    have hj := nextDataLine_js c hok _ s hinv (by rw [remaining_eq]; omega) _ _ hg
    simp only at hj ⊢
    obtain ⟨a, b, d, e⟩ := hj
    exact ⟨a, b, ⟨d.2.2.2.2.2, d.2.2.2.1⟩, fun out => e out none⟩
  · rw [hg] at hr
    simp only at hr
    have hj := nextDataLine_js c hok _ s hinv (by rw [remaining_eq]; omega) _ _ hg
    simp only at hj
    obtain ⟨hlen, i1, f1, hj⟩ := hj
    have hf := pyFinish_js c s0 line
    rw [hr] at hf
    match res, hf with
    | .error e, hf =>
      simp only at hf ⊢
      intro out
      have h1 := hf [] out
      have h2 := jsRun_err c _ (linesSpec (pending s0)) e h1
      rw [← clr_err, hj out none, clr_err]
      exact h2
    | .ok (r, s2), hf =>
      simp only at hf
      obtain ⟨rec, rfl, hpend, hinv2, hef, hrl⟩ := hf
      simp only
      refine ⟨by rw [hpend]; exact hlen, hinv2 i1, ⟨hef.1.trans f1.2.2.2.2.2, hef.2.trans f1.2.2.2.1⟩, ?_⟩
      intro out
      rw [hj, hrl, hpend]

/-! ### All records -/

theorem allRecords_js (c : RCfg) (hok : CommentOK c) (fuel : Nat) (s : RState)
    (acc : List (List Str)) (hinv : RInv c s) (hef : s.emitFirst = false)
    (hfuel : (pending s).length < fuel) :
    match allRecords c fuel s acc with
    | .error e => ∀ out, (jsRun c (absJ s [] out none) (linesSpec (pending s))).err = some e
    | .ok (recs, s') => ∃ new, recs = acc.reverse ++ new ∧
        ∀ out, clr (jsRun c (absJ s [] out none) (linesSpec (pending s))) =
          absJ s' [] (new.reverse ++ out) none := by
  induction fuel generalizing s acc with
  | zero => omega
  | succ fuel ih =>
    rw [allRecords, getRecord, hef]
    simp only [Bool.false_eq_true, if_false]
    rcases hr : readRecord c s with e | ⟨_ | rec, s1⟩
    · exact readRecord_js c hok s hinv _ hr
    · have hj := readRecord_js c hok s hinv _ hr
      simp only at hj ⊢
      exact ⟨[], by simp, fun out => by simpa using hj.2.2.2 out⟩
    · have hj := readRecord_js c hok s hinv _ hr
      simp only at hj ⊢
      obtain ⟨hlen, i1, e1, hj⟩ := hj
      have h2 := ih s1 (rec :: acc) i1 (e1.1.trans hef) (by omega)
      rcases hall : allRecords c fuel s1 (rec :: acc) with e | ⟨recs, s'⟩
      · rw [hall] at h2
        simp only at h2 ⊢
        intro out
        rw [← clr_err, hj out, clr_err]
        exact h2 (rec :: out)
      · rw [hall] at h2
        simp only at h2 ⊢
        obtain ⟨new, h3, h4⟩ := h2
        refine ⟨rec :: new, by rw [h3]; simp, ?_⟩
        intro out
        rw [hj, h4]
        simp

/-! ### Header, modifier, warnings -/

/-- `jsResult` with the effective header flag -/
def jsResultH (st : JState) (hdr : Bool) : Except ReadErr ReadResult :=
  match st.err with
  | some e => .error e
  | none =>
    .ok { header := if hdr then st.out.reverse.head? else none,
          records := if hdr then st.out.reverse.drop 1 else st.out.reverse,
          warnings := jsWarnings st }

theorem jsResult_eq (st : JState) (hh : Bool) (m : Option Bool) :
    jsResult st hh m = jsResultH (clr st) (match m with | some b => b | none => hh) := rfl

theorem canonWarnings_agree (s : RState) (out : List (List Str)) :
    canonWarnings (jsWarnings (absJ s [] out none)) = canonWarnings (readerWarnings s) := by
  obtain ⟨_, _, _, _, _, b, d, f, _, _, _⟩ := s
  simp only [jsWarnings, readerWarnings, absJ]
  cases b <;> cases d <;> rcases f with _ | ⟨⟨a1, a2⟩, _ | ⟨⟨a3, a4⟩, _⟩⟩ <;> simp [canonWarnings]

theorem canon_ok (s2 : RState) (out : List (List Str)) (hdr : Bool) (h : Option (List Str))
    (recs : List (List Str)) (hh : (if hdr then out.reverse.head? else none) = h)
    (hr : (if hdr then out.reverse.drop 1 else out.reverse) = recs) :
    canonResult (.ok { header := h, records := recs, warnings := readerWarnings s2 }) =
      canonResult (jsResultH (absJ s2 [] out none) hdr) := by
  subst hh hr
  simp only [canonResult, jsResultH, absJ, Except.map]
  have := canonWarnings_agree s2 out
  simp only [absJ] at this
  rw [this]

theorem canon_err (J : JState) (hdr : Bool) (e : ReadErr) (h : J.err = some e) :
    jsResultH (clr J) hdr = .error e := by
  simp [jsResultH, clr, h]

theorem handleModifier_facts (m : Option Bool) (hh : Bool) (s : RState) (hs : s.hasHeader = hh)
    (fr : Option (List Str)) :
    (handleModifier m { s with firstRecord := fr, emitFirst := !hh }).hasHeader =
        (match m with | some b => b | none => hh) ∧
    (handleModifier m { s with firstRecord := fr, emitFirst := !hh }).emitFirst =
        !(match m with | some b => b | none => hh) ∧
    (handleModifier m { s with firstRecord := fr, emitFirst := !hh }).firstRecord = fr ∧
    pending (handleModifier m { s with firstRecord := fr, emitFirst := !hh }) = pending s ∧
    (∀ c, RInv c s → RInv c (handleModifier m { s with firstRecord := fr, emitFirst := !hh })) ∧
    ∀ agg out err, absJ (handleModifier m { s with firstRecord := fr, emitFirst := !hh }) agg out err =
      absJ s agg out err := by
  match m with
  | none => exact ⟨hs, rfl, rfl, rfl, fun c h => ⟨h.1, h.2, h.3⟩, fun _ _ _ => rfl⟩
  | some true => exact ⟨rfl, rfl, rfl, rfl, fun c h => ⟨h.1, h.2, h.3⟩, fun _ _ _ => rfl⟩
  | some false => exact ⟨rfl, rfl, rfl, rfl, fun c h => ⟨h.1, h.2, h.3⟩, fun _ _ _ => rfl⟩

/-- the run after the first record has been pre-read -/
theorem tail_agree (c : RCfg) (hok : CommentOK c) (s : RState) (hinv : RInv c s) (hdr : Bool)
    (fr : Option (List Str)) (h1 : s.hasHeader = hdr) (h2 : s.emitFirst = !hdr)
    (h3 : s.firstRecord = fr) (hfr : fr = none → pending s = []) (J : JState)
    (hJ : clr J = clr (jsRun c (absJ s [] fr.toList none) (linesSpec (pending s)))) :
    canonResult
      (match allRecords c (remaining s + 2) s [] with
       | .error e => .error e
       | .ok (recs, s2) =>
         .ok { header := getHeader s, records := recs, warnings := readerWarnings s2 }) =
      canonResult (jsResultH (clr J) hdr) := by
  cases hdr with
  | true =>
    simp only [Bool.not_true] at h2
    have hj := allRecords_js c hok (remaining s + 2) s [] hinv h2 (by rw [remaining_eq]; omega)
    rcases hall : allRecords c (remaining s + 2) s [] with e | ⟨recs, s2⟩
    · rw [hall] at hj
      simp only at hj ⊢
      have : J.err = some e := by
        rw [← clr_err, hJ, clr_err]
        exact hj _
      rw [canon_err J _ e this]
    · rw [hall] at hj
      simp only at hj ⊢
      obtain ⟨new, hnew, h4⟩ := hj
      simp only [List.reverse_nil, List.nil_append] at hnew
      subst hnew
      rw [hJ, h4]
      apply canon_ok
      · simp only [getHeader, h1, if_true, h3]
        cases fr with
        | none =>
          have hp := hfr rfl
          have h5 := h4 []
          rw [hp, linesSpec_nil, jsRun_nil_of_agg _ _ rfl] at h5
          simp only [clr, absJ, JState.mk.injEq, List.append_nil] at h5
          have : recs = [] := by
            have := h5.2.2.2.2.2.2.1
            simpa using this.symm
          subst this
          rfl
        | some r => simp
      · cases fr with
        | none =>
          have hp := hfr rfl
          have h5 := h4 []
          rw [hp, linesSpec_nil, jsRun_nil_of_agg _ _ rfl] at h5
          simp only [clr, absJ, JState.mk.injEq, List.append_nil] at h5
          have : recs = [] := by
            have := h5.2.2.2.2.2.2.1
            simpa using this.symm
          subst this
          rfl
        | some r => simp
  | false =>
    simp only [Bool.not_false] at h2
    rw [allRecords, getRecord, h2, h3]
    simp only [if_true]
    cases fr with
    | none =>
      simp only
      have hp := hfr rfl
      rw [hp, linesSpec_nil, jsRun_nil_of_agg _ _ rfl] at hJ
      rw [hJ]
      change _ = canonResult (jsResultH (absJ { s with emitFirst := false } [] [] none) false)
      apply canon_ok
      · simp [getHeader, h1]
      · simp
    | some r =>
      simp only
      have hj := allRecords_js c hok (remaining s + 1) { s with emitFirst := false } [r]
        ⟨hinv.1, hinv.2, hinv.3⟩ rfl (by rw [remaining_eq]; exact Nat.lt_succ_self _)
      rcases hall : allRecords c (remaining s + 1) { s with emitFirst := false } [r] with
        e | ⟨recs, s2⟩
      · rw [hall] at hj
        rw [h3] at hall
        rw [hall]
        simp only at hj ⊢
        have : J.err = some e := by
          rw [← clr_err, hJ, clr_err]
          exact hj _
        rw [canon_err J _ e this]
      · rw [hall] at hj
        rw [h3] at hall
        rw [hall]
        simp only at hj ⊢
        obtain ⟨new, hnew, h4⟩ := hj
        subst hnew
        rw [hJ]
        have h5 := h4 [r]
        change clr (jsRun c (absJ s [] [r] none) (linesSpec (pending s))) = _ at h5
        simp only [Option.toList]
        rw [h5]
        apply canon_ok
        · simp [getHeader, h1]
        · simp

/-! ### The theorems -/

/-- Python reader and JS reader deliver the same header, records, warnings (up to order) or the
same error from the same text, provided the comment prefix is acceptable (`CommentOK`, which only
constrains the `quotedRfc` policy; see the counterexample in the file header). -/
theorem readers_agree (c : RCfg) (hc : 1 ≤ c.chunk) (hok : CommentOK c) (hasHeader : Bool)
    (modifier : Option Bool) (text : Str) :
    canonResult (readAll c hasHeader modifier (if text = [] then [] else [text])) =
      canonResult (jsResult (jsBulk c text) hasHeader modifier) := by
  generalize hst : (if text = [] then [] else [text] : Stream) = st
  have hflat : st.flatten = text := by
    subst hst; split <;> simp_all
  have hne : ∀ p ∈ st, p ≠ [] := by
    subst hst; split <;> simp_all
  let s0 : RState := { stream := st, hasHeader := hasHeader }
  have hinv0 : RInv c s0 := ⟨hc, hne, by simp [s0]⟩
  have hp0 : pending s0 = text := by simp [pending, s0, hflat]
  have hjs : jsBulk c text = jsRun c (absJ s0 [] [] none) (linesSpec (pending s0)) := by
    rw [hp0, jsRun_eq, jsBulk, jsBulkLines_eq_linesSpec]
    rfl
  rw [jsResult_eq, hjs]
  have hj := readRecord_js c hok s0 hinv0 _ rfl
  rcases hr : readRecord c s0 with e | ⟨fr, s1⟩
  · rw [hr] at hj
    simp only at hj
    have hpy : readAll c hasHeader modifier st = .error e := by
      simp [readAll, initReader, getRecord, s0, hr, bind, Except.bind] 
    rw [hpy, canon_err _ _ e (hj _)]
  · rw [hr] at hj
    obtain ⟨f1, f2, f3, f4, f5, f6⟩ := handleModifier_facts modifier hasHeader s1
      (by cases fr <;> exact hj.2.2.1.2) fr
    have hpy : readAll c hasHeader modifier st =
        (match allRecords c (remaining (handleModifier modifier
            { s1 with firstRecord := fr, emitFirst := !hasHeader }) + 2)
            (handleModifier modifier { s1 with firstRecord := fr, emitFirst := !hasHeader }) [] with
         | .error e => .error e
         | .ok (recs, s2) =>
           .ok { header := getHeader (handleModifier modifier
                    { s1 with firstRecord := fr, emitFirst := !hasHeader }),
                 records := recs, warnings := readerWarnings s2 }) := by
      simp only [readAll, initReader, getRecord, s0, hr, bind, Except.bind, pure, Except.pure,
        Bool.false_eq_true, if_false]
      split <;> simp_all
    rw [hpy]
    apply tail_agree c hok _ (f5 c (by cases fr <;> exact hj.2.1)) _ fr f1 f2 f3
    · intro hnone
      subst hnone
      rw [f4]
      exact hj.1
    · rw [f4, f6]
      cases fr with
      | none =>
        simp only at hj
        rw [hj.2.2.2, hj.1, linesSpec_nil, jsRun_nil_of_agg _ _ rfl]
        rfl
      | some r =>
        simp only at hj
        rw [hj.2.2.2]
        rfl

/-- No side condition is needed for the policies without multi-line records. -/
theorem readers_agree_simple (c : RCfg) (hc : 1 ≤ c.chunk) (hp : c.policy ≠ .quotedRfc)
    (hasHeader : Bool) (modifier : Option Bool) (text : Str) :
    canonResult (readAll c hasHeader modifier (if text = [] then [] else [text])) =
      canonResult (jsResult (jsBulk c text) hasHeader modifier) :=
  readers_agree c hc (fun h => absurd h hp) hasHeader modifier text

/-- A comment prefix without LF is acceptable. -/
theorem CommentOK_of_noLF (c : RCfg) (h : ∀ p, c.comment = some p → LF ∉ p) : CommentOK c := by
  intro _ p a b hcm hpab _
  exact absurd (by rw [hpab]; simp) (h p hcm)

end Rbql
