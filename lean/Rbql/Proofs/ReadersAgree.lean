/-
  The Python reader (pull machine over a chunked stream) and the JavaScript reader (push machine,
  fold over the physical lines) deliver the same thing from the same text: same header, same
  records, same warnings up to order, or the same error.

  Method: a direct simulation.  A Python state `s` is abstracted to the JS state `absJ s agg out err`
  that carries the same counters; every Python step that pops lines off the pending text
  (`getRowSimple`, `rfcLoop`, `getRowRfc`, `nextDataLine`, `readRecord`, `allRecords`) is matched
  with the JS run `jsRun` over exactly those lines (`linesSpec (pending s)`).

  The statement is FALSE without a side condition under the `quotedRfc` policy: Python tests the
  *joined* multi-line record against the comment prefix (in `nextDataLine`), JS only the first
  physical line.  With a comment prefix that contains LF (`"⏎`, text `"⏎foo"⏎bar⏎`) Python drops the
  record `"⏎foo"` as a comment and JS delivers it.  `CommentOK` excludes exactly those prefixes.
-/
import Rbql.Proofs.ReaderPyRecords
import Rbql.Proofs.ReaderJsLines
namespace Rbql

/-! ### Statement-level definitions -/

/-- canonical order of the warnings: BOM, defective line, field counts (Python's order) -/
def canonWarnings (ws : List ReadWarn) : List ReadWarn :=
  ws.filter (fun w => match w with | .bom => true | _ => false) ++
  ws.filter (fun w => match w with | .defective _ => true | _ => false) ++
  ws.filter (fun w => match w with | .fields .. => true | _ => false)

def canonResult (r : Except ReadErr ReadResult) : Except ReadErr ReadResult :=
  r.map (fun x => { x with warnings := canonWarnings x.warnings })

/-- Side condition for the `quotedRfc` policy: the comment prefix is not of the form
`a ++ LF :: b` with `a` a single physical line with an odd number of quotes.  (Any prefix without
LF qualifies.)  Vacuous for the other policies. -/
def CommentOK (c : RCfg) : Prop :=
  c.policy = .quotedRfc → ∀ p a b, c.comment = some p → p = a ++ LF :: b → NoNL a →
    countQuotes a % 2 = 0

/-! ### The JS run over a list of lines -/

/-- JS state carrying the counters of a Python state -/
def absJ (s : RState) (agg : List Str) (out : List (List Str)) (err : Option ReadErr) : JState :=
  { nl := s.nl, nr := s.nr, bom := s.bom, firstDefective := s.firstDefective,
    fieldsInfo := s.fieldsInfo, agg := agg, out := out, err := err }

/-- forget the aggregation buffer (not observable in `jsResult`) -/
def clr (st : JState) : JState := { st with agg := [] }

/-- `process_line` on every line, then the final flush -/
def jsRun (c : RCfg) (st : JState) : List Str → JState
  | [] => jsFlush c st
  | l :: ls => jsRun c (jsProcessLine c st l) ls

theorem jsRun_eq (c : RCfg) (st : JState) (ls : List Str) :
    jsRun c st ls = jsFlush c (ls.foldl (jsProcessLine c) st) := by
  induction ls generalizing st with
  | nil => rfl
  | cons l ls ih => simp [jsRun, ih]

/-- the part of `process_line` after the line counter and the BOM -/
def jsDispatch (c : RCfg) (st : JState) (line : Str) : JState :=
  if c.policy = .quotedRfc then jsRfcLine c st line
  else if isComment c line then st
  else jsRecordLine c st line

/-! ### `nextLine` and `linesSpec` -/

theorem nextLine_none_nil (p : Str) (h : nextLine p = none) : p = [] := by
  unfold nextLine at h
  split at h
  · simp at h
  · split at h
    · assumption
    · simp at h

theorem nextLine_some_lines (p row rest : Str) (h : nextLine p = some (row, rest)) :
    linesSpec p = row :: linesSpec rest ∧ rest.length < p.length ∧ NoNL row := by
  unfold nextLine at h
  split at h
  · rename_i b sep a he
    simp only [Option.some.injEq, Prod.mk.injEq] at h
    obtain ⟨rfl, rfl⟩ := h
    have h1 := linesSpec_extract p b sep a [] he (by simp)
    simp only [List.append_nil] at h1
    obtain ⟨h2, h3, h4⟩ := extractLine_some _ _ _ _ he
    refine ⟨h1, ?_, h3⟩
    subst h2
    rcases h4 with rfl | rfl | ⟨rfl, _⟩ <;> simp <;> omega
  · rename_i he
    split at h
    · simp at h
    · rename_i hne
      simp only [Option.some.injEq, Prod.mk.injEq] at h
      obtain ⟨rfl, rfl⟩ := h
      have hn := extractLine_none _ he
      refine ⟨by rw [linesSpec_noNL _ hn hne, linesSpec_nil], ?_, hn⟩
      exact List.length_pos_iff.mpr hne

theorem NoNL_removeBom (e : Enc) (row : Str) (h : NoNL row) : NoNL (removeBom e row) := by
  unfold removeBom
  split
  · split
    · simp only [NoNL_cons] at h; exact h.2.2.2
    · exact h
  · split
    · simp only [NoNL_cons] at h; exact h.2
    · exact h
  · exact h

/-! ### One physical line: `getRowSimple` against `jsProcessLine` -/

theorem absJ_frame {s s1 : RState} (hf : Frame s s1) (hnl : s1.nl = s.nl) (hb : s1.bom = s.bom)
    (agg : List Str) (out : List (List Str)) (err : Option ReadErr) :
    absJ s1 agg out err = absJ s agg out err := by
  obtain ⟨a1, a2, a3, _, _, _⟩ := hf
  simp [absJ, a1, a2, a3, hnl, hb]

theorem getRowSimple_js (c : RCfg) (s : RState) (h : RInv c s) (r : Option Str) (s1 : RState)
    (hg : getRowSimple c s = (r, s1)) :
    match r with
    | none => pending s = [] ∧ pending s1 = [] ∧ RInv c s1 ∧ Frame s s1 ∧ s1.nl = s.nl ∧
        s1.bom = s.bom
    | some row => ∃ l, linesSpec (pending s) = l :: linesSpec (pending s1) ∧
        (pending s1).length < (pending s).length ∧ RInv c s1 ∧ Frame s s1 ∧ NoNL row ∧
        ∀ agg out err, jsProcessLine c (absJ s agg out err) l = jsDispatch c (absJ s1 agg out err) row := by
  obtain ⟨i, f, o⟩ := getRowSimple_spec c s h
  rw [hg] at i f o
  simp only [stepObs, specStep] at o
  rcases hn : nextLine (pending s) with _ | ⟨l, rest⟩
  · rw [hn] at o
    simp only [Prod.mk.injEq] at o
    obtain ⟨rfl, o2, o3, o4⟩ := o
    exact ⟨nextLine_none_nil _ hn, o2, i, f, o3, o4⟩
  · rw [hn] at o
    simp only at o
    obtain ⟨l1, l2, l3⟩ := nextLine_some_lines _ _ _ hn
    obtain ⟨a1, a2, a3, _, _, _⟩ := f
    by_cases h0 : s.nl = 0
    · rw [if_pos h0] at o
      simp only [Prod.mk.injEq] at o
      obtain ⟨rfl, o2, o3, o4⟩ := o
      simp only
      refine ⟨l, by rw [o2]; exact l1, by rw [o2]; exact l2, i, f, NoNL_removeBom _ _ l3, ?_⟩
      intro agg out err
      by_cases hc : removeBom c.enc l = l
      · simp [jsProcessLine, absJ, h0, hc, a1, a2, a3, o3, o4]
      · simp [jsProcessLine, absJ, h0, hc, a1, a2, a3, o3, o4]
    · rw [if_neg h0] at o
      simp only [Prod.mk.injEq] at o
      obtain ⟨rfl, o2, o3, o4⟩ := o
      simp only
      refine ⟨l, by rw [o2]; exact l1, by rw [o2]; exact l2, i, f, l3, ?_⟩
      intro agg out err
      simp [jsProcessLine, absJ, h0, a1, a2, a3, o3, o4, jsDispatch]

end Rbql
