/-
  C03: every operational accumulator of the engine model (`AggCol.increment` / `Acc.final`) computes the
  MATHEMATICAL aggregate of its group's argument values, taken in input order.

  Setting: a fresh column `{ kind := some k }` (or `{ kind := none }` for the constant-column verifier) is
  fed the (group key, argument value) pairs `kvs` by `foldIncr`.  All statements are about the value
  `(lookupAcc c.stats key).map Acc.final` that `finishAll` writes for `key`.

  Method: one generic invariant lemma for `foldIncr` (`foldIncr_inv`), the finite-map law
  `lookupAcc_setAcc`, and per aggregate a "summary" function describing the accumulator stored for a key
  as a function of the values seen so far for that key.  Only core Lean is used (`grind` does the
  rational arithmetic, including the VARIANCE identity).
-/
import Rbql.Spec.EngineSpec
namespace Rbql

/-! ### the per-key finite map -/

theorem lookupAcc_nil (key : List Val) : lookupAcc [] key = none := rfl

theorem lookupAcc_cons (k : List Val) (a : Acc) (rest : List (List Val × Acc)) (key : List Val) :
    lookupAcc ((k, a) :: rest) key = if k = key then some a else lookupAcc rest key := by
  unfold lookupAcc
  by_cases h : k = key <;> simp [List.find?, h]

/-- `setAcc` replaces in place or appends: `stats` behaves as a finite map -/
theorem lookupAcc_setAcc (stats : List (List Val × Acc)) (k : List Val) (a : Acc) (key : List Val) :
    lookupAcc (setAcc stats k a) key = if k = key then some a else lookupAcc stats key := by
  induction stats with
  | nil => simp [setAcc, lookupAcc_cons, lookupAcc_nil]
  | cons e rest ih =>
    obtain ⟨k', a'⟩ := e
    by_cases h : k' = k
    · subst h; simp only [setAcc, if_true, lookupAcc_cons]
    · simp only [setAcc, h, if_false, lookupAcc_cons, ih]
      by_cases h1 : k' = key <;> by_cases h2 : k = key <;> simp_all

/-! ### the values of one group -/

theorem groupVals_nil (key : List Val) : groupVals [] key = [] := rfl

theorem groupVals_append (xs ys : List (List Val × Val)) (key : List Val) :
    groupVals (xs ++ ys) key = groupVals xs key ++ groupVals ys key := by
  simp [groupVals]

theorem groupVals_snoc (seen : List (List Val × Val)) (k : List Val) (v : Val) (key : List Val) :
    groupVals (seen ++ [(k, v)]) key = if k = key then groupVals seen key ++ [v] else groupVals seen key := by
  by_cases h : k = key <;> simp [groupVals, List.filter_cons, h]

theorem mem_groupVals {kvs : List (List Val × Val)} {key : List Val} {v : Val} :
    v ∈ groupVals kvs key ↔ (key, v) ∈ kvs := by
  simp only [groupVals, List.mem_map, List.mem_filter, decide_eq_true_eq]
  constructor
  · rintro ⟨⟨k, w⟩, ⟨hm, hk⟩, hv⟩
    simp only at hk hv; subst hk; subst hv; exact hm
  · intro h; exact ⟨(key, v), ⟨h, rfl⟩, rfl⟩

/-! ### generic invariant lemma for `foldIncr` -/

/-- If every admissible step succeeds and preserves `P` (a relation between the column state and the
pairs seen so far), the whole fold succeeds and `P` holds at the end. -/
theorem foldIncr_inv {P : AggCol → List (List Val × Val) → Prop} {Q : List Val × Val → Prop}
    (step : ∀ c seen k v, P c seen → Q (k, v) →
      ∃ c', c.increment k v = .ok c' ∧ P c' (seen ++ [(k, v)])) :
    ∀ (kvs : List (List Val × Val)) (c : AggCol) (seen : List (List Val × Val)),
      P c seen → (∀ p ∈ kvs, Q p) → ∃ c', foldIncr c kvs = .ok c' ∧ P c' (seen ++ kvs) := by
  intro kvs
  induction kvs with
  | nil => intro c seen hP _; exact ⟨c, rfl, by simpa using hP⟩
  | cons p rest ih =>
    intro c seen hP hQ
    obtain ⟨k, v⟩ := p
    obtain ⟨c1, h1, hP1⟩ := step c seen k v hP (hQ _ (List.mem_cons_self))
    obtain ⟨c2, h2, hP2⟩ := ih c1 (seen ++ [(k, v)]) hP1 (fun p hp => hQ p (List.mem_cons_of_mem _ hp))
    refine ⟨c2, ?_, by simpa using hP2⟩
    simp only [foldIncr, h1, bind, Except.bind]
    exact h2

/-- the form used below: start from the fresh column with nothing seen -/
theorem foldIncr_inv0 {P : AggCol → List (List Val × Val) → Prop} {Q : List Val × Val → Prop}
    (step : ∀ c seen k v, P c seen → Q (k, v) →
      ∃ c', c.increment k v = .ok c' ∧ P c' (seen ++ [(k, v)]))
    (c0 : AggCol) (h0 : P c0 []) (kvs : List (List Val × Val)) (hQ : ∀ p ∈ kvs, Q p) :
    ∃ c', foldIncr c0 kvs = .ok c' ∧ P c' kvs := by
  simpa using foldIncr_inv step kvs c0 [] h0 hQ

/-! ### COUNT -/

def cntSumm (vs : List Val) : Option Acc := if vs = [] then none else some (.cnt vs.length)

def CntInv (c : AggCol) (seen : List (List Val × Val)) : Prop :=
  c.kind = some .count ∧ ∀ key, lookupAcc c.stats key = cntSumm (groupVals seen key)

theorem cnt_step (c : AggCol) (seen : List (List Val × Val)) (k : List Val) (v : Val)
    (h : CntInv c seen) (_ : True) :
    ∃ c', c.increment k v = .ok c' ∧ CntInv c' (seen ++ [(k, v)]) := by
  obtain ⟨hk, hs⟩ := h
  refine ⟨{ c with stats := setAcc c.stats k (.cnt ((groupVals seen k).length + 1)) }, ?_, hk, ?_⟩
  · simp only [AggCol.increment, hk, hs k, cntSumm]
    by_cases he : groupVals seen k = [] <;> simp [he]
  · intro key
    simp only [lookupAcc_setAcc, groupVals_snoc]
    by_cases hkk : k = key
    · subst hkk; simp [cntSumm]
    · simp [hkk, hs key]

/-- the full description of a COUNT column after the fold: it always succeeds, and every key maps to
the number of its occurrences (no entry for keys that do not occur) -/
theorem agg_count_total (kvs : List (List Val × Val)) :
    ∃ c, foldIncr { kind := some .count } kvs = .ok c ∧
      ∀ key, lookupAcc c.stats key = cntSumm (groupVals kvs key) := by
  obtain ⟨c, hc, hI⟩ := foldIncr_inv0 (Q := fun _ => True) cnt_step { kind := some .count }
    ⟨rfl, fun key => by simp [lookupAcc_nil, groupVals_nil, cntSumm]⟩ kvs (fun _ _ => trivial)
  exact ⟨c, hc, hI.2⟩

theorem agg_count (kvs : List (List Val × Val)) (c : AggCol)
    (h : foldIncr { kind := some .count } kvs = .ok c) (key : List Val) (hk : groupVals kvs key ≠ []) :
    (lookupAcc c.stats key).map Acc.final = some (Val.nat (groupVals kvs key).length) := by
  obtain ⟨c', hc', hI⟩ := agg_count_total kvs
  rw [h] at hc'; cases hc'
  simp [hI key, cntSumm, hk, Acc.final]

end Rbql
