/-
  C03: every operational accumulator of the engine model (`AggCol.increment` / `Acc.final`) computes the
  MATHEMATICAL aggregate of its group's argument values, taken in input order.

  Setting: a fresh column `{ kind := some k }` (or `{ kind := none }` for the constant-column verifier) is
  fed the (group key, argument value) pairs `kvs` by `foldIncr`.  All statements are about the value
  `(lookupAcc c.stats key).map Acc.final` that `finishAll` writes for `key`.

  Method: one generic invariant lemma for `foldIncr` (`foldIncr_inv`), the finite-map law
  `lookupAcc_setAcc`, and per aggregate a "summary" function describing the accumulator stored for a key
  as a function of the values seen so far for that key.  Only core Lean is used (`grind` does the
  rational arithmetic, including the VARIANCE identity).
-/
import Rbql.Spec.EngineSpec
namespace Rbql

/-! ### the per-key finite map -/

theorem lookupAcc_nil (key : List Val) : lookupAcc [] key = none := rfl

theorem lookupAcc_cons (k : List Val) (a : Acc) (rest : List (List Val × Acc)) (key : List Val) :
    lookupAcc ((k, a) :: rest) key = if k = key then some a else lookupAcc rest key := by
  unfold lookupAcc
  by_cases h : k = key <;> simp [List.find?, h]

/-- `setAcc` replaces in place or appends: `stats` behaves as a finite map -/
theorem lookupAcc_setAcc (stats : List (List Val × Acc)) (k : List Val) (a : Acc) (key : List Val) :
    lookupAcc (setAcc stats k a) key = if k = key then some a else lookupAcc stats key := by
  induction stats with
  | nil => simp [setAcc, lookupAcc_cons, lookupAcc_nil]
  | cons e rest ih =>
    obtain ⟨k', a'⟩ := e
    by_cases h : k' = k
    · subst h; simp only [setAcc, if_true, lookupAcc_cons]; split <;> rfl
    · simp only [setAcc, h, if_false, lookupAcc_cons, ih]
      by_cases h1 : k' = key <;> by_cases h2 : k = key <;> simp_all

/-! ### the values of one group -/

theorem groupVals_nil (key : List Val) : groupVals [] key = [] := rfl

theorem groupVals_append (xs ys : List (List Val × Val)) (key : List Val) :
    groupVals (xs ++ ys) key = groupVals xs key ++ groupVals ys key := by
  simp [groupVals]

theorem groupVals_snoc (seen : List (List Val × Val)) (k : List Val) (v : Val) (key : List Val) :
    groupVals (seen ++ [(k, v)]) key = if k = key then groupVals seen key ++ [v] else groupVals seen key := by
  by_cases h : k = key <;> simp [groupVals, h]

theorem mem_groupVals {kvs : List (List Val × Val)} {key : List Val} {v : Val} :
    v ∈ groupVals kvs key ↔ (key, v) ∈ kvs := by
  simp only [groupVals, List.mem_map, List.mem_filter, decide_eq_true_eq]
  constructor
  · rintro ⟨⟨k, w⟩, ⟨hm, hk⟩, hv⟩
    simp only at hk hv; subst hk; subst hv; exact hm
  · intro h; exact ⟨(key, v), ⟨h, rfl⟩, rfl⟩

/-! ### generic invariant lemma for `foldIncr` -/

/-- If every admissible step succeeds and preserves `P` (a relation between the column state and the
pairs seen so far), the whole fold succeeds and `P` holds at the end. -/
theorem foldIncr_inv {P : AggCol → List (List Val × Val) → Prop} {Q : List Val × Val → Prop}
    (step : ∀ c seen k v, P c seen → Q (k, v) →
      ∃ c', c.increment k v = .ok c' ∧ P c' (seen ++ [(k, v)])) :
    ∀ (kvs : List (List Val × Val)) (c : AggCol) (seen : List (List Val × Val)),
      P c seen → (∀ p ∈ kvs, Q p) → ∃ c', foldIncr c kvs = .ok c' ∧ P c' (seen ++ kvs) := by
  intro kvs
  induction kvs with
  | nil => intro c seen hP _; exact ⟨c, rfl, by simpa using hP⟩
  | cons p rest ih =>
    intro c seen hP hQ
    obtain ⟨k, v⟩ := p
    obtain ⟨c1, h1, hP1⟩ := step c seen k v hP (hQ _ (List.mem_cons_self))
    obtain ⟨c2, h2, hP2⟩ := ih c1 (seen ++ [(k, v)]) hP1 (fun p hp => hQ p (List.mem_cons_of_mem _ hp))
    refine ⟨c2, ?_, by simpa using hP2⟩
    simp only [foldIncr, h1, bind, Except.bind]
    exact h2

/-- the form used below: start from the fresh column with nothing seen -/
theorem foldIncr_inv0 {P : AggCol → List (List Val × Val) → Prop} {Q : List Val × Val → Prop}
    (step : ∀ c seen k v, P c seen → Q (k, v) →
      ∃ c', c.increment k v = .ok c' ∧ P c' (seen ++ [(k, v)]))
    (c0 : AggCol) (h0 : P c0 []) (kvs : List (List Val × Val)) (hQ : ∀ p ∈ kvs, Q p) :
    ∃ c', foldIncr c0 kvs = .ok c' ∧ P c' kvs := by
  simpa using foldIncr_inv step kvs c0 [] h0 hQ

/-! ### COUNT -/

def cntSumm (vs : List Val) : Option Acc := if vs = [] then none else some (.cnt vs.length)

def CntInv (c : AggCol) (seen : List (List Val × Val)) : Prop :=
  c.kind = some .count ∧ ∀ key, lookupAcc c.stats key = cntSumm (groupVals seen key)

theorem cnt_step (c : AggCol) (seen : List (List Val × Val)) (k : List Val) (v : Val)
    (h : CntInv c seen) (_ : True) :
    ∃ c', c.increment k v = .ok c' ∧ CntInv c' (seen ++ [(k, v)]) := by
  obtain ⟨hk, hs⟩ := h
  refine ⟨{ c with stats := setAcc c.stats k (.cnt ((groupVals seen k).length + 1)) }, ?_, hk, ?_⟩
  · simp only [AggCol.increment, hk, hs k, cntSumm]
    by_cases he : groupVals seen k = [] <;> simp [he]
  · intro key
    simp only [lookupAcc_setAcc, groupVals_snoc]
    by_cases hkk : k = key
    · subst hkk; simp [cntSumm]
    · simp [hkk, hs key]

/-- the full description of a COUNT column after the fold: it always succeeds, and every key maps to
the number of its occurrences (no entry for keys that do not occur) -/
theorem agg_count_total (kvs : List (List Val × Val)) :
    ∃ c, foldIncr { kind := some .count } kvs = .ok c ∧
      ∀ key, lookupAcc c.stats key = cntSumm (groupVals kvs key) := by
  obtain ⟨c, hc, hI⟩ := foldIncr_inv0 (Q := fun _ => True) cnt_step { kind := some .count }
    ⟨rfl, fun key => by simp [lookupAcc_nil, groupVals_nil, cntSumm]⟩ kvs (fun _ _ => trivial)
  exact ⟨c, hc, hI.2⟩

theorem agg_count (kvs : List (List Val × Val)) (c : AggCol)
    (h : foldIncr { kind := some .count } kvs = .ok c) (key : List Val) (hk : groupVals kvs key ≠ []) :
    (lookupAcc c.stats key).map Acc.final = some (Val.nat (groupVals kvs key).length) := by
  obtain ⟨c', hc', hI⟩ := agg_count_total kvs
  rw [h] at hc'; cases hc'
  simp [hI key, cntSumm, hk, Acc.final]

/-! ### facts about the mathematical aggregates on `List Rat` -/

theorem ratSum_nil : ratSum [] = 0 := rfl

theorem ratSum_snoc (xs : List Rat) (x : Rat) : ratSum (xs ++ [x]) = ratSum xs + x := by
  simp [ratSum, List.foldl_append]

theorem ratSum_single (x : Rat) : ratSum [x] = x := by
  simp only [ratSum, List.foldl_cons, List.foldl_nil]; grind

theorem foldl_add_eq (xs : List Rat) (a : Rat) : xs.foldl (· + ·) a = a + ratSum xs := by
  induction xs generalizing a with
  | nil => simp only [ratSum, List.foldl_nil]; grind
  | cons x xs ih =>
    simp only [ratSum, List.foldl_cons]
    rw [ih (a + x), ih (0 + x)]
    grind

theorem ratSum_cons (x : Rat) (xs : List Rat) : ratSum (x :: xs) = x + ratSum xs := by
  simp only [ratSum, List.foldl_cons]
  rw [foldl_add_eq xs (0 + x)]
  simp only [ratSum]; grind

theorem ratMin_single (x : Rat) : ratMin [x] = x := rfl
theorem ratMax_single (x : Rat) : ratMax [x] = x := rfl

theorem ratMin_snoc (xs : List Rat) (q : Rat) (h : xs ≠ []) :
    ratMin (xs ++ [q]) = if q < ratMin xs then q else ratMin xs := by
  cases xs with
  | nil => exact absurd rfl h
  | cons x t => simp only [ratMin, List.cons_append, List.foldl_append, List.foldl_cons, List.foldl_nil]; rfl

theorem ratMax_snoc (xs : List Rat) (q : Rat) (h : xs ≠ []) :
    ratMax (xs ++ [q]) = if ratMax xs < q then q else ratMax xs := by
  cases xs with
  | nil => exact absurd rfl h
  | cons x t => simp only [ratMax, List.cons_append, List.foldl_append, List.foldl_cons, List.foldl_nil]; rfl

theorem foldl_min_spec (xs : List Rat) (a : Rat) :
    let m := xs.foldl (fun m y => if y < m then y else m) a
    m ∈ a :: xs ∧ ∀ x ∈ a :: xs, m ≤ x := by
  induction xs generalizing a with
  | nil => simp
  | cons y t ih =>
    simp only [List.foldl_cons]
    obtain ⟨hm, hle⟩ := ih (if y < a then y else a)
    constructor
    · rcases List.mem_cons.1 hm with h | h
      · rw [h]; split <;> simp
      · simp [h]
    · intro x hx
      have h0 := hle _ List.mem_cons_self
      rcases List.mem_cons.1 hx with h | h
      · subst h; split at h0 <;> grind
      · rcases List.mem_cons.1 h with h | h
        · subst h; split at h0 <;> grind
        · exact hle x (List.mem_cons_of_mem _ h)

theorem foldl_max_spec (xs : List Rat) (a : Rat) :
    let m := xs.foldl (fun m y => if m < y then y else m) a
    m ∈ a :: xs ∧ ∀ x ∈ a :: xs, x ≤ m := by
  induction xs generalizing a with
  | nil => simp
  | cons y t ih =>
    simp only [List.foldl_cons]
    obtain ⟨hm, hle⟩ := ih (if a < y then y else a)
    constructor
    · rcases List.mem_cons.1 hm with h | h
      · rw [h]; split <;> simp
      · simp [h]
    · intro x hx
      have h0 := hle _ List.mem_cons_self
      rcases List.mem_cons.1 hx with h | h
      · subst h; split at h0 <;> grind
      · rcases List.mem_cons.1 h with h | h
        · subst h; split at h0 <;> grind
        · exact hle x (List.mem_cons_of_mem _ h)

/-- `ratMin` is the mathematical minimum: an element of the list that is below every element -/
theorem ratMin_spec (xs : List Rat) (h : xs ≠ []) : ratMin xs ∈ xs ∧ ∀ x ∈ xs, ratMin xs ≤ x := by
  cases xs with
  | nil => exact absurd rfl h
  | cons a t => exact foldl_min_spec t a

/-- `ratMax` is the mathematical maximum: an element of the list that is above every element -/
theorem ratMax_spec (xs : List Rat) (h : xs ≠ []) : ratMax xs ∈ xs ∧ ∀ x ∈ xs, x ≤ ratMax xs := by
  cases xs with
  | nil => exact absurd rfl h
  | cons a t => exact foldl_max_spec t a

/-- Σ(x−m)² = Σx² − 2·m·Σx + n·m² -/
theorem ratSum_sq_dev (xs : List Rat) (m : Rat) :
    ratSum (xs.map (fun x => (x - m) * (x - m))) =
      ratSum (xs.map (fun x => x * x)) - 2 * m * ratSum xs + (xs.length : Rat) * (m * m) := by
  induction xs with
  | nil => simp only [List.map_nil, ratSum_nil, List.length_nil]; grind
  | cons x t ih =>
    simp only [List.map_cons, ratSum_cons, ih, List.length_cons]
    have : ((t.length + 1 : Nat) : Rat) = (t.length : Rat) + 1 := by simp
    rw [this]
    grind

/-- the "mean of squares minus square of the mean" formula IS the population variance -/
theorem variance_formula (xs : List Rat) (h : xs ≠ []) :
    ratSum (xs.map (fun x => x * x)) / (xs.length : Rat)
        - (ratSum xs / (xs.length : Rat)) * (ratSum xs / (xs.length : Rat)) = ratVariance xs := by
  have hn : (xs.length : Rat) ≠ 0 := by
    cases xs with
    | nil => exact absurd rfl h
    | cons a t => simp only [List.length_cons]; exact_mod_cast Nat.succ_ne_zero t.length
  simp only [ratVariance, ratAvg, ratSum_sq_dev]
  generalize (xs.length : Rat) = n at hn ⊢
  generalize ratSum xs = s
  generalize ratSum (xs.map (fun x => x * x)) = s2
  grind

/-! ### the numeric aggregates MIN, MAX, SUM, AVG, VARIANCE, MEDIAN -/

def AggKind.isNum : AggKind → Bool
  | .min | .max | .sum | .avg | .variance | .median => true
  | _ => false

/-- the accumulator that summarises the non-empty list `xs` of a group's numbers -/
def numAcc : AggKind → List Rat → Acc
  | .min, xs => .best (ratMin xs)
  | .max, xs => .best (ratMax xs)
  | .sum, xs => .sum (ratSum xs)
  | .avg, xs => .sumCnt (ratSum xs) xs.length
  | .variance, xs => .sumSqCnt (ratSum xs) (ratSum (xs.map (fun x => x * x))) xs.length
  | _, xs => .vals xs

def numSumm (k : AggKind) (xs : List Rat) : Option Acc := if xs = [] then none else some (numAcc k xs)

/-- the mathematical value of the aggregate -/
def numMath : AggKind → List Rat → Rat
  | .min, xs => ratMin xs
  | .max, xs => ratMax xs
  | .sum, xs => ratSum xs
  | .avg, xs => ratAvg xs
  | .variance, xs => ratVariance xs
  | _, xs => medianOf xs

/-- the accumulator update of `AggCol.increment`, verbatim -/
def numUpd (k : AggKind) (cur : Option Acc) (q : Rat) : Acc :=
  match k, cur with
  | .min, some (.best b) => .best (if q < b then q else b)
  | .min, _ => .best q
  | .max, some (.best b) => .best (if b < q then q else b)
  | .max, _ => .best q
  | .sum, some (.sum s) => .sum (s + q)
  | .sum, _ => .sum q
  | .avg, some (.sumCnt s n) => .sumCnt (s + q) (n + 1)
  | .avg, _ => .sumCnt q 1
  | .variance, some (.sumSqCnt s s2 n) => .sumSqCnt (s + q) (s2 + q * q) (n + 1)
  | .variance, _ => .sumSqCnt q (q * q) 1
  | _, some (.vals xs) => .vals (xs ++ [q])
  | _, _ => .vals [q]

theorem increment_num (c : AggCol) (k : AggKind) (hk : c.kind = some k) (hn : k.isNum = true)
    (key : List Val) (v : Val) (q : Rat) (s : Option Bool) (hp : numParse c.isStr v = .ok (q, s)) :
    c.increment key v =
      .ok { c with isStr := s, stats := setAcc c.stats key (numUpd k (lookupAcc c.stats key) q) } := by
  cases k <;> simp [AggKind.isNum] at hn <;>
    simp only [AggCol.increment, hk, hp, bind, Except.bind, numUpd] <;>
    generalize lookupAcc c.stats key = cur <;>
    (cases cur with
     | none => rfl
     | some a => cases a <;> rfl)

/-- the NumHandler on homogeneous input: whatever it has decided so far (nothing, or `asStr`), it
returns the number `numOfVal asStr v` and decides `asStr` -/
theorem numParse_of_numOfVal (asStr : Bool) (v : Val) (x : Rat) (h : numOfVal asStr v = some x)
    (o : Option Bool) (ho : o = none ∨ o = some asStr) : numParse o v = .ok (x, some asStr) := by
  cases asStr
  · -- numbers
    have : v = .at (.num x) := by
      unfold numOfVal at h; split at h <;> simp_all
    subst this
    rcases ho with rfl | rfl <;> simp [numParse]
  · have : ∃ s, v = .at (.str s) ∧ parseNumStr s = some x := by
      unfold numOfVal at h; split at h <;> simp_all
    obtain ⟨s, rfl, hs⟩ := this
    rcases ho with rfl | rfl <;> simp [numParse, hs]

theorem numUpd_numSumm (k : AggKind) (hn : k.isNum = true) (xs : List Rat) (q : Rat) :
    numUpd k (numSumm k xs) q = numAcc k (xs ++ [q]) := by
  by_cases hx : xs = []
  · subst hx
    cases k <;> simp [AggKind.isNum] at hn <;>
      simp [numUpd, numSumm, numAcc, ratSum_single, ratMin_single, ratMax_single]
  · cases k <;> simp [AggKind.isNum] at hn <;>
      simp [numUpd, numSumm, numAcc, hx, ratSum_snoc, ratMin_snoc, ratMax_snoc]

theorem final_numAcc (k : AggKind) (hn : k.isNum = true) (xs : List Rat) (hx : xs ≠ []) :
    Acc.final (numAcc k xs) = Val.num (numMath k xs) := by
  cases k <;> simp [AggKind.isNum] at hn <;> simp only [numAcc, Acc.final, numMath]
  · rfl
  · rw [variance_formula xs hx]

/-- the numbers of one group, in input order -/
def groupNums (asStr : Bool) (kvs : List (List Val × Val)) (key : List Val) : List Rat :=
  (groupVals kvs key).filterMap (numOfVal asStr)

theorem groupNums_snoc (asStr : Bool) (seen : List (List Val × Val)) (k : List Val) (v : Val) (x : Rat)
    (h : numOfVal asStr v = some x) (key : List Val) :
    groupNums asStr (seen ++ [(k, v)]) key =
      if k = key then groupNums asStr seen key ++ [x] else groupNums asStr seen key := by
  by_cases hk : k = key <;> simp [groupNums, groupVals_snoc, hk, List.filterMap_append, h]

/-- on homogeneous input no value is dropped: the group's numbers are in 1–1 correspondence with its values -/
theorem groupNums_eq_nil (asStr : Bool) (kvs : List (List Val × Val))
    (hom : ∀ p ∈ kvs, ∃ x, numOfVal asStr p.2 = some x) (key : List Val) :
    groupNums asStr kvs key = [] ↔ groupVals kvs key = [] := by
  constructor
  · intro h
    cases hg : groupVals kvs key with
    | nil => rfl
    | cons v t =>
      have hv : v ∈ groupVals kvs key := by simp [hg]
      obtain ⟨x, hx⟩ := hom _ (mem_groupVals.1 hv)
      simp [groupNums, hg, hx] at h
  · intro h; simp [groupNums, h]

theorem groupNums_length (asStr : Bool) (kvs : List (List Val × Val))
    (hom : ∀ p ∈ kvs, ∃ x, numOfVal asStr p.2 = some x) (key : List Val) :
    (groupNums asStr kvs key).length = (groupVals kvs key).length := by
  have : ∀ vs : List Val, (∀ v ∈ vs, ∃ x, numOfVal asStr v = some x) →
      (vs.filterMap (numOfVal asStr)).length = vs.length := by
    intro vs
    induction vs with
    | nil => simp
    | cons v t ih =>
      intro h
      obtain ⟨x, hx⟩ := h v List.mem_cons_self
      simp [hx, ih (fun w hw => h w (List.mem_cons_of_mem _ hw))]
  exact this _ (fun v hv => hom _ (mem_groupVals.1 hv))

def NumInv (asStr : Bool) (k : AggKind) (c : AggCol) (seen : List (List Val × Val)) : Prop :=
  c.kind = some k ∧ (c.isStr = none ∨ c.isStr = some asStr) ∧
    ∀ key, lookupAcc c.stats key = numSumm k (groupNums asStr seen key)

theorem num_step (asStr : Bool) (k : AggKind) (hn : k.isNum = true)
    (c : AggCol) (seen : List (List Val × Val)) (key0 : List Val) (v : Val)
    (h : NumInv asStr k c seen) (hq : ∃ x, numOfVal asStr (key0, v).2 = some x) :
    ∃ c', c.increment key0 v = .ok c' ∧ NumInv asStr k c' (seen ++ [(key0, v)]) := by
  obtain ⟨hk, hs, hst⟩ := h
  obtain ⟨x, hx⟩ := hq
  have hp := numParse_of_numOfVal asStr v x hx c.isStr hs
  refine ⟨_, increment_num c k hk hn key0 v x _ hp, hk, Or.inr rfl, ?_⟩
  intro key
  simp only [lookupAcc_setAcc, groupNums_snoc asStr seen key0 v x hx]
  by_cases hkk : key0 = key
  · subst hkk
    simp only [if_true, hst key0, numUpd_numSumm k hn]
    simp [numSumm]
  · simp [hkk, hst key]

/-- the full description of a numeric aggregate column fed homogeneous numbers (all numbers, or all
numeric strings): the fold succeeds and every key maps to the summary of its numbers -/
theorem agg_num_total (k : AggKind) (hn : k.isNum = true) (asStr : Bool) (kvs : List (List Val × Val))
    (hom : ∀ p ∈ kvs, ∃ x, numOfVal asStr p.2 = some x) :
    ∃ c, foldIncr { kind := some k } kvs = .ok c ∧
      ∀ key, lookupAcc c.stats key = numSumm k (groupNums asStr kvs key) := by
  obtain ⟨c, hc, hI⟩ := foldIncr_inv0 (Q := fun p => ∃ x, numOfVal asStr p.2 = some x)
    (num_step asStr k hn) { kind := some k }
    ⟨rfl, Or.inl rfl, fun key => by simp [lookupAcc_nil, groupNums, groupVals_nil, numSumm]⟩ kvs hom
  exact ⟨c, hc, hI.2.2⟩

/-- under homogeneity the numeric aggregates never raise -/
theorem agg_num_succeeds (k : AggKind) (hn : k.isNum = true) (asStr : Bool) (kvs : List (List Val × Val))
    (hom : ∀ p ∈ kvs, ∃ x, numOfVal asStr p.2 = some x) :
    ∃ c, foldIncr { kind := some k } kvs = .ok c :=
  let ⟨c, hc, _⟩ := agg_num_total k hn asStr kvs hom; ⟨c, hc⟩

/-- all six numeric aggregates at once: the final value of an occurring key is the mathematical
aggregate `numMath k` of the group's numbers in input order -/
theorem agg_num (k : AggKind) (hn : k.isNum = true) (asStr : Bool) (kvs : List (List Val × Val))
    (hom : ∀ p ∈ kvs, ∃ x, numOfVal asStr p.2 = some x) (c : AggCol)
    (h : foldIncr { kind := some k } kvs = .ok c) (key : List Val) (hk : groupVals kvs key ≠ []) :
    (lookupAcc c.stats key).map Acc.final = some (Val.num (numMath k (groupNums asStr kvs key))) := by
  obtain ⟨c', hc', hI⟩ := agg_num_total k hn asStr kvs hom
  rw [h] at hc'; cases hc'
  have hne : groupNums asStr kvs key ≠ [] := fun e => hk ((groupNums_eq_nil asStr kvs hom key).1 e)
  simp [hI key, numSumm, hne, final_numAcc k hn _ hne]

/-! #### the six named statements

`asStr` says whether the column's values are numeric strings (`true`) or numbers (`false`); `hom` is the
homogeneity hypothesis; the group's numbers in input order are
`(groupVals kvs key).filterMap (numOfVal asStr)` (nothing is dropped, see `groupNums_length`).
The hypothesis `kvs ≠ []` of the task statement is not needed (it follows from `hk`). -/

theorem agg_sum (asStr : Bool) (kvs : List (List Val × Val))
    (hom : ∀ p ∈ kvs, ∃ x, numOfVal asStr p.2 = some x) (c : AggCol)
    (h : foldIncr { kind := some .sum } kvs = .ok c) (key : List Val) (hk : groupVals kvs key ≠ []) :
    (lookupAcc c.stats key).map Acc.final =
      some (Val.num (ratSum ((groupVals kvs key).filterMap (numOfVal asStr)))) :=
  agg_num .sum rfl asStr kvs hom c h key hk

theorem agg_min (asStr : Bool) (kvs : List (List Val × Val))
    (hom : ∀ p ∈ kvs, ∃ x, numOfVal asStr p.2 = some x) (c : AggCol)
    (h : foldIncr { kind := some .min } kvs = .ok c) (key : List Val) (hk : groupVals kvs key ≠ []) :
    (lookupAcc c.stats key).map Acc.final =
      some (Val.num (ratMin ((groupVals kvs key).filterMap (numOfVal asStr)))) :=
  agg_num .min rfl asStr kvs hom c h key hk

theorem agg_max (asStr : Bool) (kvs : List (List Val × Val))
    (hom : ∀ p ∈ kvs, ∃ x, numOfVal asStr p.2 = some x) (c : AggCol)
    (h : foldIncr { kind := some .max } kvs = .ok c) (key : List Val) (hk : groupVals kvs key ≠ []) :
    (lookupAcc c.stats key).map Acc.final =
      some (Val.num (ratMax ((groupVals kvs key).filterMap (numOfVal asStr)))) :=
  agg_num .max rfl asStr kvs hom c h key hk

theorem agg_avg (asStr : Bool) (kvs : List (List Val × Val))
    (hom : ∀ p ∈ kvs, ∃ x, numOfVal asStr p.2 = some x) (c : AggCol)
    (h : foldIncr { kind := some .avg } kvs = .ok c) (key : List Val) (hk : groupVals kvs key ≠ []) :
    (lookupAcc c.stats key).map Acc.final =
      some (Val.num (ratAvg ((groupVals kvs key).filterMap (numOfVal asStr)))) :=
  agg_num .avg rfl asStr kvs hom c h key hk

/-- `Σx²/n − (Σx/n)²`, which is what the engine computes, equals the population variance `Σ(x−μ)²/n` -/
theorem agg_variance (asStr : Bool) (kvs : List (List Val × Val))
    (hom : ∀ p ∈ kvs, ∃ x, numOfVal asStr p.2 = some x) (c : AggCol)
    (h : foldIncr { kind := some .variance } kvs = .ok c) (key : List Val) (hk : groupVals kvs key ≠ []) :
    (lookupAcc c.stats key).map Acc.final =
      some (Val.num (ratVariance ((groupVals kvs key).filterMap (numOfVal asStr)))) :=
  agg_num .variance rfl asStr kvs hom c h key hk

theorem agg_median (asStr : Bool) (kvs : List (List Val × Val))
    (hom : ∀ p ∈ kvs, ∃ x, numOfVal asStr p.2 = some x) (c : AggCol)
    (h : foldIncr { kind := some .median } kvs = .ok c) (key : List Val) (hk : groupVals kvs key ≠ []) :
    (lookupAcc c.stats key).map Acc.final =
      some (Val.num (medianOf ((groupVals kvs key).filterMap (numOfVal asStr)))) :=
  agg_num .median rfl asStr kvs hom c h key hk

/-- the mathematical reading of `agg_min`: the result is one of the group's numbers and a lower bound of all of them -/
theorem agg_min_is_minimum (asStr : Bool) (kvs : List (List Val × Val))
    (hom : ∀ p ∈ kvs, ∃ x, numOfVal asStr p.2 = some x) (c : AggCol)
    (h : foldIncr { kind := some .min } kvs = .ok c) (key : List Val) (hk : groupVals kvs key ≠ []) :
    ∃ m, (lookupAcc c.stats key).map Acc.final = some (Val.num m) ∧
      m ∈ groupNums asStr kvs key ∧ ∀ x ∈ groupNums asStr kvs key, m ≤ x :=
  ⟨_, agg_min asStr kvs hom c h key hk,
    ratMin_spec _ (fun e => hk ((groupNums_eq_nil asStr kvs hom key).1 e))⟩

theorem agg_max_is_maximum (asStr : Bool) (kvs : List (List Val × Val))
    (hom : ∀ p ∈ kvs, ∃ x, numOfVal asStr p.2 = some x) (c : AggCol)
    (h : foldIncr { kind := some .max } kvs = .ok c) (key : List Val) (hk : groupVals kvs key ≠ []) :
    ∃ m, (lookupAcc c.stats key).map Acc.final = some (Val.num m) ∧
      m ∈ groupNums asStr kvs key ∧ ∀ x ∈ groupNums asStr kvs key, x ≤ m :=
  ⟨_, agg_max asStr kvs hom c h key hk,
    ratMax_spec _ (fun e => hk ((groupNums_eq_nil asStr kvs hom key).1 e))⟩

/-! ### ANY_VALUE -/

def AnyInv (c : AggCol) (seen : List (List Val × Val)) : Prop :=
  c.kind = some .anyValue ∧ ∀ key, lookupAcc c.stats key = (groupVals seen key).head?.map Acc.first

theorem any_step (c : AggCol) (seen : List (List Val × Val)) (k : List Val) (v : Val)
    (h : AnyInv c seen) (_ : True) :
    ∃ c', c.increment k v = .ok c' ∧ AnyInv c' (seen ++ [(k, v)]) := by
  obtain ⟨hk, hs⟩ := h
  cases hg : groupVals seen k with
  | nil =>
    refine ⟨{ c with stats := setAcc c.stats k (.first v) }, ?_, hk, ?_⟩
    · simp [AggCol.increment, hk, hs k, hg]
    · intro key
      simp only [lookupAcc_setAcc, groupVals_snoc]
      by_cases hkk : k = key
      · subst hkk; simp [hg]
      · simp [hkk, hs key]
  | cons old t =>
    refine ⟨c, ?_, hk, ?_⟩
    · simp [AggCol.increment, hk, hs k, hg]
    · intro key
      simp only [groupVals_snoc]
      by_cases hkk : k = key
      · subst hkk; simp [hs k, hg]
      · simp [hkk, hs key]

/-- ANY_VALUE always succeeds; the value of every key is the FIRST value of its group (and there is no
entry for a key that does not occur) -/
theorem agg_any_value_total (kvs : List (List Val × Val)) :
    ∃ c, foldIncr { kind := some .anyValue } kvs = .ok c ∧
      ∀ key, (lookupAcc c.stats key).map Acc.final = (groupVals kvs key).head? := by
  obtain ⟨c, hc, hI⟩ := foldIncr_inv0 (Q := fun _ => True) any_step { kind := some .anyValue }
    ⟨rfl, fun key => by simp [lookupAcc_nil, groupVals_nil]⟩ kvs (fun _ _ => trivial)
  refine ⟨c, hc, fun key => ?_⟩
  rw [hI.2 key]
  cases (groupVals kvs key).head? <;> simp [Acc.final]

theorem agg_any_value (kvs : List (List Val × Val)) (c : AggCol)
    (h : foldIncr { kind := some .anyValue } kvs = .ok c) (key : List Val) (v : Val)
    (hv : (groupVals kvs key).head? = some v) :
    (lookupAcc c.stats key).map Acc.final = some v := by
  obtain ⟨c', hc', hI⟩ := agg_any_value_total kvs
  rw [h] at hc'; cases hc'
  rw [hI key, hv]

/-! ### ARRAY_AGG -/

/-- the scalars of a list of values -/
def atomsOf (vs : List Val) : List Atom := vs.filterMap (fun v => match v with | .at a => some a | .list _ => none)

def arrSumm (vs : List Val) : Option Acc := if vs = [] then none else some (.arr (atomsOf vs))

def ArrInv (c : AggCol) (seen : List (List Val × Val)) : Prop :=
  c.kind = some .arrayAgg ∧ ∀ key, lookupAcc c.stats key = arrSumm (groupVals seen key)

theorem atomsOf_snoc (vs : List Val) (a : Atom) : atomsOf (vs ++ [.at a]) = atomsOf vs ++ [a] := by
  simp [atomsOf, List.filterMap_append]

theorem map_at_atomsOf (vs : List Val) (h : ∀ v ∈ vs, ∃ a, v = .at a) : (atomsOf vs).map Val.at = vs := by
  induction vs with
  | nil => rfl
  | cons v t ih =>
    obtain ⟨a, rfl⟩ := h v List.mem_cons_self
    simp only [atomsOf, List.filterMap_cons, List.map_cons]
    congr 1
    exact ih (fun w hw => h w (List.mem_cons_of_mem _ hw))

theorem arr_step (c : AggCol) (seen : List (List Val × Val)) (k : List Val) (v : Val)
    (h : ArrInv c seen) (hq : ∃ a, (k, v).2 = .at a) :
    ∃ c', c.increment k v = .ok c' ∧ ArrInv c' (seen ++ [(k, v)]) := by
  obtain ⟨hk, hs⟩ := h
  obtain ⟨a, ha⟩ := hq
  simp only at ha; subst ha
  refine ⟨{ c with stats := setAcc c.stats k (.arr (atomsOf (groupVals seen k) ++ [a])) }, ?_, hk, ?_⟩
  · simp only [AggCol.increment, hk, hs k, arrSumm]
    by_cases he : groupVals seen k = [] <;> simp [he, atomsOf]
  · intro key
    simp only [lookupAcc_setAcc, groupVals_snoc]
    by_cases hkk : k = key
    · subst hkk; simp [arrSumm, atomsOf_snoc]
    · simp [hkk, hs key]

/-- ARRAY_AGG over scalar arguments succeeds, and the value of an occurring key is the list of exactly
the group's scalars, in input order: mapping `Val.at` over it gives back `groupVals kvs key` -/
theorem agg_array_agg_total (kvs : List (List Val × Val)) (hsc : ∀ p ∈ kvs, ∃ a, p.2 = .at a) :
    ∃ c, foldIncr { kind := some .arrayAgg } kvs = .ok c ∧
      ∀ key, lookupAcc c.stats key = arrSumm (groupVals kvs key) := by
  obtain ⟨c, hc, hI⟩ := foldIncr_inv0 (Q := fun p => ∃ a, p.2 = .at a) arr_step { kind := some .arrayAgg }
    ⟨rfl, fun key => by simp [lookupAcc_nil, groupVals_nil, arrSumm]⟩ kvs hsc
  exact ⟨c, hc, hI.2⟩

theorem agg_array_agg (kvs : List (List Val × Val)) (hsc : ∀ p ∈ kvs, ∃ a, p.2 = .at a) (c : AggCol)
    (h : foldIncr { kind := some .arrayAgg } kvs = .ok c) (key : List Val) (hk : groupVals kvs key ≠ []) :
    ∃ as : List Atom, as.map Val.at = groupVals kvs key ∧
      (lookupAcc c.stats key).map Acc.final = some (Val.list as) := by
  obtain ⟨c', hc', hI⟩ := agg_array_agg_total kvs hsc
  rw [h] at hc'; cases hc'
  refine ⟨atomsOf (groupVals kvs key), map_at_atomsOf _ (fun v hv => hsc _ (mem_groupVals.1 hv)), ?_⟩
  simp [hI key, arrSumm, hk, Acc.final]

theorem atomsOf_map_at (as : List Atom) : atomsOf (as.map Val.at) = as := by
  induction as with
  | nil => rfl
  | cons a t ih => simp only [List.map_cons, atomsOf, List.filterMap_cons]; exact congrArg _ ih

/-- the same, stated for a given list of scalars: if the group's values are `as` (wrapped), the result is `Val.list as` -/
theorem agg_array_agg_eq (kvs : List (List Val × Val)) (hsc : ∀ p ∈ kvs, ∃ a, p.2 = .at a) (c : AggCol)
    (h : foldIncr { kind := some .arrayAgg } kvs = .ok c) (key : List Val) (as : List Atom)
    (hne : as ≠ []) (has : groupVals kvs key = as.map Val.at) :
    (lookupAcc c.stats key).map Acc.final = some (Val.list as) := by
  obtain ⟨as', has', hf⟩ := agg_array_agg kvs hsc c h key (by rw [has]; simpa using hne)
  have : as' = as := by
    have := congrArg atomsOf (has'.trans has)
    rwa [atomsOf_map_at, atomsOf_map_at] at this
  rw [hf, this]

/-- a list-valued argument anywhere makes ARRAY_AGG raise (nested lists are outside the value model) -/
theorem agg_array_agg_nested (kvs : List (List Val × Val)) (hl : ∃ p ∈ kvs, ∃ l, p.2 = .list l)
    (c : AggCol) (hc : c.kind = some .arrayAgg) : foldIncr c kvs = .error .exc := by
  induction kvs generalizing c with
  | nil => obtain ⟨p, hp, _⟩ := hl; cases hp
  | cons p rest ih =>
    obtain ⟨k, v⟩ := p
    cases v with
    | list l => simp [foldIncr, AggCol.increment, hc, bind, Except.bind]
    | «at» a =>
      have hrest : ∃ p ∈ rest, ∃ l, p.2 = .list l := by
        obtain ⟨p, hp, l, hpl⟩ := hl
        rcases List.mem_cons.1 hp with rfl | hp
        · simp at hpl
        · exact ⟨p, hp, l, hpl⟩
      have : ∃ c', c.increment k (.at a) = .ok c' ∧ c'.kind = some .arrayAgg := by
        simp only [AggCol.increment, hc]
        split <;> exact ⟨_, rfl, rfl⟩
      obtain ⟨c', h1, hc'⟩ := this
      simp only [foldIncr, h1, bind, Except.bind]
      exact ih hrest c' hc'

/-! ### the constant-column verifier (`kind := none`) -/

def ConstInv (c : AggCol) (seen : List (List Val × Val)) : Prop :=
  c.kind = none ∧ ∀ key, lookupAcc c.stats key = (groupVals seen key).head?.map Acc.first ∧
    ∀ v ∈ groupVals seen key, (groupVals seen key).head? = some v

/-- one step of the verifier: either it accepts and the invariant is kept, or it raises because the
group already holds a value different from the new one -/
theorem const_step (c : AggCol) (seen : List (List Val × Val)) (k : List Val) (v : Val)
    (h : ConstInv c seen) :
    (∃ c', c.increment k v = .ok c' ∧ ConstInv c' (seen ++ [(k, v)])) ∨
    (c.increment k v = .error .exc ∧ ∃ old ∈ groupVals seen k, old ≠ v) := by
  obtain ⟨hk, hs⟩ := h
  cases hg : groupVals seen k with
  | nil =>
    left
    refine ⟨{ c with stats := setAcc c.stats k (.first v) }, ?_, hk, ?_⟩
    · simp [AggCol.increment, hk, (hs k).1, hg]
    · intro key
      simp only [lookupAcc_setAcc, groupVals_snoc]
      by_cases hkk : k = key
      · subst hkk; simp [hg]
      · simp only [hkk, if_false]; exact hs key
  | cons old t =>
    by_cases hov : old = v
    · left
      subst hov
      refine ⟨c, ?_, hk, ?_⟩
      · simp [AggCol.increment, hk, (hs k).1, hg]
      · intro key
        simp only [groupVals_snoc]
        by_cases hkk : k = key
        · subst hkk
          have h2 := (hs k).2
          simp only [hg] at h2
          simp only [if_true, (hs k).1, hg]
          refine ⟨by simp, ?_⟩
          intro w hw
          rcases List.mem_append.1 hw with hw | hw
          · simpa using h2 w hw
          · simp at hw; simp [hw]
        · simp only [hkk, if_false]; exact hs key
    · right
      refine ⟨?_, old, by simp, hov⟩
      simp [AggCol.increment, hk, (hs k).1, hg, hov]

theorem const_fold (kvs : List (List Val × Val)) :
    ∀ (c : AggCol) (seen : List (List Val × Val)), ConstInv c seen →
      (∃ c', foldIncr c kvs = .ok c' ∧ ConstInv c' (seen ++ kvs)) ∨
      (foldIncr c kvs = .error .exc ∧
        ∃ key v w, v ∈ groupVals (seen ++ kvs) key ∧ w ∈ groupVals (seen ++ kvs) key ∧ v ≠ w) := by
  induction kvs with
  | nil => intro c seen h; left; exact ⟨c, rfl, by simpa using h⟩
  | cons p rest ih =>
    intro c seen h
    obtain ⟨k, v⟩ := p
    have happ : seen ++ (k, v) :: rest = (seen ++ [(k, v)]) ++ rest := by simp
    rcases const_step c seen k v h with ⟨c1, h1, hI1⟩ | ⟨herr, old, hold, hne⟩
    · simp only [foldIncr, h1, bind, Except.bind]
      rw [happ]
      exact ih c1 _ hI1
    · right
      refine ⟨by simp [foldIncr, herr, bind, Except.bind], k, old, v, ?_, ?_, hne⟩
      · rw [groupVals_append]; exact List.mem_append_left _ hold
      · rw [mem_groupVals]; simp

/-- If the verifier accepts, every group is constant (all its values equal its first value) and the
output for every key is that first value (no entry for keys that do not occur). -/
theorem agg_const_ok (kvs : List (List Val × Val)) (c : AggCol)
    (h : foldIncr { kind := none } kvs = .ok c) (key : List Val) :
    (∀ v ∈ groupVals kvs key, (groupVals kvs key).head? = some v) ∧
      (lookupAcc c.stats key).map Acc.final = (groupVals kvs key).head? := by
  have h0 : ConstInv { kind := none } [] :=
    ⟨rfl, fun key => by simp [lookupAcc_nil, groupVals_nil]⟩
  rcases const_fold kvs _ [] h0 with ⟨c', hc', hI⟩ | ⟨herr, _⟩
  · rw [h] at hc'; cases hc'
    simp only [List.nil_append] at hI
    refine ⟨(hI.2 key).2, ?_⟩
    rw [(hI.2 key).1]
    cases (groupVals kvs key).head? <;> simp [Acc.final]
  · rw [h] at herr; cases herr

/-- Conversely, two different values in one group (structural inequality on `Val`, so `None` against
anything else counts) make the verifier raise. -/
theorem agg_const_error (kvs : List (List Val × Val)) (key : List Val) (v w : Val)
    (hv : v ∈ groupVals kvs key) (hw : w ∈ groupVals kvs key) (hne : v ≠ w) :
    foldIncr { kind := none } kvs = .error .exc := by
  have h0 : ConstInv { kind := none } [] :=
    ⟨rfl, fun key => by simp [lookupAcc_nil, groupVals_nil]⟩
  rcases const_fold kvs _ [] h0 with ⟨c', hc', _⟩ | ⟨herr, _⟩
  · have h1 := (agg_const_ok kvs c' hc' key).1
    have := (h1 v hv).symm.trans (h1 w hw)
    exact absurd (Option.some.inj this) hne
  · exact herr

/-- the verifier accepts exactly the inputs whose groups are constant -/
theorem agg_const_iff (kvs : List (List Val × Val)) :
    (∃ c, foldIncr { kind := none } kvs = .ok c) ↔
      ∀ key v w, v ∈ groupVals kvs key → w ∈ groupVals kvs key → v = w := by
  constructor
  · rintro ⟨c, hc⟩ key v w hv hw
    have h1 := (agg_const_ok kvs c hc key).1
    exact Option.some.inj ((h1 v hv).symm.trans (h1 w hw))
  · intro hall
    have h0 : ConstInv { kind := none } [] :=
      ⟨rfl, fun key => by simp [lookupAcc_nil, groupVals_nil]⟩
    rcases const_fold kvs _ [] h0 with ⟨c', hc', _⟩ | ⟨_, key, v, w, hv, hw, hne⟩
    · exact ⟨c', hc'⟩
    · simp only [List.nil_append] at hv hw
      exact absurd (hall key v w hv hw) hne

/-! ### concrete instances

Two groups `a` and `b`, interleaved; group `a` holds 3, 1, 7/2, 1 (in this order).  Each example
instantiates the corresponding theorem and evaluates the mathematical right-hand side.
(`decide +kernel` = plain kernel evaluation of the `Decidable` instance; core `Rat` arithmetic does not
reduce with the elaborator's default transparency.) -/

namespace AggExamples

def kA : List Val := [Val.str "a".toList]
def kB : List Val := [Val.str "b".toList]
def kC : List Val := [Val.str "c".toList]

def exNums : List (List Val × Val) :=
  [(kA, Val.num 3), (kB, Val.num 10), (kA, Val.num 1), (kA, Val.num (7/2)), (kB, Val.num (-4)), (kA, Val.num 1)]

/-- the same shape with numeric strings: group `a` holds "12", "-0.5", "3.25" -/
def exStrs : List (List Val × Val) :=
  [(kA, Val.str "12".toList), (kB, Val.str "7".toList), (kA, Val.str "-0.5".toList), (kA, Val.str "3.25".toList)]

theorem exNums_hom : ∀ p ∈ exNums, ∃ x, numOfVal false p.2 = some x := by
  simp [exNums, numOfVal, Val.num]

theorem exNums_kA : (groupVals exNums kA).filterMap (numOfVal false) = [3, 1, 7/2, 1] := by decide +kernel
theorem exNums_kA_ne : groupVals exNums kA ≠ [] := by decide +kernel

theorem exStrs_hom : ∀ p ∈ exStrs, ∃ x, numOfVal true p.2 = some x := by
  intro p hp
  have : (numOfVal true p.2).isSome = true := by
    revert p; decide +kernel
  exact ⟨_, (Option.eq_some_of_isSome this)⟩

theorem exStrs_kA : (groupVals exStrs kA).filterMap (numOfVal true) = [12, -1/2, 13/4] := by decide +kernel

-- COUNT
example (c : AggCol) (h : foldIncr { kind := some .count } exNums = .ok c) :
    (lookupAcc c.stats kA).map Acc.final = some (Val.nat 4) ∧
    (lookupAcc c.stats kB).map Acc.final = some (Val.nat 2) :=
  ⟨agg_count exNums c h kA (by decide +kernel), agg_count exNums c h kB (by decide +kernel)⟩

-- SUM, on numbers and on numeric strings
example : ∃ c, foldIncr { kind := some .sum } exNums = .ok c ∧
    (lookupAcc c.stats kA).map Acc.final = some (Val.num (17/2)) := by
  obtain ⟨c, hc⟩ := agg_num_succeeds .sum rfl false exNums exNums_hom
  refine ⟨c, hc, ?_⟩
  have := agg_sum false exNums exNums_hom c hc kA exNums_kA_ne
  rwa [exNums_kA, show ratSum [3, 1, 7/2, 1] = 17/2 by decide +kernel] at this

example : ∃ c, foldIncr { kind := some .sum } exStrs = .ok c ∧
    (lookupAcc c.stats kA).map Acc.final = some (Val.num (59/4)) := by
  obtain ⟨c, hc⟩ := agg_num_succeeds .sum rfl true exStrs exStrs_hom
  refine ⟨c, hc, ?_⟩
  have := agg_sum true exStrs exStrs_hom c hc kA (by decide +kernel)
  rwa [exStrs_kA, show ratSum [12, -1/2, 13/4] = 59/4 by decide +kernel] at this

-- ANY_VALUE: the first value of the group
example (c : AggCol) (h : foldIncr { kind := some .anyValue } exNums = .ok c) :
    (lookupAcc c.stats kB).map Acc.final = some (Val.num 10) :=
  agg_any_value exNums c h kB _ (by decide +kernel)

-- ARRAY_AGG: exactly the group's scalars, in input order
example (c : AggCol) (h : foldIncr { kind := some .arrayAgg } exNums = .ok c) :
    (lookupAcc c.stats kA).map Acc.final = some (Val.list [.num 3, .num 1, .num (7/2), .num 1]) := by
  exact agg_array_agg_eq exNums (by simp [exNums, Val.num]) c h kA _ (by simp) (by decide +kernel)

-- the constant-column verifier: accepts constant groups, raises on `None` against a value
example : ∃ c, foldIncr { kind := none } [(kA, Val.num 1), (kB, Val.none), (kA, Val.num 1), (kB, Val.none)] = .ok c ∧
    (lookupAcc c.stats kB).map Acc.final = some Val.none := by
  have hAB : kA ≠ kB := by decide
  obtain ⟨c, hc⟩ := (agg_const_iff [(kA, Val.num 1), (kB, Val.none), (kA, Val.num 1), (kB, Val.none)]).2 (by
    intro key v w hv hw
    rw [mem_groupVals] at hv hw
    simp only [List.mem_cons, Prod.mk.injEq, List.mem_nil_iff, or_false] at hv hw
    grind)
  exact ⟨c, hc, (agg_const_ok _ c hc kB).2⟩

example : foldIncr { kind := none } [(kA, Val.num 1), (kB, Val.none), (kB, Val.num 0)] = .error .exc :=
  agg_const_error _ kB Val.none (Val.num 0) (by decide +kernel) (by decide +kernel) (by decide +kernel)

-- MIN / MAX
example (c : AggCol) (h : foldIncr { kind := some .min } exNums = .ok c) :
    (lookupAcc c.stats kA).map Acc.final = some (Val.num 1) := by
  have := agg_min false exNums exNums_hom c h kA exNums_kA_ne
  rwa [exNums_kA, show ratMin [3, 1, 7/2, 1] = 1 by decide +kernel] at this

example (c : AggCol) (h : foldIncr { kind := some .max } exNums = .ok c) :
    (lookupAcc c.stats kA).map Acc.final = some (Val.num (7/2)) := by
  have := agg_max false exNums exNums_hom c h kA exNums_kA_ne
  rwa [exNums_kA, show ratMax [3, 1, 7/2, 1] = 7/2 by decide +kernel] at this

-- AVG
example (c : AggCol) (h : foldIncr { kind := some .avg } exNums = .ok c) :
    (lookupAcc c.stats kA).map Acc.final = some (Val.num (17/8)) := by
  have := agg_avg false exNums exNums_hom c h kA exNums_kA_ne
  rwa [exNums_kA, show ratAvg [3, 1, 7/2, 1] = 17/8 by decide +kernel] at this

-- MEDIAN (even count: mean of the two middle elements 1 and 3)
example (c : AggCol) (h : foldIncr { kind := some .median } exNums = .ok c) :
    (lookupAcc c.stats kA).map Acc.final = some (Val.num 2) := by
  have := agg_median false exNums exNums_hom c h kA exNums_kA_ne
  have hm : medianOf [3, 1, 7/2, 1] = 2 := by
    have h1 : ¬ (3 : Rat) ≤ 1 := by grind
    have h2 : ¬ (7/2 : Rat) ≤ 1 := by grind
    have h4 : (3 : Rat) ≤ 7/2 := by grind
    simp [medianOf, List.mergeSort, List.MergeSort.Internal.splitInTwo, h1, h2, h4]
    grind
  rwa [exNums_kA, hm] at this

-- VARIANCE: mean 17/8, squared deviations 49/64, 81/64, 121/64, 81/64, their mean 83/64
example (c : AggCol) (h : foldIncr { kind := some .variance } exNums = .ok c) :
    (lookupAcc c.stats kA).map Acc.final = some (Val.num (83/64)) := by
  have := agg_variance false exNums exNums_hom c h kA exNums_kA_ne
  rwa [exNums_kA, show ratVariance [3, 1, 7/2, 1] = 83/64 by decide +kernel] at this

end AggExamples

end Rbql
