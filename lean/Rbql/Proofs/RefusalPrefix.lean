/-
  Broken pipe (the output consumer goes away): the user's writer refuses its k-th `write`.
  The writer chain `SortedWriter?(UniqWriter|UniqCountWriter?(TopWriter?(user writer)))` fed with the
  emissions (stopping at the first refused write) and then finished leaves in the user's writer exactly
  the first `k - 1` records of the unbroken run (`selectSpec q es`), and the user's writer received
  `min k (length of the full output)` write calls: at most one of them (the k-th) was refused.

  Route: every layer above the user's writer is shown to hand the user's writer ONE list of records
  through ONE stop-at-first-refusal loop (`Sink.feed`), for an ARBITRARY writer; the refusing writer is
  then analysed on its own (`Sink.feed_refusing`): it is one more "take" layer.
-/
import Rbql.Proofs.ChainAlgebra
namespace Rbql

/-! ### the user's writer on its own -/

/-- the stop-at-first-refusal loop, directly on the user's writer -/
def Sink.feed : Sink → List Row → Sink
  | s, [] => s
  | s, r :: rs => if (s.write r).2 then (s.write r).1.feed rs else (s.write r).1

/-- `finish` of the user's writer -/
def Sink.done (s : Sink) : Sink := { s with finished := s.finished + 1 }

theorem TopLayer.finish_sink (t : TopLayer) : t.finish.sink = t.sink.done := rfl

/-- a writer that refuses from its `k`-th call on and has received `w < k` calls accepts exactly
`k - 1 - w` more records; the loop makes exactly one refused call if there are more records than that -/
theorem Sink.feed_refusing (s : Sink) (k : Nat) (h : s.refuseFrom = some k) (hw : s.writes < k)
    (rs : List Row) :
    (s.feed rs).rows = (rs.take (k - 1 - s.writes)).reverse ++ s.rows ∧
    (s.feed rs).writes = s.writes + min rs.length (k - s.writes) := by
  induction rs generalizing s with
  | nil => simp [Sink.feed]
  | cons r rs ih =>
    rcases s with ⟨rows, writes, refuseFrom, afterRefusal, finished⟩
    simp only at h hw
    subst h
    rw [Sink.feed]
    by_cases hn : k ≤ writes + 1
    · have hk : k - 1 - writes = 0 := by omega
      simp only [Sink.write, hn, if_true, Bool.false_eq_true, if_false, hk, List.take_zero,
        List.reverse_nil, List.nil_append, List.length_cons, true_and]
      omega
    · have := ih { rows := r :: rows, writes := writes + 1, refuseFrom := some k,
                   afterRefusal := afterRefusal, finished := finished } rfl (by simp only; omega)
      simp only at this
      obtain ⟨m, hm⟩ : ∃ m, k - 1 - writes = m + 1 := ⟨k - 1 - writes - 1, by omega⟩
      have hm' : k - 1 - (writes + 1) = m := by omega
      simp only [Sink.write, hn, if_false, if_true, this.1, this.2, hm, hm', List.take_succ_cons,
        List.reverse_cons, List.append_assoc, List.singleton_append, List.length_cons, true_and]
      omega

/-! ### TopWriter over an arbitrary writer -/

theorem tk_nil (o : Option Nat) : tk o [] = [] := by
  cases o <;> simp [tk]

theorem tk_cons (o : Option Nat) (h : o ≠ some 0) (r : Row) (rs : List Row) :
    tk o (r :: rs) = r :: tk (o.map (· - 1)) rs := by
  cases o with
  | none => simp [tk]
  | some n => cases n with
    | zero => exact absurd rfl h
    | succ m => simp [tk]

/-- one `write` of the TopWriter, whatever the writer below does: either the bound is reached (nothing
is forwarded), or the record is forwarded, the answer is the writer's answer, and an accepted record
uses up one unit of room (a refused one does not: NW is not incremented) -/
theorem TopLayer.write_gen (t : TopLayer) (r : Row) :
    (t.room = some 0 ∧ t.write r = (t, false)) ∨
    (t.room ≠ some 0 ∧ (t.write r).2 = (t.sink.write r).2 ∧ (t.write r).1.sink = (t.sink.write r).1 ∧
      ((t.sink.write r).2 = true → (t.write r).1.room = t.room.map (· - 1))) := by
  rcases t with ⟨top, sink⟩
  unfold TopLayer.write TopLayer.room
  rcases top with _ | ⟨cap, nw⟩
  · right; simp
  · by_cases hc : cap ≤ nw
    · left; simp [hc]
    · right
      simp only [hc, if_false]
      refine ⟨by simp; omega, by simp, by simp, ?_⟩
      intro hok
      simp [hok]; omega

/-- the TopWriter's loop is the writer's loop on the truncated list -/
theorem TopLayer.feed_sink (t : TopLayer) (rs : List Row) :
    (t.feed rs).sink = t.sink.feed (tk t.room rs) := by
  induction rs generalizing t with
  | nil => rw [tk_nil]; rfl
  | cons r rs ih =>
    rw [TopLayer.feed]
    rcases t.write_gen r with ⟨h0, hw⟩ | ⟨h0, hok, hsink, hroom⟩
    · rw [hw]; simp [h0, tk, Sink.feed]
    · rw [tk_cons _ h0, Sink.feed]
      rcases hw : t.write r with ⟨t', ok⟩
      rw [hw] at hok hsink hroom
      simp only at hok hsink hroom
      cases ok
      · simp [← hok, hsink]
      · simp only [if_true, ← hok]
        rw [ih, hsink, hroom hok.symm]

/-! ### UniqWriter over the TopWriter over an arbitrary writer -/

theorem DistLayer.feed_uniq_sink (d : DistLayer) (seen : List Row) (hd : d.dist = .uniq seen)
    (rs : List Row) :
    (∃ seen', (d.feed rs).dist = .uniq seen') ∧
    (d.feed rs).sub.sink = d.sub.sink.feed (tk d.sub.room (foS seen rs)) := by
  induction rs generalizing d seen with
  | nil => refine ⟨⟨seen, hd⟩, ?_⟩; rw [foS, tk_nil]; rfl
  | cons r rs ih =>
    rw [DistLayer.feed, DistLayer.write, foS]
    simp only [hd]
    by_cases hr : r ∈ seen
    · simp only [hr, if_true]
      exact ih d seen hd
    · simp only [hr, if_false]
      rcases d.sub.write_gen r with ⟨h0, hw⟩ | ⟨h0, hok, hsink, hroom⟩
      · rw [hw]; simp [h0, tk, Sink.feed]
      · rw [tk_cons _ h0, Sink.feed]
        rcases hw : d.sub.write r with ⟨t', ok⟩
        rw [hw] at hok hsink hroom
        simp only at hok hsink hroom
        cases ok
        · simp [← hok, hsink]
        · simp only [if_true, ← hok]
          have := ih { dist := .uniq (r :: seen), sub := t' } (r :: seen) rfl
          refine ⟨this.1, ?_⟩
          rw [this.2]
          simp only [hsink, hroom hok.symm]

/-! ### the three DISTINCT modes over the TopWriter over an arbitrary writer -/

/-- `dist_rows` for an arbitrary writer: whatever the DISTINCT mode, the user's writer is handed
the deduplicated, truncated list through one stop-at-first-refusal loop, and then finished -/
theorem dist_sink (dist0 : Distinct) (t : TopLayer) (rows : List Row) :
    ((({ dist := distInit dist0, sub := t } : DistLayer).feed rows).finish).sub.sink =
      (t.sink.feed (tk t.room (dedupSpec dist0 rows))).done := by
  cases dist0 with
  | no =>
    rw [DistLayer.feed_none _ rfl]
    simp only [distInit, DistLayer.finish, dedupSpec, TopLayer.finish_sink]
    rw [t.feed_sink rows]
  | yes =>
    have := DistLayer.feed_uniq_sink { dist := distInit .yes, sub := t } [] rfl rows
    rcases this with ⟨⟨seen', hs⟩, hsink⟩
    rw [DistLayer.finish.eq_def]
    simp only [hs, TopLayer.finish_sink, hsink, foS_nil, dedupSpec]
  | count =>
    rw [DistLayer.feed_count _ [] rfl]
    simp only [DistLayer.finish, TopLayer.finish_sink, foldl_bump_nil, List.map_map, dedupSpec]
    rw [t.feed_sink]
    rfl

/-- the whole chain, for an arbitrary writer: the user's writer sees `selectSpec q es`, record by
record, until it refuses one; then it is finished -/
theorem chain_sink (q : SemQuery) (hsel : q.isUpdate = false) (es : List (List Val × Row))
    (sink : Sink) :
    (((buildChain q sink).feedStop es).1.finish).getSink = (sink.feed (selectSpec q es)).done := by
  rw [Chain.getSink, buildChain_run_sub q hsel, dist_sink]
  unfold selectSpec truncSpec TopLayer.room
  cases q.top <;> simp [tk]

/-- UPDATE: the chain is the user's writer alone -/
theorem chain_sink_update (q : SemQuery) (hupd : q.isUpdate = true) (es : List (List Val × Row))
    (sink : Sink) :
    (((buildChain q sink).feedStop es).1.finish).getSink = (sink.feed (es.map (·.2))).done := by
  rw [Chain.getSink, Chain.run_sub]
  have hb : buildChain q sink = { sub := { dist := distInit .no, sub := { sink := sink } } } := by
    unfold buildChain; simp only [hupd, if_true]; rfl
  rw [hb]
  simp only []
  rw [dist_sink]
  simp [TopLayer.room, tk, dedupSpec]

/-! ### the broken pipe -/

/-- the records accepted by a writer that breaks at its `k`-th write are exactly the first `k - 1`
records of the unbroken run -/
theorem chain_refusal_prefix (q : SemQuery) (hsel : q.isUpdate = false) (es : List (List Val × Row))
    (k : Nat) (hk : 1 ≤ k) :
    (((buildChain q { refuseFrom := some k }).feedStop es).1.finish).getSink.rows.reverse =
      (selectSpec q es).take (k - 1) := by
  rw [chain_sink q hsel]
  have := (Sink.feed_refusing { refuseFrom := some k } k rfl (by simp only; omega) (selectSpec q es)).1
  simp only [Sink.done, this]
  simp

/-- the writer received `min k (length of the full output)` calls: at most one refused call (the
`k`-th), and none at all if the full output has fewer than `k` records -/
theorem chain_refusal_writes (q : SemQuery) (hsel : q.isUpdate = false) (es : List (List Val × Row))
    (k : Nat) (hk : 1 ≤ k) :
    (((buildChain q { refuseFrom := some k }).feedStop es).1.finish).getSink.writes =
      min k (selectSpec q es).length := by
  rw [chain_sink q hsel]
  have := (Sink.feed_refusing { refuseFrom := some k } k rfl (by simp only; omega) (selectSpec q es)).2
  simp only [Sink.done, this]
  omega

theorem chain_refusal_prefix_update (q : SemQuery) (hupd : q.isUpdate = true)
    (es : List (List Val × Row)) (k : Nat) (hk : 1 ≤ k) :
    (((buildChain q { refuseFrom := some k }).feedStop es).1.finish).getSink.rows.reverse =
      (es.map (·.2)).take (k - 1) := by
  rw [chain_sink_update q hupd]
  have := (Sink.feed_refusing { refuseFrom := some k } k rfl (by simp only; omega) (es.map (·.2))).1
  simp only [Sink.done, this]
  simp

theorem chain_refusal_writes_update (q : SemQuery) (hupd : q.isUpdate = true)
    (es : List (List Val × Row)) (k : Nat) (hk : 1 ≤ k) :
    (((buildChain q { refuseFrom := some k }).feedStop es).1.finish).getSink.writes =
      min k es.length := by
  rw [chain_sink_update q hupd]
  have := (Sink.feed_refusing { refuseFrom := some k } k rfl (by simp only; omega) (es.map (·.2))).2
  simp only [Sink.done, this]
  simp only [List.length_map]
  omega

end Rbql
