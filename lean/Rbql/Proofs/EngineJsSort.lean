/-
  rbql-js ordering and identity mechanisms agree with the reference (property C19): helper lemmas.
  * merge sort only compares an earlier element with a later one, so the NR component of `stable_compare` is inert;
  * `JSON.stringify` identifies records exactly.
-/
import Rbql.Model.EngineJs
namespace Rbql

/-! ### merge sort under a comparison that agrees only on (earlier, later) pairs -/

theorem map_mergeSort_of_pairwise {α β : Type} {r : α → α → Bool} {s : β → β → Bool} {f : α → β} :
    ∀ {l : List α}, l.Pairwise (fun a b => r a b = s (f a) (f b)) →
      (l.mergeSort r).map f = (l.map f).mergeSort s
  | [], _ => by simp
  | [x], _ => by simp
  | a :: b :: l, hl => by
    have hsplit : (a :: b :: l).take (((a :: b :: l).length + 1) / 2) ++ (a :: b :: l).drop (((a :: b :: l).length + 1) / 2)
        = a :: b :: l := List.take_append_drop _ _
    have hl' := hl
    rw [← hsplit, List.pairwise_append] at hl'
    obtain ⟨h1, h2, h12⟩ := hl'
    simp only [List.mergeSort, List.MergeSort.Internal.splitInTwo_fst, List.MergeSort.Internal.splitInTwo_snd, List.map_cons]
    rw [List.map_merge (s := s) (fun a am b bm => h12 a (by simpa using am) b (by simpa using bm))]
    rw [map_mergeSort_of_pairwise (s := s) h1]
    rw [map_mergeSort_of_pairwise (s := s) h2]
    rw [List.map_take, List.map_drop]
    simp
  termination_by l => l.length
  decreasing_by all_goals (simp; omega)

theorem jsMergeSort_pair {α : Type} (le : α → α → Bool) (a b : α) :
    [a, b].mergeSort le = if le a b then [a, b] else [b, a] := by
  simp only [List.mergeSort, List.MergeSort.Internal.splitInTwo_fst, List.MergeSort.Internal.splitInTwo_snd]
  simp [List.merge]

/-! ### `stable_compare` with the trailing NR -/

theorem jsStableCompare_single_nat (n1 n2 : Nat) (h : n1 ≤ n2) :
    jsStableCompare [Val.nat n1] [Val.nat n2] ≠ .gt := by
  simp only [jsStableCompare, Val.nat, jsValNe, jsAtomNe, jsValLt, jsAtomLt]
  by_cases he : n1 = n2
  · subst he; simp
  · have hlt : (n1 : Rat) < (n2 : Rat) := Rat.natCast_lt_natCast.mpr (by omega)
    simp [hlt, he]

theorem jsStableCompare_append_nat (n1 n2 : Nat) :
    ∀ (k1 k2 : List Val), k1.length = k2.length →
      jsStableCompare (k1 ++ [Val.nat n1]) (k2 ++ [Val.nat n2]) =
        (match jsStableCompare k1 k2 with
         | .eq => jsStableCompare [Val.nat n1] [Val.nat n2]
         | o => o)
  | [], [], _ => by simp [jsStableCompare]
  | [], _ :: _, h => by simp at h
  | _ :: _, [], h => by simp at h
  | a :: as, b :: bs, h => by
    have ih := jsStableCompare_append_nat n1 n2 as bs (by simpa using h)
    simp only [List.cons_append, jsStableCompare]
    by_cases hne : jsValNe a b = true
    · simp only [hne, if_true]
      split <;> rfl
    · simp only [hne]
      exact ih

theorem jsStableCompare_append_nat_le (k1 k2 : List Val) (n1 n2 : Nat) (hlen : k1.length = k2.length) (h : n1 ≤ n2) :
    (jsStableCompare (k1 ++ [Val.nat n1]) (k2 ++ [Val.nat n2]) != .gt) = (jsStableCompare k1 k2 != .gt) := by
  rw [jsStableCompare_append_nat n1 n2 k1 k2 hlen]
  have := jsStableCompare_single_nat n1 n2 h
  have ht : (jsStableCompare [Val.nat n1] [Val.nat n2] != .gt) = true := bne_iff_ne.mpr this
  cases hc : jsStableCompare k1 k2 <;> simp [ht]

/-- ORDER BY: sorting `(keys ++ [NR], record)` with stable_compare (stable sort) and sorting `(keys, record)` with the reference `keyLe`
give the same record sequence, when NR does not decrease along the arrival order, all keys have one length, and the JS comparison of
the bare keys agrees with `keyLe` on the keys that occur. -/
theorem jsSortEntries_eq_sortEntries (rev : Bool) (es : List (List Val × Nat × Row)) (n : Nat)
    (hlen : ∀ e ∈ es, e.1.length = n)
    (hnr : es.Pairwise (fun a b => a.2.1 ≤ b.2.1))
    (hagree : ∀ a ∈ es, ∀ b ∈ es, (jsStableCompare a.1 b.1 != .gt) = keyLe a.1 b.1) :
    jsSortEntries rev (es.map (fun e => (e.1 ++ [Val.nat e.2.1], e.2.2))) = sortEntries rev (es.map (fun e => (e.1, e.2.2))) := by
  -- both sorts are images of one sort of `es`
  have h1 : (es.map (fun e => (e.1 ++ [Val.nat e.2.1], e.2.2))).mergeSort (fun x y => jsStableCompare x.1 y.1 != .gt)
      = (es.mergeSort (fun a b => jsStableCompare (a.1 ++ [Val.nat a.2.1]) (b.1 ++ [Val.nat b.2.1]) != .gt)).map
          (fun e => (e.1 ++ [Val.nat e.2.1], e.2.2)) :=
    (List.map_mergeSort (l := es)
      (r := fun (a b : List Val × Nat × Row) => jsStableCompare (a.1 ++ [Val.nat a.2.1]) (b.1 ++ [Val.nat b.2.1]) != .gt)
      (s := fun (x y : List Val × Row) => jsStableCompare x.1 y.1 != .gt)
      (f := fun (e : List Val × Nat × Row) => (e.1 ++ [Val.nat e.2.1], e.2.2))
      (fun _ _ _ _ => rfl)).symm
  have h2 : (es.map (fun e => (e.1, e.2.2))).mergeSort (fun x y => keyLe x.1 y.1)
      = (es.mergeSort (fun a b => jsStableCompare (a.1 ++ [Val.nat a.2.1]) (b.1 ++ [Val.nat b.2.1]) != .gt)).map
          (fun e => (e.1, e.2.2)) := by
    refine (map_mergeSort_of_pairwise ?_).symm
    refine hnr.imp_of_mem ?_
    intro a b ha hb hab
    show (jsStableCompare (a.1 ++ [Val.nat a.2.1]) (b.1 ++ [Val.nat b.2.1]) != .gt) = keyLe a.1 b.1
    rw [jsStableCompare_append_nat_le a.1 b.1 a.2.1 b.2.1 (by rw [hlen a ha, hlen b hb]) hab]
    exact hagree a ha b hb
  unfold jsSortEntries sortEntries
  simp only [h1, h2]
  cases rev <;> simp [← List.map_reverse, List.map_map, Function.comp_def]

/-- GROUP BY: ordering the (text, decoded key) pairs with compare_key_arrays equals ordering the keys with `keyLe` -/
theorem jsGroupOrder_eq (ks : List (Str × List Val))
    (hagree : ∀ a ∈ ks, ∀ b ∈ ks, (jsCompareKeyArrays a.2 b.2 != .gt) = keyLe a.2 b.2) :
    (ks.mergeSort (fun x y => jsCompareKeyArrays x.2 y.2 != .gt)).map (·.2) = (ks.map (·.2)).mergeSort keyLe :=
  List.map_mergeSort hagree

/-! ### JSON.stringify is injective -/

/-- the text starts with a character that ends a value inside an array -/
def JsonStartsDelim (r : Str) : Prop := ∃ d r', r = d :: r' ∧ (d = ',' ∨ d = ']')

theorem jsonStartsDelim_comma (r : Str) : JsonStartsDelim (',' :: r) := ⟨',', r, rfl, Or.inl rfl⟩
theorem jsonStartsDelim_bracket (r : Str) : JsonStartsDelim (']' :: r) := ⟨']', r, rfl, Or.inr rfl⟩

/-- a text without delimiters is determined by the text up to the first delimiter -/
theorem jsonPlain_prefix_inj : ∀ (t1 t2 r1 r2 : Str),
    (∀ c ∈ t1, c ≠ ',' ∧ c ≠ ']') → (∀ c ∈ t2, c ≠ ',' ∧ c ≠ ']') → JsonStartsDelim r1 → JsonStartsDelim r2 →
    t1 ++ r1 = t2 ++ r2 → t1 = t2 ∧ r1 = r2
  | [], [], _, _, _, _, _, _, h => ⟨rfl, by simpa using h⟩
  | [], c :: t2, r1, r2, _, h2, ⟨d, r', hd, hdd⟩, _, h => by
    subst hd
    simp only [List.nil_append, List.cons_append, List.cons.injEq] at h
    have := h2 c (by simp)
    rcases hdd with rfl | rfl
    · exact absurd (this.1 h.1.symm) id
    · exact absurd (this.2 h.1.symm) id
  | c :: t1, [], r1, r2, h1, _, _, ⟨d, r', hd, hdd⟩, h => by
    subst hd
    simp only [List.nil_append, List.cons_append, List.cons.injEq] at h
    have := h1 c (by simp)
    rcases hdd with rfl | rfl
    · exact absurd (this.1 h.1) id
    · exact absurd (this.2 h.1) id
  | c1 :: t1, c2 :: t2, r1, r2, h1, h2, hr1, hr2, h => by
    simp only [List.cons_append, List.cons.injEq] at h
    have ih := jsonPlain_prefix_inj t1 t2 r1 r2 (fun c hc => h1 c (by simp [hc])) (fun c hc => h2 c (by simp [hc])) hr1 hr2 h.2
    exact ⟨by rw [h.1, ih.1], ih.2⟩

def jsCommaTail : List Str → Str
  | [] => []
  | xs => ',' :: commaJoinStr xs

theorem commaJoinStr_cons_jsTail (x : Str) (xs : List Str) : commaJoinStr (x :: xs) = x ++ jsCommaTail xs := by
  cases xs <;> simp [commaJoinStr, jsCommaTail]

/-- a comma-separated sequence of self-delimiting texts, closed by `]`, determines the sequence -/
theorem jsonCommaJoin_prefix_inj {α : Type} (enc : α → Str)
    (hpre : ∀ a b r1 r2, JsonStartsDelim r1 → JsonStartsDelim r2 → enc a ++ r1 = enc b ++ r2 → a = b ∧ r1 = r2)
    (hhead : ∀ a, ∃ c t, enc a = c :: t ∧ c ≠ ']') :
    ∀ (xs ys : List α) (r1 r2 : Str),
      commaJoinStr (xs.map enc) ++ ']' :: r1 = commaJoinStr (ys.map enc) ++ ']' :: r2 → xs = ys ∧ r1 = r2
  | [], [], r1, r2, h => by simpa [commaJoinStr] using h
  | [], y :: ys, r1, r2, h => by
    obtain ⟨c, t, hc, hne⟩ := hhead y
    simp only [List.map_cons, commaJoinStr_cons_jsTail, hc, List.map_nil, commaJoinStr, List.nil_append, List.cons_append,
      List.cons.injEq] at h
    exact absurd h.1.symm hne
  | x :: xs, [], r1, r2, h => by
    obtain ⟨c, t, hc, hne⟩ := hhead x
    simp only [List.map_cons, commaJoinStr_cons_jsTail, hc, List.map_nil, commaJoinStr, List.nil_append, List.cons_append,
      List.cons.injEq] at h
    exact absurd h.1 hne
  | x :: xs, y :: ys, r1, r2, h => by
    simp only [List.map_cons, commaJoinStr_cons_jsTail, List.append_assoc] at h
    have hd : ∀ (zs : List α) (r : Str), JsonStartsDelim (jsCommaTail (zs.map enc) ++ ']' :: r) := by
      intro zs r
      cases zs with
      | nil => exact jsonStartsDelim_bracket _
      | cons z zs => exact jsonStartsDelim_comma _
    obtain ⟨hxy, htl⟩ := hpre x y _ _ (hd xs r1) (hd ys r2) h
    subst hxy
    match xs, ys, htl with
    | [], [], htl => simpa [jsCommaTail] using htl
    | [], _ :: _, htl => simp [jsCommaTail] at htl
    | _ :: _, [], htl => simp [jsCommaTail] at htl
    | x' :: xs', y' :: ys', htl =>
      simp only [List.map_cons, jsCommaTail, List.cons_append, List.cons.injEq, true_and] at htl
      have ih := jsonCommaJoin_prefix_inj enc hpre hhead (x' :: xs') (y' :: ys') r1 r2 (by simpa using htl)
      exact ⟨by rw [ih.1], ih.2⟩

/-! #### strings -/

def jsonHexVal (c : Char) : Nat := if c.toNat < 58 then c.toNat - 48 else c.toNat - 87

/-- reads one (possibly escaped) character of a JSON string body: a left inverse of `jsonEscapeChar` -/
def jsonUnescape : Str → Option (Char × Str)
  | [] => none
  | c :: r =>
    if c = '\\' then
      match r with
      | [] => none
      | e :: r' =>
        if e = '"' then some ('"', r')
        else if e = '\\' then some ('\\', r')
        else if e = 'n' then some ('\n', r')
        else if e = 'r' then some ('\r', r')
        else if e = 't' then some ('\t', r')
        else if e = 'b' then some (Char.ofNat 8, r')
        else if e = 'f' then some (Char.ofNat 12, r')
        else if e = 'u' then
          match r' with
          | _ :: _ :: h1 :: h2 :: r'' => some (Char.ofNat (jsonHexVal h1 * 16 + jsonHexVal h2), r'')
          | _ => none
        else none
    else some (c, r)

theorem jsonHexVal_hexDigitChar : ∀ k, k < 16 → jsonHexVal (hexDigitChar k) = k := by decide

theorem jsChar_eq_of_toNat {c : Char} {n : Nat} (h : c.toNat = n) : c = Char.ofNat n := by
  rw [← h, Char.ofNat_toNat]

theorem jsonUnescape_escape (c : Char) (X : Str) : jsonUnescape (jsonEscapeChar c ++ X) = some (c, X) := by
  unfold jsonEscapeChar
  split
  · next h => subst h; rfl
  split
  · next h => subst h; rfl
  split
  · next h => subst h; rfl
  split
  · next h => subst h; rfl
  split
  · next h => subst h; rfl
  split
  · next h => rw [jsChar_eq_of_toNat h]; rfl
  split
  · next h => rw [jsChar_eq_of_toNat h]; rfl
  split
  · next h =>
    have h1 : c.toNat / 16 < 16 := by omega
    have h2 : c.toNat % 16 < 16 := by omega
    simp only [List.cons_append, jsonUnescape, if_true]
    simp only [show ('u' = '"') = False by decide, show ('u' = '\\') = False by decide, show ('u' = 'n') = False by decide,
      show ('u' = 'r') = False by decide, show ('u' = 't') = False by decide, show ('u' = 'b') = False by decide,
      show ('u' = 'f') = False by decide, if_false]
    rw [jsonHexVal_hexDigitChar _ h1, jsonHexVal_hexDigitChar _ h2]
    have : c.toNat / 16 * 16 + c.toNat % 16 = c.toNat := by omega
    rw [this, Char.ofNat_toNat]
    rfl
  · next _ h _ _ _ _ _ _ =>
    simp [jsonUnescape, h]

theorem jsonEscapeChar_prefix_inj (c1 c2 : Char) (X Y : Str) (h : jsonEscapeChar c1 ++ X = jsonEscapeChar c2 ++ Y) :
    c1 = c2 ∧ X = Y := by
  have h1 := jsonUnescape_escape c1 X
  rw [h, jsonUnescape_escape c2 Y] at h1
  simp only [Option.some.injEq, Prod.mk.injEq] at h1
  exact ⟨h1.1.symm, h1.2.symm⟩

theorem jsonEscapeChar_head (c : Char) : ∃ h t, jsonEscapeChar c = h :: t ∧ h ≠ '"' := by
  unfold jsonEscapeChar
  repeat' split
  all_goals first
    | exact ⟨_, _, rfl, by decide⟩
    | (next h _ _ _ _ _ _ _ => exact ⟨_, _, rfl, h⟩)

theorem jsonBody_prefix_inj : ∀ (s1 s2 : Str) (r1 r2 : Str),
    s1.flatMap jsonEscapeChar ++ '"' :: r1 = s2.flatMap jsonEscapeChar ++ '"' :: r2 → s1 = s2 ∧ r1 = r2
  | [], [], r1, r2, h => by simpa using h
  | [], c :: s2, r1, r2, h => by
    obtain ⟨hd, t, hc, hne⟩ := jsonEscapeChar_head c
    simp only [List.flatMap_nil, List.nil_append, List.flatMap_cons, hc, List.cons_append, List.cons.injEq] at h
    exact absurd h.1.symm hne
  | c :: s1, [], r1, r2, h => by
    obtain ⟨hd, t, hc, hne⟩ := jsonEscapeChar_head c
    simp only [List.flatMap_nil, List.nil_append, List.flatMap_cons, hc, List.cons_append, List.cons.injEq] at h
    exact absurd h.1 hne
  | c1 :: s1, c2 :: s2, r1, r2, h => by
    simp only [List.flatMap_cons, List.append_assoc] at h
    obtain ⟨hc, hrest⟩ := jsonEscapeChar_prefix_inj c1 c2 _ _ h
    have ih := jsonBody_prefix_inj s1 s2 r1 r2 hrest
    exact ⟨by rw [hc, ih.1], ih.2⟩

/-- a JSON string literal is self-delimiting -/
theorem jsonString_prefix_inj (s1 s2 r1 r2 : Str) (h : jsonString s1 ++ r1 = jsonString s2 ++ r2) : s1 = s2 ∧ r1 = r2 := by
  unfold jsonString at h
  simp only [List.cons_append, List.append_assoc, List.cons.injEq, true_and, List.nil_append] at h
  exact jsonBody_prefix_inj s1 s2 r1 r2 h

theorem jsonString_injective (s1 s2 : Str) (h : jsonString s1 = jsonString s2) : s1 = s2 :=
  (jsonString_prefix_inj s1 s2 [] [] (by simpa using h)).1

/-! #### numbers: which characters occur -/

def JsNumChar (c : Char) : Prop := c.isDigit = true ∨ c = '-' ∨ c = '.' ∨ c = '/'

theorem jsDigit_ofNat_isDigit : ∀ k, k < 10 → (Char.ofNat (48 + k)).isDigit = true := by decide

theorem fracDigits_isDigit : ∀ (fuel r d : Nat) (ds : Str), r < d → fracDigits fuel r d = some ds → ∀ c ∈ ds, c.isDigit = true
  | _, 0, _, ds, _, h => by
    rw [fracDigits.eq_def] at h
    simp at h
    subst h; simp
  | 0, r + 1, _, ds, _, h => by simp [fracDigits] at h
  | fuel + 1, r + 1, d, ds, hr, h => by
    rw [fracDigits] at h
    case x_3 => omega
    simp only [Option.map_eq_some_iff] at h
    obtain ⟨ds', hds', rfl⟩ := h
    have hd : 0 < d := by omega
    have ih := fracDigits_isDigit fuel (((r + 1) * 10) % d) d ds' (Nat.mod_lt _ hd) hds'
    intro c hc
    rcases List.mem_cons.mp hc with rfl | hc
    · apply jsDigit_ofNat_isDigit
      rw [Nat.div_lt_iff_lt_mul hd]
      omega
    · exact ih c hc

theorem natDigitsJs_isDigit (n : Nat) : ∀ c ∈ natDigitsJs n, c.isDigit = true :=
  fun _ hc => Nat.isDigit_of_mem_toDigits (by decide) (by decide) hc

theorem natDigitsJs_head (n : Nat) : ∃ h t, natDigitsJs n = h :: t ∧ h.isDigit = true := by
  have hne : natDigitsJs n ≠ [] := Nat.toDigits_ne_nil
  match hm : natDigitsJs n with
  | [] => exact absurd hm hne
  | h :: t => exact ⟨h, t, rfl, natDigitsJs_isDigit n h (by simp [hm])⟩

theorem jsNumRepr_chars (q : Rat) : ∀ c ∈ jsNumRepr q, JsNumChar c := by
  intro c hc
  unfold jsNumRepr at hc
  have hsign : ∀ c ∈ (if q.num < 0 then ['-'] else ([] : Str)), JsNumChar c := by
    intro c hc
    split at hc
    · simp at hc; exact Or.inr (Or.inl hc)
    · simp at hc
  simp only at hc
  split at hc
  · rcases List.mem_append.mp hc with h | h
    · exact hsign c h
    · exact Or.inl (natDigitsJs_isDigit _ c h)
  · split at hc
    · next ds hds =>
      simp only [List.append_assoc, List.mem_append, List.mem_cons, List.not_mem_nil, or_false] at hc
      rcases hc with h | h | h | h
      · exact hsign c h
      · exact Or.inl (natDigitsJs_isDigit _ c h)
      · exact Or.inr (Or.inr (Or.inl h))
      · exact Or.inl (fracDigits_isDigit _ _ _ ds (Nat.mod_lt _ q.den_pos) hds c h)
    · simp only [List.append_assoc, List.mem_append, List.mem_cons, List.not_mem_nil, or_false] at hc
      rcases hc with h | h | h | h
      · exact hsign c h
      · exact Or.inl (natDigitsJs_isDigit _ c h)
      · exact Or.inr (Or.inr (Or.inr h))
      · exact Or.inl (natDigitsJs_isDigit _ c h)

theorem jsNumRepr_head (q : Rat) : ∃ h t, jsNumRepr q = h :: t ∧ (h.isDigit = true ∨ h = '-') := by
  have key : ∀ (body : Str), (∃ h t, body = h :: t ∧ h.isDigit = true) →
      ∃ h t, (if q.num < 0 then ['-'] else ([] : Str)) ++ body = h :: t ∧ (h.isDigit = true ∨ h = '-') := by
    rintro body ⟨h, t, rfl, hd⟩
    split
    · exact ⟨'-', _, rfl, Or.inr rfl⟩
    · exact ⟨h, t, rfl, Or.inl hd⟩
  unfold jsNumRepr
  simp only
  split
  · exact key _ (natDigitsJs_head _)
  · split
    · obtain ⟨h, t, ht, hd⟩ := natDigitsJs_head (q.num.natAbs / q.den)
      simp only [List.append_assoc]
      exact key _ ⟨h, t ++ (['.'] ++ _), by rw [ht]; rfl, hd⟩
    · obtain ⟨h, t, ht, hd⟩ := natDigitsJs_head q.num.natAbs
      simp only [List.append_assoc]
      exact key _ ⟨h, t ++ (['/'] ++ _), by rw [ht]; rfl, hd⟩

theorem jsNumChar_ne {c : Char} (h : JsNumChar c) :
    c ≠ ',' ∧ c ≠ ']' ∧ c ≠ '[' ∧ c ≠ '"' ∧ c ≠ 'n' ∧ c ≠ 't' ∧ c ≠ 'f' := by
  rcases h with h | rfl | rfl | rfl
  · refine ⟨?_, ?_, ?_, ?_, ?_, ?_, ?_⟩ <;> (rintro rfl; revert h; decide)
  all_goals decide

/-! #### atoms, values, records -/

def Atom.jsIsStr : Atom → Bool
  | .str _ => true
  | _ => false

theorem jsonAtom_plain (a : Atom) (ha : a.jsIsStr = false) : ∀ c ∈ jsonAtom a, c ≠ ',' ∧ c ≠ ']' := by
  cases a with
  | str s => simp [Atom.jsIsStr] at ha
  | none => decide
  | bool b => cases b <;> decide
  | num q => intro c hc; have := jsNumChar_ne (jsNumRepr_chars q c hc); exact ⟨this.1, this.2.1⟩

/-- the first character of an atom's text: never a bracket, a quote exactly for strings -/
theorem jsonAtom_head (a : Atom) :
    ∃ h t, jsonAtom a = h :: t ∧ h ≠ ']' ∧ h ≠ '[' ∧ (a.jsIsStr = false → h ≠ '"') ∧ (a.jsIsStr = true → h = '"') := by
  cases a with
  | str s => exact ⟨'"', _, rfl, by decide, by decide, by simp [Atom.jsIsStr], fun _ => rfl⟩
  | none => exact ⟨'n', _, rfl, by decide, by decide, fun _ => by decide, by simp [Atom.jsIsStr]⟩
  | bool b => cases b
              · exact ⟨'f', _, rfl, by decide, by decide, fun _ => by decide, by simp [Atom.jsIsStr]⟩
              · exact ⟨'t', _, rfl, by decide, by decide, fun _ => by decide, by simp [Atom.jsIsStr]⟩
  | num q =>
    obtain ⟨h, t, ht, hd⟩ := jsNumRepr_head q
    have hn : JsNumChar h := by rcases hd with hd | hd; exact Or.inl hd; exact Or.inr (Or.inl hd)
    have := jsNumChar_ne hn
    exact ⟨h, t, ht, this.2.1, this.2.2.1, fun _ => this.2.2.2.1, by simp [Atom.jsIsStr]⟩

theorem jsonAtom_nonstr_inj (hnum : ∀ q1 q2 : Rat, jsNumRepr q1 = jsNumRepr q2 → q1 = q2)
    (a b : Atom) (ha : a.jsIsStr = false) (hb : b.jsIsStr = false) (h : jsonAtom a = jsonAtom b) : a = b := by
  have hq : ∀ (q : Rat) (c : Char) (t : Str), (c = 'n' ∨ c = 't' ∨ c = 'f') → jsNumRepr q ≠ c :: t := by
    intro q c t hc heq
    have := jsNumChar_ne (jsNumRepr_chars q c (by rw [heq]; simp))
    rcases hc with rfl | rfl | rfl <;> simp_all
  cases a with
  | str s => simp [Atom.jsIsStr] at ha
  | none =>
    cases b with
    | str s => simp [Atom.jsIsStr] at hb
    | none => rfl
    | bool b => cases b <;> exact absurd h (by decide)
    | num q => exact absurd h.symm (hq q 'n' _ (Or.inl rfl))
  | bool x =>
    cases b with
    | str s => simp [Atom.jsIsStr] at hb
    | none => cases x <;> exact absurd h (by decide)
    | bool y => cases x <;> cases y <;> first | rfl | exact absurd h (by decide)
    | num q => cases x
               · exact absurd h.symm (hq q 'f' _ (Or.inr (Or.inr rfl)))
               · exact absurd h.symm (hq q 't' _ (Or.inr (Or.inl rfl)))
  | num p =>
    cases b with
    | str s => simp [Atom.jsIsStr] at hb
    | none => exact absurd h (hq p 'n' _ (Or.inl rfl))
    | bool y => cases y
                · exact absurd h (hq p 'f' _ (Or.inr (Or.inr rfl)))
                · exact absurd h (hq p 't' _ (Or.inr (Or.inl rfl)))
    | num q => rw [hnum p q h]

/-- a scalar's text followed by a delimiter determines the scalar -/
theorem jsonAtom_prefix_inj (hnum : ∀ q1 q2 : Rat, jsNumRepr q1 = jsNumRepr q2 → q1 = q2)
    (a b : Atom) (r1 r2 : Str) (hr1 : JsonStartsDelim r1) (hr2 : JsonStartsDelim r2) (h : jsonAtom a ++ r1 = jsonAtom b ++ r2) :
    a = b ∧ r1 = r2 := by
  cases ha : a.jsIsStr <;> cases hb : b.jsIsStr
  · obtain ⟨ht, hr⟩ := jsonPlain_prefix_inj _ _ r1 r2 (jsonAtom_plain a ha) (jsonAtom_plain b hb) hr1 hr2 h
    exact ⟨jsonAtom_nonstr_inj hnum a b ha hb ht, hr⟩
  · obtain ⟨h1, t1, e1, _, _, n1, _⟩ := jsonAtom_head a
    obtain ⟨h2, t2, e2, _, _, _, q2⟩ := jsonAtom_head b
    rw [e1, e2] at h
    simp only [List.cons_append, List.cons.injEq] at h
    exact absurd (h.1.trans (q2 hb)) (n1 ha)
  · obtain ⟨h1, t1, e1, _, _, _, q1⟩ := jsonAtom_head a
    obtain ⟨h2, t2, e2, _, _, n2, _⟩ := jsonAtom_head b
    rw [e1, e2] at h
    simp only [List.cons_append, List.cons.injEq] at h
    exact absurd (h.1.symm.trans (q1 ha)) (n2 hb)
  · cases a <;> simp [Atom.jsIsStr] at ha
    cases b <;> simp [Atom.jsIsStr] at hb
    obtain ⟨hs, hr⟩ := jsonString_prefix_inj _ _ r1 r2 h
    exact ⟨by rw [hs], hr⟩

theorem jsonAtoms_prefix_inj (hnum : ∀ q1 q2 : Rat, jsNumRepr q1 = jsNumRepr q2 → q1 = q2)
    (xs ys : List Atom) (r1 r2 : Str)
    (h : commaJoinStr (xs.map jsonAtom) ++ ']' :: r1 = commaJoinStr (ys.map jsonAtom) ++ ']' :: r2) : xs = ys ∧ r1 = r2 :=
  jsonCommaJoin_prefix_inj jsonAtom (jsonAtom_prefix_inj hnum)
    (fun a => by obtain ⟨h, t, e, hne, _⟩ := jsonAtom_head a; exact ⟨h, t, e, hne⟩) xs ys r1 r2 h

theorem jsonVal_head (v : Val) : ∃ h t, jsonVal v = h :: t ∧ h ≠ ']' := by
  cases v with
  | «at» a => obtain ⟨h, t, e, hne, _⟩ := jsonAtom_head a; exact ⟨h, t, e, hne⟩
  | list xs => exact ⟨'[', _, rfl, by decide⟩

theorem jsonVal_prefix_inj (hnum : ∀ q1 q2 : Rat, jsNumRepr q1 = jsNumRepr q2 → q1 = q2)
    (a b : Val) (r1 r2 : Str) (hr1 : JsonStartsDelim r1) (hr2 : JsonStartsDelim r2) (h : jsonVal a ++ r1 = jsonVal b ++ r2) :
    a = b ∧ r1 = r2 := by
  cases a with
  | «at» x =>
    cases b with
    | «at» y =>
      obtain ⟨hxy, hr⟩ := jsonAtom_prefix_inj hnum x y r1 r2 hr1 hr2 h
      exact ⟨by rw [hxy], hr⟩
    | list ys =>
      obtain ⟨h1, t1, e1, _, n1, _⟩ := jsonAtom_head x
      simp only [jsonVal, e1, List.cons_append, List.cons.injEq] at h
      exact absurd h.1 n1
  | list xs =>
    cases b with
    | «at» y =>
      obtain ⟨h1, t1, e1, _, n1, _⟩ := jsonAtom_head y
      simp only [jsonVal, e1, List.cons_append, List.cons.injEq] at h
      exact absurd h.1.symm n1
    | list ys =>
      simp only [jsonVal, List.cons_append, List.append_assoc, List.cons.injEq, true_and, List.nil_append] at h
      obtain ⟨hxy, hr⟩ := jsonAtoms_prefix_inj hnum xs ys r1 r2 h
      exact ⟨by rw [hxy], hr⟩

/-- JSON.stringify identifies records exactly: different records have different texts (for numbers: under `hnum`) -/
theorem jsonRow_injective_of (r1 r2 : List Val)
    (hnum : ∀ q1 q2 : Rat, jsNumRepr q1 = jsNumRepr q2 → q1 = q2) (h : jsonRow r1 = jsonRow r2) : r1 = r2 := by
  unfold jsonRow at h
  simp only [List.cons_append, List.cons.injEq, true_and] at h
  exact (jsonCommaJoin_prefix_inj jsonVal (jsonVal_prefix_inj hnum) jsonVal_head r1 r2 [] [] h).1

/-! #### numbers: the text determines the number (a left inverse of `jsNumRepr`) -/

/-- reads an unsigned number text back: `digits`, `digits.digits` or the fallback `digits/digits` -/
def jsNumParseBody (sgn : Int) (body : Str) : Rat :=
  let ip := body.takeWhile Char.isDigit
  match body.dropWhile Char.isDigit with
  | '.' :: ds => mkRat (sgn * (Nat.ofDigitChars 10 (ip ++ ds) 0 : Nat)) (10 ^ ds.length)
  | '/' :: ds => mkRat (sgn * (Nat.ofDigitChars 10 ip 0 : Nat)) (Nat.ofDigitChars 10 ds 0)
  | _ => ((sgn * (Nat.ofDigitChars 10 ip 0 : Nat) : Int) : Rat)

/-- reads a number text back (left inverse of `jsNumRepr`, see `jsNumParse_repr`) -/
def jsNumParse (t : Str) : Rat :=
  if t.head? = some '-' then jsNumParseBody (-1) t.tail else jsNumParseBody 1 t

theorem jsDigit_ofNat_val : ∀ k, k < 10 → (Char.ofNat (48 + k)).toNat - '0'.toNat = k := by decide

/-- the digits produced by `fracDigits` are the exact decimal expansion of `r / d` -/
theorem fracDigits_value : ∀ (fuel r d : Nat) (ds : Str), r < d → fracDigits fuel r d = some ds →
    r * 10 ^ ds.length = Nat.ofDigitChars 10 ds 0 * d
  | _, 0, _, ds, _, h => by
    rw [fracDigits.eq_def] at h
    simp at h
    subst h; simp
  | 0, r + 1, _, ds, _, h => by simp [fracDigits] at h
  | fuel + 1, r + 1, d, ds, hr, h => by
    rw [fracDigits] at h
    case x_3 => omega
    simp only [Option.map_eq_some_iff] at h
    obtain ⟨ds', hds', rfl⟩ := h
    have hd : 0 < d := by omega
    have ih := fracDigits_value fuel (((r + 1) * 10) % d) d ds' (Nat.mod_lt _ hd) hds'
    have hq : (r + 1) * 10 / d < 10 := by rw [Nat.div_lt_iff_lt_mul hd]; omega
    rw [Nat.ofDigitChars_cons, Nat.ofDigitChars_eq_ofDigitChars_zero, jsDigit_ofNat_val _ hq]
    have hdm := Nat.div_add_mod ((r + 1) * 10) d
    simp only [List.length_cons, Nat.mul_zero, Nat.zero_add, Nat.pow_succ]
    generalize (r + 1) * 10 / d = Q at *
    generalize (r + 1) * 10 % d = R at *
    generalize Nat.ofDigitChars 10 ds' 0 = V at *
    generalize 10 ^ ds'.length = P at *
    grind

theorem jsNumParseBody_int (sgn : Int) (ip : Str) (hip : ∀ c ∈ ip, c.isDigit = true) :
    jsNumParseBody sgn ip = ((sgn * (Nat.ofDigitChars 10 ip 0 : Nat) : Int) : Rat) := by
  have h1 : ip.takeWhile Char.isDigit = ip := by
    have := List.takeWhile_append_of_pos (p := Char.isDigit) (l₁ := ip) (l₂ := []) hip
    simpa using this
  have h2 : ip.dropWhile Char.isDigit = [] := by
    have := List.dropWhile_append_of_pos (p := Char.isDigit) (l₁ := ip) (l₂ := []) hip
    simpa using this
  simp only [jsNumParseBody, h1, h2]

theorem jsNumParseBody_dot (sgn : Int) (ip ds : Str) (hip : ∀ c ∈ ip, c.isDigit = true) :
    jsNumParseBody sgn (ip ++ '.' :: ds) = mkRat (sgn * (Nat.ofDigitChars 10 (ip ++ ds) 0 : Nat)) (10 ^ ds.length) := by
  have h1 : (ip ++ '.' :: ds).takeWhile Char.isDigit = ip := by
    rw [List.takeWhile_append_of_pos hip, List.takeWhile_cons_of_neg (by decide)]; simp
  have h2 : (ip ++ '.' :: ds).dropWhile Char.isDigit = '.' :: ds := by
    rw [List.dropWhile_append_of_pos hip, List.dropWhile_cons_of_neg (by decide)]
  simp only [jsNumParseBody, h1, h2]

theorem jsNumParseBody_slash (sgn : Int) (ip ds : Str) (hip : ∀ c ∈ ip, c.isDigit = true) :
    jsNumParseBody sgn (ip ++ '/' :: ds) = mkRat (sgn * (Nat.ofDigitChars 10 ip 0 : Nat)) (Nat.ofDigitChars 10 ds 0) := by
  have h1 : (ip ++ '/' :: ds).takeWhile Char.isDigit = ip := by
    rw [List.takeWhile_append_of_pos hip, List.takeWhile_cons_of_neg (by decide)]; simp
  have h2 : (ip ++ '/' :: ds).dropWhile Char.isDigit = '/' :: ds := by
    rw [List.dropWhile_append_of_pos hip, List.dropWhile_cons_of_neg (by decide)]
  simp only [jsNumParseBody, h1, h2]

theorem jsNumParse_sign (neg : Bool) (body : Str) (hb : ∃ h t, body = h :: t ∧ h.isDigit = true) :
    jsNumParse ((if neg then ['-'] else ([] : Str)) ++ body) = jsNumParseBody (if neg then -1 else 1) body := by
  obtain ⟨h, t, rfl, hd⟩ := hb
  cases neg
  · have : h ≠ '-' := by rintro rfl; revert hd; decide
    simp [jsNumParse, this]
  · simp [jsNumParse]

/-- the text of a number determines the number -/
theorem jsNumParse_repr (q : Rat) : jsNumParse (jsNumRepr q) = q := by
  have hsgn : (if decide (q.num < 0) = true then (-1 : Int) else 1) * (q.num.natAbs : Int) = q.num := by
    by_cases h : q.num < 0 <;> simp [h] <;> omega
  have hrepr : jsNumRepr q = (if decide (q.num < 0) then ['-'] else ([] : Str)) ++
      (if q.den = 1 then natDigitsJs q.num.natAbs
       else match fracDigits 17 (q.num.natAbs % q.den) q.den with
         | some ds => natDigitsJs (q.num.natAbs / q.den) ++ '.' :: ds
         | none => natDigitsJs q.num.natAbs ++ '/' :: natDigitsJs q.den) := by
    unfold jsNumRepr
    simp only [decide_eq_true_eq]
    split
    · rfl
    · cases fracDigits 17 (q.num.natAbs % q.den) q.den <;> simp
  rw [hrepr, jsNumParse_sign]
  · generalize (if decide (q.num < 0) = true then (-1 : Int) else 1) = sgn at hsgn ⊢
    split
    · next hden =>
      rw [jsNumParseBody_int _ _ (natDigitsJs_isDigit _)]
      simp only [natDigitsJs, Nat.ofDigitChars_ten_toDigits, hsgn]
      exact Rat.ext (by simp) (by simp [hden])
    · split
      · next ds hds =>
        rw [jsNumParseBody_dot _ _ _ (natDigitsJs_isDigit _)]
        have hv := fracDigits_value 17 _ _ ds (Nat.mod_lt _ q.den_pos) hds
        rw [Nat.ofDigitChars_append, Nat.ofDigitChars_eq_ofDigitChars_zero]
        simp only [natDigitsJs, Nat.ofDigitChars_ten_toDigits]
        have hN : (10 ^ ds.length * (q.num.natAbs / q.den) + Nat.ofDigitChars 10 ds 0) * q.den
            = q.num.natAbs * 10 ^ ds.length := by
          have hdm := Nat.div_add_mod q.num.natAbs q.den
          generalize q.num.natAbs / q.den = Q at *
          generalize q.num.natAbs % q.den = R at *
          generalize Nat.ofDigitChars 10 ds 0 = V at *
          generalize 10 ^ ds.length = P at *
          grind
        refine Eq.trans ?_ (Rat.mkRat_self q)
        rw [Rat.mkRat_eq_iff (Nat.pos_iff_ne_zero.mp (Nat.pow_pos (by decide))) q.den_nz]
        rw [Int.mul_assoc, ← Int.natCast_mul, hN, Int.natCast_mul, ← Int.mul_assoc, hsgn]
      · rw [jsNumParseBody_slash _ _ _ (natDigitsJs_isDigit _)]
        simp only [natDigitsJs, Nat.ofDigitChars_ten_toDigits, hsgn]
        exact Rat.mkRat_self q
  · split
    · exact natDigitsJs_head _
    · split
      · obtain ⟨h, t, ht, hd⟩ := natDigitsJs_head (q.num.natAbs / q.den)
        exact ⟨h, t ++ '.' :: _, by rw [ht]; rfl, hd⟩
      · obtain ⟨h, t, ht, hd⟩ := natDigitsJs_head q.num.natAbs
        exact ⟨h, t ++ '/' :: _, by rw [ht]; rfl, hd⟩

theorem jsNumRepr_injective (q1 q2 : Rat) (h : jsNumRepr q1 = jsNumRepr q2) : q1 = q2 := by
  rw [← jsNumParse_repr q1, ← jsNumParse_repr q2, h]

/-- JSON.stringify identifies records exactly -/
theorem jsonRow_injective (r1 r2 : List Val) (h : jsonRow r1 = jsonRow r2) : r1 = r2 :=
  jsonRow_injective_of r1 r2 jsNumRepr_injective h

/-! ### when the JavaScript comparison is the reference comparison -/

/-- no character outside the Basic Multilingual Plane (so one UTF-16 unit per character) -/
def bmpStr (s : Str) : Bool := s.all (fun c => c.toNat < 0x10000)

/-- the kinds of key component that both ports order the same way: numbers (`some true`), BMP strings (`some false`) -/
def jsKeyKind : Val → Option Bool
  | .at (.num _) => some true
  | .at (.str s) => if bmpStr s then some false else none
  | _ => none

/-- every key has `n` components and, position by position, all keys hold numbers or all hold BMP strings -/
def jsUniformKeys (n : Nat) (ks : List (List Val)) : Bool :=
  ks.all (fun k => k.length == n && k.all (fun v => (jsKeyKind v).isSome)) &&
  ks.all (fun a => ks.all (fun b => a.map jsKeyKind == b.map jsKeyKind))

theorem utf16Units_bmp : ∀ (s : Str), bmpStr s = true → utf16Units s = s.map Char.toNat
  | [], _ => rfl
  | c :: s, h => by
    simp only [bmpStr, List.all_cons, Bool.and_eq_true, decide_eq_true_eq] at h
    have ih := utf16Units_bmp s (by simpa [bmpStr] using h.2)
    simp only [utf16Units, List.flatMap_cons, h.1, if_true, List.map_cons] at ih ⊢
    rw [ih]; rfl

/-- three-way: code-unit order of BMP strings is `strCmp` -/
theorem strCmp_unitsLt : ∀ (a b : Str),
    (a = b ∧ strCmp a b = .eq) ∨
    (a ≠ b ∧ unitsLt (a.map Char.toNat) (b.map Char.toNat) = true ∧ strCmp a b = .lt) ∨
    (a ≠ b ∧ unitsLt (a.map Char.toNat) (b.map Char.toNat) = false ∧ strCmp a b = .gt)
  | [], [] => Or.inl ⟨rfl, rfl⟩
  | [], _ :: _ => Or.inr (Or.inl ⟨by simp, rfl, rfl⟩)
  | _ :: _, [] => Or.inr (Or.inr ⟨by simp, rfl, rfl⟩)
  | x :: a, y :: b => by
    simp only [List.map_cons, unitsLt, strCmp]
    by_cases h1 : x.toNat < y.toNat
    · have : x ≠ y := by rintro rfl; omega
      simp [h1, this]
    · by_cases h2 : y.toNat < x.toNat
      · have : x ≠ y := by rintro rfl; omega
        simp [h1, h2, this]
      · have hxy : x = y := Char.toNat_inj.mp (by omega)
        subst hxy
        simp only [h1, if_false]
        rcases strCmp_unitsLt a b with ⟨h, hc⟩ | ⟨h, hu, hc⟩ | ⟨h, hu, hc⟩
        · exact Or.inl ⟨by rw [h], hc⟩
        · exact Or.inr (Or.inl ⟨by simpa using h, hu, hc⟩)
        · exact Or.inr (Or.inr ⟨by simpa using h, hu, hc⟩)

/-- three-way agreement of one key component of the same (orderable) kind -/
theorem jsVal_cmp_agree (a b : Val) (hk : jsKeyKind a = jsKeyKind b) (hs : (jsKeyKind a).isSome = true) :
    (jsValNe a b = false ∧ valCmp a b = .eq) ∨
    (jsValNe a b = true ∧ jsValLt a b = true ∧ valCmp a b = .lt) ∨
    (jsValNe a b = true ∧ jsValLt a b = false ∧ valCmp a b = .gt) := by
  match a, b with
  | .at (.num p), .at (.num q) =>
    simp only [jsValNe, jsAtomNe, jsValLt, jsAtomLt, valCmp, atomCmp]
    by_cases h1 : p < q
    · have : p ≠ q := Rat.ne_of_lt h1
      simp [h1, this]
    · by_cases h2 : q < p
      · have : p ≠ q := fun h => Rat.ne_of_lt h2 h.symm
        simp [h1, h2, this]
      · have : p = q := Rat.le_antisymm (Rat.not_lt.mp h2) (Rat.not_lt.mp h1)
        subst this
        simp [h1]
  | .at (.str s), .at (.str t) =>
    have hs' : bmpStr s = true := by
      simp only [jsKeyKind] at hs; split at hs <;> simp_all
    have ht' : bmpStr t = true := by
      simp only [jsKeyKind, hs', if_true] at hk; split at hk <;> simp_all
    simp only [jsValNe, jsAtomNe, jsValLt, jsAtomLt, valCmp, atomCmp, utf16Units_bmp s hs', utf16Units_bmp t ht']
    rcases strCmp_unitsLt s t with ⟨h, hc⟩ | ⟨h, hu, hc⟩ | ⟨h, hu, hc⟩
    · subst h; simp [hc]
    · simp [h, hu, hc]
    · simp [h, hu, hc]
  | .at (.num p), .at (.str t) => simp only [jsKeyKind] at hk; split at hk <;> simp at hk
  | .at (.str s), .at (.num q) => simp only [jsKeyKind] at hk hs; split at hk <;> simp_all
  | .at .none, _ => simp [jsKeyKind] at hs
  | .at (.bool _), _ => simp [jsKeyKind] at hs
  | .list _, _ => simp [jsKeyKind] at hs
  | .at (.num p), .at .none => simp [jsKeyKind] at hk
  | .at (.num p), .at (.bool _) => simp [jsKeyKind] at hk
  | .at (.num p), .list _ => simp [jsKeyKind] at hk
  | .at (.str s), .at .none => simp only [jsKeyKind] at hk hs; split at hk <;> simp_all
  | .at (.str s), .at (.bool _) => simp only [jsKeyKind] at hk hs; split at hk <;> simp_all
  | .at (.str s), .list _ => simp only [jsKeyKind] at hk hs; split at hk <;> simp_all

/-- on keys of one orderable shape both JavaScript comparisons ARE the reference comparison (as three-way results) -/
theorem jsCompare_eq_keyCmp : ∀ (k1 k2 : List Val), k1.map jsKeyKind = k2.map jsKeyKind →
    k1.all (fun v => (jsKeyKind v).isSome) = true →
    jsStableCompare k1 k2 = keyCmp k1 k2 ∧ jsCompareKeyArrays k1 k2 = keyCmp k1 k2
  | [], [], _, _ => ⟨rfl, rfl⟩
  | [], _ :: _, h, _ => by simp at h
  | _ :: _, [], h, _ => by simp at h
  | a :: as, b :: bs, h, hs => by
    simp only [List.map_cons, List.cons.injEq] at h
    simp only [List.all_cons, Bool.and_eq_true] at hs
    have ih := jsCompare_eq_keyCmp as bs h.2 hs.2
    simp only [jsStableCompare, jsCompareKeyArrays, keyCmp]
    rcases jsVal_cmp_agree a b h.1 hs.1 with ⟨hn, hc⟩ | ⟨hn, hl, hc⟩ | ⟨hn, hl, hc⟩
    · simp [hn, hc, ih]
    · simp [hn, hl, hc]
    · simp [hn, hl, hc]

theorem jsUniformKeys_agree (n : Nat) (ks : List (List Val)) (hu : jsUniformKeys n ks = true) :
    ∀ k1 ∈ ks, ∀ k2 ∈ ks,
      (jsStableCompare k1 k2 != .gt) = keyLe k1 k2 ∧ (jsCompareKeyArrays k1 k2 != .gt) = keyLe k1 k2 := by
  intro k1 h1 k2 h2
  simp only [jsUniformKeys, Bool.and_eq_true, List.all_eq_true, beq_iff_eq] at hu
  have := jsCompare_eq_keyCmp k1 k2 (hu.2 k1 h1 k2 h2) (by simpa [List.all_eq_true] using (hu.1 k1 h1).2)
  simp [keyLe, this.1, this.2]

end Rbql
