/-
  Bridge between the operational engine model (`Rbql.Model.Engine`) and its specification layer
  (`Rbql.Spec.EngineSpec`):

  (1) the hash-join map refines "filter B by key" (`joinMap_build_ok`, `joinMap_build_err`);
  (2) for non-aggregate SELECT queries the main loop is `Chain.feedStop` on the emissions
      (`mainLoop_bridge`);
  (3) errors name the first offending record (`mainLoop_first_error`).
-/
import Rbql.Spec.EngineSpec
namespace Rbql

/-! ## (1) the hash join map -/

/-- the first (in ON-clause order) key field that record `fields` (number `nr`) lacks -/
def missingField (rhs : List (Option Nat)) (nr : Nat) (fields : Row) : Option EngErr :=
  rhs.findSome? (fun ki => match ki with
    | some i => if fields.length ≤ i then some (EngErr.joinB nr (i + 1)) else none
    | none => none)

theorem rhsKey_of_missing_none (rhs : List (Option Nat)) (nr : Nat) (fields : Row)
    (h : missingField rhs nr fields = none) :
    ∃ k, rhsKey rhs nr fields = .ok k ∧ rhsKeyOf rhs nr fields = some k := by
  induction rhs with
  | nil => exact ⟨[], rfl, rfl⟩
  | cons ki rest ih =>
    simp only [missingField, List.findSome?_cons] at h
    cases ki with
    | none =>
      simp only at h
      obtain ⟨k, hk1, hk2⟩ := ih h
      refine ⟨Val.nat nr :: k, ?_, ?_⟩
      · simp only [rhsKey, List.mapM_cons] at hk1 ⊢
        rw [hk1]; rfl
      · simp only [rhsKeyOf, List.mapM_cons] at hk2 ⊢
        rw [hk2]; rfl
    | some i =>
      simp only at h
      by_cases hi : fields.length ≤ i
      · simp [hi] at h
      · simp only [hi, if_false] at h
        obtain ⟨k, hk1, hk2⟩ := ih h
        refine ⟨fields.getD i Val.none :: k, ?_, ?_⟩
        · simp only [rhsKey, List.mapM_cons, hi, if_false] at hk1 ⊢
          rw [hk1]; rfl
        · simp only [rhsKeyOf, List.mapM_cons, hi, if_false] at hk2 ⊢
          rw [hk2]; rfl

theorem rhsKey_of_missing_some (rhs : List (Option Nat)) (nr : Nat) (fields : Row) (e : EngErr)
    (h : missingField rhs nr fields = some e) :
    rhsKey rhs nr fields = .error e ∧ rhsKeyOf rhs nr fields = none := by
  induction rhs with
  | nil => simp [missingField] at h
  | cons ki rest ih =>
    simp only [missingField, List.findSome?_cons] at h
    cases ki with
    | none =>
      simp only at h
      obtain ⟨h1, h2⟩ := ih h
      constructor
      · simp only [rhsKey, List.mapM_cons] at h1 ⊢
        rw [h1]; rfl
      · simp only [rhsKeyOf, List.mapM_cons] at h2 ⊢
        rw [h2]; rfl
    | some i =>
      simp only at h
      by_cases hi : fields.length ≤ i
      · simp only [hi, if_true, Option.some.injEq] at h
        subst h
        constructor
        · simp only [rhsKey, List.mapM_cons, hi, if_true]; rfl
        · simp only [rhsKeyOf, List.mapM_cons, hi, if_true]; rfl
      · simp only [hi, if_false] at h
        obtain ⟨h1, h2⟩ := ih h
        constructor
        · simp only [rhsKey, List.mapM_cons, hi, if_false] at h1 ⊢
          rw [h1]; rfl
        · simp only [rhsKeyOf, List.mapM_cons, hi, if_false] at h2 ⊢
          rw [h2]; rfl

/-- `rhsKey` fails exactly when `rhsKeyOf` is `none` -/
theorem rhsKey_error_iff (rhs : List (Option Nat)) (nr : Nat) (fields : Row) :
    (∃ e, rhsKey rhs nr fields = .error e) ↔ rhsKeyOf rhs nr fields = none := by
  cases h : missingField rhs nr fields with
  | none =>
    obtain ⟨k, h1, h2⟩ := rhsKey_of_missing_none rhs nr fields h
    simp [h1, h2]
  | some e =>
    obtain ⟨h1, h2⟩ := rhsKey_of_missing_some rhs nr fields e h
    simp [h1, h2]

theorem get_addJoinEntry (es : List (List Val × List (Nat × Nat × Row))) (k : List Val)
    (e : Nat × Nat × Row) (m : Nat) (key : List Val) :
    JoinMap.get { entries := addJoinEntry es k e, maxLen := m } key =
      if k = key then JoinMap.get { entries := es, maxLen := m } key ++ [e]
      else JoinMap.get { entries := es, maxLen := m } key := by
  induction es with
  | nil =>
    by_cases hk : k = key <;> simp [JoinMap.get, addJoinEntry, hk]
  | cons hd tl ih =>
    obtain ⟨k', es'⟩ := hd
    simp only [JoinMap.get] at ih ⊢
    by_cases hk' : k' = k
    · subst hk'
      by_cases hk : k' = key
      · simp [addJoinEntry, hk]
      · simp [addJoinEntry, hk]
    · by_cases hk : k' = key
      · have : ¬ k = key := fun h => hk' (h ▸ hk ▸ rfl)
        subst hk
        simp [addJoinEntry, hk', this]
      · simp only [addJoinEntry, hk', if_false, List.find?_cons, hk, decide_false]
        exact ih

/-- partners among the records of `B` numbered from `n + 1` -/
def partnersFrom (rhs : List (Option Nat)) (B : Table) (n : Nat) (key : List Val) : List (Nat × Row) :=
  ((B.zipIdx n).filter (fun p => rhsKeyOf rhs (p.2 + 1) p.1 == some key)).map (fun p => (p.2 + 1, p.1))

def joinBErrorFrom (rhs : List (Option Nat)) (B : Table) (n : Nat) : Option EngErr :=
  (B.zipIdx n).findSome? (fun p => missingField rhs (p.2 + 1) p.1)

theorem joinBError_eq (rhs : List (Option Nat)) (B : Table) : joinBError rhs B = joinBErrorFrom rhs B 0 := rfl

theorem partnersSpec_eq (rhs : List (Option Nat)) (B : Table) (key : List Val) :
    partnersSpec rhs B key = partnersFrom rhs B 0 key := rfl

theorem build_inv_ok (rhs : List (Option Nat)) (B : Table) (n : Nat) (jm0 : JoinMap)
    (h : joinBErrorFrom rhs B n = none) :
    ∃ jm, JoinMap.build rhs B n jm0 = .ok jm ∧
      jm.maxLen = B.foldl (fun m r => max m r.length) jm0.maxLen ∧
      ∀ key, jm.get key = jm0.get key ++ (partnersFrom rhs B n key).map (fun p => (p.1, p.2.length, p.2)) := by
  induction B generalizing n jm0 with
  | nil => exact ⟨jm0, rfl, rfl, by simp [partnersFrom]⟩
  | cons fields rest ih =>
    simp only [joinBErrorFrom, List.zipIdx_cons, List.findSome?_cons] at h
    cases hm : missingField rhs (n + 1) fields with
    | some e => simp [hm] at h
    | none =>
      simp only [hm] at h
      obtain ⟨k, hk1, hk2⟩ := rhsKey_of_missing_none rhs (n + 1) fields hm
      obtain ⟨jm, hb, hlen, hget⟩ := ih (n + 1)
        { entries := addJoinEntry jm0.entries k (n + 1, fields.length, fields),
          maxLen := max jm0.maxLen fields.length } h
      refine ⟨jm, ?_, ?_, ?_⟩
      · simp only [JoinMap.build, hk1, bind, Except.bind]
        exact hb
      · rw [hlen]; rfl
      · intro key
        rw [hget key, get_addJoinEntry]
        simp only [partnersFrom, List.zipIdx_cons, List.filter_cons, hk2]
        by_cases hkk : k = key
        · subst hkk
          simp [JoinMap.get]
        · simp [hkk, JoinMap.get]

theorem build_inv_err (rhs : List (Option Nat)) (B : Table) (n : Nat) (jm0 : JoinMap) (e : EngErr)
    (h : joinBErrorFrom rhs B n = some e) :
    JoinMap.build rhs B n jm0 = .error e := by
  induction B generalizing n jm0 with
  | nil => simp [joinBErrorFrom] at h
  | cons fields rest ih =>
    simp only [joinBErrorFrom, List.zipIdx_cons, List.findSome?_cons] at h
    cases hm : missingField rhs (n + 1) fields with
    | some e' =>
      simp only [hm, Option.some.injEq] at h
      subst h
      obtain ⟨h1, _⟩ := rhsKey_of_missing_some rhs (n + 1) fields e' hm
      simp only [JoinMap.build, h1, bind, Except.bind]
    | none =>
      simp only [hm] at h
      obtain ⟨k, hk1, _⟩ := rhsKey_of_missing_none rhs (n + 1) fields hm
      simp only [JoinMap.build, hk1, bind, Except.bind]
      exact ih (n + 1) _ h

theorem joinMap_build_ok (rhs : List (Option Nat)) (B : Table) (h : joinBError rhs B = none) :
    ∃ jm, JoinMap.build rhs B 0 {} = .ok jm ∧ jm.maxLen = maxWidth B ∧
      ∀ key, jm.get key = (partnersSpec rhs B key).map (fun p => (p.1, p.2.length, p.2)) := by
  rw [joinBError_eq] at h
  obtain ⟨jm, hb, hlen, hget⟩ := build_inv_ok rhs B 0 {} h
  refine ⟨jm, hb, hlen, ?_⟩
  intro key
  rw [hget key, partnersSpec_eq]
  simp [JoinMap.get]

theorem joinMap_build_err (rhs : List (Option Nat)) (B : Table) (e : EngErr) (h : joinBError rhs B = some e) :
    JoinMap.build rhs B 0 {} = .error e := by
  rw [joinBError_eq] at h
  exact build_inv_err rhs B 0 {} e h

/-! ## (2) the main loop feeds the emissions to the writer chain -/

theorem feedStop_nil (c : Chain) : c.feedStop [] = (c, true) := rfl

theorem feedStop_append (c : Chain) (xs ys : List (List Val × Row)) :
    c.feedStop (xs ++ ys) =
      if (c.feedStop xs).2 then (c.feedStop xs).1.feedStop ys else c.feedStop xs := by
  induction xs generalizing c with
  | nil => simp [Chain.feedStop]
  | cons x xs ih =>
    obtain ⟨k, r⟩ := x
    simp only [List.cons_append, Chain.feedStop]
    by_cases hw : (c.write k r).2 = true
    · simp [hw, ih]
    · simp [hw]

theorem feedStop_singleton (c : Chain) (k : List Val) (r : Row) : c.feedStop [(k, r)] = c.write k r := by
  simp only [Chain.feedStop]
  by_cases hw : (c.write k r).2 = true
  · rw [if_pos hw]; exact Prod.ext rfl hw.symm
  · rw [if_neg hw]; simp only [Bool.not_eq_true] at hw; exact Prod.ext rfl hw.symm

theorem emitRows_go_eq (key : List Val) (row : Row) (pos : Nat) (c : Chain) (l : List Atom) :
    emitRows.go key row pos c l = c.feedStop (l.map (fun v => (key, row.set pos (.at v)))) := by
  induction l generalizing c with
  | nil => rfl
  | cons v vs ih =>
    simp only [emitRows.go, List.map_cons, Chain.feedStop]
    by_cases hw : (c.write key (row.set pos (.at v))).2 = true
    · simp [hw, ih]
    · simp [hw]

/-- the loop state after handing `out` to the writer chain (until the first refused write) -/
def LoopState.fed (st : LoopState) (out : List (List Val × Row)) : LoopState :=
  { st with chain := (st.chain.feedStop out).1, stop := st.stop || !(st.chain.feedStop out).2 }

theorem emitRows_eq (st : LoopState) (key : List Val) (row : Row) (un : Option (Nat × List Atom)) :
    emitRows st key row un =
      st.fed (match un with
        | none => [(key, row)]
        | some (pos, l) => l.map (fun v => (key, row.set pos (.at v)))) := by
  cases un with
  | none => simp only [emitRows, LoopState.fed, feedStop_singleton]
  | some pl =>
    obtain ⟨pos, l⟩ := pl
    simp only [emitRows, LoopState.fed, emitRows_go_eq]

/-- for a non-aggregate query, processing one environment = feeding its projection -/
theorem processSelect_eq (q : SemQuery) (hagg : q.isAgg = false) (st : LoopState) (e : Env) :
    processSelect q st e = (projectEnv q e).map st.fed := by
  unfold processSelect projectEnv
  simp only [hagg]
  generalize liftErr e.nr (match q.where_ with | some w => w e | none => Except.ok true) = r1
  generalize liftErr e.nr (match q.exceptCols with
    | some cols => Except.ok (selectExcept e.a cols, none)
    | none => evalItems q.items e) = r2
  generalize liftErr e.nr (match q.orderBy with | some g => g e | none => Except.ok []) = r3
  cases r1 with
  | error x => rfl
  | ok pass =>
    cases pass with
    | false =>
      simp only [bind, Except.bind, Bool.not_false, if_true, pure, Except.pure, Except.map]
      simp [LoopState.fed, feedStop_nil]
    | true =>
      cases r2 with
      | error x => rfl
      | ok rowun =>
        cases r3 with
        | error x => rfl
        | ok key =>
          obtain ⟨row, un⟩ := rowun
          simp only [bind, Except.bind, pure, Except.pure, Except.map, emitRows_eq]
          cases un with
          | none => simp
          | some pl => simp

theorem fed_nil (st : LoopState) : st.fed [] = st := by
  cases st; simp [LoopState.fed, feedStop_nil]

theorem fed_append_of_stop (st : LoopState) (hd tl : List (List Val × Row)) (hst : st.stop = false)
    (h : (st.fed hd).stop = true) : st.fed (hd ++ tl) = st.fed hd := by
  simp only [LoopState.fed, hst, Bool.false_or, Bool.not_eq_true'] at h
  simp [LoopState.fed, feedStop_append, h]

theorem fed_append_of_not_stop (st : LoopState) (hd tl : List (List Val × Row))
    (h : (st.fed hd).stop = false) : st.fed (hd ++ tl) = (st.fed hd).fed tl := by
  simp only [LoopState.fed, Bool.or_eq_false_iff, Bool.not_eq_false'] at h
  simp [LoopState.fed, feedStop_append, h.1, h.2]

/-- the environment of one join match -/
def matchEnv (nr : Nat) (recA : Row) (m : Option Nat × Row) : Env :=
  { nr := nr, a := recA, bnr := m.1, b := some m.2 }

theorem projectEnvs_cons_ok {q : SemQuery} {e : Env} {es : List Env} {out : List (List Val × Row)}
    (h : projectEnvs q (e :: es) = .ok out) :
    ∃ hd tl, projectEnv q e = .ok hd ∧ projectEnvs q es = .ok tl ∧ out = hd ++ tl := by
  simp only [projectEnvs] at h
  cases h1 : projectEnv q e with
  | error x => simp [h1, bind, Except.bind] at h
  | ok hd =>
    cases h2 : projectEnvs q es with
    | error x => simp [h1, h2, bind, Except.bind] at h
    | ok tl =>
      simp only [h1, h2, bind, Except.bind, pure, Except.pure, Except.ok.injEq] at h
      exact ⟨hd, tl, rfl, rfl, h.symm⟩

/-- `processMatches` over the environments of one record, when nothing fails -/
theorem processMatches_ok (q : SemQuery) (hagg : q.isAgg = false) (nr : Nat) (recA : Row)
    (ms : List (Option Nat × Row)) (st : LoopState) (hnu : st.nu = 0) (hstop : st.stop = false)
    (out : List (List Val × Row)) (h : projectEnvs q (ms.map (matchEnv nr recA)) = .ok out) :
    processMatches q nr recA st ms = .ok (st.fed out) := by
  induction ms generalizing st out with
  | nil =>
    simp only [List.map_nil, projectEnvs, Except.ok.injEq] at h
    subst h
    simp [processMatches, fed_nil]
  | cons m rest ih =>
    obtain ⟨bnr, recB⟩ := m
    obtain ⟨hd, tl, h1, h2, rfl⟩ := projectEnvs_cons_ok h
    have hsel : processSelect q st { nr := nr, a := recA, bnr := bnr, b := some recB, nu := st.nu } =
        .ok (st.fed hd) := by
      rw [processSelect_eq q hagg, hnu]
      simp only [matchEnv] at h1
      rw [h1]; rfl
    simp only [processMatches, hsel, bind, Except.bind]
    by_cases hs : (st.fed hd).stop = true
    · simp only [hs, if_true, pure, Except.pure]
      rw [fed_append_of_stop st hd tl hstop hs]
    · simp only [Bool.not_eq_true] at hs
      simp only [hs, Bool.false_eq_true, if_false]
      rw [ih (st.fed hd) hnu hs tl h2, fed_append_of_not_stop st hd tl hs]

/-- with the join map of `B`, `getRhs`/`lhsKey` compute exactly the expansion of the specification -/
theorem expandRecord_join (q : SemQuery) (B : Table) (jm : JoinMap) (js : JoinSpec)
    (hj : q.join = some js)
    (hjm : jm.maxLen = nullWidth js B ∧
      ∀ key, jm.get key = (partnersSpec js.rhs B key).map (fun p => (p.1, p.2.length, p.2)))
    (nr : Nat) (recA : Row) :
    expandRecord q B nr recA = (do
      let key ← liftErr nr (lhsKey js.lhs nr recA)
      let ms ← liftErr nr (getRhs js.kind jm key)
      pure (ms.map (matchEnv nr recA))) := by
  unfold expandRecord
  simp only [hj]
  cases liftErr nr (lhsKey js.lhs nr recA) with
  | error x => rfl
  | ok key =>
    simp only [bind, Except.bind, getRhs, hjm.2 key, hjm.1, List.map_map]
    cases js.kind with
    | inner =>
      simp only [liftErr, pure, Except.pure, List.map_map]
      rfl
    | left =>
      by_cases hp : partnersSpec js.rhs B key = []
      · simp [hp, liftErr, pure, Except.pure, matchEnv]
      · simp only [hp, if_false, liftErr, pure, Except.pure, List.map_eq_nil_iff, List.map_map]
        rfl
    | strictLeft =>
      by_cases hp : (partnersSpec js.rhs B key).length = 1
      · simp only [hp, if_true, liftErr, pure, Except.pure, List.length_map, List.map_map]
        rfl
      · simp only [hp, if_false, liftErr, List.length_map]

theorem stepRecord_ok (q : SemQuery) (B : Table) (jm : JoinMap)
    (hsel : q.isUpdate = false) (hagg : q.isAgg = false)
    (hjm : ∀ js, q.join = some js → (jm.maxLen = nullWidth js B ∧
        ∀ key, jm.get key = (partnersSpec js.rhs B key).map (fun p => (p.1, p.2.length, p.2))))
    (st : LoopState) (hnu : st.nu = 0) (hstop : st.stop = false) (nr : Nat) (recA : Row)
    (envs : List Env) (out : List (List Val × Row))
    (he : expandRecord q B nr recA = .ok envs) (hp : projectEnvs q envs = .ok out) :
    stepRecord q jm st nr recA = .ok (st.fed out) := by
  unfold stepRecord
  simp only [hsel, Bool.false_eq_true, if_false]
  cases hj : q.join with
  | none =>
    simp only [expandRecord, hj, Except.ok.injEq] at he
    subst he
    obtain ⟨hd, tl, h1, h2, rfl⟩ := projectEnvs_cons_ok hp
    simp only [projectEnvs, Except.ok.injEq] at h2
    subst h2
    simp only [processSelect_eq q hagg, hnu, h1, List.append_nil]
    rfl
  | some js =>
    rw [expandRecord_join q B jm js hj (hjm js hj)] at he
    simp only
    cases h1 : liftErr nr (lhsKey js.lhs nr recA) with
    | error x => simp [h1, bind, Except.bind] at he
    | ok key =>
      cases h2 : liftErr nr (getRhs js.kind jm key) with
      | error x => simp [h1, h2, bind, Except.bind] at he
      | ok ms =>
        simp only [h1, h2, bind, Except.bind, pure, Except.pure, Except.ok.injEq] at he
        subst he
        simp only [bind, Except.bind, h2]
        exact processMatches_ok q hagg nr recA ms st hnu hstop out hp

theorem mainLoop_of_stop (q : SemQuery) (jm : JoinMap) (A : Table) (nr : Nat) (st : LoopState)
    (h : st.stop = true) : mainLoop q jm A nr st = .ok (st, nr) := by
  cases A with
  | nil => rfl
  | cons a rest => simp [mainLoop, h]

theorem emissions_cons_ok {q : SemQuery} {B : Table} {recA : Row} {rest : Table} {nr : Nat}
    {es : List (List Val × Row)} (h : emissions q B (recA :: rest) nr = .ok es) :
    ∃ envs hd tl, expandRecord q B (nr + 1) recA = .ok envs ∧ projectEnvs q envs = .ok hd ∧
      emissions q B rest (nr + 1) = .ok tl ∧ es = hd ++ tl := by
  simp only [emissions] at h
  cases h0 : expandRecord q B (nr + 1) recA with
  | error x => simp [h0, bind, Except.bind] at h
  | ok envs =>
    cases h1 : projectEnvs q envs with
    | error x => simp [h0, h1, bind, Except.bind] at h
    | ok hd =>
      cases h2 : emissions q B rest (nr + 1) with
      | error x => simp [h0, h1, h2, bind, Except.bind] at h
      | ok tl =>
        simp only [h0, h1, h2, bind, Except.bind, pure, Except.pure, Except.ok.injEq] at h
        exact ⟨envs, hd, tl, rfl, h1, rfl, h.symm⟩

/-- the bridge, generalised over the starting record number and loop state -/
theorem mainLoop_fed (q : SemQuery) (B : Table) (jm : JoinMap)
    (hsel : q.isUpdate = false) (hagg : q.isAgg = false)
    (hjm : ∀ js, q.join = some js → (jm.maxLen = nullWidth js B ∧
        ∀ key, jm.get key = (partnersSpec js.rhs B key).map (fun p => (p.1, p.2.length, p.2))))
    (A : Table) (nr : Nat) (st : LoopState) (hnu : st.nu = 0) (hstop : st.stop = false)
    (es : List (List Val × Row)) (hes : emissions q B A nr = .ok es) :
    ∃ n, mainLoop q jm A nr st = .ok (st.fed es, n) ∧ n ≤ nr + A.length := by
  induction A generalizing nr st es with
  | nil =>
    simp only [emissions, Except.ok.injEq] at hes
    subst hes
    exact ⟨nr, by simp [mainLoop, fed_nil], by simp⟩
  | cons recA rest ih =>
    obtain ⟨envs, hd, tl, he, hp, ht, rfl⟩ := emissions_cons_ok hes
    have hstep := stepRecord_ok q B jm hsel hagg hjm st hnu hstop (nr + 1) recA envs hd he hp
    simp only [mainLoop, hstop, Bool.false_eq_true, if_false, hstep]
    by_cases hs : (st.fed hd).stop = true
    · refine ⟨nr + 1, ?_, by simp only [List.length_cons]; omega⟩
      rw [mainLoop_of_stop q jm rest (nr + 1) _ hs, fed_append_of_stop st hd tl hstop hs]
    · simp only [Bool.not_eq_true] at hs
      obtain ⟨n, hn, hle⟩ := ih (nr + 1) (st.fed hd) hnu hs tl ht
      refine ⟨n, ?_, by simp only [List.length_cons]; omega⟩
      rw [hn, fed_append_of_not_stop st hd tl hs]

theorem mainLoop_bridge (q : SemQuery) (A B : Table) (jm : JoinMap)
    (hsel : q.isUpdate = false) (hagg : q.isAgg = false)
    (hjm : ∀ js, q.join = some js → (jm.maxLen = nullWidth js B ∧
        ∀ key, jm.get key = (partnersSpec js.rhs B key).map (fun p => (p.1, p.2.length, p.2))))
    (es : List (List Val × Row)) (hes : emissions q B A 0 = .ok es) (c0 : Chain) :
    ∃ st n, mainLoop q jm A 0 { chain := c0 } = .ok (st, n) ∧ st.agg = none ∧ st.nu = 0 ∧
      st.chain = (c0.feedStop es).1 ∧ n ≤ A.length := by
  obtain ⟨n, hn, hle⟩ := mainLoop_fed q B jm hsel hagg hjm A 0 { chain := c0 } rfl rfl es hes
  exact ⟨_, n, hn, rfl, rfl, rfl, by omega⟩

/-! ## (3) errors name the first offending record -/

/-- no TOP/LIMIT bound and a user writer that never refuses: no write through the chain is refused -/
def Chain.NoRefuse (c : Chain) : Prop := c.sub.sub.top = none ∧ c.sub.sub.sink.refuseFrom = none

theorem write_noRefuse (c : Chain) (h : c.NoRefuse) (k : List Val) (r : Row) :
    (c.write k r).2 = true ∧ (c.write k r).1.NoRefuse := by
  obtain ⟨sorted, ⟨dist, ⟨top, sink⟩⟩⟩ := c
  obtain ⟨h1, h2⟩ := h
  simp only at h1 h2
  subst h1
  cases sorted with
  | some p => exact ⟨rfl, rfl, h2⟩
  | none =>
    cases dist with
    | none =>
      simp [Chain.write, DistLayer.write, TopLayer.write, Sink.write, h2, Chain.NoRefuse]
    | uniq seen =>
      by_cases hm : r ∈ seen
      · simp [Chain.write, DistLayer.write, hm, Chain.NoRefuse, h2]
      · simp [Chain.write, DistLayer.write, hm, TopLayer.write, Sink.write, h2, Chain.NoRefuse]
    | uniqCount recs =>
      simp [Chain.write, DistLayer.write, Chain.NoRefuse, h2]

theorem feedStop_noRefuse (c : Chain) (h : c.NoRefuse) (xs : List (List Val × Row)) :
    (c.feedStop xs).2 = true ∧ (c.feedStop xs).1.NoRefuse := by
  induction xs generalizing c with
  | nil => exact ⟨rfl, h⟩
  | cons x xs ih =>
    obtain ⟨k, r⟩ := x
    obtain ⟨hw1, hw2⟩ := write_noRefuse c h k r
    simp only [Chain.feedStop, hw1, if_true]
    exact ih _ hw2

theorem buildChain_noRefuse (q : SemQuery) (sink : Sink) (htop : q.top = none)
    (hs : sink.refuseFrom = none) : (buildChain q sink).NoRefuse := by
  unfold buildChain Chain.NoRefuse
  by_cases hu : q.isUpdate = true
  · simp [hu, hs]
  · simp [hu, htop, hs]

theorem fed_noRefuse (st : LoopState) (h : st.chain.NoRefuse) (out : List (List Val × Row)) :
    (st.fed out).stop = st.stop ∧ (st.fed out).chain.NoRefuse := by
  obtain ⟨h1, h2⟩ := feedStop_noRefuse st.chain h out
  simp only [LoopState.fed, h1, Bool.not_true, Bool.or_false, true_and]
  exact h2

theorem processMatches_err (q : SemQuery) (hagg : q.isAgg = false) (nr : Nat) (recA : Row)
    (ms : List (Option Nat × Row)) (st : LoopState) (hnu : st.nu = 0) (hstop : st.stop = false)
    (hnr : st.chain.NoRefuse) (e : EngErr)
    (h : projectEnvs q (ms.map (matchEnv nr recA)) = .error e) :
    processMatches q nr recA st ms = .error e := by
  induction ms generalizing st with
  | nil => simp [projectEnvs] at h
  | cons m rest ih =>
    obtain ⟨bnr, recB⟩ := m
    simp only [List.map_cons, projectEnvs] at h
    have hsel : processSelect q st { nr := nr, a := recA, bnr := bnr, b := some recB, nu := st.nu } =
        (projectEnv q (matchEnv nr recA (bnr, recB))).map st.fed := by
      rw [processSelect_eq q hagg, hnu]; rfl
    simp only [processMatches, hsel]
    cases h1 : projectEnv q (matchEnv nr recA (bnr, recB)) with
    | error x =>
      simp only [h1, bind, Except.bind, Except.error.injEq] at h
      subst h
      rfl
    | ok hd =>
      cases h2 : projectEnvs q (rest.map (matchEnv nr recA)) with
      | ok tl => simp [h1, h2, bind, Except.bind, pure, Except.pure] at h
      | error x =>
        simp only [h1, h2, bind, Except.bind, Except.error.injEq] at h
        subst h
        obtain ⟨f1, f2⟩ := fed_noRefuse st hnr hd
        simp only [Except.map, bind, Except.bind, f1, hstop, Bool.false_eq_true, if_false]
        exact ih (st.fed hd) hnu (f1.trans hstop) f2 h2

theorem stepRecord_err_expand (q : SemQuery) (B : Table) (jm : JoinMap) (hsel : q.isUpdate = false)
    (hjm : ∀ js, q.join = some js → (jm.maxLen = nullWidth js B ∧
        ∀ key, jm.get key = (partnersSpec js.rhs B key).map (fun p => (p.1, p.2.length, p.2))))
    (st : LoopState) (nr : Nat) (recA : Row) (e : EngErr)
    (he : expandRecord q B nr recA = .error e) :
    stepRecord q jm st nr recA = .error e := by
  unfold stepRecord
  simp only [hsel, Bool.false_eq_true, if_false]
  cases hj : q.join with
  | none => simp [expandRecord, hj] at he
  | some js =>
    rw [expandRecord_join q B jm js hj (hjm js hj)] at he
    simp only
    cases h1 : liftErr nr (lhsKey js.lhs nr recA) with
    | error x =>
      simp only [h1, bind, Except.bind, Except.error.injEq] at he
      subst he; rfl
    | ok key =>
      cases h2 : liftErr nr (getRhs js.kind jm key) with
      | error x =>
        simp only [h1, h2, bind, Except.bind, Except.error.injEq] at he
        subst he
        simp only [bind, Except.bind, h2]
      | ok ms => simp [h1, h2, bind, Except.bind, pure, Except.pure] at he

theorem stepRecord_err_project (q : SemQuery) (B : Table) (jm : JoinMap)
    (hsel : q.isUpdate = false) (hagg : q.isAgg = false)
    (hjm : ∀ js, q.join = some js → (jm.maxLen = nullWidth js B ∧
        ∀ key, jm.get key = (partnersSpec js.rhs B key).map (fun p => (p.1, p.2.length, p.2))))
    (st : LoopState) (hnu : st.nu = 0) (hstop : st.stop = false) (hnr : st.chain.NoRefuse)
    (nr : Nat) (recA : Row) (envs : List Env) (e : EngErr)
    (he : expandRecord q B nr recA = .ok envs) (hp : projectEnvs q envs = .error e) :
    stepRecord q jm st nr recA = .error e := by
  unfold stepRecord
  simp only [hsel, Bool.false_eq_true, if_false]
  cases hj : q.join with
  | none =>
    simp only [expandRecord, hj, Except.ok.injEq] at he
    subst he
    simp only [projectEnvs] at hp
    simp only [processSelect_eq q hagg, hnu]
    cases h1 : projectEnv q { nr := nr, a := recA } with
    | error x =>
      simp only [h1, bind, Except.bind, Except.error.injEq] at hp
      subst hp
      rfl
    | ok hd => simp [h1, bind, Except.bind, pure, Except.pure] at hp
  | some js =>
    rw [expandRecord_join q B jm js hj (hjm js hj)] at he
    simp only
    cases h1 : liftErr nr (lhsKey js.lhs nr recA) with
    | error x => simp [h1, bind, Except.bind] at he
    | ok key =>
      cases h2 : liftErr nr (getRhs js.kind jm key) with
      | error x => simp [h1, h2, bind, Except.bind] at he
      | ok ms =>
        simp only [h1, h2, bind, Except.bind, pure, Except.pure, Except.ok.injEq] at he
        subst he
        simp only [bind, Except.bind, h2]
        exact processMatches_err q hagg nr recA ms st hnu hstop hnr e hp

/-- the first-error statement, generalised over the starting record number and loop state -/
theorem mainLoop_err (q : SemQuery) (B : Table) (jm : JoinMap)
    (hsel : q.isUpdate = false) (hagg : q.isAgg = false)
    (hjm : ∀ js, q.join = some js → (jm.maxLen = nullWidth js B ∧
        ∀ key, jm.get key = (partnersSpec js.rhs B key).map (fun p => (p.1, p.2.length, p.2))))
    (A : Table) (nr : Nat) (st : LoopState) (hnu : st.nu = 0) (hstop : st.stop = false)
    (hnr : st.chain.NoRefuse) (e : EngErr) (hes : emissions q B A nr = .error e) :
    ∃ st' n, mainLoop q jm A nr st = .error (e, st', n) := by
  induction A generalizing nr st with
  | nil => simp [emissions] at hes
  | cons recA rest ih =>
    simp only [emissions] at hes
    simp only [mainLoop, hstop, Bool.false_eq_true, if_false]
    cases h0 : expandRecord q B (nr + 1) recA with
    | error x =>
      simp only [h0, bind, Except.bind, Except.error.injEq] at hes
      subst hes
      rw [stepRecord_err_expand q B jm hsel hjm st (nr + 1) recA x h0]
      exact ⟨st, nr + 1, rfl⟩
    | ok envs =>
      cases h1 : projectEnvs q envs with
      | error x =>
        simp only [h0, h1, bind, Except.bind, Except.error.injEq] at hes
        subst hes
        rw [stepRecord_err_project q B jm hsel hagg hjm st hnu hstop hnr (nr + 1) recA envs x h0 h1]
        exact ⟨st, nr + 1, rfl⟩
      | ok hd =>
        cases h2 : emissions q B rest (nr + 1) with
        | ok tl => simp [h0, h1, h2, bind, Except.bind, pure, Except.pure] at hes
        | error x =>
          simp only [h0, h1, h2, bind, Except.bind, Except.error.injEq] at hes
          subst hes
          rw [stepRecord_ok q B jm hsel hagg hjm st hnu hstop (nr + 1) recA envs hd h0 h1]
          obtain ⟨f1, f2⟩ := fed_noRefuse st hnr hd
          exact ih (nr + 1) (st.fed hd) hnu (f1.trans hstop) f2 h2

theorem mainLoop_first_error (q : SemQuery) (A B : Table) (jm : JoinMap)
    (hsel : q.isUpdate = false) (hagg : q.isAgg = false) (htop : q.top = none)
    (hjm : ∀ js, q.join = some js → (jm.maxLen = nullWidth js B ∧
        ∀ key, jm.get key = (partnersSpec js.rhs B key).map (fun p => (p.1, p.2.length, p.2))))
    (e : EngErr) (hes : emissions q B A 0 = .error e) (sink : Sink) (hs : sink.refuseFrom = none) :
    ∃ st n, mainLoop q jm A 0 { chain := buildChain q sink } = .error (e, st, n) :=
  mainLoop_err q B jm hsel hagg hjm A 0 { chain := buildChain q sink } rfl rfl
    (buildChain_noRefuse q sink htop hs) e hes

end Rbql
