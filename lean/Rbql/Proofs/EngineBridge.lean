/-
  Bridge between the operational engine model (`Rbql.Model.Engine`) and its specification layer
  (`Rbql.Spec.EngineSpec`):

  (1) the hash-join map refines "filter B by key" (`joinMap_build_ok`, `joinMap_build_err`);
  (2) for non-aggregate SELECT queries the main loop is `Chain.feedStop` on the emissions
      (`mainLoop_bridge`);
  (3) errors name the first offending record (`mainLoop_first_error`).
-/
import Rbql.Spec.EngineSpec
namespace Rbql

/-! ## (1) the hash join map -/

/-- the first (in ON-clause order) key field that record `fields` (number `nr`) lacks -/
def missingField (rhs : List (Option Nat)) (nr : Nat) (fields : Row) : Option EngErr :=
  rhs.findSome? (fun ki => match ki with
    | some i => if fields.length ≤ i then some (EngErr.joinB nr (i + 1)) else none
    | none => none)

theorem rhsKey_of_missing_none (rhs : List (Option Nat)) (nr : Nat) (fields : Row)
    (h : missingField rhs nr fields = none) :
    ∃ k, rhsKey rhs nr fields = .ok k ∧ rhsKeyOf rhs nr fields = some k := by
  induction rhs with
  | nil => exact ⟨[], rfl, rfl⟩
  | cons ki rest ih =>
    simp only [missingField, List.findSome?_cons] at h
    cases ki with
    | none =>
      simp only at h
      obtain ⟨k, hk1, hk2⟩ := ih h
      refine ⟨Val.nat nr :: k, ?_, ?_⟩
      · simp only [rhsKey, List.mapM_cons] at hk1 ⊢
        rw [hk1]; rfl
      · simp only [rhsKeyOf, List.mapM_cons] at hk2 ⊢
        rw [hk2]; rfl
    | some i =>
      simp only at h
      by_cases hi : fields.length ≤ i
      · simp [hi] at h
      · simp only [hi, if_false] at h
        obtain ⟨k, hk1, hk2⟩ := ih h
        refine ⟨fields.getD i Val.none :: k, ?_, ?_⟩
        · simp only [rhsKey, List.mapM_cons, hi, if_false] at hk1 ⊢
          rw [hk1]; rfl
        · simp only [rhsKeyOf, List.mapM_cons, hi, if_false] at hk2 ⊢
          rw [hk2]; rfl

theorem rhsKey_of_missing_some (rhs : List (Option Nat)) (nr : Nat) (fields : Row) (e : EngErr)
    (h : missingField rhs nr fields = some e) :
    rhsKey rhs nr fields = .error e ∧ rhsKeyOf rhs nr fields = none := by
  induction rhs with
  | nil => simp [missingField] at h
  | cons ki rest ih =>
    simp only [missingField, List.findSome?_cons] at h
    cases ki with
    | none =>
      simp only at h
      obtain ⟨h1, h2⟩ := ih h
      constructor
      · simp only [rhsKey, List.mapM_cons] at h1 ⊢
        rw [h1]; rfl
      · simp only [rhsKeyOf, List.mapM_cons] at h2 ⊢
        rw [h2]; rfl
    | some i =>
      simp only at h
      by_cases hi : fields.length ≤ i
      · simp only [hi, if_true, Option.some.injEq] at h
        subst h
        constructor
        · simp only [rhsKey, List.mapM_cons, hi, if_true]; rfl
        · simp only [rhsKeyOf, List.mapM_cons, hi, if_true]; rfl
      · simp only [hi, if_false] at h
        obtain ⟨h1, h2⟩ := ih h
        constructor
        · simp only [rhsKey, List.mapM_cons, hi, if_false] at h1 ⊢
          rw [h1]; rfl
        · simp only [rhsKeyOf, List.mapM_cons, hi, if_false] at h2 ⊢
          rw [h2]; rfl

/-- `rhsKey` fails exactly when `rhsKeyOf` is `none` -/
theorem rhsKey_error_iff (rhs : List (Option Nat)) (nr : Nat) (fields : Row) :
    (∃ e, rhsKey rhs nr fields = .error e) ↔ rhsKeyOf rhs nr fields = none := by
  cases h : missingField rhs nr fields with
  | none =>
    obtain ⟨k, h1, h2⟩ := rhsKey_of_missing_none rhs nr fields h
    simp [h1, h2]
  | some e =>
    obtain ⟨h1, h2⟩ := rhsKey_of_missing_some rhs nr fields e h
    simp [h1, h2]

theorem get_addJoinEntry (es : List (List Val × List (Nat × Nat × Row))) (k : List Val)
    (e : Nat × Nat × Row) (m : Nat) (key : List Val) :
    JoinMap.get { entries := addJoinEntry es k e, maxLen := m } key =
      if k = key then JoinMap.get { entries := es, maxLen := m } key ++ [e]
      else JoinMap.get { entries := es, maxLen := m } key := by
  induction es with
  | nil =>
    by_cases hk : k = key <;> simp [JoinMap.get, addJoinEntry, hk]
  | cons hd tl ih =>
    obtain ⟨k', es'⟩ := hd
    simp only [JoinMap.get] at ih ⊢
    by_cases hk' : k' = k
    · subst hk'
      by_cases hk : k' = key
      · simp [addJoinEntry, hk]
      · simp [addJoinEntry, hk]
    · by_cases hk : k' = key
      · have : ¬ k = key := fun h => hk' (h ▸ hk ▸ rfl)
        subst hk
        simp [addJoinEntry, hk', this]
      · simp only [addJoinEntry, hk', if_false, List.find?_cons, hk, decide_false]
        exact ih

/-- partners among the records of `B` numbered from `n + 1` -/
def partnersFrom (rhs : List (Option Nat)) (B : Table) (n : Nat) (key : List Val) : List (Nat × Row) :=
  ((B.zipIdx n).filter (fun p => rhsKeyOf rhs (p.2 + 1) p.1 == some key)).map (fun p => (p.2 + 1, p.1))

def joinBErrorFrom (rhs : List (Option Nat)) (B : Table) (n : Nat) : Option EngErr :=
  (B.zipIdx n).findSome? (fun p => missingField rhs (p.2 + 1) p.1)

theorem joinBError_eq (rhs : List (Option Nat)) (B : Table) : joinBError rhs B = joinBErrorFrom rhs B 0 := rfl

theorem partnersSpec_eq (rhs : List (Option Nat)) (B : Table) (key : List Val) :
    partnersSpec rhs B key = partnersFrom rhs B 0 key := rfl

theorem build_inv_ok (rhs : List (Option Nat)) (B : Table) (n : Nat) (jm0 : JoinMap)
    (h : joinBErrorFrom rhs B n = none) :
    ∃ jm, JoinMap.build rhs B n jm0 = .ok jm ∧
      jm.maxLen = B.foldl (fun m r => max m r.length) jm0.maxLen ∧
      ∀ key, jm.get key = jm0.get key ++ (partnersFrom rhs B n key).map (fun p => (p.1, p.2.length, p.2)) := by
  induction B generalizing n jm0 with
  | nil => exact ⟨jm0, rfl, rfl, by simp [partnersFrom]⟩
  | cons fields rest ih =>
    simp only [joinBErrorFrom, List.zipIdx_cons, List.findSome?_cons] at h
    cases hm : missingField rhs (n + 1) fields with
    | some e => simp [hm] at h
    | none =>
      simp only [hm] at h
      obtain ⟨k, hk1, hk2⟩ := rhsKey_of_missing_none rhs (n + 1) fields hm
      obtain ⟨jm, hb, hlen, hget⟩ := ih (n + 1)
        { entries := addJoinEntry jm0.entries k (n + 1, fields.length, fields),
          maxLen := max jm0.maxLen fields.length } h
      refine ⟨jm, ?_, ?_, ?_⟩
      · simp only [JoinMap.build, hk1, bind, Except.bind]
        exact hb
      · rw [hlen]; rfl
      · intro key
        rw [hget key, get_addJoinEntry]
        simp only [partnersFrom, List.zipIdx_cons, List.filter_cons, hk2]
        by_cases hkk : k = key
        · subst hkk
          simp [JoinMap.get]
        · simp [hkk, JoinMap.get]

theorem build_inv_err (rhs : List (Option Nat)) (B : Table) (n : Nat) (jm0 : JoinMap) (e : EngErr)
    (h : joinBErrorFrom rhs B n = some e) :
    JoinMap.build rhs B n jm0 = .error e := by
  induction B generalizing n jm0 with
  | nil => simp [joinBErrorFrom] at h
  | cons fields rest ih =>
    simp only [joinBErrorFrom, List.zipIdx_cons, List.findSome?_cons] at h
    cases hm : missingField rhs (n + 1) fields with
    | some e' =>
      simp only [hm, Option.some.injEq] at h
      subst h
      obtain ⟨h1, _⟩ := rhsKey_of_missing_some rhs (n + 1) fields e' hm
      simp only [JoinMap.build, h1, bind, Except.bind]
    | none =>
      simp only [hm] at h
      obtain ⟨k, hk1, _⟩ := rhsKey_of_missing_none rhs (n + 1) fields hm
      simp only [JoinMap.build, hk1, bind, Except.bind]
      exact ih (n + 1) _ h

theorem joinMap_build_ok (rhs : List (Option Nat)) (B : Table) (h : joinBError rhs B = none) :
    ∃ jm, JoinMap.build rhs B 0 {} = .ok jm ∧ jm.maxLen = maxWidth B ∧
      ∀ key, jm.get key = (partnersSpec rhs B key).map (fun p => (p.1, p.2.length, p.2)) := by
  rw [joinBError_eq] at h
  obtain ⟨jm, hb, hlen, hget⟩ := build_inv_ok rhs B 0 {} h
  refine ⟨jm, hb, hlen, ?_⟩
  intro key
  rw [hget key, partnersSpec_eq]
  simp [JoinMap.get]

theorem joinMap_build_err (rhs : List (Option Nat)) (B : Table) (e : EngErr) (h : joinBError rhs B = some e) :
    JoinMap.build rhs B 0 {} = .error e := by
  rw [joinBError_eq] at h
  exact build_inv_err rhs B 0 {} e h

end Rbql
