/-
  C02 (composition law): ORDER BY, DISTINCT and TOP/LIMIT compose as sort, then dedup, then truncate.
  The writer chain `SortedWriter?(UniqWriter|UniqCountWriter?(TopWriter?(user writer)))` fed with the
  emissions (stopping at the first refused write) and then finished leaves in the user's writer exactly
  `selectSpec q es`; the user's writer is finished exactly once and never written after it refused.
-/
import Rbql.Spec.EngineSpec
namespace Rbql

/-! ### the user's writer -/

theorem Sink.write_finished (s : Sink) (r : Row) : (s.write r).1.finished = s.finished := by
  unfold Sink.write
  cases s.refuseFrom with
  | none => rfl
  | some n => simp only []; split <;> rfl

/-- the writer has not refused anything yet and was never written after a refusal -/
def Sink.Live (s : Sink) : Prop := s.afterRefusal = 0 ∧ ∀ n, s.refuseFrom = some n → s.writes < n

theorem Sink.write_live (s : Sink) (r : Row) (h : s.Live) :
    ((s.write r).2 = true → (s.write r).1.Live) ∧ (s.write r).1.afterRefusal = 0 := by
  rcases s with ⟨rows, writes, refuseFrom, afterRefusal, finished⟩
  rcases h with ⟨h1, h2⟩
  simp only at h1 h2
  unfold Sink.write Sink.Live
  rcases refuseFrom with _ | n
  · simp [h1]
  · have := h2 n rfl
    by_cases hn : n ≤ writes + 1
    · simp [hn, h1]; omega
    · simp [hn, h1]; omega

/-! ### TopWriter -/

/-- remaining capacity of the TopWriter: `none` = unbounded -/
def TopLayer.room (t : TopLayer) : Option Nat :=
  match t.top with | none => none | some (cap, nw) => some (cap - nw)

/-- truncate to an optional bound -/
def tk : Option Nat → List Row → List Row
  | none, rs => rs
  | some n, rs => rs.take n

theorem TopLayer.write_spec (t : TopLayer) (h : t.sink.refuseFrom = none) (r : Row) :
    (t.room = some 0 ∧ t.write r = (t, false)) ∨
    (t.room ≠ some 0 ∧ (t.write r).2 = true ∧ (t.write r).1.sink.refuseFrom = none ∧
      (t.write r).1.sink.rows = r :: t.sink.rows ∧ (t.write r).1.room = t.room.map (· - 1)) := by
  rcases t with ⟨top, sink⟩
  simp only at h
  unfold TopLayer.write TopLayer.room Sink.write
  rcases top with _ | ⟨cap, nw⟩
  · simp [h]
  · by_cases hc : cap ≤ nw
    · left; simp [hc]
    · right; simp [hc, h]; omega

theorem TopLayer.feed_rows (t : TopLayer) (h : t.sink.refuseFrom = none) (rs : List Row) :
    (t.feed rs).sink.rows = (tk t.room rs).reverse ++ t.sink.rows := by
  induction rs generalizing t with
  | nil => cases h' : t.room <;> simp [TopLayer.feed, tk]
  | cons r rs ih =>
    rw [TopLayer.feed]
    rcases t.write_spec h r with ⟨h0, hw⟩ | ⟨h0, hok, hrf, hrows, hroom⟩
    · rw [hw]; simp [h0, tk]
    · rw [show t.write r = ((t.write r).1, true) from by rw [← hok]]
      simp only [if_true]
      rw [ih _ hrf, hrows, hroom]
      cases hr : t.room with
      | none => simp [tk]
      | some n => cases n with
        | zero => exact absurd hr h0
        | succ m => simp [tk]

theorem TopLayer.finish_rows (t : TopLayer) : t.finish.sink.rows = t.sink.rows := rfl

/-! ### UniqWriter -/

/-- first occurrences of the rows that are not already in `seen` -/
def foS : List Row → List Row → List Row
  | _, [] => []
  | seen, r :: rs => if r ∈ seen then foS seen rs else r :: foS (r :: seen) rs

theorem foS_eq (seen rs : List Row) :
    foS seen rs = (firstOccurrences rs).filter (fun x => decide (x ∉ seen)) := by
  induction rs generalizing seen with
  | nil => rfl
  | cons r rs ih =>
    rw [foS, firstOccurrences]
    by_cases hr : r ∈ seen
    · simp only [hr, if_true, List.filter_cons, not_true, decide_false, Bool.false_eq_true, if_false]
      rw [ih, List.filter_filter]
      apply List.filter_congr
      intro x _
      by_cases hx : x ∈ seen <;> simp [hx]
      intro hxr; exact hx (hxr ▸ hr)
    · simp only [hr, if_false, List.filter_cons, not_false_eq_true, decide_true, if_true]
      rw [ih, List.filter_filter]
      congr 1
      apply List.filter_congr
      intro x _
      simp [List.mem_cons, Bool.and_comm]

theorem foS_nil (rs : List Row) : foS [] rs = firstOccurrences rs := by
  rw [foS_eq]; simp

theorem DistLayer.feed_none (d : DistLayer) (h : d.dist = .none) (rs : List Row) :
    d.feed rs = { d with sub := d.sub.feed rs } := by
  induction rs generalizing d with
  | nil => rfl
  | cons r rs ih =>
    rw [DistLayer.feed, TopLayer.feed, DistLayer.write]
    simp only [h]
    rcases hw : d.sub.write r with ⟨t', ok⟩
    cases ok
    · simp
    · simp only [if_true]
      exact ih _ rfl

theorem DistLayer.feed_uniq (d : DistLayer) (seen : List Row) (hd : d.dist = .uniq seen)
    (h : d.sub.sink.refuseFrom = none) (rs : List Row) :
    (∃ seen', (d.feed rs).dist = .uniq seen') ∧
    (d.feed rs).sub.sink.rows = (tk d.sub.room (foS seen rs)).reverse ++ d.sub.sink.rows := by
  induction rs generalizing d seen with
  | nil => refine ⟨⟨seen, hd⟩, ?_⟩; cases h' : d.sub.room <;> simp [DistLayer.feed, tk, foS]
  | cons r rs ih =>
    rw [DistLayer.feed, DistLayer.write, foS]
    simp only [hd]
    by_cases hr : r ∈ seen
    · simp only [hr, if_true]
      exact ih d seen hd h
    · simp only [hr, if_false]
      rcases d.sub.write_spec h r with ⟨h0, hw⟩ | ⟨h0, hok, hrf, hrows, hroom⟩
      · rw [hw]; simp [h0, tk]
      · rw [show d.sub.write r = ((d.sub.write r).1, true) from by rw [← hok]]
        simp only [if_true]
        have := ih { dist := .uniq (r :: seen), sub := (d.sub.write r).1 } (r :: seen) rfl hrf
        refine ⟨this.1, ?_⟩
        rw [this.2]
        simp only [hrows, hroom]
        cases hr : d.sub.room with
        | none => simp [tk]
        | some n => cases n with
          | zero => exact absurd hr h0
          | succ m => simp [tk]

end Rbql
