/-
  C02 (composition law): ORDER BY, DISTINCT and TOP/LIMIT compose as sort, then dedup, then truncate.
  The writer chain `SortedWriter?(UniqWriter|UniqCountWriter?(TopWriter?(user writer)))` fed with the
  emissions (stopping at the first refused write) and then finished leaves in the user's writer exactly
  `selectSpec q es`; the user's writer is finished exactly once and never written after it refused.
-/
import Rbql.Spec.EngineSpec
namespace Rbql

/-! ### the user's writer -/

theorem Sink.write_finished (s : Sink) (r : Row) : (s.write r).1.finished = s.finished := by
  unfold Sink.write
  cases s.refuseFrom with
  | none => rfl
  | some n => simp only []; split <;> rfl

/-- the writer has not refused anything yet and was never written after a refusal -/
def Sink.Live (s : Sink) : Prop := s.afterRefusal = 0 ∧ ∀ n, s.refuseFrom = some n → s.writes < n

theorem Sink.write_live (s : Sink) (r : Row) (h : s.Live) :
    ((s.write r).2 = true → (s.write r).1.Live) ∧ (s.write r).1.afterRefusal = 0 := by
  rcases s with ⟨rows, writes, refuseFrom, afterRefusal, finished⟩
  rcases h with ⟨h1, h2⟩
  simp only at h1 h2
  unfold Sink.write Sink.Live
  rcases refuseFrom with _ | n
  · simp [h1]
  · have := h2 n rfl
    by_cases hn : n ≤ writes + 1
    · simp [hn, h1]; omega
    · simp [hn, h1]; omega

/-! ### TopWriter -/

/-- remaining capacity of the TopWriter: `none` = unbounded -/
def TopLayer.room (t : TopLayer) : Option Nat :=
  match t.top with | none => none | some (cap, nw) => some (cap - nw)

/-- truncate to an optional bound -/
def tk : Option Nat → List Row → List Row
  | none, rs => rs
  | some n, rs => rs.take n

theorem TopLayer.write_spec (t : TopLayer) (h : t.sink.refuseFrom = none) (r : Row) :
    (t.room = some 0 ∧ t.write r = (t, false)) ∨
    (t.room ≠ some 0 ∧ (t.write r).2 = true ∧ (t.write r).1.sink.refuseFrom = none ∧
      (t.write r).1.sink.rows = r :: t.sink.rows ∧ (t.write r).1.room = t.room.map (· - 1)) := by
  rcases t with ⟨top, sink⟩
  simp only at h
  unfold TopLayer.write TopLayer.room Sink.write
  rcases top with _ | ⟨cap, nw⟩
  · simp [h]
  · by_cases hc : cap ≤ nw
    · left; simp [hc]
    · right; simp [hc, h]; omega

theorem TopLayer.feed_rows (t : TopLayer) (h : t.sink.refuseFrom = none) (rs : List Row) :
    (t.feed rs).sink.rows = (tk t.room rs).reverse ++ t.sink.rows := by
  induction rs generalizing t with
  | nil => cases h' : t.room <;> simp [TopLayer.feed, tk]
  | cons r rs ih =>
    rw [TopLayer.feed]
    rcases t.write_spec h r with ⟨h0, hw⟩ | ⟨h0, hok, hrf, hrows, hroom⟩
    · rw [hw]; simp [h0, tk]
    · rw [show t.write r = ((t.write r).1, true) from by rw [← hok]]
      simp only [if_true]
      rw [ih _ hrf, hrows, hroom]
      cases hr : t.room with
      | none => simp [tk]
      | some n => cases n with
        | zero => exact absurd hr h0
        | succ m => simp [tk]

theorem TopLayer.finish_rows (t : TopLayer) : t.finish.sink.rows = t.sink.rows := rfl

/-! ### UniqWriter -/

/-- first occurrences of the rows that are not already in `seen` -/
def foS : List Row → List Row → List Row
  | _, [] => []
  | seen, r :: rs => if r ∈ seen then foS seen rs else r :: foS (r :: seen) rs

theorem foS_eq (seen rs : List Row) :
    foS seen rs = (firstOccurrences rs).filter (fun x => decide (x ∉ seen)) := by
  induction rs generalizing seen with
  | nil => rfl
  | cons r rs ih =>
    rw [foS, firstOccurrences]
    by_cases hr : r ∈ seen
    · simp only [hr, if_true, List.filter_cons, not_true, decide_false, Bool.false_eq_true, if_false]
      rw [ih, List.filter_filter]
      apply List.filter_congr
      intro x _
      by_cases hx : x ∈ seen <;> simp [hx]
      intro hxr; exact hx (hxr ▸ hr)
    · simp only [hr, if_false, List.filter_cons, not_false_eq_true, decide_true, if_true]
      rw [ih, List.filter_filter]
      congr 1
      apply List.filter_congr
      intro x _
      simp [List.mem_cons, Bool.and_comm]

theorem foS_nil (rs : List Row) : foS [] rs = firstOccurrences rs := by
  rw [foS_eq]; simp

theorem DistLayer.feed_none (d : DistLayer) (h : d.dist = .none) (rs : List Row) :
    d.feed rs = { d with sub := d.sub.feed rs } := by
  induction rs generalizing d with
  | nil => rfl
  | cons r rs ih =>
    rw [DistLayer.feed, TopLayer.feed, DistLayer.write]
    simp only [h]
    rcases hw : d.sub.write r with ⟨t', ok⟩
    cases ok
    · simp
    · simp only [if_true]
      exact ih _ rfl

theorem DistLayer.feed_uniq (d : DistLayer) (seen : List Row) (hd : d.dist = .uniq seen)
    (h : d.sub.sink.refuseFrom = none) (rs : List Row) :
    (∃ seen', (d.feed rs).dist = .uniq seen') ∧
    (d.feed rs).sub.sink.rows = (tk d.sub.room (foS seen rs)).reverse ++ d.sub.sink.rows := by
  induction rs generalizing d seen with
  | nil => refine ⟨⟨seen, hd⟩, ?_⟩; cases h' : d.sub.room <;> simp [DistLayer.feed, tk, foS]
  | cons r rs ih =>
    rw [DistLayer.feed, DistLayer.write, foS]
    simp only [hd]
    by_cases hr : r ∈ seen
    · simp only [hr, if_true]
      exact ih d seen hd h
    · simp only [hr, if_false]
      rcases d.sub.write_spec h r with ⟨h0, hw⟩ | ⟨h0, hok, hrf, hrows, hroom⟩
      · rw [hw]; simp [h0, tk]
      · rw [show d.sub.write r = ((d.sub.write r).1, true) from by rw [← hok]]
        simp only [if_true]
        have := ih { dist := .uniq (r :: seen), sub := (d.sub.write r).1 } (r :: seen) rfl hrf
        refine ⟨this.1, ?_⟩
        rw [this.2]
        simp only [hrows, hroom]
        cases hr : d.sub.room with
        | none => simp [tk]
        | some n => cases n with
          | zero => exact absurd hr h0
          | succ m => simp [tk]

/-! ### UniqCountWriter -/

theorem DistLayer.feed_count (d : DistLayer) (recs : List (Row × Nat)) (hd : d.dist = .uniqCount recs)
    (rs : List Row) : d.feed rs = { d with dist := .uniqCount (rs.foldl bumpCount recs) } := by
  induction rs generalizing d recs with
  | nil => cases d; simp_all [DistLayer.feed]
  | cons r rs ih =>
    rw [DistLayer.feed, DistLayer.write]
    simp only [hd, if_true]
    exact ih _ _ rfl

theorem foldl_bump_cons (r : Row) (n : Nat) (rest : List (Row × Nat)) (rs : List Row) :
    rs.foldl bumpCount ((r, n) :: rest) =
      (r, n + rs.count r) :: (rs.filter (fun x => decide (x ≠ r))).foldl bumpCount rest := by
  induction rs generalizing n rest with
  | nil => simp
  | cons x rs ih =>
    rw [List.foldl_cons, bumpCount]
    by_cases hx : r = x
    · subst hx; simp [ih]; omega
    · simp [hx, ih, Ne.symm hx]

theorem firstOccurrences_filter (p : Row → Bool) (rs : List Row) :
    firstOccurrences (rs.filter p) = (firstOccurrences rs).filter p := by
  induction rs with
  | nil => rfl
  | cons r rs ih =>
    by_cases hp : p r = true
    · simp only [List.filter_cons, hp, if_true, firstOccurrences, ih, List.filter_filter]
      congr 1
      apply List.filter_congr
      intro x _
      exact Bool.and_comm _ _
    · have hp' : p r = false := by simpa using hp
      simp only [List.filter_cons, hp', Bool.false_eq_true, if_false, firstOccurrences, ih,
        List.filter_filter]
      apply List.filter_congr
      intro x _
      by_cases hx : x = r
      · subst hx; simp [hp']
      · simp [hx]

theorem foldl_bump_nil (rs : List Row) :
    rs.foldl bumpCount [] = (firstOccurrences rs).map (fun r => (r, rs.count r)) := by
  match rs with
  | [] => rfl
  | r :: rs =>
    rw [List.foldl_cons, bumpCount, foldl_bump_cons, foldl_bump_nil (rs.filter _),
      firstOccurrences_filter, firstOccurrences]
    simp only [List.map_cons, List.count_cons_self]
    congr 1
    · rw [Nat.add_comm]
    · apply List.map_congr_left
      intro y hy
      have hyr : y ≠ r := by simpa using (List.mem_filter.mp hy).2
      rw [List.count_filter (by simpa using hyr), List.count_cons]
      simp [Ne.symm hyr]
termination_by rs.length
decreasing_by
  have := List.length_filter_le (fun x => decide (x ≠ r)) rs
  simp only [List.length_cons]; omega

/-! ### the three DISTINCT modes over the TopWriter -/

/-- the DISTINCT layer `buildChain` creates -/
def distInit : Distinct → DistState
  | .count => .uniqCount []
  | .yes => .uniq []
  | .no => .none

theorem dist_rows (dist0 : Distinct) (t : TopLayer) (h : t.sink.refuseFrom = none) (rows : List Row) :
    ((({ dist := distInit dist0, sub := t } : DistLayer).feed rows).finish).sub.sink.rows =
      (tk t.room (dedupSpec dist0 rows)).reverse ++ t.sink.rows := by
  cases dist0 with
  | no =>
    rw [DistLayer.feed_none _ rfl]
    simp only [distInit, DistLayer.finish, dedupSpec, TopLayer.finish_rows]
    exact t.feed_rows h rows
  | yes =>
    have := DistLayer.feed_uniq { dist := distInit .yes, sub := t } [] rfl h rows
    rcases this with ⟨⟨seen', hs⟩, hrows⟩
    rw [DistLayer.finish.eq_def]
    simp only [hs, TopLayer.finish_rows, hrows, foS_nil, dedupSpec]
  | count =>
    rw [DistLayer.feed_count _ [] rfl]
    simp only [DistLayer.finish, TopLayer.finish_rows, foldl_bump_nil, List.map_map, dedupSpec]
    rw [t.feed_rows h]
    rfl

/-! ### SortedWriter -/

theorem Chain.feedStop_sorted (c : Chain) (rev : Bool) (entries : List (List Val × Row))
    (h : c.sorted = some (rev, entries)) (es : List (List Val × Row)) :
    c.feedStop es = ({ c with sorted := some (rev, entries ++ es) }, true) := by
  induction es generalizing c entries with
  | nil => cases c; simp_all [Chain.feedStop]
  | cons e es ih =>
    rcases e with ⟨k, r⟩
    rw [Chain.feedStop, Chain.write]
    simp only [h, if_true]
    rw [ih _ _ rfl]
    simp

theorem Chain.feedStop_unsorted (c : Chain) (h : c.sorted = none) (es : List (List Val × Row)) :
    (c.feedStop es).1 = { c with sub := c.sub.feed (es.map (·.2)) } := by
  induction es generalizing c with
  | nil => rfl
  | cons e es ih =>
    rcases e with ⟨k, r⟩
    rw [Chain.feedStop, Chain.write, List.map_cons, DistLayer.feed]
    simp only [h]
    rcases hw : c.sub.write r with ⟨d', ok⟩
    cases ok
    · simp
    · simp only [if_true]
      exact ih _ rfl

/-- what the DISTINCT layer receives in total: the sorted entries at `finish`, or the rows as they come -/
theorem Chain.run_sub (c : Chain) (es : List (List Val × Row)) :
    ((c.feedStop es).1.finish).sub =
      (c.sub.feed (match c.sorted with
        | some (rev, entries) => sortEntries rev (entries ++ es)
        | none => es.map (·.2))).finish := by
  rcases hs : c.sorted with _ | ⟨rev, entries⟩
  · rw [Chain.feedStop_unsorted c hs, Chain.finish]
    simp only [hs]
  · rw [Chain.feedStop_sorted c rev entries hs, Chain.finish]

theorem buildChain_run_sub (q : SemQuery) (hsel : q.isUpdate = false) (es : List (List Val × Row))
    (sink : Sink) :
    (((buildChain q sink).feedStop es).1.finish).sub =
      ((({ dist := distInit q.distinct, sub := { top := q.top.map (fun n => (n, 0)), sink := sink } } :
        DistLayer).feed (orderSpec q es))).finish := by
  rw [Chain.run_sub]
  unfold buildChain orderSpec sortEntries distInit
  simp only [hsel, Bool.false_eq_true, if_false]
  cases q.orderBy <;> cases q.distinct <;> simp

/-- ORDER BY, DISTINCT and TOP/LIMIT compose as sort, then dedup, then truncate -/
theorem chain_select_spec (q : SemQuery) (hsel : q.isUpdate = false) (es : List (List Val × Row))
    (sink : Sink) (h0 : sink = {}) :
    (((buildChain q sink).feedStop es).1.finish).getSink.rows.reverse = selectSpec q es := by
  subst h0
  rw [Chain.getSink, buildChain_run_sub q hsel, dist_rows _ _ rfl]
  unfold selectSpec truncSpec TopLayer.room
  cases q.top <;> simp [tk]

/-! ### bookkeeping of the user's writer, for an arbitrary refusal point -/

theorem TopLayer.write_finished (t : TopLayer) (r : Row) :
    (t.write r).1.sink.finished = t.sink.finished := by
  unfold TopLayer.write
  rcases t.top with _ | ⟨cap, nw⟩
  · exact t.sink.write_finished r
  · simp only []
    split
    · rfl
    · exact t.sink.write_finished r

theorem TopLayer.write_live (t : TopLayer) (r : Row) (h : t.sink.Live) :
    ((t.write r).2 = true → (t.write r).1.sink.Live) ∧ (t.write r).1.sink.afterRefusal = 0 := by
  unfold TopLayer.write
  rcases t.top with _ | ⟨cap, nw⟩
  · exact t.sink.write_live r h
  · simp only []
    split
    · exact ⟨fun hf => by simp at hf, h.1⟩
    · exact t.sink.write_live r h

theorem TopLayer.feed_finished (t : TopLayer) (rs : List Row) :
    (t.feed rs).sink.finished = t.sink.finished := by
  induction rs generalizing t with
  | nil => rfl
  | cons r rs ih =>
    rw [TopLayer.feed]
    have := t.write_finished r
    rcases hw : t.write r with ⟨t', ok⟩
    rw [hw] at this
    cases ok
    · simpa using this
    · simp only [if_true]; rw [ih]; exact this

theorem TopLayer.feed_live (t : TopLayer) (rs : List Row) (h : t.sink.Live) :
    (t.feed rs).sink.afterRefusal = 0 := by
  induction rs generalizing t with
  | nil => exact h.1
  | cons r rs ih =>
    rw [TopLayer.feed]
    have := t.write_live r h
    rcases hw : t.write r with ⟨t', ok⟩
    rw [hw] at this
    cases ok
    · simpa using this.2
    · simp only [if_true]; exact ih _ (this.1 rfl)

def DistState.isCount : DistState → Bool
  | .uniqCount _ => true
  | _ => false

theorem DistLayer.write_finished (d : DistLayer) (r : Row) :
    (d.write r).1.sub.sink.finished = d.sub.sink.finished := by
  unfold DistLayer.write
  rcases d.dist with _ | seen | recs
  · exact d.sub.write_finished r
  · simp only []
    split
    · rfl
    · exact d.sub.write_finished r
  · rfl

theorem DistLayer.write_live (d : DistLayer) (r : Row) (h : d.sub.sink.Live) :
    ((d.write r).2 = true → (d.write r).1.sub.sink.Live) ∧ (d.write r).1.sub.sink.afterRefusal = 0 := by
  unfold DistLayer.write
  rcases d.dist with _ | seen | recs
  · exact d.sub.write_live r h
  · simp only []
    split
    · exact ⟨fun _ => h, h.1⟩
    · exact d.sub.write_live r h
  · exact ⟨fun _ => h, h.1⟩

theorem DistLayer.write_isCount (d : DistLayer) (r : Row) :
    (d.write r).1.dist.isCount = d.dist.isCount := by
  rw [DistLayer.write.eq_def]
  rcases hd : d.dist with _ | seen | recs
  · simp
  · simp only []
    split
    · simp [hd]
    · rfl
  · rfl

theorem DistLayer.feed_finished (d : DistLayer) (rs : List Row) :
    (d.feed rs).sub.sink.finished = d.sub.sink.finished := by
  induction rs generalizing d with
  | nil => rfl
  | cons r rs ih =>
    rw [DistLayer.feed]
    have := d.write_finished r
    rcases hw : d.write r with ⟨d', ok⟩
    rw [hw] at this
    cases ok
    · simpa using this
    · simp only [if_true]; rw [ih]; exact this

theorem DistLayer.feed_isCount (d : DistLayer) (rs : List Row) :
    (d.feed rs).dist.isCount = d.dist.isCount := by
  induction rs generalizing d with
  | nil => rfl
  | cons r rs ih =>
    rw [DistLayer.feed]
    have := d.write_isCount r
    rcases hw : d.write r with ⟨d', ok⟩
    rw [hw] at this
    cases ok
    · simpa using this
    · simp only [if_true]; rw [ih]; exact this

theorem DistLayer.feed_live (d : DistLayer) (rs : List Row) (h : d.sub.sink.Live) :
    (d.feed rs).sub.sink.afterRefusal = 0 := by
  induction rs generalizing d with
  | nil => exact h.1
  | cons r rs ih =>
    rw [DistLayer.feed]
    have := d.write_live r h
    rcases hw : d.write r with ⟨d', ok⟩
    rw [hw] at this
    cases ok
    · simpa using this.2
    · simp only [if_true]; exact ih _ (this.1 rfl)

theorem DistLayer.finish_finished (d : DistLayer) :
    d.finish.sub.sink.finished = d.sub.sink.finished + 1 := by
  rw [DistLayer.finish.eq_def]
  rcases d.dist with _ | seen | recs
  · rfl
  · rfl
  · simp only [TopLayer.finish, TopLayer.feed_finished]

theorem DistLayer.run_live (d : DistLayer) (rs : List Row) (h : d.sub.sink.Live) :
    ((d.feed rs).finish).sub.sink.afterRefusal = 0 := by
  rcases hd : d.dist with _ | seen | recs
  · have h1 := d.feed_isCount rs
    have h2 := d.feed_live rs h
    rw [hd] at h1
    rw [DistLayer.finish.eq_def]
    rcases hd' : (d.feed rs).dist with _ | seen' | recs'
    · exact h2
    · exact h2
    · rw [hd'] at h1; simp [DistState.isCount] at h1
  · have h1 := d.feed_isCount rs
    have h2 := d.feed_live rs h
    rw [hd] at h1
    rw [DistLayer.finish.eq_def]
    rcases hd' : (d.feed rs).dist with _ | seen' | recs'
    · exact h2
    · exact h2
    · rw [hd'] at h1; simp [DistState.isCount] at h1
  · rw [DistLayer.feed_count d recs hd]
    simp only [DistLayer.finish, TopLayer.finish]
    exact TopLayer.feed_live _ _ h

theorem buildChain_sink (q : SemQuery) (sink : Sink) : (buildChain q sink).sub.sub.sink = sink := by
  unfold buildChain; split <;> rfl

/-- the user's writer is finished exactly once -/
theorem chain_finish_once (q : SemQuery) (es : List (List Val × Row)) (sink : Sink) :
    (((buildChain q sink).feedStop es).1.finish).getSink.finished = sink.finished + 1 := by
  rw [Chain.getSink, Chain.run_sub, DistLayer.finish_finished, DistLayer.feed_finished, buildChain_sink]

/-- the user's writer is never written again after it refused a record -/
theorem chain_no_write_after_refusal (q : SemQuery) (es : List (List Val × Row)) (sink : Sink)
    (h : sink.afterRefusal = 0) (hw : ∀ n, sink.refuseFrom = some n → sink.writes < n) :
    (((buildChain q sink).feedStop es).1.finish).getSink.afterRefusal = 0 := by
  rw [Chain.getSink, Chain.run_sub]
  apply DistLayer.run_live
  rw [buildChain_sink]
  exact ⟨h, hw⟩

/-- the bound is a prefix of the unbounded result -/
theorem chain_bound_is_take (q : SemQuery) (hsel : q.isUpdate = false) (n : Nat)
    (es : List (List Val × Row)) :
    (((buildChain { q with top := some n } {}).feedStop es).1.finish).getSink.rows.reverse =
      ((((buildChain { q with top := none } {}).feedStop es).1.finish).getSink.rows.reverse).take n := by
  have h1 := chain_select_spec { q with top := some n } hsel es {} rfl
  have h2 := chain_select_spec { q with top := none } hsel es {} rfl
  rw [h1, h2]
  rfl

end Rbql
