/-
  ` AS name` rewriting (`subAsAlias`, the model of
  `re.sub(r' +(AS|as) +([a-zA-Z][a-zA-Z0-9_]*) *(?=$|,)', repl, text)`) on a comma-joined select list:
  every item `expr AS ident` whose `expr` is alias-free and does not end in a blank becomes `expr ++ repl ident`,
  every alias-free item is left alone (`subAsAlias_items_aux`, `subAsAlias_noop`).

  Proof plan: the matcher `asAliasAt` is re-expressed as three Bool stages (`coreB`, `identEnd`, `tailEnd`);
  each stage has a "context" lemma saying that appending a context `Z` to a text that does not match does not
  create a match (`tailEnd_ctx`, `identEnd_ctx`, `coreB_ctx`, `asAliasAt_ctx`), provided `Z` satisfies `CtxOk`
  (empty, a comma, or a blank not followed by `ident *(end|,)`).  `subAsAlias_quiet` lifts this to the scanner.
-/
import Rbql.Proofs.TranslateItems
namespace Rbql

/-! ### the intrinsic side condition -/

/-- no (non-empty) suffix of the text is matched by the alias pattern at its head (JS `$`) -/
def aliasFreeSuffixes : Str → Bool
  | [] => true
  | c :: cs => (asAliasAt false (c :: cs)).isNone && aliasFreeSuffixes cs
/-- no suffix of `t` is an alias tail, and `t` has no line feed (so Python's `$` is the end of the text) -/
def AliasFree (t : Str) : Bool := aliasFreeSuffixes t && t.all (· != LF)
/-! ### the matcher as Bool stages -/

def isKw (k1 k2 : Char) : Bool := (k1 == 'A' && k2 == 'S') || (k1 == 'a' && k2 == 's')
/-- after the identifier: ` *(?=$|,)` -/
def tailEnd (py : Bool) (r2 : Str) : Bool := endOrComma py (dropSpaces r2)
/-- after the keyword and one blank: ` *ident *(?=$|,)` -/
def identEnd (py : Bool) (r : Str) : Bool :=
  match takeAliasIdent (dropSpaces r) with
  | some (_, r2) => tailEnd py r2
  | none => false
/-- after the leading blanks: `(AS|as) +ident *(?=$|,)` -/
def coreB (py : Bool) : Str → Bool
  | k1 :: k2 :: c3 :: r => c3 == ' ' && isKw k1 k2 && identEnd py r
  | _ => false

theorem isKw_def (k1 k2 : Char) : ((k1 == 'A' && k2 == 'S') || (k1 == 'a' && k2 == 's')) = isKw k1 k2 := rfl

theorem asAliasAt_isSome (py : Bool) (u : Str) :
    (asAliasAt py (' ' :: u)).isSome = coreB py (dropSpaces u) := by
  simp only [asAliasAt, dropSpaces_space]
  split
  · next k1 k2 r h =>
    rw [h]
    simp only [coreB, identEnd, tailEnd, isKw_def]
    by_cases hk : isKw k1 k2 = true
    · simp only [hk, if_true]
      cases ht : takeAliasIdent (dropSpaces r) with
      | none => simp
      | some p =>
        obtain ⟨ident, r2⟩ := p
        cases he : endOrComma py (dropSpaces r2) <;> simp [he]
    · simp [hk]
  · next h =>
    generalize dropSpaces u = v at *
    match v, h with
    | [], _ => rfl
    | [_], _ => rfl
    | [_, _], _ => rfl
    | k1 :: k2 :: c3 :: r, h =>
      have : c3 ≠ ' ' := by rintro rfl; exact h _ _ _ rfl
      simp [coreB, this]

theorem asAliasAt_nil (py : Bool) : asAliasAt py [] = none := rfl
theorem asAliasAt_ne_space (py : Bool) (c : Char) (s : Str) (h : c ≠ ' ') : asAliasAt py (c :: s) = none := by
  unfold asAliasAt
  split
  · next heq => simp at heq; exact absurd heq.1 h
  · rfl

theorem asAliasAt_eq_none_iff (py : Bool) (u : Str) :
    asAliasAt py (' ' :: u) = none ↔ coreB py (dropSpaces u) = false := by
  rw [← asAliasAt_isSome]
  cases asAliasAt py (' ' :: u) <;> simp

theorem dropWhile_append_of_ne_nil (p : Char → Bool) (x Z : Str) (h : x.dropWhile p ≠ []) :
    (x ++ Z).dropWhile p = x.dropWhile p ++ Z := by
  rw [List.dropWhile_append]; simp [h]
theorem takeWhile_append_of_ne_nil (p : Char → Bool) (x Z : Str) (h : x.dropWhile p ≠ []) :
    (x ++ Z).takeWhile p = x.takeWhile p := by
  induction x with
  | nil => simp at h
  | cons c cs ih =>
    by_cases hc : p c = true
    · simp [hc] at h ⊢; exact ih h
    · simp [hc]
theorem dropSpaces_append_of_ne_nil (x Z : Str) (h : dropSpaces x ≠ []) :
    dropSpaces (x ++ Z) = dropSpaces x ++ Z := dropWhile_append_of_ne_nil _ x Z h
theorem alias_dropSpaces_append_of_nil (x Z : Str) (h : dropSpaces x = []) :
    dropSpaces (x ++ Z) = dropSpaces Z := by
  unfold dropSpaces at *
  rw [List.dropWhile_append]; simp [h]
theorem mem_of_mem_dropWhile {p : Char → Bool} {x : Str} {c : Char} (h : c ∈ x.dropWhile p) : c ∈ x :=
  (List.dropWhile_sublist p).subset h
theorem alias_mem_of_mem_dropSpaces {x : Str} {c : Char} (h : c ∈ dropSpaces x) : c ∈ x :=
  mem_of_mem_dropWhile h

theorem tailEnd_ctx (py : Bool) (x Z : Str) (hlf : ∀ c ∈ x, c ≠ LF) (h : tailEnd false x = false) :
    tailEnd py (x ++ Z) = false := by
  unfold tailEnd at *
  match hd : dropSpaces x with
  | [] => simp [hd, endOrComma, atEnd] at h
  | f :: x' =>
    have hf : f ≠ LF := hlf f (alias_mem_of_mem_dropSpaces (by simp [hd]))
    rw [dropSpaces_append_of_ne_nil _ _ (by simp [hd]), hd]
    rw [hd] at h
    simp [endOrComma, atEnd] at h ⊢
    simp [h, hf]

theorem identEnd_ctx (py : Bool) (r Z : Str) (hlf : ∀ c ∈ r, c ≠ LF) (h : identEnd false r = false)
    (hZ : identEnd py Z = false) : identEnd py (r ++ Z) = false := by
  match hd : dropSpaces r with
  | [] =>
    unfold identEnd at *
    rw [alias_dropSpaces_append_of_nil _ _ hd]; exact hZ
  | d :: y =>
    have hlfy : ∀ c ∈ y, c ≠ LF := fun c hc => hlf c (alias_mem_of_mem_dropSpaces (by simp [hd, hc]))
    unfold identEnd at h ⊢
    rw [dropSpaces_append_of_ne_nil _ _ (by simp [hd]), hd]
    rw [hd] at h
    simp only [takeAliasIdent, List.cons_append] at h ⊢
    by_cases ha : isAlpha d = true
    · simp only [ha, if_true] at h ⊢
      by_cases hw : y.dropWhile isAliasChar = []
      · simp [hw, tailEnd, endOrComma, atEnd] at h
      · rw [dropWhile_append_of_ne_nil _ _ _ hw]
        exact tailEnd_ctx py _ Z (fun c hc => hlfy c (mem_of_mem_dropWhile hc)) h
    · simp [ha]

/-- contexts that cannot complete a partial match: the end, a comma, or a blank not followed by ` *ident *(end|,)` -/
def CtxOk (py : Bool) (Z : Str) : Prop :=
  Z = [] ∨ (∃ Y, Z = ',' :: Y) ∨ (∃ Z', Z = ' ' :: Z' ∧ identEnd py Z' = false)

theorem identEnd_nil (py : Bool) : identEnd py [] = false := rfl
theorem identEnd_comma (py : Bool) (Y : Str) : identEnd py (',' :: Y) = false := by
  have : isAlpha ',' = false := by decide
  simp [identEnd, takeAliasIdent, this]
theorem identEnd_space (py : Bool) (Y : Str) : identEnd py (' ' :: Y) = identEnd py Y := by
  simp [identEnd]

theorem CtxOk.identEnd {py : Bool} {Z : Str} (h : CtxOk py Z) : identEnd py Z = false := by
  rcases h with rfl | ⟨Y, rfl⟩ | ⟨Z', rfl, h⟩
  · rfl
  · exact identEnd_comma py Y
  · rw [identEnd_space]; exact h

theorem isKw_space (k : Char) : isKw k ' ' = false := by simp [isKw]
theorem isKw_comma (k : Char) : isKw k ',' = false := by simp [isKw]
theorem isKw_comma' (k : Char) : isKw ',' k = false := by simp [isKw]

theorem coreB_ctx (py : Bool) (v Z : Str) (hv : v ≠ []) (hlf : ∀ c ∈ v, c ≠ LF) (h : coreB false v = false)
    (hZ : CtxOk py Z) : coreB py (v ++ Z) = false := by
  match v, hv with
  | [k1], _ =>
    rcases hZ with rfl | ⟨Y, rfl⟩ | ⟨Z', rfl, hZ'⟩
    · rfl
    · cases Y <;> simp [coreB, isKw_comma]
    · cases Z' <;> simp [coreB, isKw_space]
  | [k1, k2], _ =>
    rcases hZ with rfl | ⟨Y, rfl⟩ | ⟨Z', rfl, hZ'⟩
    · rfl
    · simp [coreB]
    · simp [coreB, hZ']
  | k1 :: k2 :: c3 :: r, _ =>
    simp only [coreB, List.cons_append] at h ⊢
    have hr : ∀ c ∈ r, c ≠ LF := fun c hc => hlf c (by simp [hc])
    by_cases h1 : (c3 == ' ' && isKw k1 k2) = true
    · simp only [h1, Bool.true_and] at h ⊢
      exact identEnd_ctx py r Z hr h hZ.identEnd
    · simp [h1]

theorem coreB_endOrComma (py : Bool) (X : Str) (hX : EndOrCommaCtx X) : coreB py X = false := by
  rcases hX with rfl | ⟨Y, rfl⟩
  · rfl
  · match Y with
    | [] => rfl
    | [_] => rfl
    | _ :: _ :: _ => simp [coreB, isKw_comma']

theorem asAliasAt_endOrComma (py : Bool) (X : Str) (hX : EndOrCommaCtx X) : asAliasAt py X = none := by
  rcases hX with rfl | ⟨Y, rfl⟩
  · rfl
  · exact asAliasAt_ne_space _ _ _ (by decide)

/-- context lemma: a non-matching LF-free `u` does not match when followed by an admissible context, as long as
`u` is not blank (or the context is the end / a comma) -/
theorem asAliasAt_ctx (py : Bool) (u Z : Str) (h : asAliasAt false u = none) (hlf : ∀ c ∈ u, c ≠ LF)
    (hZ : CtxOk py Z) (hmode : dropSpaces u ≠ [] ∨ EndOrCommaCtx Z) : asAliasAt py (u ++ Z) = none := by
  match u with
  | [] =>
    rcases hmode with hm | hm
    · simp at hm
    · exact asAliasAt_endOrComma py Z hm
  | c :: u' =>
    by_cases hc : c = ' '
    · subst hc
      rw [List.cons_append, asAliasAt_eq_none_iff]
      rw [asAliasAt_eq_none_iff] at h
      by_cases hd : dropSpaces u' = []
      · have hX : EndOrCommaCtx Z := by
          rcases hmode with hm | hm
          · simp [hd] at hm
          · exact hm
        rw [alias_dropSpaces_append_of_nil _ _ hd, dropSpaces_ctx _ hX]
        exact coreB_endOrComma py Z hX
      · rw [dropSpaces_append_of_ne_nil _ _ hd]
        exact coreB_ctx py _ Z hd (fun c hc => hlf c (by simp [alias_mem_of_mem_dropSpaces hc])) h hZ
    · exact asAliasAt_ne_space _ _ _ hc

/-! ### the scanner -/

theorem subAsAlias_skip (py : Bool) (repl : Str → Str) (u rest : Str) :
    subAsAlias py repl u.length (u ++ rest) = subAsAlias py repl 0 rest := by
  induction u with
  | nil => rfl
  | cons c cs ih => simpa [subAsAlias] using ih

theorem subAsAlias_cons_none {py : Bool} {repl : Str → Str} {c : Char} {cs : Str}
    (h : asAliasAt py (c :: cs) = none) : subAsAlias py repl 0 (c :: cs) = c :: subAsAlias py repl 0 cs := by
  simp [subAsAlias, h]
theorem subAsAlias_cons_some {py : Bool} {repl : Str → Str} {c : Char} {cs : Str} {ident : Str} {n : Nat}
    (h : asAliasAt py (c :: cs) = some (ident, n)) :
    subAsAlias py repl 0 (c :: cs) = repl ident ++ subAsAlias py repl (n - 1) cs := by
  simp [subAsAlias, h]

theorem getLast?_of_dropSpaces_nil (x : Str) (hx : x ≠ []) (h : dropSpaces x = []) : x.getLast? = some ' ' := by
  induction x with
  | nil => exact absurd rfl hx
  | cons c cs ih =>
    by_cases hc : c = ' '
    · subst hc
      rw [dropSpaces_space] at h
      cases cs with
      | nil => rfl
      | cons d l => rw [List.getLast?_cons_cons]; exact ih (by simp) h
    · rw [dropSpaces_cons_ne _ _ hc] at h; simp at h

/-- quiet lemma: the scanner copies an alias-free text in an admissible context -/
theorem subAsAlias_quiet (py : Bool) (repl : Str → Str) (u Z : Str) (hfree : aliasFreeSuffixes u = true)
    (hlf : ∀ c ∈ u, c ≠ LF) (hZ : CtxOk py Z) (hmode : u.getLast? ≠ some ' ' ∨ EndOrCommaCtx Z) :
    subAsAlias py repl 0 (u ++ Z) = u ++ subAsAlias py repl 0 Z := by
  induction u with
  | nil => rfl
  | cons c cs ih =>
    simp only [aliasFreeSuffixes, Bool.and_eq_true, Option.isNone_iff_eq_none] at hfree
    have hm : dropSpaces (c :: cs) ≠ [] ∨ EndOrCommaCtx Z := by
      rcases hmode with hm | hm
      · exact Or.inl (fun hd => hm (getLast?_of_dropSpaces_nil _ (by simp) hd))
      · exact Or.inr hm
    have hnone := asAliasAt_ctx py (c :: cs) Z hfree.1 hlf hZ hm
    rw [List.cons_append] at hnone ⊢
    have hmode' : cs.getLast? ≠ some ' ' ∨ EndOrCommaCtx Z := by
      rcases hmode with hm | hm
      · left
        cases cs with
        | nil => simp
        | cons d l => rwa [List.getLast?_cons_cons] at hm
      · exact Or.inr hm
    rw [subAsAlias_cons_none hnone, ih hfree.2 (fun d hd => hlf d (by simp [hd])) hmode']
    rfl

/-! ### items -/

def isAliasIdent (ident : Str) : Bool := match ident with | c :: cs => isAlpha c && cs.all isAliasChar | [] => false
inductive AItem
  | aliased (expr : Str) (a : Nat) (upper : Bool) (b : Nat) (ident : Str) (c : Nat)
  | other (t : Str)
def AItem.render : AItem → Str
  | .aliased expr a upper b ident c => expr ++ spaces (a + 1) ++ (if upper then ['A','S'] else ['a','s']) ++ spaces (b + 1) ++ ident ++ spaces c
  | .other t => t
def AItem.out (repl : Str → Str) : AItem → Str
  | .aliased expr _ _ _ ident _ => expr ++ repl ident
  | .other t => t
def AItem.Ok : AItem → Bool
  | .aliased expr _ _ _ ident _ => AliasFree expr && expr.getLast? != some ' ' && isAliasIdent ident
  | .other t => AliasFree t

theorem isAlpha_ne_space {d : Char} (h : isAlpha d = true) : d ≠ ' ' := by
  rintro rfl; exact absurd h (by decide)
theorem isAlpha_ne_comma {d : Char} (h : isAlpha d = true) : d ≠ ',' := by
  rintro rfl; exact absurd h (by decide)
theorem isAlpha_ne_LF {d : Char} (h : isAlpha d = true) : d ≠ LF := by
  rintro rfl; exact absurd h (by decide)

theorem alias_endOrComma_ctx (py : Bool) (X : Str) (hX : EndOrCommaCtx X) : endOrComma py X = true := by
  rcases hX with rfl | ⟨Y, rfl⟩ <;> simp [endOrComma, atEnd]

/-- the identifier scan stops at the blanks / the terminator -/
theorem takeAliasIdent_ident (ident : Str) (c : Nat) (X : Str) (hid : isAliasIdent ident = true)
    (hX : EndOrCommaCtx X) : takeAliasIdent (ident ++ (spaces c ++ X)) = some (ident, spaces c ++ X) := by
  match ident, hid with
  | d :: cs, hid =>
    simp only [isAliasIdent, Bool.and_eq_true, List.all_eq_true] at hid
    have hstop : (spaces c ++ X).takeWhile isAliasChar = [] ∧ (spaces c ++ X).dropWhile isAliasChar = spaces c ++ X := by
      cases c with
      | zero =>
        rcases hX with rfl | ⟨Y, rfl⟩
        · simp
        · have : isAliasChar ',' = false := by decide
          simp [this]
      | succ n =>
        have : isAliasChar ' ' = false := by decide
        simp [spaces_succ, this]
    simp only [List.cons_append, takeAliasIdent, hid.1, if_true]
    rw [List.takeWhile_append_of_pos hid.2, List.dropWhile_append_of_pos hid.2, hstop.1, hstop.2]
    simp

def aliasKw (upper : Bool) : Str := if upper then ['A','S'] else ['a','s']

/-- match lemma: the alias tail of an item matches as a whole -/
theorem asAliasAt_match (py upper : Bool) (a b c : Nat) (ident X : Str) (hid : isAliasIdent ident = true)
    (hX : EndOrCommaCtx X) :
    asAliasAt py (spaces (a + 1) ++ (aliasKw upper ++ (spaces (b + 1) ++ (ident ++ (spaces c ++ X))))) =
      some (ident, a + 1 + 2 + (b + 1) + ident.length + c) := by
  have hd : dropSpaces (ident ++ (spaces c ++ X)) = ident ++ (spaces c ++ X) := by
    match ident, hid with
    | d :: cs, hid =>
      simp only [isAliasIdent, Bool.and_eq_true] at hid
      exact dropSpaces_cons_ne _ _ (isAlpha_ne_space hid.1)
  have hend := alias_endOrComma_ctx py X hX
  have hdx := dropSpaces_ctx X hX
  have ha : ∀ s, dropSpaces ('a' :: s) = 'a' :: s := fun s => dropSpaces_cons_ne _ _ (by decide)
  have hA : ∀ s, dropSpaces ('A' :: s) = 'A' :: s := fun s => dropSpaces_cons_ne _ _ (by decide)
  cases upper <;>
    simp [aliasKw, asAliasAt, spaces_succ, hd, takeAliasIdent_ident ident c X hid hX, hend, hdx, ha, hA] <;> omega

theorem identEnd_aliasTail (py upper : Bool) (a b : Nat) (ident R : Str) (hid : isAliasIdent ident = true) :
    identEnd py (spaces a ++ (aliasKw upper ++ (spaces (b + 1) ++ (ident ++ R)))) = false := by
  match ident, hid with
  | d :: cs, hid =>
    simp only [isAliasIdent, Bool.and_eq_true] at hid
    have hd : dropSpaces (d :: (cs ++ R)) = d :: (cs ++ R) := dropSpaces_cons_ne _ _ (isAlpha_ne_space hid.1)
    have ha : ∀ s, dropSpaces ('a' :: s) = 'a' :: s := fun s => dropSpaces_cons_ne _ _ (by decide)
    have hA : ∀ s, dropSpaces ('A' :: s) = 'A' :: s := fun s => dropSpaces_cons_ne _ _ (by decide)
    have h1 : isAlpha 'a' = true := by decide
    have h2 : isAlpha 'A' = true := by decide
    have h3 : isAliasChar 's' = true := by decide
    have h4 : isAliasChar 'S' = true := by decide
    have h5 : isAliasChar ' ' = false := by decide
    have h6 := isAlpha_ne_comma hid.1
    have h7 := isAlpha_ne_LF hid.1
    cases upper <;>
      simp [identEnd, aliasKw, spaces_succ, ha, hA, takeAliasIdent, h1, h2, h3, h4, h5, tailEnd, hd, endOrComma, atEnd, h6, h7]

theorem subAsAlias_comma (py : Bool) (repl : Str → Str) (s : Str) :
    subAsAlias py repl 0 (',' :: s) = ',' :: subAsAlias py repl 0 s :=
  subAsAlias_cons_none (asAliasAt_ne_space _ _ _ (by decide))

theorem AliasFree_iff (t : Str) : AliasFree t = true ↔ aliasFreeSuffixes t = true ∧ ∀ c ∈ t, c ≠ LF := by
  simp [AliasFree]

theorem subAsAlias_item (py : Bool) (repl : Str → Str) (x : AItem) (hx : x.Ok = true) (X : Str)
    (hX : EndOrCommaCtx X) :
    subAsAlias py repl 0 (x.render ++ X) = x.out repl ++ subAsAlias py repl 0 X := by
  cases x with
  | other t =>
    simp only [AItem.Ok, AliasFree_iff] at hx
    have hZ : CtxOk py X := by
      rcases hX with rfl | ⟨Y, rfl⟩
      · exact Or.inl rfl
      · exact Or.inr (Or.inl ⟨Y, rfl⟩)
    exact subAsAlias_quiet py repl t X hx.1 hx.2 hZ (Or.inr hX)
  | aliased expr a upper b ident c =>
    simp only [AItem.Ok, Bool.and_eq_true, AliasFree_iff, bne_iff_ne, ne_eq] at hx
    obtain ⟨⟨⟨hfree, hlf⟩, hlast⟩, hid⟩ := hx
    simp only [AItem.render, AItem.out, ← aliasKw.eq_1, List.append_assoc]
    have hZ : CtxOk py (spaces (a + 1) ++ (aliasKw upper ++ (spaces (b + 1) ++ (ident ++ (spaces c ++ X))))) :=
      Or.inr (Or.inr ⟨_, by rw [spaces_succ]; rfl, identEnd_aliasTail py upper a b ident _ hid⟩)
    rw [subAsAlias_quiet py repl expr _ hfree hlf hZ (Or.inl hlast)]
    congr 1
    have hm := asAliasAt_match py upper a b c ident X hid hX
    rw [spaces_succ, List.cons_append] at hm ⊢
    rw [subAsAlias_cons_some hm]
    congr 1
    have hlen : a + 1 + 2 + (b + 1) + ident.length + c - 1 =
        (spaces a ++ (aliasKw upper ++ (spaces (b + 1) ++ (ident ++ spaces c)))).length := by
      cases upper <;> simp [aliasKw] <;> omega
    rw [hlen]
    have := subAsAlias_skip py repl (spaces a ++ (aliasKw upper ++ (spaces (b + 1) ++ (ident ++ spaces c)))) X
    simpa only [List.append_assoc] using this

theorem subAsAlias_commaTail (py : Bool) (repl : Str → Str) (items : List AItem) (h : ∀ x ∈ items, x.Ok = true) :
    subAsAlias py repl 0 (commaTail (items.map AItem.render)) = commaTail (items.map (AItem.out repl)) := by
  induction items with
  | nil => rfl
  | cons x xs ih =>
    simp only [List.map_cons, commaTail, List.cons_append]
    rw [subAsAlias_comma, subAsAlias_item py repl x (h x (by simp)) _ (commaTail_ctx _),
      ih (fun y hy => h y (by simp [hy]))]

/-- main theorem -/
theorem subAsAlias_items_aux (py : Bool) (repl : Str → Str) (items : List AItem) (h : ∀ x ∈ items, x.Ok = true) :
    subAsAlias py repl 0 (commaJoin (items.map AItem.render)) = commaJoin (items.map (AItem.out repl)) := by
  cases items with
  | nil => rfl
  | cons x xs =>
    simp only [List.map_cons, commaJoin]
    rw [subAsAlias_item py repl x (h x (by simp)) _ (commaTail_ctx _),
      subAsAlias_commaTail py repl xs (fun y hy => h y (by simp [hy]))]

theorem subAsAlias_noop (py : Bool) (repl : Str → Str) (ts : List Str) (h : ∀ t ∈ ts, AliasFree t = true) :
    subAsAlias py repl 0 (commaJoin ts) = commaJoin ts := by
  have := subAsAlias_items_aux py repl (ts.map AItem.other) (by simpa [AItem.Ok] using h)
  simpa [List.map_map, Function.comp_def, AItem.render, AItem.out] using this

/-! ### examples, and why the side conditions are there -/

example : subAsAlias true aliasPseudoCall 0 "a1 as  x1 , a2 ,  f(a3, 2)   AS Total".toList =
    "a1 == alias_column_as_pseudo_func(x1), a2 ,  f(a3, 2) == alias_column_as_pseudo_func(Total)".toList :=
  subAsAlias_items_aux true aliasPseudoCall
    [.aliased "a1".toList 0 false 1 "x1".toList 1, .other " a2 ".toList,
     .aliased "  f(a3, 2)".toList 2 true 0 "Total".toList 0]
    (by decide)

example : subAsAlias false (fun _ => []) 0 "a1 , as,b as(c), as 1".toList = "a1 , as,b as(c), as 1".toList :=
  subAsAlias_noop false _ ["a1 ".toList, " as".toList, "b as(c)".toList, " as 1".toList] (by decide)

/-! ### producing `AliasFree`: padding, blank-free texts, texts without ` as ` -/

theorem asAliasAt_blank (py : Bool) (s : Str) (h : dropSpaces s = []) : asAliasAt py s = none := by
  match s with
  | [] => rfl
  | c :: s' =>
    by_cases hc : c = ' '
    · subst hc
      rw [dropSpaces_space] at h
      rw [asAliasAt_eq_none_iff, h]; rfl
    · exact asAliasAt_ne_space _ _ _ hc

theorem alias_dropSpaces_spaces (n : Nat) : dropSpaces (spaces n) = [] := by
  have := dropSpaces_spaces_append n []
  simpa using this

theorem CtxOk_spaces (py : Bool) (r : Nat) : CtxOk py (spaces r) := by
  cases r with
  | zero => exact Or.inl rfl
  | succ n =>
    refine Or.inr (Or.inr ⟨spaces n, spaces_succ n, ?_⟩)
    simp [identEnd, alias_dropSpaces_spaces, takeAliasIdent]

/-- trailing blanks do not turn a non-match into a match -/
theorem asAliasAt_append_spaces (py : Bool) (u : Str) (r : Nat) (h : asAliasAt false u = none)
    (hlf : ∀ c ∈ u, c ≠ LF) : asAliasAt py (u ++ spaces r) = none := by
  by_cases hd : dropSpaces u = []
  · apply asAliasAt_blank
    rw [alias_dropSpaces_append_of_nil _ _ hd, alias_dropSpaces_spaces]
  · exact asAliasAt_ctx py u _ h hlf (CtxOk_spaces py r) (Or.inl hd)

theorem aliasFreeSuffixes_spaces (r : Nat) : aliasFreeSuffixes (spaces r) = true := by
  induction r with
  | zero => rfl
  | succ n ih =>
    rw [spaces_succ, aliasFreeSuffixes, ih, ← spaces_succ, asAliasAt_blank _ _ (alias_dropSpaces_spaces _)]; rfl

theorem aliasFreeSuffixes_append_spaces (t : Str) (r : Nat) (h : aliasFreeSuffixes t = true)
    (hlf : ∀ c ∈ t, c ≠ LF) : aliasFreeSuffixes (t ++ spaces r) = true := by
  induction t with
  | nil => exact aliasFreeSuffixes_spaces r
  | cons c cs ih =>
    simp only [aliasFreeSuffixes, Bool.and_eq_true, Option.isNone_iff_eq_none] at h
    have h1 := asAliasAt_append_spaces false (c :: cs) r h.1 hlf
    rw [List.cons_append] at h1 ⊢
    simp only [aliasFreeSuffixes, Bool.and_eq_true, Option.isNone_iff_eq_none]
    exact ⟨h1, ih h.2 (fun d hd => hlf d (by simp [hd]))⟩

theorem aliasFreeSuffixes_spaces_append (l : Nat) (s : Str) (h : aliasFreeSuffixes (' ' :: s) = true) :
    aliasFreeSuffixes (spaces l ++ s) = true := by
  simp only [aliasFreeSuffixes, Bool.and_eq_true, Option.isNone_iff_eq_none] at h
  induction l with
  | zero => exact h.2
  | succ n ih =>
    rw [spaces_succ, List.cons_append]
    simp only [aliasFreeSuffixes, Bool.and_eq_true, Option.isNone_iff_eq_none]
    refine ⟨?_, ih⟩
    rw [asAliasAt_eq_none_iff, dropSpaces_spaces_append]
    exact (asAliasAt_eq_none_iff false s).1 h.1

theorem spaces_ne_LF (n : Nat) : ∀ c ∈ spaces n, c ≠ LF := by
  intro c hc
  have : c = ' ' := by simpa [spaces] using (List.mem_replicate.1 hc).2
  subst this; decide

/-- space padding on either side of an item text cannot create an alias match -/
theorem aliasFree_padded (l r : Nat) (t : Str) (h : AliasFree (' ' :: t) = true) :
    AliasFree (spaces l ++ t ++ spaces r) = true := by
  rw [AliasFree_iff] at h ⊢
  obtain ⟨hfree, hlf⟩ := h
  constructor
  · rw [List.append_assoc]
    apply aliasFreeSuffixes_spaces_append
    exact aliasFreeSuffixes_append_spaces (' ' :: t) r hfree hlf
  · intro c hc
    simp only [List.mem_append] at hc
    rcases hc with (hc | hc) | hc
    · exact spaces_ne_LF _ c hc
    · exact hlf c (by simp [hc])
    · exact spaces_ne_LF _ c hc

theorem aliasFreeSuffixes_iff (s : Str) :
    aliasFreeSuffixes s = true ↔ ∀ w, w <:+ s → asAliasAt false w = none := by
  induction s with
  | nil =>
    simp only [aliasFreeSuffixes, true_iff]
    intro w hw
    have : w = [] := by simpa using hw
    subst this; rfl
  | cons c cs ih =>
    simp only [aliasFreeSuffixes, Bool.and_eq_true, Option.isNone_iff_eq_none, ih]
    constructor
    · rintro ⟨h1, h2⟩ w hw
      rcases List.suffix_cons_iff.1 hw with rfl | hw
      · exact h1
      · exact h2 w hw
    · intro h
      exact ⟨h _ (List.suffix_refl _), fun w hw => h w (List.suffix_cons_iff.2 (Or.inr hw))⟩

theorem exists_spaces_dropSpaces (u : Str) : ∃ m, u = spaces m ++ dropSpaces u := by
  induction u with
  | nil => exact ⟨0, rfl⟩
  | cons c cs ih =>
    by_cases hc : c = ' '
    · subst hc
      obtain ⟨m, hm⟩ := ih
      exact ⟨m + 1, by rw [dropSpaces_space, spaces_succ, List.cons_append, ← hm]⟩
    · exact ⟨0, by rw [dropSpaces_cons_ne _ _ hc]; rfl⟩

/-- a match contains ` as ` or ` AS ` -/
theorem asAliasAt_some_shape (py : Bool) (w : Str) (h : asAliasAt py w ≠ none) :
    ∃ p r, w = p ++ (" as ".toList ++ r) ∨ w = p ++ (" AS ".toList ++ r) := by
  match w with
  | [] => exact absurd rfl h
  | c :: u =>
    by_cases hc : c = ' '
    · subst hc
      rw [Ne, asAliasAt_eq_none_iff] at h
      obtain ⟨m, hm⟩ := exists_spaces_dropSpaces u
      match hv : dropSpaces u with
      | [] => rw [hv] at h; exact absurd rfl h
      | [_] => rw [hv] at h; exact absurd rfl h
      | [_, _] => rw [hv] at h; exact absurd rfl h
      | k1 :: k2 :: c3 :: r =>
        rw [hv] at h hm
        simp only [coreB, Bool.and_eq_false_iff, not_or, Bool.not_eq_false, beq_iff_eq] at h
        obtain ⟨⟨h3, hk⟩, _⟩ := h
        subst h3
        have hw : ' ' :: u = spaces m ++ (' ' :: k1 :: k2 :: ' ' :: r) := by
          rw [hm, ← List.cons_append, ← spaces_succ, spaces_succ']; simp
        refine ⟨spaces m, r, ?_⟩
        rw [hw]
        simp only [isKw, Bool.or_eq_true, Bool.and_eq_true, beq_iff_eq] at hk
        rcases hk with ⟨rfl, rfl⟩ | ⟨rfl, rfl⟩
        · exact Or.inr rfl
        · exact Or.inl rfl
    · exact absurd (asAliasAt_ne_space _ _ _ hc) h

theorem aliasFree_of_no_as (t : Str) (hlf : LF ∉ t)
    (h : ∀ u, ¬ (" as ".toList ++ u) <:+ (' ' :: t) ∧ ¬ (" AS ".toList ++ u) <:+ (' ' :: t)) :
    AliasFree (' ' :: t) = true := by
  rw [AliasFree_iff]
  constructor
  · rw [aliasFreeSuffixes_iff]
    intro w hw
    apply Classical.byContradiction
    intro hne
    obtain ⟨p, r, hr | hr⟩ := asAliasAt_some_shape false w hne
    · exact (h r).1 (List.IsSuffix.trans ⟨p, hr.symm⟩ hw)
    · exact (h r).2 (List.IsSuffix.trans ⟨p, hr.symm⟩ hw)
  · intro c hc
    rcases List.mem_cons.1 hc with rfl | hc
    · decide
    · rintro rfl; exact hlf hc

/-- an alias tail needs a blank after the keyword -/
theorem aliasFree_of_no_space (t : Str) (h : ' ' ∉ t) (hlf : LF ∉ t) : AliasFree (' ' :: t) = true := by
  apply aliasFree_of_no_as t hlf
  intro u
  have key : ∀ k1 k2, ¬ (' ' :: k1 :: k2 :: ' ' :: u) <:+ (' ' :: t) := by
    intro k1 k2 hs
    have h1 : ' ' ∈ k1 :: k2 :: ' ' :: u := by simp
    rcases List.suffix_cons_iff.1 hs with heq | hs
    · have : k1 :: k2 :: ' ' :: u = t := by simpa using heq
      exact h (this ▸ h1)
    · exact h (hs.subset (by simp))
  exact ⟨key _ _, key _ _⟩

/-! star items and `COUNT(1)` -/

theorem aliasFree_star (l r : Nat) : AliasFree (spaces l ++ ['*'] ++ spaces r) = true :=
  aliasFree_padded l r _ (by decide)
theorem aliasFree_a_star (l r : Nat) : AliasFree (spaces l ++ "a.*".toList ++ spaces r) = true :=
  aliasFree_padded l r _ (by decide)
theorem aliasFree_b_star (l r : Nat) : AliasFree (spaces l ++ "b.*".toList ++ spaces r) = true :=
  aliasFree_padded l r _ (by decide)
theorem aliasFree_count_one : AliasFree (' ' :: " COUNT(1)".toList) = true := by decide

example : AliasFree (spaces 2 ++ "f(a1, 2)".toList ++ spaces 3) = true := aliasFree_padded 2 3 _ (by decide)
example : AliasFree (' ' :: "a1+len(a2)".toList) = true :=
  aliasFree_of_no_space _ (by decide) (by decide)

end Rbql
