/- Lemmas about the quoted-field scanner and `nextField`. -/
import Rbql.Model.Csv
import Rbql.Proofs.Find
namespace Rbql

def AllSpaces (s : Str) : Prop := ∀ c ∈ s, c = SPACE
def NoLeadSpace (s : Str) : Prop := s.head? ≠ some SPACE
def NoLeadQuote (s : Str) : Prop := s.head? ≠ some QUOTE

theorem scanBody_sound (s x r : Str) (h : scanBody s = some (x, r)) :
    s = escapeQ x ++ QUOTE :: r := by
  fun_induction scanBody s generalizing x r <;> simp_all [escapeQ] <;> grind [escapeQ]

theorem scanBody_rest_lt (s x r : Str) (h : scanBody s = some (x, r)) : r.length < s.length := by
  have := scanBody_sound s x r h
  rw [this]; simp; omega

theorem scanBody_complete (x r : Str) (hr : NoLeadQuote r) :
    scanBody (escapeQ x ++ QUOTE :: r) = some (x, r) := by
  induction x with
  | nil =>
    simp only [escapeQ, List.nil_append]
    rw [scanBody.eq_def]
    cases r with
    | nil => simp
    | cons c cs =>
      have : c ≠ QUOTE := by intro h; subst h; exact hr rfl
      simp [this]
  | cons c cs ih =>
    by_cases hc : c = QUOTE
    · subst hc
      simp only [escapeQ, if_true, List.cons_append]
      rw [scanBody.eq_def]
      simp [ih]
    · simp only [escapeQ, hc, if_false, List.cons_append]
      rw [scanBody.eq_def]
      simp [hc, ih]

theorem spanSpaces_spec (s : Str) :
    s = (spanSpaces s).1 ++ (spanSpaces s).2 ∧ AllSpaces (spanSpaces s).1 ∧ NoLeadSpace (spanSpaces s).2 := by
  unfold spanSpaces
  refine ⟨(List.takeWhile_append_dropWhile).symm, ?_, ?_⟩
  · intro c hc
    have := (List.all_eq_true.mp (List.all_takeWhile (p := fun c => c == SPACE) (l := s))) c hc
    simpa using this
  · unfold NoLeadSpace
    intro h
    have := List.head?_dropWhile_not (fun c => c == SPACE) s
    rw [h] at this
    simp at this

theorem spanSpaces_append (sp r : Str) (h1 : AllSpaces sp) (h2 : NoLeadSpace r) :
    spanSpaces (sp ++ r) = (sp, r) := by
  induction sp with
  | nil =>
    cases r with
    | nil => rfl
    | cons c cs =>
      have : c ≠ SPACE := by intro h; subst h; exact h2 rfl
      simp [spanSpaces, this]
  | cons c cs ih =>
    have hc : c = SPACE := h1 c (by simp)
    have ih' := ih (fun x hx => h1 x (by simp [hx]))
    subst hc
    unfold spanSpaces at *
    simp only [Prod.mk.injEq] at ih'
    simp [ih'.1, ih'.2]

/-- Declarative description of a quoted field at the start of `s`: optional spaces (only when
`ws`), an opening quote, the content with inner quotes doubled, a closing quote, optional spaces,
then `r`. -/
def QuotedAt (ws : Bool) (s x r : Str) : Prop :=
  ∃ sp1 sp2, (ws = false → sp1 = [] ∧ sp2 = []) ∧ AllSpaces sp1 ∧ AllSpaces sp2 ∧
    s = sp1 ++ QUOTE :: (escapeQ x ++ QUOTE :: (sp2 ++ r))

theorem matchQuoted_sound (ws : Bool) (s x r : Str) (h : matchQuoted ws s = some (x, r)) :
    QuotedAt ws s x r ∧ (ws = true → NoLeadSpace r) := by
  unfold matchQuoted at h
  cases ws with
  | false =>
    simp only [Bool.false_eq_true, if_false] at h
    cases s with
    | nil => simp at h
    | cons c s2 =>
      simp only at h
      split at h
      · rename_i hc
        subst hc
        cases hb : scanBody s2 with
        | none => simp [hb] at h
        | some p =>
          obtain ⟨content, s3⟩ := p
          simp only [hb, Option.some.injEq, Prod.mk.injEq] at h
          obtain ⟨rfl, rfl⟩ := h
          refine ⟨⟨[], [], fun _ => ⟨rfl, rfl⟩, by simp [AllSpaces], by simp [AllSpaces], ?_⟩, by simp⟩
          simp [scanBody_sound s2 _ _ hb]
      · simp at h
  | true =>
    simp only [if_true] at h
    obtain ⟨e1, a1, n1⟩ := spanSpaces_spec s
    cases hs1 : (spanSpaces s).2 with
    | nil => simp [hs1] at h
    | cons c s2 =>
      simp only [hs1] at h
      split at h
      · rename_i hc
        subst hc
        cases hb : scanBody s2 with
        | none => simp [hb] at h
        | some p =>
          obtain ⟨content, s3⟩ := p
          simp only [hb, Option.some.injEq, Prod.mk.injEq] at h
          obtain ⟨rfl, rfl⟩ := h
          obtain ⟨e3, a3, n3⟩ := spanSpaces_spec s3
          refine ⟨⟨(spanSpaces s).1, (spanSpaces s3).1, by simp, a1, a3, ?_⟩, fun _ => n3⟩
          rw [← e3, ← scanBody_sound s2 _ _ hb, ← hs1]
          exact e1
      · simp at h

theorem matchQuoted_complete (ws : Bool) (s x r : Str) (h : QuotedAt ws s x r)
    (hq : NoLeadQuote r) (hs : ws = true → NoLeadSpace r) : matchQuoted ws s = some (x, r) := by
  obtain ⟨sp1, sp2, h0, a1, a2, rfl⟩ := h
  have hq2 : NoLeadQuote (sp2 ++ r) := by
    cases sp2 with
    | nil => simpa using hq
    | cons c cs =>
      have : c = SPACE := a2 c (by simp)
      subst this
      simp [NoLeadQuote, SPACE, QUOTE]
  unfold matchQuoted
  cases ws with
  | false =>
    obtain ⟨rfl, rfl⟩ := h0 rfl
    simp only [Bool.false_eq_true, if_false, List.nil_append]
    simp [scanBody_complete x r hq]
  | true =>
    have hnl : NoLeadSpace (QUOTE :: (escapeQ x ++ QUOTE :: (sp2 ++ r))) := by
      simp [NoLeadSpace, SPACE, QUOTE]
    simp only [if_true, spanSpaces_append sp1 _ a1 hnl]
    simp [scanBody_complete x (sp2 ++ r) hq2, spanSpaces_append sp2 r a2 (hs rfl)]

/-- The delimiters the dialect is stated for: non-empty, no double quote inside, and (when
surrounding spaces are allowed) not beginning with a space. -/
structure GoodDelim (d : Str) (ws : Bool) : Prop where
  ne : d ≠ []
  noQuote : QUOTE ∉ d
  noLeadSpace : ws = true → NoLeadSpace d

theorem GoodDelim.rest_ok {d : Str} {ws : Bool} (g : GoodDelim d ws) (r : Str)
    (h : r = [] ∨ ∃ t, r = d ++ t) : NoLeadQuote r ∧ (ws = true → NoLeadSpace r) := by
  rcases h with rfl | ⟨t, rfl⟩
  · simp [NoLeadQuote, NoLeadSpace]
  · cases hd : d with
    | nil => exact absurd hd g.ne
    | cons c cs =>
      refine ⟨?_, ?_⟩
      · have : c ≠ QUOTE := by
          intro h; apply g.noQuote; rw [hd, h]; simp
        simp [NoLeadQuote, this]
      · intro hws
        have := g.noLeadSpace hws
        rw [hd] at this
        simpa [NoLeadSpace] using this

/-- If a quoted-field pattern starts `s`, the text before the first delimiter contains the quote. -/
theorem quote_in_prefix {d : Str} {ws : Bool} (g : GoodDelim d ws) (s x r0 b r : Str)
    (hq : QuotedAt ws s x r0) (hb : s = b ++ d ++ r) : QUOTE ∈ b := by
  obtain ⟨sp1, sp2, h0, a1, _, hs⟩ := hq
  cases hd : d with
  | nil => exact absurd hd g.ne
  | cons c cs =>
    have hc1 : c ≠ QUOTE := by intro h; apply g.noQuote; rw [hd, h]; simp
    have hc2 : sp1 ≠ [] → c ≠ SPACE := by
      intro hne
      cases ws with
      | false => exact absurd (h0 rfl).1 hne
      | true =>
        have := g.noLeadSpace rfl
        rw [hd] at this
        simpa [NoLeadSpace] using this
    -- character of s at index |b| is c
    have e1 : s[b.length]? = some c := by
      rw [hb, hd]; simp
    by_cases hlt : b.length < sp1.length
    · have : s[b.length]? = some SPACE := by
        rw [hs, List.getElem?_append_left hlt]
        have hm := List.getElem_mem hlt
        rw [List.getElem?_eq_getElem hlt, a1 _ hm]
      rw [this] at e1
      have hne : sp1 ≠ [] := by intro h; simp [h] at hlt
      exact absurd (Option.some.inj e1).symm (hc2 hne)
    · by_cases heq : b.length = sp1.length
      · have : s[b.length]? = some QUOTE := by
          rw [hs, heq]; simp
        rw [this] at e1
        exact absurd (Option.some.inj e1).symm hc1
      · have hgt : sp1.length < b.length := by omega
        have e2 : s[sp1.length]? = some QUOTE := by rw [hs]; simp
        have e3 : s[sp1.length]? = b[sp1.length]? := by
          rw [hb, List.append_assoc, List.getElem?_append_left hgt]
        rw [e3] at e2
        exact List.mem_of_getElem? e2

/-- One field of the dialect at the start of `s`:
quoted iff a quoted-field pattern is followed by the delimiter or the end of the line; otherwise
the field extends to the next delimiter (or the end) and raises the warning iff it contains a quote.
The last component says what follows: `none` = end of line, `some r` = a delimiter, then `r`. -/
inductive FieldAt (d : Str) (ws : Bool) (s : Str) : Str → Bool → Option Str → Prop
  | quotedEnd (x : Str) : QuotedAt ws s x [] → FieldAt d ws s x false none
  | quotedDelim (x r : Str) : QuotedAt ws s x (d ++ r) → FieldAt d ws s x false (some r)
  | plainEnd : (¬ ∃ x r, QuotedAt ws s x r ∧ (r = [] ∨ ∃ t, r = d ++ t)) → NoOcc d s →
      FieldAt d ws s s (s.contains QUOTE) none
  | plainDelim (b r : Str) : (¬ ∃ x r, QuotedAt ws s x r ∧ (r = [] ∨ ∃ t, r = d ++ t)) →
      FirstOcc d s b r → FieldAt d ws s b (b.contains QUOTE) (some r)

theorem nextField_sound {d : Str} {ws : Bool} (g : GoodDelim d ws) (s : Str) :
    FieldAt d ws s (nextField d ws false s).1 (nextField d ws false s).2.1 (nextField d ws false s).2.2 := by
  -- the unquoted branch, shared
  have unq : ∀ w : Bool, (¬ ∃ x r, QuotedAt ws s x r ∧ (r = [] ∨ ∃ t, r = d ++ t)) →
      (w = true → ∃ x r, QuotedAt ws s x r) →
      FieldAt d ws s (findD d s).1 (w || (findD d s).1.contains QUOTE) (findD d s).2 := by
    intro w hn hw
    rcases hfd : findD d s with ⟨b, o⟩
    cases o with
    | none =>
      obtain ⟨rfl, hno⟩ := (findD_none d g.ne s b).mp hfd
      have : (w || b.contains QUOTE) = b.contains QUOTE := by
        cases w with
        | false => simp
        | true =>
          obtain ⟨x, r, sp1, sp2, _, _, _, hs⟩ := hw rfl
          have : QUOTE ∈ b := by rw [hs]; simp
          simp [this]
      simp only [this]
      exact FieldAt.plainEnd hn hno
    | some r =>
      have hfo := (findD_some d g.ne s b r).mp hfd
      have : (w || b.contains QUOTE) = b.contains QUOTE := by
        cases w with
        | false => simp
        | true =>
          obtain ⟨x, r0, hq⟩ := hw rfl
          have : QUOTE ∈ b := quote_in_prefix g s x r0 b r hq hfo.1
          simp [this]
      simp only [this]
      exact FieldAt.plainDelim b r hn hfo
  unfold nextField
  cases hm : matchQuoted ws s with
  | none =>
    simp only
    have hn : ¬ ∃ x r, QuotedAt ws s x r ∧ (r = [] ∨ ∃ t, r = d ++ t) := by
      rintro ⟨x, r, hq, hr⟩
      have := matchQuoted_complete ws s x r hq (g.rest_ok r hr).1 (g.rest_ok r hr).2
      rw [hm] at this; cases this
    have := unq false hn (by simp)
    simpa using this
  | some p =>
    obtain ⟨content, rest⟩ := p
    obtain ⟨hq, _⟩ := matchQuoted_sound ws s content rest hm
    simp only [Bool.false_eq_true, if_false]
    by_cases hr : rest = []
    · subst hr
      simp only [if_true]
      exact FieldAt.quotedEnd content hq
    · simp only [hr, if_false]
      by_cases hp : d.isPrefixOf rest = true
      · simp only [hp, if_true]
        obtain ⟨t, ht⟩ := (isPrefixOf_iff_append d rest).mp hp
        subst ht
        simp only [List.drop_left]
        exact FieldAt.quotedDelim content t hq
      · simp only [hp, if_false]
        have hn : ¬ ∃ x r, QuotedAt ws s x r ∧ (r = [] ∨ ∃ t, r = d ++ t) := by
          rintro ⟨x, r, hq', hr'⟩
          have := matchQuoted_complete ws s x r hq' (g.rest_ok r hr').1 (g.rest_ok r hr').2
          rw [hm] at this
          simp only [Option.some.injEq, Prod.mk.injEq] at this
          obtain ⟨_, rfl⟩ := this
          rcases hr' with h | ⟨t, h⟩
          · exact hr h
          · exact hp ((isPrefixOf_iff_append d rest).mpr ⟨t, h⟩)
        have := unq true hn (fun _ => ⟨content, rest, hq⟩)
        simpa using this

/-- `FieldAt` is functional: the dialect is unambiguous for good delimiters. -/
theorem FieldAt.unique {d : Str} {ws : Bool} (g : GoodDelim d ws) (s f : Str) (w : Bool) (a : Option Str)
    (h : FieldAt d ws s f w a) : nextField d ws false s = (f, w, a) := by
  have key : ∀ x r, QuotedAt ws s x r → (r = [] ∨ ∃ t, r = d ++ t) → matchQuoted ws s = some (x, r) :=
    fun x r hq hr => matchQuoted_complete ws s x r hq (g.rest_ok r hr).1 (g.rest_ok r hr).2
  cases h with
  | quotedEnd x hq =>
    unfold nextField
    simp [key f [] hq (Or.inl rfl)]
  | quotedDelim x r hq =>
    unfold nextField
    have hne : d ++ r ≠ [] := by simp [g.ne]
    simp [key f (d ++ r) hq (Or.inr ⟨r, rfl⟩), hne]
  | plainEnd hn hno =>
    have hfd := (findD_none d g.ne s s).mpr ⟨rfl, hno⟩
    unfold nextField
    cases hm : matchQuoted ws s with
    | none => simp [hfd]
    | some p =>
      obtain ⟨content, rest⟩ := p
      obtain ⟨hq, _⟩ := matchQuoted_sound ws s content rest hm
      have hr1 : rest ≠ [] := fun h => hn ⟨content, rest, hq, Or.inl h⟩
      have hr2 : ¬ d.isPrefixOf rest = true := fun h =>
        hn ⟨content, rest, hq, Or.inr ((isPrefixOf_iff_append d rest).mp h)⟩
      obtain ⟨sp1, sp2, _, _, _, hs⟩ := hq
      have : QUOTE ∈ s := by rw [hs]; simp
      simp [hr1, hr2, hfd, this]
  | plainDelim b r hn hfo =>
    have hfd := (findD_some d g.ne s f r).mpr hfo
    unfold nextField
    cases hm : matchQuoted ws s with
    | none => simp [hfd]
    | some p =>
      obtain ⟨content, rest⟩ := p
      obtain ⟨hq, _⟩ := matchQuoted_sound ws s content rest hm
      have hr1 : rest ≠ [] := fun h => hn ⟨content, rest, hq, Or.inl h⟩
      have hr2 : ¬ d.isPrefixOf rest = true := fun h =>
        hn ⟨content, rest, hq, Or.inr ((isPrefixOf_iff_append d rest).mp h)⟩
      have : QUOTE ∈ f := quote_in_prefix g s content rest f r hq hfo.1
      simp [hr1, hr2, hfd, this]

end Rbql
