/-
  Proofs for the rbql-js output-header parser (`parse_root_bracket_level_text_spans`, `unquote_string`,
  `column_info_from_text_span`, `adhoc_parse_select_expression_to_column_infos`), modelled in the last section of
  `Model/Translate.lean`.  The property theorems are in `Theorems/SpanParser.lean`.
-/
import Rbql.Model.Translate
import Rbql.Theorems.C07

namespace Rbql.SpanParser

/-! ## generic list lemmas and `stripBy` / `jsTrim` -/

/-! ### generic list lemmas -/

theorem takeWhile_append_stop {α} (p : α → Bool) (xs : List α) (y : α) (ys : List α)
    (hx : ∀ x ∈ xs, p x = true) (hy : p y = false) : (xs ++ y :: ys).takeWhile p = xs := by
  induction xs with
  | nil => simp [hy]
  | cons x xs ih =>
    simp only [List.cons_append, List.takeWhile_cons, hx x (by simp), if_true]
    rw [ih (fun z hz => hx z (by simp [hz]))]

theorem dropWhile_append_stop {α} (p : α → Bool) (xs : List α) (y : α) (ys : List α)
    (hx : ∀ x ∈ xs, p x = true) (hy : p y = false) : (xs ++ y :: ys).dropWhile p = y :: ys := by
  induction xs with
  | nil => simp [hy]
  | cons x xs ih =>
    simp only [List.cons_append, List.dropWhile_cons, hx x (by simp), if_true]
    rw [ih (fun z hz => hx z (by simp [hz]))]

theorem takeWhile_all {α} (p : α → Bool) (xs : List α) (hx : ∀ x ∈ xs, p x = true) : xs.takeWhile p = xs := by
  induction xs with
  | nil => rfl
  | cons x xs ih => simp only [List.takeWhile_cons, hx x (by simp), if_true]; rw [ih (fun z hz => hx z (by simp [hz]))]

theorem dropWhile_all {α} (p : α → Bool) (xs : List α) (hx : ∀ x ∈ xs, p x = true) : xs.dropWhile p = [] := by
  induction xs with
  | nil => rfl
  | cons x xs ih => simp only [List.dropWhile_cons, hx x (by simp), if_true]; rw [ih (fun z hz => hx z (by simp [hz]))]

theorem dropWhile_all_append {α} (p : α → Bool) (xs ys : List α) (hx : ∀ x ∈ xs, p x = true) :
    (xs ++ ys).dropWhile p = ys.dropWhile p := by
  induction xs with
  | nil => rfl
  | cons x xs ih => simp only [List.cons_append, List.dropWhile_cons, hx x (by simp), if_true]; rw [ih (fun z hz => hx z (by simp [hz]))]

theorem dropWhile_head_false {α} (p : α → Bool) (y : α) (ys : List α) (hy : p y = false) : (y :: ys).dropWhile p = y :: ys := by
  simp [List.dropWhile, hy]

theorem mem_takeWhile_sat {α} (p : α → Bool) (l : List α) (x : α) (h : x ∈ l.takeWhile p) : p x = true := by
  induction l with
  | nil => simp at h
  | cons y ys ih =>
    rw [List.takeWhile_cons] at h
    split at h
    · rename_i hy
      simp only [List.mem_cons] at h
      rcases h with rfl | h
      · exact hy
      · exact ih h
    · simp at h

theorem takeWhile_spaces (s : Str) : ∃ n, s.takeWhile (· == ' ') = List.replicate n ' ' := by
  induction s with
  | nil => exact ⟨0, rfl⟩
  | cons c cs ih =>
    by_cases h : c = ' '
    · obtain ⟨n, hn⟩ := ih
      exact ⟨n + 1, by simp [List.takeWhile, h, hn, List.replicate_succ]⟩
    · exact ⟨0, by simp [h]⟩

/-! ### `stripBy` -/

theorem stripBy_pre (p : Char → Bool) (pre s : Str) (h : ∀ x ∈ pre, p x = true) : stripBy p (pre ++ s) = stripBy p s := by
  simp only [stripBy, dropWhile_all_append p pre s h]

theorem stripBy_post (p : Char → Bool) (s post : Str) (h : ∀ x ∈ post, p x = true) : stripBy p (s ++ post) = stripBy p s := by
  simp only [stripBy]
  rw [List.dropWhile_append]
  split
  · rename_i he
    have he' : s.dropWhile p = [] := by simpa using he
    rw [dropWhile_all p post h, he']
  · rw [List.reverse_append, dropWhile_all_append p _ _ (by simpa using h)]

/-- a text that neither starts nor ends with a stripped character is left alone -/
theorem stripBy_self (p : Char → Bool) (s : Str) (hh : ∀ c, s.head? = some c → p c = false)
    (hl : ∀ c, s.getLast? = some c → p c = false) : stripBy p s = s := by
  simp only [stripBy]
  have h1 : s.dropWhile p = s := by
    cases s with
    | nil => rfl
    | cons c cs => exact dropWhile_head_false p c cs (hh c rfl)
  rw [h1]
  have h2 : s.reverse.dropWhile p = s.reverse := by
    cases hr : s.reverse with
    | nil => rfl
    | cons c cs =>
      apply dropWhile_head_false
      apply hl
      have : s = (c :: cs).reverse := by rw [← hr, List.reverse_reverse]
      rw [this]; simp
  rw [h2, List.reverse_reverse]

theorem dropWhile_head_not {α} (p : α → Bool) (s : List α) (c : α) (h : (s.dropWhile p).head? = some c) : p c = false := by
  induction s with
  | nil => simp at h
  | cons x xs ih =>
    by_cases hx : p x = true
    · simp [hx] at h; exact ih h
    · simp [hx] at h; subst h; simpa using hx

theorem dropWhile_getLast {α} (p : α → Bool) (s : List α) (c : α) (h : (s.dropWhile p).getLast? = some c) : s.getLast? = some c := by
  induction s with
  | nil => simp at h
  | cons x xs ih =>
    by_cases hx : p x = true
    · simp only [List.dropWhile_cons, hx, if_true] at h
      have := ih h
      cases xs with
      | nil => simp at this
      | cons y ys => simpa [List.getLast?_cons_cons] using this
    · simpa [List.dropWhile_cons, hx] using h

theorem stripBy_head (p : Char → Bool) (s : Str) (c : Char) (h : (stripBy p s).head? = some c) : p c = false := by
  simp only [stripBy, List.head?_reverse] at h
  have := dropWhile_getLast p _ c h
  rw [List.getLast?_reverse] at this
  exact dropWhile_head_not p s c this

theorem stripBy_last (p : Char → Bool) (s : Str) (c : Char) (h : (stripBy p s).getLast? = some c) : p c = false := by
  simp only [stripBy, List.getLast?_reverse] at h
  exact dropWhile_head_not p _ c h

theorem stripBy_idem (p : Char → Bool) (s : Str) : stripBy p (stripBy p s) = stripBy p s :=
  stripBy_self p _ (stripBy_head p s) (stripBy_last p s)

theorem jsTrim_idem (s : Str) : jsTrim (jsTrim s) = jsTrim s := stripBy_idem _ s

def spaces (n : Nat) : Str := List.replicate n ' '

theorem spaces_jsWs (n : Nat) : ∀ x ∈ spaces n, isJsWs x = true := by
  intro x hx
  simp only [spaces, List.mem_replicate] at hx
  rw [hx.2]; decide

/-- space padding is invisible to `trim()` -/
theorem jsTrim_pad (l r : Nat) (t : Str) : jsTrim (spaces l ++ t ++ spaces r) = jsTrim t := by
  rw [jsTrim, stripBy_post _ _ _ (spaces_jsWs r), stripBy_pre _ _ _ (spaces_jsWs l)]; rfl

theorem jsTrim_self (t : Str) (hh : ∀ c, t.head? = some c → isJsWs c = false)
    (hl : ∀ c, t.getLast? = some c → isJsWs c = false) : jsTrim t = t := stripBy_self _ t hh hl

/-! ## digits (`Nat.repr`) and `asAliasWhole` -/

/-! ### digits -/

theorem isDigit_eq (c : Char) : Rbql.isDigit c = c.isDigit := by
  simp only [Rbql.isDigit, Char.isDigit, Char.le_def, ge_iff_le]
  rw [Bool.eq_iff_iff]
  simp [UInt32.le_iff_toNat_le]

def natDigits (n : Nat) : Str := (toString n).toList

theorem natDigits_eq (n : Nat) : natDigits n = Nat.toDigits 10 n := by simp [natDigits]

theorem natDigits_ne_nil (n : Nat) : natDigits n ≠ [] := by rw [natDigits_eq]; exact Nat.toDigits_ne_nil

theorem natDigits_isDigit (n : Nat) : ∀ c ∈ natDigits n, isDigit c = true := by
  intro c hc
  rw [natDigits_eq] at hc
  rw [isDigit_eq]
  exact Nat.isDigit_of_mem_toDigits (by decide) (by decide) hc

theorem digitsToNat_eq (ds : Str) : digitsToNat ds = Nat.ofDigitChars 10 ds 0 := by
  unfold digitsToNat Nat.ofDigitChars
  congr 1
  funext n c
  rw [Nat.mul_comm]

theorem digitsToNat_natDigits (n : Nat) : digitsToNat (natDigits n) = n := by
  rw [digitsToNat_eq, natDigits_eq]; exact Nat.ofDigitChars_ten_toDigits


/-! ### `asAliasWhole` -/

def isAsKw (k : Str) : Bool := k == ['a', 's'] || k == ['A', 'S']

/-- `[a-zA-Z][a-zA-Z0-9_]*` -/
def isAliasIdent : Str → Bool
  | c :: cs => isAlpha c && cs.all isAliasChar
  | [] => false

theorem isAliasChar_of_isAlpha {c : Char} (h : isAlpha c = true) : isAliasChar c = true := by simp [isAliasChar, h]

theorem isAliasChar_ne_space {c : Char} (h : isAliasChar c = true) : (c == ' ') = false := by
  cases hc : c == ' '
  · rfl
  · have : c = ' ' := by simpa using hc
    subst this; revert h; decide

theorem asAliasWhole_intro (pre k ident : Str) (n1 n2 : Nat) (hk : isAsKw k = true) (hid : isAliasIdent ident = true)
    (hpre : pre.any isJsLineTerminator = false) :
    asAliasWhole (pre ++ ' ' :: k ++ spaces (n1 + 1) ++ ident ++ spaces n2) = some ident := by
  obtain ⟨c, cs, rfl⟩ : ∃ c cs, ident = c :: cs := by cases ident <;> simp_all [isAliasIdent]
  simp only [isAliasIdent, Bool.and_eq_true] at hid
  have hall : ∀ x ∈ (c :: cs).reverse, isAliasChar x = true := by
    intro x hx
    simp only [List.mem_reverse, List.mem_cons] at hx
    rcases hx with rfl | hx
    · exact isAliasChar_of_isAlpha hid.1
    · exact List.all_eq_true.mp hid.2 x hx
  obtain ⟨k1, k2, rfl⟩ : ∃ k1 k2, k = [k1, k2] := by
    simp only [isAsKw, Bool.or_eq_true, beq_iff_eq] at hk; rcases hk with h | h <;> exact ⟨_, _, h⟩
  have hrev : (pre ++ ' ' :: [k1, k2] ++ spaces (n1 + 1) ++ (c :: cs) ++ spaces n2).reverse =
      spaces n2 ++ ((c :: cs).reverse ++ ' ' :: (spaces n1 ++ k2 :: k1 :: ' ' :: pre.reverse)) := by
    simp [spaces, List.replicate_succ']
  have hk2 : (k2 == ' ') = false := by
    simp only [isAsKw, Bool.or_eq_true, beq_iff_eq] at hk
    rcases hk with h | h <;> (simp at h; rw [h.2]; decide)
  unfold asAliasWhole
  simp only [hrev]
  have hsp : ∀ n, ∀ x ∈ spaces n, (x == ' ') = true := by
    intro n x hx; simp only [spaces, List.mem_replicate] at hx; simp [hx.2]
  rw [dropWhile_all_append _ _ _ (hsp n2)]
  have hne : ∃ y ys, (c :: cs).reverse = y :: ys := by
    cases h : (c :: cs).reverse with
    | nil => simp at h
    | cons y ys => exact ⟨y, ys, rfl⟩
  obtain ⟨y, ys, hy⟩ := hne
  have hyal : isAliasChar y = true := hall y (by rw [hy]; simp)
  have hd0 : ((c :: cs).reverse ++ ' ' :: (spaces n1 ++ k2 :: k1 :: ' ' :: pre.reverse)).dropWhile (· == ' ') =
      (c :: cs).reverse ++ ' ' :: (spaces n1 ++ k2 :: k1 :: ' ' :: pre.reverse) := by
    rw [hy, List.cons_append]; exact dropWhile_head_false _ _ _ (isAliasChar_ne_space hyal)
  rw [hd0, takeWhile_append_stop _ _ _ _ hall (by decide), dropWhile_append_stop _ _ _ _ hall (by decide)]
  simp only [List.reverse_reverse]
  rw [List.dropWhile_cons]
  simp only [beq_self_eq_true, if_true]
  rw [dropWhile_append_stop _ _ _ _ (hsp n1) hk2]
  have hkk : ((k1 == 'a' && k2 == 's') || (k1 == 'A' && k2 == 'S')) = true := by
    simp only [isAsKw, Bool.or_eq_true, beq_iff_eq] at hk
    rcases hk with h | h <;> (simp at h; simp [h.1, h.2])
  simp [hid.1, hkk, hpre]


theorem asAliasWhole_inv (s al : Str) (h : asAliasWhole s = some al) :
    ∃ pre k n1 n2, s = pre ++ ' ' :: k ++ spaces (n1 + 1) ++ al ++ spaces n2 ∧ isAsKw k = true ∧
      isAliasIdent al = true ∧ pre.any isJsLineTerminator = false := by
  unfold asAliasWhole at h
  dsimp only at h
  generalize hr : s.reverse.dropWhile (· == ' ') = r at h
  generalize hir : r.takeWhile isAliasChar = identRev at h
  generalize hr1 : r.dropWhile isAliasChar = r1 at h
  split at h
  · simp at h
  · rename_i c cs hident
    split at h
    · simp at h
    · rename_i halpha
      split at h
      · rename_i r1tail
        split at h
        · rename_i k2 k1 pre hdw
          split at h
          · rename_i hcond
            simp only [Option.some.injEq] at h
            subst h
            obtain ⟨n2, hn2⟩ := takeWhile_spaces s.reverse
            obtain ⟨m, hm⟩ := takeWhile_spaces r1tail
            have e1 : s.reverse = spaces n2 ++ r := by
              rw [← List.takeWhile_append_dropWhile (p := (· == ' ')) (l := s.reverse), hn2, hr]; rfl
            have e2 : r = identRev ++ (' ' :: r1tail) := by
              rw [← List.takeWhile_append_dropWhile (p := isAliasChar) (l := r), hir, hr1]
            have e3 : r1tail = spaces m ++ k2 :: k1 :: ' ' :: pre := by
              have : (' ' :: r1tail).dropWhile (· == ' ') = r1tail.dropWhile (· == ' ') := by simp
              rw [this] at hdw
              rw [← List.takeWhile_append_dropWhile (p := (· == ' ')) (l := r1tail), hm, hdw]; rfl
            have e4 : identRev = (c :: cs).reverse := by rw [← hident, List.reverse_reverse]
            have hs : s = (spaces n2 ++ ((c :: cs).reverse ++ ' ' :: (spaces m ++ k2 :: k1 :: ' ' :: pre))).reverse := by
              rw [← e4, ← e3, ← e2, ← e1, List.reverse_reverse]
            simp only [Bool.and_eq_true, Bool.or_eq_true, beq_iff_eq, Bool.not_eq_true'] at hcond
            refine ⟨pre.reverse, [k1, k2], m, n2, ?_, ?_, ?_, ?_⟩
            · rw [hs]; simp [spaces, List.replicate_succ']
            · rcases hcond.1 with h | h <;> simp [isAsKw, h.1, h.2]
            · have hall : ∀ x ∈ identRev, isAliasChar x = true := by
                intro x hx; rw [← hir] at hx; exact mem_takeWhile_sat _ _ _ hx
              simp only [isAliasIdent, Bool.and_eq_true, List.all_eq_true]
              refine ⟨by simpa using halpha, ?_⟩
              intro x hx
              exact hall x (by rw [e4]; simp [hx])
            · simpa using hcond.2
          · simp at h
        · simp at h
      · simp at h

theorem mem_of_asAliasWhole (s al : Str) (h : asAliasWhole s = some al) : ' ' ∈ s := by
  obtain ⟨pre, k, n1, n2, hs, _⟩ := asAliasWhole_inv s al h
  rw [hs]; simp

theorem asAliasWhole_none_of_no_space (s : Str) (h : ' ' ∉ s) : asAliasWhole s = none := by
  cases hh : asAliasWhole s with
  | none => rfl
  | some al => exact absurd (mem_of_asAliasWhole s al hh) h

/-! ## `column_info_from_text_span` after the alias test: forward lemmas and the case tree -/

def fieldOf (isB : Bool) (ds : Str) : ColInfo := if digitsToNat ds = 0 then .other else .field isB (digitsToNat ds - 1)

def STAR : Str := "__RBQL_INTERNAL_STAR".toList
def LITP : Str := "___RBQL_STRING_LITERAL".toList

/-- `column_info_from_text_span` after the alias test -/
def classifyPlain (t : Str) (lits : List Str) : ColInfo :=
    match t with
    | [] => .other
    | c :: cs =>
      if isIdStart c && cs.all isWordChar then
        if t == STAR then .star none
        else if LITP.isPrefixOf t then .other
        else if (c == 'a' || c == 'b') && !cs.isEmpty && cs.all isDigit then fieldOf (c == 'b') cs
        else .named t
      else if (c == 'a' || c == 'b') then
        match cs with
        | '.' :: n :: ns =>
          if isIdStart n && ns.all isWordChar then
            if n :: ns == STAR then .star (some (c == 'b')) else .named (n :: ns)
          else .other
        | '[' :: rest =>
          match rest.reverse with
          | ']' :: innerRev =>
            let inner := innerRev.reverse
            if !inner.isEmpty && inner.all isDigit then fieldOf (c == 'b') inner
            else if LITP.isPrefixOf inner then
              let tail := inner.drop 22
              let ds := tail.takeWhile isDigit
              if !ds.isEmpty && tail.dropWhile isDigit == "___".toList then
                match lits[digitsToNat ds]? with
                | some q => (match unquoteString q with | some n => .named n | none => .other)
                | none => .other
              else .other
            else .other
          | _ => .other
        | _ => .other
      else .other

theorem colInfoOfSpan_eq (span : Str) (lits : List Str) :
    colInfoOfSpan span lits =
      match asAliasWhole (jsTrim span) with
      | some al => .alias al
      | none => classifyPlain (jsTrim span) lits := by
  rfl


theorem STAR_cons : STAR = '_' :: "_RBQL_INTERNAL_STAR".toList := by decide
theorem LITP_cons : LITP = '_' :: "__RBQL_STRING_LITERAL".toList := by decide
theorem LITP_length : LITP.length = 22 := by decide

theorem beq_STAR_false (c : Char) (cs : Str) (h : c ≠ '_') : (c :: cs == STAR) = false := by
  rw [STAR_cons]
  cases hh : (c :: cs == '_' :: "_RBQL_INTERNAL_STAR".toList)
  · rfl
  · have := eq_of_beq hh
    simp only [List.cons.injEq] at this
    exact absurd this.1 h

theorem LITP_prefix_false (c : Char) (cs : Str) (h : c ≠ '_') : LITP.isPrefixOf (c :: cs) = false := by
  rw [LITP_cons, List.isPrefixOf]
  have : ('_' == c) = false := by simpa using fun h' => h h'.symm
  simp [this]

theorem isWordChar_of_isDigit {c : Char} (h : isDigit c = true) : isWordChar c = true := by simp [isWordChar, h]

theorem all_isWordChar_of_digits (ds : Str) (hd : ∀ c ∈ ds, isDigit c = true) : ds.all isWordChar = true := by
  simp only [List.all_eq_true]; exact fun c hc => isWordChar_of_isDigit (hd c hc)

theorem classify_simple_field (l : Char) (hl : l = 'a' ∨ l = 'b') (ds : Str) (hne : ds ≠ [])
    (hd : ∀ c ∈ ds, isDigit c = true) (lits : List Str) :
    classifyPlain (l :: ds) lits = fieldOf (l == 'b') ds := by
  have h1 : isIdStart l = true := by rcases hl with h | h <;> subst h <;> decide
  have h2 := all_isWordChar_of_digits ds hd
  have h3 : l ≠ '_' := by rcases hl with h | h <;> subst h <;> decide
  have h4 : (l == 'a' || l == 'b') = true := by rcases hl with h | h <;> subst h <;> decide
  have h5 : ds.all isDigit = true := by simpa [List.all_eq_true] using hd
  have h6 : ds.isEmpty = false := by cases ds <;> simp_all
  simp only [classifyPlain, h1, h2, Bool.and_self, if_true, beq_STAR_false l ds h3, LITP_prefix_false l ds h3, h4, h5, h6,
    Bool.not_false, Bool.false_eq_true, if_false]


theorem classify_bracket_field (l : Char) (hl : l = 'a' ∨ l = 'b') (ds : Str) (hne : ds ≠ [])
    (hd : ∀ c ∈ ds, isDigit c = true) (lits : List Str) :
    classifyPlain (l :: '[' :: ds ++ [']']) lits = fieldOf (l == 'b') ds := by
  have h4 : (l == 'a' || l == 'b') = true := by rcases hl with h | h <;> subst h <;> decide
  have h5 : ds.all isDigit = true := by simpa [List.all_eq_true] using hd
  have h6 : ds.isEmpty = false := by cases ds <;> simp_all
  have h7 : isWordChar '[' = false := by decide
  simp only [classifyPlain, List.cons_append, List.all_cons, h7, Bool.false_and, Bool.and_false, Bool.false_eq_true, if_false, h4, if_true,
    List.reverse_append, List.reverse_cons, List.reverse_nil, List.nil_append, List.reverse_reverse,
    h5, h6, Bool.not_false, Bool.and_self]

theorem classify_dotted (l : Char) (hl : l = 'a' ∨ l = 'b') (n : Char) (ns : Str)
    (hn : isIdStart n = true) (hns : ns.all isWordChar = true) (lits : List Str) :
    classifyPlain (l :: '.' :: n :: ns) lits = if n :: ns == STAR then .star (some (l == 'b')) else .named (n :: ns) := by
  have h4 : (l == 'a' || l == 'b') = true := by rcases hl with h | h <;> subst h <;> decide
  have h7 : isWordChar '.' = false := by decide
  simp only [classifyPlain, List.all_cons, h7, Bool.false_and, Bool.and_false, Bool.false_eq_true, if_false, h4, if_true,
    hn, hns, Bool.and_self]

theorem classify_ident (c : Char) (cs : Str) (hc : isIdStart c = true) (hcs : cs.all isWordChar = true)
    (hstar : (c :: cs == STAR) = false) (hlit : LITP.isPrefixOf (c :: cs) = false)
    (hvar : ((c == 'a' || c == 'b') && !cs.isEmpty && cs.all isDigit) = false) (lits : List Str) :
    classifyPlain (c :: cs) lits = .named (c :: cs) := by
  simp only [classifyPlain, hc, hcs, Bool.and_self, if_true, hstar, hlit, hvar, Bool.false_eq_true, if_false]

theorem classify_STAR (lits : List Str) : classifyPlain STAR lits = .star none := by
  have h0 : STAR = '_' :: "_RBQL_INTERNAL_STAR".toList := STAR_cons
  have h1 : (isIdStart '_' && "_RBQL_INTERNAL_STAR".toList.all isWordChar) = true := by decide
  have h2 : ('_' :: "_RBQL_INTERNAL_STAR".toList == STAR) = true := by decide
  rw [h0]
  unfold classifyPlain
  simp only [h1, h2, if_true]

theorem placeholder_eq (i : Nat) : placeholder i = LITP ++ (natDigits i ++ ['_', '_', '_']) := by
  have h3 : "___".toList = ['_', '_', '_'] := by decide
  unfold placeholder LITP natDigits
  rw [h3, List.append_assoc]

theorem classify_quoted (l : Char) (hl : l = 'a' ∨ l = 'b') (i : Nat) (lits : List Str) (q name : Str)
    (hq : lits[i]? = some q) (hu : unquoteString q = some name) :
    classifyPlain (l :: '[' :: placeholder i ++ [']']) lits = .named name := by
  have h4 : (l == 'a' || l == 'b') = true := by rcases hl with h | h <;> subst h <;> decide
  have h7 : isWordChar '[' = false := by decide
  have hpre : LITP.isPrefixOf (placeholder i) = true := by
    rw [placeholder_eq, List.isPrefixOf_iff_prefix]; exact List.prefix_append _ _
  have hnd : (placeholder i).all isDigit = false := by
    rw [placeholder_eq, LITP_cons]; simp only [List.cons_append, List.all_cons]
    have : isDigit '_' = false := by decide
    simp [this]
  have hdrop : (placeholder i).drop 22 = natDigits i ++ ['_', '_', '_'] := by
    rw [placeholder_eq, ← LITP_length, List.drop_left]
  have hnd' : isDigit '_' = false := by decide
  have htw : (natDigits i ++ ['_', '_', '_']).takeWhile isDigit = natDigits i :=
    takeWhile_append_stop _ _ _ _ (natDigits_isDigit i) hnd'
  have hdw : (natDigits i ++ ['_', '_', '_']).dropWhile isDigit = ['_', '_', '_'] :=
    dropWhile_append_stop _ _ _ _ (natDigits_isDigit i) hnd'
  have hne : (natDigits i).isEmpty = false := by
    have := natDigits_ne_nil i; cases h : natDigits i <;> simp_all
  have h3 : "___".toList = ['_', '_', '_'] := by decide
  simp only [classifyPlain, List.cons_append, List.all_cons, h7, Bool.false_and, Bool.and_false, Bool.false_eq_true, if_false, h4, if_true,
    List.reverse_append, List.reverse_cons, List.reverse_nil, List.nil_append, List.reverse_reverse,
    hnd, hpre, hdrop, htw, hdw, hne, h3, Bool.not_false, Bool.and_self, beq_self_eq_true, digitsToNat_natDigits, hq, hu]


def isAB (l : Char) : Bool := l == 'a' || l == 'b'

/-- `[_a-zA-Z][_a-zA-Z0-9]*` -/
def isIdent : Str → Bool
  | c :: cs => isIdStart c && cs.all isWordChar
  | [] => false

def isDigits (ds : Str) : Bool := !ds.isEmpty && ds.all isDigit

/-- every way `classifyPlain` can answer, with the shape of the text that produced the answer -/
theorem classifyPlain_cases (t : Str) (lits : List Str) (r : ColInfo) (h : classifyPlain t lits = r) :
    r = .other ∨
    (t = STAR ∧ r = .star none) ∨
    (∃ l ds, isAB l = true ∧ isDigits ds = true ∧ t = l :: ds ∧ r = fieldOf (l == 'b') ds) ∨
    (isIdent t = true ∧ r = .named t) ∨
    (∃ l, isAB l = true ∧ t = l :: '.' :: STAR ∧ r = .star (some (l == 'b'))) ∨
    (∃ l n, isAB l = true ∧ isIdent n = true ∧ t = l :: '.' :: n ∧ r = .named n) ∨
    (∃ l ds, isAB l = true ∧ isDigits ds = true ∧ t = l :: '[' :: ds ++ [']'] ∧ r = fieldOf (l == 'b') ds) ∨
    (∃ l ds q n, isAB l = true ∧ isDigits ds = true ∧ t = l :: '[' :: (LITP ++ ds ++ ['_', '_', '_']) ++ [']'] ∧
      lits[digitsToNat ds]? = some q ∧ unquoteString q = some n ∧ r = .named n) := by
  unfold classifyPlain at h
  split at h
  · exact .inl h.symm
  · rename_i c cs
    split at h
    · rename_i hid
      split at h
      · rename_i hst
        exact .inr (.inl ⟨eq_of_beq hst, h.symm⟩)
      · split at h
        · exact .inl h.symm
        · split at h
          · rename_i hv
            simp only [Bool.and_eq_true] at hv
            exact .inr (.inr (.inl ⟨c, cs, hv.1.1, by simp only [isDigits, Bool.and_eq_true]; exact ⟨hv.1.2, hv.2⟩, rfl, h.symm⟩))
          · exact .inr (.inr (.inr (.inl ⟨hid, h.symm⟩)))
    · split at h
      · rename_i hab
        split at h
        · rename_i n ns _
          split at h
          · rename_i hid
            split at h
            · rename_i hst
              refine .inr (.inr (.inr (.inr (.inl ⟨c, hab, ?_, h.symm⟩))))
              rw [eq_of_beq hst]
            · exact .inr (.inr (.inr (.inr (.inr (.inl ⟨c, n :: ns, hab, hid, rfl, h.symm⟩)))))
          · exact .inl h.symm
        · rename_i rest _
          split at h
          · rename_i innerRev hrev
            have hrest : rest = innerRev.reverse ++ [']'] := by
              rw [← List.reverse_reverse rest, hrev]; simp
            dsimp only at h
            split at h
            · rename_i hd
              refine .inr (.inr (.inr (.inr (.inr (.inr (.inl ⟨c, innerRev.reverse, hab, hd, ?_, h.symm⟩))))))
              rw [hrest]; rfl
            · split at h
              · rename_i hp
                split at h
                · rename_i hds
                  split at h
                  · rename_i q hq
                    split at h
                    · rename_i n hn
                      simp only [Bool.and_eq_true, beq_iff_eq] at hds
                      have hp' := List.isPrefixOf_iff_prefix.mp hp
                      obtain ⟨tl, htl⟩ := hp'
                      have hdrop : innerRev.reverse.drop 22 = tl := by
                        rw [← htl, ← LITP_length, List.drop_left]
                      have h3 : "___".toList = ['_', '_', '_'] := by decide
                      have htl2 : tl = tl.takeWhile isDigit ++ ['_', '_', '_'] := by
                        have := List.takeWhile_append_dropWhile (p := isDigit) (l := tl)
                        rw [← hdrop, hds.2, h3, hdrop] at this
                        exact this.symm
                      refine .inr (.inr (.inr (.inr (.inr (.inr (.inr
                        ⟨c, tl.takeWhile isDigit, q, n, hab, ?_, ?_, ?_, hn, h.symm⟩))))))
                      · simp only [isDigits, Bool.and_eq_true]
                        rw [← hdrop]
                        refine ⟨hds.1, ?_⟩
                        simp only [List.all_eq_true]
                        exact fun x hx => mem_takeWhile_sat _ _ _ hx
                      · rw [hrest, ← htl]
                        have : LITP ++ tl = LITP ++ tl.takeWhile isDigit ++ ['_', '_', '_'] := by
                          rw [List.append_assoc, ← htl2]
                        rw [this]; rfl
                      · rw [← hdrop]; exact hq
                    · exact .inl h.symm
                  · exact .inl h.symm
                · exact .inl h.symm
              · exact .inl h.symm
          · exact .inl h.symm
        · exact .inl h.symm
      · exact .inl h.symm

/-! ## character classes, padded spans, the alias rule -/

theorem isAliasChar_eq_isWordChar (c : Char) : isAliasChar c = isWordChar c := by
  simp only [isAliasChar, isWordChar]
  cases (c == '_') <;> cases isAlpha c <;> cases isDigit c <;> rfl

theorem isWordChar_not_ws {c : Char} (h : isWordChar c = true) : isJsWs c = false := by
  simp only [isWordChar, isAlpha, isDigit, Bool.or_eq_true, beq_iff_eq, decide_eq_true_eq, Char.le_def,
    UInt32.le_iff_toNat_le] at h
  simp only [isJsWs, decide_eq_false_iff_not]
  have hv : c.toNat = c.val.toNat := rfl
  rw [hv]
  rcases h with (h | h) | h
  · subst h; decide
  · simp at h; omega
  · simp at h; omega


theorem jsTrim_of_no_ws (t : Str) (h : ∀ c ∈ t, isJsWs c = false) : jsTrim t = t := by
  apply jsTrim_self
  · intro c hc; exact h c (List.mem_of_mem_head? hc)
  · intro c hc; exact h c (List.mem_of_mem_getLast? hc)

theorem no_space_of_no_ws (t : Str) (h : ∀ c ∈ t, isJsWs c = false) : ' ' ∉ t := by
  intro hm; have := h ' ' hm; revert this; decide

/-- a padded span without white space inside is classified by the plain rules -/
theorem colInfoOfSpan_plain (l r : Nat) (t : Str) (lits : List Str) (hws : ∀ c ∈ t, isJsWs c = false) :
    colInfoOfSpan (spaces l ++ t ++ spaces r) lits = classifyPlain t lits := by
  rw [colInfoOfSpan_eq, jsTrim_pad, jsTrim_of_no_ws t hws, asAliasWhole_none_of_no_space t (no_space_of_no_ws t hws)]

theorem getLast?_append_some {α} (l l' : List α) (c : α) (h : l'.getLast? = some c) : (l ++ l').getLast? = some c := by
  rw [List.getLast?_append, h]; rfl

theorem dropWhile_nil_all {α} (p : α → Bool) (s : List α) (h : s.dropWhile p = []) : ∀ x ∈ s, p x = true := by
  induction s with
  | nil => intro x hx; simp at hx
  | cons y ys ih =>
    rw [List.dropWhile_cons] at h
    split at h
    · rename_i hy
      intro x hx
      simp only [List.mem_cons] at hx
      rcases hx with rfl | hx
      · exact hy
      · exact ih h x hx
    · simp at h

theorem dropWhile_idem {α} (p : α → Bool) (s : List α) : (s.dropWhile p).dropWhile p = s.dropWhile p := by
  cases h : s.dropWhile p with
  | nil => rfl
  | cons c cs => exact dropWhile_head_false p c cs (dropWhile_head_not p s c (by rw [h]; rfl))

theorem stripBy_dropWhile (p : Char → Bool) (s : Str) : stripBy p s = stripBy p (s.dropWhile p) := by
  simp only [stripBy, dropWhile_idem]

/-- `trim()` of `expr ++ tail` when `expr` has a visible character and `tail` ends with one -/
theorem jsTrim_expr_tail (expr tail : Str) (c : Char) (hvis : expr.any (fun c => !isJsWs c) = true)
    (hlast : tail.getLast? = some c) (hc : isJsWs c = false) :
    jsTrim (expr ++ tail) = expr.dropWhile isJsWs ++ tail := by
  have hne : expr.dropWhile isJsWs ≠ [] := by
    intro he
    simp only [List.any_eq_true, Bool.not_eq_true'] at hvis
    obtain ⟨x, hx, hxw⟩ := hvis
    have : ∀ y ∈ expr, isJsWs y = true := dropWhile_nil_all _ _ he
    rw [this x hx] at hxw; exact absurd hxw (by simp)
  have htne : tail ≠ [] := by intro h; subst h; simp at hlast
  have hdw : (expr ++ tail).dropWhile isJsWs = expr.dropWhile isJsWs ++ tail := by
    rw [List.dropWhile_append]
    cases h : expr.dropWhile isJsWs with
    | nil => exact absurd h hne
    | cons y ys => simp
  rw [jsTrim, stripBy_dropWhile, hdw]
  apply stripBy_self
  · intro d hd
    cases h : expr.dropWhile isJsWs with
    | nil => exact absurd h hne
    | cons y ys =>
      rw [h] at hd; simp at hd; subst hd
      exact dropWhile_head_not isJsWs expr y (by rw [h]; rfl)
  · intro d hd
    rw [getLast?_append_some _ _ c hlast] at hd
    simp at hd; subst hd; exact hc

theorem any_dropWhile_false {α} (p q : α → Bool) (s : List α) (h : s.any q = false) : (s.dropWhile p).any q = false := by
  rw [List.any_eq_false] at h ⊢
  exact fun x hx => h x ((List.dropWhile_sublist p).subset hx)

theorem isAliasIdent_last (ident : Str) (h : isAliasIdent ident = true) :
    ∃ c, ident.getLast? = some c ∧ isJsWs c = false := by
  cases ident with
  | nil => simp [isAliasIdent] at h
  | cons c cs =>
    simp only [isAliasIdent, Bool.and_eq_true, List.all_eq_true] at h
    have hm := List.getLast_mem (l := c :: cs) (by simp)
    refine ⟨(c :: cs).getLast (by simp), List.getLast?_eq_some_getLast _, ?_⟩
    apply isWordChar_not_ws
    rw [← isAliasChar_eq_isWordChar]
    simp only [List.mem_cons] at hm
    rcases hm with hm | hm
    · rw [hm]; exact isAliasChar_of_isAlpha h.1
    · exact h.2 _ hm

/-- `expr AS ident`: the alias wins, whatever `expr` is (it only has to be visible and on one line) -/
theorem colInfoOfSpan_alias (l r : Nat) (expr k ident : Str) (n1 n2 : Nat) (lits : List Str)
    (hk : isAsKw k = true) (hid : isAliasIdent ident = true)
    (hline : expr.any isJsLineTerminator = false) (hvis : expr.any (fun c => !isJsWs c) = true) :
    colInfoOfSpan (spaces l ++ (expr ++ ' ' :: k ++ spaces (n1 + 1) ++ ident ++ spaces n2) ++ spaces r) lits = .alias ident := by
  obtain ⟨c, hc1, hc2⟩ := isAliasIdent_last ident hid
  have hidne : ident ≠ [] := by intro h; subst h; simp at hc1
  have hshape : expr ++ ' ' :: k ++ spaces (n1 + 1) ++ ident ++ spaces n2 =
      (expr ++ (' ' :: k ++ spaces (n1 + 1) ++ ident)) ++ spaces n2 := by simp
  have htrim : jsTrim (expr ++ ' ' :: k ++ spaces (n1 + 1) ++ ident ++ spaces n2) =
      expr.dropWhile isJsWs ++ ' ' :: k ++ spaces (n1 + 1) ++ ident ++ spaces 0 := by
    rw [hshape, jsTrim, stripBy_post _ _ _ (spaces_jsWs n2)]
    have := jsTrim_expr_tail expr (' ' :: k ++ spaces (n1 + 1) ++ ident) c hvis
      (getLast?_append_some _ _ c hc1) hc2
    rw [jsTrim] at this
    rw [this]; simp [spaces]
  rw [colInfoOfSpan_eq, jsTrim_pad, htrim,
    asAliasWhole_intro _ k ident n1 0 hk hid (any_dropWhile_false _ _ _ hline)]

/-! ## naming by kind (forward direction) -/

def letter (isB : Bool) : Char := if isB then 'b' else 'a'

theorem letter_ab (isB : Bool) : letter isB = 'a' ∨ letter isB = 'b' := by cases isB <;> simp [letter]
theorem letter_beq (isB : Bool) : (letter isB == 'b') = isB := by cases isB <;> decide
theorem letter_word (isB : Bool) : isWordChar (letter isB) = true := by cases isB <;> decide
theorem letter_of_isAB (l : Char) (h : isAB l = true) : l = letter (l == 'b') := by
  simp only [isAB, Bool.or_eq_true, beq_iff_eq] at h
  rcases h with h | h <;> subst h <;> decide

theorem fieldOf_natDigits (isB : Bool) (n : Nat) : fieldOf isB (natDigits (n + 1)) = .field isB n := by
  simp [fieldOf, digitsToNat_natDigits]

theorem digits_no_ws (ds : Str) (hd : ∀ c ∈ ds, isDigit c = true) : ∀ c ∈ ds, isJsWs c = false :=
  fun c hc => isWordChar_not_ws (isWordChar_of_isDigit (hd c hc))

/-- `aN` / `bN` -/
theorem span_simple_field (l r : Nat) (isB : Bool) (n : Nat) (lits : List Str) :
    colInfoOfSpan (spaces l ++ (letter isB :: natDigits (n + 1)) ++ spaces r) lits = .field isB n := by
  rw [colInfoOfSpan_plain, classify_simple_field _ (letter_ab isB) _ (natDigits_ne_nil _) (natDigits_isDigit _),
    letter_beq, fieldOf_natDigits]
  intro c hc
  simp only [List.mem_cons] at hc
  rcases hc with rfl | hc
  · exact isWordChar_not_ws (letter_word isB)
  · exact digits_no_ws _ (natDigits_isDigit _) c hc

/-- `a[N]` / `b[N]` -/
theorem span_bracket_field (l r : Nat) (isB : Bool) (n : Nat) (lits : List Str) :
    colInfoOfSpan (spaces l ++ (letter isB :: '[' :: natDigits (n + 1) ++ [']']) ++ spaces r) lits = .field isB n := by
  rw [colInfoOfSpan_plain, classify_bracket_field _ (letter_ab isB) _ (natDigits_ne_nil _) (natDigits_isDigit _),
    letter_beq, fieldOf_natDigits]
  intro c hc
  simp only [List.cons_append, List.mem_cons, List.mem_append, List.not_mem_nil, or_false] at hc
  rcases hc with rfl | rfl | hc | rfl
  · exact isWordChar_not_ws (letter_word isB)
  · decide
  · exact digits_no_ws _ (natDigits_isDigit _) c hc
  · decide

theorem ident_no_ws (t : Str) (h : isIdent t = true) : ∀ c ∈ t, isJsWs c = false := by
  cases t with
  | nil => simp [isIdent] at h
  | cons d ds =>
    simp only [isIdent, Bool.and_eq_true, List.all_eq_true] at h
    intro c hc
    simp only [List.mem_cons] at hc
    rcases hc with rfl | hc
    · exact isWordChar_not_ws (by simp only [isWordChar, isIdStart] at h ⊢; simp [h.1])
    · exact isWordChar_not_ws (h.2 c hc)

/-- `a.name` / `b.name` -/
theorem span_dotted (l r : Nat) (isB : Bool) (ident : Str) (hid : isIdent ident = true) (lits : List Str) :
    colInfoOfSpan (spaces l ++ (letter isB :: '.' :: ident) ++ spaces r) lits =
      if ident == STAR then .star (some isB) else .named ident := by
  rw [colInfoOfSpan_plain]
  · cases ident with
    | nil => simp [isIdent] at hid
    | cons n ns =>
      simp only [isIdent, Bool.and_eq_true] at hid
      rw [classify_dotted _ (letter_ab isB) n ns hid.1 hid.2, letter_beq]
  · intro c hc
    simp only [List.mem_cons] at hc
    rcases hc with rfl | rfl | hc
    · exact isWordChar_not_ws (letter_word isB)
    · decide
    · exact ident_no_ws ident hid c hc

/-- `a1`, `b22`, … -/
def isFieldVar : Str → Bool
  | c :: cs => isAB c && isDigits cs
  | [] => false

/-- a bare identifier -/
theorem span_ident (l r : Nat) (t : Str) (hid : isIdent t = true) (hstar : (t == STAR) = false)
    (hlit : LITP.isPrefixOf t = false) (hvar : isFieldVar t = false) (lits : List Str) :
    colInfoOfSpan (spaces l ++ t ++ spaces r) lits = .named t := by
  rw [colInfoOfSpan_plain _ _ _ _ (ident_no_ws t hid)]
  cases t with
  | nil => simp [isIdent] at hid
  | cons c cs =>
    simp only [isIdent, Bool.and_eq_true] at hid
    exact classify_ident c cs hid.1 hid.2 hstar hlit (by simpa [isFieldVar, isAB, isDigits, Bool.and_assoc] using hvar) lits

def markerOf : Option Bool → Str
  | none => starMarker .all
  | some false => starMarker .a
  | some true => starMarker .b

theorem markerOf_none : markerOf none = STAR := rfl
theorem markerOf_some (isB : Bool) : markerOf (some isB) = letter isB :: '.' :: STAR := by cases isB <;> decide

theorem isIdent_STAR : isIdent STAR = true := by decide

/-- the star markers -/
theorem span_star (l r : Nat) (x : Option Bool) (lits : List Str) :
    colInfoOfSpan (spaces l ++ markerOf x ++ spaces r) lits = .star x := by
  cases x with
  | none =>
    rw [markerOf_none, colInfoOfSpan_plain _ _ _ _ (ident_no_ws STAR isIdent_STAR), classify_STAR]
  | some isB =>
    rw [markerOf_some, span_dotted l r isB STAR isIdent_STAR]; simp

theorem placeholder_no_ws (i : Nat) : ∀ c ∈ placeholder i, isJsWs c = false := by
  intro c hc
  rw [placeholder_eq] at hc
  simp only [List.mem_append, List.mem_cons, List.not_mem_nil, or_false] at hc
  rcases hc with hc | hc | hc
  · exact ident_no_ws LITP (by decide) c hc
  · exact digits_no_ws _ (natDigits_isDigit _) c hc
  · rcases hc with rfl | rfl | rfl <;> decide

/-- `a["name"]`, after the literal has been replaced by its placeholder -/
theorem span_quoted (l r : Nat) (isB : Bool) (i : Nat) (lits : List Str) (q name : Str)
    (hq : lits[i]? = some q) (hu : unquoteString q = some name) :
    colInfoOfSpan (spaces l ++ (letter isB :: '[' :: placeholder i ++ [']']) ++ spaces r) lits = .named name := by
  rw [colInfoOfSpan_plain, classify_quoted _ (letter_ab isB) i lits q name hq hu]
  intro c hc
  simp only [List.cons_append, List.mem_cons, List.mem_append, List.not_mem_nil, or_false] at hc
  rcases hc with rfl | rfl | hc | rfl
  · exact isWordChar_not_ws (letter_word isB)
  · decide
  · exact placeholder_no_ws i c hc
  · decide

/-! ## precision (inversion) -/

theorem fieldOf_cases (b : Bool) (ds : Str) :
    fieldOf b ds = .other ∨ ∃ i, fieldOf b ds = .field b i ∧ digitsToNat ds = i + 1 := by
  unfold fieldOf
  split
  · exact .inl rfl
  · rename_i h; exact .inr ⟨digitsToNat ds - 1, rfl, by omega⟩

theorem classifyPlain_ne_alias (t : Str) (lits : List Str) (n : Str) : classifyPlain t lits ≠ .alias n := by
  intro h
  rcases classifyPlain_cases t lits _ h with h | ⟨_, h⟩ | ⟨l, ds, _, _, _, h⟩ | ⟨_, h⟩ | ⟨l, _, _, h⟩ | ⟨l, m, _, _, _, h⟩ |
    ⟨l, ds, _, _, _, h⟩ | ⟨l, ds, q, m, _, _, _, _, _, h⟩
  all_goals first
    | (rcases fieldOf_cases (l == 'b') ds with h' | ⟨i, h', _⟩ <;> rw [h'] at h <;> cases h)
    | cases h

theorem colInfoOfSpan_alias_iff (t : Str) (lits : List Str) (n : Str) :
    colInfoOfSpan t lits = .alias n ↔ asAliasWhole (jsTrim t) = some n := by
  rw [colInfoOfSpan_eq]
  cases h : asAliasWhole (jsTrim t) with
  | none => simp only [reduceCtorEq, iff_false]; exact classifyPlain_ne_alias _ _ _
  | some al => simp

theorem colInfoOfSpan_not_alias (t : Str) (lits : List Str) (r : ColInfo) (h : colInfoOfSpan t lits = r)
    (hr : ∀ n, r ≠ .alias n) : classifyPlain (jsTrim t) lits = r := by
  rw [colInfoOfSpan_eq] at h
  cases ha : asAliasWhole (jsTrim t) with
  | none => rw [ha] at h; exact h
  | some al => rw [ha] at h; exact absurd h.symm (hr al)

/-- precision, `.alias`: the text ends with ` as name` -/
theorem span_alias_inv (t : Str) (lits : List Str) (n : Str) (h : colInfoOfSpan t lits = .alias n) :
    ∃ pre k n1 n2, jsTrim t = pre ++ ' ' :: k ++ spaces (n1 + 1) ++ n ++ spaces n2 ∧ isAsKw k = true ∧
      isAliasIdent n = true ∧ pre.any isJsLineTerminator = false :=
  asAliasWhole_inv _ _ ((colInfoOfSpan_alias_iff t lits n).mp h)

/-- precision, `.field`: the text is the variable `aN` / `a[N]` (`bN` / `b[N]`) with N = idx + 1 -/
theorem span_field_inv (t : Str) (lits : List Str) (isB : Bool) (i : Nat) (h : colInfoOfSpan t lits = .field isB i) :
    ∃ ds, isDigits ds = true ∧ digitsToNat ds = i + 1 ∧
      (jsTrim t = letter isB :: ds ∨ jsTrim t = letter isB :: '[' :: ds ++ [']']) := by
  have h' := colInfoOfSpan_not_alias t lits _ h (by intro n hn; cases hn)
  rcases classifyPlain_cases _ lits _ h' with h | ⟨_, h⟩ | ⟨l, ds, hl, hd, ht, h⟩ | ⟨_, h⟩ | ⟨l, _, _, h⟩ | ⟨l, m, _, _, _, h⟩ |
    ⟨l, ds, hl, hd, ht, h⟩ | ⟨l, ds, q, m, _, _, _, _, _, h⟩
  · cases h
  · cases h
  · rcases fieldOf_cases (l == 'b') ds with h2 | ⟨j, h2, hj⟩ <;> rw [h2] at h
    · cases h
    · simp only [ColInfo.field.injEq] at h
      obtain ⟨rfl, rfl⟩ := h
      exact ⟨ds, hd, hj, .inl (by rw [ht, ← letter_of_isAB l hl])⟩
  · cases h
  · cases h
  · cases h
  · rcases fieldOf_cases (l == 'b') ds with h2 | ⟨j, h2, hj⟩ <;> rw [h2] at h
    · cases h
    · simp only [ColInfo.field.injEq] at h
      obtain ⟨rfl, rfl⟩ := h
      exact ⟨ds, hd, hj, .inr (by rw [ht, ← letter_of_isAB l hl])⟩
  · cases h

/-- precision, `.star`: the text is the marker -/
theorem span_star_inv (t : Str) (lits : List Str) (x : Option Bool) (h : colInfoOfSpan t lits = .star x) :
    jsTrim t = markerOf x := by
  have h' := colInfoOfSpan_not_alias t lits _ h (by intro n hn; cases hn)
  rcases classifyPlain_cases _ lits _ h' with h | ⟨ht, h⟩ | ⟨l, ds, hl, hd, ht, h⟩ | ⟨_, h⟩ | ⟨l, hl, ht, h⟩ | ⟨l, m, _, _, _, h⟩ |
    ⟨l, ds, hl, hd, ht, h⟩ | ⟨l, ds, q, m, _, _, _, _, _, h⟩
  · cases h
  · cases h; rw [ht]; rfl
  · rcases fieldOf_cases (l == 'b') ds with h2 | ⟨j, h2, hj⟩ <;> rw [h2] at h <;> cases h
  · cases h
  · cases h; rw [ht, markerOf_some, ← letter_of_isAB l hl]
  · cases h
  · rcases fieldOf_cases (l == 'b') ds with h2 | ⟨j, h2, hj⟩ <;> rw [h2] at h <;> cases h
  · cases h

/-- precision, `.named`: the text is the identifier itself, or `a.name`, or `a[<placeholder>]` of a literal that unquotes to the name -/
theorem span_named_inv (t : Str) (lits : List Str) (n : Str) (h : colInfoOfSpan t lits = .named n) :
    (jsTrim t = n ∧ isIdent n = true) ∨
    (∃ isB, jsTrim t = letter isB :: '.' :: n ∧ isIdent n = true) ∨
    (∃ isB ds q, isDigits ds = true ∧ jsTrim t = letter isB :: '[' :: (LITP ++ ds ++ ['_', '_', '_']) ++ [']'] ∧
      lits[digitsToNat ds]? = some q ∧ unquoteString q = some n) := by
  have h' := colInfoOfSpan_not_alias t lits _ h (by intro n hn; cases hn)
  rcases classifyPlain_cases _ lits _ h' with h | ⟨ht, h⟩ | ⟨l, ds, hl, hd, ht, h⟩ | ⟨hid, h⟩ | ⟨l, hl, ht, h⟩ | ⟨l, m, hl, hm, ht, h⟩ |
    ⟨l, ds, hl, hd, ht, h⟩ | ⟨l, ds, q, m, hl, hd, ht, hq, hu, h⟩
  · cases h
  · cases h
  · rcases fieldOf_cases (l == 'b') ds with h2 | ⟨j, h2, hj⟩ <;> rw [h2] at h <;> cases h
  · simp only [ColInfo.named.injEq] at h
    exact .inl ⟨h.symm, by rw [h]; exact hid⟩
  · cases h
  · simp only [ColInfo.named.injEq] at h; subst h
    exact .inr (.inl ⟨l == 'b', by rw [ht, ← letter_of_isAB l hl], hm⟩)
  · rcases fieldOf_cases (l == 'b') ds with h2 | ⟨j, h2, hj⟩ <;> rw [h2] at h <;> cases h
  · simp only [ColInfo.named.injEq] at h; subst h
    exact .inr (.inr ⟨l == 'b', ds, q, hd, by rw [ht, ← letter_of_isAB l hl], hq, hu⟩)

/-- a span is a star info exactly when its trimmed text is a star marker -/
theorem colInfoOfSpan_star_iff (t : Str) (lits : List Str) (x : Option Bool) :
    colInfoOfSpan t lits = .star x ↔ jsTrim t = markerOf x := by
  constructor
  · exact span_star_inv t lits x
  · intro h
    have := span_star 0 0 x lits
    simp only [spaces, List.replicate_zero, List.nil_append, List.append_nil] at this
    rw [colInfoOfSpan_eq] at this ⊢
    rw [h]
    have hm : jsTrim (markerOf x) = markerOf x := by rw [← h, jsTrim_idem]
    rw [hm] at this
    exact this

/-! ## span splitting: the bracket machine -/

def isOpenB (c : Char) : Bool := c == '[' || c == '{' || c == '('
def isCloseB (c : Char) : Bool := c == ']' || c == '}' || c == ')'

def bracketRun : Str → List Char → Option (List Char)
  | [], st => some st
  | c :: cs, st =>
    if isOpenB c then bracketRun cs (c :: st)
    else if isCloseB c then
      match st with
      | o :: st' => if bracketsMatch o c then bracketRun cs st' else none
      | [] => none
    else bracketRun cs st

def Balanced (t : Str) : Bool := bracketRun t [] == some []

def noRootCommaFrom : Nat → Str → Bool
  | _, [] => true
  | d, c :: cs =>
    if c == ',' then d != 0 && noRootCommaFrom d cs
    else if isOpenB c then noRootCommaFrom (d + 1) cs
    else if isCloseB c then noRootCommaFrom (d - 1) cs
    else noRootCommaFrom d cs

def NoRootComma (t : Str) : Bool := noRootCommaFrom 0 t

theorem rootSpansAux_cons (c : Char) (cs : Str) (st : List Char) (cur : Str) (done : List Str) :
    rootSpansAux (c :: cs) st cur done =
      if c == ',' && st.isEmpty then rootSpansAux cs st [] (cur.reverse :: done)
      else if isOpenB c then rootSpansAux cs (c :: st) (c :: cur) done
      else if isCloseB c then
        match st with
        | o :: st' => if bracketsMatch o c then rootSpansAux cs st' (c :: cur) done else .error (.noOpening c)
        | [] => .error (.noOpening c)
      else rootSpansAux cs st (c :: cur) done := by
  cases st <;> rfl

theorem bracketRun_cons (c : Char) (cs : Str) (st : List Char) :
    bracketRun (c :: cs) st =
      if isOpenB c then bracketRun cs (c :: st)
      else if isCloseB c then
        match st with
        | o :: st' => if bracketsMatch o c then bracketRun cs st' else none
        | [] => none
      else bracketRun cs st := by
  cases st <;> rfl

theorem noRootCommaFrom_cons (d : Nat) (c : Char) (cs : Str) :
    noRootCommaFrom d (c :: cs) =
      if c == ',' then d != 0 && noRootCommaFrom d cs
      else if isOpenB c then noRootCommaFrom (d + 1) cs
      else if isCloseB c then noRootCommaFrom (d - 1) cs
      else noRootCommaFrom d cs := rfl

theorem rootSpansAux_item (t rest : Str) (st st' : List Char) (cur : Str) (done : List Str)
    (hb : bracketRun t st = some st') (hc : noRootCommaFrom st.length t = true) :
    rootSpansAux (t ++ rest) st cur done = rootSpansAux rest st' (t.reverse ++ cur) done := by
  induction t generalizing st cur with
  | nil => simp [bracketRun] at hb; subst hb; simp
  | cons c cs ih =>
    rw [List.cons_append, rootSpansAux_cons]
    rw [bracketRun_cons] at hb
    rw [noRootCommaFrom_cons] at hc
    by_cases hcomma : c = ','
    · subst hcomma
      simp at hc
      have : st.isEmpty = false := by cases st <;> simp_all
      simp [this, isOpenB, isCloseB] at hb ⊢
      rw [ih st _ hb hc.2]
    · simp [hcomma] at hc ⊢
      by_cases ho : isOpenB c
      · simp [ho] at hb hc ⊢
        rw [ih _ _ hb hc]
      · simp [ho] at hb hc ⊢
        by_cases hcl : isCloseB c
        · simp [hcl] at hb hc ⊢
          cases st with
          | nil => simp at hb
          | cons o st2 =>
            simp at hb hc ⊢
            by_cases hm : bracketsMatch o c
            · simp [hm] at hb ⊢
              rw [ih _ _ hb hc]
            · simp [hm] at hb
        · simp [hcl] at hb hc ⊢
          rw [ih _ _ hb hc]

theorem joinD_cons_cons (d : Str) (a b : Str) (l : List Str) : joinD d (a :: b :: l) = a ++ d ++ joinD d (b :: l) := rfl

theorem rootSpansAux_join (items : List Str) (hne : items ≠ [])
    (hbal : ∀ t ∈ items, Balanced t = true) (hnc : ∀ t ∈ items, NoRootComma t = true) (done : List Str) :
    rootSpansAux (joinD [','] items) [] [] done = .ok (done.reverse ++ items) := by
  induction items generalizing done with
  | nil => exact absurd rfl hne
  | cons t rest ih =>
    have hb : bracketRun t [] = some [] := by simpa [Balanced] using hbal t (by simp)
    have hc : noRootCommaFrom ([] : List Char).length t = true := by simpa [NoRootComma] using hnc t (by simp)
    cases rest with
    | nil =>
      have := rootSpansAux_item t [] [] [] [] done hb hc
      simp only [List.append_nil] at this
      simp [joinD, this, rootSpansAux]
    | cons t2 rest2 =>
      rw [joinD_cons_cons, List.append_assoc, rootSpansAux_item t _ [] [] [] done hb hc]
      simp only [List.append_nil, List.singleton_append, rootSpansAux_cons]
      simp only [beq_self_eq_true, List.isEmpty_nil, Bool.and_self, if_true, List.reverse_reverse]
      rw [ih (by simp) (fun x hx => hbal x (by simp [hx])) (fun x hx => hnc x (by simp [hx]))]
      simp

theorem rootSpans_join (items : List Str) (hne : items ≠ [])
    (hbal : ∀ t ∈ items, Balanced t = true) (hnc : ∀ t ∈ items, NoRootComma t = true) :
    rootSpans (joinD [','] items) = .ok (dropTrailingEmptySpan (items.map jsTrim)) := by
  simp [rootSpans, rootSpansAux_join items hne hbal hnc, Except.map]

/-- the last item is visible (not blank after `trim()`), or it is the only item: then no span is dropped -/
def LastVisible (items : List Str) : Bool :=
  items.length ≤ 1 || (match items.getLast? with | some t => !(jsTrim t).isEmpty | none => true)

theorem dropTrailingEmptySpan_of_lastVisible (items : List Str) (h : LastVisible items = true) :
    dropTrailingEmptySpan (items.map jsTrim) = items.map jsTrim := by
  unfold dropTrailingEmptySpan
  split
  · rename_i hc
    obtain ⟨h1, h2⟩ := hc
    rw [List.length_map] at h1
    rw [List.getLast?_map] at h2
    unfold LastVisible at h
    have hle : ¬ items.length ≤ 1 := by omega
    simp only [hle, decide_false, Bool.false_or] at h
    cases hl : items.getLast? with
    | none => rw [hl] at h2; simp at h2
    | some t =>
      rw [hl] at h h2
      simp only [Option.map_some, Option.some.injEq] at h2
      simp [h2] at h
  · rfl

theorem dropTrailingEmptySpan_snoc_nil (l : List Str) (hne : l ≠ []) : dropTrailingEmptySpan (l ++ [[]]) = l := by
  unfold dropTrailingEmptySpan
  have h1 : 1 < (l ++ [[]]).length := by
    cases l with
    | nil => exact absurd rfl hne
    | cons a as => simp
  rw [if_pos ⟨h1, List.getLast?_concat⟩, List.dropLast_concat]

theorem rootSpans_join_visible (items : List Str) (hne : items ≠ [])
    (hbal : ∀ t ∈ items, Balanced t = true) (hnc : ∀ t ∈ items, NoRootComma t = true) (hlast : LastVisible items = true) :
    rootSpans (joinD [','] items) = .ok (items.map jsTrim) := by
  rw [rootSpans_join items hne hbal hnc, dropTrailingEmptySpan_of_lastVisible items hlast]

/-- texts without brackets and commas do not move the machine -/
theorem plain_run (t : Str) (h : ∀ c ∈ t, isOpenB c = false ∧ isCloseB c = false ∧ (c == ',') = false)
    (st : List Char) (d : Nat) : bracketRun t st = some st ∧ noRootCommaFrom d t = true := by
  induction t with
  | nil => exact ⟨rfl, rfl⟩
  | cons c cs ih =>
    obtain ⟨h1, h2, h3⟩ := h c (by simp)
    have := ih (fun x hx => h x (by simp [hx]))
    rw [bracketRun_cons, noRootCommaFrom_cons]
    simp [h1, h2, h3, this]

theorem spaces_plain (k : Nat) : Balanced (List.replicate k ' ') = true ∧ NoRootComma (List.replicate k ' ') = true := by
  have := plain_run (List.replicate k ' ') (by
    intro c hc; rw [(List.mem_replicate.mp hc).2]; decide) [] 0
  simp [Balanced, NoRootComma, this]

theorem joinD_snoc (d : Str) (items : List Str) (hne : items ≠ []) (x : Str) :
    joinD d (items ++ [x]) = joinD d items ++ d ++ x := by
  induction items with
  | nil => exact absurd rfl hne
  | cons a as ih =>
    cases as with
    | nil => rfl
    | cons b bs =>
      rw [List.cons_append, List.cons_append, joinD_cons_cons, ← List.cons_append, ih (by simp), joinD_cons_cons]
      simp [List.append_assoc]

/-- the stack of the span parser evolves exactly as the bracket machine, whatever the commas do -/
theorem rootSpansAux_prefix (pre rest : Str) (st st' : List Char) (cur : Str) (done : List Str)
    (hb : bracketRun pre st = some st') :
    ∃ cur' done', rootSpansAux (pre ++ rest) st cur done = rootSpansAux rest st' cur' done' := by
  induction pre generalizing st cur done with
  | nil => simp [bracketRun] at hb; subst hb; exact ⟨cur, done, rfl⟩
  | cons c cs ih =>
    rw [List.cons_append, rootSpansAux_cons]
    rw [bracketRun_cons] at hb
    by_cases hcomma : (c == ',' && st.isEmpty) = true
    · have hc : c = ',' := by simp at hcomma; exact hcomma.1
      subst hc
      simp [isOpenB, isCloseB] at hb
      simp only [hcomma, if_true]
      exact ih _ _ _ hb
    · simp only [hcomma]
      by_cases ho : isOpenB c
      · simp [ho] at hb ⊢
        exact ih _ _ _ hb
      · simp [ho] at hb ⊢
        by_cases hcl : isCloseB c
        · simp [hcl] at hb ⊢
          cases st with
          | nil => simp at hb
          | cons o st2 =>
            simp at hb ⊢
            by_cases hm : bracketsMatch o c
            · simp [hm] at hb ⊢
              exact ih _ _ _ hb
            · simp [hm] at hb
        · simp [hcl] at hb ⊢
          exact ih _ _ _ hb

theorem isCloseB_not_open {c : Char} (h : isCloseB c = true) : isOpenB c = false ∧ (c == ',') = false := by
  simp [isCloseB] at h
  rcases h with (h | h) | h <;> subst h <;> decide

/-- an unmatched closing bracket: the prefix before it is fine and leaves a stack whose top does not match -/
theorem rootSpans_noOpening (pre post : Str) (c : Char) (st : List Char)
    (hpre : bracketRun pre [] = some st) (hc : isCloseB c = true)
    (hst : ∀ o st', st = o :: st' → bracketsMatch o c = false) :
    rootSpans (pre ++ c :: post) = .error (.noOpening c) := by
  obtain ⟨cur', done', h⟩ := rootSpansAux_prefix pre (c :: post) [] st [] [] hpre
  have ⟨h1, h2⟩ := isCloseB_not_open hc
  rw [rootSpans, h, rootSpansAux_cons]
  simp only [h2, Bool.false_and, h1, hc, if_true]
  cases st with
  | nil => simp [Except.map]
  | cons o st' => simp [hst o st' rfl, Except.map]

/-- an unclosed opening bracket: the whole text is consumed and the stack is not empty; the bracket reported is the outermost one -/
theorem rootSpans_noClosing (s : Str) (o : Char) (st : List Char) (hs : bracketRun s [] = some (o :: st)) :
    rootSpans s = .error (.noClosing ((o :: st).getLast?.getD o)) := by
  obtain ⟨cur', done', h⟩ := rootSpansAux_prefix s [] [] (o :: st) [] [] hs
  rw [List.append_nil] at h
  rw [rootSpans, h]
  simp [rootSpansAux, Except.map]

theorem rootSpansAux_isOk (s : Str) (st : List Char) (cur : Str) (done : List Str) :
    (rootSpansAux s st cur done).isOk = (bracketRun s st == some []) := by
  induction s generalizing st cur done with
  | nil => cases st <;> simp [rootSpansAux, bracketRun, Except.isOk, Except.toBool]
  | cons c cs ih =>
    rw [rootSpansAux_cons, bracketRun_cons]
    by_cases hcomma : (c == ',' && st.isEmpty) = true
    · have hc : c = ',' := by simp at hcomma; exact hcomma.1
      have hst : st = [] := by simp at hcomma; exact hcomma.2
      subst hc; subst hst
      simp [isOpenB, isCloseB, ih]
    · simp only [hcomma]
      by_cases ho : isOpenB c
      · simp [ho, ih]
      · by_cases hcl : isCloseB c
        · cases st with
          | nil => simp [ho, hcl, Except.isOk, Except.toBool]
          | cons o st2 =>
            by_cases hm : bracketsMatch o c
            · simp [ho, hcl, hm, ih]
            · simp [ho, hcl, hm, Except.isOk, Except.toBool]
        · simp [ho, hcl, ih]

theorem rootSpans_isOk (s : Str) : (rootSpans s).isOk = Balanced s := by
  have := rootSpansAux_isOk s [] [] []
  rw [Balanced, ← this, rootSpans]
  cases rootSpansAux s [] [] [] <;> rfl

/-! ## `unquote_string` (single left-to-right pass `unescapeJs`) -/

theorem unescapeJs_bs (c : Char) (rest : Str) :
    unescapeJs ('\\' :: c :: rest) =
      if c == '\\' || c == '\'' || c == '"' then c :: unescapeJs rest
      else if c == 'n' then LF :: unescapeJs rest
      else if c == 'r' then CR :: unescapeJs rest
      else if c == 't' then '\t' :: unescapeJs rest
      else '\\' :: unescapeJs (c :: rest) := by
  rw [unescapeJs]

theorem unescapeJs_other (c : Char) (rest : Str) (h : c ≠ '\\') : unescapeJs (c :: rest) = c :: unescapeJs rest := by
  rw [unescapeJs]
  intro c' rest' hh
  exact absurd hh h

theorem unescapeJs_lone : unescapeJs ['\\'] = ['\\'] := by decide


/-- one `String.prototype.replace(/x/g, rep)` pass for a single character `x` -/
def escPass (x : Char) (rep : Str) (s : Str) : Str := s.flatMap (fun c => if c == x then rep else [c])

/-- `name` with every backslash doubled -/
def dblBackslash (name : Str) : Str := escPass '\\' ['\\', '\\'] name
/-- every `q` preceded by a backslash -/
def escQuote (q : Char) (s : Str) : Str := escPass q ['\\', q] s
/-- `js_string_escape_column_name` without the control-character escapes -/
def escName (q : Char) (name : Str) : Str := escQuote q (dblBackslash name)

/-- `js_string_escape_column_name(column_name, quote_char)` of rbql.js, pass by pass in the order of the source:
backslash doubled, LF → `\n`, CR → `\r`, TAB → `\t`, then the quote character → `\q` -/
def jsEscapeColumnName (q : Char) (name : Str) : Str :=
  escQuote q (escPass '\t' ['\\', 't'] (escPass '\r' ['\\', 'r'] (escPass '\n' ['\\', 'n'] (dblBackslash name))))

/-- a per-character encoder that the single pass decodes character by character is undone on whole texts -/
theorem unescapeJs_flatMap (f : Char → Str) (hf : ∀ c rest, unescapeJs (f c ++ rest) = c :: unescapeJs rest) (name : Str) :
    unescapeJs (name.flatMap f) = name := by
  induction name with
  | nil => rfl
  | cons c cs ih => rw [List.flatMap_cons, hf, ih]

theorem flatMap_congr' {α β} (f g : α → List β) (l : List α) (h : ∀ c ∈ l, f c = g c) : l.flatMap f = l.flatMap g := by
  induction l with
  | nil => rfl
  | cons c cs ih => rw [List.flatMap_cons, List.flatMap_cons, h c (by simp), ih (fun x hx => h x (by simp [hx]))]

/-- the escape of one character under `js_string_escape_column_name` -/
def escChar (q c : Char) : Str :=
  if c == '\\' then ['\\', '\\'] else if c == '\n' then ['\\', 'n'] else if c == '\r' then ['\\', 'r']
  else if c == '\t' then ['\\', 't'] else if c == q then ['\\', q] else [c]

theorem jsEscapeColumnName_eq (q : Char) (hq : q = '\'' ∨ q = '"') (name : Str) :
    jsEscapeColumnName q name = name.flatMap (escChar q) := by
  simp only [jsEscapeColumnName, escQuote, dblBackslash, escPass, List.flatMap_assoc]
  apply flatMap_congr'
  intro c _
  unfold escChar
  rcases hq with rfl | rfl
  all_goals
    by_cases h1 : c = '\\'
    · subst h1; decide
    · by_cases h2 : c = '\n'
      · subst h2; decide
      · by_cases h3 : c = '\r'
        · subst h3; decide
        · by_cases h4 : c = '\t'
          · subst h4; decide
          · simp [h1, h2, h3, h4]

theorem unescapeJs_escChar (q : Char) (hq : q = '\'' ∨ q = '"') (c : Char) (rest : Str) :
    unescapeJs (escChar q c ++ rest) = c :: unescapeJs rest := by
  unfold escChar
  by_cases h1 : c = '\\'
  · subst h1; simp [unescapeJs_bs]
  · by_cases h2 : c = '\n'
    · subst h2; simp [unescapeJs_bs, LF]
    · by_cases h3 : c = '\r'
      · subst h3; simp [unescapeJs_bs, CR]
      · by_cases h4 : c = '\t'
        · subst h4; simp [unescapeJs_bs]
        · by_cases h5 : c = q
          · subst h5
            rcases hq with rfl | rfl <;> simp [unescapeJs_bs]
          · simp [h1, h2, h3, h4, h5, unescapeJs_other c rest h1]

theorem unescapeJs_jsEscape (q : Char) (hq : q = '\'' ∨ q = '"') (name : Str) :
    unescapeJs (jsEscapeColumnName q name) = name := by
  rw [jsEscapeColumnName_eq q hq, unescapeJs_flatMap _ (unescapeJs_escChar q hq)]

theorem escName_eq (q : Char) (name : Str) :
    escName q name = name.flatMap (fun c => if c == '\\' then (if '\\' == q then ['\\', q, '\\', q] else ['\\', '\\'])
      else if c == q then ['\\', q] else [c]) := by
  simp only [escName, escQuote, dblBackslash, escPass, List.flatMap_assoc]
  apply flatMap_congr'
  intro c _
  by_cases h1 : c = '\\'
  · subst h1
    by_cases h : '\\' = q
    · subst h; simp
    · simp [h]
  · simp [h1]

theorem unescapeJs_escName (q : Char) (hq : q = '\'' ∨ q = '"') (name : Str) : unescapeJs (escName q name) = name := by
  rw [escName_eq]
  apply unescapeJs_flatMap
  intro c rest
  have hqb : ('\\' == q) = false := by rcases hq with rfl | rfl <;> decide
  by_cases h1 : c = '\\'
  · subst h1; simp [hqb, unescapeJs_bs]
  · by_cases h5 : c = q
    · subst h5; rcases hq with rfl | rfl <;> simp [unescapeJs_bs]
    · simp [h1, h5, unescapeJs_other c rest h1]

/-- the quoted form is accepted and its body handed to the single pass -/
theorem unquoteString_quoted (q : Char) (hq : q = '\'' ∨ q = '"') (e : Str) :
    unquoteString (q :: e ++ [q]) = some (unescapeJs e) := by
  have hlast : (q :: e ++ [q]).getLast? = some q := List.getLast?_concat
  have hbody : (List.drop 1 (q :: e ++ [q])).take ((q :: e ++ [q]).length - 2) = e := by simp
  have hlen : ¬ (q :: e ++ [q]).length < 2 := by simp
  unfold unquoteString
  rw [if_neg hlen]
  simp only [hbody, hlast]
  rcases hq with rfl | rfl <;> simp

theorem unquoteString_escName (q : Char) (hq : q = '\'' ∨ q = '"') (name : Str) :
    unquoteString (q :: escName q name ++ [q]) = some name := by
  rw [unquoteString_quoted q hq, unescapeJs_escName q hq]

theorem unquoteString_jsEscape (q : Char) (hq : q = '\'' ∨ q = '"') (name : Str) :
    unquoteString (q :: jsEscapeColumnName q name ++ [q]) = some name := by
  rw [unquoteString_quoted q hq, unescapeJs_jsEscape q hq]

/-- a backslash in front of any other character is kept -/
theorem unescapeJs_bs_kept (c : Char) (rest : Str)
    (hc : c ≠ '\\' ∧ c ≠ '\'' ∧ c ≠ '"' ∧ c ≠ 'n' ∧ c ≠ 'r' ∧ c ≠ 't') :
    unescapeJs ('\\' :: c :: rest) = '\\' :: c :: unescapeJs rest := by
  rw [unescapeJs_bs, unescapeJs_other c rest hc.1]
  simp [hc.1, hc.2.1, hc.2.2.1, hc.2.2.2.1, hc.2.2.2.2.1, hc.2.2.2.2.2]

/-- a text without backslashes is unchanged -/
theorem unescapeJs_no_bs (s : Str) (h : '\\' ∉ s) : unescapeJs s = s := by
  induction s with
  | nil => rfl
  | cons c cs ih =>
    simp only [List.mem_cons, not_or] at h
    rw [unescapeJs_other c cs (fun hc => h.1 hc.symm), ih h.2]

def isQuoted (s : Str) : Bool :=
  (s.head? == some '\'' && s.getLast? == some '\'') || (s.head? == some '"' && s.getLast? == some '"')

theorem unquoteString_none_iff (s : Str) : unquoteString s = none ↔ (s.length < 2 ∨ isQuoted s = false) := by
  unfold unquoteString isQuoted
  by_cases hl : s.length < 2
  · simp [hl]
  · cases hb : ((s.head? == some '\'' && s.getLast? == some '\'') || (s.head? == some '"' && s.getLast? == some '"'))
    · simp [hl]
    · simp [hl]

/-! ## composition with the header theorems -/

inductive TextKind | starAll | starA | starB | nonStar
  deriving DecidableEq, Repr

/-- the kind of a select item, read off its text (after `replace_star_vars_for_header_parsing`) -/
def textKind (t : Str) : TextKind :=
  if jsTrim t = markerOf none then .starAll
  else if jsTrim t = markerOf (some false) then .starA
  else if jsTrim t = markerOf (some true) then .starB
  else .nonStar

def TextKind.width (na nb : Nat) : TextKind → Nat
  | .starAll => na + nb
  | .starA => na
  | .starB => nb
  | .nonStar => 1

/-- the column info a text must get -/
def kindInfoOk : TextKind → ColInfo → Prop
  | .starAll, ci => ci = .star none
  | .starA, ci => ci = .star (some false)
  | .starB, ci => ci = .star (some true)
  | .nonStar, ci => ci.isStar = false

theorem colInfoOfSpan_kind (t : Str) (lits : List Str) : kindInfoOk (textKind t) (colInfoOfSpan t lits) := by
  unfold textKind
  split
  · rename_i h; exact (colInfoOfSpan_star_iff t lits none).mpr h
  · split
    · rename_i h; exact (colInfoOfSpan_star_iff t lits _).mpr h
    · split
      · rename_i h; exact (colInfoOfSpan_star_iff t lits _).mpr h
      · rename_i h1 h2 h3
        show (colInfoOfSpan t lits).isStar = false
        cases hc : colInfoOfSpan t lits with
        | star x =>
          have := (colInfoOfSpan_star_iff t lits x).mp hc
          cases x with
          | none => exact absurd this h1
          | some b => cases b
                      · exact absurd this h2
                      · exact absurd this h3
        | _ => rfl

theorem colInfoOfSpan_width (t : Str) (lits : List Str) (na nb : Nat) :
    (colInfoOfSpan t lits).width na nb = (textKind t).width na nb := by
  have h := colInfoOfSpan_kind t lits
  cases hk : textKind t <;> rw [hk] at h <;> simp only [kindInfoOk] at h
  · rw [h]; rfl
  · rw [h]; rfl
  · rw [h]; rfl
  · exact width_of_not_star _ _ _ h

/-- a select list (engine items) built according to the kinds of the item texts -/
def itemsMatchTexts : List SItem → List Str → Prop
  | [], [] => True
  | it :: its, t :: ts =>
    (match it, textKind t with
     | .star, .starAll => True
     | .starA, .starA => True
     | .starB, .starB => True
     | .expr _, .nonStar => True
     | .unnest _, .nonStar => True
     | .agg _ _, .nonStar => True
     | _, _ => False) ∧ itemsMatchTexts its ts
  | _, _ => False

theorem aligned_of_itemsMatchTexts (items : List SItem) (texts : List Str) (lits : List Str)
    (h : itemsMatchTexts items texts) : aligned items (texts.map (fun t => colInfoOfSpan t lits)) := by
  induction items generalizing texts with
  | nil => cases texts with
    | nil => trivial
    | cons _ _ => simp [itemsMatchTexts] at h
  | cons it its ih =>
    cases texts with
    | nil => simp [itemsMatchTexts] at h
    | cons t ts =>
      obtain ⟨h1, h2⟩ := h
      refine ⟨?_, ih ts h2⟩
      dsimp only
      have hk := colInfoOfSpan_kind t lits
      cases hkk : textKind t <;> rw [hkk] at hk h1 <;> simp only [kindInfoOk] at hk <;> cases it <;>
        first | exact absurd h1 id | (rw [hk]; trivial) | exact hk

theorem adhocColumnInfos_join (texts : List Str) (hne : texts ≠ []) (lits : List Str)
    (hbal : ∀ t ∈ texts, Balanced t = true) (hnc : ∀ t ∈ texts, NoRootComma t = true) (hlast : LastVisible texts = true) :
    adhocColumnInfos (joinD [','] texts) lits = .ok (texts.map (fun t => colInfoOfSpan t lits)) := by
  rw [adhocColumnInfos, rootSpans_join_visible texts hne hbal hnc hlast]
  simp only [Except.map, List.map_map, Except.ok.injEq]
  apply List.map_congr_left
  intro t _
  simp only [Function.comp, colInfoOfSpan_eq, jsTrim_idem]

theorem jsTrim_spaces (k : Nat) : jsTrim (spaces k) = [] := by
  have := jsTrim_pad k 0 []
  simpa [spaces, jsTrim, stripBy] using this

/-- a trailing comma, optionally followed by spaces, is not an item -/
theorem rootSpans_trailing_comma (items : List Str) (hne : items ≠ [])
    (hbal : ∀ t ∈ items, Balanced t = true) (hnc : ∀ t ∈ items, NoRootComma t = true) (hlast : LastVisible items = true)
    (k : Nat) : rootSpans (joinD [','] items ++ [','] ++ spaces k) = rootSpans (joinD [','] items) := by
  rw [← joinD_snoc [','] items hne (spaces k), rootSpans_join_visible items hne hbal hnc hlast,
    rootSpans_join (items ++ [spaces k]) (by simp)
      (by intro t ht; simp only [List.mem_append, List.mem_singleton] at ht
          rcases ht with ht | rfl
          · exact hbal t ht
          · exact (spaces_plain k).1)
      (by intro t ht; simp only [List.mem_append, List.mem_singleton] at ht
          rcases ht with ht | rfl
          · exact hnc t ht
          · exact (spaces_plain k).2)]
  rw [List.map_append, List.map_singleton, jsTrim_spaces,
    dropTrailingEmptySpan_snoc_nil _ (by simpa using hne)]

theorem marker_balanced : ∀ x, Balanced (markerOf x) = true ∧ NoRootComma (markerOf x) = true := by
  intro x; rcases x with _ | (_ | _) <;> decide

end Rbql.SpanParser
