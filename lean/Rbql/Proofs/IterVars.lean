/-
  Helper lemmas for `iteratorVariablesMap` (`Rbql/Model/Variables.lean`): property C09, the adapters' variable maps.
  Every pass is a sequence of assignments `d[k] = v` (`setAll`); the keys of the four passes have four different shapes
  (`keyClass`), so the passes commute up to `get?` and the named passes leave the positional bindings alone.
-/
import Rbql.Proofs.VariablesBind
namespace Rbql

/-! ## the insertion-ordered dictionary, continued -/

theorem VarMap.get?_set (m : VarMap) (k k' : Str) (v : VarInfo) :
    (m.set k v).get? k' = if k' = k then some v else m.get? k' := by
  split
  · rename_i h; subst h; exact VarMap.get?_set_same m k' v
  · rename_i h; exact VarMap.get?_set_other m k k' v h

theorem setAll_append (m : VarMap) (L1 L2 : List (Str × VarInfo)) :
    setAll m (L1 ++ L2) = setAll (setAll m L1) L2 := by
  simp [setAll, List.foldl_append]

/-- the value the assignments leave at `k` depends on the start map only through its value at `k` -/
theorem setAll_get?_congr (L : List (Str × VarInfo)) (m m' : VarMap) (k : Str) (h : m.get? k = m'.get? k) :
    (setAll m L).get? k = (setAll m' L).get? k := by
  induction L generalizing m m' with
  | nil => exact h
  | cons e L ih =>
    rw [setAll_cons, setAll_cons]
    apply ih
    rw [VarMap.get?_set, VarMap.get?_set, h]

/-- two batches of assignments commute at `k` when one of them never assigns `k` -/
theorem setAll_comm_get? (A D : List (Str × VarInfo)) (m : VarMap) (k : Str)
    (h : (∀ e ∈ A, e.1 ≠ k) ∨ (∀ e ∈ D, e.1 ≠ k)) :
    (setAll (setAll m A) D).get? k = (setAll (setAll m D) A).get? k := by
  rcases h with h | h
  · exact (setAll_get?_congr D _ _ k (setAll_get?_untouched A m k h)).trans
      (setAll_get?_untouched A (setAll m D) k h).symm
  · exact (setAll_get?_untouched D (setAll m A) k h).trans
      (setAll_get?_congr A _ _ k (setAll_get?_untouched D m k h)).symm

/-! ## the shape of a key: which pass writes it -/

/-- 0: `a<n>` (and anything else) · 1: `a.name` · 2: `a["name"]`, `a['name']`, `` a[`name`] `` · 3: `a[<n>]` -/
def keyClass (k : Str) : Nat :=
  match k with
  | _ :: c :: rest =>
    if c = '.' then 1
    else if c = '[' then (match rest with | d :: _ => if d.isDigit then 3 else 2 | [] => 2)
    else 0
  | _ => 0

theorem setAll_get?_untouched_class (L : List (Str × VarInfo)) (m : VarMap) (k : Str)
    (h : ∀ e ∈ L, keyClass e.1 ≠ keyClass k) : (setAll m L).get? k = m.get? k :=
  setAll_get?_untouched L m k (fun e he hk => h e he (by rw [hk]))

/-! ## `natStr` -/

theorem natStr_eq (n : Nat) : natStr n = Nat.toDigits 10 n := by
  simp [natStr]

theorem natStr_inj {n n' : Nat} (h : natStr n = natStr n') : n = n' := by
  rw [natStr_eq, natStr_eq] at h
  have := congrArg (fun l => Nat.ofDigitChars 10 l 0) h
  simpa using this

theorem natStr_head (n : Nat) : ∃ d ds, natStr n = d :: ds ∧ d.isDigit = true := by
  rw [natStr_eq]
  cases h : Nat.toDigits 10 n with
  | nil => exact absurd h Nat.toDigits_ne_nil
  | cons d ds =>
    exact ⟨d, ds, rfl, Nat.isDigit_of_mem_toDigits (b := 10) (n := n) (by decide) (by decide) (by rw [h]; exact List.mem_cons_self)⟩

theorem isDigit_ne_dot {d : Char} (h : d.isDigit = true) : d ≠ '.' := by rintro rfl; revert h; decide
theorem isDigit_ne_bracket {d : Char} (h : d.isDigit = true) : d ≠ '[' := by rintro rfl; revert h; decide

theorem keyClass_basic (pfx : Char) (n : Nat) : keyClass (pfx :: natStr n) = 0 := by
  obtain ⟨d, ds, h, hd⟩ := natStr_head n
  simp [h, keyClass, isDigit_ne_dot hd, isDigit_ne_bracket hd]

theorem keyClass_array (pfx : Char) (n : Nat) : keyClass ([pfx, '['] ++ natStr n ++ [']']) = 3 := by
  obtain ⟨d, ds, h, hd⟩ := natStr_head n
  simp [h, keyClass, hd]

theorem keyClass_attr (pfx : Char) (name : Str) : keyClass ([pfx, '.'] ++ name) = 1 := by
  simp [keyClass]

theorem keyClass_dict (pfx q : Char) (hq : q = '"' ∨ q = '\'' ∨ q = '`') (name : Str) :
    keyClass (dictKey pfx q name) = 2 := by
  have : q.isDigit = false := by rcases hq with rfl | rfl | rfl <;> decide
  simp [dictKey, keyClass, this]

/-! ## the positional passes as assignments -/

def basicWrites (pfx : Char) (L : List Nat) : List (Str × VarInfo) :=
  L.map (fun n => (pfx :: natStr n, { init := true, index := n - 1 }))

def arrayWrites (pfx : Char) (L : List Nat) : List (Str × VarInfo) :=
  L.map (fun n => ([pfx, '['] ++ natStr n ++ [']'], { init := true, index := n - 1 }))

theorem positionalVars_eq (py : Bool) (pfx : Char) (query : Str) (m : VarMap) :
    positionalVars py pfx query m =
      setAll (setAll m (basicWrites pfx (basicVarNums py pfx 0 0 query))) (arrayWrites pfx (arrayVarNums pfx 0 0 query)) := by
  simp [positionalVars, setAll, basicWrites, arrayWrites, List.foldl_map]

theorem basicWrites_class (pfx : Char) (L : List Nat) : ∀ e ∈ basicWrites pfx L, keyClass e.1 = 0 := by
  intro e he
  obtain ⟨n, _, rfl⟩ := List.mem_map.mp he
  exact keyClass_basic pfx n

theorem arrayWrites_class (pfx : Char) (L : List Nat) : ∀ e ∈ arrayWrites pfx L, keyClass e.1 = 3 := by
  intro e he
  obtain ⟨n, _, rfl⟩ := List.mem_map.mp he
  exact keyClass_array pfx n

/-- `a<n>` found by `parse_basic_variables` is bound to column `n - 1` -/
theorem positionalVars_get_basic (py : Bool) (pfx : Char) (query : Str) (m : VarMap) (n : Nat)
    (hn : n ∈ basicVarNums py pfx 0 0 query) :
    (positionalVars py pfx query m).get? (pfx :: natStr n) = some { init := true, index := n - 1 } := by
  rw [positionalVars_eq, setAll_get?_untouched_class _ _ _ (fun e he => by
    rw [arrayWrites_class pfx _ e he, keyClass_basic]; decide)]
  apply setAll_get?_consistent
  · intro e he hk
    obtain ⟨n', _, rfl⟩ := List.mem_map.mp he
    simp only [List.cons.injEq, true_and] at hk
    rw [natStr_inj hk]
  · exact ⟨_, List.mem_map.mpr ⟨n, hn, rfl⟩, rfl⟩

/-- `a[<n>]` found by `parse_array_variables` is bound to column `n - 1` -/
theorem positionalVars_get_array (py : Bool) (pfx : Char) (query : Str) (m : VarMap) (n : Nat)
    (hn : n ∈ arrayVarNums pfx 0 0 query) :
    (positionalVars py pfx query m).get? ([pfx, '['] ++ natStr n ++ [']']) = some { init := true, index := n - 1 } := by
  rw [positionalVars_eq]
  apply setAll_get?_consistent
  · intro e he hk
    obtain ⟨n', _, rfl⟩ := List.mem_map.mp he
    simp only [List.cons_append, List.nil_append, List.cons.injEq, true_and] at hk
    rw [natStr_inj (List.append_cancel_right hk)]
  · exact ⟨_, List.mem_map.mpr ⟨n, hn, rfl⟩, rfl⟩

/-! ## the dictionary pass as assignments -/

def dictStepWrites (js : Bool) (query : Str) (pfx : Char) (p : Str × Nat) : List (Str × VarInfo) :=
  if queryProbablyHasDictVar query p.1 then
    [(dictKey pfx '"' p.1, { init := true, index := p.2 }), (dictKey pfx '\'' p.1, { init := false, index := p.2 })] ++
      (if js then [(dictKey pfx '`' p.1, { init := false, index := p.2 })] else [])
  else []

theorem dictStep_eq_setAll (js : Bool) (query : Str) (pfx : Char) (acc : VarMap) (p : Str × Nat) :
    dictStep js query pfx acc p = setAll acc (dictStepWrites js query pfx p) := by
  unfold dictStep dictStepWrites
  cases queryProbablyHasDictVar query p.1 <;> cases js <;> rfl

theorem dictFold_eq_setAll (js : Bool) (query : Str) (pfx : Char) (B : List (Str × Nat)) (m : VarMap) :
    B.foldl (dictStep js query pfx) m = setAll m (B.flatMap (dictStepWrites js query pfx)) := by
  induction B generalizing m with
  | nil => rfl
  | cons p B ih => rw [List.foldl_cons, List.flatMap_cons, setAll_append, ih, dictStep_eq_setAll]

/-- the assignments of `parse_dictionary_variables` -/
def dictWrites (js : Bool) (query : Str) (pfx : Char) (names : List Str) : List (Str × VarInfo) :=
  if hasSubscriptOf pfx true query then names.zipIdx.flatMap (dictStepWrites js query pfx) else []

theorem parseDictionaryVariables_eq_setAll (js : Bool) (query : Str) (pfx : Char) (names : List Str) (m : VarMap) :
    parseDictionaryVariables js query pfx names m = setAll m (dictWrites js query pfx names) := by
  by_cases h : hasSubscriptOf pfx true query = true
  · rw [parseDictionaryVariables_eq js query pfx names m h, dictFold_eq_setAll]
    simp [dictWrites, h]
  · simp [parseDictionaryVariables, dictWrites, h, setAll_nil]

theorem dictWrites_class (js : Bool) (query : Str) (pfx : Char) (names : List Str) :
    ∀ e ∈ dictWrites js query pfx names, keyClass e.1 = 2 := by
  intro e he
  unfold dictWrites at he
  split at he
  · obtain ⟨p, _, hp⟩ := List.mem_flatMap.mp he
    unfold dictStepWrites at hp
    split at hp
    · rcases List.mem_append.mp hp with h | h
      · simp only [List.mem_cons, List.not_mem_nil, or_false] at h
        rcases h with rfl | rfl
        · exact keyClass_dict pfx _ (Or.inl rfl) _
        · exact keyClass_dict pfx _ (Or.inr (Or.inl rfl)) _
      · split at h
        · simp only [List.mem_cons, List.not_mem_nil, or_false] at h
          subst h
          exact keyClass_dict pfx _ (Or.inr (Or.inr rfl)) _
        · simp at h
    · simp at hp
  · simp at he

/-! ## the attribute pass: either the first unknown name, or assignments -/

theorem attrWrites_cons (js : Bool) (pfx : Char) (names : List Str) (n : Str) (L : List Str) :
    attrWrites js pfx names (n :: L) =
      ([pfx, '.'] ++ n, { init := true, index := (attrColumn js names n).getD 0 }) :: attrWrites js pfx names L := rfl

theorem attrWrites_class (js : Bool) (pfx : Char) (names : List Str) (L : List Str) :
    ∀ e ∈ attrWrites js pfx names L, keyClass e.1 = 1 := by
  intro e he
  obtain ⟨n, _, rfl⟩ := List.mem_map.mp he
  exact keyClass_attr pfx n

/-- the first attribute name of the query that is not a column name -/
def firstUnknownAttr (query : Str) (pfx : Char) (names : List Str) : Option Str :=
  (attrNames pfx 0 true query).find? (fun n => !names.contains n)

theorem attrFold_eq (js : Bool) (pfx : Char) (names L : List Str) (m : VarMap) :
    L.foldlM (attrStep js pfx names) m =
      match L.find? (fun n => !names.contains n) with
      | some n => .error (.columnNotFound n)
      | none => .ok (setAll m (attrWrites js pfx names L)) := by
  induction L generalizing m with
  | nil => rfl
  | cons n L ih =>
    rw [List.foldlM_cons]
    by_cases hn : n ∈ names
    · obtain ⟨i, hi⟩ := attrColumn_some_of_mem js names n hn
      have h1 : attrStep js pfx names m n = .ok (m.set ([pfx, '.'] ++ n) ⟨true, i⟩) := by simp [attrStep, hi]
      have h2 : (n :: L).find? (fun n => !names.contains n) = L.find? (fun n => !names.contains n) := by
        simp [hn]
      rw [h1, h2, attrWrites_cons, setAll_cons, hi]
      exact ih _
    · have h1 : attrStep js pfx names m n = .error (.columnNotFound n) := by
        simp [attrStep, attrColumn_none_of_not_mem js names n hn]
      have h2 : (n :: L).find? (fun n => !names.contains n) = some n := by
        simp [hn]
      rw [h1, h2]
      rfl

theorem parseAttributeVariables_cases (js : Bool) (query : Str) (pfx : Char) (names : List Str) (m : VarMap) :
    parseAttributeVariables js query pfx names m =
      match firstUnknownAttr query pfx names with
      | some n => .error (.columnNotFound n)
      | none => .ok (setAll m (attrWrites js pfx names (attrNames pfx 0 true query))) := by
  rw [parseAttributeVariables_eq]
  exact attrFold_eq js pfx names _ m

/-! ## the two orders of the named passes -/

/-- the table order (dictionary pass, then attribute pass) on the start map `m0` -/
def tableNamed (js : Bool) (query : Str) (pfx : Char) (ns : List Str) (m0 : VarMap) : Except TableVarErr VarMap :=
  match firstUnknownAttr query pfx ns with
  | some n => .error (.var (.columnNotFound n))
  | none => .ok (setAll (setAll m0 (dictWrites js query pfx ns)) (attrWrites js pfx ns (attrNames pfx 0 true query)))

/-- the CSV order (attribute pass, then dictionary pass) on the start map `m0` -/
def csvNamed (js : Bool) (query : Str) (pfx : Char) (ns : List Str) (m0 : VarMap) : Except TableVarErr VarMap :=
  match firstUnknownAttr query pfx ns with
  | some n => .error (.var (.columnNotFound n))
  | none => .ok (setAll (setAll m0 (attrWrites js pfx ns (attrNames pfx 0 true query))) (dictWrites js query pfx ns))

/-- `TableIterator` alone compares the header with the width of the first record -/
def widthBad (fw : Option Nat) (ns : List Str) : Bool :=
  match fw with | some w => w != ns.length | none => false

theorem tableVariablesMap_norm_eq (js : Bool) (query : Str) (pfx : Char) (ns : List Str) (fw : Option Nat) :
    tableVariablesMap js query pfx (some ns) true fw =
      if widthBad fw ns = true then .error .widthMismatch
      else tableNamed js query pfx ns (positionalVars (!js) pfx query []) := by
  unfold tableVariablesMap tableNamed widthBad
  simp only [↓reduceIte]
  rw [parseDictionaryVariables_eq_setAll, parseAttributeVariables_cases]
  cases firstUnknownAttr query pfx ns <;> rfl

theorem csvVariablesMap_eq (js : Bool) (query : Str) (pfx : Char) (ns : List Str) (nrm : Bool) (fw : Option Nat) :
    iteratorVariablesMap .csv js query pfx (some ns) nrm fw = csvNamed js query pfx ns (positionalVars (!js) pfx query []) := by
  unfold iteratorVariablesMap csvNamed
  simp only
  rw [parseAttributeVariables_cases]
  cases firstUnknownAttr query pfx ns
  · simp only [parseDictionaryVariables_eq_setAll]
  · rfl

/-- bindings agree: both succeed with maps that are equal as functions, or both fail with the same error -/
def BindingsAgree (r1 r2 : Except TableVarErr VarMap) : Prop :=
  (∀ m1 m2, r1 = .ok m1 → r2 = .ok m2 → ∀ k, m1.get? k = m2.get? k) ∧ (∀ e, r1 = .error e ↔ r2 = .error e)

theorem BindingsAgree.refl (r : Except TableVarErr VarMap) : BindingsAgree r r :=
  ⟨fun m1 m2 h1 h2 k => by rw [h1] at h2; cases h2; rfl, fun _ => Iff.rfl⟩

theorem BindingsAgree.symm {r1 r2 : Except TableVarErr VarMap} (h : BindingsAgree r1 r2) : BindingsAgree r2 r1 :=
  ⟨fun m1 m2 h1 h2 k => (h.1 m2 m1 h2 h1 k).symm, fun e => (h.2 e).symm⟩

theorem csvNamed_agrees_tableNamed (js : Bool) (query : Str) (pfx : Char) (ns : List Str) (m0 : VarMap) :
    BindingsAgree (csvNamed js query pfx ns m0) (tableNamed js query pfx ns m0) := by
  unfold csvNamed tableNamed
  cases firstUnknownAttr query pfx ns with
  | some n => exact BindingsAgree.refl _
  | none =>
    refine ⟨?_, fun e => by simp⟩
    intro m1 m2 h1 h2 k
    cases h1; cases h2
    apply setAll_comm_get?
    by_cases hk : keyClass k = 1
    · exact Or.inr (fun e he hek => by
        have := dictWrites_class js query pfx ns e he
        rw [hek, hk] at this
        exact absurd this (by decide))
    · exact Or.inl (fun e he hek => hk (by rw [← hek]; exact attrWrites_class js pfx ns _ e he))

/-- the CSV order and the table order (normalised names, no width check) agree -/
theorem csv_agrees_table (js : Bool) (query : Str) (pfx : Char) (names : Option (List Str)) (nrm : Bool) (fw : Option Nat) :
    BindingsAgree (iteratorVariablesMap .csv js query pfx names nrm fw) (tableVariablesMap js query pfx names true none) := by
  cases names with
  | none => exact BindingsAgree.refl _
  | some ns =>
    rw [csvVariablesMap_eq, tableVariablesMap_norm_eq, if_neg (by simp [widthBad])]
    exact csvNamed_agrees_tableNamed js query pfx ns _

/-- the named passes fail exactly when some `a.name` of the query is not a column; the error names the first one -/
theorem csvNamed_error_iff (js : Bool) (query : Str) (pfx : Char) (ns : List Str) (m0 : VarMap) (e : TableVarErr) :
    csvNamed js query pfx ns m0 = .error e ↔
      ∃ n, firstUnknownAttr query pfx ns = some n ∧ e = .var (.columnNotFound n) := by
  unfold csvNamed
  cases firstUnknownAttr query pfx ns with
  | none => simp
  | some n =>
    constructor
    · intro h; cases h; exact ⟨n, rfl, rfl⟩
    · rintro ⟨n', h1, rfl⟩; cases h1; rfl

theorem firstUnknownAttr_spec (query : Str) (pfx : Char) (ns : List Str) (n : Str)
    (h : firstUnknownAttr query pfx ns = some n) : n ∈ attrNames pfx 0 true query ∧ n ∉ ns := by
  unfold firstUnknownAttr at h
  have h1 := List.find?_some h
  simp only [Bool.not_eq_true', List.contains_eq_mem, decide_eq_false_iff_not] at h1
  exact ⟨List.mem_of_find?_eq_some h, h1⟩

theorem firstUnknownAttr_none_iff (query : Str) (pfx : Char) (ns : List Str) :
    firstUnknownAttr query pfx ns = none ↔ ∀ n ∈ attrNames pfx 0 true query, n ∈ ns := by
  unfold firstUnknownAttr
  rw [List.find?_eq_none]
  simp

/-! ## the named passes leave the positional bindings alone -/

theorem named_untouched (A D : List (Str × VarInfo)) (m0 : VarMap) (k : Str)
    (hA : ∀ e ∈ A, keyClass e.1 ≠ keyClass k) (hD : ∀ e ∈ D, keyClass e.1 ≠ keyClass k) :
    (setAll (setAll m0 A) D).get? k = m0.get? k := by
  rw [setAll_get?_untouched_class D _ k hD, setAll_get?_untouched_class A _ k hA]

theorem tableNamed_untouched (js : Bool) (query : Str) (pfx : Char) (ns : List Str) (m0 m : VarMap) (k : Str)
    (hk : keyClass k = 0 ∨ keyClass k = 3) (h : tableNamed js query pfx ns m0 = .ok m) : m.get? k = m0.get? k := by
  unfold tableNamed at h
  split at h
  · cases h
  · cases h
    apply named_untouched
    · intro e he; rw [dictWrites_class js query pfx ns e he]; rcases hk with h | h <;> rw [h] <;> decide
    · intro e he; rw [attrWrites_class js pfx ns _ e he]; rcases hk with h | h <;> rw [h] <;> decide

theorem csvNamed_untouched (js : Bool) (query : Str) (pfx : Char) (ns : List Str) (m0 m : VarMap) (k : Str)
    (hk : keyClass k = 0 ∨ keyClass k = 3) (h : csvNamed js query pfx ns m0 = .ok m) : m.get? k = m0.get? k := by
  unfold csvNamed at h
  split at h
  · cases h
  · cases h
    apply named_untouched
    · intro e he; rw [attrWrites_class js pfx ns _ e he]; rcases hk with h | h <;> rw [h] <;> decide
    · intro e he; rw [dictWrites_class js query pfx ns e he]; rcases hk with h | h <;> rw [h] <;> decide

theorem tableVariablesMap_norm_untouched (js : Bool) (query : Str) (pfx : Char) (names : Option (List Str)) (fw : Option Nat)
    (m : VarMap) (k : Str) (hk : keyClass k = 0 ∨ keyClass k = 3)
    (h : tableVariablesMap js query pfx names true fw = .ok m) :
    m.get? k = (positionalVars (!js) pfx query []).get? k := by
  cases names with
  | none =>
    simp only [tableVariablesMap] at h
    cases h; rfl
  | some ns =>
    rw [tableVariablesMap_norm_eq] at h
    by_cases hw : widthBad fw ns = true
    · rw [if_pos hw] at h; cases h
    · rw [if_neg hw] at h
      exact tableNamed_untouched js query pfx ns _ m k hk h

theorem tableVariablesMap_none (js : Bool) (query : Str) (pfx : Char) (nrm : Bool) (fw : Option Nat) :
    tableVariablesMap js query pfx none nrm fw = .ok (positionalVars (!js) pfx query []) := rfl

/-- every adapter: when the named passes run on normalised names (or there are no names), a key of positional shape keeps the
binding of the positional passes -/
theorem iteratorVariablesMap_untouched (kind : IterKind) (js : Bool) (query : Str) (pfx : Char) (names : Option (List Str))
    (normalize : Bool) (fw : Option Nat) (m : VarMap) (k : Str) (hk : keyClass k = 0 ∨ keyClass k = 3)
    (hnorm : normalize = true ∨ names = none ∨ kind = .csv ∨ kind = .sqlite)
    (h : iteratorVariablesMap kind js query pfx names normalize fw = .ok m) :
    m.get? k = (positionalVars (!js) pfx query []).get? k := by
  cases kind with
  | sqlite => exact tableVariablesMap_norm_untouched js query pfx names none m k hk h
  | csv =>
    cases names with
    | none => simp only [iteratorVariablesMap] at h; cases h; rfl
    | some ns =>
      rw [csvVariablesMap_eq] at h
      exact csvNamed_untouched js query pfx ns _ m k hk h
  | table =>
    rcases hnorm with rfl | rfl | h' | h'
    · exact tableVariablesMap_norm_untouched js query pfx names fw m k hk h
    · simp only [iteratorVariablesMap, tableVariablesMap_none] at h; cases h; rfl
    · cases h'
    · cases h'
  | pandas =>
    rcases hnorm with rfl | rfl | h' | h'
    · exact tableVariablesMap_norm_untouched js query pfx names none m k hk h
    · simp only [iteratorVariablesMap, tableVariablesMap_none] at h; cases h; rfl
    · cases h'
    · cases h'

/-! ## the query of the non-vacuity examples -/

/-- `select a1, a["x y"], a.id` over the header `id`, `x y` -/
def iterQuery : Str := "select a1, a[\"x y\"], a.id".toList
def iterNames : List Str := ["id".toList, "x y".toList]
/-- the same with an attribute that is not a column -/
def iterBadQuery : Str := "select a1, a[\"x y\"], a.zz".toList

end Rbql
